/-
pm_c03: model driver for C03.  One operation per line; the answer to every line is the value of
every handle after the operation:
   B<i>=[..] …  R<i>=[..] …  F=[..]|closed|-  iso=ok|bad
or `bad-ref` (unknown handle / fragment in the wrong state), `panic:useAfterUnmap` (the operation
or the read-back touched an unmapped region; every later line of the case answers `dead`).
Ops:
  bnew <csv>            badd <b> <v>        bremove <b> <v>     bclone <b>   bfreeze <b>
  bunion|bintersect|bdifference|bxor <a> <b>
  boffset <b> <offKey> <startKey> <endKey>  bmap <b>  bremap <b>  bunmap <b>  boptimize <b>
  rnew <csv>            rset <x> <col>      runion|rintersect|rdifference|rxor <a> <b>   rmerge <x> <y>
  fopen <shard>   fset <r> <c>   fclear <r> <c>   frow <r>   fsetrow <r> <y>   fclearrow <r>
  fimport <0|1 clear> <vals>     (importRoaring; vals = items a | a-b | a-b/step, fragment positions)
  fsnap   fclose   freopen
`#spec` is the value semantics of Spec.lean.
-/
import PV.Common.Proto
import PV.C03.Model
import PV.C03.Rows
import PV.C03.Spec
open PV.Proto PV.C03

structure St where
  w : World := {}
  s : Spec.SWorld := {}

/-- `a`, `a-b`, `a-b/s` -/
def parseItem (s : String) : Option (List Nat) :=
  match s.splitOn "-" with
  | [a] => a.toNat?.map (fun x => [x])
  | [a, b] =>
      match b.splitOn "/" with
      | [b] => do
          let lo ← a.toNat?
          let hi ← b.toNat?
          pure ((List.range (hi + 1 - lo)).map (· + lo))
      | [b, st] => do
          let lo ← a.toNat?
          let hi ← b.toNat?
          let st ← st.toNat?
          if st = 0 then none else pure ((List.range ((hi - lo) / st + 1)).map (fun i => lo + i * st))
      | _ => none
  | _ => none

def parseVals (s : String) : Option (List Nat) :=
  if s = "-" || s = "" then some [] else ((s.splitOn ",").mapM parseItem).map List.flatten

/-- arithmetic runs of length ≥ 4 are printed `a-b` / `a-b/step` -/
def runEnd (step : Nat) : Nat → List Nat → Nat × List Nat × Nat
  | last, [] => (last, [], 0)
  | last, y :: ys => if y = last + step then let r := runEnd step y ys; (r.1, r.2.1, r.2.2 + 1) else (last, y :: ys, 0)

def showRuns : Nat → List Nat → List String
  | 0, _ => []
  | _, [] => []
  | _, [x] => [toString x]
  | fuel + 1, x :: y :: rest =>
      if y ≤ x then toString x :: showRuns fuel (y :: rest)
      else
        let step := y - x
        let r := runEnd step y rest
        -- r.2.2 + 2 elements in the run x, y, …, r.1
        if r.2.2 + 2 ≥ 4 then
          (toString x ++ "-" ++ toString r.1 ++ (if step = 1 then "" else "/" ++ toString step)) :: showRuns fuel r.2.1
        else toString x :: showRuns fuel (y :: rest)

def showVals (xs : List Nat) : String := "[" ++ " ".intercalate (showRuns (xs.length + 1) xs) ++ "]"

def parseBin : String → Option BinOp
  | "union" => some .union
  | "intersect" => some .intersect
  | "difference" => some .difference
  | "xor" => some .xor
  | _ => none

def parseOp (ws : List String) : Option Op :=
  match ws with
  | ["bnew", v] => (parseVals v).map .bnew
  | ["badd", b, v] => do pure (.badd (← b.toNat?) (← v.toNat?))
  | ["bremove", b, v] => do pure (.bremove (← b.toNat?) (← v.toNat?))
  | ["bclone", b] => b.toNat?.map .bclone
  | ["bfreeze", b] => b.toNat?.map .bfreeze
  | ["bmap", b] => b.toNat?.map .bmap
  | ["bremap", b] => b.toNat?.map .bremap
  | ["bunmap", b] => b.toNat?.map .bunmap
  | ["boptimize", b] => b.toNat?.map .boptimize
  | ["boffset", b, o, s, e] => do pure (.boffset (← b.toNat?) (← o.toNat?) (← s.toNat?) (← e.toNat?))
  | ["rnew", v] => (parseVals v).map .rnew
  | ["rset", x, c] => do pure (.rset (← x.toNat?) (← c.toNat?))
  | ["rmerge", x, y] => do pure (.rmerge (← x.toNat?) (← y.toNat?))
  | ["fopen", s] => s.toNat?.map .fopen
  | ["fset", r, c] => do pure (.fset (← r.toNat?) (← c.toNat?))
  | ["fclear", r, c] => do pure (.fclear (← r.toNat?) (← c.toNat?))
  | ["frow", r] => r.toNat?.map .frow
  | ["fsetrow", r, y] => do pure (.fsetrow (← r.toNat?) (← y.toNat?))
  | ["fclearrow", r] => r.toNat?.map .fclearrow
  | ["fimport", cl, v] => do pure (.fimport (cl == "1") (← parseVals v))
  | ["fsnap"] => some .fsnap
  | ["fclose"] => some .fclose
  | ["freopen"] => some .freopen
  | [name, a, b] =>
      if name.startsWith "b" then do pure (.bbin (← parseBin (name.drop 1).toString) (← a.toNat?) (← b.toNat?))
      else if name.startsWith "r" then do pure (.rbin (← parseBin (name.drop 1).toString) (← a.toNat?) (← b.toNat?))
      else none
  | _ => none

def showIdx (pfx : String) (vals : List (List Nat)) : List String :=
  vals.mapIdx (fun i v => s!"{pfx}{i}={showVals v}")

def dumpModel (w : World) : String :=
  let bs := showIdx "B" (w.bs.map (fun b => w.h.valuesOf b))
  let rs := showIdx "R" (w.rows.map (fun segs => w.rowCols segs))
  let f := match w.frag with
    | none => "F=-"
    | some f => if f.isOpen then "F=" ++ showVals (w.h.valuesOf f.storage) else "F=closed"
  " ".intercalate (bs ++ rs ++ [f, if w.h.isoCheck then "iso=ok" else "iso=bad"])

def dumpSpec (s : Spec.SWorld) : String :=
  let bs := showIdx "B" s.bs
  let rs := showIdx "R" s.rows
  let f := match s.frag with
    | none => "F=-"
    | some f => if f.isOpen then "F=" ++ showVals f.bits else "F=closed"
  " ".intercalate (bs ++ rs ++ [f, "iso=ok"])

/-- every container the read-back touches -/
def liveConts (w : World) : List Nat :=
  (w.bs.flatMap (fun b => (w.h.bms b).map (·.2))) ++
  (w.rows.flatMap (fun segs => segs.flatMap (fun s => (w.h.bms s.bm).map (·.2)))) ++
  (match w.frag with | some f => if f.isOpen then (w.h.bms f.storage).map (·.2) else [] | none => [])

def step (st : St) (ws : List String) : St × Ans :=
  if st.w.dead then (st, ans "dead") else
  match parseOp ws with
  | none => (st, ans "bad-op")
  | some op =>
    match (match op with
           | .bremap b | .bunmap b => if st.w.files.contains b then Spec.step st.s op else none
           | _ => Spec.step st.s op) with
    | none => (st, ans "bad-ref")
    | some s' =>
      if !(st.w.reads op).all st.w.h.readable then
        ({ w := { st.w with dead := true }, s := s' }, ans2 "panic:useAfterUnmap" (dumpSpec s') "use-after-unmap")
      else
        match st.w.step op with
        | none => (st, ans "bad-ref")
        | some w' =>
          if !(liveConts w').all w'.h.readable then
            ({ w := { w' with dead := true }, s := s' }, ans2 "panic:useAfterUnmap" (dumpSpec s') "use-after-unmap")
          else
            ({ w := w', s := s' }, ans2 (dumpModel w') (dumpSpec s') "value")

def main : IO Unit := run ({} : St) step
