/-
C25 helper lemmas, part 6: the block cursor of Blocks computes a plain recursion over the bucket
(`blockList`).  Core Lean only.
-/
import PV.C25.Lemmas5
set_option linter.unusedSimpArgs false
namespace PV.C25
open List

/-! ### prefixes cut out by a downward-closed predicate -/

theorem takeWhile_dropWhile_filter {α : Type} (p : α → Bool) (l : List α)
    (h : l.Pairwise (fun a b => p b = true → p a = true)) :
    l.takeWhile p = l.filter p ∧ l.dropWhile p = l.filter (fun x => !p x) := by
  induction l with
  | nil => simp
  | cons x xs ih =>
    obtain ⟨hx, hxs⟩ := pairwise_cons.mp h
    obtain ⟨i1, i2⟩ := ih hxs
    by_cases c : p x = true
    · simp [takeWhile_cons, dropWhile_cons, filter_cons, c, i1, i2]
    · have hall : ∀ y ∈ xs, p y = false := by
        intro y hy
        cases hp : p y with
        | false => rfl
        | true => exact absurd (hx y hy hp) c
      have c' : p x = false := by simpa using c
      have f1 : xs.filter p = [] := by
        rw [filter_eq_nil_iff]; intro y hy; simp [hall y hy]
      have f2 : xs.filter (fun x => !p x) = xs := by
        rw [filter_eq_self]; intro y hy; simp [hall y hy]
      simp [takeWhile_cons, dropWhile_cons, filter_cons, c', f1, f2]

/-! ### the block cursor -/

def blk (e : Nat × Enc) : Nat := e.1 / attrBlockSize

/-- "not past the block": the test of blockCursor.next -/
def inBlk (base : Nat) (e : Nat × Enc) : Bool := decide (¬ e.1 / attrBlockSize > base)

def curAfter (base : Nat) : List (Nat × Enc) → Cur
  | [] => ⟨[], base, none, false⟩
  | x :: xs => ⟨xs, base, some x, true⟩

theorem drain_unfilled (rest : List (Nat × Enc)) : ∀ (base : Nat) (bk : Option (Nat × Enc))
    (acc : List (Nat × Enc)) (fuel : Nat), rest.length + 1 ≤ fuel →
    Cur.drain fuel ⟨rest, base, bk, false⟩ acc =
      (curAfter base (rest.dropWhile (inBlk base)), acc ++ rest.takeWhile (inBlk base)) := by
  induction rest with
  | nil =>
    intro base bk acc fuel hf
    cases fuel with
    | zero => omega
    | succ fuel => simp [Cur.drain, Cur.next, curAfter]
  | cons e rest ih =>
    intro base bk acc fuel hf
    cases fuel with
    | zero => omega
    | succ fuel =>
      simp only [length_cons] at hf
      by_cases c : e.1 / attrBlockSize > base
      · have : inBlk base e = false := by simp [inBlk, c]
        simp [Cur.drain, Cur.next, c, this, takeWhile_cons, dropWhile_cons, curAfter]
      · have : inBlk base e = true := by simp [inBlk, c]
        simp only [Cur.drain, Cur.next, c, if_false, Bool.false_eq_true, takeWhile_cons, dropWhile_cons, this, if_true]
        rw [ih base bk (acc ++ [e]) fuel (by omega)]
        simp

theorem drain_filled (rest : List (Nat × Enc)) (base : Nat) (e : Nat × Enc) (fuel : Nat)
    (hf : rest.length + 2 ≤ fuel) :
    Cur.drain fuel ⟨rest, base, some e, true⟩ [] =
      (curAfter base (rest.dropWhile (inBlk base)), e :: rest.takeWhile (inBlk base)) := by
  cases fuel with
  | zero => omega
  | succ fuel =>
    simp only [Cur.drain, Cur.next, if_true]
    rw [drain_unfilled rest base (some e) ([] ++ [e]) fuel (by omega)]
    simp

/-- what Blocks computes, as a plain recursion over the bucket -/
def blockList {χ : Type} (H : List (Nat × Enc) → χ) : List (Nat × Enc) → List (Block χ)
  | [] => []
  | e :: rest =>
    ⟨blk e, H (e :: rest.takeWhile (inBlk (blk e)))⟩ :: blockList H (rest.dropWhile (inBlk (blk e)))
termination_by l => l.length
decreasing_by
  simp only [length_cons]
  have := (dropWhile_sublist (inBlk (blk e)) (l := rest)).length_le
  omega

theorem blocksLoop_spec {χ : Type} (H : List (Nat × Enc) → χ) : ∀ (n : Nat) (l : List (Nat × Enc)),
    l.length ≤ n → ∀ (b : Nat) (acc : List (Block χ)) (fuel : Nat), l.length + 1 ≤ fuel →
    blocksLoop H fuel (curAfter b l) acc = acc ++ blockList H l := by
  intro n
  induction n with
  | zero =>
    intro l hl b acc fuel hf
    have : l = [] := length_eq_zero_iff.mp (by omega)
    subst this
    cases fuel with
    | zero => omega
    | succ fuel => simp [blocksLoop, curAfter, Cur.nextBlock, blockList]
  | succ n ih =>
    intro l hl b acc fuel hf
    cases l with
    | nil =>
      cases fuel with
      | zero => omega
      | succ fuel => simp [blocksLoop, curAfter, Cur.nextBlock, blockList]
    | cons e rest =>
      cases fuel with
      | zero => omega
      | succ fuel =>
        simp only [length_cons] at hl hf
        have hd := (dropWhile_sublist (inBlk (blk e)) (l := rest)).length_le
        simp only [blocksLoop, curAfter, Cur.nextBlock]
        rw [drain_filled rest (e.1 / attrBlockSize) e _ (by omega)]
        simp only
        have := ih (rest.dropWhile (inBlk (blk e))) (by omega) (blk e)
          (acc ++ [⟨blk e, H (e :: rest.takeWhile (inBlk (blk e)))⟩]) fuel (by omega)
        simp only [blk] at this ⊢
        rw [this, blockList]
        simp [blk]

theorem blocks_eq_blockList {χ : Type} (H : List (Nat × Enc) → χ) (db : List (Nat × Enc)) :
    blocks H db = blockList H db := by
  unfold blocks
  have : Cur.new db = curAfter 0 db ∨ db = [] := by
    cases db with
    | nil => exact Or.inr rfl
    | cons e rest => exact Or.inl rfl
  rcases this with h | h
  · rw [h, blocksLoop_spec H db.length db (Nat.le_refl _) 0 [] _ (Nat.le_refl _)]; simp
  · subst h; simp [blocksLoop, Cur.new, Cur.nextBlock, blockList]

end PV.C25
