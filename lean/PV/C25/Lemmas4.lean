/-
C25 helper lemmas, part 4: the invariant tying the world (heap, stores, caches, handed-out maps)
to the specification state; attrStore.Attrs.  Core Lean only.
-/
import PV.C25.Lemmas3
namespace PV.C25
open List

/-- A store value agrees with the finite map `sm`, and its cache holds, per id, an object with the
id's current attributes that no caller holds. -/
structure StoreOK (w : World) (st : Store) (sm : Spec.SMap) : Prop where
  db : DbOK st.db
  abs : absDb st.db = sm
  cache : ∀ p ∈ st.cache, p.2 ∉ w.held ∧ p.2 < w.heap.length ∧ w.obj p.2 = Spec.get sm p.1

/-- The world agrees with the specification state `sp` (one finite map per store), `emptyMap` is
empty, and nothing a caller holds is `emptyMap` or a cached object. -/
structure WInv (w : World) (sp : List Spec.SMap) : Prop where
  n : w.stores.length = sp.length
  pos : 0 < w.heap.length
  empty : w.obj 0 = []
  held : ∀ h ∈ w.held, h ≠ 0 ∧ h < w.heap.length
  stores : ∀ s < w.stores.length, StoreOK w (w.store s) (sp.getD s [])

theorem StoreOK.ext {w w' : World} {st : Store} {sm : Spec.SMap} (h : StoreOK w st sm)
    (hx : HeapExt w w') : StoreOK w' st sm :=
  ⟨h.db, h.abs, fun p hp => by
    obtain ⟨a, b, c⟩ := h.cache p hp
    exact ⟨by rw [hx.held]; exact a, Nat.lt_of_lt_of_le b hx.len, by rw [hx.old p.2 b]; exact c⟩⟩

theorem StoreOK.setCache {w : World} {st : Store} {sm : Spec.SMap} (h : StoreOK w st sm) (id x : Nat)
    (hx1 : x ∉ w.held) (hx2 : x < w.heap.length) (hx3 : w.obj x = Spec.get sm id) :
    StoreOK w { st with cache := cacheSet st.cache id x } sm :=
  ⟨h.db, h.abs, fun p hp => by
    rcases mem_cacheSet _ _ _ _ hp with rfl | ⟨hp, _⟩
    · exact ⟨hx1, hx2, hx3⟩
    · exact h.cache p hp⟩

theorem WInv.ext {w w' : World} {sp : List Spec.SMap} (h : WInv w sp) (hx : HeapExt w w')
    (hs : w'.stores = w.stores) : WInv w' sp where
  n := by rw [hs]; exact h.n
  pos := Nat.lt_of_lt_of_le h.pos hx.len
  empty := by rw [hx.old 0 h.pos]; exact h.empty
  held := fun x hxm => by
    rw [hx.held] at hxm
    exact ⟨(h.held x hxm).1, Nat.lt_of_lt_of_le (h.held x hxm).2 hx.len⟩
  stores := fun s hsl => by
    have hst : w'.store s = w.store s := by simp [World.store, hs]
    rw [hs] at hsl; rw [hst]; exact (h.stores s hsl).ext hx

theorem HeapExt.setStore (w : World) (s : Nat) (st : Store) : HeapExt w (w.setStore s st) :=
  ⟨rfl, Nat.le_refl _, fun _ _ => rfl⟩

/-- putting a store value that agrees with `sm` into slot `s` -/
theorem WInv.setStore {w : World} {sp : List Spec.SMap} (h : WInv w sp) (s : Nat) (st : Store)
    (sm : Spec.SMap) (hs : s < w.stores.length) (hst : StoreOK w st sm) :
    WInv (w.setStore s st) (sp.set s sm) := by
  have hlen : (w.setStore s st).stores.length = w.stores.length := by simp [World.setStore]
  refine ⟨by rw [hlen, h.n]; simp, h.pos, h.empty, h.held, ?_⟩
  intro s' hs'
  rw [hlen] at hs'
  by_cases e : s' = s
  · subst e
    rw [store_setStore_same _ _ _ hs]
    have : (sp.set s' sm).getD s' [] = sm := by
      simp [getD_eq_getElem?_getD, getElem?_set_self (by rw [← h.n]; exact hs)]
    rw [this]
    exact hst.ext (HeapExt.setStore w s' st)
  · rw [store_setStore_other _ _ _ _ e]
    have : (sp.set s sm).getD s' [] = sp.getD s' [] := by
      simp [getD_eq_getElem?_getD, getElem?_set_ne (Ne.symm e)]
    rw [this]
    exact (h.stores s' hs').ext (HeapExt.setStore w s st)

theorem set_getD_self (sp : List Spec.SMap) (s : Nat) (hs : s < sp.length) :
    sp.set s (sp.getD s []) = sp := by
  apply ext_getElem?
  intro i
  by_cases e : s = i
  · subst e; simp [getD_eq_getElem?_getD, getElem?_set_self hs, getElem?_eq_getElem hs]
  · simp [getElem?_set_ne e]

theorem stores_alloc (w : World) (m : AttrMap) : (w.alloc m).1.stores = w.stores := rfl
theorem held_alloc (w : World) (m : AttrMap) : (w.alloc m).1.held = w.held := rfl
theorem heap_setStore (w : World) (s : Nat) (st : Store) : (w.setStore s st).heap = w.heap := rfl
theorem held_setStore (w : World) (s : Nat) (st : Store) : (w.setStore s st).held = w.held := rfl
theorem obj_setStore (w : World) (s : Nat) (st : Store) (h : Nat) : (w.setStore s st).obj h = w.obj h := rfl
theorem len_alloc (w : World) (m : AttrMap) : (w.alloc m).1.heap.length = w.heap.length + 1 := by
  simp [World.alloc]
theorem snd_alloc (w : World) (m : AttrMap) : (w.alloc m).2 = w.heap.length := rfl
theorem len_setStore (w : World) (s : Nat) (st : Store) : (w.setStore s st).stores.length = w.stores.length := by
  simp [World.setStore]

theorem attrsObj_hit (w : World) (s id x : Nat) (hc : cacheGet (w.store s).cache id = some x) :
    attrsObj w s id = w.alloc (w.obj x) := by simp [attrsObj, hc]

theorem attrsObj_absent (w : World) (s id : Nat) (hc : cacheGet (w.store s).cache id = none)
    (hg : amGet (w.store s).db id = none) :
    attrsObj w s id =
      (w.setStore s { (w.store s) with cache := cacheSet (w.store s).cache id emptyMapH }).alloc
        ((w.setStore s { (w.store s) with cache := cacheSet (w.store s).cache id emptyMapH }).obj emptyMapH) := by
  simp [attrsObj, hc, hg]

theorem attrsObj_present (w : World) (s id : Nat) (e : Enc) (hc : cacheGet (w.store s).cache id = none)
    (hg : amGet (w.store s).db id = some e) :
    attrsObj w s id =
      ((w.alloc (decodeAttrs e)).1.setStore s
          { (w.store s) with cache := cacheSet (w.store s).cache id (w.alloc (decodeAttrs e)).2 }).alloc
        (((w.alloc (decodeAttrs e)).1.setStore s
          { (w.store s) with cache := cacheSet (w.store s).cache id (w.alloc (decodeAttrs e)).2 }).obj
            (w.alloc (decodeAttrs e)).2) := by
  simp [attrsObj, hc, hg]

/-- every cached object is older than `x` -/
def CacheBelow (w : World) (x : Nat) : Prop :=
  ∀ s < w.stores.length, ∀ p ∈ (w.store s).cache, p.2 < x

theorem WInv.cacheBelow {w : World} {sp : List Spec.SMap} (h : WInv w sp) : CacheBelow w w.heap.length :=
  fun s hs p hp => ((h.stores s hs).cache p hp).2.1

/-- attrStore.Attrs: the caller gets a fresh object holding the id's attributes -/
theorem attrsObj_ok {w : World} {sp : List Spec.SMap} (h : WInv w sp) (s id : Nat)
    (hs : s < w.stores.length) :
    WInv (attrsObj w s id).1 sp ∧ HeapExt w (attrsObj w s id).1 ∧
      (attrsObj w s id).1.obj (attrsObj w s id).2 = Spec.get (sp.getD s []) id ∧
      w.heap.length ≤ (attrsObj w s id).2 ∧
      (attrsObj w s id).1.heap.length = (attrsObj w s id).2 + 1 ∧
      (attrsObj w s id).1.stores.length = w.stores.length ∧
      CacheBelow (attrsObj w s id).1 (attrsObj w s id).2 := by
  have hsp : sp.set s (sp.getD s []) = sp := set_getD_self sp s (by rw [← h.n]; exact hs)
  cases hc : cacheGet (w.store s).cache id with
  | some x =>
    rw [attrsObj_hit w s id x hc]
    have hmem := cacheGet_mem _ _ _ hc
    refine ⟨h.ext (HeapExt.alloc w _) rfl, HeapExt.alloc w _, ?_, ?_, ?_, rfl, ?_⟩
    · rw [obj_alloc_new]; exact ((h.stores s hs).cache _ hmem).2.2
    · simp [snd_alloc]
    · simp [snd_alloc, len_alloc]
    · intro s' hs' p hp
      rw [snd_alloc]; exact h.cacheBelow s' hs' p hp
  | none =>
    cases hg : amGet (w.store s).db id with
    | none =>
      rw [attrsObj_absent w s id hc hg]
      have hget : Spec.get (sp.getD s []) id = [] := by
        rw [← (h.stores s hs).abs, get_absDb, hg]; rfl
      have h0 : (0 : Nat) ∉ w.held := fun hm => (h.held 0 hm).1 rfl
      have hw2 := h.setStore s _ _ hs ((h.stores s hs).setCache id emptyMapH h0 h.pos (by rw [hget]; exact h.empty))
      rw [hsp] at hw2
      refine ⟨hw2.ext (HeapExt.alloc _ _) rfl, (HeapExt.setStore w s _).trans (HeapExt.alloc _ _),
        ?_, ?_, ?_, by simp [World.alloc, World.setStore], ?_⟩
      · rw [obj_alloc_new, obj_setStore, hget]; exact h.empty
      · simp [snd_alloc, heap_setStore]
      · simp [snd_alloc, len_alloc]
      · intro s' hs' p hp
        rw [snd_alloc, heap_setStore]
        exact hw2.cacheBelow s' hs' p hp
    | some e =>
      rw [attrsObj_present w s id e hc hg]
      have hget : Spec.get (sp.getD s []) id = decodeAttrs e := by
        rw [← (h.stores s hs).abs, get_absDb, hg]; rfl
      have hw1 := h.ext (HeapExt.alloc w (decodeAttrs e)) rfl
      have hst : (w.alloc (decodeAttrs e)).1.store s = w.store s := rfl
      have hso := (hw1.stores s (by simpa [stores_alloc] using hs)).setCache id (w.alloc (decodeAttrs e)).2
        (by rw [held_alloc, snd_alloc]; intro hm; exact absurd (h.held _ hm).2 (Nat.lt_irrefl _))
        (by simp [snd_alloc, len_alloc])
        (by rw [obj_alloc_new, hget])
      rw [hst] at hso
      have hw2 := hw1.setStore s _ _ (by simpa [stores_alloc] using hs) hso
      rw [hsp] at hw2
      refine ⟨hw2.ext (HeapExt.alloc _ _) rfl,
        ((HeapExt.alloc w _).trans (HeapExt.setStore _ s _)).trans (HeapExt.alloc _ _),
        ?_, ?_, ?_, by simp [World.alloc, World.setStore], ?_⟩
      · rw [obj_alloc_new, obj_setStore, obj_alloc_new, hget]
      · simp [snd_alloc, heap_setStore, len_alloc]
      · simp [snd_alloc, len_alloc]
      · intro s' hs' p hp
        rw [snd_alloc, heap_setStore]
        exact hw2.cacheBelow s' hs' p hp

end PV.C25
