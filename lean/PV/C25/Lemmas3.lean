/-
C25 helper lemmas, part 3: heap / store primitives, worlds that differ by fresh objects only
(`HeapExt`), the effect of txUpdateAttrs.  Core Lean only.
-/
import PV.C25.Lemmas2
namespace PV.C25
open List

/-! ### heap and store primitives -/

theorem obj_alloc_old (w : World) (m : AttrMap) (h : Nat) (hh : h < w.heap.length) :
    (w.alloc m).1.obj h = w.obj h := by
  simp [World.alloc, World.obj, getD_eq_getElem?_getD, getElem?_append_left hh]

theorem obj_alloc_new (w : World) (m : AttrMap) : (w.alloc m).1.obj (w.alloc m).2 = m := by
  simp [World.alloc, World.obj, getD_eq_getElem?_getD]

theorem store_setStore_same (w : World) (s : Nat) (st : Store) (hs : s < w.stores.length) :
    (w.setStore s st).store s = st := by
  simp [World.setStore, World.store, getD_eq_getElem?_getD, getElem?_set_self hs]

theorem store_setStore_other (w : World) (s s' : Nat) (st : Store) (hne : s' ≠ s) :
    (w.setStore s st).store s' = w.store s' := by
  simp [World.setStore, World.store, getD_eq_getElem?_getD, getElem?_set_ne (Ne.symm hne)]

theorem obj_set_other (w : World) (h h' : Nat) (m : AttrMap) (hne : h' ≠ h) :
    ({ w with heap := w.heap.set h m } : World).obj h' = w.obj h' := by
  simp [World.obj, getD_eq_getElem?_getD, getElem?_set_ne (Ne.symm hne)]

theorem obj_set_same (w : World) (h : Nat) (m : AttrMap) (hh : h < w.heap.length) :
    ({ w with heap := w.heap.set h m } : World).obj h = m := by
  simp [World.obj, getD_eq_getElem?_getD, getElem?_set_self hh]

theorem mem_cacheSet (c : List (Nat × Nat)) (id h : Nat) (p : Nat × Nat) (hp : p ∈ cacheSet c id h) :
    p = (id, h) ∨ (p ∈ c ∧ p.1 ≠ id) := by
  simp only [cacheSet, mem_cons, mem_filter] at hp
  rcases hp with hp | ⟨hp1, hp2⟩
  · exact Or.inl hp
  · exact Or.inr ⟨hp1, by simpa using hp2⟩

theorem cacheGet_mem (c : List (Nat × Nat)) (id h : Nat) (hg : cacheGet c id = some h) : (id, h) ∈ c := by
  induction c with
  | nil => simp [cacheGet] at hg
  | cons p c ih =>
    obtain ⟨a, b⟩ := p
    simp only [cacheGet, lookup_cons] at hg
    by_cases e : id = a
    · subst e; simp at hg; simp [hg]
    · have : (id == a) = false := by simp [e]
      simp only [this] at hg
      simp [ih hg]

/-- `w'` differs from `w` only by fresh objects: same stores? no — same handed-out maps, old
objects untouched. -/
structure HeapExt (w w' : World) : Prop where
  held : w'.held = w.held
  len : w.heap.length ≤ w'.heap.length
  old : ∀ h < w.heap.length, w'.obj h = w.obj h

theorem HeapExt.refl (w : World) : HeapExt w w := ⟨rfl, Nat.le_refl _, fun _ _ => rfl⟩

theorem HeapExt.trans {a b c : World} (h1 : HeapExt a b) (h2 : HeapExt b c) : HeapExt a c :=
  ⟨h2.held.trans h1.held, Nat.le_trans h1.len h2.len,
    fun h hh => (h2.old h (Nat.lt_of_lt_of_le hh h1.len)).trans (h1.old h hh)⟩

theorem HeapExt.alloc (w : World) (m : AttrMap) : HeapExt w (w.alloc m).1 :=
  ⟨rfl, by simp [World.alloc], fun h hh => obj_alloc_old w m h hh⟩

/-! ### txUpdateAttrs -/

theorem txUpdate_none (w : World) (db : List (Nat × Enc)) (id : Nat) (m : List (Nat × InVal))
    (hv : Spec.valid m = false) : txUpdateAttrs w db id m = none := by
  unfold txUpdateAttrs
  simp only [mergeInto_eq, hv]
  simp

/-- the effect of txUpdateAttrs when every value type is supported -/
theorem txUpdate_some (w : World) (db : List (Nat × Enc)) (id : Nat) (m : List (Nat × InVal))
    (h0 : w.obj 0 = []) (hdb : DbOK db) (hv : Spec.valid m = true) :
    ∃ w' attr, txUpdateAttrs w db id m = some (w',
        (if (Spec.merge (Spec.get (absDb db) id) m).length = 0 then amDel db id
          else amSet db id (encodeAttrs (Spec.merge (Spec.get (absDb db) id) m))), attr) ∧
      HeapExt w w' ∧ w'.stores = w.stores ∧ w.heap.length ≤ attr ∧ attr < w'.heap.length ∧
      w'.obj attr = Spec.merge (Spec.get (absDb db) id) m := by
  unfold txUpdateAttrs
  cases hg : amGet db id with
  | none =>
    have hget : Spec.get (absDb db) id = [] := by simp [get_absDb, hg]
    have hl : ((w, emptyMapH).1.obj (w, emptyMapH).2).length = 0 := by simp [emptyMapH, h0]
    simp only [hl, if_true, obj_alloc_new, mergeInto_eq, hv, hget]
    refine ⟨_, _, rfl, ?_, rfl, ?_, ?_, ?_⟩
    · refine ⟨rfl, by simp [World.alloc], fun h hh => ?_⟩
      rw [obj_set_other _ _ _ _ (by simp [World.alloc]; omega)]
      exact obj_alloc_old w [] h hh
    · simp [World.alloc]
    · simp [World.alloc]
    · exact obj_set_same _ _ _ (by simp [World.alloc])
  | some e =>
    obtain ⟨m0, hm0, hne, henc⟩ := hdb.2 (id, e) (amGet_mem db id e hg)
    simp only at henc
    have hget : Spec.get (absDb db) id = m0 := by simp [get_absDb, hg, henc, decode_encode m0 hm0]
    have hdec : decodeAttrs e = m0 := by rw [henc, decode_encode m0 hm0]
    have hl : ¬ m0.length = 0 := by simpa using hne
    simp only [obj_alloc_new, mergeInto_eq, hv, hget, hdec, hl, if_false, if_true]
    refine ⟨_, _, rfl, ?_, rfl, ?_, ?_, ?_⟩
    · refine ⟨rfl, by simp [World.alloc], fun h hh => ?_⟩
      rw [obj_set_other _ _ _ _ (by simp [World.alloc]; omega)]
      exact obj_alloc_old w _ h hh
    · simp [World.alloc]
    · simp [World.alloc]
    · exact obj_set_same _ _ _ (by simp [World.alloc])

end PV.C25
