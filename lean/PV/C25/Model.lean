/-
C25 model: the attribute store of /repo/boltdb/attrstore.go and the block diff of /repo/attr.go.

Modelled (Go names):
  * `Val`, `InVal`, `coerce`                     the value kinds stored / the dynamic types a caller may pass,
                                                  the type switch of txUpdateAttrs (nil deletes; int, uint, uint64 → int64)
  * `PbAttr`, `encodeAttr`, `decodeAttr`,
    `encodeAttrs`, `decodeAttrs`                  internal.Attr and the functions of the same names in attr.go
  * heap of map objects                           Go maps are references: `World.heap[h]` is the map object `h`;
                                                  object 0 is the package-level `emptyMap` shared by every store
  * `attrs`                                       attrStore.Attrs + attrCache.Get/Set (copy on a hit, decode + cache +
                                                  copy on a miss — the code after the fix of this round)
  * `mapContains`, `setAttrs`, `setBulkAttrs`,
    `txAttrs`, `txUpdateAttrs`                    same names
  * `Cur`, `blocks`, `blockData`                  blockCursor (buffered key), attrStore.Blocks, attrStore.BlockData
  * `diff`                                        attrBlocks.Diff
  * `mutate`                                      a caller writing into a map it was handed earlier

A Go map is represented canonically: an association list with strictly ascending keys, so two
maps are equal iff the lists are.  Attribute keys are naturals (any linearly ordered key type
behaves the same; the driver injects byte strings order-preservingly, `sort.Strings` being
byte-wise lexicographic).  The bolt bucket is an association list with strictly ascending ids
holding the encoded value.  The protobuf wire codec is not modelled: an encoded value is the list
of `internal.Attr` records that `proto.Marshal` is given (trusted to be injective on them).
Floats are opaque bit patterns.  The checksum hash is a parameter.  Core Lean only.
-/
namespace PV.C25

/-! ### values -/

inductive Val where
  | str (s : List Nat)
  | int (i : Int)
  | bool (b : Bool)
  | float (bits : Nat)
deriving Repr, DecidableEq, Inhabited

/-- What a caller can put into the map it passes to SetAttrs / SetBulkAttrs. -/
inductive InVal where
  | nil
  | str (s : List Nat)
  | int64 (i : Int)
  | goInt (i : Int)
  | goUint (n : Nat)
  | uint64 (n : Nat)
  | bool (b : Bool)
  | float (bits : Nat)
  | other                      -- any other dynamic type: "invalid attr type"
deriving Repr, DecidableEq, Inhabited

/-- `int64(v)` for an unsigned 64-bit value. -/
def toInt64 (n : Nat) : Int :=
  let m : Nat := n % 2 ^ 64
  if m ≥ 2 ^ 63 then (m : Int) - (2 ^ 64 : Nat) else (m : Int)

inductive Coerced where
  | delete
  | put (v : Val)
  | invalid
deriving Repr, DecidableEq

/-- The type switch of txUpdateAttrs. -/
def coerce : InVal → Coerced
  | .nil => .delete
  | .goInt i => .put (.int i)
  | .goUint n => .put (.int (toInt64 n))
  | .uint64 n => .put (.int (toInt64 n))
  | .str s => .put (.str s)
  | .int64 i => .put (.int i)
  | .bool b => .put (.bool b)
  | .float f => .put (.float f)
  | .other => .invalid

/-- Go `value != v` between a stored value and a caller value (interface comparison: same
dynamic type and same value; floats are never NaN / -0 here, see the assumptions). -/
def sameIface (stored : Val) (v : InVal) : Bool :=
  match stored, v with
  | .str a, .str b => a = b
  | .int a, .int64 b => a = b
  | .bool a, .bool b => a = b
  | .float a, .float b => a = b
  | _, _ => false

/-! ### canonical association lists -/

abbrev AttrMap := List (Nat × Val)

def amGet {β : Type} : List (Nat × β) → Nat → Option β
  | [], _ => none
  | (k, v) :: rest, key => if k = key then some v else if key < k then none else amGet rest key

def amSet {β : Type} : List (Nat × β) → Nat → β → List (Nat × β)
  | [], key, v => [(key, v)]
  | (k, w) :: rest, key, v =>
    if key < k then (key, v) :: (k, w) :: rest
    else if key = k then (k, v) :: rest
    else (k, w) :: amSet rest key v

def amDel {β : Type} : List (Nat × β) → Nat → List (Nat × β)
  | [], _ => []
  | (k, w) :: rest, key =>
    if key < k then (k, w) :: rest
    else if key = k then rest
    else (k, w) :: amDel rest key

/-! ### internal.Attr -/

structure PbAttr where
  key : Nat
  typ : Nat
  s : List Nat
  i : Int
  b : Bool
  f : Nat
deriving Repr, DecidableEq, Inhabited

def attrTypeString : Nat := 1
def attrTypeInt : Nat := 2
def attrTypeBool : Nat := 3
def attrTypeFloat : Nat := 4

def encodeAttr (key : Nat) : Val → PbAttr
  | .str s => ⟨key, attrTypeString, s, 0, false, 0⟩
  | .float f => ⟨key, attrTypeFloat, [], 0, false, f⟩
  | .int i => ⟨key, attrTypeInt, [], i, false, 0⟩
  | .bool b => ⟨key, attrTypeBool, [], 0, b, 0⟩

/-- decodeAttr; `none` is the Go `nil` value of an unknown type tag. -/
def decodeAttr (a : PbAttr) : Nat × Option Val :=
  if a.typ = attrTypeString then (a.key, some (.str a.s))
  else if a.typ = attrTypeInt then (a.key, some (.int a.i))
  else if a.typ = attrTypeBool then (a.key, some (.bool a.b))
  else if a.typ = attrTypeFloat then (a.key, some (.float a.f))
  else (a.key, none)

abbrev Enc := List PbAttr

/-- EncodeAttrs: keys sorted (the canonical list already is), one record per key. -/
def encodeAttrs (m : AttrMap) : Enc := m.map (fun kv => encodeAttr kv.1 kv.2)

/-- one record of DecodeAttrs going into the map (`m[key] = value`; a record of unknown type
would store a nil value; it cannot arise from `encodeAttrs` and is dropped here) -/
def decodeStep (m : AttrMap) (a : PbAttr) : AttrMap :=
  match decodeAttr a with
  | (k, some v) => amSet m k v
  | (k, none) => amDel m k

/-- DecodeAttrs: insert every record into a fresh map. -/
def decodeAttrs (e : Enc) : AttrMap := e.foldl decodeStep []

/-! ### the world: heap of map objects, two stores, the handles callers hold -/

structure Store where
  /-- bucket "attrs": id → encoded attributes, ascending ids. -/
  db : List (Nat × Enc)
  /-- attrCache.attrs: id → map object. -/
  cache : List (Nat × Nat)
deriving Repr

structure World where
  /-- map objects; object 0 is `emptyMap`. -/
  heap : List AttrMap
  stores : List Store
  /-- maps handed to callers by `Attrs`, in the order they were returned. -/
  held : List Nat
deriving Repr

def World.init (nStores : Nat) : World := ⟨[[]], List.replicate nStores ⟨[], []⟩, []⟩

def emptyMapH : Nat := 0

def World.obj (w : World) (h : Nat) : AttrMap := w.heap.getD h []

def World.alloc (w : World) (m : AttrMap) : World × Nat :=
  ({ w with heap := w.heap ++ [m] }, w.heap.length)

def World.store (w : World) (s : Nat) : Store := w.stores.getD s ⟨[], []⟩

def World.setStore (w : World) (s : Nat) (st : Store) : World := { w with stores := w.stores.set s st }

def cacheGet (c : List (Nat × Nat)) (id : Nat) : Option Nat := c.lookup id

def cacheSet (c : List (Nat × Nat)) (id h : Nat) : List (Nat × Nat) :=
  (id, h) :: c.filter (fun p => p.1 ≠ id)

/-- attrStore.Attrs without the final hand-over: the map object the caller receives.
Cache hit: a copy.  Miss: `emptyMap` or the freshly decoded map goes into the cache and the caller
gets a copy of it. -/
def attrsObj (w : World) (s id : Nat) : World × Nat :=
  let st := w.store s
  match cacheGet st.cache id with
  | some h => w.alloc (w.obj h)
  | none =>
    let (w1, m) := match amGet st.db id with
      | none => (w, emptyMapH)
      | some e => w.alloc (decodeAttrs e)
    let w2 := w1.setStore s { st with cache := cacheSet st.cache id m }
    w2.alloc (w2.obj m)

/-- attrStore.Attrs called by a client: the returned map is now held by the caller. -/
def attrs (w : World) (s id : Nat) : World × Nat :=
  let (w', h) := attrsObj w s id
  ({ w' with held := w'.held ++ [h] }, h)

/-- mapContains(attr, subset). -/
def mapContains (attr : AttrMap) (m : List (Nat × InVal)) : Bool :=
  m.all (fun kv => match amGet attr kv.1 with
    | none => false
    | some v => sameIface v kv.2)

/-- The merge loop of txUpdateAttrs on the map value; `none` = "invalid attr type". -/
def mergeInto : AttrMap → List (Nat × InVal) → Option AttrMap
  | attr, [] => some attr
  | attr, (k, v) :: rest =>
    match coerce v with
    | .delete => mergeInto (amDel attr k) rest
    | .put x => mergeInto (amSet attr k x) rest
    | .invalid => none

/-- txUpdateAttrs on the bucket `db`: `(world, db', map object)` or `none` on an invalid type
(the transaction is rolled back by the caller). -/
def txUpdateAttrs (w : World) (db : List (Nat × Enc)) (id : Nat) (m : List (Nat × InVal)) :
    Option (World × List (Nat × Enc) × Nat) :=
  -- txAttrs
  let (w1, attr) := match amGet db id with
    | none => (w, emptyMapH)
    | some e => w.alloc (decodeAttrs e)
  -- a new map if it is empty so we don't update emptyMap
  let (w2, attr) := if (w1.obj attr).length = 0 then w1.alloc [] else (w1, attr)
  match mergeInto (w2.obj attr) m with
  | none => none
  | some merged =>
    -- the map object is updated in place
    let w3 := { w2 with heap := w2.heap.set attr merged }
    -- no attributes left: the entry is removed; otherwise marshalled and saved
    let db' := if merged.length = 0 then amDel db id else amSet db id (encodeAttrs merged)
    some (w3, db', attr)

/-- attrStore.SetAttrs: `(world, ok)`. -/
def setAttrs (w : World) (s id : Nat) (m : List (Nat × InVal)) : World × Bool :=
  if m.length = 0 then (w, true) else
  let (w1, h) := attrsObj w s id
  if mapContains (w1.obj h) m then (w1, true) else
  let st := w1.store s
  match txUpdateAttrs w1 st.db id m with
  | none => (w1, false)
  | some (w2, db', attr) =>
    (w2.setStore s { db := db', cache := cacheSet st.cache id attr }, true)

/-- The loop of SetBulkAttrs inside one transaction (ids ascending). -/
def bulkLoop : World → List (Nat × Enc) → List (Nat × List (Nat × InVal)) → List (Nat × Nat) →
    Option (World × List (Nat × Enc) × List (Nat × Nat))
  | w, db, [], acc => some (w, db, acc)
  | w, db, (id, m) :: rest, acc =>
    match txUpdateAttrs w db id m with
    | none => none
    | some (w', db', attr) => bulkLoop w' db' rest (acc ++ [(id, attr)])

/-- attrStore.SetBulkAttrs (`m` ascending by id, as the code sorts the ids). -/
def setBulkAttrs (w : World) (s : Nat) (m : List (Nat × List (Nat × InVal))) : World × Bool :=
  let st := w.store s
  match bulkLoop w st.db m [] with
  | none => (w, false)      -- rolled back; objects allocated meanwhile are garbage
  | some (w', db', sets) =>
    let cache := sets.foldl (fun c p => cacheSet c p.1 p.2) st.cache
    (w'.setStore s { db := db', cache := cache }, true)

/-- The collection loop of executeBulkSetRowAttrs for one field: the argument maps of the
SetRowAttrs calls of one query, in call order, are accumulated per row — the first call of a row is
cloned, every later call of the same row overwrites key by key (`attr[k] = v`, a null stays a null).
The result goes to SetBulkAttrs (which sorts the rows). -/
def accRow (acc : List (Nat × List (Nat × InVal))) (row : Nat) (attrs : List (Nat × InVal)) :
    List (Nat × InVal) :=
  match amGet acc row with
  | none => attrs
  | some a => attrs.foldl (fun m kv => amSet m kv.1 kv.2) a

def mergeCalls : List (Nat × List (Nat × InVal)) → List (Nat × List (Nat × InVal)) →
    List (Nat × List (Nat × InVal))
  | acc, [] => acc
  | acc, (row, attrs) :: rest => mergeCalls (amSet acc row (accRow acc row attrs)) rest

/-- A new attrStore object over the same file: the cache starts empty. -/
def reopen (w : World) (s : Nat) : World :=
  w.setStore s { (w.store s) with cache := [] }

/-- A caller stores into / deletes from the `k`-th map it was handed. -/
def mutate (w : World) (k key : Nat) (v : Option Val) : Option World :=
  match w.held[k]? with
  | none => none
  | some h =>
    let m := w.obj h
    some { w with heap := w.heap.set h (match v with | some x => amSet m key x | none => amDel m key) }

/-! ### histories -/

/-- One step of a history: what clients of the stores can do. -/
inductive Op where
  | set (s id : Nat) (m : List (Nat × InVal))
  | bulk (s : Nat) (m : List (Nat × List (Nat × InVal)))
  | get (s id : Nat)
  /-- the caller writes (`some v`) or deletes (`none`) `key` in the `k`-th map it was handed -/
  | mutate (k key : Nat) (v : Option Val)
  | reopen (s : Nat)
deriving Repr

inductive Out where
  | done (ok : Bool)
  | attrs (m : AttrMap)
  | unit
deriving Repr, DecidableEq

def World.step (w : World) : Op → World × Out
  | .set s id m => let r := setAttrs w s id m; (r.1, .done r.2)
  | .bulk s m => let r := setBulkAttrs w s m; (r.1, .done r.2)
  | .get s id => let r := attrs w s id; (r.1, .attrs (r.1.obj r.2))
  | .mutate k key v => ((mutate w k key v).getD w, .unit)
  | .reopen s => (reopen w s, .unit)

def World.run : World → List Op → List Out
  | _, [] => []
  | w, op :: ops => let r := w.step op; r.2 :: World.run r.1 ops

/-- the world after a history -/
def World.exec (w : World) (ops : List Op) : World := ops.foldl (fun w op => (w.step op).1) w

/-! ### blocks -/

def attrBlockSize : Nat := 100

/-- blockCursor over the not yet visited bucket entries `rest`. -/
structure Cur where
  rest : List (Nat × Enc)
  base : Nat
  bufKey : Option (Nat × Enc)
  filled : Bool

/-- newBlockCursor: buffer the first entry. -/
def Cur.new (db : List (Nat × Enc)) : Cur :=
  match db with
  | [] => ⟨[], 0, none, true⟩
  | e :: rest => ⟨rest, 0, some e, true⟩

/-- nextBlock. -/
def Cur.nextBlock (c : Cur) : Cur × Bool :=
  match c.bufKey with
  | none => (c, false)
  | some e => ({ c with base := e.1 / attrBlockSize }, true)

/-- next. -/
def Cur.next (c : Cur) : Cur × Option (Nat × Enc) :=
  if c.filled then ({ c with filled := false }, c.bufKey)
  else
    match c.rest with
    | [] => ({ c with bufKey := none, filled := false }, none)
    | e :: rest =>
      if e.1 / attrBlockSize > c.base then ({ c with rest := rest, bufKey := some e, filled := true }, none)
      else ({ c with rest := rest }, some e)

/-- the inner loop of Blocks: everything `next` yields until it returns nil. -/
def Cur.drain : Nat → Cur → List (Nat × Enc) → Cur × List (Nat × Enc)
  | 0, c, acc => (c, acc)
  | fuel + 1, c, acc =>
    match c.next with
    | (c', none) => (c', acc)
    | (c', some e) => Cur.drain fuel c' (acc ++ [e])

structure Block (χ : Type) where
  id : Nat
  checksum : χ
deriving Repr, DecidableEq

/-- the outer loop of Blocks. -/
def blocksLoop {χ : Type} (H : List (Nat × Enc) → χ) : Nat → Cur → List (Block χ) → List (Block χ)
  | 0, _, acc => acc
  | fuel + 1, c, acc =>
    match c.nextBlock with
    | (_, false) => acc
    | (c1, true) =>
      let (c2, items) := Cur.drain (c1.rest.length + 2) c1 []
      blocksLoop H fuel c2 (acc ++ [⟨c1.base, H items⟩])

/-- attrStore.Blocks; the checksum is `H` of the (key, value) sequence of the block. -/
def blocks {χ : Type} (H : List (Nat × Enc) → χ) (db : List (Nat × Enc)) : List (Block χ) :=
  blocksLoop H (db.length + 1) (Cur.new db) []

/-- attrStore.BlockData: seek to i*100, take while below (i+1)*100, decode. -/
def blockData (db : List (Nat × Enc)) (i : Nat) : List (Nat × AttrMap) :=
  ((db.dropWhile (fun e => e.1 < i * attrBlockSize)).takeWhile
    (fun e => e.1 < (i + 1) * attrBlockSize)).map (fun e => (e.1, decodeAttrs e.2))

/-- attrBlocks.Diff. -/
def diff {χ : Type} [DecidableEq χ] : List (Block χ) → List (Block χ) → List Nat
  | [], _ => []
  | a0 :: a, [] => a0.id :: diff a []
  | a0 :: a, b0 :: b =>
    if a0.id < b0.id then a0.id :: diff a (b0 :: b)
    else if b0.id < a0.id then diff (a0 :: a) b
    else if a0.checksum ≠ b0.checksum then a0.id :: diff a b
    else diff a b
termination_by a b => a.length + b.length

end PV.C25
