/-
C25 helper lemmas, part 9: executeBulkSetRowAttrs (accumulate per row, one SetBulkAttrs) = the
calls of the query applied one after the other, on the specification state.  Core Lean only.
-/
import PV.C25.Lemmas8
set_option linter.unusedSimpArgs false
namespace PV.C25
open List

/-- one update applied to the specification state (what both SetAttrs and one element of
SetBulkAttrs do when every value type is supported) -/
def applyUpd (st : Spec.SMap) (c : Nat × List (Nat × InVal)) : Spec.SMap :=
  Spec.put st c.1 (Spec.merge (Spec.get st c.1) c.2)

def applyAll (st : Spec.SMap) (l : List (Nat × List (Nat × InVal))) : Spec.SMap := l.foldl applyUpd st

theorem SpecOK.applyUpd {st : Spec.SMap} (h : SpecOK st) (c : Nat × List (Nat × InVal)) : SpecOK (applyUpd st c) :=
  h.put c.1 _ (sorted_merge _ _ (h.get_sorted c.1))

theorem SpecOK.ext {s1 s2 : Spec.SMap} (h1 : SpecOK s1) (h2 : SpecOK s2)
    (h : ∀ r, Spec.get s1 r = Spec.get s2 r) : s1 = s2 := by
  apply sorted_ext _ _ h1.1 h2.1
  intro r
  have hr := h r
  unfold Spec.get at hr
  cases g1 : amGet s1 r with
  | none =>
    cases g2 : amGet s2 r with
    | none => rfl
    | some b =>
      have := (h2.2 _ (amGet_mem s2 r b g2)).2
      simp [g1, g2] at hr
      exact absurd hr this
  | some a =>
    have ha := (h1.2 _ (amGet_mem s1 r a g1)).2
    cases g2 : amGet s2 r with
    | none => simp [g1, g2] at hr; exact absurd hr ha
    | some b => simp [g1, g2] at hr; rw [hr]

/-- the state after a list of updates with ascending, distinct rows -/
theorem get_applyAll (acc : List (Nat × List (Nat × InVal))) : ∀ (st : Spec.SMap), SpecOK st → Sorted acc →
    SpecOK (applyAll st acc) ∧ ∀ r, Spec.get (applyAll st acc) r =
      match amGet acc r with
      | none => Spec.get st r
      | some u => Spec.merge (Spec.get st r) u := by
  induction acc with
  | nil => intro st h _; exact ⟨h, fun r => by simp [applyAll, amGet]⟩
  | cons x acc ih =>
    intro st h hs
    obtain ⟨r0, u0⟩ := x
    have hlt := hs.head_lt
    obtain ⟨ok, g⟩ := ih (applyUpd st (r0, u0)) (h.applyUpd _) hs.tail
    refine ⟨by simpa [applyAll] using ok, fun r => ?_⟩
    have gr := g r
    simp only [applyAll, foldl_cons] at gr ⊢
    rw [gr]
    have hput : Spec.get (applyUpd st (r0, u0)) r = if r = r0 then Spec.merge (Spec.get st r0) u0 else Spec.get st r :=
      h.get_put r0 _ r
    by_cases hr : r = r0
    · subst hr
      simp [amGet_none_of_lt acc r hlt, amGet, hput]
    · have hr' : ¬ r0 = r := fun e => hr e.symm
      simp only [amGet, hr', if_false, hput, hr]
      by_cases hk : r < r0
      · have hn : amGet acc r = none :=
          amGet_none_of_lt acc r (fun q hq => by have := hlt q hq; simp at this; omega)
        simp [hk, hn]
      · simp [hk]

/-- accumulated rows: ascending, each with a canonical update -/
def AccOK (acc : List (Nat × List (Nat × InVal))) : Prop := Sorted acc ∧ ∀ p ∈ acc, Sorted p.2

theorem mergeCalls_sequential (calls : List (Nat × List (Nat × InVal))) :
    ∀ (acc : List (Nat × List (Nat × InVal))) (st : Spec.SMap), SpecOK st → AccOK acc →
    (∀ c ∈ calls, Sorted c.2 ∧ Spec.valid c.2 = true) →
    applyAll st (mergeCalls acc calls) = applyAll (applyAll st acc) calls := by
  induction calls with
  | nil => intro acc st _ _ _; simp [mergeCalls, applyAll]
  | cons c calls ih =>
    intro acc st hst hacc hc
    obtain ⟨row, attrs⟩ := c
    obtain ⟨hsa, hva⟩ := hc (row, attrs) (by simp)
    -- the accumulated update of this row after the call
    have hmerged : ∃ merged, accRow acc row attrs = merged ∧ Sorted merged ∧
        ∀ base, Sorted base → Spec.merge base merged =
          Spec.merge (match amGet acc row with | none => base | some a => Spec.merge base a) attrs := by
      cases hg : amGet acc row with
      | none => exact ⟨attrs, by simp [accRow, hg], hsa, fun _ _ => rfl⟩
      | some a =>
        have hsa' : Sorted a := hacc.2 _ (amGet_mem acc row a hg)
        obtain ⟨so, _⟩ := overrideWith_spec attrs a hsa' hsa
        exact ⟨overrideWith a attrs, by simp [accRow, hg, overrideWith], so,
          fun base hb => merge_overrideWith base a attrs hb hsa' hsa hva⟩
    obtain ⟨merged, hme, hms, hmm⟩ := hmerged
    have hacc' : AccOK (amSet acc row merged) := by
      refine ⟨sorted_amSet _ _ _ hacc.1, fun p hp => ?_⟩
      rcases mem_amSet _ _ _ _ hp with rfl | hp
      · exact hms
      · exact hacc.2 p hp
    have hstep : applyAll st (amSet acc row merged) = applyUpd (applyAll st acc) (row, attrs) := by
      obtain ⟨ok1, g1⟩ := get_applyAll (amSet acc row merged) st hst hacc'.1
      obtain ⟨ok0, g0⟩ := get_applyAll acc st hst hacc.1
      apply SpecOK.ext ok1 (ok0.applyUpd _)
      intro r
      rw [g1 r, amGet_amSet acc row merged r hacc.1]
      have hput : Spec.get (applyUpd (applyAll st acc) (row, attrs)) r =
          if r = row then Spec.merge (Spec.get (applyAll st acc) row) attrs else Spec.get (applyAll st acc) r :=
        ok0.get_put row _ r
      rw [hput]
      by_cases hr : r = row
      · subst hr
        simp only [if_true]
        rw [hmm _ (hst.get_sorted r), g0 r]
        all_goals (cases amGet acc r <;> rfl)
      · simp only [hr, if_false]
        exact (g0 r).symm
    have := ih (amSet acc row merged) st hst hacc' (fun c' hc' => hc c' (by simp [hc']))
    simp only [mergeCalls]
    rw [hme, this, hstep]
    simp [applyAll]

theorem valid_overrideWith (u2 : List (Nat × InVal)) : ∀ (u1 : List (Nat × InVal)),
    Spec.valid u1 = true → Spec.valid u2 = true → Spec.valid (overrideWith u1 u2) = true := by
  induction u2 with
  | nil => intro u1 h1 _; simpa [overrideWith] using h1
  | cons kv u2 ih =>
    intro u1 h1 h2
    rw [valid_cons] at h2
    simp only [Bool.and_eq_true] at h2
    have : Spec.valid (amSet u1 kv.1 kv.2) = true := by
      simp only [Spec.valid, all_eq_true] at h1 ⊢
      intro p hp
      rcases mem_amSet _ _ _ _ hp with rfl | hp
      · exact h2.1
      · exact h1 p hp
    have := ih (amSet u1 kv.1 kv.2) this h2.2
    simpa [overrideWith] using this

theorem valid_mergeCalls (calls : List (Nat × List (Nat × InVal))) :
    ∀ (acc : List (Nat × List (Nat × InVal))), (∀ p ∈ acc, Spec.valid p.2 = true) →
    (∀ c ∈ calls, Spec.valid c.2 = true) → ∀ p ∈ mergeCalls acc calls, Spec.valid p.2 = true := by
  induction calls with
  | nil => intro acc ha _ p hp; exact ha p (by simpa [mergeCalls] using hp)
  | cons c calls ih =>
    intro acc ha hc
    obtain ⟨row, attrs⟩ := c
    simp only [mergeCalls]
    apply ih _ _ (fun c' hc' => hc c' (by simp [hc']))
    intro p hp
    rcases mem_amSet _ _ _ _ hp with rfl | hp
    · cases hg : amGet acc row with
      | none => simpa [accRow, hg] using hc (row, attrs) (by simp)
      | some a =>
        have := valid_overrideWith attrs a (ha _ (amGet_mem acc row a hg)) (hc (row, attrs) (by simp))
        simpa [accRow, hg, overrideWith] using this
    · exact ha p hp

theorem bulk_eq_applyAll (st : Spec.SMap) (m : List (Nat × List (Nat × InVal)))
    (hv : ∀ p ∈ m, Spec.valid p.2 = true) : Spec.bulk st m = (applyAll st m, true) := by
  have : m.all (fun p => Spec.valid p.2) = true := by simpa [all_eq_true] using hv
  simp only [Spec.bulk, this, Bool.not_true, Bool.false_eq_true, if_false]
  rfl

theorem seq_eq_applyAll (calls : List (Nat × List (Nat × InVal))) : ∀ (st : Spec.SMap),
    (∀ c ∈ calls, Spec.valid c.2 = true) →
    calls.foldl (fun st c => (Spec.set st c.1 c.2).1) st = applyAll st calls := by
  induction calls with
  | nil => intro st _; rfl
  | cons c calls ih =>
    intro st hv
    have hc := hv c (by simp)
    simp only [foldl_cons, applyAll]
    have : (Spec.set st c.1 c.2).1 = applyUpd st c := by simp [Spec.set, hc, applyUpd]
    rw [this]
    exact ih _ (fun c' hc' => hv c' (by simp [hc']))

end PV.C25
