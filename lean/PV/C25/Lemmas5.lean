/-
C25 helper lemmas, part 5: txUpdateAttrs / SetBulkAttrs on a store value, one step of a history
keeps the invariant and answers like the specification.  Core Lean only.
-/
import PV.C25.Lemmas4
namespace PV.C25
open List

/-- one txUpdateAttrs on a store value that agrees with `sm` -/
theorem StoreOK.tx {w : World} {st : Store} {sm : Spec.SMap} (h : StoreOK w st sm) (h0 : w.obj 0 = [])
    (hheld : ∀ x ∈ w.held, x < w.heap.length)
    (id : Nat) (m : List (Nat × InVal)) (hv : Spec.valid m = true) :
    ∃ w' db' attr, txUpdateAttrs w st.db id m = some (w', db', attr) ∧ HeapExt w w' ∧
      w'.stores = w.stores ∧
      StoreOK w' { db := db', cache := cacheSet st.cache id attr }
        (Spec.put sm id (Spec.merge (Spec.get sm id) m)) := by
  obtain ⟨w', attr, htx, hx, hst, ha1, ha2, ha3⟩ := txUpdate_some w st.db id m h0 h.db hv
  rw [h.abs] at htx ha3
  have hsorted : Sorted (Spec.merge (Spec.get sm id) m) := by
    apply sorted_merge
    rw [← h.abs]; exact h.db.spec.get_sorted id
  obtain ⟨u1, u2⟩ := h.db.update id _ hsorted
  rw [h.abs] at u2
  have hspec : SpecOK sm := by rw [← h.abs]; exact h.db.spec
  refine ⟨w', _, attr, htx, hx, hst, ⟨u1, u2, ?_⟩⟩
  intro p hp
  rcases mem_cacheSet _ _ _ _ hp with rfl | ⟨hp, hne⟩
  · refine ⟨?_, ha2, ?_⟩
    · rw [hx.held]; intro hm; have := hheld _ hm; omega
    · rw [ha3, hspec.get_put]; simp
  · obtain ⟨a, b, c⟩ := h.cache p hp
    refine ⟨by rw [hx.held]; exact a, Nat.lt_of_lt_of_le b hx.len, ?_⟩
    rw [hx.old p.2 b, c, hspec.get_put]; simp [hne]

theorem bulk_valid_cons (id : Nat) (m0 : List (Nat × InVal)) (m : List (Nat × List (Nat × InVal))) :
    ((id, m0) :: m).all (fun p => Spec.valid p.2) = (Spec.valid m0 && m.all (fun p => Spec.valid p.2)) := by
  simp

/-- the loop of SetBulkAttrs fails exactly when some value has an unsupported type -/
theorem bulkLoop_none (m : List (Nat × List (Nat × InVal))) : ∀ (w : World) (db : List (Nat × Enc))
    (acc : List (Nat × Nat)), m.all (fun p => Spec.valid p.2) = false → bulkLoop w db m acc = none := by
  induction m with
  | nil => intro w db acc h; simp at h
  | cons p m ih =>
    intro w db acc h
    obtain ⟨id, m0⟩ := p
    rw [bulk_valid_cons] at h
    simp only [bulkLoop]
    cases hv : Spec.valid m0 with
    | false => rw [txUpdate_none w db id m0 hv]
    | true =>
      simp only [hv, Bool.true_and] at h
      cases htx : txUpdateAttrs w db id m0 with
      | none => rfl
      | some r => obtain ⟨w', db', attr⟩ := r; exact ih w' db' _ h

/-- the loop of SetBulkAttrs as a sequence of single updates on a store value and its cache -/
theorem bulkLoop_some (m : List (Nat × List (Nat × InVal))) : ∀ (w : World) (st : Store) (sm : Spec.SMap)
    (acc : List (Nat × Nat)), StoreOK w st sm → w.obj 0 = [] → 0 < w.heap.length →
    (∀ x ∈ w.held, x < w.heap.length) → m.all (fun p => Spec.valid p.2) = true →
    ∃ w' db' sets, bulkLoop w st.db m acc = some (w', db', acc ++ sets) ∧ HeapExt w w' ∧
      w'.stores = w.stores ∧
      StoreOK w' { db := db', cache := sets.foldl (fun c p => cacheSet c p.1 p.2) st.cache }
        (m.foldl (fun sm p => Spec.put sm p.1 (Spec.merge (Spec.get sm p.1) p.2)) sm) := by
  induction m with
  | nil =>
    intro w st sm acc h _ _ _ _
    exact ⟨w, st.db, [], by simp [bulkLoop], HeapExt.refl w, rfl, by simpa using h⟩
  | cons p m ih =>
    intro w st sm acc h h0 hpos hheld hv
    obtain ⟨id, m0⟩ := p
    rw [bulk_valid_cons, Bool.and_eq_true] at hv
    obtain ⟨w1, db1, attr, htx, hx1, hs1, hok1⟩ := h.tx h0 hheld id m0 hv.1
    obtain ⟨w2, db2, sets, hl, hx2, hs2, hok2⟩ := ih w1 { db := db1, cache := cacheSet st.cache id attr } _
      (acc ++ [(id, attr)]) hok1 (by rw [hx1.old 0 hpos]; exact h0) (Nat.lt_of_lt_of_le hpos hx1.len)
      (fun x hx => by rw [hx1.held] at hx; exact Nat.lt_of_lt_of_le (hheld x hx) hx1.len) hv.2
    refine ⟨w2, db2, (id, attr) :: sets, ?_, hx1.trans hx2, hs2.trans hs1, ?_⟩
    · simp only [bulkLoop, htx]
      rw [hl]; simp
    · simpa using hok2

/-! ### one step of a history -/

def OpOK (n : Nat) : Op → Prop
  | .set s _ _ => s < n
  | .bulk s _ => s < n
  | .get s _ => s < n
  | .mutate _ _ _ => True
  | .reopen s => s < n

theorem step_ok {w : World} {sp : List Spec.SMap} (h : WInv w sp) (op : Op) (hop : OpOK w.stores.length op) :
    WInv (w.step op).1 (Spec.step sp op).1 ∧ (w.step op).2 = (Spec.step sp op).2 ∧
      (w.step op).1.stores.length = w.stores.length := by
  cases op with
  | get s id =>
    obtain ⟨h1, hx, hobj, hfresh, hlen, hn, hbelow⟩ := attrsObj_ok h s id hop
    simp only [World.step, Spec.step, attrs]
    refine ⟨?_, by simp [World.obj] at hobj ⊢; exact hobj, hn⟩
    refine ⟨h1.n, h1.pos, h1.empty, ?_, ?_⟩
    · intro x hxm
      simp only [mem_append, mem_singleton] at hxm
      rcases hxm with hxm | rfl
      · exact h1.held x hxm
      · refine ⟨by have := h.pos; omega, ?_⟩
        show _ < (attrsObj w s id).1.heap.length
        omega
    · intro s' hs'
      have hso := h1.stores s' hs'
      refine ⟨hso.db, hso.abs, fun p hp => ?_⟩
      obtain ⟨a, b, c⟩ := hso.cache p hp
      refine ⟨?_, b, c⟩
      simp only [mem_append, mem_singleton, not_or]
      exact ⟨a, by have := hbelow s' hs' p hp; omega⟩
  | mutate k key v =>
    simp only [World.step, Spec.step, mutate]
    cases hk : w.held[k]? with
    | none => exact ⟨by simpa using h, by first | rfl | trivial, rfl⟩
    | some x =>
      have hxm : x ∈ w.held := mem_of_getElem? hk
      obtain ⟨hx0, hxl⟩ := h.held x hxm
      simp only [Option.getD_some]
      refine ⟨⟨h.n, by simpa using h.pos, ?_, ?_, ?_⟩, by first | rfl | trivial, by first | rfl | trivial⟩
      · rw [obj_set_other _ _ _ _ (Ne.symm hx0)]; exact h.empty
      · intro y hy; exact ⟨(h.held y hy).1, by simpa using (h.held y hy).2⟩
      · intro s' hs'
        have hso := h.stores s' hs'
        refine ⟨hso.db, hso.abs, fun p hp => ?_⟩
        obtain ⟨a, b, c⟩ := hso.cache p hp
        refine ⟨a, by simpa using b, ?_⟩
        rw [obj_set_other _ _ _ _ (fun e => a (by rw [e]; exact hxm))]; exact c
  | reopen s =>
    simp only [World.step, Spec.step, reopen]
    have hsp : sp.set s (sp.getD s []) = sp := set_getD_self sp s (by rw [← h.n]; exact hop)
    have := h.setStore s { (w.store s) with cache := [] } (sp.getD s []) hop
      ⟨(h.stores s hop).db, (h.stores s hop).abs, fun p hp => by simp at hp⟩
    rw [hsp] at this
    exact ⟨this, by first | rfl | trivial, len_setStore _ _ _⟩
  | set s id m =>
    have hsp : sp.set s (sp.getD s []) = sp := set_getD_self sp s (by rw [← h.n]; exact hop)
    have hspec : SpecOK (sp.getD s []) := by rw [← (h.stores s hop).abs]; exact (h.stores s hop).db.spec
    simp only [World.step, Spec.step, setAttrs]
    by_cases hm : m.length = 0
    · have : m = [] := length_eq_zero_iff.mp hm
      subst this
      simp only [length_nil, if_true, Spec.set, Spec.valid, all_nil, Bool.not_true, Bool.false_eq_true,
        if_false, Spec.merge, foldl_nil, hspec.put_get, hsp]
      exact ⟨h, by first | rfl | trivial, by first | rfl | trivial⟩
    · simp only [hm, if_false]
      obtain ⟨h1, hx, hobj, hfresh, hlen, hn, hbelow⟩ := attrsObj_ok h s id hop
      by_cases hc : mapContains ((attrsObj w s id).1.obj (attrsObj w s id).2) m = true
      · simp only [hc, if_true]
        rw [hobj] at hc
        obtain ⟨v1, v2⟩ := mapContains_merge m _ (hspec.get_sorted id) hc
        simp only [Spec.set, v1, Bool.not_true, Bool.false_eq_true, if_false, v2, hspec.put_get, hsp]
        exact ⟨h1, by first | rfl | trivial, hn⟩
      · simp only [hc, if_false]
        cases hv : Spec.valid m with
        | false =>
          rw [txUpdate_none _ _ _ _ hv]
          simp only [Spec.set, hv, Bool.not_false, if_true, hsp]
          exact ⟨h1, by first | rfl | trivial, hn⟩
        | true =>
          have hs1 : s < (attrsObj w s id).1.stores.length := by rw [hn]; exact hop
          obtain ⟨w2, db2, attr, htx, hx2, hst2, hok2⟩ :=
            (h1.stores s hs1).tx h1.empty (fun x hx => (h1.held x hx).2) id m hv
          simp only [htx, Spec.set, hv, Bool.not_true, Bool.false_eq_true, if_false]
          have hw2 := h1.ext hx2 hst2
          have := hw2.setStore s _ _ (by rw [hst2]; exact hs1) hok2
          exact ⟨this, by first | rfl | trivial, by rw [len_setStore, hst2, hn]⟩
  | bulk s m =>
    have hsp : sp.set s (sp.getD s []) = sp := set_getD_self sp s (by rw [← h.n]; exact hop)
    simp only [World.step, Spec.step, setBulkAttrs]
    cases hv : m.all (fun p => Spec.valid p.2) with
    | false =>
      rw [bulkLoop_none m _ _ _ hv]
      simp only [Spec.bulk, hv, Bool.not_false, if_true, hsp]
      exact ⟨h, by first | rfl | trivial, by first | rfl | trivial⟩
    | true =>
      obtain ⟨w2, db2, sets, hl, hx2, hst2, hok2⟩ := bulkLoop_some m w (w.store s) _ []
        (h.stores s hop) h.empty h.pos (fun x hx => (h.held x hx).2) hv
      simp only [nil_append] at hl
      simp only [hl, Spec.bulk, hv, Bool.not_true, Bool.false_eq_true, if_false]
      have hw2 := h.ext hx2 hst2
      have := hw2.setStore s _ _ (by rw [hst2]; exact hop) hok2
      exact ⟨this, by first | rfl | trivial, by rw [len_setStore, hst2]⟩

theorem run_ok (ops : List Op) : ∀ (w : World) (sp : List Spec.SMap), WInv w sp →
    (∀ op ∈ ops, OpOK w.stores.length op) → World.run w ops = Spec.run sp ops := by
  induction ops with
  | nil => intro _ _ _ _; rfl
  | cons op ops ih =>
    intro w sp h hok
    obtain ⟨h1, h2, h3⟩ := step_ok h op (hok op (by simp))
    simp only [World.run, Spec.run, h2]
    congr 1
    exact ih _ _ h1 (fun o ho => by rw [h3]; exact hok o (by simp [ho]))

theorem WInv.init (n : Nat) : WInv (World.init n) (List.replicate n []) where
  n := by simp [World.init]
  pos := by simp [World.init]
  empty := by simp [World.init, World.obj]
  held := fun x hx => by simp [World.init] at hx
  stores := fun s hs => by
    have hs' : s < n := by simpa [World.init] using hs
    have h1 : (World.init n).store s = ⟨[], []⟩ := by
      simp [World.init, World.store, getD_eq_getElem?_getD, getElem?_replicate, hs']
    have h2 : (List.replicate n ([] : Spec.SMap)).getD s [] = [] := by
      simp [getD_eq_getElem?_getD, getElem?_replicate, hs']
    rw [h1, h2]
    exact ⟨DbOK.empty, rfl, fun p hp => by simp at hp⟩

end PV.C25
