/-
C25 specification: an attribute store is a finite map id → (key → value); an id that was never
written and an id whose keys were all deleted are the same thing (no attributes).  Reads return
the merge of all updates; nothing a caller does to a map it was handed has any effect; a block is
the set of ids of one hundred consecutive numbers that have attributes; two blocks are "the same"
iff they hold the same ids with the same attributes.  No cache, no heap, no cursor.
Core Lean only.
-/
import PV.C25.Model
namespace PV.C25.Spec
open PV.C25

/-- id → attributes, ascending ids, never an empty attribute map. -/
abbrev SMap := List (Nat × AttrMap)

def get (st : SMap) (id : Nat) : AttrMap := (amGet st id).getD []

def valid (m : List (Nat × InVal)) : Bool := m.all (fun kv => coerce kv.2 ≠ .invalid)

/-- one key of an update (null deletes, integers become int64) -/
def mergeStep (a : AttrMap) (kv : Nat × InVal) : AttrMap :=
  match coerce kv.2 with
  | .delete => amDel a kv.1
  | .put v => amSet a kv.1 v
  | .invalid => a

/-- merge of one update into one attribute map -/
def merge (a : AttrMap) (m : List (Nat × InVal)) : AttrMap := m.foldl mergeStep a

def put (st : SMap) (id : Nat) (a : AttrMap) : SMap :=
  if a = [] then amDel st id else amSet st id a

/-- SetAttrs: `(state, ok)`; an unsupported value type is refused and changes nothing. -/
def set (st : SMap) (id : Nat) (m : List (Nat × InVal)) : SMap × Bool :=
  if !valid m then (st, false) else (put st id (merge (get st id) m), true)

/-- SetBulkAttrs: all or nothing. -/
def bulk (st : SMap) (m : List (Nat × List (Nat × InVal))) : SMap × Bool :=
  if !m.all (fun p => valid p.2) then (st, false)
  else (m.foldl (fun st p => put st p.1 (merge (get st p.1) p.2)) st, true)

/-- The specification of a history: reads return the merged attributes; writing into a map that
was handed out, and reopening, change nothing. -/
def step (sp : List SMap) : Op → List SMap × Out
  | .set s id m => let r := set (sp.getD s []) id m; (sp.set s r.1, .done r.2)
  | .bulk s m => let r := bulk (sp.getD s []) m; (sp.set s r.1, .done r.2)
  | .get s id => (sp, .attrs (get (sp.getD s []) id))
  | .mutate _ _ _ => (sp, .unit)
  | .reopen _ => (sp, .unit)

def run : List SMap → List Op → List Out
  | _, [] => []
  | sp, op :: ops => let r := step sp op; r.2 :: run r.1 ops

def blockOf (id : Nat) : Nat := id / 100

/-- the ids (with attributes) of block `i`. -/
def blockData (st : SMap) (i : Nat) : List (Nat × AttrMap) := st.filter (fun e => blockOf e.1 = i)

/-- the block numbers that hold at least one id, ascending. -/
def blockIds (st : SMap) : List Nat := (st.map (fun e => blockOf e.1)).eraseDups

/-- block numbers of `a` that `b` lacks or holds with different attributes. -/
def diff (a b : SMap) : List Nat :=
  (blockIds a).filter (fun i => blockData a i ≠ blockData b i)

end PV.C25.Spec
