/-
C25 helper lemmas, part 2: EncodeAttrs/DecodeAttrs round trip, merging an update, the abstract
state of a bucket (`absDb`, `DbOK`, `SpecOK`).  Core Lean only.
-/
import PV.C25.Lemmas
namespace PV.C25
open List

/-! ### values of an association list mapped through a function -/

def mapV {β γ : Type} (f : β → γ) (l : List (Nat × β)) : List (Nat × γ) := l.map (fun e => (e.1, f e.2))

theorem amGet_mapV {β γ : Type} (f : β → γ) (l : List (Nat × β)) (k : Nat) :
    amGet (mapV f l) k = (amGet l k).map f := by
  induction l with
  | nil => rfl
  | cons p l ih =>
    obtain ⟨k0, w⟩ := p
    simp only [mapV, map_cons, amGet] at ih ⊢
    by_cases c : k0 = k
    · simp [c]
    · simp only [c, if_false]
      by_cases d : k < k0
      · simp [d]
      · simp only [d, if_false]; exact ih

theorem mapV_amSet {β γ : Type} (f : β → γ) (l : List (Nat × β)) (k : Nat) (v : β) :
    mapV f (amSet l k v) = amSet (mapV f l) k (f v) := by
  induction l with
  | nil => rfl
  | cons p l ih =>
    obtain ⟨k0, w⟩ := p
    simp only [mapV, map_cons, amSet] at ih ⊢
    by_cases c : k < k0
    · simp [c]
    · simp only [c, if_false]
      by_cases d : k = k0
      · simp [d]
      · simp only [d, if_false, map_cons, ih]

theorem mapV_amDel {β γ : Type} (f : β → γ) (l : List (Nat × β)) (k : Nat) :
    mapV f (amDel l k) = amDel (mapV f l) k := by
  induction l with
  | nil => rfl
  | cons p l ih =>
    obtain ⟨k0, w⟩ := p
    simp only [mapV, map_cons, amDel] at ih ⊢
    by_cases c : k < k0
    · simp [c]
    · simp only [c, if_false]
      by_cases d : k = k0
      · simp [d]
      · simp only [d, if_false, map_cons, ih]

theorem sorted_mapV {β γ : Type} (f : β → γ) (l : List (Nat × β)) : Sorted (mapV f l) ↔ Sorted l := by
  simp only [Sorted, mapV, pairwise_map]

/-! ### EncodeAttrs / DecodeAttrs -/

theorem decodeAttr_encodeAttr (k : Nat) (v : Val) : decodeAttr (encodeAttr k v) = (k, some v) := by
  cases v <;> simp [encodeAttr, decodeAttr, attrTypeString, attrTypeInt, attrTypeBool, attrTypeFloat]

theorem amSet_append_last {β : Type} (acc : List (Nat × β)) (k : Nat) (v : β)
    (h : ∀ q ∈ acc, q.1 < k) : amSet acc k v = acc ++ [(k, v)] := by
  induction acc with
  | nil => rfl
  | cons p acc ih =>
    obtain ⟨k0, w⟩ := p
    have h0 := h (k0, w) (by simp)
    simp at h0
    have c : ¬ k < k0 := by omega
    have d : ¬ k = k0 := by omega
    simp only [amSet, c, d, if_false, cons_append]
    rw [ih (fun q hq => h q (by simp [hq]))]

theorem decodeStep_encode (m : AttrMap) (k : Nat) (v : Val) :
    decodeStep m (encodeAttr k v) = amSet m k v := by
  simp [decodeStep, decodeAttr_encodeAttr]

theorem decode_fold (rest : AttrMap) : ∀ (acc : AttrMap), Sorted (acc ++ rest) →
    (encodeAttrs rest).foldl decodeStep acc = acc ++ rest := by
  induction rest with
  | nil => intro acc _; simp [encodeAttrs]
  | cons kv rest ih =>
    intro acc hs
    obtain ⟨k, v⟩ := kv
    simp only [encodeAttrs, map_cons, foldl_cons, decodeStep_encode]
    have hlt : ∀ q ∈ acc, q.1 < k := by
      intro q hq
      have := (pairwise_append.mp hs).2.2 q hq (k, v) (by simp)
      exact this
    rw [amSet_append_last acc k v hlt]
    have := ih (acc ++ [(k, v)]) (by simpa using hs)
    simp only [encodeAttrs] at this
    rw [this]; simp

theorem decode_encode (m : AttrMap) (hs : Sorted m) : decodeAttrs (encodeAttrs m) = m := by
  have := decode_fold m [] (by simpa using hs)
  simpa [decodeAttrs] using this

theorem encodeAttrs_eq_nil (m : AttrMap) : encodeAttrs m = [] ↔ m = [] := by
  simp [encodeAttrs]

/-! ### merging an update -/

theorem mergeStep_delete (a : AttrMap) (k : Nat) (v : InVal) (h : coerce v = .delete) :
    Spec.mergeStep a (k, v) = amDel a k := by simp [Spec.mergeStep, h]
theorem mergeStep_put (a : AttrMap) (k : Nat) (v : InVal) (x : Val) (h : coerce v = .put x) :
    Spec.mergeStep a (k, v) = amSet a k x := by simp [Spec.mergeStep, h]
theorem mergeStep_invalid (a : AttrMap) (k : Nat) (v : InVal) (h : coerce v = .invalid) :
    Spec.mergeStep a (k, v) = a := by simp [Spec.mergeStep, h]

theorem valid_cons (k : Nat) (v : InVal) (m : List (Nat × InVal)) :
    Spec.valid ((k, v) :: m) = (decide (coerce v ≠ .invalid) && Spec.valid m) := by
  simp [Spec.valid]

theorem mergeInto_eq (m : List (Nat × InVal)) : ∀ (a : AttrMap),
    mergeInto a m = if Spec.valid m then some (Spec.merge a m) else none := by
  induction m with
  | nil => intro a; simp [mergeInto, Spec.valid, Spec.merge]
  | cons kv m ih =>
    intro a
    obtain ⟨k, v⟩ := kv
    rw [valid_cons]
    cases hc : coerce v with
    | delete =>
      have : mergeInto a ((k, v) :: m) = mergeInto (amDel a k) m := by simp [mergeInto, hc]
      rw [this, ih]
      simp [Spec.merge, mergeStep_delete a k v hc]
    | put x =>
      have : mergeInto a ((k, v) :: m) = mergeInto (amSet a k x) m := by simp [mergeInto, hc]
      rw [this, ih]
      simp [Spec.merge, mergeStep_put a k v x hc]
    | invalid =>
      have : mergeInto a ((k, v) :: m) = none := by simp [mergeInto, hc]
      rw [this]; simp

theorem sorted_merge (m : List (Nat × InVal)) : ∀ (a : AttrMap), Sorted a → Sorted (Spec.merge a m) := by
  induction m with
  | nil => intro a h; simpa [Spec.merge] using h
  | cons kv m ih =>
    intro a h
    obtain ⟨k, v⟩ := kv
    simp only [Spec.merge, foldl_cons]
    cases hc : coerce v with
    | delete => rw [mergeStep_delete a k v hc]; exact ih _ (sorted_amDel _ _ h)
    | put x => rw [mergeStep_put a k v x hc]; exact ih _ (sorted_amSet _ _ _ h)
    | invalid => rw [mergeStep_invalid a k v hc]; exact ih _ h

theorem sameIface_coerce (stored : Val) (v : InVal) (h : sameIface stored v = true) :
    coerce v = .put stored := by
  cases stored <;> cases v <;> simp_all [sameIface, coerce]

theorem mapContains_merge (m : List (Nat × InVal)) (a : AttrMap) (hs : Sorted a)
    (h : mapContains a m = true) : Spec.valid m = true ∧ Spec.merge a m = a := by
  induction m with
  | nil => simp [Spec.valid, Spec.merge]
  | cons kv m ih =>
    obtain ⟨k, v⟩ := kv
    simp only [mapContains, all_cons, Bool.and_eq_true] at h
    obtain ⟨h1, h2⟩ := h
    cases hg : amGet a k with
    | none => simp [hg] at h1
    | some x =>
      simp only [hg] at h1
      have hc := sameIface_coerce x v h1
      obtain ⟨i1, i2⟩ := ih (by simpa [mapContains] using h2)
      refine ⟨by rw [valid_cons, hc, i1]; simp, ?_⟩
      simp only [Spec.merge, foldl_cons, mergeStep_put a k v x hc, amSet_same a k x hs hg]
      exact i2

/-! ### the specification state -/

def SpecOK (st : Spec.SMap) : Prop := Sorted st ∧ ∀ e ∈ st, Sorted e.2 ∧ e.2 ≠ []

theorem SpecOK.get_sorted {st : Spec.SMap} (h : SpecOK st) (id : Nat) : Sorted (Spec.get st id) := by
  unfold Spec.get
  cases hg : amGet st id with
  | none => simp [Sorted]
  | some a => exact (h.2 _ (amGet_mem st id a hg)).1

theorem SpecOK.put {st : Spec.SMap} (h : SpecOK st) (id : Nat) (a : AttrMap) (ha : Sorted a) :
    SpecOK (Spec.put st id a) := by
  unfold Spec.put
  by_cases c : a = []
  · simp only [c, if_true]
    exact ⟨sorted_amDel _ _ h.1, fun e he => h.2 e (mem_amDel _ _ _ he)⟩
  · simp only [c, if_false]
    refine ⟨sorted_amSet _ _ _ h.1, fun e he => ?_⟩
    rcases mem_amSet _ _ _ _ he with rfl | he
    · exact ⟨ha, c⟩
    · exact h.2 e he

theorem SpecOK.get_put {st : Spec.SMap} (h : SpecOK st) (id : Nat) (a : AttrMap) (id' : Nat) :
    Spec.get (Spec.put st id a) id' = if id' = id then a else Spec.get st id' := by
  unfold Spec.put Spec.get
  by_cases c : a = []
  · simp only [c, if_true, amGet_amDel _ _ _ h.1]
    by_cases d : id' = id <;> simp [d]
  · simp only [c, if_false, amGet_amSet _ _ _ _ h.1]
    by_cases d : id' = id <;> simp [d]

theorem SpecOK.put_get {st : Spec.SMap} (h : SpecOK st) (id : Nat) :
    Spec.put st id (Spec.get st id) = st := by
  unfold Spec.put Spec.get
  cases hg : amGet st id with
  | none => simp [amDel_absent st id h.1 hg]
  | some a =>
    have := (h.2 _ (amGet_mem st id a hg)).2
    simp [this, amSet_same st id a h.1 hg]

/-! ### the bucket -/

/-- the bucket holds, under ascending ids, encodings of canonical non-empty attribute maps -/
def DbOK (db : List (Nat × Enc)) : Prop :=
  Sorted db ∧ ∀ e ∈ db, ∃ m : AttrMap, Sorted m ∧ m ≠ [] ∧ e.2 = encodeAttrs m

def absDb (db : List (Nat × Enc)) : Spec.SMap := mapV decodeAttrs db

theorem DbOK.spec {db : List (Nat × Enc)} (h : DbOK db) : SpecOK (absDb db) := by
  refine ⟨(sorted_mapV _ _).mpr h.1, ?_⟩
  intro e he
  simp only [absDb, mapV, mem_map] at he
  obtain ⟨e0, he0, rfl⟩ := he
  obtain ⟨m, hm, hne, henc⟩ := h.2 e0 he0
  simp only [henc, decode_encode m hm]
  exact ⟨hm, hne⟩

theorem DbOK.empty : DbOK [] := ⟨by simp [Sorted], fun _ h => by simp at h⟩

theorem get_absDb (db : List (Nat × Enc)) (id : Nat) :
    Spec.get (absDb db) id = ((amGet db id).map decodeAttrs).getD [] := by
  simp [Spec.get, absDb, amGet_mapV]

/-- the bucket update of txUpdateAttrs is `put` on the abstract state -/
theorem DbOK.update {db : List (Nat × Enc)} (h : DbOK db) (id : Nat) (merged : AttrMap) (hm : Sorted merged) :
    DbOK (if merged.length = 0 then amDel db id else amSet db id (encodeAttrs merged)) ∧
    absDb (if merged.length = 0 then amDel db id else amSet db id (encodeAttrs merged)) =
      Spec.put (absDb db) id merged := by
  by_cases c : merged = []
  · subst c
    simp only [length_nil, if_true, Spec.put]
    exact ⟨⟨sorted_amDel _ _ h.1, fun e he => h.2 e (mem_amDel _ _ _ he)⟩, by simp [absDb, mapV_amDel]⟩
  · have hl : ¬ merged.length = 0 := by simpa using c
    simp only [hl, if_false, Spec.put, c]
    refine ⟨⟨sorted_amSet _ _ _ h.1, fun e he => ?_⟩, ?_⟩
    · rcases mem_amSet _ _ _ _ he with rfl | he
      · exact ⟨merged, hm, c, rfl⟩
      · exact h.2 e he
    · simp [absDb, mapV_amSet, decode_encode merged hm]

end PV.C25
