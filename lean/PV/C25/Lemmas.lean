/-
C25 helper lemmas, part 1: canonical (strictly ascending) association lists.  Core Lean only.
-/
import PV.C25.Model
import PV.C25.Spec
namespace PV.C25
open List

/-! ### canonical association lists -/

def Sorted {β : Type} (l : List (Nat × β)) : Prop := l.Pairwise (fun a b => a.1 < b.1)

theorem Sorted.tail {β : Type} {p : Nat × β} {l : List (Nat × β)} (h : Sorted (p :: l)) : Sorted l :=
  (pairwise_cons.mp h).2

theorem Sorted.head_lt {β : Type} {p : Nat × β} {l : List (Nat × β)} (h : Sorted (p :: l)) :
    ∀ q ∈ l, p.1 < q.1 := (pairwise_cons.mp h).1

theorem amGet_none_of_lt {β : Type} (l : List (Nat × β)) (k : Nat) (h : ∀ q ∈ l, k < q.1) :
    amGet l k = none := by
  cases l with
  | nil => rfl
  | cons p l =>
    obtain ⟨k', v⟩ := p
    have := h (k', v) (by simp)
    simp only [amGet]
    have h1 : ¬ k' = k := by simp at this; omega
    simp at this
    simp [h1, this]

theorem amGet_amSet {β : Type} (l : List (Nat × β)) (k : Nat) (v : β) (k' : Nat) (hs : Sorted l) :
    amGet (amSet l k v) k' = if k' = k then some v else amGet l k' := by
  induction l with
  | nil =>
    simp only [amSet, amGet]
    by_cases h : k = k'
    · simp [h]
    · have : ¬ k' = k := fun e => h e.symm
      simp only [h, if_false, this]; split <;> rfl
  | cons p l ih =>
    obtain ⟨k0, w⟩ := p
    have hl := hs.head_lt
    simp only [amSet]
    by_cases h1 : k < k0
    · simp only [h1, if_true, amGet]
      by_cases h2 : k = k'
      · subst h2
        simp
      · have h2' : ¬ k' = k := fun e => h2 e.symm
        simp only [h2, if_false, h2']
        by_cases h3 : k' < k
        · have : ¬ k0 = k' := by omega
          have h4 : k' < k0 := by omega
          simp [h3, this, h4]
        · simp [h3]
    · simp only [h1, if_false]
      by_cases h2 : k = k0
      · subst h2
        simp only [if_true, amGet]
        by_cases h3 : k = k'
        · subst h3; simp
        · have h3' : ¬ k' = k := fun e => h3 e.symm
          simp [h3, h3']
      · simp only [h2, if_false, amGet, ih hs.tail]
        by_cases h3 : k0 = k'
        · subst h3
          have : ¬ k0 = k := fun e => h2 e.symm
          simp [this]
        · simp only [h3, if_false]
          by_cases h4 : k' < k0
          · have : ¬ k' = k := by omega
            simp [h4, this]
          · simp [h4]

theorem amGet_amDel {β : Type} (l : List (Nat × β)) (k : Nat) (k' : Nat) (hs : Sorted l) :
    amGet (amDel l k) k' = if k' = k then none else amGet l k' := by
  induction l with
  | nil => simp [amDel, amGet]
  | cons p l ih =>
    obtain ⟨k0, w⟩ := p
    have hl := hs.head_lt
    simp only [amDel]
    by_cases h1 : k < k0
    · simp only [h1, if_true, amGet]
      by_cases h2 : k' = k
      · subst h2
        have : ¬ k0 = k' := by omega
        simp [this, h1]
      · simp [h2]
    · simp only [h1, if_false]
      by_cases h2 : k = k0
      · subst h2
        simp only [if_true, amGet]
        by_cases h3 : k' = k
        · subst h3
          simp only [if_true]
          exact amGet_none_of_lt l k' hl
        · have h3' : ¬ k = k' := fun e => h3 e.symm
          simp only [h3, if_false, h3']
          by_cases h4 : k' < k
          · simp only [h4, if_true]
            exact amGet_none_of_lt l k' (fun q hq => by have := hl q hq; simp at this; omega)
          · simp [h4]
      · simp only [h2, if_false, amGet, ih hs.tail]
        by_cases h3 : k0 = k'
        · subst h3
          have : ¬ k0 = k := fun e => h2 e.symm
          simp [this]
        · simp only [h3, if_false]
          by_cases h4 : k' < k0
          · have : ¬ k' = k := by omega
            simp [h4, this]
          · simp [h4]

theorem mem_amSet {β : Type} (l : List (Nat × β)) (k : Nat) (v : β) (e : Nat × β)
    (h : e ∈ amSet l k v) : e = (k, v) ∨ e ∈ l := by
  induction l with
  | nil => simp [amSet] at h; exact Or.inl h
  | cons p l ih =>
    obtain ⟨k0, w⟩ := p
    simp only [amSet] at h
    split at h
    · simp only [mem_cons] at h ⊢; rcases h with h | h | h <;> simp [h]
    · split at h
      · simp only [mem_cons] at h ⊢
        rcases h with h | h
        · rename_i hk; left; rw [h, hk]
        · simp [h]
      · simp only [mem_cons] at h ⊢
        rcases h with h | h
        · simp [h]
        · rcases ih h with h | h <;> simp [h]

theorem mem_amDel {β : Type} (l : List (Nat × β)) (k : Nat) (e : Nat × β)
    (h : e ∈ amDel l k) : e ∈ l := by
  induction l with
  | nil => simp [amDel] at h
  | cons p l ih =>
    obtain ⟨k0, w⟩ := p
    simp only [amDel] at h
    split at h
    · exact h
    · split at h
      · simp [h]
      · simp only [mem_cons] at h ⊢
        rcases h with h | h
        · simp [h]
        · simp [ih h]

theorem sorted_amSet {β : Type} (l : List (Nat × β)) (k : Nat) (v : β) (hs : Sorted l) :
    Sorted (amSet l k v) := by
  induction l with
  | nil => simp [amSet, Sorted]
  | cons p l ih =>
    obtain ⟨k0, w⟩ := p
    have hl := hs.head_lt
    simp only [amSet]
    split
    · rename_i h1
      refine pairwise_cons.mpr ⟨?_, hs⟩
      intro q hq
      simp only [mem_cons] at hq
      rcases hq with rfl | hq
      · exact h1
      · have := hl q hq; simp at this ⊢; omega
    · split
      · rename_i h1 h2
        exact pairwise_cons.mpr ⟨hl, hs.tail⟩
      · rename_i h1 h2
        refine pairwise_cons.mpr ⟨?_, ih hs.tail⟩
        intro q hq
        rcases mem_amSet l k v q hq with rfl | hq
        · simp; omega
        · exact hl q hq

theorem sorted_amDel {β : Type} (l : List (Nat × β)) (k : Nat) (hs : Sorted l) :
    Sorted (amDel l k) := by
  induction l with
  | nil => simp [amDel, Sorted]
  | cons p l ih =>
    obtain ⟨k0, w⟩ := p
    simp only [amDel]
    split
    · exact hs
    · split
      · exact hs.tail
      · exact pairwise_cons.mpr ⟨fun q hq => hs.head_lt q (mem_amDel l k q hq), ih hs.tail⟩

theorem amGet_head {β : Type} (k : Nat) (v : β) (l : List (Nat × β)) : amGet ((k, v) :: l) k = some v := by
  simp [amGet]

/-- two canonical lists with the same lookups are equal -/
theorem sorted_ext {β : Type} : ∀ (l1 l2 : List (Nat × β)), Sorted l1 → Sorted l2 →
    (∀ k, amGet l1 k = amGet l2 k) → l1 = l2 := by
  intro l1
  induction l1 with
  | nil =>
    intro l2 _ _ h
    cases l2 with
    | nil => rfl
    | cons q l2 =>
      have := h q.1
      simp [amGet] at this
  | cons p l1 ih =>
    intro l2 h1 h2 h
    cases l2 with
    | nil => have := h p.1; simp [amGet] at this
    | cons q l2 =>
      obtain ⟨kp, vp⟩ := p
      obtain ⟨kq, vq⟩ := q
      have hp := h kp
      have hq := h kq
      simp only [amGet, if_true] at hp hq
      have hkk : kp = kq := by
        by_cases c : kp = kq
        · exact c
        · exfalso
          have c' : ¬ kq = kp := fun e => c e.symm
          simp only [c', if_false] at hp
          simp only [c, if_false] at hq
          by_cases d : kp < kq
          · simp [d] at hp
          · have d' : kq < kp := by omega
            simp [d'] at hq
      subst hkk
      simp only [if_true, Option.some.injEq] at hp
      subst hp
      congr 1
      apply ih l2 h1.tail h2.tail
      intro k
      have hk := h k
      simp only [amGet] at hk
      by_cases c : kp = k
      · subst c
        rw [amGet_none_of_lt l1 kp h1.head_lt, amGet_none_of_lt l2 kp h2.head_lt]
      · simp only [c, if_false] at hk
        by_cases d : k < kp
        · rw [amGet_none_of_lt l1 k (fun q hq => by have := h1.head_lt q hq; simp at this; omega),
            amGet_none_of_lt l2 k (fun q hq => by have := h2.head_lt q hq; simp at this; omega)]
        · simpa [d] using hk

theorem amSet_same {β : Type} (l : List (Nat × β)) (k : Nat) (v : β) (hs : Sorted l)
    (h : amGet l k = some v) : amSet l k v = l := by
  apply sorted_ext _ _ (sorted_amSet l k v hs) hs
  intro k'
  rw [amGet_amSet l k v k' hs]
  by_cases c : k' = k
  · subst c; simp [h]
  · simp [c]

theorem amDel_absent {β : Type} (l : List (Nat × β)) (k : Nat) (hs : Sorted l)
    (h : amGet l k = none) : amDel l k = l := by
  apply sorted_ext _ _ (sorted_amDel l k hs) hs
  intro k'
  rw [amGet_amDel l k k' hs]
  by_cases c : k' = k
  · subst c; simp [h]
  · simp [c]

theorem amGet_mem {β : Type} (l : List (Nat × β)) (k : Nat) (v : β) (h : amGet l k = some v) :
    (k, v) ∈ l := by
  induction l with
  | nil => simp [amGet] at h
  | cons p l ih =>
    obtain ⟨k0, w⟩ := p
    simp only [amGet] at h
    by_cases c : k0 = k
    · subst c; simp at h; simp [h]
    · simp only [c, if_false] at h
      split at h
      · simp at h
      · simp [ih h]

theorem amGet_of_mem {β : Type} (l : List (Nat × β)) (k : Nat) (v : β) (hs : Sorted l)
    (h : (k, v) ∈ l) : amGet l k = some v := by
  induction l with
  | nil => simp at h
  | cons p l ih =>
    obtain ⟨k0, w⟩ := p
    simp only [mem_cons, Prod.mk.injEq] at h
    rcases h with ⟨rfl, rfl⟩ | h
    · simp [amGet]
    · have := hs.head_lt (k, v) h
      simp at this
      have c : ¬ k0 = k := by omega
      have d : ¬ k < k0 := by omega
      simp only [amGet, c, if_false, d]
      exact ih hs.tail h

end PV.C25
