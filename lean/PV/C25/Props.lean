/-
C25 property theorems: attributes merge, persist and diff correctly.

Full-strength statements, all proved for the model of boltdb/attrstore.go + attr.go (Model.lean,
which follows the code after the two `fix:` commits of this round):
  * `C25_merge`         every history of SetAttrs / SetBulkAttrs / Attrs / reopen over any number of
                        stores, interleaved with arbitrary writes by callers into ANY map they were
                        handed earlier, answers exactly like the finite-map specification: reads
                        return the merge of all updates with value kinds preserved (nil deletes,
                        int/uint/uint64 become int64), unsupported types are refused without effect.
  * `C25_blocks`        on the bucket of any reachable store, Blocks lists one block per id/100
                        that occurs, ascending, checksummed over exactly the entries of that number,
                        and BlockData(i) lists exactly the ids of block i with their attributes.
  * `C25_checksum_iff`  with an injective checksum hash: two stores report the same checksum for
                        block i (or both do not list it) iff they hold the same attributes in it.
  * `C25_diff`          on ascending block lists Diff returns exactly the ids of the first list's
                        blocks for which the second list has no block of equal id and checksum.
  * `C25_bulk_sequential` the bulk path of the executor — the SetRowAttrs calls of one query accumulated
                        per row with later calls overwriting key by key (`mergeCalls`), then one
                        SetBulkAttrs — equals the calls applied one after the other in call order:
                        per key the last writer wins, a later null deletes.
Core Lean only.
-/
import PV.C25.Lemmas7
import PV.C25.Lemmas9
namespace PV.C25
open List

/-- Reads return the merged attributes whatever callers do to maps handed out earlier. -/
theorem C25_merge (n : Nat) (ops : List Op) (hok : ∀ op ∈ ops, OpOK n op) :
    World.run (World.init n) ops = Spec.run (List.replicate n []) ops :=
  run_ok ops (World.init n) _ (WInv.init n) (by simpa [World.init] using hok)

/-- a history with a caller writing into a map returned for an absent id and into one returned on
a cache miss, then reads — the shape of the two defects fixed in this round -/
example : ∀ op ∈ [Op.set 0 1 [(5, .int64 1)], .reopen 0, .get 0 1, .mutate 0 6 (some (.str [121])),
    .get 0 1, .get 0 3, .mutate 2 7 (some (.bool true)), .get 1 777, .set 0 1 [(5, .nil)], .get 0 1],
    OpOK 2 op := by
  intro op h; simp at h; rcases h with rfl | rfl | rfl | rfl | rfl | rfl | rfl | rfl | rfl | rfl <;> simp [OpOK]

/-- every bucket a history can produce has ascending ids and holds encodings of canonical
non-empty attribute maps -/
theorem C25_reachable_bucket (n : Nat) (ops : List Op) (hok : ∀ op ∈ ops, OpOK n op) (s : Nat) (hs : s < n) :
    DbOK ((World.exec (World.init n) ops).store s).db := by
  obtain ⟨sp', h, hl⟩ := exec_inv ops (World.init n) _ (WInv.init n) (by simpa [World.init] using hok)
  exact (h.stores s (by rw [hl]; simpa [World.init] using hs)).db

/-- Blocks and BlockData on a bucket with ascending ids (every reachable bucket, by
`C25_reachable_bucket`). -/
theorem C25_blocks {χ : Type} (H : List (Nat × Enc) → χ) (db : List (Nat × Enc)) (hs : Sorted db) :
    (∀ b ∈ blocks H db, (∃ e ∈ db, e.1 / 100 = b.id) ∧
        b.checksum = H (db.filter (fun x => x.1 / 100 = b.id))) ∧
    (∀ e ∈ db, ∃ b ∈ blocks H db, b.id = e.1 / 100) ∧
    (blocks H db).Pairwise (fun a b => a.id < b.id) ∧
    (∀ i, blockData db i = Spec.blockData (absDb db) i) := by
  obtain ⟨p1, p2, p3⟩ := blockList_sorted H db.length db (Nat.le_refl _) hs
  rw [blocks_eq_blockList]
  refine ⟨p1, p2, p3, fun i => ?_⟩
  rw [blockData_sorted db i hs, filter_absDb]; rfl

example : Sorted ([(99, [⟨1, 2, [], 5, false, 0⟩]), (100, [⟨1, 1, [97], 0, false, 0⟩]), (250, [])] : List (Nat × Enc)) := by
  simp [Sorted]

/-- Equal checksums iff same attributes, block by block, for any two reachable buckets. -/
theorem C25_checksum_iff {χ : Type} (H : List (Nat × Enc) → χ) (hH : Function.Injective H)
    (da db : List (Nat × Enc)) (ha : DbOK da) (hb : DbOK db) (i : Nat) :
    checksumAt H da i = checksumAt H db i ↔
      Spec.blockData (absDb da) i = Spec.blockData (absDb db) i := by
  rw [checksumAt_eq H da i ha.1, checksumAt_eq H db i hb.1, filter_absDb, filter_absDb]
  have inj : mapV decodeAttrs (da.filter (fun x => blk x = i)) = mapV decodeAttrs (db.filter (fun x => blk x = i)) →
      da.filter (fun x => blk x = i) = db.filter (fun x => blk x = i) :=
    mapV_decode_inj _ _ (fun e he => ha.reencode e (mem_filter.mp he).1)
      (fun e he => hb.reencode e (mem_filter.mp he).1)
  constructor
  · intro h
    by_cases c1 : da.filter (fun x => blk x = i) = []
    · by_cases c2 : db.filter (fun x => blk x = i) = []
      · rw [c1, c2]
      · simp [c1, c2] at h
    · by_cases c2 : db.filter (fun x => blk x = i) = []
      · simp [c1, c2] at h
      · simp only [c1, c2, if_false, Option.some.injEq] at h
        rw [hH h]
  · intro h
    rw [inj h]

example : Function.Injective (fun (l : List (Nat × Enc)) => l) := fun _ _ h => h

/-- executeBulkSetRowAttrs = the calls of the query one after the other.  `calls` are the argument
maps of the SetRowAttrs calls of one field in call order (Go maps: distinct keys; supported value
types); rows may repeat in any pattern. -/
theorem C25_bulk_sequential (st : Spec.SMap) (hst : SpecOK st) (calls : List (Nat × List (Nat × InVal)))
    (hc : ∀ c ∈ calls, Sorted c.2 ∧ Spec.valid c.2 = true) :
    Spec.bulk st (mergeCalls [] calls) = (calls.foldl (fun st c => (Spec.set st c.1 c.2).1) st, true) := by
  rw [bulk_eq_applyAll st _ (valid_mergeCalls calls [] (fun p hp => by simp at hp) (fun c h => (hc c h).2)),
    mergeCalls_sequential calls [] st hst ⟨by simp [Sorted], fun p hp => by simp at hp⟩ hc,
    seq_eq_applyAll calls st (fun c h => (hc c h).2)]
  rfl

/-- the row repeated with an overlapping key, a type change and a later null -/
example : ∀ c ∈ [((0 : Nat), [((5 : Nat), InVal.bool true)]), (0, [(5, .bool false), (6, .nil)]), (1, [(5, .str [97])]),
    (0, [(5, .nil)])], Sorted c.2 ∧ Spec.valid c.2 = true := by
  intro c h; simp at h; rcases h with rfl | rfl | rfl | rfl <;> simp [Sorted, Spec.valid, coerce]

/-- Diff on ascending block lists. -/
theorem C25_diff {χ : Type} [DecidableEq χ] (a b : List (Block χ))
    (ha : a.Pairwise (fun x y => x.id < y.id)) (hb : b.Pairwise (fun x y => x.id < y.id)) :
    diff a b = (a.filter (fun x => !(b.any (fun y => y.id = x.id ∧ y.checksum = x.checksum)))).map (·.id) :=
  diff_spec (a.length + b.length) a b (Nat.le_refl _) ha hb

example : ([⟨0, 7⟩, ⟨1, 8⟩, ⟨4, 9⟩] : List (Block Nat)).Pairwise (fun x y => x.id < y.id) := by decide

end PV.C25
