/-
pm_c25: model driver for C25.  Two attribute stores (0 and 1) in one process (they share the
package-level `emptyMap`), and the list of maps handed to the caller by `get`.

Tokens
  key    k<hex>  (at most 16 bytes)
  val    s<hex> string | i<int> int64 | n<int> Go int | w<uint> Go uint | u<uint> uint64 |
         b0 b1 bool | f<hex bits> float64 | ~ nil (delete) | ! a value of an unsupported type
  attrs  key=val;key=val;...   or _ (empty map); keys of one map are distinct
Ops
  set <S> <id> <attrs>             SetAttrs                        -> ok | err:type
  bulk <S> <id>:<attrs>|<id>:...   SetBulkAttrs (distinct ids; _)  -> ok | err:type
  get <S> <id>                     Attrs; the map becomes handle #k (k = number of earlier gets) -> attrs
  mut <k> <key>=<val>              the caller writes into map #k (~ deletes)  -> ok | err:handle
  reopen <S>                       close, new store object on the same file   -> ok
  blocks <S>                       Blocks: block ids                         -> csv | -
  bdata <S> <i>                    BlockData(i)                              -> id{attrs} id{attrs} | -
  cmp                              per block id of either store: checksums of store 0 vs 1 -> b:eq b:ne b:only0 b:only1
  diff <S> <S'>                    attrBlocks(Blocks(S)).Diff(Blocks(S'))    -> csv | -
  rawdiff <blocks> <blocks>        Diff on literal sorted lists id:cs,id:cs (or _)  -> csv | -
Stores 2 and 3 are the row attribute store of field f and the column attribute store of an index of
an in-process server; besides the ops above (no reopen) they are reached through PQL:
  erow <id> <attrs>                SetRowAttrs(f, id, ...) next to another call (single path) -> ok
  ebulk <id>:<attrs>|...           a query of SetRowAttrs calls only (bulk path), distinct ids -> ok
  ecol <id> <attrs>                SetColumnAttrs(id, ...)                                    -> ok
  erowget <id>                     Row(f=id): the attributes of the result; handle #k like get -> attrs
  ediff <S> <T>                    S in {2,3}: Field/IndexAttrDiff with the blocks of store T  -> id{attrs} ... | -
  equery <r|c><id>:<attrs>|...     ONE query of SetRowAttrs (r) / SetColumnAttrs (c) calls in this order, rows and
                                   columns may repeat; SetRowAttrs only = the bulk path of the executor   -> ok
  ecolget                          Row(f=7) with columnAttrs=true: row attrs (a handle), then the attribute sets of
                                   its columns 0,1,99,100,101,250 that have attributes (each a handle) -> attrs id{attrs} ...
  e2e attrs: keys [a-z]+, values i<int> s<hex of [a-z0-9]+> b0 b1 f3ff8000000000000 fc002000000000000 ~
`#spec` carries the answer of Spec (finite maps, no cache / heap / cursor).
-/
import PV.Common.Proto
import PV.C25.Model
import PV.C25.Spec
open PV.Proto PV.C25

def hexVal (c : Char) : Option Nat :=
  if '0' ≤ c ∧ c ≤ '9' then some (c.toNat - '0'.toNat)
  else if 'a' ≤ c ∧ c ≤ 'f' then some (c.toNat - 'a'.toNat + 10)
  else none

def parseHex : List Char → Option (List Nat)
  | [] => some []
  | a :: b :: rest => do
    let x ← hexVal a
    let y ← hexVal b
    let r ← parseHex rest
    pure ((x * 16 + y) :: r)
  | _ => none

def hexDigit (n : Nat) : Char := if n < 10 then Char.ofNat (n + 48) else Char.ofNat (n + 87)

def showHex (bs : List Nat) : String :=
  String.ofList (bs.flatMap (fun b => [hexDigit (b / 16 % 16), hexDigit (b % 16)]))

def parseHexNat (cs : List Char) : Option Nat :=
  if cs = [] then none else cs.foldlM (fun acc c => (hexVal c).map (fun d => acc * 16 + d)) 0

def showHexNat (n : Nat) : String :=
  String.ofList ((List.range 16).map (fun i => hexDigit (n / 16 ^ (15 - i) % 16)))

/-- order-preserving injection of byte strings of length ≤ 16 into the naturals -/
def keyNat (bs : List Nat) : Nat :=
  (List.range 16).foldl (fun acc i => acc * 257 + (match bs[i]? with | some b => b % 256 + 1 | none => 0)) 0

def natKey (n : Nat) : List Nat :=
  let digits := (List.range 16).map (fun i => n / 257 ^ (15 - i) % 257)
  (digits.takeWhile (· ≠ 0)).map (· - 1)

def parseKey (s : String) : Option Nat :=
  match s.toList with
  | 'k' :: hs => do
    let bs ← parseHex hs
    if bs.length > 16 then none else pure (keyNat bs)
  | _ => none

def showKey (k : Nat) : String := "k" ++ showHex (natKey k)

def parseVal (s : String) : Option InVal :=
  match s.toList with
  | ['~'] => some .nil
  | ['!'] => some .other
  | 's' :: hs => (parseHex hs).map .str
  | 'i' :: ds => (String.ofList ds).toInt?.map .int64
  | 'n' :: ds => (String.ofList ds).toInt?.map .goInt
  | 'w' :: ds => (String.ofList ds).toNat?.map .goUint
  | 'u' :: ds => (String.ofList ds).toNat?.map .uint64
  | ['b', '0'] => some (.bool false)
  | ['b', '1'] => some (.bool true)
  | 'f' :: hs => (parseHexNat hs).map .float
  | _ => none

def showVal : Val → String
  | .str s => "s" ++ showHex s
  | .int i => "i" ++ toString i
  | .bool b => if b then "b1" else "b0"
  | .float f => "f" ++ showHexNat f

def showAttrs (m : AttrMap) : String :=
  if m = [] then "_" else ";".intercalate (m.map (fun kv => showKey kv.1 ++ "=" ++ showVal kv.2))

def insertKV {β : Type} (p : Nat × β) : List (Nat × β) → Option (List (Nat × β))
  | [] => some [p]
  | q :: qs =>
    if p.1 < q.1 then some (p :: q :: qs)
    else if p.1 = q.1 then none          -- duplicate key: not a Go map
    else (insertKV p qs).map (q :: ·)

def parseAttrs (s : String) : Option (List (Nat × InVal)) :=
  if s = "_" then some [] else
  (s.splitOn ";").foldlM (fun acc kv =>
    match kv.splitOn "=" with
    | [k, v] => do
      let k ← parseKey k
      let v ← parseVal v
      insertKV (k, v) acc
    | _ => none) []

def parseBulk (s : String) : Option (List (Nat × List (Nat × InVal))) :=
  if s = "_" then some [] else
  (s.splitOn "|").foldlM (fun acc p =>
    match p.splitOn ":" with
    | [id, a] => do
      let id ← id.toNat?
      let a ← parseAttrs a
      insertKV (id, a) acc
    | _ => none) []

def showCsv (xs : List Nat) : String :=
  if xs = [] then "-" else ",".intercalate (xs.map toString)

def showBData (xs : List (Nat × AttrMap)) : String :=
  if xs = [] then "-" else " ".intercalate (xs.map (fun e => toString e.1 ++ "{" ++ showAttrs e.2 ++ "}"))

structure St where
  w : World := World.init 4
  sp : List Spec.SMap := [[], [], [], []]

def St.spec (st : St) (i : Nat) : Spec.SMap := st.sp.getD i []

abbrev Hid : List (Nat × Enc) → List (Nat × Enc) := id

def mergeIds : List Nat → List Nat → List Nat
  | [], b => b
  | a, [] => a
  | x :: a, y :: b =>
    if x < y then x :: mergeIds a (y :: b)
    else if y < x then y :: mergeIds (x :: a) b
    else x :: mergeIds a b
termination_by a b => a.length + b.length

def cmpLine {χ : Type} [DecidableEq χ] (a b : List (Nat × χ)) : String :=
  let ids := mergeIds (a.map (·.1)) (b.map (·.1))
  if ids = [] then "-" else
  " ".intercalate (ids.map (fun i =>
    match a.lookup i, b.lookup i with
    | some x, some y => s!"{i}:" ++ (if x = y then "eq" else "ne")
    | some _, none => s!"{i}:only0"
    | none, some _ => s!"{i}:only1"
    | none, none => s!"{i}:?"))

def parseRaw (s : String) : Option (List (Block Nat)) :=
  if s = "_" then some [] else
  (s.splitOn ",").mapM (fun t =>
    match t.splitOn ":" with
    | [i, c] => do pure ⟨← i.toNat?, ← c.toNat?⟩
    | _ => none)

def specRawDiff (a b : List (Block Nat)) : List Nat :=
  (a.filter (fun x => !(b.any (fun y => y.id = x.id ∧ y.checksum = x.checksum)))).map (·.id)

/-- what PQL can express and re-read unambiguously -/
def e2eOK (m : List (Nat × InVal)) : Bool :=
  m ≠ [] && m.all (fun kv =>
    let key := natKey kv.1
    key ≠ [] && key.all (fun b => 97 ≤ b && b ≤ 122) &&
    (match kv.2 with
     | .nil => true
     | .bool _ => true
     | .int64 _ => true
     | .float f => f = 0x3ff8000000000000 || f = 0xc002000000000000
     | .str s => s ≠ [] && s.all (fun b => (97 ≤ b && b ≤ 122) || (48 ≤ b && b ≤ 57))
     | _ => false))

def step (st : St) (ws : List String) : St × Ans :=
  let bad := (st, ans "bad-op")
  let okS (b : Bool) := if b then "ok" else "err:type"
  match ws with
  | ["set", s, id, a] =>
    match s.toNat?, id.toNat?, parseAttrs a with
    | some s, some id, some m =>
      if s > 3 then bad else
      let (w', ok) := setAttrs st.w s id m
      let (sp', sok) := Spec.set (st.spec s) id m
      ({ w := w', sp := st.sp.set s sp' }, ans2 (okS ok) (okS sok) "set")
    | _, _, _ => bad
  | ["bulk", s, b] =>
    match s.toNat?, parseBulk b with
    | some s, some m =>
      if s > 3 then bad else
      let (w', ok) := setBulkAttrs st.w s m
      let (sp', sok) := Spec.bulk (st.spec s) m
      ({ w := w', sp := st.sp.set s sp' }, ans2 (okS ok) (okS sok) "bulk")
    | _, _ => bad
  | ["get", s, id] =>
    match s.toNat?, id.toNat? with
    | some s, some id =>
      if s > 3 then bad else
      let (w', h) := attrs st.w s id
      ({ st with w := w' }, ans2 (showAttrs (w'.obj h)) (showAttrs (Spec.get (st.spec s) id)) "get")
    | _, _ => bad
  | ["mut", k, kv] =>
    match k.toNat?, kv.splitOn "=" with
    | some k, [key, v] =>
      match parseKey key, parseVal v with
      | some key, some v =>
        let sp := if k < st.w.held.length then "ok" else "err:handle"
        match coerce v with
        | .invalid => bad
        | c =>
          let v' := match c with | .put x => some x | _ => none
          match mutate st.w k key v' with
          | some w' => ({ st with w := w' }, ans2 "ok" sp "mutate")
          | none => (st, ans2 "err:handle" sp "mutate")
      | _, _ => bad
    | _, _ => bad
  | ["reopen", s] =>
    match s.toNat? with
    | some s => if s > 1 then bad else ({ st with w := reopen st.w s }, ans "ok")
    | none => bad
  | ["blocks", s] =>
    match s.toNat? with
    | some s =>
      if s > 3 then bad else
      (st, ans2 (showCsv ((blocks Hid (st.w.store s).db).map (·.id))) (showCsv (Spec.blockIds (st.spec s))) "blocks")
    | none => bad
  | ["bdata", s, i] =>
    match s.toNat?, i.toNat? with
    | some s, some i =>
      if s > 3 then bad else
      (st, ans2 (showBData (blockData (st.w.store s).db i)) (showBData (Spec.blockData (st.spec s) i)) "blockdata")
    | _, _ => bad
  | ["cmp"] =>
    let ba := (blocks Hid (st.w.store 0).db).map (fun b => (b.id, b.checksum))
    let bb := (blocks Hid (st.w.store 1).db).map (fun b => (b.id, b.checksum))
    let sa := (Spec.blockIds (st.spec 0)).map (fun i => (i, Spec.blockData (st.spec 0) i))
    let sb := (Spec.blockIds (st.spec 1)).map (fun i => (i, Spec.blockData (st.spec 1) i))
    (st, ans2 (cmpLine ba bb) (cmpLine sa sb) "checksum")
  | ["diff", a, b] =>
    match a.toNat?, b.toNat? with
    | some a, some b =>
      if a > 3 ∨ b > 3 then bad else
      (st, ans2 (showCsv (diff (blocks Hid (st.w.store a).db) (blocks Hid (st.w.store b).db)))
                (showCsv (Spec.diff (st.spec a) (st.spec b))) "diff")
    | _, _ => bad
  | ["rawdiff", a, b] =>
    match parseRaw a, parseRaw b with
    | some a, some b => (st, ans2 (showCsv (diff a b)) (showCsv (specRawDiff a b)) "rawdiff")
    | _, _ => bad
  | [op, id, a] =>
    if op ≠ "erow" ∧ op ≠ "ecol" ∧ op ≠ "ediff" then bad else
    if op = "ediff" then
      match id.toNat?, a.toNat? with
      | some s, some t =>
        if (s ≠ 2 ∧ s ≠ 3) ∨ t > 3 then bad else
        let db := (st.w.store s).db
        let ids := diff (blocks Hid db) (blocks Hid (st.w.store t).db)
        let sids := Spec.diff (st.spec s) (st.spec t)
        (st, ans2 (showBData (ids.flatMap (fun i => blockData db i)))
                  (showBData (sids.flatMap (fun i => Spec.blockData (st.spec s) i))) "attrdiff")
      | _, _ => bad
    else
    match id.toNat?, parseAttrs a with
    | some id, some m =>
      if !e2eOK m ∨ id ≥ 2 ^ 62 then bad else
      let s := if op = "erow" then 2 else 3
      let (w', ok) := setAttrs st.w s id m
      let (sp', sok) := Spec.set (st.spec s) id m
      ({ w := w', sp := st.sp.set s sp' }, ans2 (okS ok) (okS sok) op)
    | _, _ => bad
  | ["equery", q] =>
    let parsed := (q.splitOn "|").mapM (fun part =>
      match part.splitOn ":" with
      | [tgt, a] =>
        match tgt.toList with
        | 'r' :: ds => do pure (true, ← (String.ofList ds).toNat?, ← parseAttrs a)
        | 'c' :: ds => do pure (false, ← (String.ofList ds).toNat?, ← parseAttrs a)
        | _ => none
      | _ => none)
    match parsed with
    | some calls =>
      if calls.length > 8 ∨ !calls.all (fun c => e2eOK c.2.2 && c.2.1 < 2 ^ 62) then bad else
      -- specification: the calls one after the other, each a single update
      let spAll := calls.foldl (fun (acc : List Spec.SMap × Bool) c =>
        let s := if c.1 then 2 else 3
        let r := Spec.set (acc.1.getD s []) c.2.1 c.2.2
        (acc.1.set s r.1, acc.2 && r.2)) (st.sp, true)
      if calls.all (·.1) then
        -- executeBulkSetRowAttrs: accumulate per row, then one SetBulkAttrs
        let (w', ok) := setBulkAttrs st.w 2 (mergeCalls [] (calls.map (·.2)))
        ({ w := w', sp := spAll.1 }, ans2 (okS ok) (okS spAll.2) "equery-bulk")
      else
        let (w', ok) := calls.foldl (fun (acc : World × Bool) c =>
          let r := setAttrs acc.1 (if c.1 then 2 else 3) c.2.1 c.2.2
          (r.1, acc.2 && r.2)) (st.w, true)
        ({ w := w', sp := spAll.1 }, ans2 (okS ok) (okS spAll.2) "equery")
    | none => bad
  | ["ecolget"] =>
    let (w1, h) := attrs st.w 2 7
    let rowS := showAttrs (w1.obj h)
    let (w2, sets) := [0, 1, 99, 100, 101, 250].foldl (fun (acc : World × List (Nat × AttrMap)) id =>
      let (w', hc) := attrsObj acc.1 3 id
      let m := w'.obj hc
      if m = [] then (w', acc.2) else ({ w' with held := w'.held ++ [hc] }, acc.2 ++ [(id, m)])) (w1, [])
    let specSets := [0, 1, 99, 100, 101, 250].filterMap (fun id =>
      let m := Spec.get (st.spec 3) id
      if m = [] then none else some (id, m))
    ({ st with w := w2 }, ans2 (rowS ++ " " ++ showBData sets)
      (showAttrs (Spec.get (st.spec 2) 7) ++ " " ++ showBData specSets) "ecolget")
  | ["ebulk", b] =>
    match parseBulk b with
    | some m =>
      if !m.all (fun p => e2eOK p.2 && p.1 < 2 ^ 62) then bad else
      let (w', ok) := setBulkAttrs st.w 2 m
      let (sp', sok) := Spec.bulk (st.spec 2) m
      ({ w := w', sp := st.sp.set 2 sp' }, ans2 (okS ok) (okS sok) "ebulk")
    | none => bad
  | ["erowget", id] =>
    match id.toNat? with
    | some id =>
      if id ≥ 2 ^ 62 then bad else
      let (w', h) := attrs st.w 2 id
      ({ st with w := w' }, ans2 (showAttrs (w'.obj h)) (showAttrs (Spec.get (st.spec 2) id)) "erowget")
    | none => bad
  | _ => bad

def main : IO Unit := run ({} : St) step
