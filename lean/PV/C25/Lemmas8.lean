/-
C25 helper lemmas, part 8: the bulk path of the executor (calls of one query accumulated per row,
then one SetBulkAttrs) equals the calls applied one after the other.  Core Lean only.
-/
import PV.C25.Lemmas7
set_option linter.unusedSimpArgs false
namespace PV.C25
open List

/-- what one update does to one key -/
def applyTo (old : Option Val) : Option InVal → Option Val
  | none => old
  | some v => match coerce v with
    | .delete => none
    | .put x => some x
    | .invalid => old

theorem amGet_mergeStep (a : AttrMap) (ha : Sorted a) (k0 : Nat) (v0 : InVal) (k : Nat) :
    amGet (Spec.mergeStep a (k0, v0)) k = if k = k0 then applyTo (amGet a k) (some v0) else amGet a k := by
  cases hc : coerce v0 with
  | delete => rw [mergeStep_delete a k0 v0 hc, amGet_amDel a k0 k ha]; by_cases h : k = k0 <;> simp [h, applyTo, hc]
  | put x => rw [mergeStep_put a k0 v0 x hc, amGet_amSet a k0 x k ha]; by_cases h : k = k0 <;> simp [h, applyTo, hc]
  | invalid => rw [mergeStep_invalid a k0 v0 hc]; by_cases h : k = k0 <;> simp [h, applyTo, hc]

theorem sorted_mergeStep (a : AttrMap) (ha : Sorted a) (kv : Nat × InVal) : Sorted (Spec.mergeStep a kv) := by
  obtain ⟨k, v⟩ := kv
  cases hc : coerce v with
  | delete => rw [mergeStep_delete a k v hc]; exact sorted_amDel _ _ ha
  | put x => rw [mergeStep_put a k v x hc]; exact sorted_amSet _ _ _ ha
  | invalid => rw [mergeStep_invalid a k v hc]; exact ha

/-- reading a key after merging an update whose keys are distinct (a Go map) -/
theorem amGet_merge (u : List (Nat × InVal)) : ∀ (a : AttrMap), Sorted a → Sorted u → ∀ k,
    amGet (Spec.merge a u) k = applyTo (amGet a k) (amGet u k) := by
  induction u with
  | nil => intro a _ _ k; simp [Spec.merge, amGet, applyTo]
  | cons kv u ih =>
    intro a ha hu k
    obtain ⟨k0, v0⟩ := kv
    have hlt := hu.head_lt
    simp only [Spec.merge, foldl_cons]
    have := ih (Spec.mergeStep a (k0, v0)) (sorted_mergeStep a ha _) hu.tail k
    simp only [Spec.merge] at this
    rw [this, amGet_mergeStep a ha]
    by_cases h : k = k0
    · subst h
      have hn : amGet u k = none := amGet_none_of_lt u k hlt
      simp [hn, amGet, applyTo]
    · have h' : ¬ k0 = k := fun e => h e.symm
      simp only [h, if_false, amGet, h']
      by_cases hk : k < k0
      · have hn : amGet u k = none :=
          amGet_none_of_lt u k (fun q hq => by have := hlt q hq; simp at this; omega)
        simp [hk, hn]
      · simp [hk]

/-- the accumulation step of executeBulkSetRowAttrs for one row: a later call overwrites key by key -/
def overrideWith (u1 u2 : List (Nat × InVal)) : List (Nat × InVal) :=
  u2.foldl (fun m kv => amSet m kv.1 kv.2) u1

theorem overrideWith_spec (u2 : List (Nat × InVal)) : ∀ (u1 : List (Nat × InVal)), Sorted u1 → Sorted u2 →
    Sorted (overrideWith u1 u2) ∧ ∀ k, amGet (overrideWith u1 u2) k = (amGet u2 k).orElse (fun _ => amGet u1 k) := by
  induction u2 with
  | nil => intro u1 h1 _; exact ⟨h1, fun k => by simp [overrideWith, amGet]⟩
  | cons kv u2 ih =>
    intro u1 h1 h2
    obtain ⟨k0, v0⟩ := kv
    have hlt := h2.head_lt
    obtain ⟨s, g⟩ := ih (amSet u1 k0 v0) (sorted_amSet _ _ _ h1) h2.tail
    refine ⟨s, fun k => ?_⟩
    have := g k
    simp only [overrideWith, foldl_cons] at this ⊢
    rw [this, amGet_amSet u1 k0 v0 k h1]
    by_cases h : k = k0
    · subst h
      simp [amGet_none_of_lt u2 k hlt, amGet]
    · have h' : ¬ k0 = k := fun e => h e.symm
      simp only [h, if_false, amGet, h']
      by_cases hk : k < k0
      · have hn : amGet u2 k = none :=
          amGet_none_of_lt u2 k (fun q hq => by have := hlt q hq; simp at this; omega)
        simp [hk, hn]
      · simp [hk]

theorem valid_get {u : List (Nat × InVal)} (hv : Spec.valid u = true) {k : Nat} {v : InVal}
    (h : amGet u k = some v) : coerce v ≠ .invalid := by
  have hm := amGet_mem u k v h
  simp only [Spec.valid, all_eq_true] at hv
  simpa using hv (k, v) hm

/-- Two calls for the same row accumulated by the executor and merged once = merged one after the
other: per key the later call wins, a later null deletes. -/
theorem merge_overrideWith (a : AttrMap) (u1 u2 : List (Nat × InVal)) (ha : Sorted a) (h1 : Sorted u1)
    (h2 : Sorted u2) (hv2 : Spec.valid u2 = true) :
    Spec.merge a (overrideWith u1 u2) = Spec.merge (Spec.merge a u1) u2 := by
  obtain ⟨so, go⟩ := overrideWith_spec u2 u1 h1 h2
  apply sorted_ext _ _ (sorted_merge _ _ ha) (sorted_merge _ _ (sorted_merge _ _ ha))
  intro k
  rw [amGet_merge _ a ha so, amGet_merge _ _ (sorted_merge _ _ ha) h2, amGet_merge _ a ha h1, go k]
  cases hg2 : amGet u2 k with
  | none => simp [applyTo]
  | some v2 =>
    have := valid_get hv2 hg2
    cases hc : coerce v2 with
    | delete => simp [applyTo, hc]
    | put x => simp [applyTo, hc]
    | invalid => exact absurd hc this

end PV.C25
