/-
C25 helper lemmas, part 7: Blocks / BlockData on a bucket with ascending ids, checksums under an
injective hash, Diff.  Core Lean only.
-/
import PV.C25.Lemmas6
set_option linter.unusedSimpArgs false
namespace PV.C25
open List

/-- ids ascending ⇒ block numbers non-decreasing -/
theorem blk_mono {a b : Nat × Enc} (h : a.1 < b.1) : blk a ≤ blk b := by
  simp only [blk, attrBlockSize]; omega

theorem inBlk_iff (base : Nat) (e : Nat × Enc) : inBlk base e = true ↔ blk e ≤ base := by
  simp [inBlk, blk]

/-- in a bucket with ascending ids the entries of the first entry's block are a prefix -/
theorem split_first_block (e : Nat × Enc) (rest : List (Nat × Enc)) (hs : Sorted (e :: rest)) :
    rest.takeWhile (inBlk (blk e)) = rest.filter (fun x => blk x = blk e) ∧
    rest.dropWhile (inBlk (blk e)) = rest.filter (fun x => blk e < blk x) := by
  have hge : ∀ x ∈ rest, blk e ≤ blk x := fun x hx => blk_mono (hs.head_lt x hx)
  have hp : rest.Pairwise (fun a b => inBlk (blk e) b = true → inBlk (blk e) a = true) := by
    refine hs.tail.imp ?_
    intro a b hab hb
    rw [inBlk_iff] at hb ⊢
    exact Nat.le_trans (blk_mono hab) hb
  obtain ⟨t1, t2⟩ := takeWhile_dropWhile_filter (inBlk (blk e)) rest hp
  refine ⟨?_, ?_⟩
  · rw [t1]
    apply filter_congr
    intro x hx
    have := hge x hx
    have h1 := inBlk_iff (blk e) x
    by_cases c : blk x = blk e
    · simp [c, h1.mpr (by omega)]
    · have : ¬ blk x ≤ blk e := by omega
      have : inBlk (blk e) x = false := by
        cases hh : inBlk (blk e) x with
        | false => rfl
        | true => exact absurd (h1.mp hh) this
      simp [c, this]
  · rw [t2]
    apply filter_congr
    intro x hx
    have h1 := inBlk_iff (blk e) x
    by_cases c : blk e < blk x
    · have : inBlk (blk e) x = false := by
        cases hh : inBlk (blk e) x with
        | false => rfl
        | true => have := h1.mp hh; omega
      simp [c, this]
    · have : inBlk (blk e) x = true := h1.mpr (by omega)
      simp [c, this]

theorem Sorted.filter {β : Type} {l : List (Nat × β)} (h : Sorted l) (p : Nat × β → Bool) :
    Sorted (l.filter p) := Pairwise.filter p h

/-- Blocks on a bucket with ascending ids: one block per block number that occurs, in ascending
order, each checksummed over exactly the entries of that number. -/
theorem blockList_sorted {χ : Type} (H : List (Nat × Enc) → χ) : ∀ (n : Nat) (db : List (Nat × Enc)),
    db.length ≤ n → Sorted db →
    (∀ b ∈ blockList H db, (∃ e ∈ db, blk e = b.id) ∧ b.checksum = H (db.filter (fun x => blk x = b.id))) ∧
    (∀ e ∈ db, ∃ b ∈ blockList H db, b.id = blk e) ∧
    (blockList H db).Pairwise (fun a b => a.id < b.id) := by
  intro n
  induction n with
  | zero =>
    intro db hl _
    have : db = [] := length_eq_zero_iff.mp (by omega)
    subst this
    simp [blockList]
  | succ n ih =>
    intro db hl hs
    cases db with
    | nil => simp [blockList]
    | cons e rest =>
      obtain ⟨t1, t2⟩ := split_first_block e rest hs
      have hsub : (rest.filter (fun x => blk e < blk x)).length ≤ n := by
        have := (filter_sublist (l := rest) (p := fun x => decide (blk e < blk x))).length_le
        simp only [length_cons] at hl; omega
      obtain ⟨i1, i2, i3⟩ := ih (rest.filter (fun x => blk e < blk x)) hsub (hs.tail.filter _)
      rw [blockList, t1, t2]
      refine ⟨?_, ?_, ?_⟩
      · intro b hb
        simp only [mem_cons] at hb
        rcases hb with rfl | hb
        · refine ⟨⟨e, by simp, rfl⟩, ?_⟩
          simp [filter_cons]
        · obtain ⟨⟨x, hx, hxb⟩, hc⟩ := i1 b hb
          have hxr := (mem_filter.mp hx)
          refine ⟨⟨x, by simp [hxr.1], hxb⟩, ?_⟩
          rw [hc]
          have hgt : blk e < b.id := by rw [← hxb]; simpa using hxr.2
          have hne : ¬ blk e = b.id := by omega
          congr 1
          simp only [filter_cons, hne, decide_false, Bool.false_eq_true, if_false, filter_filter]
          apply filter_congr
          intro y _
          by_cases c : blk y = b.id
          · simp [c, hgt]
          · simp [c]
      · intro x hx
        simp only [mem_cons] at hx
        rcases hx with rfl | hx
        · exact ⟨⟨blk x, _⟩, mem_cons_self, rfl⟩
        · by_cases c : blk x = blk e
          · exact ⟨⟨blk e, _⟩, mem_cons_self, c.symm⟩
          · have hge : blk e ≤ blk x := blk_mono (hs.head_lt x hx)
            have : x ∈ rest.filter (fun x => blk e < blk x) := by
              simp [hx]; omega
            obtain ⟨b, hb, hbi⟩ := i2 x this
            exact ⟨b, by simp [hb], hbi⟩
      · refine pairwise_cons.mpr ⟨?_, i3⟩
        intro b hb
        obtain ⟨⟨x, hx, hxb⟩, _⟩ := i1 b hb
        have := (mem_filter.mp hx).2
        simp only [decide_eq_true_eq] at this
        simp only; omega

/-- BlockData(i) on a bucket with ascending ids: exactly the entries with id / 100 = i -/
theorem blockData_sorted (db : List (Nat × Enc)) (i : Nat) (hs : Sorted db) :
    blockData db i = (db.filter (fun e => blk e = i)).map (fun (e : Nat × Enc) => (e.1, decodeAttrs e.2)) := by
  unfold blockData
  congr 1
  have hp1 : db.Pairwise (fun a b => decide (b.1 < i * attrBlockSize) = true →
      decide (a.1 < i * attrBlockSize) = true) := by
    refine hs.imp ?_
    intro a b hab hb; simp at hb ⊢; omega
  obtain ⟨_, d1⟩ := takeWhile_dropWhile_filter (fun (e : Nat × Enc) => decide (e.1 < i * attrBlockSize)) db hp1
  rw [d1]
  have hs2 : Sorted (db.filter (fun x => !decide (x.1 < i * attrBlockSize))) := hs.filter _
  have hp2 : (db.filter (fun x => !decide (x.1 < i * attrBlockSize))).Pairwise (fun a b =>
      decide (b.1 < (i + 1) * attrBlockSize) = true → decide (a.1 < (i + 1) * attrBlockSize) = true) := by
    refine hs2.imp ?_
    intro a b hab hb; simp at hb ⊢; omega
  obtain ⟨t2, _⟩ := takeWhile_dropWhile_filter (fun (e : Nat × Enc) => decide (e.1 < (i + 1) * attrBlockSize)) _ hp2
  rw [t2, filter_filter]
  apply filter_congr
  intro x _
  simp only [blk, attrBlockSize]
  by_cases c : x.1 / 100 = i
  · have h1 : ¬ x.1 < i * 100 := by omega
    have h2 : x.1 < (i + 1) * 100 := by omega
    simp [c, h1, h2]
  · by_cases d : x.1 < i * 100
    · simp [c, d]
    · have : ¬ x.1 < (i + 1) * 100 := by omega
      simp [c, this]

/-! ### Diff -/

/-- `x` (a block of the first list) is reported: the second list has no block with the same id
and the same checksum -/
def keeps {χ : Type} [DecidableEq χ] (b : List (Block χ)) (x : Block χ) : Bool :=
  !(b.any (fun y => y.id = x.id ∧ y.checksum = x.checksum))

theorem keeps_nil {χ : Type} [DecidableEq χ] (x : Block χ) : keeps ([] : List (Block χ)) x = true := by
  simp [keeps]

theorem keeps_of_lt {χ : Type} [DecidableEq χ] (b : List (Block χ)) (x : Block χ)
    (h : ∀ y ∈ b, x.id < y.id) : keeps b x = true := by
  simp only [keeps, Bool.not_eq_true', any_eq_false]
  intro y hy; have := h y hy; simp; omega

theorem keeps_cons_ne {χ : Type} [DecidableEq χ] (b0 : Block χ) (b : List (Block χ)) (x : Block χ)
    (h : b0.id ≠ x.id) : keeps (b0 :: b) x = keeps b x := by
  simp [keeps, h]

theorem keeps_cons_eq {χ : Type} [DecidableEq χ] (b0 : Block χ) (b : List (Block χ)) (x : Block χ)
    (h : b0.id = x.id) (hb : ∀ y ∈ b, b0.id < y.id) :
    keeps (b0 :: b) x = decide (x.checksum ≠ b0.checksum) := by
  have : b.any (fun y => decide (y.id = x.id ∧ y.checksum = x.checksum)) = false := by
    rw [any_eq_false]; intro y hy; have := hb y hy; simp; omega
  simp only [keeps, any_cons, this, Bool.or_false, h, true_and]
  by_cases c : x.checksum = b0.checksum
  · simp [c]
  · have : ¬ b0.checksum = x.checksum := fun e => c e.symm
    simp [c, this]

theorem diff_spec {χ : Type} [DecidableEq χ] : ∀ (n : Nat) (a b : List (Block χ)), a.length + b.length ≤ n →
    a.Pairwise (fun x y => x.id < y.id) → b.Pairwise (fun x y => x.id < y.id) →
    diff a b = (a.filter (keeps b)).map (·.id) := by
  intro n
  induction n with
  | zero =>
    intro a b hl _ _
    have : a = [] := length_eq_zero_iff.mp (by omega)
    subst this; simp [diff]
  | succ n ih =>
    intro a b hl ha hb
    cases a with
    | nil => simp [diff]
    | cons a0 a =>
      cases b with
      | nil =>
        rw [diff, ih a [] (by simp at hl ⊢; omega) ha.tail hb, filter_cons_of_pos (keeps_nil a0)]
        rfl
      | cons b0 b =>
        have ha0 := (pairwise_cons.mp ha).1
        have hb0 := (pairwise_cons.mp hb).1
        rw [diff]
        by_cases c1 : a0.id < b0.id
        · simp only [c1, if_true]
          rw [ih a (b0 :: b) (by simp at hl ⊢; omega) ha.tail hb]
          have hk : keeps (b0 :: b) a0 = true := keeps_of_lt _ _ (fun y hy => by
            simp only [mem_cons] at hy
            rcases hy with rfl | hy
            · exact c1
            · exact Nat.lt_trans c1 (hb0 y hy))
          rw [filter_cons_of_pos hk]; rfl
        · simp only [c1, if_false]
          by_cases c2 : b0.id < a0.id
          · simp only [c2, if_true]
            rw [ih (a0 :: a) b (by simp at hl ⊢; omega) ha hb.tail]
            congr 1
            apply filter_congr
            intro x hx
            have hxge : a0.id ≤ x.id := by
              simp only [mem_cons] at hx
              rcases hx with rfl | hx
              · exact Nat.le_refl _
              · exact Nat.le_of_lt (ha0 x hx)
            rw [keeps_cons_ne b0 b x (by omega)]
          · simp only [c2, if_false]
            have heq : b0.id = a0.id := by omega
            have hfilter : a.filter (keeps (b0 :: b)) = a.filter (keeps b) := by
              apply filter_congr
              intro x hx
              have := ha0 x hx
              rw [keeps_cons_ne b0 b x (by omega)]
            have hk := keeps_cons_eq b0 b a0 heq hb0
            by_cases c3 : a0.checksum ≠ b0.checksum
            · rw [if_pos c3]
              rw [ih a b (by simp at hl ⊢; omega) ha.tail hb.tail]
              have hk' : keeps (b0 :: b) a0 = true := by rw [hk]; simp [c3]
              rw [filter_cons_of_pos hk', hfilter]; rfl
            · rw [if_neg c3]
              rw [ih a b (by simp at hl ⊢; omega) ha.tail hb.tail]
              have hk' : ¬ keeps (b0 :: b) a0 = true := by rw [hk]; simp [c3]
              rw [filter_cons_of_neg hk', hfilter]


/-! ### checksums and contents -/

/-- Blocks(i): the checksum reported for block `i`, if the block is listed -/
def checksumAt {χ : Type} (H : List (Nat × Enc) → χ) (db : List (Nat × Enc)) (i : Nat) : Option χ :=
  ((blocks H db).find? (fun b => b.id = i)).map (·.checksum)

theorem checksumAt_eq {χ : Type} (H : List (Nat × Enc) → χ) (db : List (Nat × Enc)) (i : Nat)
    (hs : Sorted db) :
    checksumAt H db i =
      if db.filter (fun x => blk x = i) = [] then none else some (H (db.filter (fun x => blk x = i))) := by
  obtain ⟨p1, p2, _⟩ := blockList_sorted H db.length db (Nat.le_refl _) hs
  unfold checksumAt
  rw [blocks_eq_blockList]
  by_cases c : db.filter (fun x => blk x = i) = []
  · simp only [c, if_true]
    have : (blockList H db).find? (fun b => b.id = i) = none := by
      rw [find?_eq_none]
      intro b hb hbi
      obtain ⟨⟨e, he, hei⟩, _⟩ := p1 b hb
      have : e ∈ db.filter (fun x => blk x = i) := by
        simp only [decide_eq_true_eq] at hbi
        simp [he, hei, hbi]
      rw [c] at this; simp at this
    rw [this]; rfl
  · simp only [c, if_false]
    obtain ⟨e, he⟩ := exists_mem_of_ne_nil _ c
    have hem := mem_filter.mp he
    obtain ⟨b, hb, hbi⟩ := p2 e hem.1
    have hbi' : b.id = i := by rw [hbi]; simpa using hem.2
    cases hf : (blockList H db).find? (fun b => b.id = i) with
    | none =>
      rw [find?_eq_none] at hf
      exact absurd (by simpa using hbi') (hf b hb)
    | some b' =>
      have h1 := find?_some hf
      have h2 := mem_of_find?_eq_some hf
      simp only [decide_eq_true_eq] at h1
      simp only [Option.map_some, Option.some.injEq]
      rw [(p1 b' h2).2, h1]

theorem DbOK.reencode {db : List (Nat × Enc)} (h : DbOK db) (e : Nat × Enc) (he : e ∈ db) :
    encodeAttrs (decodeAttrs e.2) = e.2 := by
  obtain ⟨m, hm, _, henc⟩ := h.2 e he
  rw [henc, decode_encode m hm]

/-- the attributes of block `i` (ids with their attribute maps) determine the stored entries -/
theorem filter_absDb (db : List (Nat × Enc)) (i : Nat) :
    Spec.blockData (absDb db) i = mapV decodeAttrs (db.filter (fun x => blk x = i)) := by
  simp only [Spec.blockData, absDb, mapV, filter_map]
  congr 1

theorem mapV_decode_inj (l1 l2 : List (Nat × Enc))
    (h1 : ∀ e ∈ l1, encodeAttrs (decodeAttrs e.2) = e.2) (h2 : ∀ e ∈ l2, encodeAttrs (decodeAttrs e.2) = e.2)
    (h : mapV decodeAttrs l1 = mapV decodeAttrs l2) : l1 = l2 := by
  have e1 : mapV encodeAttrs (mapV decodeAttrs l1) = l1 := by
    simp only [mapV, map_map]
    conv => rhs; rw [← map_id l1]
    apply map_congr_left
    intro e he
    simp [h1 e he]
  have e2 : mapV encodeAttrs (mapV decodeAttrs l2) = l2 := by
    simp only [mapV, map_map]
    conv => rhs; rw [← map_id l2]
    apply map_congr_left
    intro e he
    simp [h2 e he]
  rw [← e1, ← e2, h]

theorem exec_inv (ops : List Op) : ∀ (w : World) (sp : List Spec.SMap), WInv w sp →
    (∀ op ∈ ops, OpOK w.stores.length op) →
    ∃ sp', WInv (World.exec w ops) sp' ∧ (World.exec w ops).stores.length = w.stores.length := by
  induction ops with
  | nil => intro w sp h _; exact ⟨sp, h, rfl⟩
  | cons op ops ih =>
    intro w sp h hok
    obtain ⟨h1, _, h3⟩ := step_ok h op (hok op (by simp))
    obtain ⟨sp', h4, h5⟩ := ih _ _ h1 (fun o ho => by rw [h3]; exact hok o (by simp [ho]))
    exact ⟨sp', by simpa [World.exec] using h4, by simp only [World.exec, foldl_cons] at h5 ⊢; rw [h5, h3]⟩

end PV.C25
