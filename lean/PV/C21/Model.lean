/-
C21 model: the resize plan of cluster.go and the holder cleanup of holder.go.
Follows the Go code statement by statement; core Lean only; builds on the placement model PV.C20.

  fragsDiff                                  multiset difference (map of counts in Go)
  fragsByHost / fragCombos                   every field/view combination x every shard with data x every owner
  cluster.diff                               which single node is added / removed, or an error
  cluster.fragSources                        source cluster (replica 1 on add when ReplicaN > 1), inverse map
                                             srcNodesByFrag (last writer in map iteration order wins; the
                                             iteration order is the parameter `perm`), per-node diff, lookup
  unprotectedGenerateResizeJobByAction       target cluster, per-index sources, instructions, nodes with no
                                             sources marked complete
  newResizeJob                               the id -> done map
  holderCleaner.CleanHolder                  delete every local fragment whose shard is not in containsShards

Schema = fields x views, data = the set of shards with data (`Index.AvailableShards`: shards known
from other nodes plus the shards of local fragments).  Owner lists come from PV.C20.ownersOf, which
C20 proves total (no panic) under the assumption on the jump-hash step.
-/
import PV.C20.Model
namespace PV.C21
open PV.C20

/-- `frag`. -/
structure Frag where
  field : String
  view : String
  shard : Nat
deriving DecidableEq, Repr

/-- An index as seen by the resize code of one node. -/
structure Index where
  name : List Nat                          -- bytes of the index name (hashed by `partition`)
  schema : List (String × List String)     -- field, its views (some map order)
  remote : List Nat                        -- remoteAvailableShards of the fields (same on every field here)
  locals : List Frag                       -- fragments present in this node's holder
deriving Repr

/-- insert into an ascending duplicate-free list (roaring bitmap of shards) -/
def insertShard (x : Nat) : List Nat → List Nat
  | [] => [x]
  | y :: ys => if x < y then x :: y :: ys else if x = y then y :: ys else y :: insertShard x ys

/-- `Index.AvailableShards()` in `ForEach` order: ascending, duplicate free. -/
def Index.avail (idx : Index) : List Nat :=
  (idx.remote ++ idx.locals.map (·.shard)).foldr insertShard []

/-- every field/view combination for one shard (`for field, views := range fieldViews { for _, view ... }`) -/
def combosFor (schema : List (String × List String)) (shard : Nat) : List Frag :=
  schema.flatMap (fun fv => fv.2.map (fun v => ⟨fv.1, v, shard⟩))

abbrev FragsByHost := List (Id × List Frag)

/-- `t[n.ID] = append(t[n.ID], frag{...})` for every combination. -/
def addFrags (t : FragsByHost) (n : Id) : List Frag → FragsByHost
  | [] => t
  | f :: fs => addFrags (assocAppend t n f) n fs

/-- `cluster.fragCombos` / `fragsByHost`. -/
def fragsByHost (next : Nat → BitVec 64 → Nat) (c : Cluster) (idx : Index) : FragsByHost :=
  idx.avail.foldl (fun t s =>
    (ownersOf next c idx.name s).foldl (fun t n => addFrags t n (combosFor idx.schema s)) t) []

/-- map lookup `m[id]` (nil when absent) -/
def fragsOf (t : FragsByHost) (id : Id) : List Frag :=
  match t.find? (fun e => e.1 = id) with
  | some e => e.2
  | none => []

def hasKey (t : FragsByHost) (id : Id) : Bool := (t.find? (fun e => e.1 = id)).isSome

/-- `fragsDiff(a, b)`: elements of `a` not matched one-for-one by an element of `b`. -/
def fragsDiff : List Frag → List Frag → List Frag
  | [], _ => []
  | x :: a, b => if x ∈ b then fragsDiff a (b.erase x) else x :: fragsDiff a b

inductive Action where
  | add
  | remove
deriving DecidableEq, Repr

inductive DiffErr where
  | sameSize
  | addMany
  | removeMany
deriving DecidableEq, Repr

/-- first node of `a` whose id is not in `b` ("" when there is none) -/
def firstMissing (a b : List Id) : Id :=
  match a.find? (fun n => !containsID b n) with
  | some n => n
  | none => []

/-- `cluster.diff`. -/
def diff (fromNodes toNodes : List Id) : Except DiffErr (Action × Id) :=
  if fromNodes.length = toNodes.length then .error .sameSize
  else if fromNodes.length < toNodes.length then
    if toNodes.length - fromNodes.length > 1 then .error .addMany
    else .ok (.add, firstMissing toNodes fromNodes)
  else
    if fromNodes.length - toNodes.length > 1 then .error .removeMany
    else .ok (.remove, firstMissing fromNodes toNodes)

inductive PlanErr where
  | diff (e : DiffErr)
  | noSource            -- "not enough data to perform resize"
deriving DecidableEq, Repr

/-- `ResizeSource` without the index name. -/
structure Source where
  node : Id
  frag : Frag
deriving DecidableEq, Repr

/-- the source cluster of `fragSources` -/
def srcCluster (c : Cluster) (action : Action) : Cluster :=
  if action = .add ∧ c.replicaN > 1 then { c with replicaN := 1 } else c

/-- the entries of `srcFrags` that are written into `srcNodesByFrag`, in iteration order -/
def srcEntries (perm : FragsByHost → FragsByHost) (srcFrags : FragsByHost) (action : Action) (diffNode : Id) :
    FragsByHost :=
  (perm srcFrags).filter (fun e => !(action = .remove ∧ e.1 = diffNode))

/-- `srcNodesByFrag[frag]` after the loop: the last entry (in iteration order) holding the frag wins. -/
def srcLookup (entries : FragsByHost) (frag : Frag) : Option Id :=
  (entries.reverse.find? (fun e => e.2.contains frag)).map (·.1)

/-- every node some iteration order can leave in `srcNodesByFrag[frag]` -/
def srcCandidates (entries : FragsByHost) (frag : Frag) : List Id :=
  (entries.filter (fun e => e.2.contains frag)).map (·.1)

/-- the sources of one node's diff; `none` when a frag has no source -/
def sourcesFor (entries : FragsByHost) : List Frag → Option (List Source)
  | [] => some []
  | f :: fs =>
    match srcLookup entries f, sourcesFor entries fs with
    | some n, some rest => some (⟨n, f⟩ :: rest)
    | _, _ => none

/-- `diffs[nodeID]` -/
def nodeDiff (fFrags tFrags : FragsByHost) (id : Id) : List Frag :=
  if hasKey fFrags id then fragsDiff (fragsOf tFrags id) (fragsOf fFrags id) else fragsOf tFrags id

/-- all per-node source lists, `none` as soon as one frag has no source -/
def planNodes (entries fFrags tFrags : FragsByHost) : List Id → Option (List (Id × List Source))
  | [] => some []
  | n :: ns =>
    match sourcesFor entries (nodeDiff fFrags tFrags n), planNodes entries fFrags tFrags ns with
    | some s, some rest => some ((n, s) :: rest)
    | _, _ => none

/-- `cluster.fragSources(to, idx)`: one entry per node of `to` (nodes owning nothing get no sources).
`perm` is the iteration order of the Go map `srcFrags`. -/
def fragSources (next : Nat → BitVec 64 → Nat) (perm : FragsByHost → FragsByHost) (c to : Cluster) (idx : Index) :
    Except PlanErr (List (Id × List Source)) :=
  match diff c.nodes to.nodes with
  | .error e => .error (.diff e)
  | .ok (action, diffNode) =>
    let fFrags := fragsByHost next c idx
    let tFrags := fragsByHost next to idx
    let srcFrags := fragsByHost next (srcCluster c action) idx
    let entries := srcEntries perm srcFrags action diffNode
    match planNodes entries fFrags tFrags to.nodes with
    | some p => .ok p
    | none => .error .noSource

/-! ### the same plan with the choice left open

`srcNodesByFrag` is filled while ranging over a Go map, so which of several possible source nodes a
frag gets is not determined.  `fragSourcesChoices` returns, for every frag of every node's diff, the
*set* of nodes the code can name (`srcCandidates`); `C21_choice` relates it to `fragSources perm`
for every iteration order `perm`.  The correspondence check compares these sets with the sets
observed on the real code over repeated runs. -/

def choicesFor (entries : FragsByHost) : List Frag → Option (List (Frag × List Id))
  | [] => some []
  | f :: fs =>
    match srcCandidates entries f, choicesFor entries fs with
    | [], _ => none
    | _, none => none
    | n :: ns, some rest => some ((f, n :: ns) :: rest)

def choiceNodes (entries fFrags tFrags : FragsByHost) : List Id → Option (List (Id × List (Frag × List Id)))
  | [] => some []
  | n :: ns =>
    match choicesFor entries (nodeDiff fFrags tFrags n), choiceNodes entries fFrags tFrags ns with
    | some s, some rest => some ((n, s) :: rest)
    | _, _ => none

def fragSourcesChoices (next : Nat → BitVec 64 → Nat) (c to : Cluster) (idx : Index) :
    Except PlanErr (List (Id × List (Frag × List Id))) :=
  match diff c.nodes to.nodes with
  | .error e => .error (.diff e)
  | .ok (action, diffNode) =>
    let fFrags := fragsByHost next c idx
    let tFrags := fragsByHost next to idx
    let srcFrags := fragsByHost next (srcCluster c action) idx
    let entries := srcEntries (fun t => t) srcFrags action diffNode
    match choiceNodes entries fFrags tFrags to.nodes with
    | some p => .ok p
    | none => .error .noSource

/-! ### job generation -/

/-- the `toCluster` of `unprotectedGenerateResizeJobByAction` -/
def targetCluster (c : Cluster) (action : Action) (id : Id) : Cluster :=
  match action with
  | .remove => { c with nodes := removeNode c.nodes id }
  | .add => { c with nodes := addNode c.nodes id }

/-- `ids[k] = v` on an association list -/
def setID (ids : List (Id × Bool)) (k : Id) (v : Bool) : List (Id × Bool) :=
  match ids with
  | [] => [(k, v)]
  | (k', v') :: rest => if k' = k then (k', v) :: rest else (k', v') :: setID rest k v

/-- `newResizeJob`: the id -> done map. -/
def newJobIDs (existing : List Id) (action : Action) (id : Id) : List (Id × Bool) :=
  match action with
  | .remove => (existing.filter (· ≠ id)).foldl (fun m n => setID m n false) []
  | .add => (existing ++ [id]).foldl (fun m n => setID m n false) []

/-- map lookup in a per-node plan -/
def lookupPlan {σ : Type} (plan : List (Id × List σ)) (id : Id) : List σ :=
  match plan.find? (fun e => e.1 = id) with
  | some e => e.2
  | none => []

/-- a generated job: the id -> done map and, per target node, its sources tagged with the index name -/
structure JobOf (σ : Type) where
  ids : List (Id × Bool)
  instructions : List (Id × List (List Nat × σ))
deriving Repr

/-- `multiIndex[id] = append(multiIndex[id], sources...)` over `c.holder.Indexes()`; the first index
whose plan is refused refuses the job. -/
def mergePlans {σ : Type} (planOf : Index → Except PlanErr (List (Id × List σ))) :
    List Index → List (Id × List (List Nat × σ)) → Except PlanErr (List (Id × List (List Nat × σ)))
  | [], acc => .ok acc
  | idx :: rest, acc =>
    match planOf idx with
    | .error e => .error e
    | .ok plan =>
      mergePlans planOf rest (acc.map (fun e => (e.1, e.2 ++ (lookupPlan plan e.1).map (fun s => (idx.name, s)))))

/-- `unprotectedGenerateResizeJobByAction`, generic in what a per-index plan holds. -/
def generateJobWith {σ : Type} (planOf : Cluster → Index → Except PlanErr (List (Id × List σ))) (c : Cluster)
    (indexes : List Index) (action : Action) (id : Id) : Except PlanErr (JobOf σ) :=
  let to := targetCluster c action id
  match mergePlans (planOf to) indexes (to.nodes.map (fun n => (n, []))) with
  | .error e => .error e
  | .ok multi =>
    .ok { ids := multi.foldl (fun m e => if e.2.isEmpty then setID m e.1 true else m) (newJobIDs c.nodes action id)
          instructions := multi.filter (fun e => !e.2.isEmpty) }

def generateJob (next : Nat → BitVec 64 → Nat) (perm : FragsByHost → FragsByHost) (c : Cluster)
    (indexes : List Index) (action : Action) (id : Id) : Except PlanErr (JobOf Source) :=
  generateJobWith (fun to idx => fragSources next perm c to idx) c indexes action id

def generateJobChoices (next : Nat → BitVec 64 → Nat) (c : Cluster)
    (indexes : List Index) (action : Action) (id : Id) : Except PlanErr (JobOf (Frag × List Id)) :=
  generateJobWith (fun to idx => fragSourcesChoices next c to idx) c indexes action id

/-! ### cleanup -/

/-- `holderCleaner.CleanHolder` for one index: the local fragments that remain. -/
def cleanIndex (next : Nat → BitVec 64 → Nat) (c : Cluster) (self : Id) (idx : Index) : List Frag :=
  let contained := containedShards next c idx.name idx.avail self
  idx.locals.filter (fun f => contained.contains f.shard)

/-! ### a follower learns the final membership (`mergeClusterStatus` + `unprotectedSetState`)

When a resize completes the coordinator broadcasts its ClusterStatus (state NORMAL, the final node
list).  Every other node merges the node list into its own and then applies the state; applying
NORMAL or DEGRADED while RESIZING triggers `holderCleaner.CleanHolder` against the node list the
cluster value holds *at that moment*. -/

inductive CState where
  | starting
  | normal
  | degraded
  | resizing
deriving DecidableEq, Repr

/-- one node of a cluster as far as the status merge is concerned -/
structure Follower where
  cluster : Cluster
  state : CState
  self : Id
  coordinator : Id
  indexes : List Index
deriving Repr

/-- `ClusterStatus`: state, node ids, and which of them carries `IsCoordinator` -/
structure Status where
  state : CState
  nodes : List Id
  coordinator : Id
deriving Repr

/-- the two loops of `mergeClusterStatus` over the node list: add every official node
(`addNode` -> `addNodeBasicSorted`), then remove every node that is neither official nor this node. -/
def mergeNodes (nodes : List Id) (self : Id) (official : List Id) : List Id :=
  let added := official.foldl addNode nodes
  let toRemove := added.filter (fun n => !(n = self) && !containsID official n)
  toRemove.foldl removeNode added

/-- `unprotectedSetState`: unchanged state is ignored; RESIZING -> NORMAL/DEGRADED runs CleanHolder
with the current node list. -/
def setState (next : Nat → BitVec 64 → Nat) (f : Follower) (st : CState) : Follower :=
  if st = f.state then f
  else
    let doCleanup := (st = .normal ∨ st = .degraded) ∧ f.state = .resizing
    { f with state := st
             indexes := if doCleanup then f.indexes.map (fun ix => { ix with locals := cleanIndex next f.cluster f.self ix })
                        else f.indexes }

/-- `cluster.mergeClusterStatus`: ignored on the coordinator; otherwise the node list is merged
first and the state is applied afterwards. -/
def mergeClusterStatus (next : Nat → BitVec 64 → Nat) (f : Follower) (cs : Status) : Follower :=
  if f.coordinator = f.self then f
  else
    let coord := if containsID cs.nodes cs.coordinator then cs.coordinator else f.coordinator
    let f' := { f with cluster := { f.cluster with nodes := mergeNodes f.cluster.nodes f.self cs.nodes }
                       coordinator := coord }
    setState next f' cs.state

end PV.C21
