/-
C21: the vocabulary of the property statements (core Lean only).
-/
import PV.C20.Lemmas
import PV.C21.Model
import PV.C21.Lemmas
namespace PV.C21
open List PV.C20

/-- A single-node membership change the resize code is asked to plan: the node list is the sorted,
duplicate-free list addNodeBasicSorted maintains; an added id is new, a removed id is a member. -/
def ValidChange (c : Cluster) (a : Action) (id : Id) : Prop :=
  Sorted c.nodes ∧ (a = .add → id ∉ c.nodes) ∧ (a = .remove → id ∈ c.nodes)

/-- The fragment triple `f` is newly owned by node `n`: `n` owns its shard under the target
membership `to` but not under `c`, the shard has data and (field, view) is in the schema. -/
def NewlyOwned (next : Nat → BitVec 64 → Nat) (c to : Cluster) (idx : Index) (n : Id) (f : Frag) : Prop :=
  f.shard ∈ idx.avail ∧ f ∈ combosFor idx.schema f.shard ∧
    n ∈ ownersOf next to idx.name f.shard ∧ n ∉ ownersOf next c idx.name f.shard

/-- A node that may serve as source: it owned the shard before and is not the node being removed. -/
def SurvivingOwner (next : Nat → BitVec 64 → Nat) (c : Cluster) (idx : Index) (a : Action) (id : Id)
    (shard : Nat) (src : Id) : Prop :=
  src ∈ ownersOf next c idx.name shard ∧ ¬ (a = .remove ∧ src = id)

/-- all sources of node `n` over the indexes of the holder, tagged with the index name -/
def jobSources {σ : Type} (planOf : Index → Except PlanErr (List (Id × List σ))) (indexes : List Index) (n : Id) :
    List (List Nat × σ) :=
  indexes.flatMap (fun ix => (lookupPlan (okPlan (planOf ix)) n).map (fun s => (ix.name, s)))

end PV.C21
