/-
C21 property theorems (core Lean only).

Property: for any cluster, replica count, schema and shards with data, adding or removing one node
produces a plan that names a source for every field view and shard each resulting node newly owns;
the source is a node that owned that shard before and is not the one being removed; the plan is
refused only when no such node exists; after a completed resize, cleanup removes from each node
only shards it no longer owns.

The theorems hold for every node list built by addNodeBasicSorted (`Sorted`), every replica count,
every schema and shard set, every single add / remove (`ValidChange`), every iteration order `perm`
of the Go map `srcFrags` (`hperm`), with the float step of the jump hash as a parameter (`hnext`).
-/
import PV.C20.Lemmas
import PV.C21.Model
import PV.C21.Spec
import PV.C21.Lemmas
import PV.C21.Defs
import PV.C21.Lemmas2
import PV.C20.Props
namespace PV.C21
open List PV.C20

/-- **Every newly owned fragment gets a source, and the source is a surviving previous owner.** -/
theorem C21_sources {next : Nat → BitVec 64 → Nat} (hnext : ∀ b k, b < next b k)
    {perm : FragsByHost → FragsByHost} (hperm : ∀ l, (perm l).Perm l)
    {c : Cluster} {idx : Index} {a : Action} {id : Id} (hv : ValidChange c a id)
    {plan : List (Id × List Source)}
    (h : fragSources next perm c (targetCluster c a id) idx = .ok plan)
    {n : Id} (hn : n ∈ (targetCluster c a id).nodes) {f : Frag}
    (hnew : NewlyOwned next c (targetCluster c a id) idx n f) :
    ∃ src, (⟨src, f⟩ : Source) ∈ lookupPlan plan n ∧ SurvivingOwner next c idx a id f.shard src := by
  simp only [fragSources, diff_target hv] at h
  cases hp : planNodes (srcEntries perm (fragsByHost next (srcCluster c a) idx) a id)
      (fragsByHost next c idx) (fragsByHost next (targetCluster c a id) idx) (targetCluster c a id).nodes with
  | none => simp [hp] at h
  | some p =>
    simp only [hp, Except.ok.injEq] at h
    subst h
    obtain ⟨hs, hf, hafter, hbefore⟩ := hnew
    have hsf := (planNodes_some hp).1 n hn
    have hdiff : f ∈ nodeDiff (fragsByHost next c idx) (fragsByHost next (targetCluster c a id) idx) n := by
      rw [nodeDiff_eq]
      exact mem_fragsDiff_of_not_mem (mem_fragsOf_fragsByHost.mpr ⟨hs, hafter, hf⟩)
        (fun hx => hbefore (mem_fragsOf_fragsByHost.mp hx).2.1)
    obtain ⟨src, hl, hin⟩ := (sourcesFor_some hsf).1 f hdiff
    exact ⟨src, hin, src_valid hnext hperm hl⟩

/-- **Every source the plan names is a surviving previous owner**, and it is listed for a node of
the target membership that owns the shard after the change. -/
theorem C21_sources_valid {next : Nat → BitVec 64 → Nat} (hnext : ∀ b k, b < next b k)
    {perm : FragsByHost → FragsByHost} (hperm : ∀ l, (perm l).Perm l)
    {c : Cluster} {idx : Index} {a : Action} {id : Id} (hv : ValidChange c a id)
    {plan : List (Id × List Source)}
    (h : fragSources next perm c (targetCluster c a id) idx = .ok plan)
    {n : Id} {s : Source} (hs : s ∈ lookupPlan plan n) :
    n ∈ (targetCluster c a id).nodes ∧ SurvivingOwner next c idx a id s.frag.shard s.node ∧
      s.frag.shard ∈ idx.avail ∧ s.frag ∈ combosFor idx.schema s.frag.shard ∧
      n ∈ ownersOf next (targetCluster c a id) idx.name s.frag.shard := by
  simp only [fragSources, diff_target hv] at h
  cases hp : planNodes (srcEntries perm (fragsByHost next (srcCluster c a) idx) a id)
      (fragsByHost next c idx) (fragsByHost next (targetCluster c a id) idx) (targetCluster c a id).nodes with
  | none => simp [hp] at h
  | some p =>
    simp only [hp, Except.ok.injEq] at h
    subst h
    have hn : n ∈ (targetCluster c a id).nodes := by
      cases hd : decide (n ∈ (targetCluster c a id).nodes) with
      | true => exact of_decide_eq_true hd
      | false =>
        have := (planNodes_some hp).2 n (of_decide_eq_false hd)
        rw [this] at hs; cases hs
    have hsf := (planNodes_some hp).1 n hn
    obtain ⟨hin, hl⟩ := (sourcesFor_some hsf).2 s hs
    rw [nodeDiff_eq] at hin
    have := mem_fragsOf_fragsByHost.mp (mem_of_mem_fragsDiff hin)
    exact ⟨hn, src_valid hnext hperm hl, this.1, this.2.2, this.2.1⟩

/-- **The plan is refused exactly when some fragment a node must fetch has no surviving previous
owner** (and for no other reason; the answer does not depend on the map iteration order). -/
theorem C21_refusal {next : Nat → BitVec 64 → Nat} (hnext : ∀ b k, b < next b k)
    {perm : FragsByHost → FragsByHost} (hperm : ∀ l, (perm l).Perm l)
    {c : Cluster} {idx : Index} {a : Action} {id : Id} (hv : ValidChange c a id) :
    fragSources next perm c (targetCluster c a id) idx = .error .noSource ↔
      ∃ n ∈ (targetCluster c a id).nodes,
        ∃ f ∈ nodeDiff (fragsByHost next c idx) (fragsByHost next (targetCluster c a id) idx) n,
          ∀ src, ¬ SurvivingOwner next c idx a id f.shard src := by
  simp only [fragSources, diff_target hv]
  cases hp : planNodes (srcEntries perm (fragsByHost next (srcCluster c a) idx) a id)
      (fragsByHost next c idx) (fragsByHost next (targetCluster c a id) idx) (targetCluster c a id).nodes with
  | some p =>
    simp only [reduceCtorEq, false_iff]
    rintro ⟨n, hn, f, hf, hno⟩
    have hsf := (planNodes_some hp).1 n hn
    obtain ⟨src, hl, _⟩ := (sourcesFor_some hsf).1 f hf
    exact hno src (src_valid hnext hperm hl)
  | none =>
    simp only [true_iff]
    obtain ⟨n, hn, hnone⟩ := planNodes_none.mp hp
    obtain ⟨f, hf, hl⟩ := sourcesFor_none.mp hnone
    refine ⟨n, hn, f, hf, ?_⟩
    have hf' := hf
    rw [nodeDiff_eq] at hf'
    have hm := mem_fragsOf_fragsByHost.mp (mem_of_mem_fragsDiff hf')
    exact (no_entry_iff hnext hperm hm.1 hm.2.2).mp hl

/-- In particular: a newly owned fragment without a surviving previous owner forces the refusal. -/
theorem C21_refused_when_no_owner {next : Nat → BitVec 64 → Nat} (hnext : ∀ b k, b < next b k)
    {perm : FragsByHost → FragsByHost} (hperm : ∀ l, (perm l).Perm l)
    {c : Cluster} {idx : Index} {a : Action} {id : Id} (hv : ValidChange c a id)
    {n : Id} (hn : n ∈ (targetCluster c a id).nodes) {f : Frag}
    (hnew : NewlyOwned next c (targetCluster c a id) idx n f)
    (hno : ∀ src, ¬ SurvivingOwner next c idx a id f.shard src) :
    fragSources next perm c (targetCluster c a id) idx = .error .noSource := by
  refine (C21_refusal hnext hperm hv).mpr ⟨n, hn, f, ?_, hno⟩
  obtain ⟨hs, hf, hafter, hbefore⟩ := hnew
  rw [nodeDiff_eq]
  exact mem_fragsDiff_of_not_mem (mem_fragsOf_fragsByHost.mpr ⟨hs, hafter, hf⟩)
    (fun hx => hbefore (mem_fragsOf_fragsByHost.mp hx).2.1)

/-! ### the plan lists nothing else -/

/-- **The plan fetches only newly owned fragments.** -/
theorem C21_plan_minimal {next : Nat → BitVec 64 → Nat} (hnext : ∀ b k, b < next b k)
    {perm : FragsByHost → FragsByHost} (_hperm : ∀ l, (perm l).Perm l)
    {c : Cluster} {idx : Index} (hsch : SchemaOK idx.schema) {a : Action} {id : Id} (hv : ValidChange c a id)
    {plan : List (Id × List Source)}
    (h : fragSources next perm c (targetCluster c a id) idx = .ok plan)
    {n : Id} {s : Source} (hs : s ∈ lookupPlan plan n) :
    NewlyOwned next c (targetCluster c a id) idx n s.frag := by
  simp only [fragSources, diff_target hv] at h
  cases hp : planNodes (srcEntries perm (fragsByHost next (srcCluster c a) idx) a id)
      (fragsByHost next c idx) (fragsByHost next (targetCluster c a id) idx) (targetCluster c a id).nodes with
  | none => simp [hp] at h
  | some p =>
    simp only [hp, Except.ok.injEq] at h
    subst h
    have hn : n ∈ (targetCluster c a id).nodes := by
      cases hd : decide (n ∈ (targetCluster c a id).nodes) with
      | true => exact of_decide_eq_true hd
      | false =>
        have := (planNodes_some hp).2 n (of_decide_eq_false hd)
        rw [this] at hs; cases hs
    have hsf := (planNodes_some hp).1 n hn
    exact (nodeDiff_iff hnext (target_sorted hv).nodup hsch).mp ((sourcesFor_some hsf).2 s hs).1

/-- **Refusal, in the property's own words**: the plan is refused exactly when some node of the
target membership newly owns a fragment whose shard no surviving node owned before. -/
theorem C21_refusal_newly_owned {next : Nat → BitVec 64 → Nat} (hnext : ∀ b k, b < next b k)
    {perm : FragsByHost → FragsByHost} (hperm : ∀ l, (perm l).Perm l)
    {c : Cluster} {idx : Index} (hsch : SchemaOK idx.schema) {a : Action} {id : Id} (hv : ValidChange c a id) :
    fragSources next perm c (targetCluster c a id) idx = .error .noSource ↔
      ∃ n ∈ (targetCluster c a id).nodes, ∃ f, NewlyOwned next c (targetCluster c a id) idx n f ∧
        ∀ src, ¬ SurvivingOwner next c idx a id f.shard src := by
  rw [C21_refusal hnext hperm hv]
  constructor
  · rintro ⟨n, hn, f, hf, hno⟩
    exact ⟨n, hn, f, (nodeDiff_iff hnext (target_sorted hv).nodup hsch).mp hf, hno⟩
  · rintro ⟨n, hn, f, hf, hno⟩
    exact ⟨n, hn, f, (nodeDiff_iff hnext (target_sorted hv).nodup hsch).mpr hf, hno⟩

/-! ### cleanup -/

/-- **CleanHolder keeps exactly the local fragments whose shard the node owns** under the cluster
value it is run with (the final membership): a fragment is deleted iff its shard is no longer owned. -/
theorem C21_cleanup {next : Nat → BitVec 64 → Nat} (hnext : ∀ b k, b < next b k) (c : Cluster)
    (hnd : c.nodes.Nodup) (self : Id) (idx : Index) :
    cleanIndex next c self idx =
      idx.locals.filter (fun f => decide (self ∈ ownersOf next c idx.name f.shard)) := by
  unfold cleanIndex containedShards
  rw [containsShards_eq hnext c hnd idx.name self idx.avail]
  apply List.filter_congr
  intro f hf
  have hav : f.shard ∈ idx.avail := mem_avail.mpr (Or.inr ⟨f, hf, rfl⟩)
  simp [hav]

/-! ### the plan the correspondence check compares -/

/-- **The open-choice plan the driver prints and the plan for any one iteration order agree**: same
refusals, same frags per node, and every source named lies in the printed candidate set. -/
theorem C21_choice {next : Nat → BitVec 64 → Nat} {perm : FragsByHost → FragsByHost}
    (hperm : ∀ l, (perm l).Perm l) (c to : Cluster) (idx : Index) :
    (∀ e, fragSources next perm c to idx = .error e ↔ fragSourcesChoices next c to idx = .error e) ∧
    (∀ plan ch, fragSources next perm c to idx = .ok plan → fragSourcesChoices next c to idx = .ok ch →
      ∀ n, (lookupPlan plan n).map (·.frag) = (lookupPlan ch n).map (·.1) ∧
        ∀ s ∈ lookupPlan plan n, ∃ cands, (s.frag, cands) ∈ lookupPlan ch n ∧ s.node ∈ cands) := by
  unfold fragSources fragSourcesChoices
  cases hd : diff c.nodes to.nodes with
  | error e0 => simp
  | ok ad =>
    obtain ⟨a, d⟩ := ad
    simp only
    -- refusal agrees
    have hnone : planNodes (srcEntries perm (fragsByHost next (srcCluster c a) idx) a d)
          (fragsByHost next c idx) (fragsByHost next to idx) to.nodes = none ↔
        choiceNodes (srcEntries (fun t => t) (fragsByHost next (srcCluster c a) idx) a d)
          (fragsByHost next c idx) (fragsByHost next to idx) to.nodes = none := by
      rw [planNodes_none, choiceNodes_none]
      constructor
      · rintro ⟨n, hn, h⟩
        obtain ⟨f, hf, hl⟩ := sourcesFor_none.mp h
        exact ⟨n, hn, choicesFor_none.mpr ⟨f, hf, (lookup_none_iff_cands_nil hperm).mp hl⟩⟩
      · rintro ⟨n, hn, h⟩
        obtain ⟨f, hf, hl⟩ := choicesFor_none.mp h
        exact ⟨n, hn, sourcesFor_none.mpr ⟨f, hf, (lookup_none_iff_cands_nil hperm).mpr hl⟩⟩
    cases hp : planNodes (srcEntries perm (fragsByHost next (srcCluster c a) idx) a d)
          (fragsByHost next c idx) (fragsByHost next to idx) to.nodes with
    | none =>
      have := hnone.mp hp
      simp [this]
    | some p =>
      cases hc : choiceNodes (srcEntries (fun t => t) (fragsByHost next (srcCluster c a) idx) a d)
          (fragsByHost next c idx) (fragsByHost next to idx) to.nodes with
      | none => rw [hnone.mpr hc] at hp; cases hp
      | some q =>
        refine ⟨by simp, ?_⟩
        intro plan ch h1 h2 n
        simp only [Except.ok.injEq] at h1 h2
        subst h1; subst h2
        by_cases hn : n ∈ to.nodes
        · have hs := (planNodes_some hp).1 n hn
          have hq := (choiceNodes_some hc).1 n hn
          obtain ⟨hq1, hq2⟩ := choicesFor_some hq
          refine ⟨by rw [sourcesFor_frags hs, hq1], ?_⟩
          intro s hsin
          obtain ⟨hfin, hl⟩ := (sourcesFor_some hs).2 s hsin
          rw [← hq1] at hfin
          obtain ⟨fc, hfc, hfe⟩ := mem_map.mp hfin
          refine ⟨fc.2, by rw [← hfe]; exact hfc, ?_⟩
          rw [(hq2 fc hfc).1, hfe]
          obtain ⟨fs, he, hf⟩ := srcLookup_some hl
          exact (mem_srcCandidates_perm hperm).mp (mem_srcCandidates.mpr ⟨fs, he, hf⟩)
        · rw [(planNodes_some hp).2 n hn, (choiceNodes_some hc).2 n hn]
          simp

/-! ### the generated job -/

/-- **The generated job carries exactly the per-index plans**: it exists iff no index refuses; a node
of the target membership with nothing to fetch is marked complete and gets no instruction; every
other node gets one instruction holding all its sources and stays pending. -/
theorem C21_job {next : Nat → BitVec 64 → Nat} {perm : FragsByHost → FragsByHost}
    {c : Cluster} {indexes : List Index} {a : Action} {id : Id} (hv : ValidChange c a id)
    {j : JobOf Source} (h : generateJob next perm c indexes a id = .ok j) :
    (∀ ix ∈ indexes, ∃ p, fragSources next perm c (targetCluster c a id) ix = .ok p) ∧
    ∀ n ∈ (targetCluster c a id).nodes,
      let srcs := jobSources (fun ix => fragSources next perm c (targetCluster c a id) ix) indexes n
      getID j.ids n = some srcs.isEmpty ∧
      (∀ l, (n, l) ∈ j.instructions ↔ (l = srcs ∧ srcs ≠ [])) := by
  unfold generateJob generateJobWith at h
  simp only at h
  cases hm : mergePlans (fun ix => fragSources next perm c (targetCluster c a id) ix) indexes
      ((targetCluster c a id).nodes.map (fun n => (n, []))) with
  | error e => simp [hm] at h
  | ok multi =>
    simp only [hm, Except.ok.injEq] at h
    subst h
    obtain ⟨hall, hmulti⟩ := mergePlans_ok _ _ _ _ hm
    refine ⟨hall, ?_⟩
    intro n hn
    have hmulti' : multi = (targetCluster c a id).nodes.map (fun k =>
        (k, jobSources (fun ix => fragSources next perm c (targetCluster c a id) ix) indexes k)) := by
      rw [hmulti]
      simp [List.map_map, Function.comp_def, jobSources]
    have hnd : (multi.map (·.1)).Nodup := by
      rw [hmulti']
      simp only [List.map_map, Function.comp_def, List.map_id']
      exact (target_sorted hv).nodup
    have hfind : multi.find? (fun e => e.1 = n) =
        some (n, jobSources (fun ix => fragSources next perm c (targetCluster c a id) ix) indexes n) := by
      rw [hmulti', find?_map_key]
      simp [hn]
    constructor
    · simp only
      rw [getID_mark n multi _ hnd, hfind]
      simp only
      rw [getID_newJobIDs hv.1 hv.2.1, if_pos hn]
      cases hsrc : jobSources (fun ix => fragSources next perm c (targetCluster c a id) ix) indexes n <;> simp
    · intro l
      simp only [mem_filter]
      constructor
      · rintro ⟨hin, hne⟩
        rw [hmulti'] at hin
        obtain ⟨k, _, hk⟩ := mem_map.mp hin
        have hk1 : k = n := (Prod.mk.injEq .. ▸ hk).1
        subst hk1
        have hk2 := (Prod.mk.injEq .. ▸ hk).2
        subst hk2
        refine ⟨rfl, ?_⟩
        intro he
        simp [he] at hne
      · rintro ⟨rfl, hne⟩
        refine ⟨?_, ?_⟩
        · rw [hmulti']
          exact mem_map.mpr ⟨n, hn, rfl⟩
        · cases hsrc : jobSources (fun ix => fragSources next perm c (targetCluster c a id) ix) indexes n with
          | nil => exact absurd hsrc hne
          | cons x xs => simp

/-- the job is refused exactly when the plan of some index is refused -/
theorem C21_job_refused {next : Nat → BitVec 64 → Nat} {perm : FragsByHost → FragsByHost}
    {c : Cluster} {indexes : List Index} {a : Action} {id : Id} :
    (∃ e, generateJob next perm c indexes a id = .error e) ↔
      ∃ ix ∈ indexes, ∃ e, fragSources next perm c (targetCluster c a id) ix = .error e := by
  unfold generateJob generateJobWith
  simp only
  cases hm : mergePlans (fun ix => fragSources next perm c (targetCluster c a id) ix) indexes
      ((targetCluster c a id).nodes.map (fun n => (n, []))) with
  | error e =>
    obtain ⟨ix, hix, he⟩ := mergePlans_error _ _ _ _ hm
    simp only [Except.error.injEq, exists_eq', true_iff]
    exact ⟨ix, hix, e, he⟩
  | ok multi =>
    simp only [reduceCtorEq, exists_false, false_iff]
    rintro ⟨ix, hix, e, he⟩
    obtain ⟨p, hp⟩ := (mergePlans_ok _ _ _ _ hm).1 ix hix
    rw [he] at hp; cases hp

/-! ### non-vacuity: concrete states satisfying the hypotheses (jump-hash step `b ↦ b+1`) -/

def exIdx : Index :=
  { name := [105], schema := [("f", ["standard"])], remote := [0, 1], locals := [⟨"f", "standard", 1⟩] }
def exC : Cluster := { nodes := [[1], [2]], replicaN := 1 }
def exC3 : Cluster := { nodes := [[1], [2], [3]], replicaN := 2 }

example : ValidChange exC .add [3] := ⟨by unfold Sorted; decide, by decide, by decide⟩
example : ValidChange exC3 .remove [3] := ⟨by unfold Sorted; decide, by decide, by decide⟩
example : SchemaOK exIdx.schema := ⟨by decide, by decide⟩

/-- adding node 3 to {1,2}: node 3 newly owns both shards and fetches them from their old owner 2 -/
example : fragSources nextSucc (fun t => t) exC (targetCluster exC .add [3]) exIdx =
    .ok [([1], []), ([2], []), ([3], [⟨[2], ⟨"f", "standard", 0⟩⟩, ⟨[2], ⟨"f", "standard", 1⟩⟩])] := by rfl
example : NewlyOwned nextSucc exC (targetCluster exC .add [3]) exIdx [3] ⟨"f", "standard", 0⟩ := by
  unfold NewlyOwned; decide
/-- removing node 2 from {1,2} with one replica: node 1 newly owns the shards, nobody survives: refused -/
example : fragSources nextSucc (fun t => t) exC (targetCluster exC .remove [2]) exIdx = .error .noSource := by rfl
/-- removing node 3 from {1,2,3} with two replicas: node 2 takes over from the surviving owner 1 -/
example : fragSources nextSucc List.reverse exC3 (targetCluster exC3 .remove [3]) exIdx =
    .ok [([1], []), ([2], [⟨[1], ⟨"f", "standard", 0⟩⟩, ⟨[1], ⟨"f", "standard", 1⟩⟩])] := by rfl
example : fragSourcesChoices nextSucc exC3 (targetCluster exC3 .remove [3]) exIdx =
    .ok [([1], []), ([2], [(⟨"f", "standard", 0⟩, [[1]]), (⟨"f", "standard", 1⟩, [[1]])])] := by rfl
/-- cleanup: node 2 owns shard 1 and keeps its fragment, node 1 does not and loses it -/
example : cleanIndex nextSucc exC [2] exIdx = [⟨"f", "standard", 1⟩] := by rfl
example : cleanIndex nextSucc exC [1] exIdx = [] := by rfl
example : (generateJob nextSucc (fun t => t) exC [exIdx] .add [3]).toOption.map (·.ids) =
    some [([1], true), ([2], true), ([3], false)] := by rfl

/-! ### a follower applies the final ClusterStatus of a completed resize -/

/-- **Cleanup never runs against a stale membership.**  A node that is not the coordinator, is in
state RESIZING and receives the coordinator's final ClusterStatus (NORMAL or DEGRADED, the final node
list) ends with (1) exactly the final ring as its node list, (2) the new state, and (3) exactly
those local fragments whose shard it owns under the FINAL membership -- for an added or a removed
node alike, for every follower that is part of the final membership (or was not listed before). -/
theorem C21_follower_cleanup {next : Nat → BitVec 64 → Nat} (hnext : ∀ b k, b < next b k)
    (f : Follower) (cs : Status) (hs : Sorted f.cluster.nodes) (hfollower : f.coordinator ≠ f.self)
    (hres : f.state = .resizing) (hfinal : cs.state = .normal ∨ cs.state = .degraded)
    (hself : f.self ∈ cs.nodes ∨ f.self ∉ f.cluster.nodes) :
    let final : Cluster := { f.cluster with nodes := run (cs.nodes.map Ev.join) }
    (mergeClusterStatus next f cs).cluster = final ∧
    (mergeClusterStatus next f cs).state = cs.state ∧
    (mergeClusterStatus next f cs).indexes = f.indexes.map (fun ix =>
      { ix with locals := ix.locals.filter (fun fr => decide (f.self ∈ ownersOf next final ix.name fr.shard)) }) := by
  have hne : ¬ cs.state = CState.resizing := by
    rcases hfinal with h | h <;> rw [h] <;> decide
  simp only [mergeClusterStatus, hfollower, if_false, setState, hres, hne, hfinal, and_self, if_true,
    mergeNodes_eq_final hs hself, true_and]
  apply List.map_congr_left
  intro ix _
  rw [C21_cleanup hnext _ (run_sorted _).nodup]

/-- In every other situation the status merge leaves the fragments alone: cleanup is triggered
only by the RESIZING -> NORMAL/DEGRADED transition, and never on the coordinator by this path. -/
theorem C21_follower_no_cleanup {next : Nat → BitVec 64 → Nat} (f : Follower) (cs : Status)
    (h : f.coordinator = f.self ∨ f.state ≠ .resizing ∨ cs.state = .resizing ∨ cs.state = .starting) :
    (mergeClusterStatus next f cs).indexes = f.indexes := by
  unfold mergeClusterStatus
  split
  · rfl
  · rename_i hc
    simp only [setState]
    split
    · rfl
    · simp only
      have : ¬ ((cs.state = .normal ∨ cs.state = .degraded) ∧ f.state = .resizing) := by
        rintro ⟨h1, h2⟩
        rcases h with h | h | h | h
        · exact hc h
        · exact h h2
        · rw [h] at h1; rcases h1 with h1 | h1 <;> cases h1
        · rw [h] at h1; rcases h1 with h1 | h1 <;> cases h1
      simp [this]

/-- a follower of {1,2,3} (replicas 2) learns that node 3 is gone: it keeps what it owns among {1,2} -/
example : (mergeClusterStatus nextSucc
    { cluster := exC3, state := .resizing, self := [1], coordinator := [2],
      indexes := [{ exIdx with locals := [⟨"f", "standard", 0⟩, ⟨"f", "standard", 1⟩] }] }
    { state := .normal, nodes := [[1], [2]], coordinator := [2] }).indexes.map (·.locals)
    = [[⟨"f", "standard", 0⟩, ⟨"f", "standard", 1⟩]] := by rfl
example : (mergeClusterStatus nextSucc
    { cluster := { nodes := [[1], [2], [3]], replicaN := 1 }, state := .resizing, self := [1], coordinator := [2],
      indexes := [{ exIdx with locals := [⟨"f", "standard", 0⟩, ⟨"f", "standard", 1⟩] }] }
    { state := .normal, nodes := [[1], [2]], coordinator := [2] }).indexes.map (·.locals) = [[]] := by rfl

end PV.C21
