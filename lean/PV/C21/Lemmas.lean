/-
Helper lemmas for C21 (core Lean only).
-/
import PV.C20.Lemmas
import PV.C21.Model
namespace PV.C21
open List PV.C20

/-! ### combosFor -/

theorem mem_combosFor {schema : List (String × List String)} {s : Nat} {f : Frag} :
    f ∈ combosFor schema s ↔ f.shard = s ∧ ∃ views, (f.field, views) ∈ schema ∧ f.view ∈ views := by
  simp only [combosFor, mem_flatMap, mem_map]
  constructor
  · rintro ⟨⟨fld, vs⟩, hfv, v, hv, rfl⟩
    exact ⟨rfl, vs, hfv, hv⟩
  · rintro ⟨rfl, vs, hfv, hv⟩
    exact ⟨(f.field, vs), hfv, f.view, hv, rfl⟩

/-! ### fragsOf through the loops of fragCombos -/

theorem fragsOf_assocAppend : ∀ (t : FragsByHost) (k : Id) (v : Frag) (n : Id),
    fragsOf (assocAppend t k v) n = if k = n then fragsOf t n ++ [v] else fragsOf t n
  | [], k, v, n => by
    by_cases h : k = n <;> simp [assocAppend, fragsOf, h]
  | (k', vs) :: rest, k, v, n => by
    simp only [assocAppend]
    by_cases hk : k' = k
    · subst hk
      simp only [if_true]
      by_cases hn : k' = n
      · simp [fragsOf, hn]
      · simp [fragsOf, hn]
    · simp only [hk, if_false]
      by_cases hn : k' = n
      · subst hn
        have : ¬ k = k' := fun e => hk e.symm
        simp [fragsOf, this]
      · have ih := fragsOf_assocAppend rest k v n
        simp only [fragsOf, find?_cons, hn, decide_false] at ih ⊢
        exact ih

theorem fragsOf_addFrags : ∀ (fs : List Frag) (t : FragsByHost) (k n : Id),
    fragsOf (addFrags t k fs) n = if k = n then fragsOf t n ++ fs else fragsOf t n
  | [], t, k, n => by simp [addFrags]
  | f :: fs, t, k, n => by
    simp only [addFrags, fragsOf_addFrags fs, fragsOf_assocAppend]
    by_cases h : k = n <;> simp [h]

theorem fragsOf_owners (combos : List Frag) (n : Id) : ∀ (owners : List Id) (t : FragsByHost),
    fragsOf (owners.foldl (fun t k => addFrags t k combos) t) n =
      fragsOf t n ++ owners.flatMap (fun k => if k = n then combos else [])
  | [], t => by simp
  | k :: ks, t => by
    simp only [foldl_cons, fragsOf_owners combos n ks, fragsOf_addFrags, flatMap_cons]
    by_cases h : k = n <;> simp [h]

theorem fragsOf_shards (next : Nat → BitVec 64 → Nat) (c : Cluster) (name : List Nat)
    (schema : List (String × List String)) (n : Id) : ∀ (shards : List Nat) (t : FragsByHost),
    fragsOf (shards.foldl (fun t s =>
        (ownersOf next c name s).foldl (fun t k => addFrags t k (combosFor schema s)) t) t) n =
      fragsOf t n ++ shards.flatMap (fun s =>
        (ownersOf next c name s).flatMap (fun k => if k = n then combosFor schema s else []))
  | [], t => by simp
  | s :: ss, t => by
    simp only [foldl_cons, fragsOf_shards next c name schema n ss, fragsOf_owners, flatMap_cons, append_assoc]

/-- The frags listed for node `n` by `fragsByHost`, in order. -/
theorem fragsOf_fragsByHost (next : Nat → BitVec 64 → Nat) (c : Cluster) (idx : Index) (n : Id) :
    fragsOf (fragsByHost next c idx) n = idx.avail.flatMap (fun s =>
      (ownersOf next c idx.name s).flatMap (fun k => if k = n then combosFor idx.schema s else [])) := by
  unfold fragsByHost
  rw [fragsOf_shards]
  simp [fragsOf]

theorem mem_fragsOf_fragsByHost {next : Nat → BitVec 64 → Nat} {c : Cluster} {idx : Index} {n : Id} {f : Frag} :
    f ∈ fragsOf (fragsByHost next c idx) n ↔
      f.shard ∈ idx.avail ∧ n ∈ ownersOf next c idx.name f.shard ∧ f ∈ combosFor idx.schema f.shard := by
  rw [fragsOf_fragsByHost]
  simp only [mem_flatMap]
  constructor
  · rintro ⟨s, hs, k, hk, hf⟩
    by_cases e : k = n
    · subst e
      simp only [if_true] at hf
      have := (mem_combosFor.mp hf).1
      subst this
      exact ⟨hs, hk, hf⟩
    · simp [e] at hf
  · rintro ⟨hs, hn, hf⟩
    exact ⟨f.shard, hs, n, hn, by simpa using hf⟩

/-! ### pairsOf through the same loops (used for the inverse map srcNodesByFrag) -/

theorem mem_pairsOf_addFrags : ∀ (fs : List Frag) (t : FragsByHost) (k n : Id) (f : Frag),
    (n, f) ∈ pairsOf (addFrags t k fs) ↔ (n, f) ∈ pairsOf t ∨ (n = k ∧ f ∈ fs)
  | [], t, k, n, f => by simp [addFrags]
  | g :: gs, t, k, n, f => by
    simp only [addFrags, mem_pairsOf_addFrags gs, mem_pairsOf_assocAppend, mem_cons]
    constructor
    · rintro ((h | ⟨h1, h2⟩) | ⟨h1, h2⟩)
      · exact Or.inl h
      · exact Or.inr ⟨h1, Or.inl h2⟩
      · exact Or.inr ⟨h1, Or.inr h2⟩
    · rintro (h | ⟨h1, h2 | h2⟩)
      · exact Or.inl (Or.inl h)
      · exact Or.inl (Or.inr ⟨h1, h2⟩)
      · exact Or.inr ⟨h1, h2⟩

theorem mem_pairsOf_owners (combos : List Frag) (n : Id) (f : Frag) : ∀ (owners : List Id) (t : FragsByHost),
    (n, f) ∈ pairsOf (owners.foldl (fun t k => addFrags t k combos) t) ↔
      (n, f) ∈ pairsOf t ∨ (n ∈ owners ∧ f ∈ combos)
  | [], t => by simp
  | k :: ks, t => by
    simp only [foldl_cons, mem_pairsOf_owners combos n f ks, mem_pairsOf_addFrags, mem_cons]
    constructor
    · rintro ((h | ⟨h1, h2⟩) | ⟨h1, h2⟩)
      · exact Or.inl h
      · exact Or.inr ⟨Or.inl h1, h2⟩
      · exact Or.inr ⟨Or.inr h1, h2⟩
    · rintro (h | ⟨h1 | h1, h2⟩)
      · exact Or.inl (Or.inl h)
      · exact Or.inl (Or.inr ⟨h1, h2⟩)
      · exact Or.inr ⟨h1, h2⟩

theorem mem_pairsOf_shards (next : Nat → BitVec 64 → Nat) (c : Cluster) (name : List Nat)
    (schema : List (String × List String)) (n : Id) (f : Frag) : ∀ (shards : List Nat) (t : FragsByHost),
    (n, f) ∈ pairsOf (shards.foldl (fun t s =>
        (ownersOf next c name s).foldl (fun t k => addFrags t k (combosFor schema s)) t) t) ↔
      (n, f) ∈ pairsOf t ∨ ∃ s ∈ shards, n ∈ ownersOf next c name s ∧ f ∈ combosFor schema s
  | [], t => by simp
  | s :: ss, t => by
    simp only [foldl_cons, mem_pairsOf_shards next c name schema n f ss, mem_pairsOf_owners, mem_cons]
    constructor
    · rintro ((h | h) | ⟨s', hs', h⟩)
      · exact Or.inl h
      · exact Or.inr ⟨s, Or.inl rfl, h⟩
      · exact Or.inr ⟨s', Or.inr hs', h⟩
    · rintro (h | ⟨s', rfl | hs', h⟩)
      · exact Or.inl (Or.inl h)
      · exact Or.inl (Or.inr h)
      · exact Or.inr ⟨s', hs', h⟩

theorem mem_pairsOf_fragsByHost {next : Nat → BitVec 64 → Nat} {c : Cluster} {idx : Index} {n : Id} {f : Frag} :
    (n, f) ∈ pairsOf (fragsByHost next c idx) ↔
      f.shard ∈ idx.avail ∧ n ∈ ownersOf next c idx.name f.shard ∧ f ∈ combosFor idx.schema f.shard := by
  unfold fragsByHost
  rw [mem_pairsOf_shards]
  constructor
  · rintro (h | ⟨s, hs, hn, hf⟩)
    · simp [pairsOf] at h
    · have := (mem_combosFor.mp hf).1
      subst this
      exact ⟨hs, hn, hf⟩
  · rintro ⟨hs, hn, hf⟩
    exact Or.inr ⟨f.shard, hs, hn, hf⟩

/-! ### fragsDiff -/

theorem fragsDiff_nil : ∀ (a : List Frag), fragsDiff a [] = a
  | [] => rfl
  | x :: a => by simp [fragsDiff, fragsDiff_nil a]

theorem mem_of_mem_fragsDiff : ∀ {a b : List Frag} {x : Frag}, x ∈ fragsDiff a b → x ∈ a
  | [], _, _, h => by simp [fragsDiff] at h
  | y :: a, b, x, h => by
    simp only [fragsDiff] at h
    split at h
    · exact mem_cons_of_mem _ (mem_of_mem_fragsDiff h)
    · rcases mem_cons.mp h with e | h'
      · simp [e]
      · exact mem_cons_of_mem _ (mem_of_mem_fragsDiff h')

theorem mem_fragsDiff_of_not_mem : ∀ {a b : List Frag} {x : Frag}, x ∈ a → x ∉ b → x ∈ fragsDiff a b
  | [], _, _, h, _ => by simp at h
  | y :: a, b, x, h, hb => by
    simp only [fragsDiff]
    split
    · rename_i hy
      rcases mem_cons.mp h with e | h'
      · subst e; exact absurd hy hb
      · exact mem_fragsDiff_of_not_mem h' (fun hx => hb (List.mem_of_mem_erase hx))
    · rcases mem_cons.mp h with e | h'
      · simp [e]
      · exact mem_cons_of_mem _ (mem_fragsDiff_of_not_mem h' hb)

/-- With a duplicate-free left operand the multiset difference is the set difference. -/
theorem not_mem_of_mem_fragsDiff : ∀ {a b : List Frag} {x : Frag}, a.Nodup → x ∈ fragsDiff a b → x ∉ b
  | [], _, _, _, h => by simp [fragsDiff] at h
  | y :: a, b, x, hnd, h => by
    have hy := nodup_cons.mp hnd
    simp only [fragsDiff] at h
    split at h
    · have hxa := mem_of_mem_fragsDiff h
      have hne : x ≠ y := fun e => hy.1 (e ▸ hxa)
      have := not_mem_of_mem_fragsDiff hy.2 h
      intro hxb
      exact this ((List.mem_erase_of_ne hne).mpr hxb)
    · rename_i hyb
      rcases mem_cons.mp h with e | h'
      · subst e; exact hyb
      · exact not_mem_of_mem_fragsDiff hy.2 h'

theorem nodeDiff_eq (fFrags tFrags : FragsByHost) (n : Id) :
    nodeDiff fFrags tFrags n = fragsDiff (fragsOf tFrags n) (fragsOf fFrags n) := by
  unfold nodeDiff
  split
  · rfl
  · rename_i h
    have : fragsOf fFrags n = [] := by
      unfold fragsOf
      unfold hasKey at h
      cases hf : fFrags.find? (fun e => e.1 = n) with
      | none => rfl
      | some e => simp [hf] at h
    rw [this, fragsDiff_nil]

/-! ### the inverse map -/

theorem srcLookup_some {entries : FragsByHost} {f : Frag} {n : Id} (h : srcLookup entries f = some n) :
    ∃ fs, (n, fs) ∈ entries ∧ f ∈ fs := by
  unfold srcLookup at h
  obtain ⟨e, hf, he⟩ := Option.map_eq_some_iff.mp h
  have hm := List.mem_of_find?_eq_some hf
  have hp := List.find?_some hf
  refine ⟨e.2, ?_, by simpa using hp⟩
  rw [← he]
  exact List.mem_reverse.mp hm

theorem srcLookup_none {entries : FragsByHost} {f : Frag} :
    srcLookup entries f = none ↔ ∀ e ∈ entries, f ∉ e.2 := by
  unfold srcLookup
  simp only [Option.map_eq_none_iff, List.find?_eq_none, mem_reverse]
  constructor
  · intro h e he hf; exact h e he (by simpa using hf)
  · intro h e he hf; exact h e he (by simpa using hf)

theorem mem_srcEntries {perm : FragsByHost → FragsByHost} (hperm : ∀ l, (perm l).Perm l)
    {srcFrags : FragsByHost} {action : Action} {d : Id} {e : Id × List Frag} :
    e ∈ srcEntries perm srcFrags action d ↔ e ∈ srcFrags ∧ ¬ (action = .remove ∧ e.1 = d) := by
  unfold srcEntries
  simp only [mem_filter, (hperm srcFrags).mem_iff]
  constructor
  · rintro ⟨h1, h2⟩
    refine ⟨h1, fun hc => ?_⟩
    simp [hc.1, hc.2] at h2
  · rintro ⟨h1, h2⟩
    refine ⟨h1, ?_⟩
    by_cases ha : action = .remove
    · by_cases hd : e.1 = d
      · exact absurd ⟨ha, hd⟩ h2
      · simp [hd]
    · simp [ha]

/-! ### per-node sources and the whole plan -/

theorem sourcesFor_some {entries : FragsByHost} : ∀ {fs : List Frag} {l : List Source},
    sourcesFor entries fs = some l →
      (∀ f ∈ fs, ∃ n, srcLookup entries f = some n ∧ (⟨n, f⟩ : Source) ∈ l) ∧
      (∀ s ∈ l, s.frag ∈ fs ∧ srcLookup entries s.frag = some s.node)
  | [], l, h => by
    simp only [sourcesFor, Option.some.injEq] at h
    subst h; simp
  | f :: fs, l, h => by
    simp only [sourcesFor] at h
    cases h1 : srcLookup entries f with
    | none => simp [h1] at h
    | some n =>
      cases h2 : sourcesFor entries fs with
      | none => simp [h1, h2] at h
      | some rest =>
        simp only [h1, h2, Option.some.injEq] at h
        subst h
        obtain ⟨ih1, ih2⟩ := sourcesFor_some h2
        constructor
        · intro g hg
          rcases mem_cons.mp hg with e | hg
          · subst e; exact ⟨n, h1, by simp⟩
          · obtain ⟨m, hm, hin⟩ := ih1 g hg
            exact ⟨m, hm, mem_cons_of_mem _ hin⟩
        · intro s hs
          rcases mem_cons.mp hs with e | hs
          · subst e; exact ⟨by simp, h1⟩
          · exact ⟨mem_cons_of_mem _ (ih2 s hs).1, (ih2 s hs).2⟩

theorem sourcesFor_none {entries : FragsByHost} : ∀ {fs : List Frag},
    sourcesFor entries fs = none ↔ ∃ f ∈ fs, srcLookup entries f = none
  | [] => by simp [sourcesFor]
  | f :: fs => by
    simp only [sourcesFor]
    cases h1 : srcLookup entries f with
    | none => simp [h1]
    | some n =>
      cases h2 : sourcesFor entries fs with
      | none =>
        have := (sourcesFor_none (fs := fs)).mp h2
        obtain ⟨g, hg, hn⟩ := this
        simp only [true_iff]
        exact ⟨g, mem_cons_of_mem _ hg, hn⟩
      | some rest =>
        simp only [reduceCtorEq, false_iff]
        rintro ⟨g, hg, hn⟩
        rcases mem_cons.mp hg with e | hg
        · subst e; rw [h1] at hn; cases hn
        · have := (sourcesFor_none (fs := fs)).mpr ⟨g, hg, hn⟩
          rw [h2] at this; cases this

theorem planNodes_some {entries fFrags tFrags : FragsByHost} : ∀ {ns : List Id} {p : List (Id × List Source)},
    planNodes entries fFrags tFrags ns = some p →
      (∀ n ∈ ns, sourcesFor entries (nodeDiff fFrags tFrags n) = some (lookupPlan p n)) ∧
      (∀ n, n ∉ ns → lookupPlan p n = [])
  | [], p, h => by
    simp only [planNodes, Option.some.injEq] at h
    subst h; simp [lookupPlan]
  | m :: ms, p, h => by
    simp only [planNodes] at h
    cases h1 : sourcesFor entries (nodeDiff fFrags tFrags m) with
    | none => simp [h1] at h
    | some s =>
      cases h2 : planNodes entries fFrags tFrags ms with
      | none => simp [h1, h2] at h
      | some rest =>
        simp only [h1, h2, Option.some.injEq] at h
        subst h
        obtain ⟨ih1, ih2⟩ := planNodes_some h2
        constructor
        · intro n hn
          by_cases e : m = n
          · subst e; simp [lookupPlan, h1]
          · rcases mem_cons.mp hn with e' | hn
            · exact absurd e'.symm e
            · have := ih1 n hn
              simpa [lookupPlan, e] using this
        · intro n hn
          have hne : ¬ m = n := fun e => hn (by simp [e])
          have := ih2 n (fun h' => hn (mem_cons_of_mem _ h'))
          simpa [lookupPlan, hne] using this

theorem planNodes_none {entries fFrags tFrags : FragsByHost} : ∀ {ns : List Id},
    planNodes entries fFrags tFrags ns = none ↔
      ∃ n ∈ ns, sourcesFor entries (nodeDiff fFrags tFrags n) = none
  | [] => by simp [planNodes]
  | m :: ms => by
    simp only [planNodes]
    cases h1 : sourcesFor entries (nodeDiff fFrags tFrags m) with
    | none => simp [h1]
    | some s =>
      cases h2 : planNodes entries fFrags tFrags ms with
      | none =>
        obtain ⟨g, hg, hn⟩ := (planNodes_none (ns := ms)).mp h2
        simp only [true_iff]
        exact ⟨g, mem_cons_of_mem _ hg, hn⟩
      | some rest =>
        simp only [reduceCtorEq, false_iff]
        rintro ⟨g, hg, hn⟩
        rcases mem_cons.mp hg with e | hg
        · subst e; rw [h1] at hn; cases hn
        · have := (planNodes_none (ns := ms)).mpr ⟨g, hg, hn⟩
          rw [h2] at this; cases this

/-! ### cluster.diff on a single add / remove -/

theorem find?_unique {α : Type} {p : α → Bool} {x : α} : ∀ {l : List α}, x ∈ l → p x = true →
    (∀ y ∈ l, p y = true → y = x) → l.find? p = some x
  | [], h, _, _ => by simp at h
  | y :: ys, h, hp, hu => by
    simp only [find?_cons]
    cases hy : p y with
    | true => simp [hu y (by simp) hy]
    | false =>
      simp only
      rcases mem_cons.mp h with e | h'
      · subst e; rw [hp] at hy; cases hy
      · exact find?_unique h' hp (fun z hz => hu z (mem_cons_of_mem _ hz))

theorem diff_add {nodes : List Id} {id : Id} (hid : id ∉ nodes) :
    diff nodes (addNode nodes id) = .ok (.add, id) := by
  have hlen := length_addNode hid
  unfold diff
  have h1 : ¬ nodes.length = (addNode nodes id).length := by omega
  have h2 : nodes.length < (addNode nodes id).length := by omega
  have h3 : ¬ (addNode nodes id).length - nodes.length > 1 := by omega
  simp only [h1, h2, h3, if_true, if_false]
  have : firstMissing (addNode nodes id) nodes = id := by
    unfold firstMissing
    have hf : (addNode nodes id).find? (fun n => !containsID nodes n) = some id := by
      apply find?_unique (mem_addNode.mpr (Or.inl rfl))
      · have : containsID nodes id = false := by
          cases h : containsID nodes id with
          | false => rfl
          | true => exact absurd (containsID_iff.mp h) hid
        simp [this]
      · intro y hy hp
        rcases mem_addNode.mp hy with e | hy
        · exact e
        · have := containsID_iff.mpr hy
          simp [this] at hp
    rw [hf]
  rw [this]

theorem diff_remove {nodes : List Id} {id : Id} (hs : Sorted nodes) (hid : id ∈ nodes) :
    diff nodes (removeNode nodes id) = .ok (.remove, id) := by
  have hlen := length_removeNode hid
  unfold diff
  have h1 : ¬ nodes.length = (removeNode nodes id).length := by omega
  have h2 : ¬ nodes.length < (removeNode nodes id).length := by omega
  have h3 : ¬ nodes.length - (removeNode nodes id).length > 1 := by omega
  simp only [h1, h2, h3, if_false]
  have : firstMissing nodes (removeNode nodes id) = id := by
    unfold firstMissing
    have hf : nodes.find? (fun n => !containsID (removeNode nodes id) n) = some id := by
      apply find?_unique hid
      · have : containsID (removeNode nodes id) id = false := by
          cases h : containsID (removeNode nodes id) id with
          | false => rfl
          | true =>
            have := (mem_removeNode hs.nodup).mp (containsID_iff.mp h)
            exact absurd rfl this.2
        simp [this]
      · intro y hy hp
        by_cases e : y = id
        · exact e
        · have := containsID_iff.mpr ((mem_removeNode hs.nodup).mpr ⟨hy, e⟩)
          simp [this] at hp
    rw [hf]
  rw [this]

/-! ### duplicate-freeness of the per-node frag lists -/

theorem nodup_flatMap_of {α β : Type} {f : α → List β} : ∀ {l : List α},
    (∀ x ∈ l, (f x).Nodup) → l.Pairwise (fun a b => ∀ y ∈ f a, y ∉ f b) → (l.flatMap f).Nodup
  | [], _, _ => by simp
  | x :: xs, h1, h2 => by
    have hp := pairwise_cons.mp h2
    simp only [flatMap_cons]
    refine nodup_append.mpr ⟨h1 x (by simp), nodup_flatMap_of (fun y hy => h1 y (mem_cons_of_mem _ hy)) hp.2, ?_⟩
    intro a ha b hb e
    subst e
    obtain ⟨z, hz, hbz⟩ := mem_flatMap.mp hb
    exact hp.1 z hz a ha hbz

theorem nodup_map_of {α β : Type} {f : α → β} (hinj : ∀ a b, f a = f b → a = b) : ∀ {l : List α},
    l.Nodup → (l.map f).Nodup
  | [], _ => by simp
  | x :: xs, h => by
    have hx := nodup_cons.mp h
    simp only [map_cons]
    refine nodup_cons.mpr ⟨?_, nodup_map_of hinj hx.2⟩
    intro hm
    obtain ⟨y, hy, e⟩ := mem_map.mp hm
    exact hx.1 (hinj _ _ e ▸ hy)

/-- distinct field names, distinct views per field -/
def SchemaOK (schema : List (String × List String)) : Prop :=
  (schema.map (·.1)).Nodup ∧ ∀ fv ∈ schema, fv.2.Nodup

theorem combosFor_nodup {schema : List (String × List String)} (h : SchemaOK schema) (s : Nat) :
    (combosFor schema s).Nodup := by
  unfold combosFor
  apply nodup_flatMap_of
  · intro fv hfv
    apply nodup_map_of _ (h.2 fv hfv)
    intro a b e
    exact (Frag.mk.injEq .. ▸ e).2.1
  · have := pairwise_map.mp h.1
    refine this.imp ?_
    intro a b hab y hy hyb
    obtain ⟨v, _, rfl⟩ := mem_map.mp hy
    obtain ⟨w, _, e⟩ := mem_map.mp hyb
    exact hab ((Frag.mk.injEq .. ▸ e).1).symm

theorem mem_insertShard {x y : Nat} : ∀ {l : List Nat}, y ∈ insertShard x l ↔ y = x ∨ y ∈ l
  | [] => by simp [insertShard]
  | z :: zs => by
    simp only [insertShard]
    split
    · simp
    · split
      · rename_i _ e
        subst e
        simp only [mem_cons]
        constructor
        · exact Or.inr
        · rintro (h | h)
          · exact Or.inl h
          · exact h
      · simp only [mem_cons, mem_insertShard (l := zs)]
        constructor
        · rintro (h | h | h)
          · exact Or.inr (Or.inl h)
          · exact Or.inl h
          · exact Or.inr (Or.inr h)
        · rintro (h | h | h)
          · exact Or.inr (Or.inl h)
          · exact Or.inl h
          · exact Or.inr (Or.inr h)

theorem insertShard_sorted {x : Nat} : ∀ {l : List Nat}, l.Pairwise (· < ·) → (insertShard x l).Pairwise (· < ·)
  | [], _ => by simp [insertShard]
  | z :: zs, h => by
    have hz := pairwise_cons.mp h
    simp only [insertShard]
    split
    · rename_i hxz
      refine pairwise_cons.mpr ⟨?_, h⟩
      intro w hw
      rcases mem_cons.mp hw with e | hw
      · omega
      · have := hz.1 w hw; omega
    · split
      · exact h
      · rename_i h1 h2
        refine pairwise_cons.mpr ⟨?_, insertShard_sorted hz.2⟩
        intro w hw
        rcases mem_insertShard.mp hw with e | hw
        · omega
        · exact hz.1 w hw

theorem avail_sorted (idx : Index) : idx.avail.Pairwise (· < ·) := by
  unfold Index.avail
  generalize idx.remote ++ idx.locals.map (·.shard) = l
  induction l with
  | nil => simp
  | cons x xs ih => exact insertShard_sorted ih

theorem mem_avail {idx : Index} {s : Nat} : s ∈ idx.avail ↔ s ∈ idx.remote ∨ ∃ f ∈ idx.locals, f.shard = s := by
  unfold Index.avail
  have : ∀ (l : List Nat), s ∈ l.foldr insertShard [] ↔ s ∈ l := by
    intro l
    induction l with
    | nil => simp
    | cons x xs ih => simp [mem_insertShard, ih]
  rw [this]
  simp

/-- The frags `fragsByHost` lists for one node are pairwise distinct. -/
theorem fragsOf_fragsByHost_nodup {next : Nat → BitVec 64 → Nat} (hnext : ∀ b k, b < next b k) {c : Cluster}
    (hnd : c.nodes.Nodup) {idx : Index} (hsch : SchemaOK idx.schema) (n : Id) :
    (fragsOf (fragsByHost next c idx) n).Nodup := by
  rw [fragsOf_fragsByHost]
  apply nodup_flatMap_of
  · intro s _
    -- owners of one shard are distinct, so at most one of them is `n`
    have hown : (ownersOf next c idx.name s).Nodup := by
      have htot := shardNodes_total hnext c idx.name s
      unfold shardNodes at htot
      obtain ⟨l, H, hl, hlen, _, hget⟩ := partitionNodes_ok hnext c (partition c.partitionN idx.name s)
      rw [hl] at htot
      rw [← Out.ok.inj htot]
      exact ring_nodup hnd (by rw [hlen]; exact Nat.min_le_right _ _) hget
    apply nodup_flatMap_of
    · intro k _
      split
      · exact combosFor_nodup hsch s
      · simp
    · refine hown.imp ?_
      intro a b hab y hy hyb
      by_cases ha : a = n
      · have hb : ¬ b = n := fun e => hab (ha.trans e.symm)
        simp [hb] at hyb
      · simp [ha] at hy
  · refine (avail_sorted idx).imp ?_
    intro s₁ s₂ hlt y hy hyb
    obtain ⟨k₁, _, h₁⟩ := mem_flatMap.mp hy
    obtain ⟨k₂, _, h₂⟩ := mem_flatMap.mp hyb
    have e₁ : y.shard = s₁ := by
      split at h₁
      · exact (mem_combosFor.mp h₁).1
      · simp at h₁
    have e₂ : y.shard = s₂ := by
      split at h₂
      · exact (mem_combosFor.mp h₂).1
      · simp at h₂
    omega

/-! ### the open-choice plan (what the driver prints) vs the plan for one iteration order -/

theorem mem_srcCandidates {entries : FragsByHost} {f : Frag} {n : Id} :
    n ∈ srcCandidates entries f ↔ ∃ fs, (n, fs) ∈ entries ∧ f ∈ fs := by
  unfold srcCandidates
  simp only [mem_map, mem_filter]
  constructor
  · rintro ⟨e, ⟨he, hf⟩, rfl⟩
    exact ⟨e.2, he, by simpa using hf⟩
  · rintro ⟨fs, he, hf⟩
    exact ⟨(n, fs), ⟨he, by simpa using hf⟩, rfl⟩

theorem srcCandidates_nil {entries : FragsByHost} {f : Frag} :
    srcCandidates entries f = [] ↔ srcLookup entries f = none := by
  rw [srcLookup_none]
  constructor
  · intro h e he hf
    have : e.1 ∈ srcCandidates entries f := mem_srcCandidates.mpr ⟨e.2, he, hf⟩
    rw [h] at this; cases this
  · intro h
    cases hc : srcCandidates entries f with
    | nil => rfl
    | cons x xs =>
      have : x ∈ srcCandidates entries f := by rw [hc]; simp
      obtain ⟨fs, he, hf⟩ := mem_srcCandidates.mp this
      exact absurd hf (h (x, fs) he)

theorem choicesFor_some {entries : FragsByHost} : ∀ {fs : List Frag} {l : List (Frag × List Id)},
    choicesFor entries fs = some l →
      l.map (·.1) = fs ∧ ∀ fc ∈ l, fc.2 = srcCandidates entries fc.1 ∧ fc.2 ≠ []
  | [], l, h => by
    simp only [choicesFor, Option.some.injEq] at h
    subst h; simp
  | f :: fs, l, h => by
    simp only [choicesFor] at h
    cases h1 : srcCandidates entries f with
    | nil => simp [h1] at h
    | cons n ns =>
      cases h2 : choicesFor entries fs with
      | none => simp [h1, h2] at h
      | some rest =>
        simp only [h1, h2, Option.some.injEq] at h
        subst h
        obtain ⟨ih1, ih2⟩ := choicesFor_some h2
        refine ⟨by simp [ih1], ?_⟩
        intro fc hfc
        rcases mem_cons.mp hfc with e | hfc
        · subst e; simp [h1]
        · exact ih2 fc hfc

theorem choicesFor_none {entries : FragsByHost} : ∀ {fs : List Frag},
    choicesFor entries fs = none ↔ ∃ f ∈ fs, srcCandidates entries f = []
  | [] => by simp [choicesFor]
  | f :: fs => by
    simp only [choicesFor]
    cases h1 : srcCandidates entries f with
    | nil => simp [h1]
    | cons n ns =>
      cases h2 : choicesFor entries fs with
      | none =>
        obtain ⟨g, hg, hn⟩ := (choicesFor_none (fs := fs)).mp h2
        simp only [true_iff]
        exact ⟨g, mem_cons_of_mem _ hg, hn⟩
      | some rest =>
        simp only [reduceCtorEq, false_iff]
        rintro ⟨g, hg, hn⟩
        rcases mem_cons.mp hg with e | hg
        · subst e; rw [h1] at hn; cases hn
        · have := (choicesFor_none (fs := fs)).mpr ⟨g, hg, hn⟩
          rw [h2] at this; cases this

theorem choiceNodes_some {entries fFrags tFrags : FragsByHost} :
    ∀ {ns : List Id} {p : List (Id × List (Frag × List Id))},
    choiceNodes entries fFrags tFrags ns = some p →
      (∀ n ∈ ns, choicesFor entries (nodeDiff fFrags tFrags n) = some (lookupPlan p n)) ∧
      (∀ n, n ∉ ns → lookupPlan p n = [])
  | [], p, h => by
    simp only [choiceNodes, Option.some.injEq] at h
    subst h; simp [lookupPlan]
  | m :: ms, p, h => by
    simp only [choiceNodes] at h
    cases h1 : choicesFor entries (nodeDiff fFrags tFrags m) with
    | none => simp [h1] at h
    | some s =>
      cases h2 : choiceNodes entries fFrags tFrags ms with
      | none => simp [h1, h2] at h
      | some rest =>
        simp only [h1, h2, Option.some.injEq] at h
        subst h
        obtain ⟨ih1, ih2⟩ := choiceNodes_some h2
        constructor
        · intro n hn
          by_cases e : m = n
          · subst e; simp [lookupPlan, h1]
          · rcases mem_cons.mp hn with e' | hn
            · exact absurd e'.symm e
            · have := ih1 n hn
              simpa [lookupPlan, e] using this
        · intro n hn
          have hne : ¬ m = n := fun e => hn (by simp [e])
          have := ih2 n (fun h' => hn (mem_cons_of_mem _ h'))
          simpa [lookupPlan, hne] using this

theorem choiceNodes_none {entries fFrags tFrags : FragsByHost} : ∀ {ns : List Id},
    choiceNodes entries fFrags tFrags ns = none ↔
      ∃ n ∈ ns, choicesFor entries (nodeDiff fFrags tFrags n) = none
  | [] => by simp [choiceNodes]
  | m :: ms => by
    simp only [choiceNodes]
    cases h1 : choicesFor entries (nodeDiff fFrags tFrags m) with
    | none => simp [h1]
    | some s =>
      cases h2 : choiceNodes entries fFrags tFrags ms with
      | none =>
        obtain ⟨g, hg, hn⟩ := (choiceNodes_none (ns := ms)).mp h2
        simp only [true_iff]
        exact ⟨g, mem_cons_of_mem _ hg, hn⟩
      | some rest =>
        simp only [reduceCtorEq, false_iff]
        rintro ⟨g, hg, hn⟩
        rcases mem_cons.mp hg with e | hg
        · subst e; rw [h1] at hn; cases hn
        · have := (choiceNodes_none (ns := ms)).mpr ⟨g, hg, hn⟩
          rw [h2] at this; cases this

/-- candidates do not depend on the iteration order -/
theorem mem_srcCandidates_perm {perm : FragsByHost → FragsByHost} (hperm : ∀ l, (perm l).Perm l)
    {srcFrags : FragsByHost} {a : Action} {d : Id} {f : Frag} {n : Id} :
    n ∈ srcCandidates (srcEntries perm srcFrags a d) f ↔ n ∈ srcCandidates (srcEntries (fun t => t) srcFrags a d) f := by
  simp only [mem_srcCandidates, mem_srcEntries hperm, mem_srcEntries (perm := fun t => t) (fun l => Perm.refl l)]

theorem sourcesFor_frags {entries : FragsByHost} : ∀ {fs : List Frag} {l : List Source},
    sourcesFor entries fs = some l → l.map (·.frag) = fs
  | [], l, h => by
    simp only [sourcesFor, Option.some.injEq] at h
    subst h; rfl
  | f :: fs, l, h => by
    simp only [sourcesFor] at h
    cases h1 : srcLookup entries f with
    | none => simp [h1] at h
    | some n =>
      cases h2 : sourcesFor entries fs with
      | none => simp [h1, h2] at h
      | some rest =>
        simp only [h1, h2, Option.some.injEq] at h
        subst h
        simp [sourcesFor_frags h2]

/-! ### job generation -/

def okPlan {σ : Type} : Except PlanErr (List (Id × List σ)) → List (Id × List σ)
  | .ok p => p
  | .error _ => []

theorem mergePlans_ok {σ : Type} (planOf : Index → Except PlanErr (List (Id × List σ))) :
    ∀ (idxs : List Index) (acc r : List (Id × List (List Nat × σ))), mergePlans planOf idxs acc = .ok r →
      (∀ ix ∈ idxs, ∃ p, planOf ix = .ok p) ∧
      r = acc.map (fun e => (e.1, e.2 ++ idxs.flatMap (fun ix =>
            (lookupPlan (okPlan (planOf ix)) e.1).map (fun s => (ix.name, s)))))
  | [], acc, r, h => by
    simp only [mergePlans, Except.ok.injEq] at h
    subst h
    simp
  | ix :: rest, acc, r, h => by
    simp only [mergePlans] at h
    cases hp : planOf ix with
    | error e => simp [hp] at h
    | ok plan =>
      simp only [hp] at h
      obtain ⟨ih1, ih2⟩ := mergePlans_ok planOf rest _ r h
      constructor
      · intro ix' hix
        rcases mem_cons.mp hix with e | hix
        · subst e; exact ⟨plan, hp⟩
        · exact ih1 ix' hix
      · rw [ih2]
        simp [List.map_map, hp, okPlan, Function.comp_def]

theorem mergePlans_error {σ : Type} (planOf : Index → Except PlanErr (List (Id × List σ))) :
    ∀ (idxs : List Index) (acc : List (Id × List (List Nat × σ))) (e : PlanErr),
      mergePlans planOf idxs acc = .error e → ∃ ix ∈ idxs, planOf ix = .error e
  | [], acc, e, h => by simp [mergePlans] at h
  | ix :: rest, acc, e, h => by
    simp only [mergePlans] at h
    cases hp : planOf ix with
    | error e' =>
      simp only [hp, Except.error.injEq] at h
      subst h
      exact ⟨ix, by simp, hp⟩
    | ok plan =>
      simp only [hp] at h
      obtain ⟨ix', hix, he⟩ := mergePlans_error planOf rest _ e h
      exact ⟨ix', mem_cons_of_mem _ hix, he⟩

/-- `j.IDs[n]` -/
def getID (m : List (Id × Bool)) (n : Id) : Option Bool := (m.find? (fun e => e.1 = n)).map (·.2)

theorem getID_setID : ∀ (m : List (Id × Bool)) (k : Id) (v : Bool) (n : Id),
    getID (setID m k v) n = if k = n then some v else getID m n
  | [], k, v, n => by
    by_cases h : k = n <;> simp [setID, getID, h]
  | (k', v') :: rest, k, v, n => by
    simp only [setID]
    by_cases hk : k' = k
    · subst hk
      by_cases hn : k' = n <;> simp [getID, hn]
    · simp only [hk, if_false]
      by_cases hn : k' = n
      · subst hn
        have : ¬ k = k' := fun e => hk e.symm
        simp [getID, this]
      · have ih := getID_setID rest k v n
        simp only [getID, find?_cons, hn, decide_false] at ih ⊢
        exact ih

theorem getID_foldl_false (n : Id) : ∀ (l : List Id) (m : List (Id × Bool)),
    getID (l.foldl (fun m k => setID m k false) m) n = if n ∈ l then some false else getID m n
  | [], m => by simp
  | k :: ks, m => by
    simp only [foldl_cons, getID_foldl_false n ks, getID_setID, mem_cons]
    by_cases h1 : n ∈ ks
    · simp [h1]
    · by_cases h2 : k = n
      · simp [h2]
      · have : ¬ n = k := fun e => h2 e.symm
        simp [h1, h2, this]

theorem getID_newJobIDs {c : Cluster} {a : Action} {id : Id} (hs : Sorted c.nodes)
    (hadd : a = .add → id ∉ c.nodes) (n : Id) :
    getID (newJobIDs c.nodes a id) n = if n ∈ (targetCluster c a id).nodes then some false else none := by
  cases a with
  | add =>
    simp only [newJobIDs, targetCluster, getID_foldl_false, mem_addNode, mem_append, mem_cons, not_mem_nil, or_false]
    have : getID [] n = none := rfl
    rw [this]
    by_cases h : n ∈ c.nodes <;> by_cases h' : n = id <;> simp [h, h']
  | remove =>
    simp only [newJobIDs, targetCluster, getID_foldl_false, mem_removeNode hs.nodup, mem_filter]
    have : getID [] n = none := rfl
    rw [this]
    by_cases h : n ∈ c.nodes <;> by_cases h' : n = id <;> simp [h, h']

/-- marking the nodes without sources: keys of `multi` are distinct -/
theorem getID_mark {σ : Type} (n : Id) : ∀ (multi : List (Id × List σ)) (m : List (Id × Bool)),
    (multi.map (·.1)).Nodup →
    getID (multi.foldl (fun m e => if e.2.isEmpty then setID m e.1 true else m) m) n =
      match multi.find? (fun e => e.1 = n) with
      | some e => if e.2.isEmpty then some true else getID m n
      | none => getID m n
  | [], m, _ => by simp
  | e :: es, m, hnd => by
    have hnd' := nodup_cons.mp (by simpa using hnd : (e.1 :: es.map (·.1)).Nodup)
    simp only [foldl_cons, find?_cons]
    rw [getID_mark n es _ hnd'.2]
    by_cases he : e.1 = n
    · have hnone : es.find? (fun x => x.1 = n) = none := by
        apply List.find?_eq_none.mpr
        intro x hx hxn
        apply hnd'.1
        have : x.1 = e.1 := by rw [he]; simpa using hxn
        rw [← this]
        exact mem_map.mpr ⟨x, hx, rfl⟩
      simp only [hnone, he, decide_true]
      by_cases hemp : e.2.isEmpty
      · simp [hemp, getID_setID]
      · simp [hemp]
    · simp only [he, decide_false]
      cases hf : es.find? (fun x => x.1 = n) with
      | none =>
        simp only
        by_cases hemp : e.2.isEmpty
        · simp [hemp, getID_setID, he]
        · simp [hemp]
      | some x =>
        simp only
        by_cases hx : x.2.isEmpty
        · simp [hx]
        · simp only [hx]
          by_cases hemp : e.2.isEmpty
          · simp [hemp, getID_setID, he]
          · simp [hemp]

end PV.C21
