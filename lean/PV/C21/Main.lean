/-
pm_c21: model driver for C21.  State of a case: one cluster value (node list, replica count) and the
indexes of one holder.  Ops (one per line; ids, index, field and view names are ASCII tokens):

  cluster <ids csv|-> <replicas>      new cluster, ids joined in this order            -> node ids in slice order
  idx <name> <schema> <local csv|-> <remote csv|->
        schema = f:v1,v2;g:v1 (or - for no field, f: for a field without views); every view gets a
        local fragment per local shard; remote = shards with data elsewhere      -> available shards [..]
  fbh <index>                          fragsByHost                                -> a{f/v/0,f/v/1} b{...}
  fragsdiff <frags|-> <frags|->        fragsDiff (frags = f/v/s,f/v/s)            -> frags | -
  diff <to ids csv|->                  cluster.diff                               -> add:<id> | remove:<id> | err:<kind>
  sources <index> <to ids csv|->       cluster.fragSources(to, index)             -> plan | err:<kind>
  job add|remove <id>                  unprotectedGenerateResizeJobByAction       -> ids=a:0,b:1 instr=<plan> | err:<kind>
  clean <self>                         holderCleaner.CleanHolder                  -> remaining fragments i/f/v/s ... | -
  follower <self> <coordinator> <STATE>  make the current cluster value the one of node <self> (not a new cluster):
                                       local node, coordinator id, cluster state (STARTING|NORMAL|DEGRADED|RESIZING) -> ok
  status <STATE> <ids csv|-> <coordinator>  cluster.mergeClusterStatus(ClusterStatus{State, Nodes}) on that node
                                       -> <state after> [node ids after] | remaining fragments (or -)

plan = `node{frag<src|src,frag<src} node{}`: for every node of the target cluster (ascending id) the
frags it must fetch (ascending) and, per frag, the set of nodes the code can name as source (the
choice depends on Go map iteration order; the harness prints the set observed over repeated runs).
In a job the frags carry their index: `i:f/v/s`.

`#spec`: the property evaluated on the model's answer (Spec.planOK / mustRefuse / cleaned): the
spec column repeats the model's text when it meets the property and says what is wrong otherwise.
-/
import PV.Common.Proto
import PV.C20.Float
import PV.C21.Model
import PV.C21.Spec
open PV.Proto PV.C20 PV.C20.Drv PV.C21

namespace PV.C21.Drv

structure St where
  cluster : Cluster := { nodes := [], replicaN := 1 }
  indexes : List Index := []
  follower : Bool := false          -- a `follower` line was seen since the last `cluster` line
  state : CState := .normal
  self : Id := []
  coordinator : Id := []

def parseState (s : String) : Option CState :=
  if s = "STARTING" then some .starting else if s = "NORMAL" then some .normal
  else if s = "DEGRADED" then some .degraded else if s = "RESIZING" then some .resizing else none

def showState : CState → String
  | .starting => "STARTING" | .normal => "NORMAL" | .degraded => "DEGRADED" | .resizing => "RESIZING"

def strLt (a b : String) : Bool := idLt (toId a) (toId b)

def fragLt (a b : Frag) : Bool :=
  if a.field ≠ b.field then strLt a.field b.field
  else if a.view ≠ b.view then strLt a.view b.view
  else a.shard < b.shard

def insBy {α : Type} (lt : α → α → Bool) (x : α) : List α → List α
  | [] => [x]
  | y :: ys => if lt y x then y :: insBy lt x ys else x :: y :: ys

def sortBy {α : Type} (lt : α → α → Bool) (l : List α) : List α := l.foldr (insBy lt) []

def showFrag (f : Frag) : String := s!"{f.field}/{f.view}/{f.shard}"

def parseFrag (s : String) : Option Frag :=
  match s.splitOn "/" with
  | [f, v, sh] => sh.toNat?.map (fun n => ⟨f, v, n⟩)
  | _ => none

def parseFrags (s : String) : Option (List Frag) :=
  if s = "-" || s = "" then some [] else (s.splitOn ",").mapM parseFrag

def showFrags (l : List Frag) : String :=
  if l.isEmpty then "-" else ",".intercalate (l.map showFrag)

def csvIds (s : String) : List Id :=
  if s = "-" || s = "" then [] else (s.splitOn ",").map toId

def showIds (l : List Id) : String := "[" ++ " ".intercalate (l.map ofId) ++ "]"

def parseSchema (s : String) : List (String × List String) :=
  if s = "-" || s = "" then [] else
  (s.splitOn ";").map (fun fv =>
    match fv.splitOn ":" with
    | [f, vs] => (f, if vs = "" then [] else vs.splitOn ",")
    | _ => (fv, []))

def showCands (l : List Id) : String := "|".intercalate ((sortBy idLt l).map ofId)

/-- `node{frag<src|src,...}` for nodes in ascending id order -/
def showPlan {τ : Type} (tagLt : τ → τ → Bool) (showTag : τ → String)
    (plan : List (Id × List (τ × List Id))) : String :=
  " ".intercalate ((sortBy (fun a b => idLt a.1 b.1) plan).map (fun e =>
    ofId e.1 ++ "{" ++ ",".intercalate ((sortBy (fun a b => tagLt a.1 b.1) e.2).map
      (fun fc => showTag fc.1 ++ "<" ++ showCands fc.2)) ++ "}"))

def showErr : PlanErr → String
  | .diff .sameSize => "err:same-size"
  | .diff .addMany => "err:add-many"
  | .diff .removeMany => "err:remove-many"
  | .noSource => "err:no-source"

/-- every partition the cluster / index pair will hash, to re-check the assumption on `next` -/
def assumeAll (ns : List Nat) (idxs : List Index) (pn : Nat) : Bool :=
  ns.all (fun n => idxs.all (fun ix => ix.avail.all (fun s =>
    assumeOK n n 0 (BitVec.ofNat 64 (partition pn ix.name s)))))

def findIndex? (s : St) (name : String) : Option Index := s.indexes.find? (fun ix => ix.name = toId name)

def removedOf (a : Action) (id : Id) : Option Id := match a with | .remove => some id | .add => none

/-- spec column of a per-index plan -/
def specPlan (c to : Cluster) (ix : Index) (model : String)
    (r : Except PlanErr (List (Id × List (Frag × List Id)))) : String :=
  match diff c.nodes to.nodes with
  | .error _ => model
  | .ok (a, d) =>
    let removed := removedOf a d
    match r with
    | .error .noSource => if Spec.mustRefuse nextF c to ix removed then model else "spec:refused-although-every-newly-owned-shard-has-a-surviving-owner"
    | .error _ => model
    | .ok plan =>
      if Spec.mustRefuse nextF c to ix removed then "err:no-source"
      else if Spec.planOK nextF c to ix removed plan then model
      else "spec:plan-does-not-name-a-surviving-previous-owner-for-exactly-the-newly-owned-frags"

def tagLt (a b : List Nat × Frag) : Bool :=
  if a.1 ≠ b.1 then idLt a.1 b.1 else fragLt a.2 b.2

def showTag (t : List Nat × Frag) : String := ofId t.1 ++ ":" ++ showFrag t.2

def showJob (j : JobOf (Frag × List Id)) : String :=
  let ids := ",".intercalate ((sortBy (fun a b => idLt a.1 b.1) j.ids).map
    (fun e => ofId e.1 ++ ":" ++ (if e.2 then "1" else "0")))
  let plan : List (Id × List ((List Nat × Frag) × List Id)) :=
    j.instructions.map (fun e => (e.1, e.2.map (fun x => ((x.1, x.2.1), x.2.2))))
  "ids=" ++ (if ids = "" then "-" else ids) ++ " instr=" ++
    (if plan.isEmpty then "-" else showPlan tagLt showTag plan)

/-- spec check of a generated job -/
def jobOK (c to : Cluster) (idxs : List Index) (removed : Option Id) (j : JobOf (Frag × List Id)) : Bool :=
  let needs := fun (n : Id) => idxs.any (fun ix => !(Spec.newlyOwned nextF c to ix n).isEmpty)
  to.nodes.all (fun n =>
    (match j.ids.find? (fun e => e.1 = n) with
      | some e => e.2 = !needs n
      | none => false) &&
    (match j.instructions.find? (fun e => e.1 = n) with
      | none => !needs n
      | some e => needs n && idxs.all (fun ix =>
          let mine := e.2.filter (fun x => x.1 = ix.name)
          Spec.sameFrags (mine.map (·.2.1)) (Spec.newlyOwned nextF c to ix n) &&
          mine.all (fun x => !x.2.2.isEmpty &&
            x.2.2.all (fun src => (Spec.permitted nextF c ix removed x.2.1.shard).contains src))))) &&
  j.ids.all (fun e => to.nodes.contains e.1) && j.instructions.all (fun e => to.nodes.contains e.1)

def step (s : St) (ws : List String) : St × Ans :=
  let bad := (s, ans "bad-op")
  let c := s.cluster
  match ws with
  | ["cluster", ids, r] =>
    match r.toNat? with
    | some r =>
      let nodes := (csvIds ids).foldl addNode []
      ({ s with cluster := { nodes := nodes, replicaN := r }, follower := false }, ans (showIds nodes))
    | none => bad
  | ["idx", name, schema, locals, remote] =>
    match csvNats? locals, csvNats? remote with
    | some ls, some rs =>
      let sch := parseSchema schema
      let ix : Index := { name := toId name, schema := sch, remote := (if sch.isEmpty then [] else rs),
                          locals := ls.flatMap (fun sh => combosFor sch sh) }
      ({ s with indexes := s.indexes ++ [ix] }, ans (showNats ix.avail))
    | _, _ => bad
  | ["fragsdiff", a, b] =>
    match parseFrags a, parseFrags b with
    | some a, some b => (s, ans (showFrags (fragsDiff a b)))
    | _, _ => bad
  | ["diff", toIds] =>
    match diff c.nodes ((csvIds toIds).foldl addNode []) with
    | .ok (.add, id) => (s, ans ("add:" ++ ofId id))
    | .ok (.remove, id) => (s, ans ("remove:" ++ ofId id))
    | .error e => (s, ans (showErr (.diff e)))
  | ["fbh", name] =>
    match findIndex? s name with
    | none => bad
    | some ix =>
      if !assumeAll [c.nodes.length] [ix] c.partitionN then (s, ans "assume-violated:next") else
      let t := fragsByHost nextF c ix
      let render := fun (t : List (Id × List Frag)) =>
        if t.isEmpty then "-" else
        " ".intercalate ((sortBy (fun a b => idLt a.1 b.1) t).map (fun e =>
          ofId e.1 ++ "{" ++ ",".intercalate ((sortBy fragLt e.2).map showFrag) ++ "}"))
      let sp := (c.nodes.map (fun n => (n, ix.avail.flatMap (fun sh =>
          if (Spec.owners nextF c ix.name sh).contains n then combosFor ix.schema sh else [])))).filter
          (fun e => !e.2.isEmpty)
      (s, ans2 (render t) (render sp) "fbh")
  | ["sources", name, toIds] =>
    match findIndex? s name with
    | none => bad
    | some ix =>
      let to : Cluster := { c with nodes := (csvIds toIds).foldl addNode [] }
      if !assumeAll [c.nodes.length, to.nodes.length] [ix] c.partitionN then (s, ans "assume-violated:next") else
      let r := fragSourcesChoices nextF c to ix
      let m := match r with
        | .error e => showErr e
        | .ok plan => if plan.isEmpty then "-" else showPlan fragLt showFrag plan
      (s, ans2 m (specPlan c to ix m r) "sources")
  | ["job", act, id] =>
    let a? : Option Action := if act = "add" then some .add else if act = "remove" then some .remove else none
    match a? with
    | none => bad
    | some a =>
      let id := toId id
      let to := targetCluster c a id
      if !assumeAll [c.nodes.length, to.nodes.length] s.indexes c.partitionN then (s, ans "assume-violated:next") else
      let r := generateJobChoices nextF c s.indexes a id
      let removed := removedOf a id
      match r with
      | .error e =>
        let m := showErr e
        let valid := (a = .add ∧ !c.nodes.contains id) ∨ (a = .remove ∧ c.nodes.contains id)
        let sp := if e = .noSource ∧ valid then
            (if s.indexes.any (fun ix => Spec.mustRefuse nextF c to ix removed) then m
             else "spec:refused-although-every-newly-owned-shard-has-a-surviving-owner")
          else m
        (s, ans2 m sp "job")
      | .ok j =>
        let m := showJob j
        let sp := if s.indexes.any (fun ix => Spec.mustRefuse nextF c to ix removed) then "err:no-source"
          else if jobOK c to s.indexes removed j then m
          else "spec:job-does-not-cover-exactly-the-newly-owned-frags-from-surviving-owners"
        (s, ans2 m sp "job")
  | ["clean", self] =>
    if !assumeAll [c.nodes.length] s.indexes c.partitionN then (s, ans "assume-violated:next") else
    let self := toId self
    let idxs' := s.indexes.map (fun ix => { ix with locals := cleanIndex nextF c self ix })
    let render := fun (get : Index → List Frag) =>
      let all := s.indexes.flatMap (fun ix => (get ix).map (fun f => (ix.name, f)))
      if all.isEmpty then "-" else " ".intercalate ((sortBy tagLt all).map (fun t => ofId t.1 ++ "/" ++ showFrag t.2))
    ({ s with indexes := idxs' },
      ans2 (render (cleanIndex nextF c self)) (render (Spec.cleaned nextF c self)) "clean")
  | ["follower", self, coord, st] =>
    match parseState st with
    | some st => ({ s with follower := true, self := toId self, coordinator := toId coord, state := st }, ans "ok")
    | none => bad
  | ["status", st, ids, coord] =>
    match parseState st, s.follower with
    | some st, true =>
      let f : Follower := { cluster := c, state := s.state, self := s.self, coordinator := s.coordinator,
                            indexes := s.indexes }
      let cs : Status := { state := st, nodes := csvIds ids, coordinator := toId coord }
      let f' := mergeClusterStatus nextF f cs
      -- every node count the merge can pass through hashes the available shards
      if !assumeAll [c.nodes.length, f'.cluster.nodes.length, (csvIds ids).length, (csvIds ids).length + 1]
          s.indexes c.partitionN then (s, ans "assume-violated:next") else
      let render := fun (st : CState) (nodes : List Id) (fr : List (List Nat × List Frag)) =>
        let all := fr.flatMap (fun e => e.2.map (fun x => (e.1, x)))
        showState st ++ " " ++ showIds nodes ++ " | " ++
          (if all.isEmpty then "-" else " ".intercalate ((sortBy tagLt all).map (fun t => ofId t.1 ++ "/" ++ showFrag t.2)))
      let isCoord := s.coordinator = s.self
      let specNodes := if isCoord then c.nodes else
        PV.C20.Spec.members ((if c.nodes.contains s.self then [s.self] else []).foldl PV.C20.Spec.join
          (cs.nodes.foldl PV.C20.Spec.join []))
      let specState := if isCoord then s.state else st
      ({ s with cluster := f'.cluster, indexes := f'.indexes, state := f'.state, coordinator := f'.coordinator },
        ans2 (render f'.state f'.cluster.nodes (f'.indexes.map (fun ix => (ix.name, ix.locals))))
             (render specState specNodes (Spec.followerFrags nextF f cs)) "status")
    | _, _ => bad
  | _ => bad

end PV.C21.Drv

def main : IO Unit := PV.Proto.run ({} : PV.C21.Drv.St) PV.C21.Drv.step
