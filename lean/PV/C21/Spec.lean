/-
C21 specification layer (executable, core only).

For a cluster (member set + replica count), a schema and the shards with data, and one node added
or removed:
  * `newlyOwned n`   : the (field, view, shard) triples node `n` owns after but not before;
  * `permitted s`    : the nodes that owned shard `s` before and are not the node being removed;
  * the plan must name, for every node of the new membership and every newly owned triple, a source
    from `permitted`; it may be refused only when some newly owned triple has no permitted node;
  * cleanup keeps exactly the local fragments whose shard the node owns under the final membership.
Ownership is the order-free owner list of PV.C20.Spec.
-/
import PV.C20.Spec
import PV.C21.Model
namespace PV.C21.Spec
open PV.C20 PV.C21

def owners (next : Nat → BitVec 64 → Nat) (c : Cluster) (index : List Nat) (s : Nat) : List Id :=
  (PV.C20.Spec.shardOwners next c.nodes c.replicaN c.partitionN index s).getD []

/-- the triples `n` owns under `to` but not under `c` -/
def newlyOwned (next : Nat → BitVec 64 → Nat) (c to : Cluster) (idx : Index) (n : Id) : List Frag :=
  idx.avail.flatMap (fun s =>
    if (owners next to idx.name s).contains n && !(owners next c idx.name s).contains n
    then combosFor idx.schema s else [])

/-- previous owners of the shard other than the node being removed -/
def permitted (next : Nat → BitVec 64 → Nat) (c : Cluster) (idx : Index) (removed : Option Id) (s : Nat) : List Id :=
  (owners next c idx.name s).filter (fun n => some n ≠ removed)

/-- must the plan be refused? -/
def mustRefuse (next : Nat → BitVec 64 → Nat) (c to : Cluster) (idx : Index) (removed : Option Id) : Bool :=
  to.nodes.any (fun n => (newlyOwned next c to idx n).any (fun f => (permitted next c idx removed f.shard).isEmpty))

def sameFrags (a b : List Frag) : Bool :=
  a.all (b.contains ·) && b.all (a.contains ·) && a.length = b.length

/-- Does a plan with open choices (node -> frag -> nodes the code may name) meet the property? -/
def planOK (next : Nat → BitVec 64 → Nat) (c to : Cluster) (idx : Index) (removed : Option Id)
    (plan : List (Id × List (Frag × List Id))) : Bool :=
  to.nodes.all (fun n =>
    match plan.find? (fun e => e.1 = n) with
    | none => false
    | some e =>
      sameFrags (e.2.map (·.1)) (newlyOwned next c to idx n) &&
      e.2.all (fun fc => !fc.2.isEmpty && fc.2.all (fun src => (permitted next c idx removed fc.1.shard).contains src)))

/-- the fragments cleanup must leave in place -/
def cleaned (next : Nat → BitVec 64 → Nat) (c : Cluster) (self : Id) (idx : Index) : List Frag :=
  idx.locals.filter (fun f => (owners next c idx.name f.shard).contains self)

/-- What a follower must hold after it has processed a ClusterStatus: when the status ends a
resize (RESIZING -> NORMAL/DEGRADED on a node that is not the coordinator) exactly the local
fragments of shards it owns under the membership the status announces (the node never forgets
itself); otherwise everything it held. -/
def followerFrags (next : Nat → BitVec 64 → Nat) (f : Follower) (cs : Status) : List (List Nat × List Frag) :=
  let ends := f.coordinator ≠ f.self ∧ f.state = .resizing ∧ (cs.state = .normal ∨ cs.state = .degraded)
  let final : Cluster := { f.cluster with
    nodes := if f.cluster.nodes.contains f.self && !cs.nodes.contains f.self then f.self :: cs.nodes else cs.nodes }
  f.indexes.map (fun ix => (ix.name, if ends then cleaned next final f.self ix else ix.locals))

end PV.C21.Spec
