/-
Helper lemmas for C21 that speak the vocabulary of Defs.lean (core Lean only).
-/
import PV.C21.Defs
namespace PV.C21
open List PV.C20

/-- `cluster.diff` recognises the change. -/
theorem diff_target {c : Cluster} {a : Action} {id : Id} (hv : ValidChange c a id) :
    diff c.nodes (targetCluster c a id).nodes = .ok (a, id) := by
  cases a with
  | add => exact diff_add (hv.2.1 rfl)
  | remove => exact diff_remove hv.1 (hv.2.2 rfl)

/-- owners of the source cluster are previous owners -/
theorem srcCluster_subset {next : Nat → BitVec 64 → Nat} (hnext : ∀ b k, b < next b k) (c : Cluster)
    (a : Action) (index : List Nat) (s : Nat) :
    ∀ x ∈ ownersOf next (srcCluster c a) index s, x ∈ ownersOf next c index s := by
  unfold srcCluster
  split
  · exact owners_replica1_subset hnext c index s
  · exact fun x h => h

theorem src_valid {next : Nat → BitVec 64 → Nat} (hnext : ∀ b k, b < next b k)
    {perm : FragsByHost → FragsByHost} (hperm : ∀ l, (perm l).Perm l) {c : Cluster} {idx : Index}
    {a : Action} {id : Id} {f : Frag} {src : Id}
    (h : srcLookup (srcEntries perm (fragsByHost next (srcCluster c a) idx) a id) f = some src) :
    SurvivingOwner next c idx a id f.shard src := by
  obtain ⟨fs, he, hf⟩ := srcLookup_some h
  obtain ⟨hin, hnot⟩ := (mem_srcEntries hperm).mp he
  have hp : (src, f) ∈ pairsOf (fragsByHost next (srcCluster c a) idx) := mem_pairsOf.mpr ⟨fs, hin, hf⟩
  have := (mem_pairsOf_fragsByHost.mp hp).2.1
  exact ⟨srcCluster_subset hnext c a idx.name f.shard src this, hnot⟩

/-- no entry of the inverse map holds `f` exactly when no previous owner survives -/
theorem no_entry_iff {next : Nat → BitVec 64 → Nat} (hnext : ∀ b k, b < next b k)
    {perm : FragsByHost → FragsByHost} (hperm : ∀ l, (perm l).Perm l) {c : Cluster} {idx : Index}
    {a : Action} {id : Id} {f : Frag} (hs : f.shard ∈ idx.avail) (hf : f ∈ combosFor idx.schema f.shard) :
    srcLookup (srcEntries perm (fragsByHost next (srcCluster c a) idx) a id) f = none ↔
      ∀ src, ¬ SurvivingOwner next c idx a id f.shard src := by
  rw [srcLookup_none]
  constructor
  · intro h src ⟨hown, hnot⟩
    -- some owner of the source cluster survives as well
    have hsrc : ∃ s', s' ∈ ownersOf next (srcCluster c a) idx.name f.shard ∧ ¬ (a = .remove ∧ s' = id) := by
      unfold srcCluster
      split
      · rename_i hc
        cases hl : ownersOf next { c with replicaN := 1 } idx.name f.shard with
        | nil =>
          have := (owners_replica1_nil_iff hnext c idx.name f.shard).mp hl
          rw [this] at hown; cases hown
        | cons x xs => exact ⟨x, by simp, fun hh => by rw [hc.1] at hh; cases hh.1⟩
      · exact ⟨src, hown, hnot⟩
    obtain ⟨s', hs', hn'⟩ := hsrc
    have hp : (s', f) ∈ pairsOf (fragsByHost next (srcCluster c a) idx) :=
      mem_pairsOf_fragsByHost.mpr ⟨hs, hs', hf⟩
    obtain ⟨fs, hin, hfs⟩ := mem_pairsOf.mp hp
    exact h (s', fs) ((mem_srcEntries hperm).mpr ⟨hin, hn'⟩) hfs
  · intro h e he hfe
    obtain ⟨hin, hnot⟩ := (mem_srcEntries hperm).mp he
    have hp : (e.1, f) ∈ pairsOf (fragsByHost next (srcCluster c a) idx) := mem_pairsOf.mpr ⟨e.2, hin, hfe⟩
    have := (mem_pairsOf_fragsByHost.mp hp).2.1
    exact h e.1 ⟨srcCluster_subset hnext c a idx.name f.shard e.1 this, hnot⟩

/-- With distinct field names and distinct views per field, the frags a node must fetch are exactly
its newly owned ones (the multiset difference of `fragsDiff` is a set difference here). -/
theorem nodeDiff_iff {next : Nat → BitVec 64 → Nat} (hnext : ∀ b k, b < next b k) {c to : Cluster}
    (hnd : to.nodes.Nodup) {idx : Index} (hsch : SchemaOK idx.schema) {n : Id} {f : Frag} :
    f ∈ nodeDiff (fragsByHost next c idx) (fragsByHost next to idx) n ↔ NewlyOwned next c to idx n f := by
  rw [nodeDiff_eq]
  constructor
  · intro h
    have hm := mem_fragsOf_fragsByHost.mp (mem_of_mem_fragsDiff h)
    have hnot := not_mem_of_mem_fragsDiff (fragsOf_fragsByHost_nodup hnext hnd hsch n) h
    exact ⟨hm.1, hm.2.2, hm.2.1, fun hb => hnot (mem_fragsOf_fragsByHost.mpr ⟨hm.1, hb, hm.2.2⟩)⟩
  · rintro ⟨hs, hf, hafter, hbefore⟩
    exact mem_fragsDiff_of_not_mem (mem_fragsOf_fragsByHost.mpr ⟨hs, hafter, hf⟩)
      (fun hx => hbefore (mem_fragsOf_fragsByHost.mp hx).2.1)

theorem target_sorted {c : Cluster} {a : Action} {id : Id} (hv : ValidChange c a id) :
    Sorted (targetCluster c a id).nodes := by
  cases a with
  | add => exact addNode_sorted hv.1
  | remove => exact removeNode_sorted hv.1

theorem lookup_none_iff_cands_nil {perm : FragsByHost → FragsByHost} (hperm : ∀ l, (perm l).Perm l)
    {srcFrags : FragsByHost} {a : Action} {d : Id} {f : Frag} :
    srcLookup (srcEntries perm srcFrags a d) f = none ↔
      srcCandidates (srcEntries (fun t => t) srcFrags a d) f = [] := by
  rw [← srcCandidates_nil, List.eq_nil_iff_forall_not_mem, List.eq_nil_iff_forall_not_mem]
  constructor
  · intro h n hn; exact h n ((mem_srcCandidates_perm hperm).mpr hn)
  · intro h n hn; exact h n ((mem_srcCandidates_perm hperm).mp hn)

theorem find?_map_key {β : Type} (g : Id → β) (n : Id) : ∀ (l : List Id),
    (l.map (fun k => (k, g k))).find? (fun e => e.1 = n) = if n ∈ l then some (n, g n) else none
  | [] => by simp
  | k :: ks => by
    simp only [map_cons, find?_cons, mem_cons]
    by_cases h : k = n
    · subst h; simp
    · have : ¬ n = k := fun e => h e.symm
      simp [h, this, find?_map_key g n ks]

/-! ### the follower's node-list merge -/

theorem foldl_addNode_sorted : ∀ (l : List Id) {nodes : List Id}, Sorted nodes → Sorted (l.foldl addNode nodes)
  | [], _, h => h
  | _ :: xs, _, h => foldl_addNode_sorted xs (addNode_sorted h)

theorem mem_foldl_addNode {x : Id} : ∀ (l : List Id) {nodes : List Id},
    x ∈ l.foldl addNode nodes ↔ x ∈ nodes ∨ x ∈ l
  | [], _ => by simp
  | y :: ys, nodes => by
    simp only [foldl_cons, mem_foldl_addNode ys, mem_addNode, mem_cons]
    constructor
    · rintro ((h | h) | h)
      · exact Or.inr (Or.inl h)
      · exact Or.inl h
      · exact Or.inr (Or.inr h)
    · rintro (h | h | h)
      · exact Or.inl (Or.inr h)
      · exact Or.inl (Or.inl h)
      · exact Or.inr h

theorem foldl_removeNode_sorted : ∀ (rs : List Id) {nodes : List Id}, Sorted nodes → Sorted (rs.foldl removeNode nodes)
  | [], _, h => h
  | _ :: xs, _, h => foldl_removeNode_sorted xs (removeNode_sorted h)

theorem mem_foldl_removeNode {x : Id} : ∀ (rs : List Id) {nodes : List Id}, Sorted nodes →
    (x ∈ rs.foldl removeNode nodes ↔ x ∈ nodes ∧ x ∉ rs)
  | [], _, _ => by simp
  | y :: ys, nodes, h => by
    simp only [foldl_cons, mem_foldl_removeNode ys (removeNode_sorted h), mem_removeNode h.nodup, mem_cons,
      not_or]
    constructor
    · rintro ⟨⟨h1, h2⟩, h3⟩; exact ⟨h1, h2, h3⟩
    · rintro ⟨h1, h2, h3⟩; exact ⟨⟨h1, h2⟩, h3⟩

theorem mergeNodes_sorted {nodes : List Id} (h : Sorted nodes) (self : Id) (official : List Id) :
    Sorted (mergeNodes nodes self official) :=
  foldl_removeNode_sorted _ (foldl_addNode_sorted official h)

/-- after the merge the node list holds the official nodes, plus this node if it was listed before -/
theorem mem_mergeNodes {nodes : List Id} (h : Sorted nodes) {self : Id} {official : List Id} {x : Id} :
    x ∈ mergeNodes nodes self official ↔ x ∈ official ∨ (x = self ∧ x ∈ nodes) := by
  unfold mergeNodes
  simp only
  rw [mem_foldl_removeNode _ (foldl_addNode_sorted official h), mem_filter, mem_foldl_addNode]
  by_cases ho : x ∈ official
  · have : containsID official x = true := containsID_iff.mpr ho
    simp [ho, this]
  · have : containsID official x = false := by
      cases hc : containsID official x with
      | false => rfl
      | true => exact absurd (containsID_iff.mp hc) ho
    by_cases hs : x = self
    · subst hs; simp [ho, or_comm]
    · simp [ho, hs, this]

/-- a follower that stays in the cluster ends up with exactly the final ring -/
theorem mergeNodes_eq_final {nodes : List Id} (h : Sorted nodes) {self : Id} {official : List Id}
    (hself : self ∈ official ∨ self ∉ nodes) :
    mergeNodes nodes self official = run (official.map Ev.join) := by
  apply sorted_unique (mergeNodes_sorted h self official) (run_sorted _)
  intro x
  rw [mem_mergeNodes h, mem_run_joins]
  constructor
  · rintro (h1 | ⟨rfl, h2⟩)
    · exact h1
    · rcases hself with h3 | h3
      · exact h3
      · exact absurd h2 h3
  · exact Or.inl

end PV.C21
