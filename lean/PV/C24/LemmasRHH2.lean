/-
C24, robin-hood table, part 2: the invariant (local form), its global consequence, and
index.idByKey as the lookup of a finite map.  Core Lean only.
-/
import PV.C24.LemmasRHH1
namespace PV.C24
open List

/-! ### shape of the table and the model's bit arithmetic -/

structure RHH.Shape (t : RHH) : Prop where
  pow2 : ∃ k, 1 ≤ k ∧ t.elems.length = 2 ^ k
  mask : t.mask = t.elems.length - 1

theorem RHH.Shape.cap_gt {t : RHH} (h : t.Shape) : 1 < t.elems.length := by
  obtain ⟨k, hk, he⟩ := h.pow2
  rw [he]
  calc 1 < 2 ^ 1 := by decide
    _ ≤ 2 ^ k := Nat.pow_le_pow_right (by decide) hk

theorem RHH.Shape.and_mask {t : RHH} (h : t.Shape) (x : Nat) : x &&& t.mask = x % t.elems.length := by
  obtain ⟨k, _, he⟩ := h.pow2
  rw [h.mask, he, Nat.and_two_pow_sub_one_eq_mod]

theorem RHH.Shape.dist_eq {t : RHH} (h : t.Shape) (hash i : Nat) :
    t.dist hash i = D t.elems.length hash i := by
  simp only [RHH.dist, D, h.and_mask]

theorem RHH.Shape.next_eq {t : RHH} (h : t.Shape) (pos : Nat) :
    (pos + 1) &&& t.mask = nxt t.elems.length pos := by
  simp only [nxt, h.and_mask]

theorem RHH.Shape.home_eq {t : RHH} (h : t.Shape) (hash : Nat) :
    hash &&& t.mask = posAt t.elems.length hash 0 := by
  rw [h.and_mask, posAt_zero h.cap_gt]

/-- slot `p` holds the element `e` -/
def Occ (t : RHH) (p : Nat) (e : Elem) : Prop := t.elems[p]? = some e ∧ e.hash ≠ 0

/-- slot `p` is free -/
def Free (t : RHH) (p : Nat) : Prop := ∃ e, t.elems[p]? = some e ∧ e.hash = 0

theorem Occ.lt {t : RHH} {p : Nat} {e : Elem} (h : Occ t p e) : p < t.elems.length := by
  have := h.1
  by_cases c : p < t.elems.length
  · exact c
  · rw [getElem?_eq_none (by omega)] at this; simp at this

theorem occ_or_free (t : RHH) {p : Nat} (hp : p < t.elems.length) : (∃ e, Occ t p e) ∨ Free t p := by
  have : t.elems[p]? = some t.elems[p] := getElem?_eq_getElem hp
  by_cases c : t.elems[p].hash = 0
  · exact Or.inr ⟨_, this, c⟩
  · exact Or.inl ⟨_, this, c⟩

theorem Occ.unique {t : RHH} {p : Nat} {e f : Elem} (h1 : Occ t p e) (h2 : Occ t p f) : e = f := by
  have := h1.1.symm.trans h2.1; simpa using this

theorem Occ.not_free {t : RHH} {p : Nat} {e : Elem} (h1 : Occ t p e) (h2 : Free t p) : False := by
  obtain ⟨f, hf, hz⟩ := h2
  have := h1.1.symm.trans hf
  simp only [Option.some.injEq] at this
  exact h1.2 (this ▸ hz)

/-- the table maps `key` to `id` -/
def Maps (ka : KeyAt) (t : RHH) (key : Bytes) (id : Nat) : Prop :=
  ∃ p e, Occ t p e ∧ ka e.offset = .ok key ∧ e.id = id

/-- The robin-hood invariant, in its local form: an element that is not in its home slot has an
occupied predecessor slot whose element is at most one step closer to its own home. -/
structure RHH.Inv (H : Bytes → Nat) (ka : KeyAt) (t : RHH) : Prop where
  shape : t.Shape
  keyed : ∀ p e, Occ t p e → ∃ k, ka e.offset = .ok k ∧ e.hash = hashKey H k
  uniq : ∀ p q e f k, Occ t p e → Occ t q f → ka e.offset = .ok k → ka f.offset = .ok k → p = q
  loc : ∀ p e, Occ t p e → 0 < D t.elems.length e.hash p →
    ∃ f, Occ t (prv t.elems.length p) f ∧
      D t.elems.length e.hash p ≤ D t.elems.length f.hash (prv t.elems.length p) + 1

/-- global form: every slot probed before reaching an element is occupied by an element at least
as far from its home -/
theorem RHH.Inv.walk {H : Bytes → Nat} {ka : KeyAt} {t : RHH} (h : t.Inv H ka) {p : Nat} {e : Elem}
    (ho : Occ t p e) : ∀ j, j ≤ D t.elems.length e.hash p →
    ∃ f, Occ t (posAt t.elems.length e.hash j) f ∧ j ≤ D t.elems.length f.hash (posAt t.elems.length e.hash j) := by
  have hc := h.shape.cap_gt
  have hp := ho.lt
  -- downward: i steps back from p
  have back : ∀ i, i ≤ D t.elems.length e.hash p →
      ∃ f, Occ t (posAt t.elems.length e.hash (D t.elems.length e.hash p - i)) f ∧
        D t.elems.length e.hash p - i ≤ D t.elems.length f.hash (posAt t.elems.length e.hash (D t.elems.length e.hash p - i)) := by
    intro i
    induction i with
    | zero =>
      intro _
      refine ⟨e, ?_, ?_⟩
      · simpa [posAt_D hc e.hash hp] using ho
      · simp [posAt_D hc e.hash hp]
    | succ i ih =>
      intro hi
      obtain ⟨f, hf, hd⟩ := ih (by omega)
      have hpos : 0 < D t.elems.length f.hash (posAt t.elems.length e.hash (D t.elems.length e.hash p - i)) := by omega
      obtain ⟨g, hg, hgd⟩ := h.loc _ f hf hpos
      have hidx : D t.elems.length e.hash p - i = (D t.elems.length e.hash p - (i + 1)) + 1 := by omega
      rw [hidx, prv_posAt hc] at hg hgd
      exact ⟨g, hg, by rw [hidx] at hd; omega⟩
  intro j hj
  have := back (D t.elems.length e.hash p - j) (by omega)
  have e1 : D t.elems.length e.hash p - (D t.elems.length e.hash p - j) = j := by omega
  rw [e1] at this
  exact this

theorem get_occ {t : RHH} {p : Nat} {e : Elem} (h : Occ t p e) : t.get p = .ok e := by
  simp [RHH.get, h.1]

theorem get_free {t : RHH} {p : Nat} (h : Free t p) : ∃ e, t.get p = .ok e ∧ e.hash = 0 := by
  obtain ⟨e, he, hz⟩ := h
  exact ⟨e, by simp [RHH.get, he], hz⟩

/-- a key that is in the table is found -/
theorem lookup_present {H : Bytes → Nat} {ka : KeyAt} {t : RHH} (h : t.Inv H ka) {p : Nat} {e : Elem}
    {key : Bytes} (ho : Occ t p e) (hk : ka e.offset = .ok key) :
    ∀ (n d fuel : Nat), d + n = D t.elems.length e.hash p → n < fuel →
    RHH.lookupLoop ka t key e.hash fuel (posAt t.elems.length e.hash d) d = .ok (some e.id) := by
  have hc := h.shape.cap_gt
  intro n
  induction n with
  | zero =>
    intro d fuel hd hf
    cases fuel with
    | zero => omega
    | succ fuel =>
      have hd' : d = D t.elems.length e.hash p := by omega
      rw [hd', posAt_D hc e.hash ho.lt]
      simp only [RHH.lookupLoop, get_occ ho, ebind_ok, ho.2, if_false, h.shape.dist_eq, Nat.lt_irrefl,
        if_true, hk]
      simp
  | succ n ih =>
    intro d fuel hd hf
    cases fuel with
    | zero => omega
    | succ fuel =>
      obtain ⟨f, hfo, hfd⟩ := h.walk ho d (by omega)
      have hne : posAt t.elems.length e.hash d ≠ p := by
        intro heq
        have := D_posAt hc e.hash (j := d) (by have := D_lt hc e.hash p; omega)
        rw [heq] at this; omega
      have hnot : ¬ d > D t.elems.length f.hash (posAt t.elems.length e.hash d) := by omega
      have hnext := ih (d + 1) fuel (by omega) (by omega)
      rw [← nxt_posAt hc] at hnext
      simp only [RHH.lookupLoop, get_occ hfo, ebind_ok, hfo.2, if_false, h.shape.dist_eq, hnot, h.shape.next_eq]
      by_cases hh : f.hash = e.hash
      · obtain ⟨kf, hkf, _⟩ := h.keyed _ f hfo
        have hkne : ¬ kf = key := by
          intro heq
          exact hne (h.uniq _ _ f e key hfo ho (heq ▸ hkf) hk)
        simp only [hh, if_true, hkf, ebind_ok, hkne, if_false]
        exact hnext
      · simp only [hh, if_false]
        exact hnext

/-- the loop never fails and only reports ids the table maps the key to -/
theorem lookup_sound {H : Bytes → Nat} {ka : KeyAt} {t : RHH} (h : t.Inv H ka) (key : Bytes) (hash : Nat) :
    ∀ (fuel pos d : Nat), pos < t.elems.length → d ≤ t.elems.length → t.elems.length + 1 ≤ fuel + d →
    ∃ r, RHH.lookupLoop ka t key hash fuel pos d = .ok r ∧ ∀ id, r = some id → Maps ka t key id := by
  have hc := h.shape.cap_gt
  intro fuel
  induction fuel with
  | zero => intro pos d _ hd hf; omega
  | succ fuel ih =>
    intro pos d hp hd hf
    rcases occ_or_free t hp with ⟨e, ho⟩ | hfree
    · simp only [RHH.lookupLoop, get_occ ho, ebind_ok, ho.2, if_false, h.shape.dist_eq, h.shape.next_eq]
      by_cases c1 : d > D t.elems.length e.hash pos
      · exact ⟨none, by simp [c1], by simp⟩
      · have hdl := D_lt hc e.hash pos
        obtain ⟨r, hr, hm⟩ := ih (nxt t.elems.length pos) (d + 1) (nxt_lt hc pos) (by omega) (by omega)
        simp only [c1, if_false]
        by_cases c2 : e.hash = hash
        · obtain ⟨k, hk, _⟩ := h.keyed _ e ho
          simp only [c2, if_true, hk, ebind_ok]
          by_cases c3 : k = key
          · refine ⟨some e.id, by simp [c3], ?_⟩
            intro id hid
            simp only [Option.some.injEq] at hid
            exact ⟨pos, e, ho, c3 ▸ hk, hid⟩
          · exact ⟨r, by simp only [c3, if_false]; exact hr, hm⟩
        · exact ⟨r, by simp only [c2, if_false]; exact hr, hm⟩
    · obtain ⟨e, he, hz⟩ := get_free hfree
      exact ⟨none, by simp [RHH.lookupLoop, he, hz], by simp⟩

/-- index.idByKey on a table that satisfies the invariant is the lookup of a finite map -/
theorem idByKey_spec {H : Bytes → Nat} {ka : KeyAt} {t : RHH} (h : t.Inv H ka) (key : Bytes) :
    (∃ id, Maps ka t key id ∧ RHH.idByKey H ka t key = .ok (some id)) ∨
    ((∀ id, ¬ Maps ka t key id) ∧ RHH.idByKey H ka t key = .ok none) := by
  have hc := h.shape.cap_gt
  unfold RHH.idByKey
  simp only [h.shape.home_eq]
  by_cases hex : ∃ id, Maps ka t key id
  · obtain ⟨id, p, e, ho, hk, hid⟩ := hex
    left
    refine ⟨id, ⟨p, e, ho, hk, hid⟩, ?_⟩
    obtain ⟨k', hk', hh⟩ := h.keyed _ e ho
    have : k' = key := by rw [hk] at hk'; simpa using hk'.symm
    subst this
    rw [← hh, ← hid]
    exact lookup_present h ho hk (D t.elems.length e.hash p) 0 _ (by simp) (by have := D_lt hc e.hash p; omega)
  · right
    have hno : ∀ id, ¬ Maps ka t key id := fun id hm => hex ⟨id, hm⟩
    refine ⟨hno, ?_⟩
    obtain ⟨r, hr, hm⟩ := lookup_sound h key (hashKey H key) (t.elems.length + 1)
      (posAt t.elems.length (hashKey H key) 0) 0 (posAt_lt hc _ _) (by omega) (by omega)
    rw [hr]
    cases r with
    | none => rfl
    | some id => exact absurd (hm id rfl) (hno id)

end PV.C24
