/-
C24, robin-hood table, part 7: growth, index.insert, and the proof that the table of the code
satisfies the finite-map laws (`rhhLaws`) for every hash function.  Core Lean only.
-/
import PV.C24.LemmasRHH6
namespace PV.C24
open List

/-! ### a freshly allocated table -/

theorem alloc_no_occ (t : RHH) (c : Nat) (p : Nat) (e : Elem) : ¬ Occ (t.alloc c) p e := by
  rintro ⟨he, hne⟩
  simp only [RHH.alloc, getElem?_replicate] at he
  split at he
  · simp only [Option.some.injEq] at he
    exact hne (he ▸ rfl)
  · simp at he

theorem alloc_inv (H : Bytes → Nat) (ka : KeyAt) (t : RHH) (k : Nat) (hk : 1 ≤ k) :
    (t.alloc (2 ^ k)).Inv H ka ∧ countNE (t.alloc (2 ^ k)) = 0 ∧
      (∀ key id, ¬ Maps ka (t.alloc (2 ^ k)) key id) := by
  refine ⟨⟨⟨⟨k, hk, by simp [RHH.alloc]⟩, by simp [RHH.alloc]⟩, ?_, ?_, ?_⟩, ?_, ?_⟩
  · intro p e ho; exact absurd ho (alloc_no_occ t _ p e)
  · intro p q e f _ ho; exact absurd ho (alloc_no_occ t _ p e)
  · intro p e ho; exact absurd ho (alloc_no_occ t _ p e)
  · simp [countNE, RHH.alloc, Elem.none, countP_replicate]
  · rintro key id ⟨p, e, ho, _⟩; exact alloc_no_occ t _ p e ho

theorem alloc_fields (t : RHH) (c : Nat) : (t.alloc c).n = t.n ∧
    (t.alloc c).threshold = c * defaultLoadFactor / 100 ∧ (t.alloc c).elems.length = c := by
  simp [RHH.alloc]

theorem new_eq : RHH.new = (⟨[], 0, 0, 0⟩ : RHH).alloc (2 ^ 8) := by
  unfold RHH.new
  have : (256 : Nat) = 2 ^ 8 := by decide
  rw [this]

/-- the invariant only looks at the slots and the mask -/
theorem RHH.Inv.congr {H : Bytes → Nat} {ka : KeyAt} {t t' : RHH} (h : t.Inv H ka)
    (he : t'.elems = t.elems) (hm : t'.mask = t.mask) : t'.Inv H ka := by
  have hocc : ∀ p e, Occ t' p e ↔ Occ t p e := fun p e => by simp [Occ, he]
  refine ⟨⟨by rw [he]; exact h.shape.pow2, by rw [hm, he]; exact h.shape.mask⟩, ?_, ?_, ?_⟩
  · intro p e ho; exact h.keyed p e ((hocc p e).mp ho)
  · intro p q e f k ho1 ho2; exact h.uniq p q e f k ((hocc p e).mp ho1) ((hocc q f).mp ho2)
  · intro p e ho hd
    rw [he] at hd ⊢
    obtain ⟨f, hf, hfd⟩ := h.loc p e ((hocc p e).mp ho) hd
    exact ⟨f, (hocc _ f).mpr hf, hfd⟩

theorem maps_congr {ka : KeyAt} {t t' : RHH} (he : t'.elems = t.elems) (key : Bytes) (id : Nat) :
    Maps ka t' key id ↔ Maps ka t key id := by
  simp [Maps, Occ, he]

/-! ### index.insert (table part) -/

/-- what the finite-map laws call a valid table -/
structure RValid (H : Bytes → Nat) (ka : KeyAt) (t : RHH) : Prop where
  inv : t.Inv H ka
  n : t.n = countNE t
  room : t.n ≤ t.threshold
  thr : t.threshold = t.elems.length * defaultLoadFactor / 100

theorem maps_iff_mem {ka : KeyAt} (t : RHH) (key : Bytes) (id : Nat) :
    Maps ka t key id ↔ ∃ e ∈ t.elems, e.hash ≠ 0 ∧ ka e.offset = .ok key ∧ e.id = id := by
  constructor
  · rintro ⟨p, e, ⟨he, hne⟩, hk, hid⟩
    exact ⟨e, mem_of_getElem? he, hne, hk, hid⟩
  · rintro ⟨e, he, hne, hk, hid⟩
    obtain ⟨p, hp, hpe⟩ := getElem_of_mem he
    exact ⟨p, e, ⟨by rw [getElem?_eq_getElem hp, hpe], hne⟩, hk, hid⟩

/-- the growth step keeps the contents and leaves room for one more element -/
theorem grow_spec {H : Bytes → Nat} {ka : KeyAt} {t : RHH} (h : RValid H ka t) :
    ∃ t2, RHH.grow H ka { t with n := t.n + 1 } = .ok t2 ∧ t2.Inv H ka ∧
      (∀ key id', Maps ka t2 key id' ↔ Maps ka t key id') ∧ countNE t2 = countNE t ∧
      t2.n = t.n + 1 ∧ t2.n ≤ t2.threshold ∧ t2.threshold = t2.elems.length * defaultLoadFactor / 100 ∧
      countNE t2 < t2.elems.length := by
  have hc := h.inv.shape.cap_gt
  obtain ⟨k, hk1, hcap⟩ := h.inv.shape.pow2
  have hcnt_le : countNE t ≤ t.elems.length := countP_le_length
  have hroom := h.room
  have hthr := h.thr
  have hn := h.n
  simp only [defaultLoadFactor] at *
  unfold RHH.grow
  by_cases hg : t.n + 1 > t.threshold
  · have hg' : ({ t with n := t.n + 1 } : RHH).n > ({ t with n := t.n + 1 } : RHH).threshold := hg
    simp only [hg', if_true]
    have h2 : t.elems.length * 2 = 2 ^ (k + 1) := by rw [hcap, Nat.pow_succ]
    show ∃ t2, RHH.reinsert H ka t.elems (({ t with n := t.n + 1 } : RHH).alloc (t.elems.length * 2)) = .ok t2 ∧ _
    rw [h2]
    obtain ⟨ainv, acnt, amaps⟩ := alloc_inv H ka ({ t with n := t.n + 1 } : RHH) (k + 1) (by omega)
    have alen : (({ t with n := t.n + 1 } : RHH).alloc (2 ^ (k + 1))).elems.length = 2 ^ (k + 1) := by
      simp [RHH.alloc]
    obtain ⟨t2, hr, i1, i2, i3, i4, i5, i6, i7⟩ := reinsert_spec (H := H) (ka := ka) t.elems _ ainv
      (fun e he hne => by
        obtain ⟨p, hp, hpe⟩ := getElem_of_mem he
        obtain ⟨kk, hkk, _⟩ := h.inv.keyed p e ⟨by rw [getElem?_eq_getElem hp, hpe], hne⟩
        exact ⟨kk, hkk⟩)
      (by
        rw [pairwise_iff_getElem]
        intro i j hi hj hij hne1 hne2 kk hk1' hk2'
        have := h.inv.uniq i j _ _ kk ⟨getElem?_eq_getElem hi, hne1⟩ ⟨getElem?_eq_getElem hj, hne2⟩ hk1' hk2'
        omega)
      (fun e _ _ kk _ id' hm => amaps kk id' hm)
      (by rw [acnt, alen, ← h2]; have : t.elems.countP NE ≤ t.elems.length := countP_le_length; omega)
    refine ⟨t2, hr, i1, ?_, ?_, ?_, ?_, ?_, ?_⟩
    · intro key id'
      rw [i6]
      constructor
      · rintro (hm | hm)
        · exact absurd hm (amaps key id')
        · exact (maps_iff_mem t key id').mpr hm
      · intro hm; exact Or.inr ((maps_iff_mem t key id').mp hm)
    · rw [i7, acnt, countNE_eq]; omega
    · rw [i4]; rfl
    · rw [i4, i5]
      show t.n + 1 ≤ 2 ^ (k + 1) * 90 / 100
      rw [← h2]; omega
    · rw [i5, i2, alen]; simp [RHH.alloc, defaultLoadFactor]
    · rw [i7, acnt, i2, alen, ← h2, ← countNE_eq]; omega
  · have hg' : ¬ ({ t with n := t.n + 1 } : RHH).n > ({ t with n := t.n + 1 } : RHH).threshold := hg
    simp only [hg', if_false]
    refine ⟨_, rfl, h.inv.congr rfl rfl, fun key id' => maps_congr rfl key id', rfl, rfl, ?_, hthr, ?_⟩
    · show t.n + 1 ≤ t.threshold; omega
    · show countNE t < t.elems.length; omega

theorem insert_spec {H : Bytes → Nat} {ka : KeyAt} {t : RHH} (h : RValid H ka t) (off id : Nat)
    (K : Bytes) (hk : ka off = .ok K) :
    ∃ t', RHH.insert H ka t off id = .ok t' ∧ RValid H ka t' ∧
      (∀ key id', Maps ka t' key id' ↔ (key = K ∧ id' = id) ∨ (Maps ka t key id' ∧ key ≠ K)) := by
  obtain ⟨t2, hst, hinv2, hmaps2, hcnt2, hn2, hroom2, hthr2, hlt2⟩ := grow_spec h
  obtain ⟨t3, ow, hins, hinv3, hl3, hm3, hn3, hth3, hmaps3, hcnt3⟩ :=
    insertIDbyOffset_spec hinv2 hlt2 off id K hk
  have hn := h.n
  unfold RHH.insert
  simp only [hst, ebind_ok, hins, epure]
  refine ⟨_, rfl, ?_, ?_⟩
  · cases ow with
    | true =>
      simp only [if_true, Nat.add_zero] at hcnt3 ⊢
      refine ⟨hinv3.congr rfl rfl, ?_, ?_, ?_⟩
      · show t3.n - 1 = countNE t3
        rw [hn3, hn2, hcnt3, hcnt2, hn]; omega
      · show t3.n - 1 ≤ t3.threshold
        rw [hn3, hth3]; omega
      · show t3.threshold = t3.elems.length * defaultLoadFactor / 100
        rw [hth3, hl3]; exact hthr2
    | false =>
      simp only [Bool.false_eq_true, if_false] at hcnt3 ⊢
      refine ⟨hinv3, ?_, ?_, ?_⟩
      · rw [hn3, hn2, hcnt3, hcnt2, hn]
      · rw [hn3, hth3]; exact hroom2
      · rw [hth3, hl3]; exact hthr2
  · intro key id'
    have : Maps ka (if ow = true then ({ t3 with n := t3.n - 1 } : RHH) else t3) key id' ↔ Maps ka t3 key id' := by
      cases ow <;> exact Iff.rfl
    rw [this, hmaps3, hmaps2]

/-! ### the robin-hood table satisfies the finite-map laws -/

theorem rvalid_new (H : Bytes → Nat) (ka : KeyAt) : RValid H ka RHH.new := by
  obtain ⟨ainv, acnt, _⟩ := alloc_inv H ka ⟨[], 0, 0, 0⟩ 8 (by omega)
  rw [new_eq]
  obtain ⟨f1, f2, f3⟩ := alloc_fields ⟨[], 0, 0, 0⟩ (2 ^ 8)
  exact ⟨ainv, by rw [acnt, f1], by rw [f1]; exact Nat.zero_le _, by rw [f2, f3]⟩

theorem lookup_of_maps {H : Bytes → Nat} {ka : KeyAt} {t : RHH} (h : t.Inv H ka) (key : Bytes) :
    (∀ id, RHH.idByKey H ka t key = .ok (some id) ↔ Maps ka t key id) ∧
    (RHH.idByKey H ka t key = .ok none ↔ ∀ id, ¬ Maps ka t key id) ∧
    ∃ r, RHH.idByKey H ka t key = .ok r := by
  rcases idByKey_spec h key with ⟨id, hm, hl⟩ | ⟨hno, hl⟩
  · refine ⟨fun id' => ?_, ?_, ⟨_, hl⟩⟩
    · rw [hl]
      constructor
      · intro he; simp only [Except.ok.injEq, Option.some.injEq] at he; exact he ▸ hm
      · intro hm'; rw [h.maps_fun hm hm']
    · rw [hl]
      constructor
      · intro he; simp at he
      · intro hno; exact absurd hm (hno id)
  · refine ⟨fun id' => ?_, ?_, ⟨_, hl⟩⟩
    · rw [hl]
      constructor
      · intro he; simp at he
      · intro hm'; exact absurd hm' (hno id')
    · rw [hl]; simp [hno]

theorem lookup_new (H : Bytes → Nat) (ka : KeyAt) (k : Bytes) : RHH.idByKey H ka RHH.new k = .ok none := by
  obtain ⟨ainv, _, amaps⟩ := alloc_inv H ka ⟨[], 0, 0, 0⟩ 8 (by omega)
  obtain ⟨_, l2, _⟩ := lookup_of_maps ainv k
  rw [new_eq]
  exact l2.mpr (fun id hm => amaps k id hm)

def rhhLaws (H : Bytes → Nat) : TableLaws (rhh H) where
  Valid := RValid H
  valid_empty := fun ka => by
    have := rvalid_new H ka
    simpa only [rhh] using this
  lookup_empty := fun ka k => by
    have := lookup_new H ka k
    simpa only [rhh] using this
  lookup_ok := fun ka t k hv => (lookup_of_maps hv.inv k).2.2
  insert_ok := by
    intro ka t off id k hv hk
    obtain ⟨t', hins, hv', hmaps⟩ := insert_spec hv off id k hk
    refine ⟨t', hins, hv', fun k' => ?_⟩
    obtain ⟨a1, a2, r, hr⟩ := lookup_of_maps hv.inv k'
    obtain ⟨b1, b2, _⟩ := lookup_of_maps hv'.inv k'
    by_cases hkk : k' = k
    · subst hkk
      simp only [if_true]
      exact (b1 id).mpr ((hmaps k' id).mpr (Or.inl ⟨rfl, rfl⟩))
    · simp only [hkk, if_false]
      show RHH.idByKey H ka t' k' = RHH.idByKey H ka t k'
      rw [hr]
      cases r with
      | none =>
        refine b2.mpr (fun id' hm => ?_)
        rcases (hmaps k' id').mp hm with ⟨heq, _⟩ | ⟨hm', _⟩
        · exact hkk heq
        · exact (a2.mp hr) id' hm'
      | some id' => exact (b1 id').mpr ((hmaps k' id').mpr (Or.inr ⟨(a1 id').mp hr, hkk⟩))
  mono := by
    intro ka ka' t hle hv
    have hinv' : t.Inv H ka' := by
      refine ⟨hv.inv.shape, ?_, ?_, hv.inv.loc⟩
      · intro p e ho
        obtain ⟨k, hk, hh⟩ := hv.inv.keyed p e ho
        exact ⟨k, hle _ _ hk, hh⟩
      · intro p q e f k ho1 ho2 hk1 hk2
        obtain ⟨ke, hke, _⟩ := hv.inv.keyed p e ho1
        obtain ⟨kf, hkf, _⟩ := hv.inv.keyed q f ho2
        have e1 : ke = k := by have := hle _ _ hke; rw [hk1] at this; simpa using this.symm
        have e2 : kf = k := by have := hle _ _ hkf; rw [hk2] at this; simpa using this.symm
        exact hv.inv.uniq p q e f k ho1 ho2 (e1 ▸ hke) (e2 ▸ hkf)
    refine ⟨⟨hinv', hv.n, hv.room, hv.thr⟩, fun k => ?_⟩
    have hmaps : ∀ id, Maps ka' t k id ↔ Maps ka t k id := by
      intro id
      constructor
      · rintro ⟨p, e, ho, hk, hid⟩
        obtain ⟨ke, hke, _⟩ := hv.inv.keyed p e ho
        have : ke = k := by have := hle _ _ hke; rw [hk] at this; simpa using this.symm
        exact ⟨p, e, ho, this ▸ hke, hid⟩
      · rintro ⟨p, e, ho, hk, hid⟩
        exact ⟨p, e, ho, hle _ _ hk, hid⟩
    obtain ⟨a1, a2, r, hr⟩ := lookup_of_maps hv.inv k
    obtain ⟨b1, b2, _⟩ := lookup_of_maps hinv' k
    show RHH.idByKey H ka' t k = RHH.idByKey H ka t k
    rw [hr]
    cases r with
    | none => exact b2.mpr (fun id hm => (a2.mp hr) id ((hmaps id).mp hm))
    | some id => exact (b1 id).mpr ((hmaps id).mpr ((a1 id).mp hr))

end PV.C24
