/-
pm_c24: model driver for C24.  Two stores per case: store 0 is the primary (writable), store 1 a
read-only replica fed from store 0 by `repl`.

Tokens
  key    x<hex> (raw bytes, `x` = empty key) | k<i> (ASCII "k"+decimal) | k<a>-<b> (range) |
         L<n>c<b> (n bytes of value b)
  keys   comma separated key tokens, `_` = no keys
  ns     c:<key> (columns of index) | r:<key>:<key> (rows of index, field)
Ops
  tr <S> <ns> <keys>          translate a batch              -> ids csv | ro:ids csv (ErrTranslateStoreReadOnly)
  rev <S> <ns> <id>           id -> key                      -> x<hex>
  restart <S>                 close + open (replay the file) -> n=<size>
  dump <S> <ns>               index internals                -> seq= n= cap= tbl=pos:id:off,.. rev=id:off,..
  file <S>                    the data file                  -> n=<size> h=<xxhash64>
  repl <cut> <sizes>          one replicate() session of store 1 from store 0; the primary's reader
                              hands out bytes up to <cut> (e<k> = end of entry k, b<n> = byte n,
                              all) in reads of the given buffer sizes (cycled)   -> n=<replica size>
  conc <ns> <keys>|<keys>|..  concurrent callers on store 0   -> seq=<highest id> ok
  chk <S> <ns> <keys>         keys must map to distinct ids in 1..seq that map back -> ok distinct=<n>
  race <c|r|f> <rounds> <keys>|<keys>|..   statistical: per round the batches are translated by
                              goroutines released together on a namespace nobody touched before
                              (c fresh index/columns, r fresh index+field/rows, f fresh field of an
                              existing index), in a store of its own; after every round the mapping
                              must be a bijection onto 1..n   -> rounds=<R> seq=<n> ok
  http <keys>                 keys [a-z0-9]+; a server translates them one Set at a time, a fresh store
                              replicates the server's log over HTTP   -> same=true <ids csv>
`#spec` carries the answer of Spec (a pure function of the list of committed entries).
-/
import PV.Common.Proto
import PV.C24.Model
import PV.C24.XXHash
import PV.C24.Spec
open PV.Proto PV.C24

def hexVal (c : Char) : Option Nat :=
  if '0' ≤ c ∧ c ≤ '9' then some (c.toNat - '0'.toNat)
  else if 'a' ≤ c ∧ c ≤ 'f' then some (c.toNat - 'a'.toNat + 10)
  else none

def parseHex : List Char → Option Bytes
  | [] => some []
  | a :: b :: rest => do
    let x ← hexVal a
    let y ← hexVal b
    let r ← parseHex rest
    pure ((x * 16 + y) :: r)
  | _ => none

def hexDigit (n : Nat) : Char := if n < 10 then Char.ofNat (n + 48) else Char.ofNat (n + 87)

def showHex (bs : Bytes) : String :=
  String.ofList (bs.flatMap (fun b => [hexDigit (b / 16 % 16), hexDigit (b % 16)]))

def asciiKey (i : Nat) : Bytes := ("k" ++ toString i).toUTF8.toList.map (·.toNat)

/-- one key token -> the keys it stands for -/
def parseKeyTok (s : String) : Option (List Bytes) :=
  match s.toList with
  | 'x' :: hs => (parseHex hs).map ([·])
  | 'k' :: rest =>
    match (String.ofList rest).splitOn "-" with
    | [a] => a.toNat?.map (fun i => [asciiKey i])
    | [a, b] => do
      let i ← a.toNat?
      let j ← b.toNat?
      pure ((List.range (j + 1 - i)).map (fun d => asciiKey (i + d)))
    | _ => none
  | 'L' :: rest =>
    match (String.ofList rest).splitOn "c" with
    | [n, b] => do
      let n ← n.toNat?
      let b ← b.toNat?
      pure [List.replicate n (b % 256)]
    | _ => none
  | _ => none

def parseKeys (s : String) : Option (List Bytes) :=
  if s = "_" then some [] else
  ((s.splitOn ",").mapM parseKeyTok).map List.flatten

def parseOneKey (s : String) : Option Bytes :=
  match parseKeyTok s with
  | some [k] => some k
  | _ => none

def parseNs (s : String) : Option NsKey :=
  match s.splitOn ":" with
  | ["c", i] => (parseOneKey i).map .col
  | ["r", i, f] => do pure (.row (← parseOneKey i) (← parseOneKey f))
  | _ => none

def showIds (ids : List Nat) : String :=
  if ids = [] then "-" else ",".intercalate (ids.map toString)

abbrev T := rhh XX.hashBytes

structure St where
  p : Store RHH := Store.empty RHH false
  r : Store RHH := Store.empty RHH true
  pl : Spec.Log := []
  rl : Spec.Log := []

def St.store (st : St) (i : Nat) : Store RHH := if i = 0 then st.p else st.r
def St.log (st : St) (i : Nat) : Spec.Log := if i = 0 then st.pl else st.rl
def St.setStore (st : St) (i : Nat) (s : Store RHH) : St := if i = 0 then { st with p := s } else { st with r := s }
def St.setLog (st : St) (i : Nat) (l : Spec.Log) : St := if i = 0 then { st with pl := l } else { st with rl := l }

def showTr (ids : List Nat) (ok : Bool) : String :=
  (if ok then "" else "ro:") ++ showIds ids

def hex64 (n : Nat) : String :=
  String.ofList ((List.range 16).map (fun i => hexDigit (n / 16 ^ (15 - i) % 16)))

def showFile (data : Bytes) : String :=
  s!"n={data.length} h={hex64 (XX.hashBytes data)}"

def dedupFirst : List (Nat × Nat) → List Nat → List (Nat × Nat)
  | [], _ => []
  | (k, v) :: rest, seen => if seen.contains k then dedupFirst rest seen else (k, v) :: dedupFirst rest (k :: seen)

def insertSorted (p : Nat × Nat) : List (Nat × Nat) → List (Nat × Nat)
  | [] => [p]
  | q :: qs => if p.1 ≤ q.1 then p :: q :: qs else q :: insertSorted p qs

def showDump (ix : Index RHH) : String :=
  let t := ix.tbl
  let cells := (List.range t.elems.length).filterMap (fun i =>
    match t.elems[i]? with
    | some e => if e.hash = 0 then none else some s!"{i}:{e.id}:{e.offset}"
    | none => none)
  let rev := (dedupFirst ix.offsetsByID []).foldr insertSorted []
  s!"seq={ix.seq} n={t.n} cap={t.elems.length} tbl={",".intercalate cells} rev={",".intercalate (rev.map (fun p => s!"{p.1}:{p.2}"))}"

/-- end offsets of the entries of a well-formed file -/
def boundaries (data : Bytes) : List Nat :=
  let rec go (fuel : Nat) (r : Bytes) (pos : Nat) : List Nat :=
    match fuel with
    | 0 => []
    | fuel + 1 =>
      match decodeEntry r with
      | none => []
      | some (_, _, r') =>
        let pos' := pos + (r.length - r'.length)
        pos' :: go fuel r' pos'
  go (data.length + 1) data 0

def parseCut (s : String) (data : Bytes) : Option Nat :=
  if s = "all" then some data.length
  else match s.toList with
    | 'e' :: ds => (String.ofList ds).toNat?.map (fun k =>
        if k = 0 then 0 else ((boundaries data)[k - 1]?).getD data.length)
    | 'b' :: ds => (String.ofList ds).toNat?
    | _ => none

def cycle (sizes : List Nat) (n : Nat) : List Nat :=
  if sizes = [] then [] else (List.range n).map (fun i => sizes[i % sizes.length]!)

/-- the check of `chk`, on any lookup functions -/
def chkWith (fwd : Bytes → Option Nat) (back : Nat → Bytes) (seq : Nat) (keys : List Bytes) : String :=
  let ids := keys.map fwd
  if ids.any (·.isNone) then "bad:missing"
  else
    let ids := ids.filterMap id
    if ids.any (fun i => i = 0 ∨ i > seq) then "bad:range"
    else if (keys.zip ids).any (fun (k, i) => back i ≠ k) then "bad:reverse"
    else
      -- equal ids only for equal keys
      let ps := keys.zip ids
      if ps.any (fun (k, i) => ps.any (fun (k', i') => i = i' ∧ k ≠ k')) then "bad:shared-id"
      else s!"ok distinct={ids.eraseDups.length}"

def modelChk (s : Store RHH) (ns : NsKey) (keys : List Bytes) : String :=
  match getNs s.nss ns with
  | none => if keys = [] then "ok distinct=0" else "bad:missing"
  | some ix =>
    let fwd := fun k => match T.lookup (lookupKey s.data) ix.tbl k with
      | .ok r => r
      | .error _ => none
    let back := fun i => match keyOf s ns i with
      | .ok k => k
      | .error _ => [255, 255, 255]
    chkWith fwd back ix.seq keys

def specChk (log : Spec.Log) (ns : NsKey) (keys : List Bytes) : String :=
  if !Spec.hasNs log ns then (if keys = [] then "ok distinct=0" else "bad:missing")
  else chkWith (Spec.idOf log ns) (Spec.keyOf log ns) (Spec.count log ns) keys

def step (st : St) (ws : List String) : St × Ans :=
  let bad := (st, ans "bad-op")
  match ws with
  | ["tr", si, nss, ks] =>
    match si.toNat?, parseNs nss, parseKeys ks with
    | some i, some ns, some keys =>
      if i > 1 then bad else
      let (log', sids, sok) := Spec.translate (st.log i) (st.store i).readOnly ns keys
      match translate T (st.store i) ns keys with
      | .ok (s', ids, ok) =>
        ((st.setStore i s').setLog i log', ans2 (showTr ids ok) (showTr sids sok) "translate")
      | .error m => (st, ans2 m (showTr sids sok) "translate")
    | _, _, _ => bad
  | ["rev", si, nss, ids] =>
    match si.toNat?, parseNs nss, ids.toNat? with
    | some i, some ns, some id =>
      if i > 1 then bad else
      let sp := "x" ++ showHex (Spec.keyOf (st.log i) ns id)
      match keyOf (st.store i) ns id with
      | .ok k => (st, ans2 ("x" ++ showHex k) sp "reverse")
      | .error m => (st, ans2 m sp "reverse")
    | _, _, _ => bad
  | ["race", kind, rounds, bs] =>
    match rounds.toNat?, (bs.splitOn "|").mapM parseKeys with
    | some r, some batches =>
      if r = 0 ∨ r ≥ 65536 ∨ batches.length > 16 ∨ (kind ≠ "c" ∧ kind ≠ "r" ∧ kind ≠ "f") then bad else
      -- every round is the same for the model: any interleaving of the phases on a fresh
      -- namespace ends with the distinct keys mapped onto 1..n (C24_bijection); one schedule is run
      let ns := if kind = "c" then NsKey.col [122] else NsKey.row [122] [103]
      let specLog := batches.foldl (fun l keys => (Spec.translate l false ns keys).1) []
      let sp := s!"rounds={r} seq={Spec.count specLog ns} ok"
      let res := batches.foldlM (fun (s : Store RHH) keys => do
        let (s', _, _) ← translate T s ns keys
        pure s') (Store.empty RHH false)
      match res with
      | .ok s => (st, ans2 s!"rounds={r} seq={((getNs s.nss ns).map (·.seq)).getD 0} ok" sp "race")
      | .error m => (st, ans2 m sp "race")
    | _, _ => bad
  | ["http", ks] =>
    match parseKeys ks with
    | some keys =>
      if keys.any (fun k => k = [] ∨ k.any (fun b => ¬ ((97 ≤ b ∧ b ≤ 122) ∨ (48 ≤ b ∧ b ≤ 57)))) then bad else
      -- a store of its own: one translation call per key, then the ids of all keys
      let ns := NsKey.col [104]
      let res := keys.foldlM (fun (s : Store RHH) k => do
        let (s', _, _) ← translate T s ns [k]
        pure s') (Store.empty RHH false)
      let specLog := keys.foldl (fun l k => (Spec.translate l false ns [k]).1) []
      let sp := "same=true " ++ showIds (keys.map (fun k => (Spec.idOf specLog ns k).getD 0))
      match res with
      | .ok s =>
        match translate T { s with readOnly := true } ns keys with
        | .ok (_, ids, true) => (st, ans2 ("same=true " ++ showIds ids) sp "http")
        | .ok (_, _, false) => (st, ans2 "same=true err:readonly" sp "http")
        | .error m => (st, ans2 m sp "http")
      | .error m => (st, ans2 m sp "http")
    | none => bad
  | [op, si] =>
    if op = "restart" ∨ op = "restartq" then
      match si.toNat? with
      | some i =>
        if i > 1 then bad else
        let s := st.store i
        let sp := if op = "restartq" then "ok" else s!"n={(Spec.fileOf (st.log i)).length}"
        match replay T s.data s.readOnly with
        | .ok s' => (st.setStore i s', ans2 (if op = "restartq" then "ok" else s!"n={s'.n}") sp "restart")
        | .error m => (st, ans2 m sp "restart")
      | none => bad
    else if op = "file" then
      match si.toNat? with
      | some i =>
        if i > 1 then bad else
        (st, ans2 (showFile (st.store i).data) (showFile (Spec.fileOf (st.log i))) "file")
      | none => bad
    else bad
  | ["same"] =>
    (st, ans2 ("same=" ++ showBool (st.p.data = st.r.data)) ("same=" ++ showBool (st.pl = st.rl)) "same")
  | ["dump", si, nss] =>
    match si.toNat?, parseNs nss with
    | some i, some ns =>
      if i > 1 then bad else
      match getNs (st.store i).nss ns with
      | none => (st, ans "nil")
      | some ix => (st, ans (showDump ix))
    | _, _ => bad
  | ["conc", nss, bs] =>
    match parseNs nss, (bs.splitOn "|").mapM parseKeys with
    | some ns, some batches =>
      -- one schedule: the callers one after the other
      let specLog := batches.foldl (fun l keys => (Spec.translate l false ns keys).1) st.pl
      let sp := s!"seq={Spec.count specLog ns} ok"
      let res := batches.foldlM (fun s keys => do
        let (s', _, _) ← translate T s ns keys
        pure s') st.p
      match res with
      | .ok p' =>
        let seq := ((getNs p'.nss ns).map (·.seq)).getD 0
        ({ st with p := p', pl := specLog }, ans2 s!"seq={seq} ok" sp "concurrent")
      | .error m => (st, ans2 m sp "concurrent")
    | _, _ => bad
  | [op, cuts, sizes] =>
    if op ≠ "repl" ∧ op ≠ "replq" then bad else
    match parseCut cuts st.p.data, csvNats? sizes with
    | some cut, some szs =>
      let q := op = "replq"
      let rl' := Spec.replicate st.pl st.rl cut
      let sp := if q then "ok" else s!"n={(Spec.fileOf rl').length}"
      let chunks := readerChunks st.p.data cut st.r.n (cycle szs (st.p.data.length + 1))
      match replicate T st.r chunks with
      | .ok r' => ({ st with r := r', rl := rl' }, ans2 (if q then "ok" else s!"n={r'.n}") sp "replicate")
      | .error m => (st, ans2 m sp "replicate")
    | _, _ => bad
  | ["chk", si, nss, ks] =>
    match si.toNat?, parseNs nss, parseKeys ks with
    | some i, some ns, some keys =>
      if i > 1 then bad else
      (st, ans2 (modelChk (st.store i) ns keys) (specChk (st.log i) ns keys) "check")
    | _, _, _ => bad
  | _ => bad

def main : IO Unit := run ({} : St) step
