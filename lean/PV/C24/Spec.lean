/-
C24 specification: a translation store is nothing but its log — the list of entries in the
order they were committed.  Everything observable is a pure function of that list: a key's id is
the id of its first pair, an id's key is the key of its first pair, fresh keys get the next
numbers 1, 2, 3, … of their namespace in order of first appearance, a restart changes nothing,
and a replica is a prefix of the primary's list that grows by whole entries.
No hash table, no offsets, no sequence counter.  Core Lean only.
-/
import PV.C24.Model
namespace PV.C24.Spec
open PV.C24

abbrev Log := List Entry

def nsOf (e : Entry) : Option NsKey :=
  if e.typ = LogEntryTypeInsertColumn then some (.col e.index)
  else if e.typ = LogEntryTypeInsertRow then some (.row e.index e.field)
  else none

/-- all pairs of one namespace, oldest first. -/
def pairsOf (log : Log) (ns : NsKey) : List (Nat × Bytes) :=
  (log.filter (fun e => nsOf e = some ns)).flatMap (·.pairs)

def idOf (log : Log) (ns : NsKey) (key : Bytes) : Option Nat :=
  ((pairsOf log ns).find? (fun p => p.2 = key)).map (·.1)

def keyOf (log : Log) (ns : NsKey) (id : Nat) : Bytes :=
  (((pairsOf log ns).find? (fun p => p.1 = id)).map (·.2)).getD []

/-- number of distinct keys of the namespace = the highest id handed out. -/
def count (log : Log) (ns : NsKey) : Nat :=
  ((pairsOf log ns).map (·.1)).foldl max 0

def hasNs (log : Log) (ns : NsKey) : Bool := log.any (fun e => nsOf e = some ns)

/-- ids for a batch given what is known (`known`) and the pairs decided earlier in this batch. -/
def assign (known : Bytes → Option Nat) : List Bytes → List (Nat × Bytes) → Nat →
    List Nat × List (Nat × Bytes)
  | [], _, _ => ([], [])
  | k :: ks, fresh, next =>
    match known k with
    | some id => let (ids, ps) := assign known ks fresh next; (id :: ids, ps)
    | none =>
      match fresh.find? (fun p => p.2 = k) with
      | some p => let (ids, ps) := assign known ks fresh next; (p.1 :: ids, (p.1, k) :: ps)
      | none =>
        let (ids, ps) := assign known ks ((next, k) :: fresh) (next + 1)
        (next :: ids, (next, k) :: ps)

/-- A translation batch: `(log', ids, ok)`.  A batch that creates nothing leaves the log alone,
except the very first batch of a namespace, which is logged even when empty.  On a read-only
store unknown keys give id 0 and `ok = false`. -/
def translate (log : Log) (ro : Bool) (ns : NsKey) (keys : List Bytes) : Log × List Nat × Bool :=
  let known := idOf log ns
  let allKnown := keys.all (fun k => (known k).isSome)
  if hasNs log ns && allKnown then (log, keys.map (fun k => (known k).getD 0), true)
  else if ro then (log, keys.map (fun k => (known k).getD 0), false)
  else
    let (ids, ps) := assign known keys [] (count log ns + 1)
    (log ++ [entryFor ns ps], ids, true)

def fileOf (log : Log) : Bytes := (log.map encodeEntry).flatten

/-- The entries of `plog` beyond `have` whose end lies within the first `cut` bytes of the
primary's file: what a replica holding the first `have` entries gains from a stream that is cut
at byte `cut`. -/
def gained (plog : Log) (haveN cut : Nat) : Nat :=
  let rec go (es : Log) (pos k acc : Nat) : Nat :=
    match es with
    | [] => acc
    | e :: rest =>
      let pos' := pos + (encodeEntry e).length
      if pos' ≤ cut then go rest pos' (k + 1) (if k + 1 > haveN then acc + 1 else acc)
      else acc
  go plog 0 0 0

def replicate (plog rlog : Log) (cut : Nat) : Log :=
  plog.take (rlog.length + gained plog rlog.length cut)

end PV.C24.Spec
