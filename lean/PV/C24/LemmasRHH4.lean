/-
C24, robin-hood table, part 4: the loop of insertIDbyOffset for a key that is not in the table.
Core Lean only.
-/
import PV.C24.LemmasRHH3
namespace PV.C24
open List

theorem maps_put_free {ka : KeyAt} {t : RHH} {c : Elem} {pos : Nat} {kc : Bytes}
    (hp : pos < t.elems.length) (hfree : Free t pos) (hcn : c.hash ≠ 0) (hk : ka c.offset = .ok kc)
    (key : Bytes) (id : Nat) :
    Maps ka (t.put pos c) key id ↔ Maps ka t key id ∨ (key = kc ∧ id = c.id) := by
  constructor
  · rintro ⟨p, e, ho, hke, hid⟩
    rcases (occ_put hp p e).mp ho with ⟨_, rfl, _⟩ | ⟨_, ho'⟩
    · right
      rw [hk] at hke
      exact ⟨by simpa using hke.symm, hid.symm⟩
    · exact Or.inl ⟨p, e, ho', hke, hid⟩
  · rintro (⟨p, e, ho, hke, hid⟩ | ⟨rfl, rfl⟩)
    · have hne : p ≠ pos := fun heq => (heq ▸ ho).not_free hfree
      exact ⟨p, e, (occ_put hp p e).mpr (Or.inr ⟨hne, ho⟩), hke, hid⟩
    · exact ⟨pos, c, (occ_put hp pos c).mpr (Or.inl ⟨rfl, rfl, hcn⟩), hk, rfl⟩

/-- replacing the element `e` of slot `pos` by `c`: `c`'s key appears, `e`'s key disappears -/
theorem maps_put_occ {H : Bytes → Nat} {ka : KeyAt} {t : RHH} (h : t.Inv H ka) {c e : Elem} {pos : Nat}
    {kc ke : Bytes} (ho : Occ t pos e) (hke : ka e.offset = .ok ke) (hcn : c.hash ≠ 0)
    (hk : ka c.offset = .ok kc) (key : Bytes) (id : Nat) :
    Maps ka (t.put pos c) key id ↔ (key = kc ∧ id = c.id) ∨ (Maps ka t key id ∧ key ≠ ke) := by
  have hp := ho.lt
  constructor
  · rintro ⟨p, x, hox, hkx, hid⟩
    rcases (occ_put hp p x).mp hox with ⟨_, rfl, _⟩ | ⟨hne, hox'⟩
    · left
      rw [hk] at hkx
      exact ⟨by simpa using hkx.symm, hid.symm⟩
    · right
      refine ⟨⟨p, x, hox', hkx, hid⟩, ?_⟩
      intro heq
      exact hne (h.uniq p pos x e ke hox' ho (heq ▸ hkx) hke)
  · rintro (⟨rfl, rfl⟩ | ⟨⟨p, x, hox, hkx, hid⟩, hne⟩)
    · exact ⟨pos, c, (occ_put hp pos c).mpr (Or.inl ⟨rfl, rfl, hcn⟩), hk, rfl⟩
    · have hpp : p ≠ pos := by
        intro heq
        have : x = e := (heq ▸ hox).unique ho
        subst this
        rw [hke] at hkx
        exact hne (by simpa using hkx.symm)
      exact ⟨p, x, (occ_put hp p x).mpr (Or.inr ⟨hpp, hox⟩), hkx, hid⟩

/-- The insert loop carrying an element whose key is not in the table, with a free slot `j` steps
ahead and no slot up to there holding the key `K` the loop compares with: it ends in that free
slot, never reports an overwrite, and the table maps one more key. -/
theorem insertLoop_absent {H : Bytes → Nat} {ka : KeyAt} (K : Bytes) : ∀ (j : Nat) (t : RHH) (c : Elem)
    (pos : Nat) (kc : Bytes) (fuel : Nat), t.Inv H ka → Carried H ka t c pos kc →
    D t.elems.length c.hash pos + j < t.elems.length →
    (∀ i < j, ∃ e, Occ t (adv t.elems.length pos i) e ∧ ka e.offset ≠ .ok K) →
    Free t (adv t.elems.length pos j) → j < fuel →
    ∃ t', RHH.insertLoop ka K fuel t c.hash c.offset c.id pos (D t.elems.length c.hash pos) = .ok (t', false) ∧
      t'.Inv H ka ∧ t'.elems.length = t.elems.length ∧ t'.mask = t.mask ∧ t'.n = t.n ∧
      t'.threshold = t.threshold ∧
      (∀ key id, Maps ka t' key id ↔ Maps ka t key id ∨ (key = kc ∧ id = c.id)) ∧
      countNE t' = countNE t + 1 := by
  intro j
  induction j with
  | zero =>
    intro t c pos kc fuel h hcar _ _ hfree hf
    have hc := h.shape.cap_gt
    rw [adv_zero hc hcar.pos_lt] at hfree
    cases fuel with
    | zero => omega
    | succ fuel =>
      obtain ⟨e, he, hz⟩ := get_free hfree
      refine ⟨t.put pos c, ?_, put_inv h hcar (Or.inl hfree), put_length _ _ _, rfl, rfl, rfl,
        maps_put_free hcar.pos_lt hfree hcar.hash_ne hcar.key, countNE_put_free hfree hcar.hash_ne⟩
      simp only [RHH.insertLoop, he, ebind_ok, hz, if_true, epure]
      rfl
  | succ j ih =>
    intro t c pos kc fuel h hcar hbound hseg hfree hf
    have hc := h.shape.cap_gt
    have hp := hcar.pos_lt
    cases fuel with
    | zero => omega
    | succ fuel =>
      obtain ⟨e, ho, hneK⟩ := hseg 0 (by omega)
      rw [adv_zero hc hp] at ho
      obtain ⟨ke, hke, hhe⟩ := h.keyed pos e ho
      have hkeK : ¬ ke = K := fun heq => hneK (heq ▸ hke)
      have hkne : ke ≠ kc := fun heq => hcar.fresh pos e ho (heq ▸ hke)
      have hd'lt := D_lt hc e.hash pos
      -- the slots ahead, seen from the next slot
      have hseg' : ∀ (t1 : RHH), (∀ p x, p ≠ pos → (Occ t1 p x ↔ Occ t p x)) →
          ∀ i < j, ∃ x, Occ t1 (adv t.elems.length (nxt t.elems.length pos) i) x ∧ ka x.offset ≠ .ok K := by
        intro t1 hsame i hi
        obtain ⟨x, hox, hxK⟩ := hseg (i + 1) (by omega)
        rw [adv_nxt hc]
        exact ⟨x, (hsame _ x (adv_ne hc hp (by omega) (by omega))).mpr hox, hxK⟩
      simp only [RHH.insertLoop, get_occ ho, ebind_ok, ho.2, if_false, hke, hkeK, h.shape.dist_eq,
        h.shape.next_eq]
      by_cases hsw : D t.elems.length e.hash pos < D t.elems.length c.hash pos
      · -- swap: `c` stays here, `e` is carried on
        simp only [hsw, if_true]
        have hinv1 : (t.put pos c).Inv H ka := put_inv h hcar (Or.inr ⟨e, ho, by omega⟩)
        have hlen1 := put_length t pos c
        have hD : D t.elems.length e.hash (nxt t.elems.length pos) = D t.elems.length e.hash pos + 1 :=
          D_nxt hc e.hash hp (by omega)
        have hcar1 : Carried H ka (t.put pos c) e (nxt t.elems.length pos) ke := by
          refine ⟨by rw [hlen1]; exact nxt_lt hc pos, ho.2, hke, hhe, ?_, ?_⟩
          · intro p x hox
            rcases (occ_put hp p x).mp hox with ⟨_, rfl, _⟩ | ⟨hne, hox'⟩
            · rw [hcar.key]; intro heq; exact hkne (by simpa using heq.symm)
            · intro heq; exact hne (h.uniq p pos x e ke hox' ho heq hke)
          · intro _
            rw [hlen1, prv_nxt hc hp]
            exact ⟨c, (occ_put hp pos c).mpr (Or.inl ⟨rfl, rfl, hcar.hash_ne⟩), by rw [hD]; omega⟩
        obtain ⟨t', hrun, hinv', hl', hm', hn', hth', hmaps', hcnt'⟩ :=
          ih (t.put pos c) e (nxt t.elems.length pos) ke fuel hinv1 hcar1
            (by rw [hlen1, hD]; omega)
            (by rw [hlen1]; exact hseg' _ (fun p x hne => by
              rw [occ_put hp p x]; simp [hne]))
            (by rw [hlen1, adv_nxt hc]
                exact (free_put_other (adv_ne hc hp (by omega) (by omega))).mpr hfree)
            (by omega)
        rw [hlen1, hD] at hrun
        refine ⟨t', hrun, hinv', by rw [hl', hlen1], hm', hn', hth', ?_, ?_⟩
        · intro key id
          rw [hmaps', maps_put_occ h ho hke hcar.hash_ne hcar.key]
          constructor
          · rintro ((⟨rfl, rfl⟩ | ⟨hm, _⟩) | ⟨rfl, rfl⟩)
            · exact Or.inr ⟨rfl, rfl⟩
            · exact Or.inl hm
            · exact Or.inl ⟨pos, e, ho, hke, rfl⟩
          · rintro (hm | ⟨rfl, rfl⟩)
            · by_cases hk : key = ke
              · right
                obtain ⟨p, x, hox, hkx, hid⟩ := hm
                have hpp : p = pos := h.uniq p pos x e ke hox ho (hk ▸ hkx) hke
                have : x = e := (hpp ▸ hox).unique ho
                exact ⟨hk, by rw [← hid, this]⟩
              · exact Or.inl (Or.inr ⟨hm, hk⟩)
            · exact Or.inl (Or.inl ⟨rfl, rfl⟩)
        · rw [hcnt', countNE_put_occ ho hcar.hash_ne]
      · -- no swap: carry `c` on
        simp only [hsw, if_false]
        have hD : D t.elems.length c.hash (nxt t.elems.length pos) = D t.elems.length c.hash pos + 1 :=
          D_nxt hc c.hash hp (by omega)
        have hcar1 : Carried H ka t c (nxt t.elems.length pos) kc := by
          refine ⟨nxt_lt hc pos, hcar.hash_ne, hcar.key, hcar.hash_eq, hcar.fresh, ?_⟩
          intro _
          rw [prv_nxt hc hp]
          exact ⟨e, ho, by rw [hD]; omega⟩
        obtain ⟨t', hrun, hrest⟩ := ih t c (nxt t.elems.length pos) kc fuel h hcar1
          (by rw [hD]; omega) (hseg' t (fun _ _ _ => Iff.rfl))
          (by rw [adv_nxt hc]; exact hfree) (by omega)
        rw [hD] at hrun
        exact ⟨t', hrun, hrest⟩

end PV.C24
