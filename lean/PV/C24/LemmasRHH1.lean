/-
C24, robin-hood table, part 1: arithmetic on a circular table (probe distance, next / previous
slot, the j-th probed slot).  Core Lean only.
-/
import PV.C24.Lemmas2
namespace PV.C24
open List

/-! ### arithmetic on a circular table of `cap` slots -/

theorem mod2 (x cap : Nat) (h : x < 2 * cap) : x % cap = if x < cap then x else x - cap := by
  by_cases c : x < cap
  · simp [c, Nat.mod_eq_of_lt c]
  · simp only [c, if_false]
    rw [Nat.mod_eq_sub_mod (by omega), Nat.mod_eq_of_lt (by omega)]

/-- probe distance of hash `h` at slot `p` -/
def D (cap h p : Nat) : Nat := (p + cap - h % cap) % cap
def nxt (cap p : Nat) : Nat := (p + 1) % cap
def prv (cap p : Nat) : Nat := (p + cap - 1) % cap
/-- the `j`-th slot probed for hash `h` -/
def posAt (cap h j : Nat) : Nat := (h % cap + j) % cap

section
variable {cap : Nat} (hc : 1 < cap)
include hc

theorem D_lt (h p : Nat) : D cap h p < cap := Nat.mod_lt _ (by omega)
theorem nxt_lt (p : Nat) : nxt cap p < cap := Nat.mod_lt _ (by omega)
theorem prv_lt (p : Nat) : prv cap p < cap := Nat.mod_lt _ (by omega)
theorem posAt_lt (h j : Nat) : posAt cap h j < cap := Nat.mod_lt _ (by omega)

theorem prv_nxt {p : Nat} (hp : p < cap) : prv cap (nxt cap p) = p := by
  unfold prv nxt
  rw [mod2 (p + 1) cap (by omega)]
  split
  · rw [mod2 _ cap (by omega)]; split <;> omega
  · rw [mod2 _ cap (by omega)]; split <;> omega

theorem nxt_prv {p : Nat} (hp : p < cap) : nxt cap (prv cap p) = p := by
  unfold prv nxt
  rw [mod2 (p + cap - 1) cap (by omega)]
  split
  · rw [mod2 _ cap (by omega)]; split <;> omega
  · rw [mod2 _ cap (by omega)]; split <;> omega

theorem nxt_ne {p : Nat} (hp : p < cap) : nxt cap p ≠ p := by
  unfold nxt
  rw [mod2 (p + 1) cap (by omega)]
  split <;> omega

theorem prv_ne {p : Nat} (hp : p < cap) : prv cap p ≠ p := by
  unfold prv
  rw [mod2 _ cap (by omega)]
  split <;> omega

theorem D_zero_iff (h : Nat) {p : Nat} (hp : p < cap) : D cap h p = 0 ↔ p = h % cap := by
  unfold D
  have hm : h % cap < cap := Nat.mod_lt _ (by omega)
  generalize h % cap = m at *
  rw [mod2 _ cap (by omega)]
  split <;> omega

theorem D_nxt (h : Nat) {p : Nat} (hp : p < cap) (hd : D cap h p + 1 < cap) :
    D cap h (nxt cap p) = D cap h p + 1 := by
  unfold D nxt at *
  have hm : h % cap < cap := Nat.mod_lt _ (by omega)
  generalize h % cap = m at *
  rw [mod2 (p + cap - m) cap (by omega)] at hd ⊢
  rw [mod2 (p + 1) cap (by omega)]
  split at hd <;> split <;> (rw [mod2 _ cap (by omega)]; split <;> omega)

theorem D_prv (h : Nat) {p : Nat} (hp : p < cap) (hd : 0 < D cap h p) :
    D cap h (prv cap p) = D cap h p - 1 := by
  unfold D prv at *
  have hm : h % cap < cap := Nat.mod_lt _ (by omega)
  generalize h % cap = m at *
  rw [mod2 (p + cap - m) cap (by omega)] at hd ⊢
  rw [mod2 (p + cap - 1) cap (by omega)]
  split at hd <;> split <;> (rw [mod2 _ cap (by omega)]; split <;> omega)

theorem nxt_posAt (h j : Nat) : nxt cap (posAt cap h j) = posAt cap h (j + 1) := by
  unfold nxt posAt
  rw [← Nat.add_assoc, Nat.add_mod (h % cap + j) 1 cap, Nat.add_mod ((h % cap + j) % cap) 1 cap, Nat.mod_mod]

theorem D_posAt (h : Nat) {j : Nat} (hj : j < cap) : D cap h (posAt cap h j) = j := by
  unfold D posAt
  have hm : h % cap < cap := Nat.mod_lt _ (by omega)
  generalize h % cap = m at *
  rw [mod2 (m + j) cap (by omega)]
  split <;> (rw [mod2 _ cap (by omega)]; split <;> omega)

theorem posAt_D (h : Nat) {p : Nat} (hp : p < cap) : posAt cap h (D cap h p) = p := by
  unfold D posAt
  have hm : h % cap < cap := Nat.mod_lt _ (by omega)
  generalize h % cap = m at *
  rw [mod2 (p + cap - m) cap (by omega)]
  split <;> (rw [mod2 _ cap (by omega)]; split <;> omega)

theorem posAt_zero (h : Nat) : posAt cap h 0 = h % cap := by
  unfold posAt
  rw [Nat.add_zero, Nat.mod_mod]

theorem prv_posAt (h j : Nat) : prv cap (posAt cap h (j + 1)) = posAt cap h j := by
  rw [← nxt_posAt hc, prv_nxt hc (posAt_lt hc h j)]

end

end PV.C24
