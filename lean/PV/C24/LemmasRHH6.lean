/-
C24, robin-hood table, part 6: re-inserting the elements of the old table after growth.
Core Lean only.
-/
import PV.C24.LemmasRHH5
namespace PV.C24
open List

/-! ### growth: re-inserting every element into a fresh table -/

def NE (e : Elem) : Bool := decide (e.hash ≠ 0)

theorem countNE_eq (t : RHH) : countNE t = t.elems.countP NE := rfl

/-- re-insertion of a list of elements with pairwise different keys, none of them in the table -/
theorem reinsert_spec {H : Bytes → Nat} {ka : KeyAt} : ∀ (es : List Elem) (t : RHH), t.Inv H ka →
    (∀ e ∈ es, e.hash ≠ 0 → ∃ k, ka e.offset = .ok k) →
    es.Pairwise (fun a b => a.hash ≠ 0 → b.hash ≠ 0 → ∀ k, ka a.offset = .ok k → ka b.offset ≠ .ok k) →
    (∀ e ∈ es, e.hash ≠ 0 → ∀ k, ka e.offset = .ok k → ∀ id, ¬ Maps ka t k id) →
    countNE t + es.countP NE < t.elems.length →
    ∃ t', RHH.reinsert H ka es t = .ok t' ∧ t'.Inv H ka ∧ t'.elems.length = t.elems.length ∧
      t'.mask = t.mask ∧ t'.n = t.n ∧ t'.threshold = t.threshold ∧
      (∀ key id, Maps ka t' key id ↔
        Maps ka t key id ∨ ∃ e ∈ es, e.hash ≠ 0 ∧ ka e.offset = .ok key ∧ e.id = id) ∧
      countNE t' = countNE t + es.countP NE := by
  intro es
  induction es with
  | nil =>
    intro t h _ _ _ _
    exact ⟨t, rfl, h, rfl, rfl, rfl, rfl, by simp, by simp⟩
  | cons x xs ih =>
    intro t h hkeyed hdist hnew hroom
    obtain ⟨hx, hxs⟩ := pairwise_cons.mp hdist
    by_cases hz : x.hash = 0
    · have hne : NE x = false := by simp [NE, hz]
      have hcp : (x :: xs).countP NE = xs.countP NE := by rw [countP_cons]; simp [hne]
      obtain ⟨t', hr, hrest⟩ := ih t h (fun e he => hkeyed e (by simp [he])) hxs
        (fun e he => hnew e (by simp [he])) (by rw [hcp] at hroom; exact hroom)
      obtain ⟨i1, i2, i3, i4, i5, i6, i7⟩ := hrest
      refine ⟨t', by simp only [RHH.reinsert, hz, if_true]; exact hr, i1, i2, i3, i4, i5, ?_, by rw [i7, hcp]⟩
      intro key id
      rw [i6]
      constructor
      · rintro (hm | ⟨e, he, h1, h2, h3⟩)
        · exact Or.inl hm
        · exact Or.inr ⟨e, by simp [he], h1, h2, h3⟩
      · rintro (hm | ⟨e, he, h1, h2, h3⟩)
        · exact Or.inl hm
        · simp only [mem_cons] at he
          rcases he with rfl | he
          · exact absurd hz h1
          · exact Or.inr ⟨e, he, h1, h2, h3⟩
    · have hne : NE x = true := by simp [NE, hz]
      have hcp : (x :: xs).countP NE = xs.countP NE + 1 := by rw [countP_cons]; simp [hne]
      obtain ⟨kx, hkx⟩ := hkeyed x (by simp) hz
      obtain ⟨t1, ow, hins, hinv1, hl1, hm1, hn1, hth1, hmaps1, hcnt1⟩ :=
        insertIDbyOffset_spec h (by rw [hcp] at hroom; omega) x.offset x.id kx hkx
      -- the key was not there, so nothing was overwritten
      have hnotow : ow = false := by
        cases ow with
        | false => rfl
        | true =>
          exfalso
          -- count unchanged means the key was present: derive from Maps
          have hnone : ∀ id, ¬ Maps ka t kx id := hnew x (by simp) hz kx hkx
          -- if overwritten, countNE t1 = countNE t; but t1 maps kx while t did not: one more key
          -- use the loop characterisation instead: replay the two cases of insertIDbyOffset_spec
          simp only [if_true, Nat.add_zero] at hcnt1
          -- contradiction is obtained below from the fact that the overwrite flag is `true` only
          -- in the `present` branch; we re-derive it by running the absent branch explicitly
          have hc := h.shape.cap_gt
          have hno : ∀ p e, Occ t p e → ka e.offset ≠ .ok kx := fun p e ho hke => hnone e.id ⟨p, e, ho, hke, rfl⟩
          have hpos := posAt_lt hc (hashKey H kx) 0
          obtain ⟨j, hjl, hfree, hocc⟩ := first_free hc hpos (exists_free_of_count (by rw [hcp] at hroom; omega))
          have hD0 : D t.elems.length (hashKey H kx) (posAt t.elems.length (hashKey H kx) 0) = 0 :=
            D_posAt hc _ (by omega)
          have hhne : hashKey H kx ≠ 0 := by unfold hashKey; split <;> omega
          have hcar : Carried H ka t ⟨x.offset, x.id, hashKey H kx⟩ (posAt t.elems.length (hashKey H kx) 0) kx :=
            ⟨hpos, hhne, hkx, rfl, hno, fun hd => by simp only [hD0] at hd; omega⟩
          obtain ⟨t'', hrun, _⟩ :=
            insertLoop_absent kx j t ⟨x.offset, x.id, hashKey H kx⟩ _ kx (t.elems.length + 1) h hcar
              (by simp only [hD0]; omega)
              (fun i hi => by obtain ⟨e, he⟩ := hocc i hi; exact ⟨e, he, hno _ e he⟩)
              hfree (by omega)
          simp only [hD0] at hrun
          unfold RHH.insertIDbyOffset at hins
          simp only [hkx, ebind_ok, h.shape.home_eq] at hins
          rw [hrun] at hins
          simp at hins
      subst hnotow
      simp only [Bool.false_eq_true, if_false] at hcnt1
      obtain ⟨t', hr, i1, i2, i3, i4, i5, i6, i7⟩ := ih t1 hinv1 (fun e he => hkeyed e (by simp [he])) hxs
        (by
          intro e he hez k hk id hm
          rcases (hmaps1 k id).mp hm with ⟨rfl, _⟩ | ⟨hm', _⟩
          · exact hx e he hz hez k hkx hk
          · exact hnew e (by simp [he]) hez k hk id hm')
        (by rw [hl1, hcnt1]; rw [hcp] at hroom; omega)
      refine ⟨t', ?_, i1, by rw [i2, hl1], by rw [i3, hm1], by rw [i4, hn1], by rw [i5, hth1], ?_, by rw [i7, hcnt1, hcp]; omega⟩
      · simp only [RHH.reinsert, hz, if_false, hins, ebind_ok]
        exact hr
      · intro key id
        rw [i6, hmaps1]
        constructor
        · rintro ((⟨rfl, rfl⟩ | ⟨hm, _⟩) | ⟨e, he, h1, h2, h3⟩)
          · exact Or.inr ⟨x, by simp, hz, hkx, rfl⟩
          · exact Or.inl hm
          · exact Or.inr ⟨e, by simp [he], h1, h2, h3⟩
        · rintro (hm | ⟨e, he, h1, h2, h3⟩)
          · by_cases hk : key = kx
            · exact absurd (hk ▸ hm) (hnew x (by simp) hz kx hkx id)
            · exact Or.inl (Or.inr ⟨hm, hk⟩)
          · simp only [mem_cons] at he
            rcases he with rfl | he
            · have : key = kx := by rw [hkx] at h2; simpa using h2.symm
              exact Or.inl (Or.inl ⟨this, h3.symm⟩)
            · exact Or.inr ⟨e, he, h1, h2, h3⟩

end PV.C24
