/-
C24 model: the key-translation store of /repo/translate.go.

Modelled branch for branch (names are the Go names):
  * `putUvarint`/`readUvarint`/`uvarintSize`     binary.PutUvarint / binary.ReadUvarint / uVarintSize
  * `Entry`, `encodeEntry`, `decodeEntry`        LogEntry.WriteTo / LogEntry.ReadFrom
  * `lookupKey`                                   index.lookupKey (reads the key out of the data file)
  * `RHH.*`                                       index.alloc / dist / idByKey / insertIDbyOffset and the
                                                  table part of index.insert (n++, grow at n > threshold, n-- on overwrite)
  * `Index.insert`, `Index.keyByID`               index.insert (reverse map part), index.keyByID
  * `applyEntry`, `appendEntry`, `replay`         TranslateFile.applyEntry / appendEntry / replayEntries
  * `phase1`, `phase2`, `translate`               the read-locked and the write-locked half of
                                                  TranslateColumnsToUint64 / TranslateRowsToUint64
  * `readerChunks`, `replicate`                   translateFileReader.read and TranslateFile.replicate

Bytes are naturals (a byte is a `Nat` < 256; keys are opaque).  `uint64` is `Nat` (no wrap-around;
ids and lengths stay far below 2^64).  Go panics and endless loops are explicit `Except.error`
outcomes ("panic:<site>", "hang:<site>"), never a default value.  The hash function is a parameter
`H`; `hashKey` is the code's wrapper that maps 0 to 1.

The hash table is reached through the record `TableImpl` so that the store-level functions and
theorems are written once, for the robin-hood table `rhh H` (the code) and for any other
implementation that satisfies the finite-map laws (`PV.C24.TableLaws` in Lemmas.lean).
Core Lean only.
-/
namespace PV.C24

abbrev Bytes := List Nat

/-! ### uvarint -/

/-- binary.PutUvarint. -/
def putUvarint (x : Nat) : Bytes :=
  if x < 128 then [x] else (x % 128 + 128) :: putUvarint (x / 128)
termination_by x
decreasing_by omega

/-- uVarintSize (copied from encoding/binary in translate.go). -/
def uvarintSize (x : Nat) : Nat :=
  if x < 128 then 1 else uvarintSize (x / 128) + 1
termination_by x
decreasing_by omega

/-- binary.ReadUvarint: `i` bytes consumed so far, `x` the value so far, `s` the shift.
`none` = EOF / unexpected EOF / overflow (more than 10 bytes, or 10th byte > 1). -/
def readUvarintAux : Nat → Nat → Nat → Bytes → Option (Nat × Bytes)
  | _, _, _, [] => none
  | i, x, s, b :: rest =>
    if i ≥ 10 then none
    else if b < 128 then
      if i = 9 ∧ b > 1 then none else some (x + b * 2 ^ s, rest)
    else readUvarintAux (i + 1) (x + (b % 128) * 2 ^ s) (s + 7) rest

def readUvarint (bs : Bytes) : Option (Nat × Bytes) := readUvarintAux 0 0 0 bs

/-- io.ReadFull of `n` bytes. -/
def readN (n : Nat) (bs : Bytes) : Option (Bytes × Bytes) :=
  if n ≤ bs.length then some (bs.take n, bs.drop n) else none

/-! ### LogEntry -/

structure Entry where
  typ : Nat
  index : Bytes
  field : Bytes
  /-- `IDs[i]`, `Keys[i]` (the code keeps two slices of equal length, built in lock step). -/
  pairs : List (Nat × Bytes)
deriving Repr, DecidableEq, Inhabited

def encodePair (p : Nat × Bytes) : Bytes :=
  putUvarint p.1 ++ (putUvarint p.2.length ++ p.2)

def encodePairs (ps : List (Nat × Bytes)) : Bytes := (ps.map encodePair).flatten

/-- The buffer `buf` of LogEntry.WriteTo (everything after the length prefix). -/
def encodeBody (e : Entry) : Bytes :=
  e.typ :: (putUvarint e.index.length ++ (e.index ++ (putUvarint e.field.length ++ (e.field ++
    (putUvarint e.pairs.length ++ encodePairs e.pairs)))))

/-- LogEntry.WriteTo: length prefix, then the buffer. -/
def encodeEntry (e : Entry) : Bytes :=
  let b := encodeBody e
  putUvarint b.length ++ b

def decodePairs : Nat → Bytes → Option (List (Nat × Bytes) × Bytes)
  | 0, bs => some ([], bs)
  | k + 1, bs =>
    match readUvarint bs with
    | none => none
    | some (id, bs1) =>
      match readUvarint bs1 with
      | none => none
      | some (sz, bs2) =>
        match readN sz bs2 with
        | none => none
        | some (key, bs3) =>
          match decodePairs k bs3 with
          | none => none
          | some (ps, bs4) => some ((id, key) :: ps, bs4)

/-- LogEntry.ReadFrom.  Returns the entry, its `Length` field (as read, not re-checked against the
bytes consumed — the code trusts it) and the unread rest.  `none` = any read error (EOF included). -/
def decodeEntry (bs : Bytes) : Option (Entry × Nat × Bytes) :=
  match readUvarint bs with
  | none => none
  | some (len, bs0) =>
    match bs0 with
    | [] => none
    | typ :: bs1 =>
      match readUvarint bs1 with
      | none => none
      | some (isz, bs2) =>
        match readN isz bs2 with
        | none => none
        | some (index, bs3) =>
          match readUvarint bs3 with
          | none => none
          | some (fsz, bs4) =>
            match readN fsz bs4 with
            | none => none
            | some (field, bs5) =>
              match readUvarint bs5 with
              | none => none
              | some (cnt, bs6) =>
                match decodePairs cnt bs6 with
                | none => none
                | some (ps, bs7) => some (⟨typ, index, field, ps⟩, len, bs7)

/-- LogEntry.headerSize (needs `Length`, which WriteTo/ReadFrom have filled in). -/
def headerSize (e : Entry) (len : Nat) : Nat :=
  uvarintSize len + 1 + uvarintSize e.index.length + e.index.length +
    uvarintSize e.field.length + e.field.length + uvarintSize e.pairs.length

/-! ### keys live in the data file -/

/-- index.lookupKey: the key whose length prefix starts at `offset` of the mapped file.
An offset outside the written file, or a length prefix that does not decode, is a slice panic
(or garbage) in Go; here an error. -/
def lookupKey (data : Bytes) (offset : Nat) : Except String Bytes :=
  if offset > data.length then .error "panic:lookupKey" else
  match readUvarint (data.drop offset) with
  | none => .error "panic:lookupKey"
  | some (n, rest) => if n ≤ rest.length then .ok (rest.take n) else .error "panic:lookupKey"

abbrev KeyAt := Nat → Except String Bytes

/-! ### hash table interface -/

structure TableImpl where
  τ : Type
  /-- newIndex: an empty table of 256 slots. -/
  empty : τ
  /-- the table part of index.insert(id, offset). -/
  insert : KeyAt → τ → (offset id : Nat) → Except String τ
  /-- index.idByKey. -/
  lookup : KeyAt → τ → Bytes → Except String (Option Nat)

/-! ### the robin-hood table of translate.go -/

structure Elem where
  offset : Nat
  id : Nat
  hash : Nat
deriving Repr, DecidableEq, Inhabited

def Elem.none : Elem := ⟨0, 0, 0⟩

structure RHH where
  elems : List Elem
  n : Nat
  mask : Nat
  threshold : Nat
deriving Repr, DecidableEq

def defaultLoadFactor : Nat := 90

/-- hashKey: the parameter hash with 0 replaced by 1. -/
def hashKey (H : Bytes → Nat) (key : Bytes) : Nat :=
  if H key = 0 then 1 else H key

namespace RHH

/-- index.alloc (keeps `n`). -/
def alloc (t : RHH) (capacity : Nat) : RHH :=
  { t with elems := List.replicate capacity Elem.none,
           threshold := capacity * defaultLoadFactor / 100,
           mask := capacity - 1 }

def new : RHH := alloc ⟨[], 0, 0, 0⟩ 256

/-- index.dist. -/
def dist (t : RHH) (hash i : Nat) : Nat :=
  (i + t.elems.length - (hash &&& t.mask)) &&& t.mask

def get (t : RHH) (pos : Nat) : Except String Elem :=
  match t.elems[pos]? with
  | some e => .ok e
  | none => .error "panic:elems-index"

/-- The loop of index.idByKey; `fuel` bounds the iterations (running out = the Go loop never ends). -/
def lookupLoop (keyAt : KeyAt) (t : RHH) (key : Bytes) (hash : Nat) :
    Nat → Nat → Nat → Except String (Option Nat)
  | 0, _, _ => .error "hang:idByKey"
  | fuel + 1, pos, d => do
    let e ← t.get pos
    if e.hash = 0 then return none
    else if d > t.dist e.hash pos then return none
    else if e.hash = hash then
      let k ← keyAt e.offset
      if k = key then return some e.id
      else lookupLoop keyAt t key hash fuel ((pos + 1) &&& t.mask) (d + 1)
    else lookupLoop keyAt t key hash fuel ((pos + 1) &&& t.mask) (d + 1)

/-- index.idByKey. -/
def idByKey (H : Bytes → Nat) (keyAt : KeyAt) (t : RHH) (key : Bytes) : Except String (Option Nat) :=
  let hash := hashKey H key
  lookupLoop keyAt t key hash (t.elems.length + 1) (hash &&& t.mask) 0

/-- The loop of index.insertIDbyOffset.  `key` stays the key of the element being inserted even
after a swap (as in the code: `key` is computed once, before the loop). -/
def insertLoop (keyAt : KeyAt) (key : Bytes) :
    Nat → RHH → (hash offset id pos d : Nat) → Except String (RHH × Bool)
  | 0, _, _, _, _, _, _ => .error "hang:insertIDbyOffset"
  | fuel + 1, t, hash, offset, id, pos, d => do
    let e ← t.get pos
    if e.hash = 0 then
      return ({ t with elems := t.elems.set pos ⟨offset, id, hash⟩ }, false)
    let k ← keyAt e.offset
    if k = key then
      return ({ t with elems := t.elems.set pos ⟨offset, id, hash⟩ }, true)
    let d' := t.dist e.hash pos
    if d' < d then
      insertLoop keyAt key fuel { t with elems := t.elems.set pos ⟨offset, id, hash⟩ }
        e.hash e.offset e.id ((pos + 1) &&& t.mask) (d' + 1)
    else
      insertLoop keyAt key fuel t hash offset id ((pos + 1) &&& t.mask) (d + 1)

/-- index.insertIDbyOffset. -/
def insertIDbyOffset (H : Bytes → Nat) (keyAt : KeyAt) (t : RHH) (offset id : Nat) :
    Except String (RHH × Bool) := do
  let key ← keyAt offset
  let hash := hashKey H key
  insertLoop keyAt key (t.elems.length + 1) t hash offset id (hash &&& t.mask) 0

/-- The re-insertion loop of index.insert after `alloc`. -/
def reinsert (H : Bytes → Nat) (keyAt : KeyAt) : List Elem → RHH → Except String RHH
  | [], t => .ok t
  | e :: es, t =>
    if e.hash = 0 then reinsert H keyAt es t
    else do
      let (t', _) ← insertIDbyOffset H keyAt t e.offset e.id
      reinsert H keyAt es t'

/-- The growth step of index.insert: when the element count (already incremented) exceeds the
threshold, allocate twice the capacity and re-insert every element. -/
def grow (H : Bytes → Nat) (keyAt : KeyAt) (t : RHH) : Except String RHH :=
  if t.n > t.threshold then reinsert H keyAt t.elems (t.alloc (t.elems.length * 2)) else .ok t

/-- The table part of index.insert. -/
def insert (H : Bytes → Nat) (keyAt : KeyAt) (t : RHH) (offset id : Nat) : Except String RHH := do
  let t2 ← grow H keyAt { t with n := t.n + 1 }
  let r ← insertIDbyOffset H keyAt t2 offset id
  return if r.2 then { r.1 with n := r.1.n - 1 } else r.1

end RHH

/-- The table of the code, for a hash function `H`. -/
def rhh (H : Bytes → Nat) : TableImpl where
  τ := RHH
  empty := RHH.new
  insert := RHH.insert H
  lookup := RHH.idByKey H

/-! ### index = table + reverse map + sequence -/

structure Index (τ : Type) where
  seq : Nat
  tbl : τ
  /-- Go map id → offset, as an association list (newest first). -/
  offsetsByID : List (Nat × Nat)

def newIndex (T : TableImpl) : Index T.τ := ⟨0, T.empty, []⟩

/-- index.insert. -/
def Index.insert (T : TableImpl) (keyAt : KeyAt) (ix : Index T.τ) (id offset : Nat) :
    Except String (Index T.τ) := do
  let tbl ← T.insert keyAt ix.tbl offset id
  return { ix with tbl := tbl, offsetsByID := (id, offset) :: ix.offsetsByID }

/-- index.keyByID. -/
def Index.keyByID {τ : Type} (keyAt : KeyAt) (ix : Index τ) (id : Nat) : Except String (Option Bytes) :=
  match ix.offsetsByID.lookup id with
  | none => .ok none
  | some off => do let k ← keyAt off; return some k

/-! ### the store -/

inductive NsKey where
  | col (index : Bytes)
  | row (index field : Bytes)
deriving Repr, DecidableEq, Inhabited

structure Store (τ : Type) where
  /-- contents of the data file (written through `bufio.Writer` + `Flush` on every append). -/
  data : Bytes
  /-- `s.n`. -/
  n : Nat
  /-- `s.cols` and `s.rows`. -/
  nss : List (NsKey × Index τ)
  /-- `PrimaryTranslateStore != nil`. -/
  readOnly : Bool

def Store.empty (τ : Type) (ro : Bool) : Store τ := ⟨[], 0, [], ro⟩

def getNs {τ : Type} (nss : List (NsKey × Index τ)) (k : NsKey) : Option (Index τ) :=
  match nss with
  | [] => none
  | (k', ix) :: rest => if k' = k then some ix else getNs rest k

def setNs {τ : Type} (nss : List (NsKey × Index τ)) (k : NsKey) (ix : Index τ) :
    List (NsKey × Index τ) :=
  match nss with
  | [] => [(k, ix)]
  | (k', ix') :: rest => if k' = k then (k, ix) :: rest else (k', ix') :: setNs rest k ix

def LogEntryTypeInsertColumn : Nat := 1
def LogEntryTypeInsertRow : Nat := 2

def nsOfEntry (e : Entry) : Except String NsKey :=
  if e.typ = LogEntryTypeInsertColumn then .ok (.col e.index)
  else if e.typ = LogEntryTypeInsertRow then .ok (.row e.index e.field)
  else .error "err:unknown-entry-type"

/-- The pair loop of applyEntry. -/
def applyPairs (T : TableImpl) (keyAt : KeyAt) :
    Index T.τ → List (Nat × Bytes) → Nat → Except String (Index T.τ)
  | ix, [], _ => .ok ix
  | ix, (id, key) :: ps, offset => do
    let sz := uvarintSize id
    let ix1 ← ix.insert T keyAt id (offset + sz)
    let ix2 := if id > ix1.seq then { ix1 with seq := id } else ix1
    applyPairs T keyAt ix2 ps (offset + (sz + uvarintSize key.length + key.length))

/-- TranslateFile.applyEntry (`len` = entry.Length; `data` = the mapped file the index reads keys from). -/
def applyEntry (T : TableImpl) (data : Bytes) (nss : List (NsKey × Index T.τ)) (e : Entry)
    (len offset : Nat) : Except String (List (NsKey × Index T.τ)) := do
  let k ← nsOfEntry e
  let ix := (getNs nss k).getD (newIndex T)
  let ix' ← applyPairs T (lookupKey data) ix e.pairs (offset + headerSize e len)
  return setNs nss k ix'

/-- TranslateFile.appendEntry. -/
def appendEntry (T : TableImpl) (s : Store T.τ) (e : Entry) : Except String (Store T.τ) := do
  let offset := s.n
  let bytes := encodeEntry e
  let data := s.data ++ bytes
  let nss ← applyEntry T data s.nss e (encodeBody e).length offset
  return { s with data := data, n := s.n + bytes.length, nss := nss }

/-- The loop of TranslateFile.replayEntries over the unread rest `r` of the mapped file. -/
def replayLoop (T : TableImpl) (data : Bytes) :
    Nat → Bytes → Nat → List (NsKey × Index T.τ) → Except String (Nat × List (NsKey × Index T.τ))
  | 0, _, _, _ => .error "hang:replayEntries"
  | fuel + 1, r, n, nss =>
    if r = [] then .ok (n, nss)       -- io.EOF on the first byte of the length
    else
      match decodeEntry r with
      | none => .error "err:replay-decode"
      | some (e, len, r') => do
        let nss' ← applyEntry T data nss e len n
        replayLoop T data fuel r' (n + (uvarintSize len + len)) nss'

/-- Open (replayEntries) of a store whose file holds `data`. -/
def replay (T : TableImpl) (data : Bytes) (ro : Bool) : Except String (Store T.τ) := do
  let (n, nss) ← replayLoop T data (data.length + 1) data 0 []
  return ⟨data, n, nss, ro⟩

/-! ### translation calls: two phases -/

/-- `idx.idByKey` for each value; a miss contributes 0 and sets `writeRequired`. -/
def lookupAll (T : TableImpl) (keyAt : KeyAt) (ix : Index T.τ) :
    List Bytes → Except String (List Nat × Bool)
  | [] => .ok ([], false)
  | k :: ks => do
    let r ← T.lookup keyAt ix.tbl k
    let (ids, need) ← lookupAll T keyAt ix ks
    return match r with
      | some id => (id :: ids, need)
      | none => (0 :: ids, true)

/-- The read-locked half: `(ret, done)`; `done` = every value found (the call returns). -/
def phase1 (T : TableImpl) (s : Store T.τ) (ns : NsKey) (keys : List Bytes) :
    Except String (List Nat × Bool) :=
  match getNs s.nss ns with
  | none => .ok (keys.map (fun _ => 0), false)
  | some ix => do
    let (ret, need) ← lookupAll T (lookupKey s.data) ix keys
    return (ret, !need)

/-- The recheck loop under the write lock: only slots still 0 are looked up again. -/
def recheck (T : TableImpl) (keyAt : KeyAt) (ix : Index T.τ) :
    List Bytes → List Nat → Except String (List Nat × Bool)
  | k :: ks, r :: rs => do
    let (ids, need) ← recheck T keyAt ix ks rs
    if r ≠ 0 then return (r :: ids, need)
    else
      match ← T.lookup keyAt ix.tbl k with
      | some id => return (id :: ids, need)
      | none => return (0 :: ids, true)
  | _, _ => .ok ([], false)

/-- The allocation loop with the `check` map: `(ret, new pairs, seq)`. -/
def allocate : List Bytes → List Nat → List (Bytes × Nat) → Nat →
    List Nat × List (Nat × Bytes) × Nat
  | k :: ks, r :: rs, check, seq =>
    if r ≠ 0 then
      let res := allocate ks rs check seq
      (r :: res.1, res.2.1, res.2.2)
    else
      match check.lookup k with
      | some v =>
        let res := allocate ks rs check seq
        (v :: res.1, (v, k) :: res.2.1, res.2.2)
      | none =>
        let v := seq + 1
        let res := allocate ks rs ((k, v) :: check) v
        (v :: res.1, (v, k) :: res.2.1, res.2.2)
  | _, _, _, seq => ([], [], seq)

def entryFor (ns : NsKey) (ps : List (Nat × Bytes)) : Entry :=
  match ns with
  | .col index => ⟨LogEntryTypeInsertColumn, index, [], ps⟩
  | .row index field => ⟨LogEntryTypeInsertRow, index, field, ps⟩

/-- The recheck under the write lock (no index yet: everything is still missing). -/
def recheckNs (T : TableImpl) (s : Store T.τ) (ns : NsKey) (keys : List Bytes) (ret : List Nat) :
    Except String (List Nat × Bool) :=
  match getNs s.nss ns with
  | none => .ok (ret, true)
  | some ix => recheck T (lookupKey s.data) ix keys ret

/-- The write-locked half, entered with the `ret` left by phase 1. -/
def phase2 (T : TableImpl) (s : Store T.τ) (ns : NsKey) (keys : List Bytes) (ret : List Nat) :
    Except String (Store T.τ × List Nat) := do
  let rc ← recheckNs T s ns keys ret
  if !rc.2 then return (s, rc.1)
  -- create the index if missing, allocate, append
  let ix := (getNs s.nss ns).getD (newIndex T)
  let al := allocate keys rc.1 [] ix.seq
  let s1 := { s with nss := setNs s.nss ns { ix with seq := al.2.2 } }
  let s2 ← appendEntry T s1 (entryFor ns al.2.1)
  return (s2, al.1)

/-- A whole call with nobody in between (phase 1, read-only check, phase 2). -/
def translate (T : TableImpl) (s : Store T.τ) (ns : NsKey) (keys : List Bytes) :
    Except String (Store T.τ × List Nat × Bool) := do
  let (ret, done) ← phase1 T s ns keys
  if done then return (s, ret, true)
  if s.readOnly then return (s, ret, false)    -- ErrTranslateStoreReadOnly, partial `ret`
  let (s', ret') ← phase2 T s ns keys ret
  return (s', ret', true)

/-- TranslateColumnToString / TranslateRowToString (a missing id gives the empty string). -/
def keyOf {τ : Type} (s : Store τ) (ns : NsKey) (id : Nat) : Except String Bytes :=
  match getNs s.nss ns with
  | none => .ok []
  | some ix => do
    match ← ix.keyByID (lookupKey s.data) id with
    | some k => return k
    | none => return []

/-! ### concurrent callers: any interleaving is a sequence of phases

Every caller holds `s.mu` (read or write) for the whole of a phase, so an execution with any
number of concurrent callers is a sequence of atomic phases: a caller *starts* (phase 1 under the
read lock; it returns at once when everything was found or the store is read-only) and later
*finishes* (phase 2 under the write lock), with arbitrary phases of other callers in between. -/

structure Pending where
  ns : NsKey
  keys : List Bytes
  ret : List Nat

/-- a returned call: the ids it reported; `ok = false` is ErrTranslateStoreReadOnly -/
structure Done where
  ns : NsKey
  keys : List Bytes
  ids : List Nat
  ok : Bool

structure Sys (τ : Type) where
  store : Store τ
  pending : List Pending
  done : List Done

inductive Step where
  | start (ns : NsKey) (keys : List Bytes)
  | finish (i : Nat)           -- the i-th caller waiting for the write lock gets it

def Sys.step (T : TableImpl) (y : Sys T.τ) : Step → Except String (Sys T.τ)
  | .start ns keys => do
    let (ret, dn) ← phase1 T y.store ns keys
    if dn then return { y with done := y.done ++ [⟨ns, keys, ret, true⟩] }
    else if y.store.readOnly then return { y with done := y.done ++ [⟨ns, keys, ret, false⟩] }
    else return { y with pending := y.pending ++ [⟨ns, keys, ret⟩] }
  | .finish i =>
    match y.pending[i]? with
    | none => .ok y
    | some p => do
      let (s', ids) ← phase2 T y.store p.ns p.keys p.ret
      return { store := s', pending := y.pending.eraseIdx i, done := y.done ++ [⟨p.ns, p.keys, ids, true⟩] }

def Sys.run (T : TableImpl) (y : Sys T.τ) : List Step → Except String (Sys T.τ)
  | [] => .ok y
  | st :: rest => do
    let y' ← y.step T st
    Sys.run T y' rest

/-- idByKey on a namespace of a store (no index = not found). -/
def lookupId (T : TableImpl) (s : Store T.τ) (ns : NsKey) (key : Bytes) : Except String (Option Nat) :=
  match getNs s.nss ns with
  | none => .ok none
  | some ix => T.lookup (lookupKey s.data) ix.tbl key

/-! ### streaming the log to a replica -/

/-- translateFileReader.read, called with buffers of the given sizes until `limit` bytes of the
primary's file have been handed out: the chunks a consumer sees.  A zero-sized buffer yields an
empty chunk. -/
def readerChunks (data : Bytes) (limit : Nat) : Nat → List Nat → List Bytes
  | _, [] => []
  | off, sz :: szs =>
    let top := min limit data.length
    if off ≥ top then []
    else
      let n := min sz (top - off)
      ((data.drop off).take n) :: readerChunks data limit (off + n) szs

/-- TranslateFile.replicate over the bytes that arrive (bufio glues the chunks together):
decode one entry, append it locally, repeat; stop at the first read error / EOF. -/
def replicateLoop (T : TableImpl) : Nat → Store T.τ → Bytes → Except String (Store T.τ)
  | 0, _, _ => .error "hang:replicate"
  | fuel + 1, s, r =>
    match decodeEntry r with
    | none => .ok s
    | some (e, _, r') => do
      let s' ← appendEntry T s e
      replicateLoop T fuel s' r'

def replicate (T : TableImpl) (s : Store T.τ) (chunks : List Bytes) : Except String (Store T.τ) :=
  let stream := chunks.flatten
  replicateLoop T (stream.length + 1) s stream

end PV.C24
