/-
C24, robin-hood table, part 3: writing the carried element into a slot keeps the invariant.
Core Lean only.
-/
import PV.C24.LemmasRHH2
namespace PV.C24
open List

/-! ### walking forward -/

/-- `i` slots after `pos` -/
def adv (cap pos i : Nat) : Nat := (pos + i) % cap

section
variable {cap : Nat} (hc : 1 < cap)
include hc

theorem adv_lt (pos i : Nat) : adv cap pos i < cap := Nat.mod_lt _ (by omega)

theorem adv_zero {pos : Nat} (hp : pos < cap) : adv cap pos 0 = pos := by
  simp [adv, Nat.mod_eq_of_lt hp]

theorem adv_nxt (pos i : Nat) : adv cap (nxt cap pos) i = adv cap pos (i + 1) := by
  unfold adv nxt
  rw [Nat.add_mod ((pos + 1) % cap) i cap, Nat.mod_mod, ← Nat.add_mod]
  congr 1; omega

theorem adv_ne {pos i : Nat} (hp : pos < cap) (h0 : 0 < i) (hi : i < cap) : adv cap pos i ≠ pos := by
  unfold adv
  rw [mod2 _ cap (by omega)]
  split <;> omega

end

/-! ### writing one slot -/

def RHH.put (t : RHH) (pos : Nat) (c : Elem) : RHH := { t with elems := t.elems.set pos c }

theorem put_length (t : RHH) (pos : Nat) (c : Elem) : (t.put pos c).elems.length = t.elems.length := by
  simp [RHH.put]

theorem put_shape {t : RHH} (h : t.Shape) (pos : Nat) (c : Elem) : (t.put pos c).Shape :=
  ⟨by simpa [RHH.put] using h.pow2, by simpa [RHH.put] using h.mask⟩

theorem occ_put {t : RHH} {pos : Nat} {c : Elem} (hp : pos < t.elems.length) (p : Nat) (e : Elem) :
    Occ (t.put pos c) p e ↔ (p = pos ∧ e = c ∧ c.hash ≠ 0) ∨ (p ≠ pos ∧ Occ t p e) := by
  unfold Occ RHH.put
  by_cases hpp : p = pos
  · subst hpp
    simp only [getElem?_set_self hp, Option.some.injEq, true_and, ne_eq, not_true_eq_false, false_and, or_false]
    constructor
    · rintro ⟨rfl, h⟩; exact ⟨rfl, h⟩
    · rintro ⟨rfl, h⟩; exact ⟨rfl, h⟩
  · simp only [getElem?_set_ne (Ne.symm hpp), hpp, false_and, false_or, ne_eq, not_false_eq_true, true_and]

theorem free_put_other {t : RHH} {pos : Nat} {c : Elem} {p : Nat} (hpp : p ≠ pos) :
    Free (t.put pos c) p ↔ Free t p := by
  unfold Free RHH.put
  simp only [getElem?_set_ne (Ne.symm hpp)]

/-- number of occupied slots -/
def countNE (t : RHH) : Nat := t.elems.countP (fun e => e.hash ≠ 0)

theorem countNE_put_free {t : RHH} {pos : Nat} {c : Elem} (hf : Free t pos) (hcn : c.hash ≠ 0) :
    countNE (t.put pos c) = countNE t + 1 := by
  obtain ⟨e, he, hz⟩ := hf
  have hp : pos < t.elems.length := by
    by_cases c : pos < t.elems.length
    · exact c
    · rw [getElem?_eq_none (by omega)] at he; simp at he
  have hel : t.elems[pos] = e := by
    have := getElem?_eq_getElem hp; rw [this] at he; simpa using he
  unfold countNE RHH.put
  rw [countP_set hp, hel]
  simp [hz, hcn]

theorem countNE_put_occ {t : RHH} {pos : Nat} {c e : Elem} (ho : Occ t pos e) (hcn : c.hash ≠ 0) :
    countNE (t.put pos c) = countNE t := by
  have hp := ho.lt
  have hel : t.elems[pos] = e := by
    have h1 := getElem?_eq_getElem hp
    have h2 := ho.1
    rw [h1] at h2; simpa using h2
  unfold countNE RHH.put
  rw [countP_set hp, hel]
  have hpos : 0 < countP (fun e => decide (e.hash ≠ 0)) t.elems := by
    rw [countP_pos_iff]
    exact ⟨e, by rw [← hel]; exact getElem_mem hp, by simpa using ho.2⟩
  have h1 : decide (e.hash ≠ 0) = true := by simpa using ho.2
  have h2 : decide (c.hash ≠ 0) = true := by simpa using hcn
  simp only [h1, h2, if_true]
  omega

/-! ### putting the carried element into a slot keeps the invariant -/

/-- what the insert loop knows about the element it carries to slot `pos` -/
structure Carried (H : Bytes → Nat) (ka : KeyAt) (t : RHH) (c : Elem) (pos : Nat) (kc : Bytes) : Prop where
  pos_lt : pos < t.elems.length
  hash_ne : c.hash ≠ 0
  key : ka c.offset = .ok kc
  hash_eq : c.hash = hashKey H kc
  fresh : ∀ p e, Occ t p e → ka e.offset ≠ .ok kc
  loc : 0 < D t.elems.length c.hash pos → ∃ f, Occ t (prv t.elems.length pos) f ∧
    D t.elems.length c.hash pos ≤ D t.elems.length f.hash (prv t.elems.length pos) + 1

/-- Writing the carried element over slot `pos`, which is free or holds an element that is closer
to its home than the carried one, gives a table that satisfies the invariant again (the displaced
element, if any, is no longer in the table). -/
theorem put_inv {H : Bytes → Nat} {ka : KeyAt} {t : RHH} {c : Elem} {pos : Nat} {kc : Bytes}
    (h : t.Inv H ka) (hcar : Carried H ka t c pos kc)
    (hslot : Free t pos ∨ ∃ e, Occ t pos e ∧ D t.elems.length e.hash pos ≤ D t.elems.length c.hash pos) :
    (t.put pos c).Inv H ka := by
  have hc := h.shape.cap_gt
  have hp := hcar.pos_lt
  have hlen := put_length t pos c
  refine ⟨put_shape h.shape pos c, ?_, ?_, ?_⟩
  · intro p e ho
    rcases (occ_put hp p e).mp ho with ⟨_, rfl, _⟩ | ⟨_, ho'⟩
    · exact ⟨kc, hcar.key, hcar.hash_eq⟩
    · exact h.keyed p e ho'
  · intro p q e f k ho1 ho2 hk1 hk2
    rcases (occ_put hp p e).mp ho1 with ⟨rfl, rfl, _⟩ | ⟨hne1, ho1'⟩
    · rcases (occ_put hp q f).mp ho2 with ⟨rfl, _, _⟩ | ⟨_, ho2'⟩
      · rfl
      · have : k = kc := by rw [hcar.key] at hk1; simpa using hk1.symm
        exact absurd (this ▸ hk2) (hcar.fresh q f ho2')
    · rcases (occ_put hp q f).mp ho2 with ⟨rfl, rfl, _⟩ | ⟨_, ho2'⟩
      · have : k = kc := by rw [hcar.key] at hk2; simpa using hk2.symm
        exact absurd (this ▸ hk1) (hcar.fresh p e ho1')
      · exact h.uniq p q e f k ho1' ho2' hk1 hk2
  · intro p e ho hd
    rw [hlen] at hd ⊢
    rcases (occ_put hp p e).mp ho with ⟨rfl, rfl, _⟩ | ⟨hne, ho'⟩
    · -- the carried element itself
      obtain ⟨f, hf, hfd⟩ := hcar.loc hd
      exact ⟨f, (occ_put hp _ f).mpr (Or.inr ⟨prv_ne hc hp, hf⟩), hfd⟩
    · obtain ⟨f, hf, hfd⟩ := h.loc p e ho' hd
      by_cases hpp : prv t.elems.length p = pos
      · -- its predecessor slot is the one that was overwritten
        rcases hslot with hfree | ⟨e0, he0, hle⟩
        · exact absurd (hpp ▸ hfree) (fun hfr => hf.not_free hfr)
        · have : f = e0 := (hpp ▸ hf).unique he0
          subst this
          refine ⟨c, (occ_put hp _ c).mpr (Or.inl ⟨hpp, rfl, hcar.hash_ne⟩), ?_⟩
          rw [hpp] at hfd ⊢; omega
      · exact ⟨f, (occ_put hp _ f).mpr (Or.inr ⟨hpp, hf⟩), hfd⟩

end PV.C24
