/-
C24 helper lemmas, part 7: definitions and small facts used by the property theorems.
Core Lean only.
-/
import PV.C24.Lemmas6
namespace PV.C24
open List

/-- What a finished run reports, checked against the final store. -/
def DoneAgrees (T : TableImpl) (y : Sys T.τ) (d : Done) : Prop :=
  d.ids.length = d.keys.length ∧
  ∀ kr ∈ d.keys.zip d.ids,
    1 ≤ kr.2 ∧ lookupId T y.store d.ns kr.1 = .ok (some kr.2) ∧ keyOf y.store d.ns kr.2 = .ok kr.1

theorem run_append (T : TableImpl) (a b : List Step) : ∀ (y : Sys T.τ),
    Sys.run T y (a ++ b) = (Sys.run T y a >>= fun y' => Sys.run T y' b) := by
  induction a with
  | nil => intro y; rfl
  | cons st a ih =>
    intro y
    simp only [cons_append, Sys.run]
    cases y.step T st with
    | error e => rfl
    | ok y1 => simp only [ebind_ok]; exact ih y1

/-- The sequence number of a namespace (`none` = no index). -/
def seqOf {τ : Type} (s : Store τ) (ns : NsKey) : Option Nat := (getNs s.nss ns).map (·.seq)

theorem seqOf_good {T : TableImpl} {L : TableLaws T} {s : Store T.τ} {es : List Entry}
    (h : Good T L s es) (ns : NsKey) :
    seqOf s ns = if Spec.hasNs es ns then some (maxId (Spec.pairsOf es ns)) else none := by
  unfold seqOf
  cases hget : getNs s.nss ns with
  | none => simp [h.nss.none ns hget]
  | some ix => obtain ⟨a, _, c⟩ := h.nss.some ns ix hget; simp [a, c]

theorem fileOf_append (a b : List Entry) : Spec.fileOf (a ++ b) = Spec.fileOf a ++ Spec.fileOf b := by
  simp [Spec.fileOf]


end PV.C24
