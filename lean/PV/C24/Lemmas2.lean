/-
C24 helper lemmas, part 2: key lookups in the data file, the finite-map laws of a table
(`TableLaws`), index / namespace / store invariants (`IndexOK`, `GoodNss`, `Good`), appendEntry and
replay keep them.  Core Lean only.
-/
import PV.C24.Lemmas
import PV.C24.Spec
namespace PV.C24
open List

@[simp] theorem ebind_ok {ε α β : Type} (a : α) (f : α → Except ε β) : (Except.ok a >>= f) = f a := rfl
@[simp] theorem ebind_err {ε α β : Type} (e : ε) (f : α → Except ε β) : ((Except.error e : Except ε α) >>= f) = Except.error e := rfl
@[simp] theorem epure {ε α : Type} (a : α) : (pure a : Except ε α) = Except.ok a := rfl

theorem readUvarintAux_append (bs : Bytes) : ∀ (i x s v : Nat) (r t : Bytes),
    readUvarintAux i x s bs = some (v, r) → readUvarintAux i x s (bs ++ t) = some (v, r ++ t) := by
  induction bs with
  | nil => intro i x s v r t h; simp [readUvarintAux] at h
  | cons b bs ih =>
    intro i x s v r t h
    simp only [cons_append, readUvarintAux] at h ⊢
    by_cases h1 : i ≥ 10
    · simp [h1] at h
    · simp only [h1, if_false] at h ⊢
      by_cases h2 : b < 128
      · simp only [h2, if_true] at h ⊢
        by_cases h3 : i = 9 ∧ b > 1
        · simp [h3] at h
        · simp only [h3, if_false, Option.some.injEq, Prod.mk.injEq] at h ⊢
          simp [h.1, h.2]
      · simp only [h2, if_false] at h ⊢
        exact ih _ _ _ _ _ _ h

theorem lookupKey_mono (data x : Bytes) (off : Nat) (k : Bytes)
    (h : lookupKey data off = .ok k) : lookupKey (data ++ x) off = .ok k := by
  unfold lookupKey at h ⊢
  split at h
  · simp at h
  · rename_i hle
    have hle' : ¬ off > (data ++ x).length := by simp; omega
    simp only [hle', if_false]
    split at h
    · simp at h
    · rename_i n rest hr
      have hd : (data ++ x).drop off = data.drop off ++ x := by
        rw [drop_append_of_le_length (by omega)]
      rw [hd, readUvarint, readUvarintAux_append _ _ _ _ _ _ _ (by simpa [readUvarint] using hr)]
      simp only
      split at h
      · rename_i hn
        have : n ≤ (rest ++ x).length := by simp; omega
        simp only [this, if_true]
        simp only [Except.ok.injEq] at h
        rw [take_append_of_le_length hn, h]
      · simp at h

theorem lookupKey_at (a k b : Bytes) (hk : k.length < 2 ^ 64) :
    lookupKey (a ++ (putUvarint k.length ++ (k ++ b))) a.length = .ok k := by
  unfold lookupKey
  have h1 : ¬ a.length > (a ++ (putUvarint k.length ++ (k ++ b))).length := by simp
  simp only [h1, if_false, drop_left]
  rw [readUvarint_put _ _ hk]
  simp


/-! ### the finite-map laws a hash table has to satisfy -/

def KeyAt.le (f g : KeyAt) : Prop := ∀ off k, f off = .ok k → g off = .ok k

theorem KeyAt.le_refl (f : KeyAt) : KeyAt.le f f := fun _ _ h => h

theorem lookupKey_le (data x : Bytes) : KeyAt.le (lookupKey data) (lookupKey (data ++ x)) :=
  fun off k h => lookupKey_mono data x off k h

/-- A table implementation refines a finite map key → id: a validity invariant that holds for the
empty table and is kept by `insert`, lookups that never fail on valid tables and behave like a
map update, and indifference to the key file growing. -/
structure TableLaws (T : TableImpl) where
  Valid : KeyAt → T.τ → Prop
  valid_empty : ∀ ka, Valid ka T.empty
  lookup_empty : ∀ ka k, T.lookup ka T.empty k = .ok none
  lookup_ok : ∀ ka t k, Valid ka t → ∃ r, T.lookup ka t k = .ok r
  insert_ok : ∀ ka t off id k, Valid ka t → ka off = .ok k →
    ∃ t', T.insert ka t off id = .ok t' ∧ Valid ka t' ∧
      ∀ k', T.lookup ka t' k' = if k' = k then .ok (some id) else T.lookup ka t k'
  mono : ∀ ka ka' t, KeyAt.le ka ka' → Valid ka t →
    Valid ka' t ∧ ∀ k, T.lookup ka' t k = T.lookup ka t k

/-! ### what an index holds, in terms of the pairs applied to it -/

def lastId (ps : List (Nat × Bytes)) (key : Bytes) : Option Nat :=
  ps.foldl (fun acc p => if p.2 = key then some p.1 else acc) none

def lastKey (ps : List (Nat × Bytes)) (id : Nat) : Option Bytes :=
  ps.foldl (fun acc p => if p.1 = id then some p.2 else acc) none

def maxId (ps : List (Nat × Bytes)) : Nat := ps.foldl (fun m p => max m p.1) 0

theorem lastId_snoc (ps : List (Nat × Bytes)) (p : Nat × Bytes) (key : Bytes) :
    lastId (ps ++ [p]) key = if p.2 = key then some p.1 else lastId ps key := by
  simp [lastId, foldl_append]

theorem lastKey_snoc (ps : List (Nat × Bytes)) (p : Nat × Bytes) (id : Nat) :
    lastKey (ps ++ [p]) id = if p.1 = id then some p.2 else lastKey ps id := by
  simp [lastKey, foldl_append]

theorem maxId_snoc (ps : List (Nat × Bytes)) (p : Nat × Bytes) :
    maxId (ps ++ [p]) = max (maxId ps) p.1 := by
  simp [maxId, foldl_append]

structure IndexOK (T : TableImpl) (L : TableLaws T) (ka : KeyAt) (ix : Index T.τ)
    (ps : List (Nat × Bytes)) : Prop where
  valid : L.Valid ka ix.tbl
  fwd : ∀ key, T.lookup ka ix.tbl key = .ok (lastId ps key)
  rev : ∀ id, ix.keyByID ka id = .ok (lastKey ps id)

theorem IndexOK.new (T : TableImpl) (L : TableLaws T) (ka : KeyAt) : IndexOK T L ka (newIndex T) [] where
  valid := L.valid_empty ka
  fwd := fun key => by simpa [newIndex, lastId] using L.lookup_empty ka key
  rev := fun id => by simp [newIndex, Index.keyByID, lastKey]

theorem keyByID_mono {τ : Type} (ka ka' : KeyAt) (hle : KeyAt.le ka ka') (ix : Index τ) (id : Nat)
    (r : Option Bytes) (h : ix.keyByID ka id = .ok r) : ix.keyByID ka' id = .ok r := by
  unfold Index.keyByID at h ⊢
  cases hl : ix.offsetsByID.lookup id with
  | none => simpa [hl] using h
  | some off =>
    simp only [hl] at h ⊢
    cases hk : ka off with
    | error e => simp [hk] at h
    | ok k =>
      simp only [hk, ebind_ok, epure, Except.ok.injEq] at h
      simp [hle off k hk, h]

theorem IndexOK.mono {T : TableImpl} {L : TableLaws T} {ka ka' : KeyAt} {ix : Index T.τ}
    {ps : List (Nat × Bytes)} (hle : KeyAt.le ka ka') (h : IndexOK T L ka ix ps) :
    IndexOK T L ka' ix ps where
  valid := (L.mono ka ka' ix.tbl hle h.valid).1
  fwd := fun key => by rw [(L.mono ka ka' ix.tbl hle h.valid).2 key]; exact h.fwd key
  rev := fun id => keyByID_mono ka ka' hle ix id _ (h.rev id)

/-- one step of the pair loop -/
theorem IndexOK.insert {T : TableImpl} {L : TableLaws T} {ka : KeyAt} {ix : Index T.τ}
    {ps : List (Nat × Bytes)} (h : IndexOK T L ka ix ps) (id off : Nat) (key : Bytes)
    (hk : ka off = .ok key) :
    ∃ ix', ix.insert T ka id off = .ok ix' ∧ IndexOK T L ka ix' (ps ++ [(id, key)]) ∧ ix'.seq = ix.seq := by
  obtain ⟨t', ht, hv, hl⟩ := L.insert_ok ka ix.tbl off id key h.valid hk
  refine ⟨{ ix with tbl := t', offsetsByID := (id, off) :: ix.offsetsByID }, ?_, ⟨hv, ?_, ?_⟩, rfl⟩
  · simp [Index.insert, ht]
  · intro key'
    rw [hl key', lastId_snoc]
    by_cases hkk : key' = key
    · simp [hkk]
    · have : ¬ key = key' := fun e => hkk e.symm
      simp [hkk, this, h.fwd key']
  · intro id'
    rw [lastKey_snoc]
    by_cases hid : id = id'
    · subst hid
      simp [Index.keyByID, hk]
    · have h2 := h.rev id'
      simp only [Index.keyByID, List.lookup_cons] at h2 ⊢
      have : (id' == id) = false := by simp; exact fun e => hid e.symm
      simp only [this, hid, if_false]
      exact h2

/-- the offsets `applyEntry` computes point at the keys -/
def OffsOK (ka : KeyAt) : List (Nat × Bytes) → Nat → Prop
  | [], _ => True
  | (id, key) :: ps, off =>
    ka (off + uvarintSize id) = .ok key ∧
      OffsOK ka ps (off + (uvarintSize id + uvarintSize key.length + key.length))

theorem applyPairs_ok {T : TableImpl} {L : TableLaws T} {ka : KeyAt} (new : List (Nat × Bytes)) :
    ∀ (ix : Index T.τ) (ps : List (Nat × Bytes)) (off : Nat), IndexOK T L ka ix ps → OffsOK ka new off →
    ∃ ix', applyPairs T ka ix new off = .ok ix' ∧ IndexOK T L ka ix' (ps ++ new) ∧
      ix'.seq = max ix.seq (maxId new) := by
  induction new with
  | nil => intro ix ps off h _; exact ⟨ix, rfl, by simpa using h, by simp [maxId]⟩
  | cons p new ih =>
    intro ix ps off h ho
    obtain ⟨id, key⟩ := p
    obtain ⟨hk, ho'⟩ := ho
    obtain ⟨ix1, e1, ok1, s1⟩ := h.insert id (off + uvarintSize id) key hk
    let ix2 : Index T.τ := if id > ix1.seq then { ix1 with seq := id } else ix1
    have ok2 : IndexOK T L ka ix2 (ps ++ [(id, key)]) := by
      by_cases c : id > ix1.seq
      · simp only [ix2, c, if_true]; exact ⟨ok1.valid, ok1.fwd, ok1.rev⟩
      · simp only [ix2, c, if_false]; exact ok1
    have s2 : ix2.seq = max ix.seq id := by
      by_cases c : id > ix1.seq
      · simp only [ix2, c, if_true]; omega
      · simp only [ix2, c, if_false]; omega
    obtain ⟨ix', e', ok', s'⟩ := ih ix2 (ps ++ [(id, key)]) _ ok2 ho'
    refine ⟨ix', ?_, by simpa using ok', ?_⟩
    · simp only [applyPairs, e1, ebind_ok]
      exact e'
    · rw [s', s2]
      have : maxId ((id, key) :: new) = max id (maxId new) := by
        simp only [maxId, foldl_cons]
        have gen : ∀ (l : List (Nat × Bytes)) (a : Nat), foldl (fun m p => max m p.1) a l = max a (foldl (fun m p => max m p.1) 0 l) := by
          intro l
          induction l with
          | nil => intro a; simp
          | cons q l ihl => intro a; simp only [foldl_cons]; rw [ihl, ihl (max 0 q.1)]; omega
        rw [gen]; simp
      rw [this]; omega


theorem offsOK_encodePairs (ps : List (Nat × Bytes)) : ∀ (pre post : Bytes),
    (∀ p ∈ ps, p.2.length < 2 ^ 64) →
    OffsOK (lookupKey (pre ++ (encodePairs ps ++ post))) ps pre.length := by
  induction ps with
  | nil => intro _ _ _; trivial
  | cons p ps ih =>
    intro pre post h
    obtain ⟨id, key⟩ := p
    have hp := h (id, key) (by simp)
    have hdata : pre ++ (encodePairs ((id, key) :: ps) ++ post) =
        (pre ++ putUvarint id) ++ (putUvarint key.length ++ (key ++ (encodePairs ps ++ post))) := by
      simp [encodePairs, encodePair, append_assoc]
    constructor
    · rw [hdata]
      have : pre.length + uvarintSize id = (pre ++ putUvarint id).length := by
        simp [uvarintSize_eq]
      rw [this]
      exact lookupKey_at _ _ _ hp
    · have hdata2 : pre ++ (encodePairs ((id, key) :: ps) ++ post) =
          (pre ++ (putUvarint id ++ (putUvarint key.length ++ key))) ++ (encodePairs ps ++ post) := by
        simp [encodePairs, encodePair, append_assoc]
      rw [hdata2]
      have : pre.length + (uvarintSize id + uvarintSize key.length + key.length) =
          (pre ++ (putUvarint id ++ (putUvarint key.length ++ key))).length := by
        simp [uvarintSize_eq]; omega
      rw [this]
      exact ih _ _ (fun q hq => h q (by simp [hq]))

/-- an entry written at the end of `pre`: its pairs are found where applyEntry looks for them -/
theorem offsOK_entry (pre post : Bytes) (e : Entry) (h : ∀ p ∈ e.pairs, p.2.length < 2 ^ 64) :
    OffsOK (lookupKey (pre ++ (encodeEntry e ++ post))) e.pairs
      (pre.length + headerSize e (encodeBody e).length) := by
  have hdata : pre ++ (encodeEntry e ++ post) =
      (pre ++ (putUvarint (encodeBody e).length ++ (e.typ :: (putUvarint e.index.length ++ (e.index ++
        (putUvarint e.field.length ++ (e.field ++ putUvarint e.pairs.length))))))) ++
        (encodePairs e.pairs ++ post) := by
    simp [encodeEntry, encodeBody, append_assoc]
  have hlen : pre.length + headerSize e (encodeBody e).length =
      (pre ++ (putUvarint (encodeBody e).length ++ (e.typ :: (putUvarint e.index.length ++ (e.index ++
        (putUvarint e.field.length ++ (e.field ++ putUvarint e.pairs.length))))))).length := by
    simp [headerSize, uvarintSize_eq]; omega
  rw [hdata, hlen]
  exact offsOK_encodePairs _ _ _ h

/-! ### namespaces -/

theorem getNs_setNs_same {τ : Type} (nss : List (NsKey × Index τ)) (k : NsKey) (ix : Index τ) :
    getNs (setNs nss k ix) k = some ix := by
  induction nss with
  | nil => simp [setNs, getNs]
  | cons p nss ih =>
    obtain ⟨k', ix'⟩ := p
    by_cases h : k' = k
    · simp [setNs, getNs, h]
    · simp [setNs, getNs, h, ih]

theorem getNs_setNs_other {τ : Type} (nss : List (NsKey × Index τ)) (k k2 : NsKey) (ix : Index τ)
    (hne : k2 ≠ k) : getNs (setNs nss k ix) k2 = getNs nss k2 := by
  induction nss with
  | nil => simp [setNs, getNs]; exact fun e => hne e.symm
  | cons p nss ih =>
    obtain ⟨k', ix'⟩ := p
    by_cases h : k' = k
    · subst h
      have : ¬ k' = k2 := fun e => hne e.symm
      simp [setNs, getNs, this]
    · by_cases h2 : k' = k2
      · subst h2; simp [setNs, getNs, h]
      · simp [setNs, getNs, h, h2, ih]

theorem pairsOf_snoc (es : List Entry) (e : Entry) (ns : NsKey) :
    Spec.pairsOf (es ++ [e]) ns = Spec.pairsOf es ns ++ (if Spec.nsOf e = some ns then e.pairs else []) := by
  simp only [Spec.pairsOf, filter_append, flatMap_append]
  by_cases h : Spec.nsOf e = some ns
  · simp [h]
  · simp [h]

theorem hasNs_snoc (es : List Entry) (e : Entry) (ns : NsKey) :
    Spec.hasNs (es ++ [e]) ns = (Spec.hasNs es ns || decide (Spec.nsOf e = some ns)) := by
  simp [Spec.hasNs]

theorem nsOfEntry_eq (e : Entry) (h : e.typ = 1 ∨ e.typ = 2) :
    ∃ k, nsOfEntry e = .ok k ∧ Spec.nsOf e = some k := by
  rcases h with h | h
  · exact ⟨.col e.index, by simp [nsOfEntry, Spec.nsOf, h, LogEntryTypeInsertColumn]⟩
  · exact ⟨.row e.index e.field, by simp [nsOfEntry, Spec.nsOf, h, LogEntryTypeInsertColumn, LogEntryTypeInsertRow]⟩

/-- the in-memory indexes agree with the log `es`, reading keys through `data` -/
structure GoodNss (T : TableImpl) (L : TableLaws T) (data : Bytes) (nss : List (NsKey × Index T.τ))
    (es : List Entry) : Prop where
  none : ∀ ns, getNs nss ns = none → Spec.hasNs es ns = false
  some : ∀ ns ix, getNs nss ns = some ix → Spec.hasNs es ns = true ∧
    IndexOK T L (lookupKey data) ix (Spec.pairsOf es ns) ∧ ix.seq = maxId (Spec.pairsOf es ns)

theorem GoodNss.empty (T : TableImpl) (L : TableLaws T) (data : Bytes) : GoodNss T L data [] [] where
  none := fun _ _ => by simp [Spec.hasNs]
  some := fun _ _ h => by simp [getNs] at h

theorem maxId_fold (l : List (Nat × Bytes)) : ∀ (a : Nat),
    foldl (fun m p => max m p.1) a l = max a (foldl (fun m p => max m p.1) 0 l) := by
  induction l with
  | nil => intro a; simp
  | cons q l ihl => intro a; simp only [foldl_cons]; rw [ihl, ihl (max 0 q.1)]; omega

theorem maxId_append (a b : List (Nat × Bytes)) : maxId (a ++ b) = max (maxId a) (maxId b) := by
  simp only [maxId, foldl_append]
  rw [maxId_fold]

/-- `GoodNss` with the namespace `k` exempted from the sequence / presence conditions: the state
between `idx.seq++` (and the creation of a missing index) and the append in phase 2. -/
structure GoodNssX (T : TableImpl) (L : TableLaws T) (data : Bytes) (nss : List (NsKey × Index T.τ))
    (es : List Entry) (k : NsKey) : Prop where
  none : ∀ ns, getNs nss ns = none → Spec.hasNs es ns = false
  some : ∀ ns ix, getNs nss ns = some ix → IndexOK T L (lookupKey data) ix (Spec.pairsOf es ns) ∧
    (ns ≠ k → Spec.hasNs es ns = true ∧ ix.seq = maxId (Spec.pairsOf es ns))

theorem GoodNss.toX {T : TableImpl} {L : TableLaws T} {data : Bytes} {nss : List (NsKey × Index T.τ)}
    {es : List Entry} (h : GoodNss T L data nss es) (k : NsKey) : GoodNssX T L data nss es k where
  none := h.none
  some := fun ns ix hs => ⟨(h.some ns ix hs).2.1, fun _ => ⟨(h.some ns ix hs).1, (h.some ns ix hs).2.2⟩⟩

theorem pairsOf_nil_of_not_hasNs (es : List Entry) (k : NsKey) (hn : Spec.hasNs es k = false) :
    Spec.pairsOf es k = [] := by
  simp only [Spec.hasNs, any_eq_false] at hn
  simp only [Spec.pairsOf]
  have : es.filter (fun e => Spec.nsOf e = some k) = [] := by
    rw [filter_eq_nil_iff]; intro a ha; simpa using hn a ha
  simp [this]

/-- applyEntry keeps the indexes in agreement with the log.  The index of the entry's namespace
may already have had its sequence advanced by the caller (phase 2 does `idx.seq++` before it
appends), as long as the ids of the entry catch up with it (`hseq`). -/
theorem applyEntry_goodX {T : TableImpl} {L : TableLaws T} {data data' : Bytes}
    {nss : List (NsKey × Index T.τ)} {es : List Entry} (e : Entry) (off : Nat) (k : NsKey)
    (hg : GoodNssX T L data nss es k) (hle : KeyAt.le (lookupKey data) (lookupKey data'))
    (hk : nsOfEntry e = .ok k) (hk2 : Spec.nsOf e = some k)
    (hseq : ∀ ix, getNs nss k = some ix → max ix.seq (maxId e.pairs) = maxId (Spec.pairsOf es k ++ e.pairs))
    (ho : OffsOK (lookupKey data') e.pairs (off + headerSize e (encodeBody e).length)) :
    ∃ nss', applyEntry T data' nss e (encodeBody e).length off = .ok nss' ∧
      GoodNss T L data' nss' (es ++ [e]) := by
  -- the index the pairs go into
  have hix : ∃ ix, (getNs nss k).getD (newIndex T) = ix ∧
      IndexOK T L (lookupKey data') ix (Spec.pairsOf es k) ∧
      max ix.seq (maxId e.pairs) = maxId (Spec.pairsOf es k ++ e.pairs) := by
    cases hget : getNs nss k with
    | none =>
      have hp := pairsOf_nil_of_not_hasNs es k (hg.none k hget)
      refine ⟨newIndex T, rfl, ?_, ?_⟩
      · rw [hp]; exact IndexOK.new T L _
      · rw [hp]; simp [newIndex]
    | some ix =>
      exact ⟨ix, rfl, (hg.some k ix hget).1.mono hle, hseq ix hget⟩
  obtain ⟨ix, hixe, hok, hseq'⟩ := hix
  obtain ⟨ix', e', ok', s'⟩ := applyPairs_ok e.pairs ix _ _ hok ho
  refine ⟨setNs nss k ix', ?_, ?_, ?_⟩
  · simp only [applyEntry, hk, ebind_ok, hixe, e', epure]
  · intro ns hnone
    by_cases hns : ns = k
    · subst hns; rw [getNs_setNs_same] at hnone; simp at hnone
    · rw [getNs_setNs_other _ _ _ _ hns] at hnone
      rw [hasNs_snoc, hg.none ns hnone]
      simp [hk2]; exact fun e => hns e.symm
  · intro ns ix2 hsome
    by_cases hns : ns = k
    · subst hns
      rw [getNs_setNs_same] at hsome
      simp only [Option.some.injEq] at hsome
      subst hsome
      refine ⟨by simp [hasNs_snoc, hk2], ?_, ?_⟩
      · rw [pairsOf_snoc]; simpa [hk2] using ok'
      · rw [pairsOf_snoc, s', hseq']; simp [hk2]
    · rw [getNs_setNs_other _ _ _ _ hns] at hsome
      obtain ⟨h2, h13⟩ := hg.some ns ix2 hsome
      obtain ⟨h1, h3⟩ := h13 hns
      have hne : ¬ Spec.nsOf e = some ns := by rw [hk2]; simp; exact fun e => hns e.symm
      refine ⟨by simp [hasNs_snoc, h1], ?_, ?_⟩
      · rw [pairsOf_snoc]; simpa [hne] using h2.mono hle
      · rw [pairsOf_snoc]; simpa [hne] using h3

theorem applyEntry_good {T : TableImpl} {L : TableLaws T} {data data' : Bytes}
    {nss : List (NsKey × Index T.τ)} {es : List Entry} (e : Entry) (off : Nat)
    (hg : GoodNss T L data nss es) (hle : KeyAt.le (lookupKey data) (lookupKey data'))
    (htyp : e.typ = 1 ∨ e.typ = 2)
    (ho : OffsOK (lookupKey data') e.pairs (off + headerSize e (encodeBody e).length)) :
    ∃ nss', applyEntry T data' nss e (encodeBody e).length off = .ok nss' ∧
      GoodNss T L data' nss' (es ++ [e]) := by
  obtain ⟨k, hk, hk2⟩ := nsOfEntry_eq e htyp
  refine applyEntry_goodX e off k (hg.toX k) hle hk hk2 ?_ ho
  intro ix hget
  rw [(hg.some k ix hget).2.2, maxId_append]

/-! ### the store and its log -/

/-- what applyEntry needs of an entry: a known type, and key lengths that fit their varint -/
def EntryOK (e : Entry) : Prop := (∀ p ∈ e.pairs, p.2.length < 2 ^ 64) ∧ (e.typ = 1 ∨ e.typ = 2)

/-- The store `s` is exactly what the list of committed entries `es` says. -/
structure Good (T : TableImpl) (L : TableLaws T) (s : Store T.τ) (es : List Entry) : Prop where
  data : s.data = Spec.fileOf es
  n : s.n = s.data.length
  wf : ∀ e ∈ es, EntryOK e
  nss : GoodNss T L s.data s.nss es

theorem fileOf_snoc (es : List Entry) (e : Entry) :
    Spec.fileOf (es ++ [e]) = Spec.fileOf es ++ encodeEntry e := by
  simp [Spec.fileOf]

theorem Good.empty (T : TableImpl) (L : TableLaws T) (ro : Bool) : Good T L (Store.empty T.τ ro) [] where
  data := rfl
  n := rfl
  wf := fun _ h => by simp at h
  nss := GoodNss.empty T L _

/-- appendEntry with the index of the entry's namespace possibly pre-advanced (see applyEntry_good):
`nss0` are the indexes the store holds when appendEntry is called. -/
theorem appendEntry_good' {T : TableImpl} {L : TableLaws T} {s : Store T.τ} {es : List Entry}
    (e : Entry) (hdata : s.data = Spec.fileOf es) (hn : s.n = s.data.length)
    (hwf : ∀ e ∈ es, EntryOK e) (hg : GoodNss T L s.data s.nss es) (he : EntryOK e) :
    ∃ s', appendEntry T s e = .ok s' ∧ Good T L s' (es ++ [e]) ∧ s'.readOnly = s.readOnly := by
  have ho : OffsOK (lookupKey (s.data ++ encodeEntry e)) e.pairs (s.n + headerSize e (encodeBody e).length) := by
    have := offsOK_entry s.data [] e he.1
    simpa [hn] using this
  obtain ⟨nss', hap, hg'⟩ := applyEntry_good e s.n hg (lookupKey_le s.data (encodeEntry e)) he.2 ho
  refine ⟨{ s with data := s.data ++ encodeEntry e, n := s.n + (encodeEntry e).length, nss := nss' }, ?_, ?_, rfl⟩
  · simp only [appendEntry, hap, ebind_ok, epure]
  · exact ⟨by simp [fileOf_snoc, hdata], by simp [hn],
      fun x hx => by
        rcases mem_append.mp hx with h | h
        · exact hwf x h
        · simp at h; subst h; exact he,
      hg'⟩

theorem appendEntry_good {T : TableImpl} {L : TableLaws T} {s : Store T.τ} {es : List Entry}
    (e : Entry) (h : Good T L s es) (he : EntryOK e) :
    ∃ s', appendEntry T s e = .ok s' ∧ Good T L s' (es ++ [e]) ∧ s'.readOnly = s.readOnly :=
  appendEntry_good' e h.data h.n h.wf h.nss he

theorem encodeEntry_length_pos (e : Entry) : 0 < (encodeEntry e).length := by
  simp only [encodeEntry, length_append]
  have := putUvarint_ne_nil (encodeBody e).length
  have : 0 < (putUvarint (encodeBody e).length).length := length_pos_iff.mpr this
  omega

theorem encodeEntry_ne_nil (e : Entry) : encodeEntry e ≠ [] := by
  intro h
  have := encodeEntry_length_pos e
  simp [h] at this

/-- replaying the rest of a file whose first part has been replayed -/
theorem replayLoop_good {T : TableImpl} {L : TableLaws T} (es2 : List Entry) :
    ∀ (es1 : List Entry) (nss : List (NsKey × Index T.τ)) (fuel : Nat),
    (∀ e ∈ es1 ++ es2, EntryOK e) → (∀ e ∈ es2, e.WF) →
    GoodNss T L (Spec.fileOf (es1 ++ es2)) nss es1 →
    (Spec.fileOf es2).length < fuel →
    ∃ nss', replayLoop T (Spec.fileOf (es1 ++ es2)) fuel (Spec.fileOf es2) (Spec.fileOf es1).length nss =
        .ok ((Spec.fileOf (es1 ++ es2)).length, nss') ∧
      GoodNss T L (Spec.fileOf (es1 ++ es2)) nss' (es1 ++ es2) := by
  induction es2 with
  | nil =>
    intro es1 nss fuel _ _ hg hf
    cases fuel with
    | zero => omega
    | succ fuel => exact ⟨nss, by simp [replayLoop, Spec.fileOf], by simpa using hg⟩
  | cons e es2 ih =>
    intro es1 nss fuel hwf henc hg hf
    cases fuel with
    | zero => omega
    | succ fuel =>
      have he : EntryOK e := hwf e (by simp)
      have hee : e.WF := henc e (by simp)
      have hfile2 : Spec.fileOf (e :: es2) = encodeEntry e ++ Spec.fileOf es2 := by simp [Spec.fileOf]
      have hne : Spec.fileOf (e :: es2) ≠ [] := by
        rw [hfile2]; intro h; exact encodeEntry_ne_nil e (append_eq_nil_iff.mp h).1
      have hfull : Spec.fileOf (es1 ++ e :: es2) = Spec.fileOf es1 ++ (encodeEntry e ++ Spec.fileOf es2) := by
        simp [Spec.fileOf]
      have ho : OffsOK (lookupKey (Spec.fileOf (es1 ++ e :: es2))) e.pairs
          ((Spec.fileOf es1).length + headerSize e (encodeBody e).length) := by
        rw [hfull]; exact offsOK_entry _ _ e he.1
      obtain ⟨nss1, hap, hg1⟩ := applyEntry_good e (Spec.fileOf es1).length hg (KeyAt.le_refl _) he.2 ho
      have hcat : es1 ++ e :: es2 = (es1 ++ [e]) ++ es2 := by simp
      have hlen : (Spec.fileOf es1).length + (uvarintSize (encodeBody e).length + (encodeBody e).length) =
          (Spec.fileOf (es1 ++ [e])).length := by
        simp [fileOf_snoc, encodeEntry, uvarintSize_eq]
      obtain ⟨nss', hrl, hg'⟩ := ih (es1 ++ [e]) nss1 fuel (by rw [← hcat]; exact hwf)
        (fun x hx => henc x (by simp [hx])) (by rw [← hcat]; exact hg1) (by
          rw [hfile2] at hf; simp only [length_append] at hf
          have := encodeEntry_length_pos e; omega)
      refine ⟨nss', ?_, by rw [hcat]; exact hg'⟩
      rw [replayLoop]
      simp only [hne, if_false]
      rw [hfile2, decodeEntry_encode e _ hee]
      simp only [hap, ebind_ok]
      rw [hlen, hcat]
      exact hrl

/-- Open of a file that holds the entries `es`. -/
theorem replay_good {T : TableImpl} {L : TableLaws T} (es : List Entry) (ro : Bool)
    (hwf : ∀ e ∈ es, EntryOK e) (henc : ∀ e ∈ es, e.WF) :
    ∃ s, replay T (Spec.fileOf es) ro = .ok s ∧ Good T L s es ∧ s.readOnly = ro := by
  obtain ⟨nss', hrl, hg⟩ := replayLoop_good (T := T) (L := L) es [] [] ((Spec.fileOf es).length + 1)
    (by simpa using hwf) henc (by simpa using GoodNss.empty T L _) (by omega)
  refine ⟨⟨Spec.fileOf es, (Spec.fileOf es).length, nss', ro⟩, ?_, ⟨rfl, rfl, hwf, by simpa using hg⟩, rfl⟩
  have : replayLoop T (Spec.fileOf es) ((Spec.fileOf es).length + 1) (Spec.fileOf es) 0 [] =
      .ok ((Spec.fileOf es).length, nss') := by
    simpa [Spec.fileOf] using hrl
  simp only [replay, this, ebind_ok, epure]

end PV.C24
