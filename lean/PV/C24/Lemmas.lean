/-
C24 helper lemmas, part 1: uvarint and LogEntry round trip, offsets of keys inside an appended
entry.  Core Lean only.
-/
import PV.C24.Model
namespace PV.C24
open List

theorem uvarintSize_eq (x : Nat) : uvarintSize x = (putUvarint x).length := by
  induction x using Nat.strongRecOn with
  | _ x ih =>
    rw [uvarintSize, putUvarint]
    split
    · simp
    · rename_i h
      simp only [length_cons]
      rw [ih (x / 128) (by omega)]

theorem putUvarint_ne_nil (x : Nat) : putUvarint x ≠ [] := by
  rw [putUvarint]; split <;> simp

theorem readUvarintAux_put (v : Nat) : ∀ (i x s : Nat) (rest : Bytes), i ≤ 9 → v < 2 ^ (64 - 7 * i) →
    readUvarintAux i x s (putUvarint v ++ rest) = some (x + v * 2 ^ s, rest) := by
  induction v using Nat.strongRecOn with
  | _ v ih =>
    intro i x s rest hi hv
    rw [putUvarint]
    split
    · rename_i h
      simp only [singleton_append, readUvarintAux]
      have h10 : ¬ i ≥ 10 := by omega
      simp only [h10, if_false, h, if_true]
      have : ¬ (i = 9 ∧ v > 1) := by
        rintro ⟨h9, h1⟩
        subst h9
        simp at hv
        omega
      simp [this]
    · rename_i h
      simp only [cons_append, readUvarintAux]
      have h10 : ¬ i ≥ 10 := by omega
      have hb : ¬ (v % 128 + 128 < 128) := by omega
      simp only [h10, if_false, hb]
      have hi9 : i ≠ 9 := by
        intro h9; subst h9; simp at hv; omega
      have hpow : (2:Nat) ^ (64 - 7 * i) = 128 * 2 ^ (64 - 7 * (i + 1)) := by
        have : 64 - 7 * i = (64 - 7 * (i + 1)) + 7 := by omega
        rw [this, Nat.pow_add]; omega
      rw [ih (v / 128) (by omega) (i + 1) _ (s + 7) rest (by omega) (by
        rw [hpow] at hv
        exact Nat.div_lt_of_lt_mul hv)]
      congr 2
      have : (v % 128 + 128) % 128 = v % 128 := by omega
      rw [this, Nat.pow_add]
      have hv' : v = 128 * (v / 128) + v % 128 := (Nat.div_add_mod v 128).symm
      generalize v / 128 = q at *
      generalize v % 128 = r at *
      subst hv'
      generalize 2 ^ s = p
      have e1 : q * (p * 128) = 128 * q * p := by
        rw [Nat.mul_comm p 128, ← Nat.mul_assoc, Nat.mul_comm q 128]
      rw [e1, Nat.add_mul]
      omega

theorem readUvarint_put (v : Nat) (rest : Bytes) (hv : v < 2 ^ 64) :
    readUvarint (putUvarint v ++ rest) = some (v, rest) := by
  have := readUvarintAux_put v 0 0 0 rest (by omega) (by simpa using hv)
  simpa [readUvarint] using this


theorem readN_append (k rest : Bytes) : readN k.length (k ++ rest) = some (k, rest) := by
  simp [readN]

/-- what the encoder requires of an entry: every varint field fits 64 bits. -/
structure Entry.WF (e : Entry) : Prop where
  index : e.index.length < 2 ^ 64
  field : e.field.length < 2 ^ 64
  count : e.pairs.length < 2 ^ 64
  pairs : ∀ p ∈ e.pairs, p.1 < 2 ^ 64 ∧ p.2.length < 2 ^ 64
  body : (encodeBody e).length < 2 ^ 64

theorem decodePairs_encode (ps : List (Nat × Bytes)) (rest : Bytes)
    (h : ∀ p ∈ ps, p.1 < 2 ^ 64 ∧ p.2.length < 2 ^ 64) :
    decodePairs ps.length (encodePairs ps ++ rest) = some (ps, rest) := by
  induction ps with
  | nil => simp [decodePairs, encodePairs]
  | cons p ps ih =>
    obtain ⟨id, key⟩ := p
    have hp := h (id, key) (by simp)
    simp only [encodePairs, map_cons, flatten_cons, encodePair, length_cons, decodePairs, append_assoc]
    rw [readUvarint_put id _ hp.1]
    simp only
    rw [readUvarint_put key.length _ hp.2]
    simp only
    rw [readN_append]
    simp only
    have := ih (fun q hq => h q (by simp [hq]))
    simp only [encodePairs] at this
    rw [this]

theorem decodeEntry_encode (e : Entry) (rest : Bytes) (h : e.WF) :
    decodeEntry (encodeEntry e ++ rest) = some (e, (encodeBody e).length, rest) := by
  simp only [encodeEntry, decodeEntry, append_assoc]
  rw [readUvarint_put _ _ h.body]
  simp only [encodeBody, cons_append, append_assoc]
  rw [readUvarint_put _ _ h.index]
  simp only
  rw [readN_append]
  simp only
  rw [readUvarint_put _ _ h.field]
  simp only
  rw [readN_append]
  simp only
  rw [readUvarint_put _ _ h.count]
  simp only
  rw [decodePairs_encode _ _ h.pairs]

end PV.C24
