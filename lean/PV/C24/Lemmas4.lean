/-
C24 helper lemmas, part 4: logs in which key and id determine each other (`LogFun`), the loops
of the two phases of a translation call (lookupAll, recheck, allocate).  Core Lean only.
-/
import PV.C24.Lemmas3
namespace PV.C24
open List

theorem snoc_induction {α : Type} {P : List α → Prop} (hnil : P [])
    (hsnoc : ∀ l a, P l → P (l ++ [a])) : ∀ l, P l := by
  intro l
  rw [← reverse_reverse l]
  induction l.reverse with
  | nil => simpa using hnil
  | cons a t ih => rw [reverse_cons]; exact hsnoc _ _ ih

/-! ### logs in which key ↔ id is one-to-one -/

/-- in one namespace: equal keys have equal ids and vice versa, ids are positive -/
def LogFun (ps : List (Nat × Bytes)) : Prop :=
  ∀ p ∈ ps, 1 ≤ p.1 ∧ ∀ q ∈ ps, (p.2 = q.2 ↔ p.1 = q.1)

theorem lastId_none_iff (ps : List (Nat × Bytes)) (key : Bytes) :
    lastId ps key = none ↔ ∀ p ∈ ps, p.2 ≠ key := by
  induction ps using snoc_induction with
  | hnil => simp [lastId]
  | hsnoc l a ih =>
    rw [lastId_snoc]
    by_cases h : a.2 = key
    · simp only [h, if_true]
      constructor
      · intro hh; simp at hh
      · intro hh; exact absurd h (hh a (by simp))
    · simp only [h, if_false, ih]
      constructor
      · intro hh p hp
        rcases mem_append.mp hp with hp | hp
        · exact hh p hp
        · simp at hp; subst hp; exact h
      · intro hh p hp; exact hh p (by simp [hp])

theorem lastId_mem (ps : List (Nat × Bytes)) (key : Bytes) (id : Nat) (h : lastId ps key = some id) :
    (id, key) ∈ ps := by
  induction ps using snoc_induction with
  | hnil => simp [lastId] at h
  | hsnoc l a ih =>
    rw [lastId_snoc] at h
    by_cases hk : a.2 = key
    · simp only [hk, if_true, Option.some.injEq] at h
      have : a = (id, key) := by cases a; simp_all
      simp [this]
    · simp only [hk, if_false] at h
      simp [ih h]

theorem lastKey_mem (ps : List (Nat × Bytes)) (id : Nat) (key : Bytes) (h : lastKey ps id = some key) :
    (id, key) ∈ ps := by
  induction ps using snoc_induction with
  | hnil => simp [lastKey] at h
  | hsnoc l a ih =>
    rw [lastKey_snoc] at h
    by_cases hk : a.1 = id
    · simp only [hk, if_true, Option.some.injEq] at h
      have : a = (id, key) := by cases a; simp_all
      simp [this]
    · simp only [hk, if_false] at h
      simp [ih h]

theorem lastKey_none_iff (ps : List (Nat × Bytes)) (id : Nat) :
    lastKey ps id = none ↔ ∀ p ∈ ps, p.1 ≠ id := by
  induction ps using snoc_induction with
  | hnil => simp [lastKey]
  | hsnoc l a ih =>
    rw [lastKey_snoc]
    by_cases h : a.1 = id
    · simp only [h, if_true]
      constructor
      · intro hh; simp at hh
      · intro hh; exact absurd h (hh a (by simp))
    · simp only [h, if_false, ih]
      constructor
      · intro hh p hp
        rcases mem_append.mp hp with hp | hp
        · exact hh p hp
        · simp at hp; subst hp; exact h
      · intro hh p hp; exact hh p (by simp [hp])

theorem LogFun.lastId {ps : List (Nat × Bytes)} (h : LogFun ps) {id : Nat} {key : Bytes}
    (hm : (id, key) ∈ ps) : lastId ps key = some id := by
  cases hl : PV.C24.lastId ps key with
  | none => exact absurd rfl ((lastId_none_iff ps key).mp hl (id, key) hm)
  | some id' =>
    have hm' := lastId_mem ps key id' hl
    have := ((h (id', key) hm').2 (id, key) hm).mp rfl
    simp at this; rw [this]

theorem LogFun.lastKey {ps : List (Nat × Bytes)} (h : LogFun ps) {id : Nat} {key : Bytes}
    (hm : (id, key) ∈ ps) : lastKey ps id = some key := by
  cases hl : PV.C24.lastKey ps id with
  | none => exact absurd rfl ((lastKey_none_iff ps id).mp hl (id, key) hm)
  | some key' =>
    have hm' := lastKey_mem ps id key' hl
    have := ((h (id, key') hm').2 (id, key) hm).mpr rfl
    simp at this; rw [this]

theorem maxId_ge (ps : List (Nat × Bytes)) : ∀ p ∈ ps, p.1 ≤ maxId ps := by
  induction ps using snoc_induction with
  | hnil => simp
  | hsnoc l a ih =>
    intro p hp
    rw [maxId_snoc]
    rcases mem_append.mp hp with hp | hp
    · have := ih p hp; omega
    · simp at hp; subst hp; omega

theorem LogFun.mono {ps qs : List (Nat × Bytes)} (h : LogFun qs) (hsub : ∀ p ∈ ps, p ∈ qs) : LogFun ps :=
  fun p hp => ⟨(h p (hsub p hp)).1, fun q hq => (h p (hsub p hp)).2 q (hsub q hq)⟩

/-! ### the loops of the two phases -/

theorem lookupAll_ok {T : TableImpl} {L : TableLaws T} {ka : KeyAt} {ix : Index T.τ}
    {ps : List (Nat × Bytes)} (h : IndexOK T L ka ix ps) (keys : List Bytes) :
    lookupAll T ka ix keys = .ok (keys.map (fun k => (lastId ps k).getD 0),
      keys.any (fun k => (lastId ps k).isNone)) := by
  induction keys with
  | nil => rfl
  | cons k ks ih =>
    simp only [lookupAll, h.fwd k, ebind_ok, ih, epure, map_cons, any_cons]
    cases hl : lastId ps k <;> simp

theorem recheck_ok {T : TableImpl} {L : TableLaws T} {ka : KeyAt} {ix : Index T.τ}
    {ps : List (Nat × Bytes)} (h : IndexOK T L ka ix ps) : ∀ (keys : List Bytes) (ret : List Nat),
    ret.length = keys.length →
    recheck T ka ix keys ret = .ok
      (zipWith (fun k r => if r ≠ 0 then r else (lastId ps k).getD 0) keys ret,
       (keys.zip ret).any (fun kr => kr.2 = 0 ∧ (lastId ps kr.1).isNone)) := by
  intro keys
  induction keys with
  | nil => intro ret hl; cases ret <;> simp_all [recheck]
  | cons k ks ih =>
    intro ret hl
    cases ret with
    | nil => simp at hl
    | cons r rs =>
      simp only [length_cons, Nat.add_right_cancel_iff] at hl
      simp only [recheck, ih rs hl, ebind_ok, zipWith_cons_cons, zip_cons_cons, any_cons]
      by_cases hr : r ≠ 0
      · simp [hr]
      · simp only [hr, if_false, h.fwd k, ebind_ok]
        have hr0 : r = 0 := by omega
        cases hl2 : lastId ps k <;> simp [hr0]


/-- what phase 2 knows when it starts allocating: non-zero slots are the ids of their keys, zero
slots are keys the namespace does not have -/
def RetFull (ps : List (Nat × Bytes)) (keys : List Bytes) (ret : List Nat) : Prop :=
  ret.length = keys.length ∧ ∀ kr ∈ keys.zip ret,
    (kr.2 ≠ 0 → lastId ps kr.1 = some kr.2) ∧ (kr.2 = 0 → lastId ps kr.1 = none)

theorem LogFun.snoc_dup {l : List (Nat × Bytes)} (h : LogFun l) {p : Nat × Bytes} (hp : p ∈ l) :
    LogFun (l ++ [p]) := by
  have hsub : ∀ q ∈ l ++ [p], q ∈ l := by
    intro q hq
    rcases mem_append.mp hq with hq | hq
    · exact hq
    · simp at hq; subst hq; exact hp
  intro a ha
  exact ⟨(h a (hsub a ha)).1, fun b hb => (h a (hsub a ha)).2 b (hsub b hb)⟩

theorem LogFun.snoc_fresh {l : List (Nat × Bytes)} (h : LogFun l) (v : Nat) (k : Bytes)
    (hv : 1 ≤ v) (hk : ∀ q ∈ l, q.2 ≠ k) (hid : ∀ q ∈ l, q.1 ≠ v) : LogFun (l ++ [(v, k)]) := by
  intro a ha
  rcases mem_append.mp ha with ha | ha
  · refine ⟨(h a ha).1, fun b hb => ?_⟩
    rcases mem_append.mp hb with hb | hb
    · exact (h a ha).2 b hb
    · simp at hb; subst hb
      constructor
      · intro e; exact absurd e (hk a ha)
      · intro e; exact absurd e (hid a ha)
  · simp at ha; subst ha
    refine ⟨hv, fun b hb => ?_⟩
    rcases mem_append.mp hb with hb | hb
    · constructor
      · intro e; exact absurd e.symm (hk b hb)
      · intro e; exact absurd e.symm (hid b hb)
    · simp at hb; subst hb; simp


theorem allocate_nz (k : Bytes) (ks : List Bytes) (r : Nat) (rs : List Nat) (check : List (Bytes × Nat)) (seq : Nat)
    (h : r ≠ 0) : allocate (k :: ks) (r :: rs) check seq =
      (r :: (allocate ks rs check seq).1, (allocate ks rs check seq).2.1, (allocate ks rs check seq).2.2) := by
  rw [allocate]; simp [h]
theorem allocate_hit (k : Bytes) (ks : List Bytes) (rs : List Nat) (check : List (Bytes × Nat)) (seq v : Nat)
    (h : check.lookup k = some v) : allocate (k :: ks) (0 :: rs) check seq =
      (v :: (allocate ks rs check seq).1, (v, k) :: (allocate ks rs check seq).2.1, (allocate ks rs check seq).2.2) := by
  rw [allocate]; simp [h]
theorem allocate_miss (k : Bytes) (ks : List Bytes) (rs : List Nat) (check : List (Bytes × Nat)) (seq : Nat)
    (h : check.lookup k = none) : allocate (k :: ks) (0 :: rs) check seq =
      ((seq + 1) :: (allocate ks rs ((k, seq + 1) :: check) (seq + 1)).1,
       (seq + 1, k) :: (allocate ks rs ((k, seq + 1) :: check) (seq + 1)).2.1,
       (allocate ks rs ((k, seq + 1) :: check) (seq + 1)).2.2) := by
  rw [allocate]; simp [h]

theorem allocate_ok (ps : List (Nat × Bytes)) : ∀ (keys : List Bytes) (ret : List Nat)
    (check : List (Bytes × Nat)) (seq : Nat) (acc : List (Nat × Bytes)),
    RetFull ps keys ret → LogFun (ps ++ acc) → maxId (ps ++ acc) ≤ seq →
    (∀ k v, check.lookup k = some v ↔ (v, k) ∈ acc) →
    ∀ ids new seq', allocate keys ret check seq = (ids, new, seq') →
      ids.length = keys.length ∧ LogFun (ps ++ acc ++ new) ∧ seq' = max seq (maxId new) ∧
      maxId (ps ++ acc ++ new) ≤ seq' ∧
      (∀ kr ∈ keys.zip ids, (kr.2, kr.1) ∈ ps ++ acc ++ new) ∧ (∀ p ∈ new, p.2 ∈ keys) := by
  intro keys
  induction keys with
  | nil =>
    intro ret check seq acc _ hf hm _ ids new seq' hal
    simp only [allocate, Prod.mk.injEq] at hal
    obtain ⟨rfl, rfl, rfl⟩ := hal
    simp only [append_nil, length_nil, zip_nil_left, not_mem_nil, false_implies, implies_true, and_true, true_and]
    exact ⟨hf, by simp [maxId], hm⟩
  | cons k ks ih =>
    intro ret check seq acc hr hf hm hc ids new seq' hal
    cases ret with
    | nil => simp [RetFull] at hr
    | cons r rs =>
      have hr' : RetFull ps ks rs := by
        refine ⟨by have := hr.1; simpa using this, fun kr hkr => hr.2 kr (by simp [hkr])⟩
      have hkr := hr.2 (k, r) (by simp)
      by_cases hr0 : r ≠ 0
      · rcases hal' : allocate ks rs check seq with ⟨ids1, new1, seq1⟩
        rw [allocate_nz _ _ _ _ _ _ hr0, hal'] at hal
        simp only [Prod.mk.injEq] at hal
        obtain ⟨rfl, rfl, rfl⟩ := hal
        obtain ⟨h1, h2, h3, h4, h5, h6⟩ := ih rs check seq acc hr' hf hm hc ids1 new1 seq1 hal'
        refine ⟨by simp [h1], h2, h3, h4, ?_, fun p hp => by simp [h6 p hp]⟩
        intro kr hkr2
        simp only [zip_cons_cons, mem_cons] at hkr2
        rcases hkr2 with rfl | hkr2
        · have := lastId_mem ps k r (hkr.1 hr0)
          simp [this]
        · exact h5 kr hkr2
      · have hr00 : r = 0 := by omega
        have hknone := hkr.2 hr00
        cases hlk : check.lookup k with
        | some v =>
          rcases hal' : allocate ks rs check seq with ⟨ids1, new1, seq1⟩
          subst hr00
          rw [allocate_hit _ _ _ _ _ _ hlk, hal'] at hal
          simp only [Prod.mk.injEq] at hal
          obtain ⟨rfl, rfl, rfl⟩ := hal
          have hmem : (v, k) ∈ acc := (hc k v).mp hlk
          have hf' : LogFun (ps ++ (acc ++ [(v, k)])) := by
            rw [← append_assoc]; exact hf.snoc_dup (by simp [hmem])
          have hm' : maxId (ps ++ (acc ++ [(v, k)])) ≤ seq := by
            rw [← append_assoc, maxId_snoc]
            have := maxId_ge (ps ++ acc) (v, k) (by simp [hmem])
            simp at this; omega
          have hc' : ∀ k' v', check.lookup k' = some v' ↔ (v', k') ∈ acc ++ [(v, k)] := by
            intro k' v'
            rw [hc k' v']
            constructor
            · intro h; simp [h]
            · intro h
              rcases mem_append.mp h with h | h
              · exact h
              · simp at h; rw [h.1, h.2]; exact hmem
          obtain ⟨h1, h2, h3, h4, h5, h6⟩ := ih rs check seq (acc ++ [(v, k)]) hr' hf' hm' hc' ids1 new1 seq1 hal'
          have hassoc : ps ++ (acc ++ [(v, k)]) ++ new1 = ps ++ acc ++ (v, k) :: new1 := by simp
          rw [hassoc] at h2 h4 h5
          refine ⟨by simp [h1], h2, ?_, h4, ?_, ?_⟩
          · have hv : v ≤ seq := by
              have := maxId_ge (ps ++ acc) (v, k) (by simp [hmem])
              simp at this; omega
            have : maxId ((v, k) :: new1) = max v (maxId new1) := by
              simp only [maxId, foldl_cons]; rw [maxId_fold]; simp
            rw [this, h3]; omega
          · intro kr hkr2
            simp only [zip_cons_cons, mem_cons] at hkr2
            rcases hkr2 with rfl | hkr2
            · simp
            · exact h5 kr hkr2
          · intro p hp
            simp only [mem_cons] at hp
            rcases hp with rfl | hp
            · simp
            · simp [h6 p hp]
        | none =>
          rcases hal' : allocate ks rs ((k, seq + 1) :: check) (seq + 1) with ⟨ids1, new1, seq1⟩
          subst hr00
          rw [allocate_miss _ _ _ _ _ hlk, hal'] at hal
          simp only [Prod.mk.injEq] at hal
          obtain ⟨rfl, rfl, rfl⟩ := hal
          have hnotacc : ∀ q ∈ acc, q.2 ≠ k := by
            intro q hq e
            have := (hc k q.1).mpr (by rw [← e]; exact hq)
            rw [hlk] at this; simp at this
          have hf' : LogFun (ps ++ (acc ++ [(seq + 1, k)])) := by
            rw [← append_assoc]
            refine hf.snoc_fresh (seq + 1) k (by omega) ?_ ?_
            · intro q hq
              rcases mem_append.mp hq with hq | hq
              · exact (lastId_none_iff ps k).mp hknone q hq
              · exact hnotacc q hq
            · intro q hq
              have := maxId_ge (ps ++ acc) q hq
              omega
          have hm' : maxId (ps ++ (acc ++ [(seq + 1, k)])) ≤ seq + 1 := by
            rw [← append_assoc, maxId_snoc]; simp; omega
          have hc' : ∀ k' v', ((k, seq + 1) :: check).lookup k' = some v' ↔ (v', k') ∈ acc ++ [(seq + 1, k)] := by
            intro k' v'
            simp only [lookup_cons]
            by_cases hkk : k' = k
            · subst hkk
              simp only [beq_self_eq_true, Option.some.injEq, mem_append, mem_singleton, Prod.mk.injEq, and_true]
              constructor
              · intro h; right; exact h.symm
              · intro h
                rcases h with h | h
                · exact absurd rfl (hnotacc _ h)
                · exact h.symm
            · have : (k' == k) = false := by simp [hkk]
              simp only [this, hc k' v', mem_append, mem_singleton, Prod.mk.injEq, hkk, and_false, or_false]
          obtain ⟨h1, h2, h3, h4, h5, h6⟩ :=
            ih rs ((k, seq + 1) :: check) (seq + 1) (acc ++ [(seq + 1, k)]) hr' hf' hm' hc' ids1 new1 seq1 hal'
          have hassoc : ps ++ (acc ++ [(seq + 1, k)]) ++ new1 = ps ++ acc ++ (seq + 1, k) :: new1 := by simp
          rw [hassoc] at h2 h4 h5
          refine ⟨by simp [h1], h2, ?_, h4, ?_, ?_⟩
          · have : maxId ((seq + 1, k) :: new1) = max (seq + 1) (maxId new1) := by
              simp only [maxId, foldl_cons]; rw [maxId_fold]; simp
            rw [this, h3]; omega
          · intro kr hkr2
            simp only [zip_cons_cons, mem_cons] at hkr2
            rcases hkr2 with rfl | hkr2
            · simp
            · exact h5 kr hkr2
          · intro p hp
            simp only [mem_cons] at hp
            rcases hp with rfl | hp
            · simp
            · simp [h6 p hp]

end PV.C24
