/-
C24, robin-hood table, part 5: overwriting a key that is in the table; the first free slot ahead;
index.insertIDbyOffset as a finite-map update.  Core Lean only.
-/
import PV.C24.LemmasRHH4
namespace PV.C24
open List

/-! ### the key is already in the table -/

/-- overwriting an element by one with the same key (and hence the same hash) -/
theorem put_inv_same {H : Bytes → Nat} {ka : KeyAt} {t : RHH} (h : t.Inv H ka) {s : Nat} {e0 c : Elem}
    {K : Bytes} (ho : Occ t s e0) (hk0 : ka e0.offset = .ok K) (hkc : ka c.offset = .ok K)
    (hh : c.hash = e0.hash) : (t.put s c).Inv H ka := by
  have hp := ho.lt
  have hlen := put_length t s c
  have hcn : c.hash ≠ 0 := hh ▸ ho.2
  refine ⟨put_shape h.shape s c, ?_, ?_, ?_⟩
  · intro p e hoe
    rcases (occ_put hp p e).mp hoe with ⟨_, rfl, _⟩ | ⟨_, ho'⟩
    · obtain ⟨k, hk, hhk⟩ := h.keyed s e0 ho
      have : k = K := by rw [hk0] at hk; simpa using hk.symm
      exact ⟨K, hkc, by rw [hh, hhk, this]⟩
    · exact h.keyed p e ho'
  · intro p q e f k ho1 ho2 hk1 hk2
    rcases (occ_put hp p e).mp ho1 with ⟨rfl, rfl, _⟩ | ⟨hne1, ho1'⟩
    · rcases (occ_put hp q f).mp ho2 with ⟨rfl, _, _⟩ | ⟨hne2, ho2'⟩
      · rfl
      · have : k = K := by rw [hkc] at hk1; simpa using hk1.symm
        exact (h.uniq q p f e0 K ho2' ho (this ▸ hk2) hk0).symm
    · rcases (occ_put hp q f).mp ho2 with ⟨rfl, rfl, _⟩ | ⟨_, ho2'⟩
      · have : k = K := by rw [hkc] at hk2; simpa using hk2.symm
        exact h.uniq p q e e0 K ho1' ho (this ▸ hk1) hk0
      · exact h.uniq p q e f k ho1' ho2' hk1 hk2
  · intro p e hoe hd
    rw [hlen] at hd ⊢
    -- every slot keeps its hash, so all distances are unchanged
    have hprev : ∀ f, Occ t (prv t.elems.length p) f →
        ∃ f', Occ (t.put s c) (prv t.elems.length p) f' ∧ f'.hash = f.hash := by
      intro f hf
      by_cases hpp : prv t.elems.length p = s
      · have : f = e0 := (hpp ▸ hf).unique ho
        exact ⟨c, (occ_put hp _ c).mpr (Or.inl ⟨hpp, rfl, hcn⟩), by rw [hh, this]⟩
      · exact ⟨f, (occ_put hp _ f).mpr (Or.inr ⟨hpp, hf⟩), rfl⟩
    rcases (occ_put hp p e).mp hoe with ⟨rfl, rfl, _⟩ | ⟨hne, ho'⟩
    · rw [hh] at hd ⊢
      obtain ⟨f, hf, hfd⟩ := h.loc p e0 ho hd
      obtain ⟨f', hf', hfh⟩ := hprev f hf
      exact ⟨f', hf', by rw [hfh]; exact hfd⟩
    · obtain ⟨f, hf, hfd⟩ := h.loc p e ho' hd
      obtain ⟨f', hf', hfh⟩ := hprev f hf
      exact ⟨f', hf', by rw [hfh]; exact hfd⟩

/-- the insert loop when the key is in the table (slot `s`): it walks there without a swap and
overwrites the slot -/
theorem insertLoop_present {H : Bytes → Nat} {ka : KeyAt} {t : RHH} (h : t.Inv H ka) {s : Nat} {e0 : Elem}
    {K : Bytes} (ho : Occ t s e0) (hk0 : ka e0.offset = .ok K) (off id : Nat) :
    ∀ (n d fuel : Nat), d + n = D t.elems.length e0.hash s → n < fuel →
    RHH.insertLoop ka K fuel t e0.hash off id (posAt t.elems.length e0.hash d) d =
      .ok (t.put s ⟨off, id, e0.hash⟩, true) := by
  have hc := h.shape.cap_gt
  intro n
  induction n with
  | zero =>
    intro d fuel hd hf
    cases fuel with
    | zero => omega
    | succ fuel =>
      have hd' : d = D t.elems.length e0.hash s := by omega
      rw [hd', posAt_D hc e0.hash ho.lt]
      simp only [RHH.insertLoop, get_occ ho, ebind_ok, ho.2, if_false, hk0, if_true, epure]
      rfl
  | succ n ih =>
    intro d fuel hd hf
    cases fuel with
    | zero => omega
    | succ fuel =>
      obtain ⟨f, hfo, hfd⟩ := h.walk ho d (by omega)
      have hne : posAt t.elems.length e0.hash d ≠ s := by
        intro heq
        have := D_posAt hc e0.hash (j := d) (by have := D_lt hc e0.hash s; omega)
        rw [heq] at this; omega
      obtain ⟨kf, hkf, _⟩ := h.keyed _ f hfo
      have hkne : ¬ kf = K := fun heq => hne (h.uniq _ _ f e0 K hfo ho (heq ▸ hkf) hk0)
      have hnsw : ¬ D t.elems.length f.hash (posAt t.elems.length e0.hash d) < d := by omega
      have hnext := ih (d + 1) fuel (by omega) (by omega)
      rw [← nxt_posAt hc] at hnext
      simp only [RHH.insertLoop, get_occ hfo, ebind_ok, hfo.2, if_false, hkf, hkne, h.shape.dist_eq,
        hnsw, h.shape.next_eq]
      exact hnext

/-! ### a free slot ahead -/

theorem exists_free_of_count {t : RHH} (h : countNE t < t.elems.length) : ∃ q, Free t q := by
  unfold countNE at h
  have gen : ∀ (l : List Elem), countP (fun (e : Elem) => decide (e.hash ≠ 0)) l < l.length →
      ∃ (q : Nat) (e : Elem), l[q]? = some e ∧ e.hash = 0 := by
    intro l
    induction l with
    | nil => intro h; simp at h
    | cons x xs ih =>
      intro h
      by_cases hx : x.hash = 0
      · exact ⟨0, x, by simp, hx⟩
      · have : countP (fun (e : Elem) => decide (e.hash ≠ 0)) xs < xs.length := by
          rw [countP_cons] at h
          have hd : decide (x.hash ≠ 0) = true := by simpa using hx
          simp only [hd, if_true, length_cons] at h
          omega
        obtain ⟨q, e, hq, he⟩ := ih this
        exact ⟨q + 1, e, by simpa using hq, he⟩
  obtain ⟨q, e, hq, he⟩ := gen t.elems h
  exact ⟨q, e, hq, he⟩

theorem Free.lt {t : RHH} {p : Nat} (h : Free t p) : p < t.elems.length := by
  obtain ⟨e, he, _⟩ := h
  by_cases c : p < t.elems.length
  · exact c
  · rw [getElem?_eq_none (by omega)] at he; simp at he

theorem least_nat (P : Nat → Prop) : ∀ n, P n → ∃ j, j ≤ n ∧ P j ∧ ∀ i < j, ¬ P i := by
  intro n
  induction n using Nat.strongRecOn with
  | _ n ih =>
    intro hn
    by_cases hex : ∃ m, m < n ∧ P m
    · obtain ⟨m, hm, hpm⟩ := hex
      obtain ⟨j, hj, hpj, hmin⟩ := ih m hm hpm
      exact ⟨j, by omega, hpj, hmin⟩
    · exact ⟨n, Nat.le_refl _, hn, fun i hi hpi => hex ⟨i, hi, hpi⟩⟩

/-- from any slot, the first free slot ahead (all slots before it are occupied) -/
theorem first_free {t : RHH} (hc : 1 < t.elems.length) {pos : Nat} (hp : pos < t.elems.length)
    (hfree : ∃ q, Free t q) :
    ∃ j, j < t.elems.length ∧ Free t (adv t.elems.length pos j) ∧
      ∀ i < j, ∃ e, Occ t (adv t.elems.length pos i) e := by
  obtain ⟨q, hq⟩ := hfree
  have hql := hq.lt
  have hj0 : adv t.elems.length pos ((q + t.elems.length - pos) % t.elems.length) = q := by
    unfold adv
    rw [mod2 (q + t.elems.length - pos) _ (by omega)]
    split <;> (rw [mod2 _ _ (by omega)]; split <;> omega)
  obtain ⟨j, hj, hpj, hmin⟩ := least_nat (fun i => Free t (adv t.elems.length pos i)) _ (hj0.symm ▸ hq)
  have hjl : j < t.elems.length := by
    have : (q + t.elems.length - pos) % t.elems.length < t.elems.length := Nat.mod_lt _ (by omega)
    omega
  refine ⟨j, hjl, hpj, fun i hi => ?_⟩
  rcases occ_or_free t (adv_lt hc pos i) with ho | hf
  · exact ho
  · exact absurd hf (hmin i hi)

/-- a key has at most one id -/
theorem RHH.Inv.maps_fun {H : Bytes → Nat} {ka : KeyAt} {t : RHH} (h : t.Inv H ka) {key : Bytes} {a b : Nat}
    (ha : Maps ka t key a) (hb : Maps ka t key b) : a = b := by
  obtain ⟨p, e, ho, hk, hid⟩ := ha
  obtain ⟨q, f, hof, hkf, hidf⟩ := hb
  have hpq := h.uniq p q e f key ho hof hk hkf
  subst hpq
  have : e = f := ho.unique hof
  rw [← hid, ← hidf, this]

/-- index.insertIDbyOffset on a table with a free slot -/
theorem insertIDbyOffset_spec {H : Bytes → Nat} {ka : KeyAt} {t : RHH} (h : t.Inv H ka)
    (hroom : countNE t < t.elems.length) (off id : Nat) (K : Bytes) (hk : ka off = .ok K) :
    ∃ t' ow, RHH.insertIDbyOffset H ka t off id = .ok (t', ow) ∧ t'.Inv H ka ∧
      t'.elems.length = t.elems.length ∧ t'.mask = t.mask ∧ t'.n = t.n ∧ t'.threshold = t.threshold ∧
      (∀ key id', Maps ka t' key id' ↔ (key = K ∧ id' = id) ∨ (Maps ka t key id' ∧ key ≠ K)) ∧
      countNE t' = countNE t + (if ow then 0 else 1) := by
  have hc := h.shape.cap_gt
  unfold RHH.insertIDbyOffset
  simp only [hk, ebind_ok, h.shape.home_eq]
  by_cases hex : ∃ id0, Maps ka t K id0
  · -- present: overwrite
    obtain ⟨id0, s, e0, ho, hk0, _⟩ := hex
    obtain ⟨k', hk', hh⟩ := h.keyed s e0 ho
    have hkk : k' = K := by rw [hk0] at hk'; simpa using hk'.symm
    rw [hkk] at hh
    rw [← hh]
    have hrun := insertLoop_present h ho hk0 off id (D t.elems.length e0.hash s) 0 (t.elems.length + 1)
      (by simp) (by have := D_lt hc e0.hash s; omega)
    refine ⟨_, true, hrun, put_inv_same h ho hk0 (c := ⟨off, id, e0.hash⟩) hk rfl, put_length _ _ _, rfl, rfl, rfl, ?_, ?_⟩
    · intro key id'
      exact maps_put_occ h ho hk0 (c := ⟨off, id, e0.hash⟩) ho.2 hk key id'
    · simp [countNE_put_occ ho (c := ⟨off, id, e0.hash⟩) ho.2]
  · -- absent: robin-hood insertion
    have hno : ∀ p e, Occ t p e → ka e.offset ≠ .ok K := fun p e ho hke => hex ⟨e.id, p, e, ho, hke, rfl⟩
    have hpos := posAt_lt hc (hashKey H K) 0
    obtain ⟨j, hjl, hfree, hocc⟩ := first_free hc hpos (exists_free_of_count hroom)
    have hD0 : D t.elems.length (hashKey H K) (posAt t.elems.length (hashKey H K) 0) = 0 :=
      D_posAt hc _ (by omega)
    have hhne : hashKey H K ≠ 0 := by unfold hashKey; split <;> omega
    have hcar : Carried H ka t ⟨off, id, hashKey H K⟩ (posAt t.elems.length (hashKey H K) 0) K :=
      ⟨hpos, hhne, hk, rfl, hno, fun hd => by simp only [hD0] at hd; omega⟩
    obtain ⟨t', hrun, hinv, hl, hm, hn, hth, hmaps, hcnt⟩ :=
      insertLoop_absent K j t ⟨off, id, hashKey H K⟩ _ K (t.elems.length + 1) h hcar
        (by simp only [hD0]; omega)
        (fun i hi => by obtain ⟨e, he⟩ := hocc i hi; exact ⟨e, he, hno _ e he⟩)
        hfree (by omega)
    simp only [hD0] at hrun
    refine ⟨t', false, hrun, hinv, hl, hm, hn, hth, ?_, by simp [hcnt]⟩
    intro key id'
    rw [hmaps]
    constructor
    · rintro (hm' | ⟨rfl, rfl⟩)
      · right
        refine ⟨hm', fun heq => ?_⟩
        obtain ⟨p, e, ho, hke, _⟩ := hm'
        exact hno p e ho (heq ▸ hke)
      · exact Or.inl ⟨rfl, rfl⟩
    · rintro (⟨rfl, rfl⟩ | ⟨hm', _⟩)
      · exact Or.inr ⟨rfl, rfl⟩
      · exact Or.inl hm'

end PV.C24
