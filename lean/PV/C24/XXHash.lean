/-
XXH64 (seed 0) as in github.com/cespare/xxhash v1.1.0 `Sum64`, used only by the model driver so
that the robin-hood table of the model has the same layout as the one in the running code.
The theorems never look inside: they hold for every hash function.  Core Lean only.
-/
namespace PV.C24.XX

def prime1 : UInt64 := 11400714785074694791
def prime2 : UInt64 := 14029467366897019727
def prime3 : UInt64 := 1609587929392839161
def prime4 : UInt64 := 9650029242287828579
def prime5 : UInt64 := 2870177450012600261

@[inline] def rol (x : UInt64) (r : UInt64) : UInt64 := (x <<< r) ||| (x >>> (64 - r))

def round (acc input : UInt64) : UInt64 :=
  (rol (acc + input * prime2) 31) * prime1

def mergeRound (acc val : UInt64) : UInt64 :=
  (acc ^^^ round 0 val) * prime1 + prime4

/-- little-endian read of `k` bytes starting at `i`. -/
def le (b : Array UInt8) (i k : Nat) : UInt64 := Id.run do
  let mut v : UInt64 := 0
  for j in [0:k] do
    v := v ||| ((b[i + j]!).toUInt64 <<< (8 * j).toUInt64)
  return v

def sum64 (b : Array UInt8) : UInt64 := Id.run do
  let n := b.size
  let mut h : UInt64 := 0
  let mut i := 0
  if n ≥ 32 then
    let mut v1 : UInt64 := prime1 + prime2
    let mut v2 : UInt64 := prime2
    let mut v3 : UInt64 := 0
    let mut v4 : UInt64 := 0 - prime1
    for _ in [0:n / 32] do
      v1 := round v1 (le b i 8)
      v2 := round v2 (le b (i + 8) 8)
      v3 := round v3 (le b (i + 16) 8)
      v4 := round v4 (le b (i + 24) 8)
      i := i + 32
    h := rol v1 1 + rol v2 7 + rol v3 12 + rol v4 18
    h := mergeRound h v1
    h := mergeRound h v2
    h := mergeRound h v3
    h := mergeRound h v4
  else
    h := prime5
  h := h + n.toUInt64
  for _ in [0:(n - i) / 8] do
    let k1 := round 0 (le b i 8)
    h := h ^^^ k1
    h := rol h 27 * prime1 + prime4
    i := i + 8
  if i + 4 ≤ n then
    h := h ^^^ (le b i 4 * prime1)
    h := rol h 23 * prime2 + prime3
    i := i + 4
  for _ in [0:n - i] do
    h := h ^^^ ((b[i]!).toUInt64 * prime5)
    h := rol h 11 * prime1
    i := i + 1
  h := h ^^^ (h >>> 33)
  h := h * prime2
  h := h ^^^ (h >>> 29)
  h := h * prime3
  h := h ^^^ (h >>> 32)
  return h

/-- The hash parameter the driver instantiates the model with. -/
def hashBytes (bs : List Nat) : Nat :=
  (sum64 (bs.map (fun b => b.toUInt8)).toArray).toNat

end PV.C24.XX
