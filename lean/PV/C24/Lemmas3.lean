/-
C24 helper lemmas, part 3: decoders ignore what follows an entry, a cut inside an entry decodes
to nothing, replicate on any prefix of the missing entries, translateFileReader hands out a piece
of the file.  Core Lean only.
-/
import PV.C24.Lemmas2
namespace PV.C24
open List

theorem readN_append_stable (n : Nat) (bs t k r : Bytes) (h : readN n bs = some (k, r)) :
    readN n (bs ++ t) = some (k, r ++ t) := by
  unfold readN at h ⊢
  split at h
  · rename_i hn
    have : n ≤ (bs ++ t).length := by simp; omega
    simp only [this, if_true]
    simp only [Option.some.injEq, Prod.mk.injEq] at h
    rw [take_append_of_le_length hn, drop_append_of_le_length hn, h.1, h.2]
  · simp at h

theorem readUvarint_append (bs t : Bytes) (v : Nat) (r : Bytes) (h : readUvarint bs = some (v, r)) :
    readUvarint (bs ++ t) = some (v, r ++ t) :=
  readUvarintAux_append bs 0 0 0 v r t h

theorem decodePairs_append (k : Nat) : ∀ (bs t : Bytes) (ps : List (Nat × Bytes)) (r : Bytes),
    decodePairs k bs = some (ps, r) → decodePairs k (bs ++ t) = some (ps, r ++ t) := by
  induction k with
  | zero => intro bs t ps r h; simp [decodePairs] at h ⊢; simp [h.1, h.2]
  | succ k ih =>
    intro bs t ps r h
    simp only [decodePairs] at h ⊢
    cases h1 : readUvarint bs with
    | none => simp [h1] at h
    | some p1 =>
      obtain ⟨id, bs1⟩ := p1
      simp only [h1] at h
      rw [readUvarint_append _ t _ _ h1]
      simp only
      cases h2 : readUvarint bs1 with
      | none => simp [h2] at h
      | some p2 =>
        obtain ⟨sz, bs2⟩ := p2
        simp only [h2] at h
        rw [readUvarint_append _ t _ _ h2]
        simp only
        cases h3 : readN sz bs2 with
        | none => simp [h3] at h
        | some p3 =>
          obtain ⟨key, bs3⟩ := p3
          simp only [h3] at h
          rw [readN_append_stable _ _ t _ _ h3]
          simp only
          cases h4 : decodePairs k bs3 with
          | none => simp [h4] at h
          | some p4 =>
            obtain ⟨ps', bs4⟩ := p4
            simp only [h4, Option.some.injEq, Prod.mk.injEq] at h
            rw [ih _ t _ _ h4]
            simp [h.1, h.2]

theorem decodeEntry_append (bs t : Bytes) (e : Entry) (l : Nat) (r : Bytes)
    (h : decodeEntry bs = some (e, l, r)) : decodeEntry (bs ++ t) = some (e, l, r ++ t) := by
  simp only [decodeEntry] at h ⊢
  cases h0 : readUvarint bs with
  | none => simp [h0] at h
  | some p0 =>
    obtain ⟨len, bs0⟩ := p0
    simp only [h0] at h
    rw [readUvarint_append _ t _ _ h0]
    simp only
    cases bs0 with
    | nil => simp at h
    | cons typ bs1 =>
      simp only [cons_append] at h ⊢
      cases h1 : readUvarint bs1 with
      | none => simp [h1] at h
      | some p1 =>
        obtain ⟨isz, bs2⟩ := p1
        simp only [h1] at h
        rw [readUvarint_append _ t _ _ h1]
        simp only
        cases h2 : readN isz bs2 with
        | none => simp [h2] at h
        | some p2 =>
          obtain ⟨index, bs3⟩ := p2
          simp only [h2] at h
          rw [readN_append_stable _ _ t _ _ h2]
          simp only
          cases h3 : readUvarint bs3 with
          | none => simp [h3] at h
          | some p3 =>
            obtain ⟨fsz, bs4⟩ := p3
            simp only [h3] at h
            rw [readUvarint_append _ t _ _ h3]
            simp only
            cases h4 : readN fsz bs4 with
            | none => simp [h4] at h
            | some p4 =>
              obtain ⟨field, bs5⟩ := p4
              simp only [h4] at h
              rw [readN_append_stable _ _ t _ _ h4]
              simp only
              cases h5 : readUvarint bs5 with
              | none => simp [h5] at h
              | some p5 =>
                obtain ⟨cnt, bs6⟩ := p5
                simp only [h5] at h
                rw [readUvarint_append _ t _ _ h5]
                simp only
                cases h6 : decodePairs cnt bs6 with
                | none => simp [h6] at h
                | some p6 =>
                  obtain ⟨ps, bs7⟩ := p6
                  simp only [h6, Option.some.injEq, Prod.mk.injEq] at h
                  rw [decodePairs_append _ _ t _ _ h6]
                  simp [h.1, h.2.1, h.2.2]

/-- a cut inside an entry: nothing decodes -/
theorem decodeEntry_strict_prefix (e : Entry) (he : e.WF) (pre x : Bytes) (hx : x ≠ [])
    (h : pre ++ x = encodeEntry e) : decodeEntry pre = none := by
  cases hd : decodeEntry pre with
  | none => rfl
  | some p =>
    obtain ⟨e', l', r'⟩ := p
    have h1 := decodeEntry_append pre x e' l' r' hd
    have h2 := decodeEntry_encode e [] he
    rw [append_nil, ← h, h1] at h2
    simp only [Option.some.injEq, Prod.mk.injEq] at h2
    have := h2.2.2
    simp at this
    exact absurd this.2 hx

theorem decodeEntry_nil : decodeEntry [] = none := by
  simp [decodeEntry, readUvarint, readUvarintAux]

theorem fileOf_cons (e : Entry) (es : List Entry) : Spec.fileOf (e :: es) = encodeEntry e ++ Spec.fileOf es := by
  simp [Spec.fileOf]

/-- replicate on a stream that is any prefix of the entries the replica is missing -/
theorem replicateLoop_good {T : TableImpl} {L : TableLaws T} (rest : List Entry) :
    ∀ (r : Store T.τ) (es1 : List Entry) (stream tail : Bytes) (fuel : Nat),
    (∀ e ∈ rest, EntryOK e) → (∀ e ∈ rest, e.WF) → Good T L r es1 → stream ++ tail = Spec.fileOf rest → stream.length < fuel →
    ∃ r' j, replicateLoop T fuel r stream = .ok r' ∧ Good T L r' (es1 ++ rest.take j) ∧
      r'.readOnly = r.readOnly ∧ j ≤ rest.length ∧ (tail = [] → j = rest.length) := by
  induction rest with
  | nil =>
    intro r es1 stream tail fuel _ _ hg hst hf
    simp [Spec.fileOf] at hst
    cases fuel with
    | zero => omega
    | succ fuel =>
      refine ⟨r, 0, ?_, by simpa using hg, rfl, by simp, fun _ => rfl⟩
      simp [replicateLoop, hst.1, decodeEntry_nil]
  | cons e rest ih =>
    intro r es1 stream tail fuel hwf henc hg hst hf
    have he : EntryOK e := hwf e (by simp)
    have hee : e.WF := henc e (by simp)
    cases fuel with
    | zero => omega
    | succ fuel =>
      rw [fileOf_cons] at hst
      rcases append_eq_append_iff.mp hst with ⟨a', ha1, ha2⟩ | ⟨c', hc1, hc2⟩
      · -- the stream ends inside (or exactly at the end of) `e`
        by_cases hnil : a' = []
        · subst hnil
          simp only [append_nil] at ha1
          obtain ⟨r1, hap, hg1, hro⟩ := appendEntry_good e hg he
          obtain ⟨r', j, hrl, hg', hro', hj, hall⟩ := ih r1 (es1 ++ [e]) [] tail fuel
            (fun x hx => hwf x (by simp [hx])) (fun x hx => henc x (by simp [hx])) hg1 (by simpa using ha2) (by
              have := encodeEntry_length_pos e
              rw [ha1] at this; simp only [length_nil]; omega)
          refine ⟨r', j + 1, ?_, by simpa using hg', by rw [hro', hro], by simp; omega, fun ht => by simp [hall ht]⟩
          rw [replicateLoop, ← ha1]
          have := decodeEntry_encode e [] hee
          rw [append_nil] at this
          simp only [this, hap, ebind_ok]
          exact hrl
        · refine ⟨r, 0, ?_, by simpa using hg, rfl, by simp, fun ht => ?_⟩
          · rw [replicateLoop, decodeEntry_strict_prefix e hee stream a' hnil ha1.symm]
          · subst ht; simp at ha2; exact absurd ha2.1 hnil
      · -- the stream holds all of `e`
        obtain ⟨r1, hap, hg1, hro⟩ := appendEntry_good e hg he
        obtain ⟨r', j, hrl, hg', hro', hj, hall⟩ := ih r1 (es1 ++ [e]) c' tail fuel
          (fun x hx => hwf x (by simp [hx])) (fun x hx => henc x (by simp [hx])) hg1 hc2.symm (by
            subst hc1; simp only [length_append] at hf; have := encodeEntry_length_pos e; omega)
        refine ⟨r', j + 1, ?_, by simpa using hg', by rw [hro', hro], by simp; omega, fun ht => by simp [hall ht]⟩
        rw [replicateLoop, hc1, decodeEntry_encode e c' hee]
        simp only [hap, ebind_ok]
        exact hrl

/-- what translateFileReader hands out is a piece of the file starting at the reader's offset -/
theorem readerChunks_flatten (data : Bytes) (limit : Nat) (sizes : List Nat) : ∀ (off : Nat),
    ∃ m, (readerChunks data limit off sizes).flatten = (data.drop off).take m ∧
      off + m ≤ max off (min limit data.length) := by
  induction sizes with
  | nil => intro off; exact ⟨0, by simp [readerChunks], by omega⟩
  | cons sz sizes ih =>
    intro off
    simp only [readerChunks]
    by_cases h : off ≥ min limit data.length
    · simp only [h, if_true]; exact ⟨0, by simp, by omega⟩
    · simp only [h, if_false]
      obtain ⟨m, hm, hb⟩ := ih (off + min sz (min limit data.length - off))
      refine ⟨min sz (min limit data.length - off) + m, ?_, by omega⟩
      simp only [flatten_cons, hm]
      rw [take_add, drop_drop]

end PV.C24
