/-
C24 helper lemmas, part 6: observables of a store that agrees with its log; the invariant of the
system of interleaved phases.  Core Lean only.
-/
import PV.C24.Lemmas5
namespace PV.C24
open List

/-! ### observables of a store that agrees with its log -/

theorem lookupId_good {T : TableImpl} {L : TableLaws T} {s : Store T.τ} {es : List Entry}
    (h : Good T L s es) (ns : NsKey) (key : Bytes) :
    lookupId T s ns key = .ok (lastId (Spec.pairsOf es ns) key) := by
  unfold lookupId
  cases hget : getNs s.nss ns with
  | none => simp [pairsOf_nil_of_not_hasNs es ns (h.nss.none ns hget), lastId]
  | some ix => exact (h.nss.some ns ix hget).2.1.fwd key

theorem keyOf_good {T : TableImpl} {L : TableLaws T} {s : Store T.τ} {es : List Entry}
    (h : Good T L s es) (ns : NsKey) (id : Nat) :
    keyOf s ns id = .ok ((lastKey (Spec.pairsOf es ns) id).getD []) := by
  unfold keyOf
  cases hget : getNs s.nss ns with
  | none => simp [pairsOf_nil_of_not_hasNs es ns (h.nss.none ns hget), lastKey]
  | some ix =>
    simp only [(h.nss.some ns ix hget).2.1.rev id, ebind_ok]
    cases lastKey (Spec.pairsOf es ns) id <;> rfl

/-! ### the invariant of the interleaving system -/

def StepOK : Step → Prop
  | .start _ keys => ∀ k ∈ keys, k.length < 2 ^ 64
  | .finish _ => True

structure SysInv (T : TableImpl) (L : TableLaws T) (y : Sys T.τ) (es : List Entry) : Prop where
  good : Good T L y.store es
  log : LogOKAll es
  pend : ∀ p ∈ y.pending, RetOK (Spec.pairsOf es p.ns) p.keys p.ret ∧ ∀ k ∈ p.keys, k.length < 2 ^ 64
  done : ∀ d ∈ y.done, d.ok = true → ResOK (Spec.pairsOf es d.ns) d.keys d.ids

theorem RetOK.mono {ps ps' : List (Nat × Bytes)} {keys : List Bytes} {ret : List Nat}
    (h : RetOK ps keys ret) (hsub : ∀ p ∈ ps, p ∈ ps') (hf : LogFun ps') : RetOK ps' keys ret :=
  ⟨h.1, fun kr hkr hne => hf.lastId (hsub _ (lastId_mem ps kr.1 kr.2 (h.2 kr hkr hne)))⟩

theorem ResOK.mono {ps ps' : List (Nat × Bytes)} {keys : List Bytes} {ids : List Nat}
    (h : ResOK ps keys ids) (hsub : ∀ p ∈ ps, p ∈ ps') : ResOK ps' keys ids :=
  ⟨h.1, fun kr hkr => ⟨(h.2 kr hkr).1, hsub _ (h.2 kr hkr).2⟩⟩

theorem step_inv {T : TableImpl} {L : TableLaws T} {y : Sys T.τ} {es : List Entry}
    (h : SysInv T L y es) (st : Step) (hst : StepOK st) :
    ∃ y' es', y.step T st = .ok y' ∧ SysInv T L y' es' ∧
      (∀ ns, ∀ p ∈ Spec.pairsOf es ns, p ∈ Spec.pairsOf es' ns) ∧
      (∃ l, y'.done = y.done ++ l) := by
  cases st with
  | start ns keys =>
    obtain ⟨dn, hp1, hdn⟩ := phase1_ok h.good ns keys
    simp only [Sys.step, hp1, ebind_ok]
    cases dn with
    | true =>
      refine ⟨_, es, rfl, ⟨h.good, h.log, h.pend, ?_⟩, fun _ p hp => hp, ⟨_, rfl⟩⟩
      intro d hd hok
      rcases mem_append.mp hd with hd | hd
      · exact h.done d hd hok
      · simp at hd; subst hd
        exact ResOK_of_all_found (h.log ns) keys (hdn rfl)
    | false =>
      by_cases hro : y.store.readOnly = true
      · simp only [Bool.false_eq_true, if_false, hro, if_true]
        refine ⟨_, es, rfl, ⟨h.good, h.log, h.pend, ?_⟩, fun _ p hp => hp, ⟨_, rfl⟩⟩
        intro d hd hok
        rcases mem_append.mp hd with hd | hd
        · exact h.done d hd hok
        · simp at hd; subst hd; simp at hok
      · simp only [Bool.false_eq_true, if_false, hro]
        refine ⟨_, es, rfl, ⟨h.good, h.log, ?_, h.done⟩, fun _ p hp => hp, ⟨[], by simp⟩⟩
        intro p hp
        rcases mem_append.mp hp with hp | hp
        · exact h.pend p hp
        · simp at hp; subst hp
          exact ⟨RetOK_of_phase1 _ keys, hst⟩
  | finish i =>
    simp only [Sys.step]
    cases hi : y.pending[i]? with
    | none => exact ⟨y, es, rfl, h, fun _ p hp => hp, ⟨[], by simp⟩⟩
    | some p =>
      have hmem : p ∈ y.pending := mem_of_getElem? hi
      obtain ⟨hret, hfit⟩ := h.pend p hmem
      obtain ⟨s', ids, es', hp2, hg', hlog', _, hsub, hres, _⟩ :=
        phase2_ok h.good h.log p.ns p.keys p.ret hret hfit
      simp only [hp2, ebind_ok]
      refine ⟨_, es', rfl, ⟨hg', hlog', ?_, ?_⟩, hsub, ⟨_, rfl⟩⟩
      · intro q hq
        have hq' : q ∈ y.pending := (eraseIdx_sublist y.pending i).subset hq
        obtain ⟨a, b⟩ := h.pend q hq'
        exact ⟨a.mono (hsub q.ns) (hlog' q.ns), b⟩
      · intro d hd hok
        rcases mem_append.mp hd with hd | hd
        · exact (h.done d hd hok).mono (hsub d.ns)
        · simp at hd; subst hd; exact hres

theorem run_inv {T : TableImpl} {L : TableLaws T} (steps : List Step) :
    ∀ (y : Sys T.τ) (es : List Entry), SysInv T L y es → (∀ st ∈ steps, StepOK st) →
    ∃ y' es', Sys.run T y steps = .ok y' ∧ SysInv T L y' es' ∧
      (∀ ns, ∀ p ∈ Spec.pairsOf es ns, p ∈ Spec.pairsOf es' ns) ∧ (∃ l, y'.done = y.done ++ l) := by
  induction steps with
  | nil => intro y es h _; exact ⟨y, es, rfl, h, fun _ p hp => hp, ⟨[], by simp⟩⟩
  | cons st steps ih =>
    intro y es h hok
    obtain ⟨y1, es1, e1, h1, sub1, ⟨l1, d1⟩⟩ := step_inv h st (hok st (by simp))
    obtain ⟨y2, es2, e2, h2, sub2, ⟨l2, d2⟩⟩ := ih y1 es1 h1 (fun s hs => hok s (by simp [hs]))
    refine ⟨y2, es2, ?_, h2, fun ns p hp => sub2 ns p (sub1 ns p hp), ⟨l1 ++ l2, by rw [d2, d1, append_assoc]⟩⟩
    simp only [Sys.run, e1, ebind_ok]
    exact e2

def Sys.init (T : TableImpl) (ro : Bool) : Sys T.τ := ⟨Store.empty T.τ ro, [], []⟩

theorem SysInv.init (T : TableImpl) (L : TableLaws T) (ro : Bool) : SysInv T L (Sys.init T ro) [] where
  good := Good.empty T L ro
  log := fun ns p hp => by simp [Spec.pairsOf] at hp
  pend := fun p hp => by simp [Sys.init] at hp
  done := fun d hd => by simp [Sys.init] at hd

end PV.C24
