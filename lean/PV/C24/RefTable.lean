/-
A reference table (association list, newest first) that satisfies `TableLaws`: shows the laws are
satisfiable and serves as the finite map the robin-hood table is compared with.  Core Lean only.
-/
import PV.C24.Lemmas2
namespace PV.C24
open List

abbrev RefT := List (Nat × Nat)

def refLookup (ka : KeyAt) : RefT → Bytes → Except String (Option Nat)
  | [], _ => .ok none
  | (off, id) :: rest, key => do
    let k ← ka off
    if k = key then return some id else refLookup ka rest key

def refInsert (ka : KeyAt) (t : RefT) (off id : Nat) : Except String RefT := do
  let _ ← ka off
  return (off, id) :: t

def refValid (ka : KeyAt) (t : RefT) : Prop := ∀ p ∈ t, ∃ k, ka p.1 = .ok k

theorem refLookup_ok (ka : KeyAt) (t : RefT) (k : Bytes) (hv : refValid ka t) :
    ∃ r, refLookup ka t k = .ok r := by
  induction t with
  | nil => exact ⟨none, rfl⟩
  | cons p t ih =>
    obtain ⟨off, id⟩ := p
    obtain ⟨k', hk'⟩ := hv (off, id) (by simp)
    obtain ⟨r, hr⟩ := ih (fun q hq => hv q (by simp [hq]))
    simp only [refLookup, hk', ebind_ok]
    by_cases h : k' = k
    · exact ⟨some id, by simp [h]⟩
    · exact ⟨r, by simp only [h, if_false]; exact hr⟩

theorem refInsert_ok (ka : KeyAt) (t : RefT) (off id : Nat) (k : Bytes) (hv : refValid ka t)
    (hk : ka off = .ok k) :
    ∃ t', refInsert ka t off id = .ok t' ∧ refValid ka t' ∧
      ∀ k', refLookup ka t' k' = if k' = k then .ok (some id) else refLookup ka t k' := by
  refine ⟨(off, id) :: t, by simp [refInsert, hk], ?_, ?_⟩
  · intro p hp
    simp only [mem_cons] at hp
    rcases hp with rfl | hp
    · exact ⟨k, hk⟩
    · exact hv p hp
  · intro k'
    simp only [refLookup, hk, ebind_ok]
    by_cases h : k' = k
    · subst h; simp
    · have : ¬ k = k' := fun e => h e.symm
      simp [h, this]

theorem refMono (ka ka' : KeyAt) (t : RefT) (hle : KeyAt.le ka ka') (hv : refValid ka t) :
    refValid ka' t ∧ ∀ k, refLookup ka' t k = refLookup ka t k := by
  refine ⟨fun p hp => ?_, fun k => ?_⟩
  · obtain ⟨k, hk⟩ := hv p hp; exact ⟨k, hle _ _ hk⟩
  · induction t with
    | nil => rfl
    | cons p t ih =>
      obtain ⟨off, id⟩ := p
      obtain ⟨k', hk'⟩ := hv (off, id) (by simp)
      simp only [refLookup, hk', hle _ _ hk', ebind_ok]
      by_cases h : k' = k
      · simp [h]
      · simp only [h, if_false]
        exact ih (fun q hq => hv q (by simp [hq]))

def refTable : TableImpl where
  τ := RefT
  empty := []
  insert := refInsert
  lookup := refLookup

def refLaws : TableLaws refTable where
  Valid := refValid
  valid_empty := fun _ p hp => by simp [refTable] at hp
  lookup_empty := fun _ _ => rfl
  lookup_ok := refLookup_ok
  insert_ok := refInsert_ok
  mono := refMono

end PV.C24
