/-
C24 property theorems: key translation is a stable bijection on every node.

Full-strength statement (all proved below, for the model of translate.go in Model.lean):
  * `C24_entry_roundtrip`  LogEntry.WriteTo / ReadFrom are inverse (any trailing bytes untouched).
  * `C24_bijection`        for ALL interleavings of the read-locked and write-locked halves of any
                           number of translation calls: every reported id is positive, is the id the
                           final store maps the key to, maps back to the key (so distinct keys have
                           distinct ids and an id never changes), and results reported earlier stay.
  * `C24_restart`          re-opening (replaying the file) gives the same file, the same sequence
                           numbers and the same answers to every forward and reverse lookup.
  * `C24_replica`          a replica holding any prefix of the primary's entries that streams the
                           rest in reads of arbitrary sizes ends on a (longer) prefix of the same log,
                           and with the identical file and mapping once everything was delivered.
  * `C24_rhh_refines`      the robin-hood table of the code satisfies the finite-map laws
                           (`TableLaws`) the other theorems assume of the table, for ANY hash function.
The store-level theorems are stated for any table implementation `T` with `L : TableLaws T`;
`C24_rhh_refines` instantiates them for the table of the code.
Core Lean only.
-/
import PV.C24.Lemmas7
import PV.C24.RefTable
import PV.C24.LemmasRHH7
namespace PV.C24
open List

/-- WriteTo then ReadFrom gives the entry back, reports its Length and leaves the rest unread. -/
theorem C24_entry_roundtrip (e : Entry) (rest : Bytes) (h : e.WF) :
    decodeEntry (encodeEntry e ++ rest) = some (e, (encodeBody e).length, rest) :=
  decodeEntry_encode e rest h

example : (⟨1, [105], [], [(1, [107, 49]), (2, []), (300, [7, 7, 7])]⟩ : Entry).WF := by
  refine ⟨by decide, by decide, by decide, ?_, ?_⟩
  · intro p hp; simp at hp; rcases hp with rfl | rfl | rfl <;> simp <;> omega
  · have h300 : putUvarint 300 = [172, 2] := by
      rw [putUvarint]; simp; rw [putUvarint]; simp
    have h : ∀ x, x < 128 → putUvarint x = [x] := fun x hx => by rw [putUvarint]; simp [hx]
    simp [encodeBody, encodePairs, encodePair, h300, h]

/-- Any number of callers, any interleaving of their phases (`steps`), starting from an empty
store: nothing panics or hangs; every call that returned without error reported, for each key, a
positive id which is what the final store translates the key to and which translates back to the
key; and whatever was reported after a prefix of the steps is still in the final report list. -/
theorem C24_bijection (T : TableImpl) (L : TableLaws T) (ro : Bool) (steps : List Step)
    (hfit : ∀ st ∈ steps, StepOK st) :
    ∃ y es, Sys.run T (Sys.init T ro) steps = .ok y ∧ Good T L y.store es ∧
      (∀ d ∈ y.done, d.ok = true → DoneAgrees T y d) ∧
      (∀ a b, steps = a ++ b → ∃ ya l, Sys.run T (Sys.init T ro) a = .ok ya ∧ y.done = ya.done ++ l) := by
  obtain ⟨y, es, hrun, hinv, _, _⟩ := run_inv steps (Sys.init T ro) [] (SysInv.init T L ro) hfit
  refine ⟨y, es, hrun, hinv.good, ?_, ?_⟩
  · intro d hd hok
    obtain ⟨h1, h2⟩ := hinv.done d hd hok
    refine ⟨h1, fun kr hkr => ?_⟩
    obtain ⟨hpos, hmem⟩ := h2 kr hkr
    refine ⟨hpos, ?_, ?_⟩
    · rw [lookupId_good hinv.good, (hinv.log d.ns).lastId hmem]
    · rw [keyOf_good hinv.good, (hinv.log d.ns).lastKey hmem]; rfl
  · intro a b hab
    obtain ⟨ya, esa, hra, hia, _, _⟩ := run_inv a (Sys.init T ro) [] (SysInv.init T L ro)
      (fun st hs => hfit st (by rw [hab]; simp [hs]))
    obtain ⟨yb, _, hrb, _, _, ⟨l, hl⟩⟩ := run_inv b ya esa hia (fun st hs => hfit st (by rw [hab]; simp [hs]))
    refine ⟨ya, l, hra, ?_⟩
    rw [hab, run_append, hra] at hrun
    simp only [ebind_ok] at hrun
    rw [hrb] at hrun
    simp only [Except.ok.injEq] at hrun
    rw [← hrun, hl]

/-- Distinct keys have distinct ids, and one key has one id — across all calls of a run. -/
theorem C24_injective (T : TableImpl) (y : Sys T.τ) (d d' : Done)
    (h : DoneAgrees T y d) (h' : DoneAgrees T y d') (hns : d.ns = d'.ns)
    (kr kr' : Bytes × Nat) (hk : kr ∈ d.keys.zip d.ids) (hk' : kr' ∈ d'.keys.zip d'.ids) :
    kr.1 = kr'.1 ↔ kr.2 = kr'.2 := by
  obtain ⟨_, a1, a2⟩ := h.2 kr hk
  obtain ⟨_, b1, b2⟩ := h'.2 kr' hk'
  rw [← hns] at b1 b2
  constructor
  · intro e; rw [e, b1] at a1; simpa using a1.symm
  · intro e; rw [e, b2] at a2; simpa using a2.symm

/-- two concurrent callers with overlapping batches, every interleaving shape is a `steps` list -/
example : ∀ st ∈ [Step.start (.col [105]) [[97], [98], [97]], .start (.col [105]) [[98], [99]],
    .finish 1, .finish 0, .start (.col [105]) [[97], [99]]], StepOK st := by
  intro st hs; simp at hs; rcases hs with rfl | rfl | rfl | rfl | rfl <;> simp [StepOK] <;> omega

/-- Restart: replaying the file of a store that agrees with its (encodable) log succeeds and
yields the same file, position, sequence numbers and answers. -/
theorem C24_restart (T : TableImpl) (L : TableLaws T) (s : Store T.τ) (es : List Entry)
    (h : Good T L s es) (henc : ∀ e ∈ es, e.WF) :
    ∃ s', replay T s.data s.readOnly = .ok s' ∧ Good T L s' es ∧
      s'.data = s.data ∧ s'.n = s.n ∧ s'.readOnly = s.readOnly ∧
      (∀ ns, seqOf s' ns = seqOf s ns) ∧
      (∀ ns key, lookupId T s' ns key = lookupId T s ns key) ∧
      (∀ ns id, keyOf s' ns id = keyOf s ns id) := by
  obtain ⟨s', hr, hg, hro⟩ := replay_good (T := T) (L := L) es s.readOnly h.wf henc
  rw [← h.data] at hr
  refine ⟨s', hr, hg, by rw [hg.data, h.data], by rw [hg.n, h.n, hg.data, h.data], hro, ?_, ?_, ?_⟩
  · intro ns; rw [seqOf_good hg, seqOf_good h]
  · intro ns key; rw [lookupId_good hg, lookupId_good h]
  · intro ns id; rw [keyOf_good hg, keyOf_good h]

/-- every reachable store agrees with a log in which key ↔ id is one-to-one: the hypothesis of
`C24_restart` / `C24_replica` is met by every store the translation calls can produce -/
theorem C24_reachable_good (T : TableImpl) (L : TableLaws T) (ro : Bool) (steps : List Step)
    (hfit : ∀ st ∈ steps, StepOK st) :
    ∃ y es, Sys.run T (Sys.init T ro) steps = .ok y ∧ Good T L y.store es ∧ LogOKAll es := by
  obtain ⟨y, es, hrun, hinv, _, _⟩ := run_inv steps (Sys.init T ro) [] (SysInv.init T L ro) hfit
  exact ⟨y, es, hrun, hinv.good, hinv.log⟩

/-- Replication: the replica `r` holds the first `k` entries of the primary `p`; one replicate()
session reads the primary's file from the replica's size in reads of arbitrary sizes, possibly cut
anywhere (`limit`).  The replica never fails, ends on a prefix `j ≥ k` of the same log, and when
everything the primary has was delivered its file and every lookup equal the primary's. -/
theorem C24_replica (T : TableImpl) (L : TableLaws T) (p r : Store T.τ) (es : List Entry) (k : Nat)
    (hp : Good T L p es) (hr : Good T L r (es.take k)) (henc : ∀ e ∈ es, e.WF)
    (limit : Nat) (sizes : List Nat) :
    ∃ r' j, replicate T r (readerChunks p.data limit r.n sizes) = .ok r' ∧ k ≤ j ∧
      Good T L r' (es.take j) ∧ r'.readOnly = r.readOnly ∧
      ((readerChunks p.data limit r.n sizes).flatten = p.data.drop r.n →
        r'.data = p.data ∧ (∀ ns, seqOf r' ns = seqOf p ns) ∧
        (∀ ns key, lookupId T r' ns key = lookupId T p ns key) ∧
        (∀ ns id, keyOf r' ns id = keyOf p ns id)) := by
  obtain ⟨m, hm, _⟩ := readerChunks_flatten p.data limit sizes r.n
  have hsplit : p.data.drop r.n = Spec.fileOf (es.drop k) := by
    rw [hp.data, hr.n, hr.data]
    conv => lhs; arg 2; rw [← take_append_drop k es, fileOf_append]
    simp
  have hcat : (readerChunks p.data limit r.n sizes).flatten ++ (p.data.drop r.n).drop m = Spec.fileOf (es.drop k) := by
    rw [hm, take_append_drop, hsplit]
  obtain ⟨r', j, hrl, hg, hro, hj, hall⟩ := replicateLoop_good (T := T) (L := L) (es.drop k) r (es.take k)
    _ _ ((readerChunks p.data limit r.n sizes).flatten.length + 1)
    (fun e he => hp.wf e (mem_of_mem_drop he)) (fun e he => henc e (mem_of_mem_drop he)) hr hcat (by omega)
  have htake : es.take k ++ (es.drop k).take j = es.take (k + j) := by
    rw [take_add]
  rw [htake] at hg
  refine ⟨r', k + j, hrl, by omega, hg, hro, ?_⟩
  intro hfull
  have htail : (p.data.drop r.n).drop m = [] := by
    have := congrArg List.length hcat
    rw [hfull, ← hsplit] at this
    simp only [length_append] at this
    exact length_eq_zero_iff.mp (by omega)
  have hj' := hall htail
  have hes : es.take (k + j) = es := by
    apply take_of_length_le
    rw [hj']; simp; omega
  rw [hes] at hg
  refine ⟨by rw [hg.data, hp.data], ?_, ?_, ?_⟩
  · intro ns; rw [seqOf_good hg, seqOf_good hp]
  · intro ns key; rw [lookupId_good hg, lookupId_good hp]
  · intro ns id; rw [keyOf_good hg, keyOf_good hp]

/-- with enough reads of at least one byte each and no cut, everything is delivered -/
theorem C24_reader_delivers_all (data : Bytes) (limit : Nat) (sizes : List Nat) : ∀ (off : Nat),
    data.length ≤ limit → (∀ sz ∈ sizes, 1 ≤ sz) → data.length - off ≤ sizes.length →
    (readerChunks data limit off sizes).flatten = data.drop off := by
  induction sizes with
  | nil =>
    intro off _ _ hlen
    simp only [length_nil, Nat.le_zero_eq] at hlen
    simp [readerChunks, drop_eq_nil_of_le (by omega : data.length ≤ off)]
  | cons sz sizes ih =>
    intro off hlim hpos hlen
    have hmin : min limit data.length = data.length := by omega
    simp only [readerChunks, hmin]
    by_cases h : off ≥ data.length
    · simp [h, drop_eq_nil_of_le h]
    · simp only [h, if_false, flatten_cons]
      have hsz := hpos sz (by simp)
      rw [ih (off + min sz (data.length - off)) hlim (fun s hs => hpos s (by simp [hs]))
        (by simp only [length_cons] at hlen; omega)]
      rw [← drop_drop, take_append_drop]

/-- The finite-map laws are satisfiable: a plain association-list table meets them, so the
hypothesis `L : TableLaws T` of the theorems above is not vacuous. -/
example : TableLaws refTable := refLaws

/-- The robin-hood table of translate.go (alloc, dist, idByKey with the distance cut-off,
insertIDbyOffset with swaps and the once-computed key, growth by doubling at 90 % load with
re-insertion, the n++ / n-- bookkeeping) satisfies the finite-map laws for ANY hash function `H`:
the empty table finds nothing; on a valid table lookups never fail (no panic, no endless loop);
`insert` of an offset whose key is `k` succeeds, keeps validity and changes lookups exactly like
a map update at `k`; and validity and lookups do not depend on the key file growing.
(`rhhLaws H` is that instance; its components are the statements.) -/
theorem C24_rhh_refines (H : Bytes → Nat) : Nonempty (TableLaws (rhh H)) := ⟨rhhLaws H⟩

/-- a hash function that sends every key to the same slot (all collisions) is covered too -/
example : Nonempty (TableLaws (rhh (fun _ => 7))) := C24_rhh_refines _

/-- `C24_bijection` for the table of the code, any hash function. -/
theorem C24_bijection_rhh (H : Bytes → Nat) (ro : Bool) (steps : List Step)
    (hfit : ∀ st ∈ steps, StepOK st) :
    ∃ y es, Sys.run (rhh H) (Sys.init (rhh H) ro) steps = .ok y ∧ Good (rhh H) (rhhLaws H) y.store es ∧
      (∀ d ∈ y.done, d.ok = true → DoneAgrees (rhh H) y d) ∧
      (∀ a b, steps = a ++ b → ∃ ya l, Sys.run (rhh H) (Sys.init (rhh H) ro) a = .ok ya ∧ y.done = ya.done ++ l) :=
  C24_bijection (rhh H) (rhhLaws H) ro steps hfit

end PV.C24
