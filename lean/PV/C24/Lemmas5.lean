/-
C24 helper lemmas, part 5: what phase 1 and phase 2 of a translation call do to a store that
agrees with its log.  Core Lean only.
-/
import PV.C24.Lemmas4
namespace PV.C24
open List

theorem appendEntry_goodX {T : TableImpl} {L : TableLaws T} {s : Store T.τ} {es : List Entry}
    (e : Entry) (k : NsKey) (hdata : s.data = Spec.fileOf es) (hn : s.n = s.data.length)
    (hwf : ∀ e ∈ es, EntryOK e) (hg : GoodNssX T L s.data s.nss es k) (he : EntryOK e)
    (hk : nsOfEntry e = .ok k) (hk2 : Spec.nsOf e = some k)
    (hseq : ∀ ix, getNs s.nss k = some ix → max ix.seq (maxId e.pairs) = maxId (Spec.pairsOf es k ++ e.pairs)) :
    ∃ s', appendEntry T s e = .ok s' ∧ Good T L s' (es ++ [e]) ∧ s'.readOnly = s.readOnly := by
  have ho : OffsOK (lookupKey (s.data ++ encodeEntry e)) e.pairs (s.n + headerSize e (encodeBody e).length) := by
    have := offsOK_entry s.data [] e he.1
    simpa [hn] using this
  obtain ⟨nss', hap, hg'⟩ := applyEntry_goodX e s.n k hg (lookupKey_le s.data (encodeEntry e)) hk hk2 hseq ho
  refine ⟨{ s with data := s.data ++ encodeEntry e, n := s.n + (encodeEntry e).length, nss := nss' }, ?_, ?_, rfl⟩
  · simp only [appendEntry, hap, ebind_ok, epure]
  · exact ⟨by simp [fileOf_snoc, hdata], by simp [hn],
      fun x hx => by
        rcases mem_append.mp hx with h | h
        · exact hwf x h
        · simp at h; subst h; exact he,
      hg'⟩

/-- every namespace of the log is one-to-one -/
def LogOKAll (es : List Entry) : Prop := ∀ ns, LogFun (Spec.pairsOf es ns)

/-- what a pending caller carries from phase 1: non-zero slots are right -/
def RetOK (ps : List (Nat × Bytes)) (keys : List Bytes) (ret : List Nat) : Prop :=
  ret.length = keys.length ∧ ∀ kr ∈ keys.zip ret, kr.2 ≠ 0 → lastId ps kr.1 = some kr.2

/-- what a returned call reports: for every key a positive id that the namespace maps to it -/
def ResOK (ps : List (Nat × Bytes)) (keys : List Bytes) (ids : List Nat) : Prop :=
  ids.length = keys.length ∧ ∀ kr ∈ keys.zip ids, 1 ≤ kr.2 ∧ (kr.2, kr.1) ∈ ps

theorem zip_map_getD (ps : List (Nat × Bytes)) (keys : List Bytes) :
    keys.zip (keys.map (fun k => (lastId ps k).getD 0)) = keys.map (fun k => (k, (lastId ps k).getD 0)) := by
  induction keys with
  | nil => rfl
  | cons k ks ih => simp [ih]

theorem phase1_ok {T : TableImpl} {L : TableLaws T} {s : Store T.τ} {es : List Entry}
    (h : Good T L s es) (ns : NsKey) (keys : List Bytes) :
    ∃ dn, phase1 T s ns keys = .ok (keys.map (fun k => (lastId (Spec.pairsOf es ns) k).getD 0), dn) ∧
      (dn = true → ∀ k ∈ keys, (lastId (Spec.pairsOf es ns) k).isSome) := by
  unfold phase1
  cases hget : getNs s.nss ns with
  | none =>
    have hp := pairsOf_nil_of_not_hasNs es ns (h.nss.none ns hget)
    refine ⟨false, ?_, by simp⟩
    simp [hp, lastId]
  | some ix =>
    obtain ⟨_, hok, _⟩ := h.nss.some ns ix hget
    simp only [lookupAll_ok hok keys, ebind_ok, epure]
    refine ⟨_, rfl, ?_⟩
    intro hdn k hk
    simp only [Bool.not_eq_true', any_eq_false] at hdn
    have := hdn k hk
    cases hl : lastId (Spec.pairsOf es ns) k <;> simp_all

theorem RetOK_of_phase1 (ps : List (Nat × Bytes)) (keys : List Bytes) :
    RetOK ps keys (keys.map (fun k => (lastId ps k).getD 0)) := by
  refine ⟨by simp, ?_⟩
  intro kr hkr hne
  rw [zip_map_getD] at hkr
  simp only [mem_map] at hkr
  obtain ⟨k, _, rfl⟩ := hkr
  cases hl : lastId ps k with
  | none => simp [hl] at hne
  | some v => simp

theorem ResOK_of_all_found {ps : List (Nat × Bytes)} (hf : LogFun ps) (keys : List Bytes)
    (hall : ∀ k ∈ keys, (lastId ps k).isSome) :
    ResOK ps keys (keys.map (fun k => (lastId ps k).getD 0)) := by
  refine ⟨by simp, ?_⟩
  intro kr hkr
  rw [zip_map_getD] at hkr
  simp only [mem_map] at hkr
  obtain ⟨k, hk, rfl⟩ := hkr
  have := hall k hk
  cases hl : lastId ps k with
  | none => simp [hl] at this
  | some v =>
    have hm := lastId_mem ps k v hl
    exact ⟨by simpa using (hf _ hm).1, by simpa using hm⟩

theorem zip_zipWith {α β γ : Type} (f : α → β → γ) : ∀ (as : List α) (bs : List β),
    as.zip (zipWith f as bs) = (as.zip bs).map (fun p => (p.1, f p.1 p.2)) := by
  intro as
  induction as with
  | nil => intro bs; simp
  | cons a as ih =>
    intro bs
    cases bs with
    | nil => simp
    | cons b bs => simp [ih]

theorem nsOf_entryFor (ns : NsKey) (ps : List (Nat × Bytes)) :
    nsOfEntry (entryFor ns ps) = .ok ns ∧ Spec.nsOf (entryFor ns ps) = some ns ∧
      (entryFor ns ps).pairs = ps ∧ ((entryFor ns ps).typ = 1 ∨ (entryFor ns ps).typ = 2) := by
  cases ns <;> simp [entryFor, nsOfEntry, Spec.nsOf, LogEntryTypeInsertColumn, LogEntryTypeInsertRow]

theorem phase2_ok {T : TableImpl} {L : TableLaws T} {s : Store T.τ} {es : List Entry}
    (h : Good T L s es) (hlog : LogOKAll es) (ns : NsKey) (keys : List Bytes) (ret : List Nat)
    (hret : RetOK (Spec.pairsOf es ns) keys ret) (hfit : ∀ k ∈ keys, k.length < 2 ^ 64) :
    ∃ s' ids es', phase2 T s ns keys ret = .ok (s', ids) ∧ Good T L s' es' ∧ LogOKAll es' ∧
      (es' = es ∨ ∃ e, es' = es ++ [e]) ∧ (∀ ns', ∀ p ∈ Spec.pairsOf es ns', p ∈ Spec.pairsOf es' ns') ∧
      ResOK (Spec.pairsOf es' ns) keys ids ∧ s'.readOnly = s.readOnly := by
  have hps := hlog ns
  -- after the recheck: `ret1`, and whether anything is still missing
  have hrc : ∃ ret1 need, recheckNs T s ns keys ret = .ok (ret1, need) ∧
      ret1.length = keys.length ∧
      (need = false → ResOK (Spec.pairsOf es ns) keys ret1) ∧
      (need = true → RetFull (Spec.pairsOf es ns) keys ret1) := by
    cases hget : getNs s.nss ns with
    | none =>
      have hp := pairsOf_nil_of_not_hasNs es ns (h.nss.none ns hget)
      refine ⟨ret, true, by simp [recheckNs, hget], hret.1, by simp, fun _ => ⟨hret.1, ?_⟩⟩
      intro kr hkr
      refine ⟨fun hne => ?_, fun _ => by simp [hp, lastId]⟩
      have := hret.2 kr hkr hne
      simp [hp, lastId] at this
    | some ix =>
      obtain ⟨_, hok, _⟩ := h.nss.some ns ix hget
      refine ⟨_, _, by simp only [recheckNs, hget]; exact recheck_ok hok keys ret hret.1, by simp [hret.1], ?_, ?_⟩
      · intro hneed
        refine ⟨by simp [hret.1], ?_⟩
        intro kr hkr
        rw [zip_zipWith] at hkr
        simp only [mem_map] at hkr
        obtain ⟨⟨k, r⟩, hkr, rfl⟩ := hkr
        simp only [any_eq_false] at hneed
        have hn := hneed (k, r) hkr
        by_cases hr : r ≠ 0
        · have hm := lastId_mem _ k r (hret.2 (k, r) hkr hr)
          show 1 ≤ (if r ≠ 0 then r else _) ∧ ((if r ≠ 0 then r else _), k) ∈ _
          rw [if_pos hr]
          exact ⟨(hps _ hm).1, hm⟩
        · have hr0 : r = 0 := by omega
          simp only [hr0, true_and, decide_eq_false_iff_not] at hn
          cases hl : lastId (Spec.pairsOf es ns) k with
          | none => simp [hl] at hn
          | some v =>
            have hm := lastId_mem _ k v hl
            show 1 ≤ (if r ≠ 0 then r else _) ∧ ((if r ≠ 0 then r else _), k) ∈ _
            rw [if_neg hr]
            exact ⟨(hps _ hm).1, hm⟩
      · intro _
        refine ⟨by simp [hret.1], ?_⟩
        intro kr hkr
        rw [zip_zipWith] at hkr
        simp only [mem_map] at hkr
        obtain ⟨⟨k, r⟩, hkr, rfl⟩ := hkr
        show ((if r ≠ 0 then r else _) ≠ 0 → lastId _ k = some (if r ≠ 0 then r else _)) ∧
          ((if r ≠ 0 then r else _) = 0 → lastId _ k = none)
        by_cases hr : r ≠ 0
        · rw [if_pos hr]
          exact ⟨fun _ => hret.2 (k, r) hkr hr, fun e => absurd e hr⟩
        · rw [if_neg hr]
          cases hl : lastId (Spec.pairsOf es ns) k with
          | none => simp
          | some v =>
            have hm := lastId_mem _ k v hl
            have hv : 1 ≤ v := (hps _ hm).1
            simp only [Option.getD_some]
            exact ⟨fun _ => trivial, fun e => by omega⟩
  obtain ⟨ret1, need, hrce, hlen1, hdone, hfull⟩ := hrc
  cases need with
  | false =>
    refine ⟨s, ret1, es, ?_, h, hlog, Or.inl rfl, fun _ p hp => hp, hdone rfl, rfl⟩
    unfold phase2
    simp only [hrce, ebind_ok, Bool.not_false, if_true, epure]
  | true =>
    have hfull := hfull rfl
    -- the index the ids come from
    have hix : ∃ ix, (getNs s.nss ns).getD (newIndex T) = ix ∧ ix.seq = maxId (Spec.pairsOf es ns) ∧
        IndexOK T L (lookupKey s.data) ix (Spec.pairsOf es ns) := by
      cases hget : getNs s.nss ns with
      | none =>
        have hp := pairsOf_nil_of_not_hasNs es ns (h.nss.none ns hget)
        exact ⟨newIndex T, rfl, by simp [hp, newIndex, maxId], by rw [hp]; exact IndexOK.new T L _⟩
      | some ix =>
        obtain ⟨_, hok, hs⟩ := h.nss.some ns ix hget
        exact ⟨ix, rfl, hs, hok⟩
    obtain ⟨ix, hixe, hixs, hixok⟩ := hix
    rcases hal : allocate keys ret1 [] ix.seq with ⟨ids, new, seq'⟩
    obtain ⟨a1, a2, a3, a4, a5, a6⟩ := allocate_ok (Spec.pairsOf es ns) keys ret1 [] ix.seq [] hfull
      (by simpa using hps) (by simp [hixs]) (by simp) ids new seq' hal
    simp only [append_nil] at a2 a4 a5
    obtain ⟨e1, e2, e3, e4⟩ := nsOf_entryFor ns new
    have he : EntryOK (entryFor ns new) := ⟨by rw [e3]; exact fun p hp => hfit _ (a6 p hp), e4⟩
    let s1 : Store T.τ := { s with nss := setNs s.nss ns { ix with seq := seq' } }
    have hgx : GoodNssX T L s1.data s1.nss es ns := by
      constructor
      · intro ns' hnone
        by_cases hns : ns' = ns
        · subst hns; simp only [s1, getNs_setNs_same] at hnone; simp at hnone
        · simp only [s1, getNs_setNs_other _ _ _ _ hns] at hnone
          exact h.nss.none ns' hnone
      · intro ns' ix' hsome
        by_cases hns : ns' = ns
        · subst hns
          simp only [s1, getNs_setNs_same, Option.some.injEq] at hsome
          subst hsome
          exact ⟨⟨hixok.valid, hixok.fwd, hixok.rev⟩, fun hne => absurd rfl hne⟩
        · simp only [s1, getNs_setNs_other _ _ _ _ hns] at hsome
          obtain ⟨b1, b2, b3⟩ := h.nss.some ns' ix' hsome
          exact ⟨b2, fun _ => ⟨b1, b3⟩⟩
    obtain ⟨s2, hap, hg2, hro⟩ := appendEntry_goodX (s := s1) (entryFor ns new) ns h.data h.n h.wf hgx he e1 e2 (by
      intro ix2 hget
      simp only [s1, getNs_setNs_same, Option.some.injEq] at hget
      subst hget
      show max seq' (maxId (entryFor ns new).pairs) = _
      rw [e3, maxId_append, a3, hixs]
      omega)
    have hpairs : ∀ ns', Spec.pairsOf (es ++ [entryFor ns new]) ns' =
        Spec.pairsOf es ns' ++ (if ns' = ns then new else []) := by
      intro ns'
      rw [pairsOf_snoc, e2, e3]
      by_cases hns : ns' = ns
      · simp [hns]
      · have : ¬ some ns = some ns' := by simp; exact fun e => hns e.symm
        simp [hns, this]
    refine ⟨s2, ids, es ++ [entryFor ns new], ?_, hg2, ?_, Or.inr ⟨_, rfl⟩, ?_, ?_, hro⟩
    · unfold phase2
      simp only [hrce, ebind_ok, Bool.not_true, if_false, hixe, hal]
      simp only [s1] at hap
      simp only [Bool.false_eq_true, if_false, hap, ebind_ok, epure]
    · intro ns'
      rw [hpairs]
      by_cases hns : ns' = ns
      · subst hns; simpa using a2
      · simpa [hns] using hlog ns'
    · intro ns' p hp
      rw [hpairs]; simp [hp]
    · rw [hpairs]
      simp only [if_true]
      refine ⟨a1, fun kr hkr => ⟨?_, a5 kr hkr⟩⟩
      exact (a2 _ (a5 kr hkr)).1

end PV.C24
