/-
C26 — a flat call assembled from abstract arguments: each argument brings its text, the events the
grammar records for it and the value the action machine stores (`LArg.Syn`, `LArg.Sem`).
`largs_parse` is then independent of the literal classes; C26_literals instantiates it.
Core Lean only.
-/
import PV.C26.LemmasNest
import PV.C26.Spec
namespace PV.C26
open Gen

/-- One written argument: the key it is stored under, its text, its events, the stored value. -/
structure LArg where
  key : Key
  text : List Char
  evs : List Ev
  val : Val

/-- Syntax: `arg` reads the text whatever delimiter follows, and `Call` does not match on it. -/
def LArg.Syn (a : LArg) : Prop :=
  NoWs a.text ∧ a.text ≠ [] ∧ (∀ s, F (.ref R.Call) (a.text ++ s)) ∧
    ∀ d r, (d = ',' ∨ d = ')') → P (.ref R.arg) (a.text ++ d :: r) (d :: r) a.evs

/-- Semantics: executing the events stores the value under the key. -/
def LArg.Sem (a : LArg) : Prop :=
  ∀ (q : QState) (e : Elem) (rest : List Elem) (evs' : List Ev),
    q.stack = e :: rest → q.cond = [] → ArgState e → lookup a.key e.args = none →
    ∃ t, exec (a.evs ++ evs') q =
      exec evs' { q with text := t, stack := { e with args := insert a.key a.val e.args } :: rest }

def LArg.kv (a : LArg) : Key × Val := (a.key, a.val)

theorem exec_largs (as : List LArg) (hsem : ∀ a ∈ as, a.Sem) (hs : (as.map (·.key)).Pairwise (· ≠ ·))
    (q : QState) (e : Elem) (rest : List Elem) (evs : List Ev)
    (hq : q.stack = e :: rest) (hqc : q.cond = []) (he : ArgState e) (hl : ∀ a ∈ as, lookup a.key e.args = none) :
    ∃ t, exec (as.flatMap (·.evs) ++ evs) q =
      exec evs { q with text := t,
                        stack := { e with args := (as.map LArg.kv).foldl (fun m kv => insert kv.1 kv.2 m) e.args } :: rest } := by
  induction as generalizing q e with
  | nil =>
    refine ⟨q.text, ?_⟩
    simp only [List.flatMap_nil, List.nil_append, List.map_nil, List.foldl_nil]
    congr 1
    cases q; cases e; simp_all
  | cons a rest' ih =>
    obtain ⟨t1, h1⟩ := hsem a (by simp) q e rest (rest'.flatMap (·.evs) ++ evs) hq hqc he (hl a (by simp))
    simp only [List.flatMap_cons, List.append_assoc]
    rw [h1]
    simp only [List.map_cons, List.pairwise_cons] at hs
    obtain ⟨hhead, htail⟩ := hs
    obtain ⟨t2, h2⟩ := ih (fun x hx => hsem x (by simp [hx])) htail
      { q with text := t1, stack := { e with args := insert a.key a.val e.args } :: rest }
      { e with args := insert a.key a.val e.args } rfl hqc he
      (fun x hx => by
        have hne : x.key ≠ a.key := fun e' => hhead x.key (List.mem_map_of_mem hx) e'.symm
        simp only [lookup_insert, hne, if_false]
        exact hl x (by simp [hx]))
    exact ⟨t2, h2⟩

/-- The argument map of the call: the values stored under their keys (`Call.Args`). -/
def argMap (as : List LArg) : List (Key × Val) :=
  (as.map LArg.kv).foldl (fun m kv => insert kv.1 kv.2 m) []

/-- The text of `Name(arg, arg, ..)`. -/
def largsText (name : List Char) (as : List LArg) : List Char :=
  name ++ '(' :: (joinWith [',', ' '] (as.map (·.text)) ++ [')'])

theorem largs_parse (name : List Char) (as : List LArg) (hn : IdentName name) (hsp : name ∉ specialKws)
    (hne : as ≠ []) (hsyn : ∀ a ∈ as, a.Syn) (hsem : ∀ a ∈ as, a.Sem)
    (hs : (as.map (·.key)).Pairwise (· ≠ ·)) :
    (∃ n, parseFuel Gen.rule Gen.start n (largsText name as) = .ok [.mk name (argMap as) []]) ∧
    (∀ n, parseFuel Gen.rule Gen.start n (largsText name as) = .error .fuel ∨
          parseFuel Gen.rule Gen.start n (largsText name as) = .ok [.mk name (argMap as) []]) := by
  -- syntax
  let pargs : List PArg := as.map (fun a => ⟨a.text, a.evs⟩)
  have hpok : ∀ p ∈ pargs, p.Ok := by
    intro p hp
    simp only [pargs, List.mem_map] at hp
    obtain ⟨a, ha, rfl⟩ := hp
    obtain ⟨h1, h2, _, h4⟩ := hsyn a ha
    exact ⟨h1, h2, h4⟩
  have hpne : pargs ≠ [] := by simpa [pargs] using hne
  have hargsP := args_ok pargs hpne hpok []
  have htext : pargs.map (·.text) = as.map (·.text) := by simp [pargs]
  have hevs : pargs.flatMap (·.evs) = as.flatMap (·.evs) := by simp [pargs, List.flatMap_map]
  rw [htext, hevs] at hargsP
  obtain ⟨a0, rest0, has⟩ : ∃ a0 rest0, as = a0 :: rest0 := by
    cases as with
    | nil => exact absurd rfl hne
    | cons a r => exact ⟨a, r, rfl⟩
  obtain ⟨hws0, hne0, hcf0, _⟩ := hsyn a0 (by simp [has])
  have hcf : F (.ref R.Call) (joinWith [',', ' '] (as.map (·.text)) ++ [')']) := by
    rw [has, List.map_cons, joinWith_cons, List.append_assoc]
    exact hcf0 _
  have hws : NoWs (joinWith [',', ' '] (as.map (·.text)) ++ [')']) := by
    rw [has, List.map_cons, joinWith_cons, List.append_assoc]
    exact noWs_append hws0 hne0
  have hall := allargs_of_args hcf hargsP
  have hcall := call_generic_ok name _ [] _ hn (Or.inl hsp) hws trivial hall
  obtain ⟨n0, hn0⟩ := calls_single _ _ (identName_noWs hn _) hcall
  -- semantics
  have hs1 : stepAct { ({} : QState) with text := name } (.startCall .text) =
      .ok { ({} : QState) with text := name, stack := [{ name := name, attach := .top }] } := by
    simp [stepAct, startCall, sargText]
  obtain ⟨t, hexec⟩ := exec_largs as hsem hs
    { ({} : QState) with text := name, stack := [{ name := name, attach := .top }] }
    { name := name, attach := .top } [] [.act .endCall] rfl rfl ⟨rfl, rfl, rfl⟩ (by simp [lookup])
  have hex : exec (.text name :: .act (.startCall .text) :: (as.flatMap (·.evs) ++ [.act .endCall])) {} =
      .ok { calls := [.mk name (argMap as) []], stack := [], text := t } := by
    rw [exec_text, exec_act_ok _ hs1, hexec]
    simp [exec, stepEv, stepAct, endCall, Elem.toCall]
    rfl
  have hrun : run Gen.rule n0 (.ref Gen.start) (largsText name as) =
      .ok [] (.text name :: .act (.startCall .text) :: (as.flatMap (·.evs) ++ [.act .endCall])) := by
    simpa [largsText, Gen.start] using hn0
  refine ⟨⟨n0, by simp [parseFuel, hrun, hex]⟩, fun n => ?_⟩
  rcases run_det Gen.rule hrun (by simp) n with hf | ho
  · left; simp [parseFuel, hf]
  · right; simp [parseFuel, ho, hex]

end PV.C26
