import PV.C26.Model
import PV.C26.Spec
import PV.C26.Gen
import PV.C26.LemmasStr
import PV.C26.LemmasNum
import PV.C26.LemmasPql
import PV.C26.LemmasLit
import PV.C26.LemmasNest
import PV.C26.LemmasLitSpec
import PV.C26.LemmasHard
namespace PV.C26

/-- `pql.ParseString` over the regenerated grammar. -/
def parseQ (s : List Char) : M (List Call) := parseWith Gen.rule Gen.start s

/-- The regenerated rule table is a well-formed PEG: references in range, no left recursion, no
`star` over a nullable body. -/
theorem C26_grammar_wf : wellFormed Gen.rule Gen.nRules = true := by decide

/-! ## C26_forward

Full-strength statement: for every call `c` the executor can forward (argument values uint64,
int64, bool, string, float64, nil, []int64, []uint64, []interface{}, *Condition, nested call),
`parseQ (fmtCall isPrint c) = ok [c]` with equal names, children, keys, values and dynamic types.

Proved: `C26_forward_nested_partial` (and its depth-1 case `C26_forward_flat_partial`) - the
statement for the fragment `Nested`: calls nested to ANY depth (`Count(Union(Row(a=1), Row(b > 2)))`),
every call with a name other than `ClearRow`, `Store` (`NameOk`; these two are read by their DEDICATED
alternatives in their usual shape: `C26_forward_clearrow`, `C26_forward_store`; the six special-form names
`Set`, `SetRowAttrs`, `SetColumnAttrs`, `Clear`, `TopN`, `Rows` are in: `C26_forward_special_names`;
`Range` is in when its first argument is a condition or it has a child: `C26_forward_range`),
children that are again in the fragment, arguments `key=value` / `key op value` / `key=Inner(..)` (a
CALL of the fragment as argument value: `C26_forward_call_args`) with keys that are
field names (letter, then letters/digits/`_`/`-`) or reserved names (`_row _col _start _end _timestamp
_field`: `C26_forward_reserved_keys`) in strictly increasing order, at least one child or argument,
and values int64, float64 (canonical decimal text: `C26_forward_float`), nil, bool, string (ANY byte string, valid UTF-8 or not; a string whose quoted form
is exactly a timestamp is read by the timestamp alternative of `item`, with the same value),
non-empty lists of int64 / strings / booleans / nil in any mix with a last element that is not a
keyword (`C26_forward_mixed_lists`), and conditions `== != < <= > >= ><` on an int64 or on a list of
int64 (BETWEEN ranges).
It goes through the generic PEG interpreter on the grammar REGENERATED from pql.peg (all ten
alternatives of `Call` and of `item`, `arg`, `args`, all three of `allargs`, `Calls`), the model of the
action machine with its call stack and the models of strconv.Quote/Unquote, for every table of
printable characters.
Excluded and still correspondence-only: floats under a condition or inside a list, calls without
children and arguments, `ClearRow` / `Store` in other shapes than `ClearRow(key=value)` /
`Store(Child(..), key=value)`, and the form `Range(key=value, ..)`; uint64 and typed id lists are recorded findings (they cannot
round-trip: see the witnesses below). -/

/-- The parser with `n` units of fuel on the regenerated grammar. -/
def parseN (n : Nat) (s : List Char) : M (List Call) := parseFuel Gen.rule Gen.start n s

theorem C26_forward_flat_partial (isPrint : Char → Bool) (hnl : isPrint '\n' = false)
    (name : List Char) (args : List (Key × Val)) (h : FlatCall isPrint name args) :
    (∃ n, parseN n (fmtCall isPrint (.mk name args [])) = .ok [.mk name args []]) ∧
    (∀ n, parseN n (fmtCall isPrint (.mk name args [])) = .error .fuel ∨
          parseN n (fmtCall isPrint (.mk name args [])) = .ok [.mk name args []]) := by
  obtain ⟨n0, hn0⟩ := flat_parses isPrint hnl name args h
  obtain ⟨q, hq, hc⟩ := flat_exec isPrint hnl name args h
  refine ⟨⟨n0, by simp [parseN, parseFuel, hn0, hq, hc]⟩, fun n => ?_⟩
  rcases run_det Gen.rule hn0 (by simp) n with hf | ho
  · left; simp [parseN, parseFuel, hf]
  · right; simp [parseN, parseFuel, ho, hq, hc]

/-- C26_forward for the nested fragment (T2: any depth, simple and call values, reserved keys, seven special-form names). -/
theorem C26_forward_nested_partial (isPrint : Char → Bool) (hnl : isPrint '\n' = false)
    (d : Nat) (c : Call) (h : Nested isPrint d c) :
    (∃ n, parseN n (fmtCall isPrint c) = .ok [c]) ∧
    (∀ n, parseN n (fmtCall isPrint c) = .error .fuel ∨ parseN n (fmtCall isPrint c) = .ok [c]) := by
  have hp := nested_parses isPrint hnl d c h [] trivial
  rw [List.append_nil] at hp
  obtain ⟨n0, hn0⟩ := calls_single _ _ (nested_text isPrint d c h).1 hp
  obtain ⟨t, ht⟩ := ((nested_exec isPrint hnl d c h) {} []).1 rfl
  have hexec : exec (evCallD isPrint d c) {} = .ok { calls := [c], text := t } := by
    simpa [exec] using ht
  refine ⟨⟨n0, ?_⟩, fun n => ?_⟩
  · show parseFuel Gen.rule Gen.start n0 _ = _
    simp [parseFuel, show run Gen.rule n0 (.ref Gen.start) (fmtCall isPrint c) = _ from hn0, hexec]
  · rcases run_det Gen.rule hn0 (by simp) n with hf | ho
    · left; show parseFuel Gen.rule Gen.start n _ = _
      simp [parseFuel, show run Gen.rule n (.ref Gen.start) (fmtCall isPrint c) = _ from hf]
    · right; show parseFuel Gen.rule Gen.start n _ = _
      simp [parseFuel, show run Gen.rule n (.ref Gen.start) (fmtCall isPrint c) = _ from ho, hexec]

/-- Non-vacuity: `Count(Union(Row(a=1), Row(b >< [2,9])))` is in the nested fragment (depth 3). -/
example : Nested (fun c => c.toNat ≥ 32 && c.toNat < 127) 3
    (.mk cl!"Count" [] [.mk cl!"Union" []
      [.mk cl!"Row" [(cl!"a", .int 1)] [], .mk cl!"Row" [(cl!"b", .cond .BETWEEN (.list [.int 2, .int 9]))] []]]) := by
  refine ⟨⟨'C', cl!"ount", rfl, by decide, by decide⟩, ⟨by decide, fun h => absurd h (by decide)⟩, Or.inr (by simp), by simp, trivial, ?_⟩
  intro ch hch
  simp only [List.mem_singleton] at hch
  subst hch
  refine ⟨⟨'U', cl!"nion", rfl, by decide, by decide⟩, ⟨by decide, fun h => absurd h (by decide)⟩, Or.inr (by simp), by simp, trivial, ?_⟩
  intro ch hch
  simp only [List.mem_cons, List.not_mem_nil, or_false] at hch
  rcases hch with rfl | rfl
  · refine ⟨⟨'R', cl!"ow", rfl, by decide, by decide⟩, ⟨by decide, fun h => absurd h (by decide)⟩, Or.inl (by simp), ?_, trivial, by simp⟩
    intro kv hkv
    simp only [List.mem_singleton] at hkv
    subst hkv
    exact ⟨.inl ⟨'a', [], rfl, by decide, by simp⟩, .inl ⟨by decide, by decide⟩⟩
  · refine ⟨⟨'R', cl!"ow", rfl, by decide, by decide⟩, ⟨by decide, fun h => absurd h (by decide)⟩, Or.inl (by simp), ?_, trivial, by simp⟩
    intro kv hkv
    simp only [List.mem_singleton] at hkv
    subst hkv
    exact ⟨.inl ⟨'b', [], rfl, by decide, by simp⟩, .inl ⟨by simp [cmpOps], [2, 9], rfl, by simp, by decide⟩⟩

/-- C26_forward for call-valued arguments (nested calls as argument values, `item` alternative 7),
at any depth and next to children: in the nested fragment an argument value may itself be a call of
the fragment (`GroupBy(Rows(_field="a"), filter=Row(x=1), limit=10)`).  The printed text
`key=Inner(..)` is read by the call alternative of `item` (the first six alternatives fail on
`Inner(`), `startCall` under a pending field does not link the inner call as a child, and
`addVal(endCall())` stores the finished call under the key: the re-parsed call has the same inner
CALL (dynamic type `*pql.Call`) under that key. -/
theorem C26_forward_call_args (isPrint : Char → Bool) (hnl : isPrint '\n' = false) (d : Nat)
    (name : List Char) (args : List (Key × Val)) (children : List Call) (hn : IdentName name) (hok : NameOk name)
    (hrng : RangeArgs name args children) (hne : args ≠ [] ∨ children ≠ [])
    (hargs : ∀ kv ∈ args, KeyName kv.1 ∧ (SimpleVal isPrint kv.2 ∨ ∃ c, kv.2 = .call c ∧ Nested isPrint d c))
    (hs : SortedKeys args) (hch : ∀ ch ∈ children, Nested isPrint d ch) :
    (∃ n, parseN n (fmtCall isPrint (.mk name args children)) = .ok [.mk name args children]) ∧
    (∀ n, parseN n (fmtCall isPrint (.mk name args children)) = .error .fuel ∨
          parseN n (fmtCall isPrint (.mk name args children)) = .ok [.mk name args children]) :=
  C26_forward_nested_partial isPrint hnl (d + 1) _ ⟨hn, ⟨hok, hrng⟩, hne, hargs, hs, hch⟩

/-- Non-vacuity: `GroupBy(Rows(_field="a"), filter=Row(x=1), limit=10)` is in the nested fragment. -/
example : Nested (fun c => c.toNat ≥ 32 && c.toNat < 127) 2
    (.mk cl!"GroupBy" [(cl!"filter", .call (.mk cl!"Row" [(cl!"x", .int 1)] [])), (cl!"limit", .int 10)]
      [.mk cl!"Rows" [(cl!"_field", .str [97])] []]) := by
  refine ⟨⟨'G', cl!"roupBy", rfl, by decide, by decide⟩, ⟨by decide, fun h => absurd h (by decide)⟩, Or.inl (by simp), ?_, by simp [SortedKeys, ltKey], ?_⟩
  · intro kv hkv
    simp only [List.mem_cons, List.not_mem_nil, or_false] at hkv
    rcases hkv with rfl | rfl
    · refine ⟨.inl ⟨'f', cl!"ilter", rfl, by decide, by decide⟩, .inr ⟨_, rfl, ?_⟩⟩
      refine ⟨⟨'R', cl!"ow", rfl, by decide, by decide⟩, ⟨by decide, fun h => absurd h (by decide)⟩, Or.inl (by simp), ?_, trivial, by simp⟩
      intro kv hkv
      simp only [List.mem_singleton] at hkv
      subst hkv
      exact ⟨.inl ⟨'x', [], rfl, by decide, by simp⟩, .inl ⟨by decide, by decide⟩⟩
    · exact ⟨.inl ⟨'l', cl!"imit", rfl, by decide, by decide⟩, .inl ⟨by decide, by decide⟩⟩
  · intro ch hch
    simp only [List.mem_singleton] at hch
    subst hch
    refine ⟨⟨'R', cl!"ows", rfl, by decide, by decide⟩, ⟨by decide, fun h => absurd h (by decide)⟩, Or.inl (by simp), ?_, trivial, by simp⟩
    intro kv hkv
    simp only [List.mem_singleton] at hkv
    subst hkv
    exact ⟨.inr (by simp [reservedKws]), .inl (by simp [SimpleVal])⟩

/-- C26_forward for the special-form names `Set`, `SetRowAttrs`, `SetColumnAttrs`, `Clear`, `TopN`,
`Rows`: `Call.String` prints them like any call (`Name(children, key=value, ..)`), the dedicated
alternative of `Call` (which starts with a positional `col` / `posfield`) FAILS on such a text - at
`col`, at the comma after `posfield`, or at `close` - and the generic alternative reads it back as
the same call.  Children are calls of the nested fragment (any depth, special names included).
`Range`: see `C26_forward_range`; `ClearRow`, `Store`: `C26_forward_clearrow`, `C26_forward_store`. -/
theorem C26_forward_special_names (isPrint : Char → Bool) (hnl : isPrint '\n' = false) (d : Nat)
    (name : List Char) (args : List (Key × Val)) (children : List Call) (hname : name ∈ wideKws)
    (hne : args ≠ [] ∨ children ≠ []) (hargs : ∀ kv ∈ args, KeyName kv.1 ∧ ArgOk isPrint d kv.2)
    (hs : SortedKeys args) (hch : ∀ ch ∈ children, Nested isPrint d ch) :
    (∃ n, parseN n (fmtCall isPrint (.mk name args children)) = .ok [.mk name args children]) ∧
    (∀ n, parseN n (fmtCall isPrint (.mk name args children)) = .error .fuel ∨
          parseN n (fmtCall isPrint (.mk name args children)) = .ok [.mk name args children]) := by
  have hid : IdentName name ∧ NameOk name ∧ name ≠ rangeKw := by
    simp only [wideKws, List.mem_cons, List.not_mem_nil, or_false] at hname
    rcases hname with rfl | rfl | rfl | rfl | rfl | rfl <;>
      exact ⟨⟨_, _, rfl, by decide, by decide⟩, by decide, by decide⟩
  exact C26_forward_nested_partial isPrint hnl (d + 1) _
    ⟨hid.1, ⟨hid.2.1, fun h => absurd h hid.2.2⟩, hne, hargs, hs, hch⟩

/-- C26_forward for `Range`: the dedicated alternative (`field sp '=' sp value comma ..`) fails on a
printed call whose first argument is a condition (`Range(f > 5)`, `Range(f >< [1,9])`, `Range(f == 3)`:
it stops at the operator; for `==` at the second `=`) or that begins with a child call, and the
generic alternative reads the same call back.  Left out: `Range(key=value, ..)` (the old
`Range(f=1, from=.., to=..)` form, which the dedicated alternative can match). -/
theorem C26_forward_range (isPrint : Char → Bool) (hnl : isPrint '\n' = false) (d : Nat)
    (args : List (Key × Val)) (children : List Call)
    (hfirst : children ≠ [] ∨ ∃ k op v rest, args = (k, .cond op v) :: rest)
    (hargs : ∀ kv ∈ args, KeyName kv.1 ∧ ArgOk isPrint d kv.2)
    (hs : SortedKeys args) (hch : ∀ ch ∈ children, Nested isPrint d ch) :
    (∃ n, parseN n (fmtCall isPrint (.mk rangeKw args children)) = .ok [.mk rangeKw args children]) ∧
    (∀ n, parseN n (fmtCall isPrint (.mk rangeKw args children)) = .error .fuel ∨
          parseN n (fmtCall isPrint (.mk rangeKw args children)) = .ok [.mk rangeKw args children]) := by
  have hne : args ≠ [] ∨ children ≠ [] := by
    rcases hfirst with h | ⟨k, op, v, rest, rfl⟩
    · exact Or.inr h
    · exact Or.inl (by simp)
  exact C26_forward_nested_partial isPrint hnl (d + 1) _
    ⟨⟨'R', ['a', 'n', 'g', 'e'], rfl, by decide, by decide⟩, ⟨by decide, fun _ => hfirst⟩, hne, hargs, hs, hch⟩

/-- Non-vacuity: `Range(f > 5)` is in the nested fragment. -/
example : Nested (fun c => c.toNat ≥ 32 && c.toNat < 127) 1 (.mk cl!"Range" [(cl!"f", .cond .GT (.int 5))] []) := by
  refine ⟨⟨'R', cl!"ange", rfl, by decide, by decide⟩, ⟨by decide, fun _ => Or.inr ⟨_, _, _, _, rfl⟩⟩,
    Or.inl (by simp), ?_, trivial, by simp⟩
  intro kv hkv
  simp only [List.mem_singleton] at hkv
  subst hkv
  exact ⟨.inl ⟨'f', [], rfl, by decide, by simp⟩, .inl ⟨by simp [cmpOps], by decide, by decide⟩⟩

/-- From a parse of the whole text and the run of its events to the statement about `parseN`. -/
theorem parse_of_run (s : List Char) (evs : List Ev) (c : Call)
    (hp : P (.ref Gen.start) s [] evs)
    (hx : ∃ t, exec evs {} = .ok { calls := [c], stack := [], text := t }) :
    (∃ n, parseN n s = .ok [c]) ∧ (∀ n, parseN n s = .error .fuel ∨ parseN n s = .ok [c]) := by
  obtain ⟨n0, hn0⟩ := hp
  obtain ⟨t, ht⟩ := hx
  refine ⟨⟨n0, by simp [parseN, parseFuel, hn0, ht]⟩, fun n => ?_⟩
  rcases run_det Gen.rule hn0 (by simp) n with hf | ho
  · left; simp [parseN, parseFuel, hf]
  · right; simp [parseN, parseFuel, ho, ht]

/-- C26_forward for lists with other elements than int64: a list argument may hold int64, strings (any
bytes), booleans and nil in any mix, the LAST element not being `null`/`true`/`false` (recorded
finding `list-last-keyword`) - e.g. `TopN(attrName="x", attrValues=["a",true,7], n=5)`.  Each element
goes through `item` with the delimiter that follows it (`,` or `]`), the action machine appends it to
the list under the pending key. -/
theorem C26_forward_mixed_lists (isPrint : Char → Bool) (hnl : isPrint '\n' = false)
    (name : List Char) (k : Key) (init : List Val) (last : Val) (hn : IdentName name) (hok : NameOk name)
    (hnr : name ≠ rangeKw) (hk : KeyName k) (hinit : ∀ v ∈ init, FwdScalar v) (hlast : FwdScalar last)
    (hkw : isKwVal last = false) :
    (∃ n, parseN n (fmtCall isPrint (.mk name [(k, .list (init ++ [last]))] [])) =
        .ok [.mk name [(k, .list (init ++ [last]))] []]) ∧
    (∀ n, parseN n (fmtCall isPrint (.mk name [(k, .list (init ++ [last]))] [])) = .error .fuel ∨
          parseN n (fmtCall isPrint (.mk name [(k, .list (init ++ [last]))] [])) =
            .ok [.mk name [(k, .list (init ++ [last]))] []]) :=
  C26_forward_flat_partial isPrint hnl name _
    ⟨hn, ⟨hok, fun h => absurd h hnr⟩, by simp,
      fun kv hkv => by
        simp only [List.mem_singleton] at hkv
        subst hkv
        exact ⟨hk, init, last, rfl, hinit, hlast, hkw⟩,
      by simp [SortedKeys]⟩

/-- Non-vacuity: `TopN(attrName="x", attrValues=["a",true,7], n=5)` is in the flat fragment. -/
example : FlatCall (fun c => c.toNat ≥ 32 && c.toNat < 127) cl!"TopN"
    [(cl!"attrName", .str [120]), (cl!"attrValues", .list [.str [97], .bool true, .int 7]), (cl!"n", .int 5)] where
  name_ok := ⟨'T', cl!"opN", rfl, by decide, by decide⟩
  name_free := ⟨by decide, fun h => absurd h (by decide)⟩
  nonempty := by simp
  args_ok := by
    intro kv hkv
    simp only [List.mem_cons, List.not_mem_nil, or_false] at hkv
    rcases hkv with rfl | rfl | rfl
    · exact ⟨.inl ⟨'a', cl!"ttrName", rfl, by decide, by decide⟩, by simp [SimpleVal]⟩
    · refine ⟨.inl ⟨'a', cl!"ttrValues", rfl, by decide, by decide⟩, [.str [97], .bool true], .int 7, rfl, ?_,
        ⟨by decide, by decide⟩, rfl⟩
      intro v hv
      simp only [List.mem_cons, List.not_mem_nil, or_false] at hv
      rcases hv with rfl | rfl
      · simp [FwdScalar]
      · trivial
    · exact ⟨.inl ⟨'n', [], rfl, by decide, by simp⟩, by decide, by decide⟩
  sorted := by simp [SortedKeys, ltKey]

/-- Floats, value layer: `formatFloat` of a float64 (canonical decimal text `t`, see `CanonFloat`) is read
by `addNumVal` as the same float64: `normDec (formatFloat t) = t` (the `.0` that `formatFloat` appends
to an integral value is dropped again, nothing else changes). -/
theorem C26_float_roundtrip (t : List Char) (h : CanonFloat t) : numVal (fmtFloat t) = .ok (.float t) := by
  obtain ⟨neg, ip, fp', hfmt, _, _, _, hnorm⟩ := float_roundtrip t h
  have := numVal_float neg ip fp'
  rw [← hfmt, hnorm] at this
  exact this

/-- C26_forward for float64 arguments (opaque decimal text): `key=<formatFloat f>` is read by the first
numeric alternative of `item` (`-?d+.d*`) and stored as the same float64 (dynamic type `float64`, not
int64, because the printed text always has a `.`). -/
theorem C26_forward_float (isPrint : Char → Bool) (hnl : isPrint '\n' = false)
    (name : List Char) (k : Key) (t : List Char) (hn : IdentName name) (hok : NameOk name)
    (hnr : name ≠ rangeKw) (hk : KeyName k) (ht : CanonFloat t) :
    (∃ n, parseN n (fmtCall isPrint (.mk name [(k, .float t)] [])) = .ok [.mk name [(k, .float t)] []]) ∧
    (∀ n, parseN n (fmtCall isPrint (.mk name [(k, .float t)] [])) = .error .fuel ∨
          parseN n (fmtCall isPrint (.mk name [(k, .float t)] [])) = .ok [.mk name [(k, .float t)] []]) :=
  C26_forward_flat_partial isPrint hnl name _
    ⟨hn, ⟨hok, fun h => absurd h hnr⟩, by simp,
      fun kv hkv => by
        simp only [List.mem_singleton] at hkv
        subst hkv
        exact ⟨hk, ht⟩,
      by simp [SortedKeys]⟩

/-- Non-vacuity: `SetRowAttrs(x=1.5, y=-2.0)` (values 1.5 and -2) is in the flat fragment. -/
example : FlatCall (fun c => c.toNat ≥ 32 && c.toNat < 127) cl!"SetRowAttrs"
    [(cl!"x", .float cl!"1.5"), (cl!"y", .float cl!"-2")] where
  name_ok := ⟨'S', cl!"etRowAttrs", rfl, by decide, by decide⟩
  name_free := ⟨by decide, fun h => absurd h (by decide)⟩
  nonempty := by simp
  args_ok := by
    intro kv hkv
    simp only [List.mem_cons, List.not_mem_nil, or_false] at hkv
    rcases hkv with rfl | rfl
    · exact ⟨.inl ⟨'x', [], rfl, by decide, by simp⟩, false, ['1'], ['5'], by simp [signText], by simp,
        by decide, by decide, Or.inr (by simp),
        by intro u e; have := congrArg List.getLast? e; simp at this⟩
    · exact ⟨.inl ⟨'y', [], rfl, by decide, by simp⟩, true, ['2'], [], by simp [signText], by simp,
        by decide, by simp, Or.inr (by simp), by simp⟩
  sorted := by simp [SortedKeys, ltKey]

/-- C26_forward for `ClearRow(key=value)`: here the DEDICATED alternative of `Call`
(`'ClearRow' open arg close`) reads the printed text; its events differ from the generic ones
(`startCall` receives the literal name) and the resulting call is the same. -/
theorem C26_forward_clearrow (isPrint : Char → Bool) (hnl : isPrint '\n' = false) (k : Key) (v : Val)
    (hk : KeyName k) (hv : SimpleVal isPrint v) :
    (∃ n, parseN n (fmtCall isPrint (.mk clearRowKw [(k, v)] [])) = .ok [.mk clearRowKw [(k, v)] []]) ∧
    (∀ n, parseN n (fmtCall isPrint (.mk clearRowKw [(k, v)] [])) = .error .fuel ∨
          parseN n (fmtCall isPrint (.mk clearRowKw [(k, v)] [])) = .ok [.mk clearRowKw [(k, v)] []]) := by
  have htext : fmtCall isPrint (.mk clearRowKw [(k, v)] []) =
      clearRowKw ++ '(' :: (argText isPrint (k, v) ++ [')']) := by
    rw [fmtCall_nested isPrint _ _ _ (by simp [clearRowKw])]
    simp [fmtCalls, joinWith]
  rw [htext]
  exact parse_of_run _ _ _
    (calls_single _ _ (by simp [clearRowKw, NoWs, isWs]) (clearrow_call isPrint hnl k v hk hv))
    (clearrow_exec isPrint hnl k v hk hv)

/-- C26_forward for `Store(Child(..), key=value)` (child in the nested fragment): read by the DEDICATED
alternative (`'Store' open Call comma arg close`), same resulting call. -/
theorem C26_forward_store (isPrint : Char → Bool) (hnl : isPrint '\n' = false) (d : Nat) (ch : Call) (k : Key)
    (v : Val) (hch : Nested isPrint d ch) (hk : KeyName k) (hv : SimpleVal isPrint v) :
    (∃ n, parseN n (fmtCall isPrint (.mk storeKw [(k, v)] [ch])) = .ok [.mk storeKw [(k, v)] [ch]]) ∧
    (∀ n, parseN n (fmtCall isPrint (.mk storeKw [(k, v)] [ch])) = .error .fuel ∨
          parseN n (fmtCall isPrint (.mk storeKw [(k, v)] [ch])) = .ok [.mk storeKw [(k, v)] [ch]]) := by
  have htext : fmtCall isPrint (.mk storeKw [(k, v)] [ch]) =
      storeKw ++ '(' :: (fmtCall isPrint ch ++ ',' :: ' ' :: (argText isPrint (k, v) ++ [')'])) := by
    rw [fmtCall_nested isPrint _ _ _ (by simp [storeKw])]
    simp [fmtCalls, joinWith]
  rw [htext]
  exact parse_of_run _ _ _
    (calls_single _ _ (by simp [storeKw, NoWs, isWs]) (store_call isPrint hnl d ch k v hch hk hv))
    (store_exec isPrint hnl d ch k v hch hk hv)

/-- C26_forward for the reserved keys `_row`, `_col`, `_start`, `_end`, `_timestamp`, `_field`
(`field <- <fieldExpr / reserved>`): a call whose keys are field names or reserved names, in key
order, with simple values, is read back as the same call - with the special-form names above
included (`Set(_col=5, f=1)`, `Rows(_field="f", limit=3)`): `col` / `posfield` of the dedicated
alternative fail on `_`. -/
theorem C26_forward_reserved_keys (isPrint : Char → Bool) (hnl : isPrint '\n' = false)
    (name : List Char) (args : List (Key × Val)) (hn : IdentName name) (hok : NameOk name) (hrng : RangeArgs name args []) (hne : args ≠ [])
    (hkeys : ∀ kv ∈ args, kv.1 ∈ reservedKws ∨ FieldName kv.1) (hv : ∀ kv ∈ args, SimpleVal isPrint kv.2)
    (hs : SortedKeys args) :
    (∃ n, parseN n (fmtCall isPrint (.mk name args [])) = .ok [.mk name args []]) ∧
    (∀ n, parseN n (fmtCall isPrint (.mk name args [])) = .error .fuel ∨
          parseN n (fmtCall isPrint (.mk name args [])) = .ok [.mk name args []]) :=
  C26_forward_flat_partial isPrint hnl name args
    ⟨hn, ⟨hok, hrng⟩, hne, fun kv hkv => ⟨(hkeys kv hkv).elim Or.inr Or.inl, hv kv hkv⟩, hs⟩

/-- Non-vacuity: `Set(_col=5, f=1)` (special-form name, reserved key) is in the flat fragment. -/
example : FlatCall (fun c => c.toNat ≥ 32 && c.toNat < 127) cl!"Set" [(cl!"_col", .int 5), (cl!"f", .int 1)] where
  name_ok := ⟨'S', ['e', 't'], rfl, by decide, by decide⟩
  name_free := ⟨by decide, fun h => absurd h (by decide)⟩
  nonempty := by simp
  args_ok := by
    intro kv hkv
    simp only [List.mem_cons, List.not_mem_nil, or_false] at hkv
    rcases hkv with rfl | rfl
    · exact ⟨.inr (by simp [reservedKws]), by decide, by decide⟩
    · exact ⟨.inl ⟨'f', [], rfl, by decide, by simp⟩, by decide, by decide⟩
  sorted := by simp [SortedKeys, ltKey]

/-- Non-vacuity: `Set(_col=5, _timestamp="2019-01-01T00:00", f=1)` - what the executor forwards for a
`Set` with a timestamp: special-form name, reserved keys, and a string that is exactly a timestamp
(read by the timestamp alternative of `item`). -/
example : FlatCall (fun c => c.toNat ≥ 32 && c.toNat < 127) cl!"Set"
    [(cl!"_col", .int 5), (cl!"_timestamp", .str (utf8s cl!"2019-01-01T00:00")), (cl!"f", .int 1)] where
  name_ok := ⟨'S', ['e', 't'], rfl, by decide, by decide⟩
  name_free := ⟨by decide, fun h => absurd h (by decide)⟩
  nonempty := by simp
  args_ok := by
    intro kv hkv
    simp only [List.mem_cons, List.not_mem_nil, or_false] at hkv
    rcases hkv with rfl | rfl | rfl
    · exact ⟨.inr (by simp [reservedKws]), by decide, by decide⟩
    · exact ⟨.inr (by simp [reservedKws]), by simp [SimpleVal, utf8s, utf8]⟩
    · exact ⟨.inl ⟨'f', [], rfl, by decide, by simp⟩, by decide, by decide⟩
  sorted := by simp [SortedKeys, ltKey]

/-- Non-vacuity: `TopN(Row(a=1), n=5)` (a special-form name with a child) is in the nested fragment. -/
example : Nested (fun c => c.toNat ≥ 32 && c.toNat < 127) 2
    (.mk cl!"TopN" [(cl!"n", .int 5)] [.mk cl!"Row" [(cl!"a", .int 1)] []]) := by
  refine ⟨⟨'T', cl!"opN", rfl, by decide, by decide⟩, ⟨by decide, fun h => absurd h (by decide)⟩, Or.inl (by simp), ?_, trivial, ?_⟩
  · intro kv hkv
    simp only [List.mem_singleton] at hkv
    subst hkv
    exact ⟨.inl ⟨'n', [], rfl, by decide, by simp⟩, .inl ⟨by decide, by decide⟩⟩
  · intro ch hch
    simp only [List.mem_singleton] at hch
    subst hch
    refine ⟨⟨'R', cl!"ow", rfl, by decide, by decide⟩, ⟨by decide, fun h => absurd h (by decide)⟩, Or.inl (by simp), ?_, trivial, by simp⟩
    intro kv hkv
    simp only [List.mem_singleton] at hkv
    subst hkv
    exact ⟨.inl ⟨'a', [], rfl, by decide, by simp⟩, .inl ⟨by decide, by decide⟩⟩

/-- Non-vacuity: `Row(f=-7, g="é\"x", h=null, k=true)` is in the flat fragment. -/
example : FlatCall (fun c => c.toNat ≥ 32 && c.toNat < 127) cl!"Row"
    [(cl!"f", .int (-7)), (cl!"g", .str [0xc3, 0xa9, 34, 120]), (cl!"h", .null), (cl!"k", .bool true)] where
  name_ok := ⟨'R', ['o', 'w'], rfl, by decide, by decide⟩
  name_free := ⟨by decide, fun h => absurd h (by decide)⟩
  nonempty := by simp
  args_ok := by
    intro kv hkv
    simp only [List.mem_cons, List.not_mem_nil, or_false] at hkv
    rcases hkv with rfl | rfl | rfl | rfl
    · exact ⟨.inl ⟨'f', [], rfl, by decide, by simp⟩, by decide, by decide⟩
    · exact ⟨.inl ⟨'g', [], rfl, by decide, by simp⟩, by simp [SimpleVal]⟩
    · exact ⟨.inl ⟨'h', [], rfl, by decide, by simp⟩, trivial⟩
    · exact ⟨.inl ⟨'k', [], rfl, by decide, by simp⟩, trivial⟩
  sorted := by simp [SortedKeys, ltKey]

/-! ## Value layer -/

/-- Strings: `strconv.Unquote (strconv.Quote s) = s` for every byte string (valid UTF-8 or not),
whatever the table of printable characters, as long as a newline is never left raw. -/
theorem C26_string_roundtrip (isPrint : Char → Bool) (hnl : isPrint '\n' = false) (bs : Bytes)
    (wf : ∀ b ∈ bs, b < 256) : unquote (quote isPrint bs) = some bs :=
  unquote_quote isPrint hnl bs wf

example : unquote (quote (fun c => c.toNat ≥ 32 && c.toNat < 127) [0xc3, 0xa9, 34, 92, 10, 0xff, 65]) =
    some [0xc3, 0xa9, 34, 92, 10, 0xff, 65] :=
  C26_string_roundtrip _ (by decide) _ (by decide)

/-- C26_literals, string layer: a double-quoted literal written from structurally described items
(plain characters of all of Unicode, the single-letter escapes, `\\xHH`, `\\ooo`, `\\uHHHH`, `\\UHHHHHHHH`)
denotes exactly the bytes `strconv.Unquote` returns for its text.  `C26_literals_dq` below takes it
through the parser. -/
theorem C26_literal_dq_partial (items : List DqItem) (hok : ∀ it ∈ items, it.ok = true) :
    unquote (Lit.write (.dq items)) = some (items.flatMap DqItem.value) := by
  simpa [Lit.write] using unquote_dqItems items hok

example : unquote (Lit.write (.dq [.ch 'é', .esc 'n', .hex 255, .u4 0x20AC, .u8 0x1F600])) =
    some [0xc3, 0xa9, 10, 255, 0xe2, 0x82, 0xac, 0xf0, 0x9f, 0x98, 0x80] := by
  rw [C26_literal_dq_partial _ (by decide)]
  decide

/-- Integers: an int64 printed by `Call.String` is read back as the same int64. -/
theorem C26_int_roundtrip (i : Int) (h1 : minInt64 ≤ i) (h2 : i ≤ maxInt64) :
    numVal (intDigits i) = .ok (.int i) := by
  have hd := (natDigits_spec i.natAbs).2.2
  have hdot : '.' ∉ natDigits i.natAbs := fun hm => by
    have := hd _ hm; simp [isDigit] at this
  have hnd : '.' ∉ intDigits i := by
    simp only [intDigits]
    split
    · simp only [List.mem_cons, not_or]; exact ⟨by decide, hdot⟩
    · exact hdot
  simp [numVal, hnd, parseInt64_intDigits i h1 h2]

example : numVal (intDigits (-9223372036854775808)) = .ok (.int (-9223372036854775808)) :=
  C26_int_roundtrip _ (by decide) (by decide)

/-- The grammar regenerated from pql.peg reads a printed integer as one numeric literal: the PEG
interpreter on `item` consumes exactly the digits and records `addNumVal(text)`. -/
theorem C26_item_int_partial (neg : Bool) (ds r : List Char) (d : Char) (hne : ds ≠ [])
    (hall : ∀ c ∈ ds, isDigit c = true) (hd : Delim d) :
    Parses Gen.rule (.ref Gen.R.item) ((signText neg ++ ds) ++ d :: r) (d :: r)
      [.text (signText neg ++ ds), .act .addNumVal] :=
  item_int_ok neg ds r d hne hall hd

/-! ## C26_literals, through the parser

`writeCall name args` is the text `Name(arg, arg, ..)` of a call written from structurally described
arguments (`WArg`: `key=value`, `key op value`, `lo < key <= hi`) whose values are structurally
described literals (`Lit`); `writtenCall name args` is the call those arguments denote BY
CONSTRUCTION (Spec.lean: no decoder is run on the specification side).  `ParsesTo s cs` says that
the PEG interpreter on the REGENERATED grammar followed by the action machine returns `cs` on `s`:
some fuel suffices and every fuel gives that result or runs out.

`C26_literals` covers, for every call name that is an identifier other than the nine special-form
keywords, every non-empty argument list with pairwise distinct field-name keys IN ANY ORDER, and:
  * ints `-?[0-9]+` in the int64 range, in any written form (leading zeros, `-0`);
  * floats `-?d+.d*` and `-?.d+` as opaque decimal text (`normDec`);
  * `null`, `true`, `false`;
  * double-quoted strings from plain characters of all of Unicode (other than `"`, `\` and newline)
    and the escapes `\a \b \f \n \r \t \v \\ \"`, `\xHH`, `\ooo`, `\uHHHH`, `\UHHHHHHHH`, WHATEVER the content -
    a content that is exactly a timestamp goes through the timestamp alternative of `item` and gives
    the same string, any other content that begins like a timestamp falls through to the string rule;
  * single-quoted strings of any characters other than `'` and `\` (same remark on timestamps);
  * timestamps `yyyy-mm-ddThh:mm` bare, double- and single-quoted;
  * bare words (first character a letter, `_` or `:`, then letters, digits, `-`, `_`, `:`; not a keyword);
  * lists `[a,b,..]` of any of the scalars above;
  * conditions `== != < <= > >= ><` on any scalar or on a list of numbers;
  * BETWEEN ranges `lo < key <= hi` (both `<` and `<=` on either side) with int64 bounds.
Explicit exclusions (and why):
  * `list-last-keyword` (recorded finding): a list whose LAST element is `null`/`true`/`false`;
  * `sq-escape-kept` (recorded finding): `\'` and `\\` inside single quotes;
  * bare words that begin with a digit or `-` (the numeric alternatives read a prefix first) - not
    values of the grammar in general; call-valued arguments (alternative 7) are `C26_call_valued_args`;
  * a list under a condition must be numeric: `addVal` on a list under a condition is a
    type-assertion panic in ast.go, so there is no value to specify;
  * a strict bound at the end of the range (`maxInt64 < k`, `k < minInt64`) wraps in ast.go. -/

/-- C26_literals: every call written from well-formed arguments parses to exactly the call the
arguments denote. -/
theorem C26_literals (name : List Char) (args : List WArg) (hn : IdentName name) (hsp : name ∉ specialKws)
    (hne : args ≠ []) (hok : ∀ a ∈ args, a.Ok) (hd : (args.map WArg.key).Pairwise (· ≠ ·)) :
    ParsesTo (writeCall name args) [writtenCall name args] :=
  literals_parse name args hn hsp hne hok hd

/-- Non-vacuity of C26_literals: `Row(b="x\n\007\u20ac", a > [1,-.5], 1 < d <= 5, _col=[null,'2019-01-01T00:00'])`
(keys not in order, octal and unicode escapes, a list under a condition, a BETWEEN range, a reserved
key, a keyword that is not the last list element, a quoted timestamp). -/
example : ParsesTo
    (writeCall cl!"Row" [.kv cl!"b" (.dq [.ch 'x', .esc 'n', .oct 7, .u4 0x20AC]),
      .kc cl!"a" .GT (.list [.int false ['1'], .float true [] ['5']]),
      .between 1 true cl!"d" false 5,
      .kv cl!"_col" (.list [.null, .ts .sq cl!"2019-01-01T00:00"])])
    [writtenCall cl!"Row" [.kv cl!"b" (.dq [.ch 'x', .esc 'n', .oct 7, .u4 0x20AC]),
      .kc cl!"a" .GT (.list [.int false ['1'], .float true [] ['5']]),
      .between 1 true cl!"d" false 5,
      .kv cl!"_col" (.list [.null, .ts .sq cl!"2019-01-01T00:00"])]] := by
  refine C26_literals _ _ ⟨'R', cl!"ow", rfl, by decide, by decide⟩ (by decide) (by simp) ?_ (by decide)
  intro a ha
  simp only [List.mem_cons, List.not_mem_nil, or_false] at ha
  rcases ha with rfl | rfl | rfl | rfl
  · exact ⟨.inl ⟨'b', [], rfl, by decide, by simp⟩, show ∀ it ∈ _, DqItem.ok it = true by decide⟩
  · refine ⟨.inl ⟨'a', [], rfl, by decide, by simp⟩, by simp [cmpOps], by simp, ?_⟩
    intro x hx
    simp only [List.mem_cons, List.not_mem_nil, or_false] at hx
    rcases hx with rfl | rfl
    · exact ⟨⟨by simp, by decide, by decide, by decide⟩, rfl⟩
    · exact ⟨⟨by simp, by decide, by simp⟩, rfl⟩
  · exact ⟨⟨'d', [], rfl, by decide, by simp⟩, by decide, by decide, by decide, by decide⟩
  · refine ⟨.inr (by simp [reservedKws]), [.null], .ts .sq cl!"2019-01-01T00:00", rfl, ?_, show tsShape _ = true by decide, rfl⟩
    intro x hx
    simp only [List.mem_singleton] at hx
    subst hx
    trivial
theorem writtenCall_single (name : List Char) (a : WArg) :
    writtenCall name [a] = .mk name [(a.key, a.value)] [] := by
  simp [writtenCall, insert]

/-- One argument: the per-class theorems below are this with the class conditions spelled out. -/
theorem literals_single (name : List Char) (a : WArg) (hn : IdentName name) (hsp : name ∉ specialKws)
    (h : a.Ok) : ParsesTo (writeCall name [a]) [.mk name [(a.key, a.value)] []] := by
  rw [← writtenCall_single]
  exact literals_parse name [a] hn hsp (by simp) (by simpa using h) (by simp)

/-- Integers: `-?[0-9]+` within int64, in any written form, is stored as that int64. -/
theorem C26_literals_int (name k : List Char) (neg : Bool) (ds : List Char) (hn : IdentName name)
    (hsp : name ∉ specialKws) (hk : KeyName k) (hne : ds ≠ []) (hall : ∀ c ∈ ds, isDigit c = true)
    (hr : minInt64 ≤ intOf neg ds ∧ intOf neg ds ≤ maxInt64) :
    ParsesTo (writeCall name [.kv k (.int neg ds)]) [.mk name [(k, .int (intOf neg ds))] []] :=
  literals_single name (.kv k (.int neg ds)) hn hsp ⟨hk, hne, hall, hr⟩

/-- Floats: `-?d+.d*` and `-?.d+`, stored as the float64 of the written decimal (opaque text). -/
theorem C26_literals_float (name k : List Char) (neg : Bool) (ip fp : List Char) (hn : IdentName name)
    (hsp : name ∉ specialKws) (hk : KeyName k) (hip : ∀ c ∈ ip, isDigit c = true)
    (hfp : ∀ c ∈ fp, isDigit c = true) (hne : ip ≠ [] ∨ fp ≠ []) :
    ParsesTo (writeCall name [.kv k (.float neg ip fp)])
      [.mk name [(k, .float (normDec ((if neg then ['-'] else []) ++ ip ++ ['.'] ++ fp)))] []] :=
  literals_single name (.kv k (.float neg ip fp)) hn hsp ⟨hk, hip, hfp, hne⟩

/-- `null`. -/
theorem C26_literals_null (name k : List Char) (hn : IdentName name) (hsp : name ∉ specialKws) (hk : KeyName k) :
    ParsesTo (writeCall name [.kv k .null]) [.mk name [(k, .null)] []] :=
  literals_single name (.kv k .null) hn hsp ⟨hk, trivial⟩

/-- `true` / `false`. -/
theorem C26_literals_bool (name k : List Char) (b : Bool) (hn : IdentName name) (hsp : name ∉ specialKws)
    (hk : KeyName k) : ParsesTo (writeCall name [.kv k (.bool b)]) [.mk name [(k, .bool b)] []] :=
  literals_single name (.kv k (.bool b)) hn hsp ⟨hk, trivial⟩

/-- Double-quoted strings over all of Unicode with their escapes, whatever the content. -/
theorem C26_literals_dq (name k : List Char) (items : List DqItem) (hn : IdentName name) (hsp : name ∉ specialKws)
    (hk : KeyName k) (hok : ∀ it ∈ items, it.ok = true) :
    ParsesTo (writeCall name [.kv k (.dq items)]) [.mk name [(k, .str (items.flatMap DqItem.value))] []] :=
  literals_single name (.kv k (.dq items)) hn hsp ⟨hk, hok⟩

/-- Single-quoted strings of any characters other than `'` and `\`, whatever the content. -/
theorem C26_literals_sq (name k : List Char) (items : List SqItem) (hn : IdentName name) (hsp : name ∉ specialKws)
    (hk : KeyName k) (hit : ∀ it ∈ items, ∃ c, it = .ch c ∧ c ≠ '\'' ∧ c ≠ '\\') :
    ParsesTo (writeCall name [.kv k (.sq items)]) [.mk name [(k, .str (items.flatMap SqItem.value))] []] :=
  literals_single name (.kv k (.sq items)) hn hsp ⟨hk, hit⟩

/-- Timestamps in the three quote styles: the sixteen characters as a string. -/
theorem C26_literals_timestamp (name k : List Char) (st : TsStyle) (cs : List Char) (hn : IdentName name)
    (hsp : name ∉ specialKws) (hk : KeyName k) (hts : tsShape cs = true) :
    ParsesTo (writeCall name [.kv k (.ts st cs)]) [.mk name [(k, .str (utf8s cs))] []] :=
  literals_single name (.kv k (.ts st cs)) hn hsp ⟨hk, hts⟩

/-- Bare words (`item` alternative 8): first character a letter, `_` or `:`, then letters, digits, `-`,
`_`, `:`, and not one of the keywords: the string of the characters. -/
theorem C26_literals_bare (name k : List Char) (w : List Char) (hn : IdentName name) (hsp : name ∉ specialKws)
    (hk : KeyName k) (hw : BareWord w) :
    ParsesTo (writeCall name [.kv k (.bare w)]) [.mk name [(k, .str (utf8s w))] []] :=
  literals_single name (.kv k (.bare w)) hn hsp ⟨hk, hw⟩

/-- Lists of scalars; the last element is not a keyword (`list-last-keyword`). -/
theorem C26_literals_list (name k : List Char) (init : List Lit) (last : Lit) (hn : IdentName name)
    (hsp : name ∉ specialKws) (hk : KeyName k) (hinit : ∀ x ∈ init, x.Scalar) (hlast : last.Scalar)
    (hkw : last.isKw = false) :
    ParsesTo (writeCall name [.kv k (.list (init ++ [last]))])
      [.mk name [(k, .list (Lit.values (init ++ [last])))] []] :=
  literals_single name (.kv k (.list (init ++ [last]))) hn hsp ⟨hk, init, last, rfl, hinit, hlast, hkw⟩

/-- Conditions `key op value` for the seven operators, on a scalar or on a list of numbers. -/
theorem C26_literals_cond (name k : List Char) (op : Op) (v : Lit) (hn : IdentName name) (hsp : name ∉ specialKws)
    (hk : KeyName k) (hop : op ∈ cmpOps) (hv : v.NumOk) :
    ParsesTo (writeCall name [.kc k op v]) [.mk name [(k, .cond op v.value)] []] :=
  literals_single name (.kc k op v) hn hsp ⟨hk, hop, hv⟩

/-- BETWEEN ranges `lo <[=] key <[=] hi`: strict bounds are moved inwards by one. -/
theorem C26_literals_between (name k : List Char) (lo hi : Int) (sl sh : Bool) (hn : IdentName name)
    (hsp : name ∉ specialKws) (hk : FieldName k) (hlo : minInt64 ≤ lo ∧ lo ≤ maxInt64)
    (hhi : minInt64 ≤ hi ∧ hi ≤ maxInt64) (hsl : sl = true → lo < maxInt64) (hsh : sh = true → minInt64 < hi) :
    ParsesTo (writeCall name [.between lo sl k sh hi])
      [.mk name [(k, .cond .BETWEEN (.list [.int (if sl then lo + 1 else lo), .int (if sh then hi - 1 else hi)]))] []] :=
  literals_single name (.between lo sl k sh hi) hn hsp ⟨hk, hlo, hhi, hsl, hsh⟩

/-- Call-valued arguments (nested calls as argument values, `item` alternative 7):
`Name(key=Inner(..), ..)` where every call-valued argument is `Call.String` of a call of the nested
fragment (any depth; reserved keys and the six special-form names included) and the other arguments
are written literals as in `C26_literals`, with pairwise distinct keys in any order, parses to the
call whose argument map holds the inner CALLS under their keys.  Through the parser: the first six
alternatives of `item` fail on `Inner(`, the call alternative runs `allargs` on the inner body (the
same derivation as for a child call) and `addVal(endCall())` stores the finished call; `startCall`
under a pending field does not link the call as a child (`Attach.none`).
(The forward direction, at any depth and next to children, is `C26_forward_call_args`.) -/
theorem C26_call_valued_args (isPrint : Char → Bool) (hnl : isPrint '\n' = false) (d : Nat)
    (name : List Char) (args : List XArg) (hn : IdentName name) (hsp : name ∉ specialKws) (hne : args ≠ [])
    (hok : ∀ a ∈ args, a.Ok isPrint d) (hd : (args.map XArg.key).Pairwise (· ≠ ·)) :
    ParsesTo (name ++ ['('] ++ joinWith [',', ' '] (args.map (XArg.write isPrint)) ++ [')'])
      [.mk name (args.foldl (fun m a => insert a.key a.value m) []) []] :=
  xargs_parse isPrint hnl d name args hn hsp hne hok hd

/-- Non-vacuity: `Options(filter=Row(x=1), limit=10)`. -/
example : ParsesTo
    (cl!"Options" ++ ['('] ++ joinWith [',', ' '] ([XArg.call cl!"filter" (.mk cl!"Row" [(cl!"x", .int 1)] []),
      XArg.lit (.kv cl!"limit" (.int false ['1', '0']))].map (XArg.write (fun c => c.toNat ≥ 32 && c.toNat < 127))) ++ [')'])
    [.mk cl!"Options" ([XArg.call cl!"filter" (.mk cl!"Row" [(cl!"x", .int 1)] []),
      XArg.lit (.kv cl!"limit" (.int false ['1', '0']))].foldl (fun m a => insert a.key a.value m) []) []] := by
  refine C26_call_valued_args _ (by decide) 1 _ _ ⟨'O', cl!"ptions", rfl, by decide, by decide⟩ (by decide)
    (by simp) ?_ (by decide)
  intro a ha
  simp only [List.mem_cons, List.not_mem_nil, or_false] at ha
  rcases ha with rfl | rfl
  · refine ⟨.inl ⟨'f', cl!"ilter", rfl, by decide, by decide⟩,
      ⟨'R', cl!"ow", rfl, by decide, by decide⟩, ⟨by decide, fun h => absurd h (by decide)⟩, Or.inl (by simp), ?_, trivial, by simp⟩
    intro kv hkv
    simp only [List.mem_singleton] at hkv
    subst hkv
    exact ⟨.inl ⟨'x', [], rfl, by decide, by simp⟩, .inl ⟨by decide, by decide⟩⟩
  · exact ⟨.inl ⟨'l', cl!"imit", rfl, by decide, by decide⟩, by simp, by decide, by decide, by decide⟩

/-! ## Witnesses of the recorded findings (known_findings.jsonl) -/

/-- Finding `fwd-uint-as-int`: a translated key (uint64) and the int64 of the same value print the
same text, so no parser can give both back: the forwarded `uint64` arrives as `int64`. -/
theorem C26_fwd_uint_as_int_witness :
    fmtCall (fun _ => true) (.mk cl!"Row" [(cl!"f", .uint 5)] []) =
      fmtCall (fun _ => true) (.mk cl!"Row" [(cl!"f", .int 5)] []) ∧
    showParse (parseQ (fmtCall (fun _ => true) (.mk cl!"Row" [(cl!"f", .uint 5)] []))) = cl!"Row(;f=i5)" ∧
    dumpCall (.mk cl!"Row" [(cl!"f", .uint 5)] []) = cl!"Row(;f=u5)" := by
  decide +kernel

/-- Finding `fwd-idlist-as-generic`: `[]int64` / `[]uint64` id lists (validateCallArgs, TopN
refetch) print like a generic list and arrive as `[]interface{}` of int64. -/
theorem C26_fwd_idlist_as_generic_witness :
    showParse (parseQ (fmtCall (fun _ => true) (.mk cl!"TopN" [(cl!"ids", .ints [1, 2])] []))) =
      cl!"TopN(;ids=l[i1,i2])" ∧
    showParse (parseQ (fmtCall (fun _ => true) (.mk cl!"TopN" [(cl!"ids", .uints [1, 2])] []))) =
      cl!"TopN(;ids=l[i1,i2])" ∧
    dumpCall (.mk cl!"TopN" [(cl!"ids", .ints [1, 2])] []) = cl!"TopN(;ids=I[1,2])" := by
  decide +kernel

/-- Finding `list-last-keyword`: `null`/`true`/`false` are only recognised before `,` or `)`;
as the last element of a list they are read as the bare-word strings "true"/"false"/"null". -/
theorem C26_list_last_keyword_witness :
    showParse (parseQ cl!"Row(f=[true])") = cl!"Row(;f=l[s74727565])" ∧
    dumpQuery [writtenCall cl!"Row" [.kv cl!"f" (.list [.bool true])]] = cl!"Row(;f=l[b1])" := by
  decide +kernel

/-- Finding `sq-escape-kept`: the grammar accepts `\'` and `\\` inside single quotes but the value
keeps the backslashes: `'a\'b'` is read as the four characters a \ ' b. -/
theorem C26_sq_escape_kept_witness :
    showParse (parseQ cl!"Row(f='a\\'b')") = cl!"Row(;f=s615c2762)" ∧
    dumpQuery [writtenCall cl!"Row" [.kv cl!"f" (.sq [.ch 'a', .escQuote, .ch 'b'])]] = cl!"Row(;f=s612762)" := by
  decide +kernel

end PV.C26
