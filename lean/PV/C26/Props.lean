import PV.C26.Model
import PV.C26.Spec
import PV.C26.Gen
import PV.C26.LemmasStr
import PV.C26.LemmasNum
import PV.C26.LemmasPql
import PV.C26.LemmasLit
import PV.C26.LemmasNest
namespace PV.C26

/-- `pql.ParseString` over the regenerated grammar. -/
def parseQ (s : List Char) : M (List Call) := parseWith Gen.rule Gen.start s

/-- The regenerated rule table is a well-formed PEG: references in range, no left recursion, no
`star` over a nullable body. -/
theorem C26_grammar_wf : wellFormed Gen.rule Gen.nRules = true := by decide

/-! ## C26_forward

Full-strength statement: for every call `c` the executor can forward (argument values uint64,
int64, bool, string, float64, nil, []int64, []uint64, []interface{}, *Condition, nested call),
`parseQ (fmtCall isPrint c) = ok [c]` with equal names, children, keys, values and dynamic types.

Proved: `C26_forward_nested_partial` (and its depth-1 case `C26_forward_flat_partial`) - the
statement for the fragment `Nested`: calls nested to ANY depth (`Count(Union(Row(a=1), Row(b > 2)))`),
every call with a generic name (any identifier that is not one of the nine special-form keywords),
children that are again in the fragment, arguments `key=value` / `key op value` with field-name
keys (letter, then letters/digits/`_`/`-`) in strictly increasing order, at least one child or
argument, and values int64, nil, bool, string (any byte string, valid UTF-8 or not, whose quoted form
does not begin like a timestamp: four digits and a dash), non-empty lists of int64, and conditions
`== != < <= > >= ><` on an int64 or on a list of int64 (BETWEEN ranges).
It goes through the generic PEG interpreter on the grammar REGENERATED from pql.peg (all ten
alternatives of `Call` and of `item`, `arg`, `args`, all three of `allargs`, `Calls`), the model of the
action machine with its call stack and the models of strconv.Quote/Unquote, for every table of
printable characters.
Excluded and still correspondence-only: floats, lists with other elements than int64, reserved keys (`_col`,
`_field`, ..), strings whose quoted form begins like a timestamp, calls without children and arguments,
call-valued arguments, the special-form names (Set, Clear, TopN, Rows, Range, ..); uint64 and typed id
lists are recorded findings (they cannot round-trip: see the witnesses below). -/

/-- The parser with `n` units of fuel on the regenerated grammar. -/
def parseN (n : Nat) (s : List Char) : M (List Call) := parseFuel Gen.rule Gen.start n s

theorem C26_forward_flat_partial (isPrint : Char → Bool) (hnl : isPrint '\n' = false)
    (name : List Char) (args : List (Key × Val)) (h : FlatCall isPrint name args) :
    (∃ n, parseN n (fmtCall isPrint (.mk name args [])) = .ok [.mk name args []]) ∧
    (∀ n, parseN n (fmtCall isPrint (.mk name args [])) = .error .fuel ∨
          parseN n (fmtCall isPrint (.mk name args [])) = .ok [.mk name args []]) := by
  obtain ⟨n0, hn0⟩ := flat_parses isPrint name args h
  obtain ⟨q, hq, hc⟩ := flat_exec isPrint hnl name args h
  refine ⟨⟨n0, by simp [parseN, parseFuel, hn0, hq, hc]⟩, fun n => ?_⟩
  rcases run_det Gen.rule hn0 (by simp) n with hf | ho
  · left; simp [parseN, parseFuel, hf]
  · right; simp [parseN, parseFuel, ho, hq, hc]

/-- C26_forward for the nested fragment (T2 for generic names and simple values). -/
theorem C26_forward_nested_partial (isPrint : Char → Bool) (hnl : isPrint '\n' = false)
    (d : Nat) (c : Call) (h : Nested isPrint d c) :
    (∃ n, parseN n (fmtCall isPrint c) = .ok [c]) ∧
    (∀ n, parseN n (fmtCall isPrint c) = .error .fuel ∨ parseN n (fmtCall isPrint c) = .ok [c]) := by
  have hp := nested_parses isPrint d c h [] trivial
  rw [List.append_nil] at hp
  obtain ⟨n0, hn0⟩ := calls_single _ _ (nested_text isPrint d c h).1 hp
  obtain ⟨t, ht⟩ := ((nested_exec isPrint hnl d c h) {} []).1 rfl
  have hexec : exec (evCallD isPrint d c) {} = .ok { calls := [c], text := t } := by
    simpa [exec] using ht
  refine ⟨⟨n0, ?_⟩, fun n => ?_⟩
  · show parseFuel Gen.rule Gen.start n0 _ = _
    simp [parseFuel, show run Gen.rule n0 (.ref Gen.start) (fmtCall isPrint c) = _ from hn0, hexec]
  · rcases run_det Gen.rule hn0 (by simp) n with hf | ho
    · left; show parseFuel Gen.rule Gen.start n _ = _
      simp [parseFuel, show run Gen.rule n (.ref Gen.start) (fmtCall isPrint c) = _ from hf]
    · right; show parseFuel Gen.rule Gen.start n _ = _
      simp [parseFuel, show run Gen.rule n (.ref Gen.start) (fmtCall isPrint c) = _ from ho, hexec]

/-- Non-vacuity: `Count(Union(Row(a=1), Row(b >< [2,9])))` is in the nested fragment (depth 3). -/
example : Nested (fun c => c.toNat ≥ 32 && c.toNat < 127) 3
    (.mk cl!"Count" [] [.mk cl!"Union" []
      [.mk cl!"Row" [(cl!"a", .int 1)] [], .mk cl!"Row" [(cl!"b", .cond .BETWEEN (.list [.int 2, .int 9]))] []]]) := by
  refine ⟨⟨'C', cl!"ount", rfl, by decide, by decide⟩, by decide, Or.inr (by simp), by simp, trivial, ?_⟩
  intro ch hch
  simp only [List.mem_singleton] at hch
  subst hch
  refine ⟨⟨'U', cl!"nion", rfl, by decide, by decide⟩, by decide, Or.inr (by simp), by simp, trivial, ?_⟩
  intro ch hch
  simp only [List.mem_cons, List.not_mem_nil, or_false] at hch
  rcases hch with rfl | rfl
  · refine ⟨⟨'R', cl!"ow", rfl, by decide, by decide⟩, by decide, Or.inl (by simp), ?_, trivial, by simp⟩
    intro kv hkv
    simp only [List.mem_singleton] at hkv
    subst hkv
    exact ⟨⟨'a', [], rfl, by decide, by simp⟩, by decide, by decide⟩
  · refine ⟨⟨'R', cl!"ow", rfl, by decide, by decide⟩, by decide, Or.inl (by simp), ?_, trivial, by simp⟩
    intro kv hkv
    simp only [List.mem_singleton] at hkv
    subst hkv
    exact ⟨⟨'b', [], rfl, by decide, by simp⟩, by simp [cmpOps], [2, 9], rfl, by simp, by decide⟩

/-- Non-vacuity: `Row(f=-7, g="é\"x", h=null, k=true)` is in the flat fragment. -/
example : FlatCall (fun c => c.toNat ≥ 32 && c.toNat < 127) cl!"Row"
    [(cl!"f", .int (-7)), (cl!"g", .str [0xc3, 0xa9, 34, 120]), (cl!"h", .null), (cl!"k", .bool true)] where
  name_ok := ⟨'R', ['o', 'w'], rfl, by decide, by decide⟩
  not_special := by decide
  nonempty := by simp
  args_ok := by
    intro kv hkv
    simp only [List.mem_cons, List.not_mem_nil, or_false] at hkv
    rcases hkv with rfl | rfl | rfl | rfl
    · exact ⟨⟨'f', [], rfl, by decide, by simp⟩, by decide, by decide⟩
    · exact ⟨⟨'g', [], rfl, by decide, by simp⟩, by decide,
        by simp [tsPrefix5, quoteBody, pieces, decodeRune, isCont, quotePiece, isDigit]⟩
    · exact ⟨⟨'h', [], rfl, by decide, by simp⟩, trivial⟩
    · exact ⟨⟨'k', [], rfl, by decide, by simp⟩, trivial⟩
  sorted := by simp [SortedKeys, ltKey]

/-! ## Value layer -/

/-- Strings: `strconv.Unquote (strconv.Quote s) = s` for every byte string (valid UTF-8 or not),
whatever the table of printable characters, as long as a newline is never left raw. -/
theorem C26_string_roundtrip (isPrint : Char → Bool) (hnl : isPrint '\n' = false) (bs : Bytes)
    (wf : ∀ b ∈ bs, b < 256) : unquote (quote isPrint bs) = some bs :=
  unquote_quote isPrint hnl bs wf

example : unquote (quote (fun c => c.toNat ≥ 32 && c.toNat < 127) [0xc3, 0xa9, 34, 92, 10, 0xff, 65]) =
    some [0xc3, 0xa9, 34, 92, 10, 0xff, 65] :=
  C26_string_roundtrip _ (by decide) _ (by decide)

/-- C26_literals, string layer: a double-quoted literal written from structurally described items
(plain characters of all of Unicode, the single-letter escapes, `\\xHH`, `\\uHHHH`, `\\UHHHHHHHH`) denotes
exactly the bytes `strconv.Unquote` returns for its text.  Excluded: octal escapes `\\ooo`
(correspondence only).  The full C26_literals (every literal form through the parser) is not yet
proved. -/
theorem C26_literal_dq_partial (items : List DqItem) (hok : ∀ it ∈ items, it.ok = true)
    (hno : ∀ it ∈ items, ∀ b, it ≠ .oct b) :
    unquote (Lit.write (.dq items)) = some (items.flatMap DqItem.value) := by
  simpa [Lit.write] using unquote_dqItems items hok hno

example : unquote (Lit.write (.dq [.ch 'é', .esc 'n', .hex 255, .u4 0x20AC, .u8 0x1F600])) =
    some [0xc3, 0xa9, 10, 255, 0xe2, 0x82, 0xac, 0xf0, 0x9f, 0x98, 0x80] := by
  rw [C26_literal_dq_partial _ (by decide) (by intro it hit b; simp at hit; rcases hit with rfl | rfl | rfl | rfl | rfl <;> simp)]
  decide

/-- Integers: an int64 printed by `Call.String` is read back as the same int64. -/
theorem C26_int_roundtrip (i : Int) (h1 : minInt64 ≤ i) (h2 : i ≤ maxInt64) :
    numVal (intDigits i) = .ok (.int i) := by
  have hd := (natDigits_spec i.natAbs).2.2
  have hdot : '.' ∉ natDigits i.natAbs := fun hm => by
    have := hd _ hm; simp [isDigit] at this
  have hnd : '.' ∉ intDigits i := by
    simp only [intDigits]
    split
    · simp only [List.mem_cons, not_or]; exact ⟨by decide, hdot⟩
    · exact hdot
  simp [numVal, hnd, parseInt64_intDigits i h1 h2]

example : numVal (intDigits (-9223372036854775808)) = .ok (.int (-9223372036854775808)) :=
  C26_int_roundtrip _ (by decide) (by decide)

/-- The grammar regenerated from pql.peg reads a printed integer as one numeric literal: the PEG
interpreter on `item` consumes exactly the digits and records `addNumVal(text)`. -/
theorem C26_item_int_partial (neg : Bool) (ds r : List Char) (d : Char) (hne : ds ≠ [])
    (hall : ∀ c ∈ ds, isDigit c = true) (hd : Delim d) :
    Parses Gen.rule (.ref Gen.R.item) ((signText neg ++ ds) ++ d :: r) (d :: r)
      [.text (signText neg ++ ds), .act .addNumVal] :=
  item_int_ok neg ds r d hne hall hd

/-! ## Witnesses of the recorded findings (known_findings.jsonl) -/

/-- Finding `fwd-uint-as-int`: a translated key (uint64) and the int64 of the same value print the
same text, so no parser can give both back: the forwarded `uint64` arrives as `int64`. -/
theorem C26_fwd_uint_as_int_witness :
    fmtCall (fun _ => true) (.mk cl!"Row" [(cl!"f", .uint 5)] []) =
      fmtCall (fun _ => true) (.mk cl!"Row" [(cl!"f", .int 5)] []) ∧
    showParse (parseQ (fmtCall (fun _ => true) (.mk cl!"Row" [(cl!"f", .uint 5)] []))) = cl!"Row(;f=i5)" ∧
    dumpCall (.mk cl!"Row" [(cl!"f", .uint 5)] []) = cl!"Row(;f=u5)" := by
  decide +kernel

/-- Finding `fwd-idlist-as-generic`: `[]int64` / `[]uint64` id lists (validateCallArgs, TopN
refetch) print like a generic list and arrive as `[]interface{}` of int64. -/
theorem C26_fwd_idlist_as_generic_witness :
    showParse (parseQ (fmtCall (fun _ => true) (.mk cl!"TopN" [(cl!"ids", .ints [1, 2])] []))) =
      cl!"TopN(;ids=l[i1,i2])" ∧
    showParse (parseQ (fmtCall (fun _ => true) (.mk cl!"TopN" [(cl!"ids", .uints [1, 2])] []))) =
      cl!"TopN(;ids=l[i1,i2])" ∧
    dumpCall (.mk cl!"TopN" [(cl!"ids", .ints [1, 2])] []) = cl!"TopN(;ids=I[1,2])" := by
  decide +kernel

/-- Finding `list-last-keyword`: `null`/`true`/`false` are only recognised before `,` or `)`;
as the last element of a list they are read as the bare-word strings "true"/"false"/"null". -/
theorem C26_list_last_keyword_witness :
    showParse (parseQ cl!"Row(f=[true])") = cl!"Row(;f=l[s74727565])" ∧
    dumpQuery [writtenCall cl!"Row" [.kv cl!"f" (.list [.bool true])]] = cl!"Row(;f=l[b1])" := by
  decide +kernel

/-- Finding `sq-escape-kept`: the grammar accepts `\'` and `\\` inside single quotes but the value
keeps the backslashes: `'a\'b'` is read as the four characters a \ ' b. -/
theorem C26_sq_escape_kept_witness :
    showParse (parseQ cl!"Row(f='a\\'b')") = cl!"Row(;f=s615c2762)" ∧
    dumpQuery [writtenCall cl!"Row" [.kv cl!"f" (.sq [.ch 'a', .escQuote, .ch 'b'])]] = cl!"Row(;f=s612762)" := by
  decide +kernel

end PV.C26
