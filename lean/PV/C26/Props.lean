import PV.C26.Model
import PV.C26.Spec
import PV.C26.Gen
namespace PV.C26

/-- `pql.ParseString` over the regenerated grammar. -/
def parseQ (s : List Char) : M (List Call) := parseWith Gen.rule Gen.start s

/-- The regenerated rule table is a well-formed PEG: references in range, no left recursion, no
`star` over a nullable body. -/
theorem C26_grammar_wf : wellFormed Gen.rule Gen.nRules = true := by decide

/-! ## Witnesses of the recorded findings (known_findings.jsonl) -/

/-- Finding `fwd-uint-as-int`: a translated key (uint64) and the int64 of the same value print the
same text, so no parser can give both back: the forwarded `uint64` arrives as `int64`. -/
theorem C26_fwd_uint_as_int_witness :
    fmtCall (fun _ => true) (.mk cl!"Row" [(cl!"f", .uint 5)] []) =
      fmtCall (fun _ => true) (.mk cl!"Row" [(cl!"f", .int 5)] []) ∧
    showParse (parseQ (fmtCall (fun _ => true) (.mk cl!"Row" [(cl!"f", .uint 5)] []))) = cl!"Row(;f=i5)" ∧
    dumpCall (.mk cl!"Row" [(cl!"f", .uint 5)] []) = cl!"Row(;f=u5)" := by
  decide +kernel

/-- Finding `fwd-idlist-as-generic`: `[]int64` / `[]uint64` id lists (validateCallArgs, TopN
refetch) print like a generic list and arrive as `[]interface{}` of int64. -/
theorem C26_fwd_idlist_as_generic_witness :
    showParse (parseQ (fmtCall (fun _ => true) (.mk cl!"TopN" [(cl!"ids", .ints [1, 2])] []))) =
      cl!"TopN(;ids=l[i1,i2])" ∧
    showParse (parseQ (fmtCall (fun _ => true) (.mk cl!"TopN" [(cl!"ids", .uints [1, 2])] []))) =
      cl!"TopN(;ids=l[i1,i2])" ∧
    dumpCall (.mk cl!"TopN" [(cl!"ids", .ints [1, 2])] []) = cl!"TopN(;ids=I[1,2])" := by
  decide +kernel

/-- Finding `list-last-keyword`: `null`/`true`/`false` are only recognised before `,` or `)`;
as the last element of a list they are read as the bare-word strings "true"/"false"/"null". -/
theorem C26_list_last_keyword_witness :
    showParse (parseQ cl!"Row(f=[true])") = cl!"Row(;f=l[s74727565])" ∧
    dumpQuery [writtenCall cl!"Row" [.kv cl!"f" (.list [.bool true])]] = cl!"Row(;f=l[b1])" := by
  decide +kernel

/-- Finding `sq-escape-kept`: the grammar accepts `\'` and `\\` inside single quotes but the value
keeps the backslashes: `'a\'b'` is read as the four characters a \ ' b. -/
theorem C26_sq_escape_kept_witness :
    showParse (parseQ cl!"Row(f='a\\'b')") = cl!"Row(;f=s615c2762)" ∧
    dumpQuery [writtenCall cl!"Row" [.kv cl!"f" (.sq [.ch 'a', .escQuote, .ch 'b'])]] = cl!"Row(;f=s612762)" := by
  decide +kernel

end PV.C26
