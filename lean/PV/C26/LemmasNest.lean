/-
C26 — the nested fragment of C26_forward (T2): children to any depth, each again a call of the
fragment, plus simple arguments.  Syntax (`nested_parses`) by induction on the depth through the
alternatives of `allargs`; semantics (`nested_exec`) by induction on the depth through the action
machine with the call stack.  Core Lean only.
-/
import PV.C26.LemmasFwd
namespace PV.C26
open Gen

/-- The nested fragment, by depth: a name other than `ClearRow`/`Store`/`Range`, children that are
again in the fragment, arguments with sorted keys (field names or reserved names) whose values are
simple or again a CALL of the fragment (`key=Inner(..)`), and at least one child or argument. -/
def Nested (isPrint : Char → Bool) : Nat → Call → Prop
  | 0, _ => False
  | d + 1, .mk name args children =>
    IdentName name ∧ (NameOk name ∧ RangeArgs name args children) ∧ (args ≠ [] ∨ children ≠ []) ∧
      (∀ kv ∈ args, KeyName kv.1 ∧ (SimpleVal isPrint kv.2 ∨ ∃ c, kv.2 = .call c ∧ Nested isPrint d c)) ∧
      SortedKeys args ∧ ∀ ch ∈ children, Nested isPrint d ch

/-- An argument value of a call of depth `d + 1`. -/
def ArgOk (isPrint : Char → Bool) (d : Nat) (v : Val) : Prop :=
  SimpleVal isPrint v ∨ ∃ c, v = .call c ∧ Nested isPrint d c

/-- The events of an argument, given the events of the body of a call value. -/
def evArgWith (isPrint : Char → Bool) (body : Call → List Ev) (kv : Key × Val) : List Ev :=
  match kv.2 with
  | .call c => [.text kv.1, .act (.addField .text)] ++ (body c ++ [.act (.addVal .endCall)])
  | _ => evArg isPrint kv

/-- The events of a printed call up to (not including) its closing action, by depth. -/
def evBodyD (isPrint : Char → Bool) : Nat → Call → List Ev
  | 0, _ => []
  | d + 1, .mk name args children =>
    [.text name, .act (.startCall .text)] ++ children.flatMap (fun ch => evBodyD isPrint d ch ++ [.act .endCall]) ++
      args.flatMap (evArgWith isPrint (evBodyD isPrint d))

/-- The events of a printed call (child or top level): closed by `endCall`. -/
def evCallD (isPrint : Char → Bool) (d : Nat) (c : Call) : List Ev := evBodyD isPrint d c ++ [.act .endCall]

/-- The events of a printed call read as a VALUE: closed by `addVal(endCall())`. -/
def evCallV (isPrint : Char → Bool) (d : Nat) (c : Call) : List Ev :=
  evBodyD isPrint d c ++ [.act (.addVal .endCall)]

/-- The events of a printed argument at depth `d + 1`. -/
def evArgD (isPrint : Char → Bool) (d : Nat) (kv : Key × Val) : List Ev :=
  match kv.2 with
  | .call c => [.text kv.1, .act (.addField .text)] ++ evCallV isPrint d c
  | _ => evArg isPrint kv

theorem evArgWith_eq (isPrint : Char → Bool) (d : Nat) (kv : Key × Val) :
    evArgWith isPrint (evBodyD isPrint d) kv = evArgD isPrint d kv := by
  obtain ⟨k, v⟩ := kv
  cases v <;> rfl

theorem evCallD_succ (isPrint : Char → Bool) (d : Nat) (name : List Char) (args : List (Key × Val))
    (children : List Call) :
    evCallD isPrint (d + 1) (.mk name args children) =
      [.text name, .act (.startCall .text)] ++ children.flatMap (evCallD isPrint d) ++
        args.flatMap (evArgD isPrint d) ++ [.act .endCall] := by
  have e : (evArgWith isPrint (evBodyD isPrint d)) = evArgD isPrint d := funext (evArgWith_eq isPrint d)
  simp only [evCallD, evBodyD, e]
  rfl

theorem evCallV_succ (isPrint : Char → Bool) (d : Nat) (name : List Char) (args : List (Key × Val))
    (children : List Call) :
    evCallV isPrint (d + 1) (.mk name args children) =
      [.text name, .act (.startCall .text)] ++ children.flatMap (evCallD isPrint d) ++
        args.flatMap (evArgD isPrint d) ++ [.act (.addVal .endCall)] := by
  have e : (evArgWith isPrint (evBodyD isPrint d)) = evArgD isPrint d := funext (evArgWith_eq isPrint d)
  simp only [evCallV, evBodyD, e]
  rfl

theorem evArgD_simple (isPrint : Char → Bool) (d : Nat) (kv : Key × Val) (h : SimpleVal isPrint kv.2) :
    evArgD isPrint d kv = evArg isPrint kv := by
  obtain ⟨k, v⟩ := kv
  cases v <;> first | rfl | exact absurd h (by simp [SimpleVal])

/-- `Call.String` of a call of the fragment. -/
theorem fmtCall_nested (isPrint : Char → Bool) (name : List Char) (args : List (Key × Val)) (children : List Call)
    (hn : name ≠ []) :
    fmtCall isPrint (.mk name args children) =
      name ++ '(' :: (joinWith [',', ' '] (fmtCalls isPrint children) ++
        ((if children ≠ [] ∧ args ≠ [] then [',', ' '] else []) ++
          (joinWith [',', ' '] (args.map (argText isPrint)) ++ [')']))) := by
  simp [fmtCall, hn, fmtArgs_all isPrint args]

theorem fmtCalls_map (isPrint : Char → Bool) (cs : List Call) :
    fmtCalls isPrint cs = cs.map (fmtCall isPrint) := by
  induction cs with
  | nil => simp [fmtCalls]
  | cons c rest ih => simp [fmtCalls, ih]


/-- A printed child call: its text and the events it produces whatever follows. -/
structure PCall where
  text : List Char
  evs : List Ev

def PCall.Ok (c : PCall) : Prop :=
  NoWs c.text ∧ c.text ≠ [] ∧ ∀ r, NoWs r → P (.ref R.Call) (c.text ++ r) r c.evs

/-- `(comma Call)*` on the remaining children, up to a tail on which `comma Call` fails. -/
theorem star_children (cs : List PCall) (hok : ∀ c ∈ cs, c.Ok) (T : List Char) (hT : NoWs T)
    (hfail : F (.seq (.ref R.comma) (.ref R.Call)) T) :
    P (.star (.seq (.ref R.comma) (.ref R.Call))) (cs.flatMap (fun c => [',', ' '] ++ c.text) ++ T) T
      (cs.flatMap (·.evs)) := by
  induction cs with
  | nil => simpa using Parses.star_nil hfail
  | cons c rest ih =>
    obtain ⟨hws, hne, hp⟩ := hok c (by simp)
    have ihh := ih (fun x hx => hok x (by simp [hx]))
    have hnext : NoWs (rest.flatMap (fun c => [',', ' '] ++ c.text) ++ T) := by
      cases rest with
      | nil => simpa using hT
      | cons d ds => simp [NoWs, isWs]
    have h1 := comma_sp (r := c.text ++ (rest.flatMap (fun c => [',', ' '] ++ c.text) ++ T)) (noWs_append hws hne)
    have h2 := hp (rest.flatMap (fun c => [',', ' '] ++ c.text) ++ T) hnext
    have h := Parses.star_cons (Parses.seq h1 h2) ihh
    simpa [List.append_assoc] using h

/-- `allargs` on one or more printed children followed by `T` (the optional `, args` part is given). -/
theorem allargs_children (c : PCall) (cs : List PCall) (hok : ∀ x ∈ c :: cs, x.Ok) (T T' : List Char)
    (evsA : List Ev) (hT : NoWs T) (hfail : F (.seq (.ref R.comma) (.ref R.Call)) T)
    (hopt : P (.opt (.seq (.ref R.comma) (.ref R.args))) T T' evsA) :
    P (.ref R.allargs) (joinWith [',', ' '] ((c :: cs).map (·.text)) ++ T) T'
      ((c :: cs).flatMap (·.evs) ++ evsA) := by
  obtain ⟨hws, hne, hp⟩ := hok c (by simp)
  have hstar := star_children cs (fun x hx => hok x (by simp [hx])) T hT hfail
  have hnext : NoWs (cs.flatMap (fun c => [',', ' '] ++ c.text) ++ T) := by
    cases cs with
    | nil => simpa using hT
    | cons d ds => simp [NoWs, isWs]
  have h1 := hp (cs.flatMap (fun c => [',', ' '] ++ c.text) ++ T) hnext
  apply Parses.ref
  show P e_allargs _ _ _
  simp only [e_allargs, alts, seqs]
  refine Parses.alt_left ?_
  have h := Parses.seq h1 (Parses.seq hstar hopt)
  rw [List.map_cons, joinWith_cons]
  simpa [List.flatMap_map, List.append_assoc] using h


theorem alpha_noWs {c : Char} (hc : isAlpha c = true) (s : List Char) : NoWs (c :: s) := by
  simp only [NoWs]
  cases hw : isWs c with
  | false => rfl
  | true =>
    simp only [isWs, Bool.or_eq_true, decide_eq_true_eq] at hw
    rcases hw with (rfl | rfl) | rfl <;> simp [isAlpha, isLower, isUpper] at hc

theorem identName_noWs {name : List Char} (hn : IdentName name) (s : List Char) : NoWs (name ++ s) := by
  obtain ⟨c, cs, rfl, hc, _⟩ := hn
  simp only [List.cons_append, NoWs]
  cases hw : isWs c with
  | false => rfl
  | true =>
    simp only [isWs, Bool.or_eq_true, decide_eq_true_eq] at hw
    rcases hw with (rfl | rfl) | rfl <;> simp [isAlpha, isLower, isUpper] at hc

/-- A printed argument of a nested call is read by `arg` whatever delimiter follows; for a call value
this needs the item-level reading of the inner call (`hitem`, the induction hypothesis). -/
theorem pargD_ok (isPrint : Char → Bool) (hnl : isPrint '\n' = false) (d : Nat) (kv : Key × Val) (hk : KeyName kv.1) (hv : ArgOk isPrint d kv.2)
    (hitem : ∀ c, Nested isPrint d c → (NoWs (fmtCall isPrint c) ∧ fmtCall isPrint c ≠ []) ∧
      ∀ r, NoWs r → P (.ref R.item) (fmtCall isPrint c ++ r) r (evCallV isPrint d c)) :
    PArg.Ok ⟨argText isPrint kv, evArgD isPrint d kv⟩ := by
  rcases hv with hv | ⟨c, hc, hn⟩
  · rw [evArgD_simple isPrint d kv hv]; exact parg_ok isPrint hnl kv hk hv
  · obtain ⟨k, v⟩ := kv
    simp only at hc
    subst hc
    obtain ⟨⟨hnw, hne⟩, hp⟩ := hitem c hn
    refine ⟨by simp only [argText]; exact hk.noWs _, by simp [argText], ?_⟩
    intro dl r hd
    have hdws : NoWs (dl :: r) := by rcases hd with rfl | rfl <;> simp [NoWs, isWs]
    have := arg_eq_ok (vs := fmtCall isPrint c ++ dl :: r) hk (noWs_append hnw hne) (value_of_item (hp (dl :: r) hdws))
    simpa [argText, evArgD, fmtVal, List.append_assoc] using this

/-- The printed arguments: `args` reads them up to the closing parenthesis. -/
theorem args_text_ok (isPrint : Char → Bool) (hnl : isPrint '\n' = false) (d : Nat) (args : List (Key × Val)) (hne : args ≠ [])
    (hargs : ∀ kv ∈ args, KeyName kv.1 ∧ ArgOk isPrint d kv.2)
    (hitem : ∀ c, Nested isPrint d c → (NoWs (fmtCall isPrint c) ∧ fmtCall isPrint c ≠ []) ∧
      ∀ r, NoWs r → P (.ref R.item) (fmtCall isPrint c ++ r) r (evCallV isPrint d c)) (r : List Char) :
    P (.ref R.args) (joinWith [',', ' '] (args.map (argText isPrint)) ++ ')' :: r) (')' :: r)
      (args.flatMap (evArgD isPrint d)) := by
  let pargs : List PArg := args.map (fun kv => ⟨argText isPrint kv, evArgD isPrint d kv⟩)
  have hpok : ∀ a ∈ pargs, a.Ok := by
    intro a ha
    simp only [pargs, List.mem_map] at ha
    obtain ⟨kv, hkv, rfl⟩ := ha
    exact pargD_ok isPrint hnl d kv (hargs kv hkv).1 (hargs kv hkv).2 hitem
  have hpne : pargs ≠ [] := by simpa [pargs] using hne
  have hargsP := args_ok pargs hpne hpok r
  have htext : pargs.map (·.text) = args.map (argText isPrint) := by simp [pargs]
  have hevs : pargs.flatMap (·.evs) = args.flatMap (evArgD isPrint d) := by simp [pargs, List.flatMap_map]
  rw [htext, hevs] at hargsP
  exact hargsP

/-- `Call` does not match at the first printed argument. -/
theorem call_fails_args (isPrint : Char → Bool) (args : List (Key × Val)) (hne : args ≠ [])
    (hargs : ∀ kv ∈ args, KeyName kv.1) (s : List Char) :
    F (.ref R.Call) (joinWith [',', ' '] (args.map (argText isPrint)) ++ s) := by
  cases args with
  | nil => exact absurd rfl hne
  | cons a rest =>
    have hk := hargs a (by simp)
    obtain ⟨x, tl, hx, hxe⟩ := argText_head isPrint a
    have hx1 : isAlnum x = false := by rcases hxe with rfl | rfl <;> decide
    have hx2 : x ≠ '(' := by rcases hxe with rfl | rfl <;> decide
    rw [List.map_cons, joinWith_cons, hx]
    simp only [List.append_assoc, List.cons_append]
    exact call_fails_key a.1 _ x hk hx1 hx2

theorem args_text_noWs (isPrint : Char → Bool) (args : List (Key × Val)) (hne : args ≠ [])
    (hargs : ∀ kv ∈ args, KeyName kv.1) (s : List Char) :
    NoWs (joinWith [',', ' '] (args.map (argText isPrint)) ++ s) := by
  cases args with
  | nil => exact absurd rfl hne
  | cons a rest =>
    have hk := hargs a (by simp)
    obtain ⟨x, tl, hx, _⟩ := argText_head isPrint a
    rw [List.map_cons, joinWith_cons, hx]
    simp only [List.append_assoc]
    exact hk.noWs _

theorem firstKey_of_argD (isPrint : Char → Bool) (d : Nat) (kv : Key × Val) (s : List Char) (hk : KeyName kv.1)
    (hv : ArgOk isPrint d kv.2) : FirstKey (argText isPrint kv ++ s) := by
  rcases hv with hv | ⟨c, hc, _⟩
  · exact firstKey_of_arg isPrint kv s hk hv
  · obtain ⟨k, v⟩ := kv
    simp only at hc
    subst hc
    refine ⟨k, '=', fmtCall isPrint c ++ s, by simp [argText, fmtVal], hk, by decide, by decide,
      comma_fails (by simp [NoWs, isWs]) (by simp [NotHead])⟩


theorem nested_text (isPrint : Char → Bool) (d : Nat) (c : Call) (h : Nested isPrint d c) :
    NoWs (fmtCall isPrint c) ∧ fmtCall isPrint c ≠ [] := by
  cases d with
  | zero => exact absurd h (by simp [Nested])
  | succ d =>
    obtain ⟨name, args, children⟩ := c
    obtain ⟨hn, _, _, hargs, _, _⟩ := h
    have hname : name ≠ [] := by obtain ⟨c, cs, rfl, _, _⟩ := hn; simp
    rw [fmtCall_nested isPrint name args children hname]
    obtain ⟨c, cs, rfl, hc, _⟩ := hn
    exact ⟨alpha_noWs hc _, by simp⟩

/-! ### A printed call as an argument value (`item` alternative 7) -/

/-- A keyword alternative of `item` fails on `name(..`: the keyword is not a prefix, or what follows
it is a letter, a digit or `(`, where the lookahead `&(comma / sp close)` fails. -/
theorem kw_alt_fails (kw : List Char) (a : Act) (name rest : List Char) (hn : IdentName name)
    (hkw : kw ≠ [] ∧ ∀ c ∈ kw, isAlpha c = true) :
    F (.seq (lit kw) (.seq (.andP (.alt (.ref R.comma) (.seq (.ref R.sp) (.ref R.close)))) (.act a)))
      (name ++ '(' :: rest) := by
  by_cases hp : kw <+: name ++ '(' :: rest
  · obtain ⟨t, ht⟩ := hp
    have hxkw : '(' ∉ kw := fun hmem => by
      have := hkw.2 _ hmem; revert this; decide
    obtain ⟨u, hu1, hu2⟩ := append_eq_split kw t name '(' rest hxkw ht
    have hhead : ∃ y ys, t = y :: ys ∧ isWs y = false ∧ y ≠ ',' ∧ y ≠ ')' := by
      cases u with
      | nil => exact ⟨'(', rest, by simpa using hu2, by decide, by decide, by decide⟩
      | cons y ys =>
        have hy : isAlnum y = true := identName_alnum hn y (by rw [hu1]; simp)
        refine ⟨y, ys ++ '(' :: rest, by simpa using hu2, ?_, ?_, ?_⟩
        · cases hw : isWs y with
          | false => rfl
          | true =>
            simp only [isWs, Bool.or_eq_true, decide_eq_true_eq] at hw
            rcases hw with (rfl | rfl) | rfl <;> simp [isAlnum, isAlpha, isLower, isUpper, isDigit] at hy
        · intro e; subst e; simp [isAlnum, isAlpha, isLower, isUpper, isDigit] at hy
        · intro e; subst e; simp [isAlnum, isAlpha, isLower, isUpper, isDigit] at hy
    obtain ⟨y, ys, hty, hyw, hyc, hyp⟩ := hhead
    rw [← ht, hty]
    have hnw : NoWs (y :: ys) := by simpa [NoWs] using hyw
    refine Fails.seq_right (Parses.lit kw _) (Fails.seq_left (Fails.andP (Fails.alt
      (comma_fails hnw (by simpa [NotHead] using hyc))
      (Fails.seq_right (sp_nil hnw) (close_fails (by simpa [NotHead] using hyp))))))
  · exact Fails.seq_left (Fails.lit kw _ hkw.1 hp)

/-- `item` reads `name(body)` as a call value: the first six alternatives fail on a text that begins
with an identifier followed by `(`, the call alternative needs no condition on the name. -/
theorem item_call_ok (name atext r : List Char) (evs : List Ev) (hn : IdentName name)
    (hws : NoWs (atext ++ ')' :: r)) (hr : NoWs r)
    (ha : P (.ref R.allargs) (atext ++ ')' :: r) (')' :: r) evs) :
    P (.ref R.item) (name ++ '(' :: (atext ++ ')' :: r)) r
      ([.text name, .act (.startCall .text)] ++ evs ++ [.act (.addVal .endCall)]) := by
  obtain ⟨c, cs, hname, hc, hcs⟩ := hn
  have hn : IdentName name := ⟨c, cs, hname, hc, hcs⟩
  have hcd : isDigit c = false ∧ c ≠ '-' ∧ c ≠ '.' ∧ c ≠ '"' ∧ c ≠ '\'' := by
    refine ⟨?_, ?_, ?_, ?_, ?_⟩
    · cases hd : isDigit c with
      | false => rfl
      | true =>
        simp only [isDigit, Bool.and_eq_true, decide_eq_true_eq] at hd
        simp only [isAlpha, isLower, isUpper, Bool.or_eq_true, Bool.and_eq_true, decide_eq_true_eq] at hc
        rcases hc with ⟨h1, _⟩ | ⟨h1, _⟩
        · exact absurd (Char.le_trans h1 hd.2) (by decide)
        · exact absurd (Char.le_trans h1 hd.2) (by decide)
    all_goals (intro e; subst e; simp [isAlpha, isLower, isUpper] at hc)
  have htext : name ++ '(' :: (atext ++ ')' :: r) = c :: (cs ++ '(' :: (atext ++ ')' :: r)) := by
    rw [hname]; rfl
  apply Parses.ref
  show P e_item _ _ _
  simp only [e_item, alts, seqs]
  refine Parses.alt_right (kw_alt_fails _ _ name _ hn ⟨by simp, by decide⟩)
    (Parses.alt_right (kw_alt_fails _ _ name _ hn ⟨by simp, by decide⟩)
    (Parses.alt_right (kw_alt_fails _ _ name _ hn ⟨by simp, by decide⟩)
    (Parses.alt_right (Fails.seq_left ?ts)
    (Parses.alt_right (Fails.seq_left (Fails.cap ?n1))
    (Parses.alt_right (Fails.seq_left (Fails.cap ?n2))
    (Parses.alt_left ?call))))))
  case ts =>
    rw [htext]
    exact tsfmt_fails hcd.2.2.2.1 hcd.2.2.2.2 (by simp [tsPrefix5, hcd.1])
  case n1 =>
    rw [htext]
    refine Fails.seq_right (Parses.opt_none (Fails.chr_ne _ hcd.2.1)) (Fails.seq_left ?_)
    simp only [plus]
    exact Fails.seq_left (digit_fails _ (by simpa [NotHead] using hcd.1))
  case n2 =>
    rw [htext]
    exact Fails.seq_right (Parses.opt_none (Fails.chr_ne _ hcd.2.1))
      (Fails.seq_left (lit_fails_head _ c _ ⟨_, _, rfl, fun e => hcd.2.2.1 e.symm⟩))
  case call =>
    have h1 : P (.cap (.ref R.IDENT)) (name ++ '(' :: (atext ++ ')' :: r)) ('(' :: (atext ++ ')' :: r))
        ([] ++ [.text name]) :=
      Parses.cap_prefix (ident_ok hn (by simp [NotHead, isAlnum, isAlpha, isLower, isUpper, isDigit]))
    have h2 := Parses.act (rule := Gen.rule) (.startCall .text) ('(' :: (atext ++ ')' :: r))
    have h3 := open_ok hws
    have h4 : P (.opt (.ref R.comma)) (')' :: r) (')' :: r) [] :=
      Parses.opt_none (comma_fails (by simp [NoWs, isWs]) (by simp [NotHead]))
    have h5 := close_ok hr
    have h6 := Parses.act (rule := Gen.rule) (.addVal .endCall) r
    have h := Parses.seq h1 (Parses.seq h2 (Parses.seq h3 (Parses.seq ha (Parses.seq h4 (Parses.seq h5 h6)))))
    simpa using h

/-- Syntax, nested: the grammar reads a printed call of the fragment, whatever follows it, and
records `evCallD`. -/
theorem nested_parses2 (isPrint : Char → Bool) (hnl : isPrint '\n' = false) : ∀ (d : Nat) (c : Call), Nested isPrint d c →
    ∀ r, NoWs r → P (.ref R.Call) (fmtCall isPrint c ++ r) r (evCallD isPrint d c) ∧
      P (.ref R.item) (fmtCall isPrint c ++ r) r (evCallV isPrint d c) := by
  intro d
  induction d with
  | zero => intro c h; exact absurd h (by simp [Nested])
  | succ d ih =>
    intro c h r hr
    obtain ⟨name, args, children⟩ := c
    obtain ⟨hn, hsp, hne, hargs, hsorted, hch⟩ := h
    have hname : name ≠ [] := by obtain ⟨c, cs, rfl, _, _⟩ := hn; simp
    rw [fmtCall_nested isPrint name args children hname, fmtCalls_map]
    rw [evCallD_succ, evCallV_succ]
    have hkeys : ∀ kv ∈ args, KeyName kv.1 := fun kv hkv => (hargs kv hkv).1
    have hitemIH : ∀ c, Nested isPrint d c → (NoWs (fmtCall isPrint c) ∧ fmtCall isPrint c ≠ []) ∧
        ∀ r, NoWs r → P (.ref R.item) (fmtCall isPrint c ++ r) r (evCallV isPrint d c) :=
      fun c hc => ⟨nested_text isPrint d c hc, fun r hr => (ih c hc r hr).2⟩
    cases children with
    | nil =>
      have hane : args ≠ [] := by rcases hne with h | h; exact h; exact absurd rfl h
      have hall := allargs_of_args (call_fails_args isPrint args hane hkeys (')' :: r))
        (args_text_ok isPrint hnl d args hane hargs hitemIH r)
      have hfree : SpecialFree name (joinWith [',', ' '] (args.map (argText isPrint)) ++ ')' :: r) := by
        rcases nameOk_cases hsp.1 with h | h | h
        · exact Or.inl h
        · refine Or.inr (Or.inl ⟨h, ?_⟩)
          cases args with
          | nil => exact absurd rfl hane
          | cons a rest =>
            rw [List.map_cons, joinWith_cons, List.append_assoc]
            exact firstKey_of_argD isPrint d a _ (hargs a (by simp)).1 (hargs a (by simp)).2
        · refine Or.inr (Or.inr ⟨h, ?_⟩)
          rcases hsp.2 h with hc | ⟨k, op, v, rest, rfl⟩
          · exact absurd rfl hc
          · rw [List.map_cons, joinWith_cons, List.append_assoc]
            have ha := hargs (k, .cond op v) (by simp)
            have hop : op ∈ cmpOps := by
              rcases ha.2 with hs | ⟨c, hc, _⟩
              · exact cond_op_of_simple isPrint op v hs
              · exact absurd hc (by simp)
            exact rangeBody_of_cond isPrint k op v _ ha.1 hop
      have hcall := call_generic_ok name (joinWith [',', ' '] (args.map (argText isPrint))) r _ hn hfree
        (args_text_noWs isPrint args hane hkeys _) hr hall
      have hitem := item_call_ok name (joinWith [',', ' '] (args.map (argText isPrint))) r _ hn
        (args_text_noWs isPrint args hane hkeys _) hr hall
      exact ⟨by simpa [joinWith, List.append_assoc] using hcall, by simpa [joinWith, List.append_assoc] using hitem⟩
    | cons ch chs =>
      let pcs : List PCall := (ch :: chs).map (fun x => ⟨fmtCall isPrint x, evCallD isPrint d x⟩)
      have hpok : ∀ x ∈ pcs, x.Ok := by
        intro x hx
        simp only [pcs, List.mem_map] at hx
        obtain ⟨y, hy, rfl⟩ := hx
        have hny := hch y hy
        exact ⟨(nested_text isPrint d y hny).1, (nested_text isPrint d y hny).2, fun r hr => (ih y hny r hr).1⟩
      have htexts : pcs.map (·.text) = (ch :: chs).map (fmtCall isPrint) := by simp [pcs]
      have hevs : pcs.flatMap (·.evs) = (ch :: chs).flatMap (evCallD isPrint d) := by
        simp [pcs, List.flatMap_map]
      have hchfree : ∀ T : List Char, SpecialFree name (joinWith [',', ' '] ((ch :: chs).map (fmtCall isPrint)) ++ T) := by
        intro T
        obtain ⟨cn, cargs, cch⟩ := ch
        have hcn := hch (.mk cn cargs cch) (by simp)
        have hcn' : IdentName cn := by
          cases d with
          | zero => exact absurd hcn (by simp [Nested])
          | succ d' => exact hcn.1
        have hcne : cn ≠ [] := by obtain ⟨c, cs, rfl, _, _⟩ := hcn'; simp
        rcases nameOk_cases hsp.1 with h | h | h
        · exact Or.inl h
        · refine Or.inr (Or.inl ⟨h, ?_⟩)
          rw [List.map_cons, joinWith_cons, fmtCall_nested isPrint cn cargs cch hcne]
          simp only [List.append_assoc, List.cons_append]
          exact firstKey_of_call cn _ hcn'
        · refine Or.inr (Or.inr ⟨h, ?_⟩)
          rw [List.map_cons, joinWith_cons, fmtCall_nested isPrint cn cargs cch hcne]
          simp only [List.append_assoc, List.cons_append]
          exact rangeBody_of_call cn _ hcn'
      by_cases hargs0 : args = []
      · subst hargs0
        have hcf : F (.ref R.comma) (')' :: r) := comma_fails (by simp [NoWs, isWs]) (by simp [NotHead])
        have hall := allargs_children ⟨fmtCall isPrint ch, evCallD isPrint d ch⟩
          (chs.map (fun x => ⟨fmtCall isPrint x, evCallD isPrint d x⟩)) (by simpa [pcs] using hpok)
          (')' :: r) (')' :: r) [] (by simp [NoWs, isWs]) (Fails.seq_left hcf)
          (Parses.opt_none (Fails.seq_left hcf))
        have hall' : P (.ref R.allargs) (joinWith [',', ' '] ((ch :: chs).map (fmtCall isPrint)) ++ ')' :: r)
            (')' :: r) ((ch :: chs).flatMap (evCallD isPrint d)) := by
          simpa [List.flatMap_map, List.map_map, Function.comp_def] using hall
        have hws : NoWs (joinWith [',', ' '] ((ch :: chs).map (fmtCall isPrint)) ++ ')' :: r) := by
          rw [List.map_cons, joinWith_cons]
          exact noWs_append (noWs_append (nested_text isPrint d ch (hch ch (by simp))).1
            (nested_text isPrint d ch (hch ch (by simp))).2) (by
              have := (nested_text isPrint d ch (hch ch (by simp))).2
              intro e; simp at e; exact this e.1)
        have hcall := call_generic_ok name _ r _ hn (hchfree _) hws hr hall'
        have hitem := item_call_ok name _ r _ hn hws hr hall'
        exact ⟨by simpa [joinWith, List.append_assoc] using hcall, by simpa [joinWith, List.append_assoc] using hitem⟩
      · have hnwA := args_text_noWs isPrint args hargs0 hkeys (')' :: r)
        have hcomma := comma_sp hnwA
        have hopt : P (.opt (.seq (.ref R.comma) (.ref R.args)))
            (',' :: ' ' :: (joinWith [',', ' '] (args.map (argText isPrint)) ++ ')' :: r)) (')' :: r)
            ([] ++ args.flatMap (evArgD isPrint d)) :=
          Parses.opt_some (Parses.seq hcomma (args_text_ok isPrint hnl d args hargs0 hargs hitemIH r))
        have hfail : F (.seq (.ref R.comma) (.ref R.Call))
            (',' :: ' ' :: (joinWith [',', ' '] (args.map (argText isPrint)) ++ ')' :: r)) :=
          Fails.seq_right hcomma (call_fails_args isPrint args hargs0 hkeys (')' :: r))
        have hall := allargs_children ⟨fmtCall isPrint ch, evCallD isPrint d ch⟩
          (chs.map (fun x => ⟨fmtCall isPrint x, evCallD isPrint d x⟩)) (by simpa [pcs] using hpok)
          _ (')' :: r) _ (by simp [NoWs, isWs]) hfail hopt
        have hall' : P (.ref R.allargs)
            ((joinWith [',', ' '] ((ch :: chs).map (fmtCall isPrint)) ++
              (',' :: ' ' :: joinWith [',', ' '] (args.map (argText isPrint)))) ++ ')' :: r)
            (')' :: r) ((ch :: chs).flatMap (evCallD isPrint d) ++ args.flatMap (evArgD isPrint d)) := by
          simpa [List.flatMap_map, List.map_map, Function.comp_def, List.append_assoc] using hall
        have hws : NoWs ((joinWith [',', ' '] ((ch :: chs).map (fmtCall isPrint)) ++
              (',' :: ' ' :: joinWith [',', ' '] (args.map (argText isPrint)))) ++ ')' :: r) := by
          rw [List.map_cons, joinWith_cons]
          simp only [List.append_assoc]
          exact noWs_append (nested_text isPrint d ch (hch ch (by simp))).1
            (nested_text isPrint d ch (hch ch (by simp))).2
        have hcall := call_generic_ok name _ r _ hn (by simpa [List.append_assoc] using hchfree _) hws hr hall'
        have hitem := item_call_ok name _ r _ hn hws hr hall'
        exact ⟨by simpa [hargs0, List.append_assoc] using hcall, by simpa [hargs0, List.append_assoc] using hitem⟩


theorem nested_parses (isPrint : Char → Bool) (hnl : isPrint '\n' = false) (d : Nat) (c : Call) (h : Nested isPrint d c)
    (r : List Char) (hr : NoWs r) : P (.ref R.Call) (fmtCall isPrint c ++ r) r (evCallD isPrint d c) :=
  (nested_parses2 isPrint hnl d c h r hr).1

/-- What executing the events of a call does to the machine: the finished call is linked where
`startCall` decided (top level, or child of the enclosing call). -/
def ExecSpec (isPrint : Char → Bool) (d : Nat) (c : Call) : Prop :=
  ∀ (q : QState) (evs : List Ev),
    (q.stack = [] → ∃ t, exec (evCallD isPrint d c ++ evs) q =
        exec evs { q with calls := q.calls ++ [c], text := t }) ∧
    (∀ p rest, q.stack = p :: rest → p.lastField = [] → ∃ t, exec (evCallD isPrint d c ++ evs) q =
        exec evs { q with stack := { p with children := p.children ++ [c] } :: rest, text := t }) ∧
    (∀ p rest, q.stack = p :: rest → p.lastField ≠ [] → p.inList = false → p.lastCond = .ILLEGAL →
      lookup p.lastField p.args = none → ∃ t, exec (evCallV isPrint d c ++ evs) q =
        exec evs { q with stack := { p with args := insert p.lastField (.call c) p.args, lastField := [],
                                            lastCond := .ILLEGAL } :: rest, text := t })

/-- Executing the events of a list of children appends them to the enclosing element. -/
theorem exec_children (isPrint : Char → Bool) (d : Nat) (children : List Call)
    (hch : ∀ ch ∈ children, ExecSpec isPrint d ch) (q : QState) (e : Elem) (rest : List Elem) (evs : List Ev)
    (hq : q.stack = e :: rest) (he : e.lastField = []) :
    ∃ t, exec (children.flatMap (evCallD isPrint d) ++ evs) q =
      exec evs { q with stack := { e with children := e.children ++ children } :: rest, text := t } := by
  induction children generalizing q e with
  | nil =>
    refine ⟨q.text, ?_⟩
    simp only [List.flatMap_nil, List.nil_append, List.append_nil]
    congr 1
    cases q; cases e; simp_all
  | cons ch chs ih =>
    obtain ⟨t1, h1⟩ := ((hch ch (by simp)) q (chs.flatMap (evCallD isPrint d) ++ evs)).2.1 e rest hq he
    simp only [List.flatMap_cons, List.append_assoc]
    rw [h1]
    obtain ⟨t2, h2⟩ := ih (fun x hx => hch x (by simp [hx]))
      { q with stack := { e with children := e.children ++ [ch] } :: rest, text := t1 }
      { e with children := e.children ++ [ch] } rfl he
    refine ⟨t2, ?_⟩
    rw [h2]
    simp [List.append_assoc]


/-- Semantics, nested: every call of the fragment meets `ExecSpec`. -/
theorem nested_exec (isPrint : Char → Bool) (hnl : isPrint '\n' = false) :
    ∀ (d : Nat) (c : Call), Nested isPrint d c → ExecSpec isPrint d c := by
  intro d
  induction d with
  | zero => intro c h; exact absurd h (by simp [Nested])
  | succ d ih =>
    intro c h
    obtain ⟨name, args, children⟩ := c
    obtain ⟨hn, hsp, hne, hargs, hsorted, hch⟩ := h
    have hchs : ∀ ch ∈ children, ExecSpec isPrint d ch := fun ch hm => ih ch (hch ch hm)
    have hstep : ∀ kv ∈ args, ArgStep (evArgD isPrint d) kv := by
      intro kv hkv q e rest evs hq he hl
      obtain ⟨hk, hv⟩ := hargs kv hkv
      rcases hv with hv | ⟨c, hc, hn⟩
      · rw [evArgD_simple isPrint d kv hv]
        exact exec_arg isPrint hnl kv.1 kv.2 hv hk.ne_nil q e rest evs hq he hl
      · obtain ⟨k, v⟩ := kv
        simp only at hc
        subst hc
        obtain ⟨he1, he2, he3⟩ := he
        simp only [evArgD, List.cons_append, List.nil_append]
        rw [exec_field k q e rest _ hq he1]
        obtain ⟨t, ht⟩ := ((ih c hn) { q with text := k, stack := { e with lastField := k } :: rest } evs).2.2
          { e with lastField := k } rest rfl hk.ne_nil he2 he3 hl
        refine ⟨t, ?_⟩
        rw [ht]
        congr 1
        cases e
        simp_all
    intro q evs
    -- common part: after startCall the new element e0 sits on top of q.stack
    have body : ∀ (att : Attach) (fin : Ev),
        startCall { q with text := name } name = { q with text := name, stack := { name := name, attach := att } :: q.stack } →
        ∃ t, exec ([.text name, .act (.startCall .text)] ++ children.flatMap (evCallD isPrint d) ++
            args.flatMap (evArgD isPrint d) ++ (fin :: evs)) q =
          exec (fin :: evs)
            { q with text := t,
                     stack := { name := name, attach := att, args := args, children := children } :: q.stack } := by
      intro att fin hstart
      have hs : stepAct { q with text := name } (.startCall .text) =
          .ok { q with text := name, stack := { name := name, attach := att } :: q.stack } := by
        simp only [stepAct, sargText]; rw [hstart]
      obtain ⟨t1, h1⟩ := exec_children isPrint d children hchs
        { q with text := name, stack := { name := name, attach := att } :: q.stack }
        { name := name, attach := att } q.stack
        (args.flatMap (evArgD isPrint d) ++ (fin :: evs)) rfl rfl
      obtain ⟨t2, h2⟩ := exec_args_gen (evArgD isPrint d) args hstep hsorted
        { q with text := t1, stack := { name := name, attach := att, children := children } :: q.stack }
        { name := name, attach := att, children := children } q.stack (fin :: evs) rfl
        ⟨rfl, rfl, rfl⟩ (by simp [lookup])
      refine ⟨t2, ?_⟩
      have e0 : exec ([.text name, .act (.startCall .text)] ++ children.flatMap (evCallD isPrint d) ++
            args.flatMap (evArgD isPrint d) ++ (fin :: evs)) q =
          exec (children.flatMap (evCallD isPrint d) ++ (args.flatMap (evArgD isPrint d) ++ (fin :: evs)))
            { q with text := name, stack := { name := name, attach := att } :: q.stack } := by
        simp only [List.cons_append, List.nil_append, List.append_assoc]
        rw [exec_text, exec_act_ok _ hs]
      rw [e0, h1]
      simp only [List.nil_append] at h2 ⊢
      rw [h2, foldl_insert_sorted args [] hsorted (by simp)]
      simp
    have hD : ∀ evs', evCallD isPrint (d + 1) (.mk name args children) ++ evs' =
        [.text name, .act (.startCall .text)] ++ children.flatMap (evCallD isPrint d) ++
          args.flatMap (evArgD isPrint d) ++ (.act .endCall :: evs') := by
      intro evs'; rw [evCallD_succ]; simp [List.append_assoc]
    have hV : ∀ evs', evCallV isPrint (d + 1) (.mk name args children) ++ evs' =
        [.text name, .act (.startCall .text)] ++ children.flatMap (evCallD isPrint d) ++
          args.flatMap (evArgD isPrint d) ++ (.act (.addVal .endCall) :: evs') := by
      intro evs'; rw [evCallV_succ]; simp [List.append_assoc]
    refine ⟨?_, ?_, ?_⟩
    · intro hq
      obtain ⟨t, ht⟩ := body .top (.act .endCall) (by simp [startCall, hq])
      refine ⟨t, ?_⟩
      rw [hD, ht]
      have hs : stepAct { q with text := t, stack := { name := name, attach := .top, args := args, children := children } :: q.stack } .endCall =
          .ok { q with calls := q.calls ++ [.mk name args children], text := t } := by
        simp [stepAct, endCall, Elem.toCall, hq]
        rfl
      exact exec_act_ok evs hs
    · intro p rest hq hp
      obtain ⟨t, ht⟩ := body .child (.act .endCall) (by simp [startCall, hq, hp])
      refine ⟨t, ?_⟩
      rw [hD, ht]
      have hs : stepAct { q with text := t, stack := { name := name, attach := .child, args := args, children := children } :: q.stack } .endCall =
          .ok { q with stack := { p with children := p.children ++ [.mk name args children] } :: rest, text := t } := by
        simp [stepAct, endCall, Elem.toCall, hq]
        rfl
      exact exec_act_ok evs hs
    · intro p rest hq hp hin hc hl
      obtain ⟨t, ht⟩ := body .none (.act (.addVal .endCall)) (by simp [startCall, hq, hp])
      refine ⟨t, ?_⟩
      rw [hV, ht]
      have hl' : (lookup p.lastField p.args).isSome = false := by simp [hl]
      have hs : stepAct { q with text := t, stack := { name := name, attach := .none, args := args, children := children } :: q.stack }
          (.addVal .endCall) =
          .ok { q with stack := { p with args := insert p.lastField (.call (.mk name args children)) p.args,
                                         lastField := [], lastCond := .ILLEGAL } :: rest, text := t } := by
        simp [stepAct, endCall, Elem.toCall, hq, addVal, hp, hin, hc, hl', bind, Except.bind]
      exact exec_act_ok evs hs


end PV.C26
