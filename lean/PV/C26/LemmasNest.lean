/-
C26 — the nested fragment of C26_forward (T2): children to any depth, each again a call of the
fragment, plus simple arguments.  Syntax (`nested_parses`) by induction on the depth through the
alternatives of `allargs`; semantics (`nested_exec`) by induction on the depth through the action
machine with the call stack.  Core Lean only.
-/
import PV.C26.LemmasPql
namespace PV.C26
open Gen

/-- The nested fragment, by depth: a generic name, children that are again in the fragment,
simple arguments with sorted field-name keys, and at least one child or argument. -/
def Nested (isPrint : Char → Bool) : Nat → Call → Prop
  | 0, _ => False
  | d + 1, .mk name args children =>
    IdentName name ∧ name ∉ specialKws ∧ (args ≠ [] ∨ children ≠ []) ∧
      (∀ kv ∈ args, FieldName kv.1 ∧ SimpleVal isPrint kv.2) ∧ SortedKeys args ∧
      ∀ ch ∈ children, Nested isPrint d ch

/-- The events of a printed call, by depth. -/
def evCallD (isPrint : Char → Bool) : Nat → Call → List Ev
  | 0, _ => []
  | d + 1, .mk name args children =>
    [.text name, .act (.startCall .text)] ++ children.flatMap (evCallD isPrint d) ++
      args.flatMap (evArg isPrint) ++ [.act .endCall]

/-- `Call.String` of a call of the fragment. -/
theorem fmtCall_nested (isPrint : Char → Bool) (name : List Char) (args : List (Key × Val)) (children : List Call)
    (hn : name ≠ []) (h : ∀ kv ∈ args, SimpleVal isPrint kv.2) :
    fmtCall isPrint (.mk name args children) =
      name ++ '(' :: (joinWith [',', ' '] (fmtCalls isPrint children) ++
        ((if children ≠ [] ∧ args ≠ [] then [',', ' '] else []) ++
          (joinWith [',', ' '] (args.map (argText isPrint)) ++ [')']))) := by
  simp [fmtCall, hn, fmtArgs_simple isPrint args h]

theorem fmtCalls_map (isPrint : Char → Bool) (cs : List Call) :
    fmtCalls isPrint cs = cs.map (fmtCall isPrint) := by
  induction cs with
  | nil => simp [fmtCalls]
  | cons c rest ih => simp [fmtCalls, ih]


/-- A printed child call: its text and the events it produces whatever follows. -/
structure PCall where
  text : List Char
  evs : List Ev

def PCall.Ok (c : PCall) : Prop :=
  NoWs c.text ∧ c.text ≠ [] ∧ ∀ r, NoWs r → P (.ref R.Call) (c.text ++ r) r c.evs

/-- `(comma Call)*` on the remaining children, up to a tail on which `comma Call` fails. -/
theorem star_children (cs : List PCall) (hok : ∀ c ∈ cs, c.Ok) (T : List Char) (hT : NoWs T)
    (hfail : F (.seq (.ref R.comma) (.ref R.Call)) T) :
    P (.star (.seq (.ref R.comma) (.ref R.Call))) (cs.flatMap (fun c => [',', ' '] ++ c.text) ++ T) T
      (cs.flatMap (·.evs)) := by
  induction cs with
  | nil => simpa using Parses.star_nil hfail
  | cons c rest ih =>
    obtain ⟨hws, hne, hp⟩ := hok c (by simp)
    have ihh := ih (fun x hx => hok x (by simp [hx]))
    have hnext : NoWs (rest.flatMap (fun c => [',', ' '] ++ c.text) ++ T) := by
      cases rest with
      | nil => simpa using hT
      | cons d ds => simp [NoWs, isWs]
    have h1 := comma_sp (r := c.text ++ (rest.flatMap (fun c => [',', ' '] ++ c.text) ++ T)) (noWs_append hws hne)
    have h2 := hp (rest.flatMap (fun c => [',', ' '] ++ c.text) ++ T) hnext
    have h := Parses.star_cons (Parses.seq h1 h2) ihh
    simpa [List.append_assoc] using h

/-- `allargs` on one or more printed children followed by `T` (the optional `, args` part is given). -/
theorem allargs_children (c : PCall) (cs : List PCall) (hok : ∀ x ∈ c :: cs, x.Ok) (T T' : List Char)
    (evsA : List Ev) (hT : NoWs T) (hfail : F (.seq (.ref R.comma) (.ref R.Call)) T)
    (hopt : P (.opt (.seq (.ref R.comma) (.ref R.args))) T T' evsA) :
    P (.ref R.allargs) (joinWith [',', ' '] ((c :: cs).map (·.text)) ++ T) T'
      ((c :: cs).flatMap (·.evs) ++ evsA) := by
  obtain ⟨hws, hne, hp⟩ := hok c (by simp)
  have hstar := star_children cs (fun x hx => hok x (by simp [hx])) T hT hfail
  have hnext : NoWs (cs.flatMap (fun c => [',', ' '] ++ c.text) ++ T) := by
    cases cs with
    | nil => simpa using hT
    | cons d ds => simp [NoWs, isWs]
  have h1 := hp (cs.flatMap (fun c => [',', ' '] ++ c.text) ++ T) hnext
  apply Parses.ref
  show P e_allargs _ _ _
  simp only [e_allargs, alts, seqs]
  refine Parses.alt_left ?_
  have h := Parses.seq h1 (Parses.seq hstar hopt)
  rw [List.map_cons, joinWith_cons]
  simpa [List.flatMap_map, List.append_assoc] using h


theorem alpha_noWs {c : Char} (hc : isAlpha c = true) (s : List Char) : NoWs (c :: s) := by
  simp only [NoWs]
  cases hw : isWs c with
  | false => rfl
  | true =>
    simp only [isWs, Bool.or_eq_true, decide_eq_true_eq] at hw
    rcases hw with (rfl | rfl) | rfl <;> simp [isAlpha, isLower, isUpper] at hc

theorem identName_noWs {name : List Char} (hn : IdentName name) (s : List Char) : NoWs (name ++ s) := by
  obtain ⟨c, cs, rfl, hc, _⟩ := hn
  simp only [List.cons_append, NoWs]
  cases hw : isWs c with
  | false => rfl
  | true =>
    simp only [isWs, Bool.or_eq_true, decide_eq_true_eq] at hw
    rcases hw with (rfl | rfl) | rfl <;> simp [isAlpha, isLower, isUpper] at hc

/-- The printed arguments: `args` reads them up to the closing parenthesis. -/
theorem args_text_ok (isPrint : Char → Bool) (args : List (Key × Val)) (hne : args ≠ [])
    (hargs : ∀ kv ∈ args, FieldName kv.1 ∧ SimpleVal isPrint kv.2) (r : List Char) :
    P (.ref R.args) (joinWith [',', ' '] (args.map (argText isPrint)) ++ ')' :: r) (')' :: r)
      (args.flatMap (evArg isPrint)) := by
  let pargs : List PArg := args.map (fun kv => ⟨argText isPrint kv, evArg isPrint kv⟩)
  have hpok : ∀ a ∈ pargs, a.Ok := by
    intro a ha
    simp only [pargs, List.mem_map] at ha
    obtain ⟨kv, hkv, rfl⟩ := ha
    exact parg_ok isPrint kv (hargs kv hkv).1 (hargs kv hkv).2
  have hpne : pargs ≠ [] := by simpa [pargs] using hne
  have hargsP := args_ok pargs hpne hpok r
  have htext : pargs.map (·.text) = args.map (argText isPrint) := by simp [pargs]
  have hevs : pargs.flatMap (·.evs) = args.flatMap (evArg isPrint) := by simp [pargs, List.flatMap_map]
  rw [htext, hevs] at hargsP
  exact hargsP

/-- `Call` does not match at the first printed argument. -/
theorem call_fails_args (isPrint : Char → Bool) (args : List (Key × Val)) (hne : args ≠ [])
    (hargs : ∀ kv ∈ args, FieldName kv.1 ∧ SimpleVal isPrint kv.2) (s : List Char) :
    F (.ref R.Call) (joinWith [',', ' '] (args.map (argText isPrint)) ++ s) := by
  cases args with
  | nil => exact absurd rfl hne
  | cons a rest =>
    obtain ⟨hk, _⟩ := hargs a (by simp)
    obtain ⟨x, tl, hx, hxe⟩ := argText_head isPrint a
    have hx1 : isAlnum x = false := by rcases hxe with rfl | rfl <;> decide
    have hx2 : x ≠ '(' := by rcases hxe with rfl | rfl <;> decide
    rw [List.map_cons, joinWith_cons, hx]
    simp only [List.append_assoc, List.cons_append]
    exact call_fails_key a.1 _ x hk hx1 hx2

theorem args_text_noWs (isPrint : Char → Bool) (args : List (Key × Val)) (hne : args ≠ [])
    (hargs : ∀ kv ∈ args, FieldName kv.1 ∧ SimpleVal isPrint kv.2) (s : List Char) :
    NoWs (joinWith [',', ' '] (args.map (argText isPrint)) ++ s) := by
  cases args with
  | nil => exact absurd rfl hne
  | cons a rest =>
    obtain ⟨⟨c, cs, hk, hc, hcs⟩, _⟩ := hargs a (by simp)
    obtain ⟨x, tl, hx, _⟩ := argText_head isPrint a
    rw [List.map_cons, joinWith_cons, hx, hk]
    simp only [List.append_assoc, List.cons_append]
    exact alpha_noWs hc _


theorem nested_text (isPrint : Char → Bool) (d : Nat) (c : Call) (h : Nested isPrint d c) :
    NoWs (fmtCall isPrint c) ∧ fmtCall isPrint c ≠ [] := by
  cases d with
  | zero => exact absurd h (by simp [Nested])
  | succ d =>
    obtain ⟨name, args, children⟩ := c
    obtain ⟨hn, _, _, hargs, _, _⟩ := h
    have hname : name ≠ [] := by obtain ⟨c, cs, rfl, _, _⟩ := hn; simp
    rw [fmtCall_nested isPrint name args children hname (fun kv hkv => (hargs kv hkv).2)]
    obtain ⟨c, cs, rfl, hc, _⟩ := hn
    exact ⟨alpha_noWs hc _, by simp⟩

/-- Syntax, nested: the grammar reads a printed call of the fragment, whatever follows it, and
records `evCallD`. -/
theorem nested_parses (isPrint : Char → Bool) : ∀ (d : Nat) (c : Call), Nested isPrint d c →
    ∀ r, NoWs r → P (.ref R.Call) (fmtCall isPrint c ++ r) r (evCallD isPrint d c) := by
  intro d
  induction d with
  | zero => intro c h; exact absurd h (by simp [Nested])
  | succ d ih =>
    intro c h r hr
    obtain ⟨name, args, children⟩ := c
    obtain ⟨hn, hsp, hne, hargs, hsorted, hch⟩ := h
    have hname : name ≠ [] := by obtain ⟨c, cs, rfl, _, _⟩ := hn; simp
    rw [fmtCall_nested isPrint name args children hname (fun kv hkv => (hargs kv hkv).2), fmtCalls_map]
    simp only [evCallD]
    cases children with
    | nil =>
      have hane : args ≠ [] := by rcases hne with h | h; exact h; exact absurd rfl h
      have hall := allargs_of_args (call_fails_args isPrint args hane hargs (')' :: r))
        (args_text_ok isPrint args hane hargs r)
      have hcall := call_generic_ok name (joinWith [',', ' '] (args.map (argText isPrint))) r _ hn hsp
        (args_text_noWs isPrint args hane hargs _) hr hall
      simpa [joinWith, List.append_assoc] using hcall
    | cons ch chs =>
      let pcs : List PCall := (ch :: chs).map (fun x => ⟨fmtCall isPrint x, evCallD isPrint d x⟩)
      have hpok : ∀ x ∈ pcs, x.Ok := by
        intro x hx
        simp only [pcs, List.mem_map] at hx
        obtain ⟨y, hy, rfl⟩ := hx
        have hny := hch y hy
        exact ⟨(nested_text isPrint d y hny).1, (nested_text isPrint d y hny).2, ih y hny⟩
      have htexts : pcs.map (·.text) = (ch :: chs).map (fmtCall isPrint) := by simp [pcs]
      have hevs : pcs.flatMap (·.evs) = (ch :: chs).flatMap (evCallD isPrint d) := by
        simp [pcs, List.flatMap_map]
      by_cases hargs0 : args = []
      · subst hargs0
        have hcf : F (.ref R.comma) (')' :: r) := comma_fails (by simp [NoWs, isWs]) (by simp [NotHead])
        have hall := allargs_children ⟨fmtCall isPrint ch, evCallD isPrint d ch⟩
          (chs.map (fun x => ⟨fmtCall isPrint x, evCallD isPrint d x⟩)) (by simpa [pcs] using hpok)
          (')' :: r) (')' :: r) [] (by simp [NoWs, isWs]) (Fails.seq_left hcf)
          (Parses.opt_none (Fails.seq_left hcf))
        have hall' : P (.ref R.allargs) (joinWith [',', ' '] ((ch :: chs).map (fmtCall isPrint)) ++ ')' :: r)
            (')' :: r) ((ch :: chs).flatMap (evCallD isPrint d)) := by
          simpa [List.flatMap_map, List.map_map, Function.comp_def] using hall
        have hws : NoWs (joinWith [',', ' '] ((ch :: chs).map (fmtCall isPrint)) ++ ')' :: r) := by
          rw [List.map_cons, joinWith_cons]
          exact noWs_append (noWs_append (nested_text isPrint d ch (hch ch (by simp))).1
            (nested_text isPrint d ch (hch ch (by simp))).2) (by
              have := (nested_text isPrint d ch (hch ch (by simp))).2
              intro e; simp at e; exact this e.1)
        have hcall := call_generic_ok name _ r _ hn hsp hws hr hall'
        simpa [joinWith, List.append_assoc] using hcall
      · have hnwA := args_text_noWs isPrint args hargs0 hargs (')' :: r)
        have hcomma := comma_sp hnwA
        have hopt : P (.opt (.seq (.ref R.comma) (.ref R.args)))
            (',' :: ' ' :: (joinWith [',', ' '] (args.map (argText isPrint)) ++ ')' :: r)) (')' :: r)
            ([] ++ args.flatMap (evArg isPrint)) :=
          Parses.opt_some (Parses.seq hcomma (args_text_ok isPrint args hargs0 hargs r))
        have hfail : F (.seq (.ref R.comma) (.ref R.Call))
            (',' :: ' ' :: (joinWith [',', ' '] (args.map (argText isPrint)) ++ ')' :: r)) :=
          Fails.seq_right hcomma (call_fails_args isPrint args hargs0 hargs (')' :: r))
        have hall := allargs_children ⟨fmtCall isPrint ch, evCallD isPrint d ch⟩
          (chs.map (fun x => ⟨fmtCall isPrint x, evCallD isPrint d x⟩)) (by simpa [pcs] using hpok)
          _ (')' :: r) _ (by simp [NoWs, isWs]) hfail hopt
        have hall' : P (.ref R.allargs)
            ((joinWith [',', ' '] ((ch :: chs).map (fmtCall isPrint)) ++
              (',' :: ' ' :: joinWith [',', ' '] (args.map (argText isPrint)))) ++ ')' :: r)
            (')' :: r) ((ch :: chs).flatMap (evCallD isPrint d) ++ args.flatMap (evArg isPrint)) := by
          simpa [List.flatMap_map, List.map_map, Function.comp_def, List.append_assoc] using hall
        have hws : NoWs ((joinWith [',', ' '] ((ch :: chs).map (fmtCall isPrint)) ++
              (',' :: ' ' :: joinWith [',', ' '] (args.map (argText isPrint)))) ++ ')' :: r) := by
          rw [List.map_cons, joinWith_cons]
          simp only [List.append_assoc]
          exact noWs_append (nested_text isPrint d ch (hch ch (by simp))).1
            (nested_text isPrint d ch (hch ch (by simp))).2
        have hcall := call_generic_ok name _ r _ hn hsp hws hr hall'
        simpa [hargs0, List.append_assoc] using hcall


/-- What executing the events of a call does to the machine: the finished call is linked where
`startCall` decided (top level, or child of the enclosing call). -/
def ExecSpec (isPrint : Char → Bool) (d : Nat) (c : Call) : Prop :=
  ∀ (q : QState) (evs : List Ev),
    (q.stack = [] → ∃ t, exec (evCallD isPrint d c ++ evs) q =
        exec evs { q with calls := q.calls ++ [c], text := t }) ∧
    (∀ p rest, q.stack = p :: rest → p.lastField = [] → ∃ t, exec (evCallD isPrint d c ++ evs) q =
        exec evs { q with stack := { p with children := p.children ++ [c] } :: rest, text := t })

/-- Executing the events of a list of children appends them to the enclosing element. -/
theorem exec_children (isPrint : Char → Bool) (d : Nat) (children : List Call)
    (hch : ∀ ch ∈ children, ExecSpec isPrint d ch) (q : QState) (e : Elem) (rest : List Elem) (evs : List Ev)
    (hq : q.stack = e :: rest) (he : e.lastField = []) :
    ∃ t, exec (children.flatMap (evCallD isPrint d) ++ evs) q =
      exec evs { q with stack := { e with children := e.children ++ children } :: rest, text := t } := by
  induction children generalizing q e with
  | nil =>
    refine ⟨q.text, ?_⟩
    simp only [List.flatMap_nil, List.nil_append, List.append_nil]
    congr 1
    cases q; cases e; simp_all
  | cons ch chs ih =>
    obtain ⟨t1, h1⟩ := ((hch ch (by simp)) q (chs.flatMap (evCallD isPrint d) ++ evs)).2 e rest hq he
    simp only [List.flatMap_cons, List.append_assoc]
    rw [h1]
    obtain ⟨t2, h2⟩ := ih (fun x hx => hch x (by simp [hx]))
      { q with stack := { e with children := e.children ++ [ch] } :: rest, text := t1 }
      { e with children := e.children ++ [ch] } rfl he
    refine ⟨t2, ?_⟩
    rw [h2]
    simp [List.append_assoc]


/-- Semantics, nested: every call of the fragment meets `ExecSpec`. -/
theorem nested_exec (isPrint : Char → Bool) (hnl : isPrint '\n' = false) :
    ∀ (d : Nat) (c : Call), Nested isPrint d c → ExecSpec isPrint d c := by
  intro d
  induction d with
  | zero => intro c h; exact absurd h (by simp [Nested])
  | succ d ih =>
    intro c h
    obtain ⟨name, args, children⟩ := c
    obtain ⟨hn, hsp, hne, hargs, hsorted, hch⟩ := h
    have hchs : ∀ ch ∈ children, ExecSpec isPrint d ch := fun ch hm => ih ch (hch ch hm)
    intro q evs
    -- common part: after startCall the new element e0 sits on top of q.stack
    have body : ∀ (att : Attach),
        startCall { q with text := name } name = { q with text := name, stack := { name := name, attach := att } :: q.stack } →
        ∃ t, exec (evCallD isPrint (d + 1) (.mk name args children) ++ evs) q =
          exec (.act .endCall :: evs)
            { q with text := t,
                     stack := { name := name, attach := att, args := args, children := children } :: q.stack } := by
      intro att hstart
      have hs : stepAct { q with text := name } (.startCall .text) =
          .ok { q with text := name, stack := { name := name, attach := att } :: q.stack } := by
        simp only [stepAct, sargText]; rw [hstart]
      obtain ⟨t1, h1⟩ := exec_children isPrint d children hchs
        { q with text := name, stack := { name := name, attach := att } :: q.stack }
        { name := name, attach := att } q.stack
        (args.flatMap (evArg isPrint) ++ (.act .endCall :: evs)) rfl rfl
      obtain ⟨t2, h2⟩ := exec_args isPrint hnl args hargs hsorted
        { q with text := t1, stack := { name := name, attach := att, children := children } :: q.stack }
        { name := name, attach := att, children := children } q.stack (.act .endCall :: evs) rfl
        ⟨rfl, rfl, rfl⟩ (by simp [lookup])
      refine ⟨t2, ?_⟩
      have e0 : exec (evCallD isPrint (d + 1) (.mk name args children) ++ evs) q =
          exec (children.flatMap (evCallD isPrint d) ++ (args.flatMap (evArg isPrint) ++ (.act .endCall :: evs)))
            { q with text := name, stack := { name := name, attach := att } :: q.stack } := by
        simp only [evCallD, List.cons_append, List.nil_append, List.append_assoc]
        rw [exec_text, exec_act_ok _ hs]
      rw [e0, h1]
      simp only [List.nil_append] at h2 ⊢
      rw [h2, foldl_insert_sorted args [] hsorted (by simp)]
      simp
    constructor
    · intro hq
      obtain ⟨t, ht⟩ := body .top (by simp [startCall, hq])
      refine ⟨t, ?_⟩
      rw [ht]
      have hs : stepAct { q with text := t, stack := { name := name, attach := .top, args := args, children := children } :: q.stack } .endCall =
          .ok { q with calls := q.calls ++ [.mk name args children], text := t } := by
        simp [stepAct, endCall, Elem.toCall, hq]
        rfl
      exact exec_act_ok evs hs
    · intro p rest hq hp
      obtain ⟨t, ht⟩ := body .child (by simp [startCall, hq, hp])
      refine ⟨t, ?_⟩
      rw [ht]
      have hs : stepAct { q with text := t, stack := { name := name, attach := .child, args := args, children := children } :: q.stack } .endCall =
          .ok { q with stack := { p with children := p.children ++ [.mk name args children] } :: rest, text := t } := by
        simp [stepAct, endCall, Elem.toCall, hq]
        rfl
      exact exec_act_ok evs hs


end PV.C26
