/-
C26 — bare words (`item` alternative 8: `([[A-Z]] / [0-9] / '-' / '_' / ':')+`) as a literal class of
C26_literals.  Core Lean only.
-/
import PV.C26.LemmasLits
namespace PV.C26
open Gen

def isBareCh (c : Char) : Bool := isAlnum c || c = '-' || c = '_' || c = ':'

theorem barech_ok (x : Char) (t : List Char) (h : isBareCh x = true) :
    P (alts [.rng 'a' 'z', .rng 'A' 'Z', .rng '0' '9', .chr '-', .chr '_', .chr ':']) (x :: t) t [] := by
  simp only [alts]
  by_cases hl : isLower x = true
  · exact Parses.alt_left (Parses.rng t (by simpa [isLower] using hl))
  refine Parses.alt_right (Fails.rng_ne t (by simpa [isLower] using hl)) ?_
  by_cases hu : isUpper x = true
  · exact Parses.alt_left (Parses.rng t (by simpa [isUpper] using hu))
  refine Parses.alt_right (Fails.rng_ne t (by simpa [isUpper] using hu)) ?_
  by_cases hd : isDigit x = true
  · exact Parses.alt_left (digit_ok x t hd)
  refine Parses.alt_right (digit_fails (x :: t) (by simpa [NotHead] using hd)) ?_
  by_cases hm : x = '-'
  · subst hm; exact Parses.alt_left (Parses.chr _ _)
  refine Parses.alt_right (Fails.chr_ne t hm) ?_
  by_cases h_ : x = '_'
  · subst h_; exact Parses.alt_left (Parses.chr _ _)
  refine Parses.alt_right (Fails.chr_ne t h_) ?_
  have : x = ':' := by
    simp only [isBareCh, isAlnum, isAlpha, Bool.or_eq_true, decide_eq_true_eq] at h
    rcases h with (((((h | h) | h) | h) | h) | h)
    · exact absurd h hl
    · exact absurd h hu
    · exact absurd h hd
    · exact absurd h hm
    · exact absurd h h_
    · exact h
  subst this; exact Parses.chr _ _

theorem barech_fails (s : List Char) (h : NotHead isBareCh s) :
    F (alts [.rng 'a' 'z', .rng 'A' 'Z', .rng '0' '9', .chr '-', .chr '_', .chr ':']) s := by
  simp only [alts]
  cases s with
  | nil =>
    exact Fails.alt (Fails.rng_nil _ _) (Fails.alt (Fails.rng_nil _ _) (Fails.alt (Fails.rng_nil _ _)
      (Fails.alt (Fails.chr_nil _) (Fails.alt (Fails.chr_nil _) (Fails.chr_nil _)))))
  | cons x t =>
    simp only [NotHead, isBareCh, isAlnum, isAlpha, Bool.or_eq_false_iff, decide_eq_false_iff_not] at h
    obtain ⟨⟨⟨⟨⟨hl, hu⟩, hd⟩, hm⟩, h_⟩, hc⟩ := h
    exact Fails.alt (Fails.rng_ne t (by simpa [isLower] using hl))
      (Fails.alt (Fails.rng_ne t (by simpa [isUpper] using hu))
        (Fails.alt (digit_fails (x :: t) hd) (Fails.alt (Fails.chr_ne t hm)
          (Fails.alt (Fails.chr_ne t h_) (Fails.chr_ne t hc)))))

/-- A bare word of the class: first character a letter, `_` or `:`, then bare characters, and not one
of the keywords (which are read as `null` / `true` / `false`). -/
def BareWord (w : List Char) : Prop :=
  ∃ c cs, w = c :: cs ∧ (isAlpha c = true ∨ c = '_' ∨ c = ':') ∧ (∀ x ∈ cs, isBareCh x = true) ∧
    w ≠ ['n', 'u', 'l', 'l'] ∧ w ≠ ['t', 'r', 'u', 'e'] ∧ w ≠ ['f', 'a', 'l', 's', 'e']

theorem bare_facts {y : Char} (h : isBareCh y = true) : isWs y = false ∧ y ≠ ',' ∧ y ≠ ')' ∧ y ≠ '(' := by
  refine ⟨?_, ?_, ?_, ?_⟩
  · cases hw : isWs y with
    | false => rfl
    | true =>
      simp only [isWs, Bool.or_eq_true, decide_eq_true_eq] at hw
      rcases hw with (rfl | rfl) | rfl <;> simp [isBareCh, isAlnum, isAlpha, isLower, isUpper, isDigit] at h
  all_goals (intro e; subst e; simp [isBareCh, isAlnum, isAlpha, isLower, isUpper, isDigit] at h)

/-- A keyword alternative of `item` fails on a bare word that is not the keyword. -/
theorem kw_alt_fails_bare (kw : List Char) (a : Act) (w : List Char) (d : Char) (r : List Char)
    (hall : ∀ x ∈ w, isBareCh x = true) (hne : w ≠ kw) (hkw : kw ≠ [] ∧ ∀ c ∈ kw, isAlpha c = true) (hd : Delim d) :
    F (.seq (lit kw) (.seq (.andP (.alt (.ref R.comma) (.seq (.ref R.sp) (.ref R.close)))) (.act a)))
      (w ++ d :: r) := by
  by_cases hp : kw <+: w ++ d :: r
  · obtain ⟨t, ht⟩ := hp
    have hdkw : d ∉ kw := fun hmem => by
      have := hkw.2 _ hmem
      rcases hd with rfl | rfl | rfl <;> revert this <;> decide
    obtain ⟨u, hu1, hu2⟩ := append_eq_split kw t w d r hdkw ht
    cases u with
    | nil => exact absurd (by simpa using hu1) hne
    | cons y ys =>
      have hy : isBareCh y = true := hall y (by rw [hu1]; simp)
      obtain ⟨hyw, hyc, hyp, _⟩ := bare_facts hy
      have hnw : NoWs (y :: (ys ++ d :: r)) := by simpa [NoWs] using hyw
      rw [← ht, hu2]
      exact Fails.seq_right (Parses.lit kw _) (Fails.seq_left (Fails.andP (Fails.alt
        (comma_fails hnw (by simpa [NotHead] using hyc))
        (Fails.seq_right (sp_nil hnw) (close_fails (by simpa [NotHead] using hyp))))))
  · exact Fails.seq_left (Fails.lit kw _ hkw.1 hp)

/-- `item` reads a bare word as the string of its characters. -/
theorem item_bare_ok (w r : List Char) (d : Char) (hw : BareWord w) (hd : Delim d) :
    P (.ref R.item) (w ++ d :: r) (d :: r) [.text w, .act (.addVal .text)] := by
  obtain ⟨c, cs, rfl, hc, hcs, hn1, hn2, hn3⟩ := hw
  obtain ⟨f1, f2, f3, f4, f5, f6, f7, f8, f9⟩ := hd.facts
  have hcb : isBareCh c = true := by
    rcases hc with hc | rfl | rfl
    · simp [isBareCh, isAlnum, hc]
    · decide
    · decide
  have hall : ∀ x ∈ c :: cs, isBareCh x = true := by
    intro x hx
    simp only [List.mem_cons] at hx
    rcases hx with rfl | hx
    · exact hcb
    · exact hcs x hx
  have hcd : isDigit c = false ∧ c ≠ '-' ∧ c ≠ '.' ∧ c ≠ '"' ∧ c ≠ '\'' := by
    rcases hc with hc | rfl | rfl
    · refine ⟨?_, ?_, ?_, ?_, ?_⟩
      · cases hd' : isDigit c with
        | false => rfl
        | true =>
          simp only [isDigit, Bool.and_eq_true, decide_eq_true_eq] at hd'
          simp only [isAlpha, isLower, isUpper, Bool.or_eq_true, Bool.and_eq_true, decide_eq_true_eq] at hc
          rcases hc with ⟨h1, _⟩ | ⟨h1, _⟩
          · exact absurd (Char.le_trans h1 hd'.2) (by decide)
          · exact absurd (Char.le_trans h1 hd'.2) (by decide)
      all_goals (intro e; subst e; simp [isAlpha, isLower, isUpper] at hc)
    · decide
    · decide
  have hdb : isBareCh d = false := by
    rcases hd with rfl | rfl | rfl <;> decide
  apply Parses.ref
  show P e_item _ _ _
  simp only [e_item, alts, seqs]
  refine Parses.alt_right (kw_alt_fails_bare _ _ (c :: cs) d r hall hn1 ⟨by simp, by decide⟩ hd)
    (Parses.alt_right (kw_alt_fails_bare _ _ (c :: cs) d r hall hn2 ⟨by simp, by decide⟩ hd)
    (Parses.alt_right (kw_alt_fails_bare _ _ (c :: cs) d r hall hn3 ⟨by simp, by decide⟩ hd)
    (Parses.alt_right (Fails.seq_left ?ts)
    (Parses.alt_right (Fails.seq_left (Fails.cap ?n1))
    (Parses.alt_right (Fails.seq_left (Fails.cap ?n2))
    (Parses.alt_right ?call
    (Parses.alt_left ?bare)))))))
  case ts => exact tsfmt_fails hcd.2.2.2.1 hcd.2.2.2.2 (by simp [tsPrefix5, hcd.1])
  case n1 =>
    refine Fails.seq_right (Parses.opt_none (Fails.chr_ne _ hcd.2.1)) (Fails.seq_left ?_)
    simp only [plus]
    exact Fails.seq_left (digit_fails _ (by simpa [NotHead] using hcd.1))
  case n2 =>
    exact Fails.seq_right (Parses.opt_none (Fails.chr_ne _ hcd.2.1))
      (Fails.seq_left (lit_fails_head _ c _ ⟨_, _, rfl, fun e => hcd.2.2.1 e.symm⟩))
  case call =>
    -- `<IDENT> startCall open ..`: IDENT fails, or reads the alphanumeric prefix and `open` fails
    by_cases ha : isAlpha c = true
    · have hsplit : c :: cs ++ d :: r = (c :: cs.takeWhile isAlnum) ++ (cs.dropWhile isAlnum ++ d :: r) := by
        simp [← List.append_assoc, List.takeWhile_append_dropWhile]
      have hda : isAlnum d = false := by rcases hd with rfl | rfl | rfl <;> decide
      have hid := ident_ok (w := c :: cs.takeWhile isAlnum) (r := cs.dropWhile isAlnum ++ d :: r)
        ⟨c, _, rfl, ha, takeWhile_all isAlnum cs⟩
        (notHead_dropWhile isAlnum cs (d :: r) (by simpa [NotHead] using hda))
      have hopen : NotHead (· = '(') (cs.dropWhile isAlnum ++ d :: r) := by
        cases hdw : cs.dropWhile isAlnum with
        | nil => simpa [NotHead] using f8
        | cons y ys =>
          have hy : y ∈ cs := by
            have : y ∈ cs.dropWhile isAlnum := by rw [hdw]; simp
            exact (List.dropWhile_sublist _).subset this
          simpa [NotHead] using (bare_facts (hcs y hy)).2.2.2
      rw [hsplit]
      exact Fails.seq_right (Parses.cap hid) (Fails.seq_right (Parses.act _ _) (Fails.seq_left (open_fails hopen)))
    · exact Fails.seq_left (Fails.cap (ident_fails (by simpa [NotHead] using ha)))
  case bare =>
    have h1 := barech_ok c (cs ++ d :: r) hcb
    have h2 := star_class barech_ok barech_fails cs (d :: r) hcs (by simpa [NotHead] using hdb)
    have hplus : P (plus (alts [.rng 'a' 'z', .rng 'A' 'Z', .rng '0' '9', .chr '-', .chr '_', .chr ':']))
        ((c :: cs) ++ d :: r) (d :: r) ([] ++ []) := by
      simp only [plus]; exact Parses.seq h1 h2
    have hcap := Parses.cap_prefix hplus
    simpa [alts] using Parses.seq hcap (Parses.act (.addVal .text) (d :: r))

/-- Bare words: the string of the characters. -/
def bareLit (w : List Char) : LVal := ⟨w, [.text w, .act (.addVal .text)], .str (utf8s w)⟩

theorem bareLit_item (w : List Char) (h : BareWord w) : (bareLit w).Item false false := by
  refine ⟨⟨fun s => ?_, fun d r hd => item_bare_ok w r d h (delim3 hd)⟩, sem_textVal _ w, semL_textVal _ w⟩
  obtain ⟨c, cs, rfl, hc, _⟩ := h
  have : isWs c = false := by
    rcases hc with hc | rfl | rfl
    · cases hw : isWs c with
      | false => rfl
      | true =>
        simp only [isWs, Bool.or_eq_true, decide_eq_true_eq] at hw
        rcases hw with (rfl | rfl) | rfl <;> simp [isAlpha, isLower, isUpper] at hc
    · decide
    · decide
  simpa [bareLit, NoWs] using this

end PV.C26
