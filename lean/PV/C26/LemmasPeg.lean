/-
C26 — generic lemmas about the PEG interpreter: fuel monotonicity and the composition rules of
`Parses` / `Fails` ("for some fuel the expression succeeds / fails").  Core Lean only.
-/
import PV.C26.Peg
namespace PV.C26
variable (rule : Nat → PExpr)

theorem run_zero (e : PExpr) (s : List Char) : run rule 0 e s = .fuel := rfl
theorem run_eps (n : Nat) (s : List Char) : run rule (n + 1) .eps s = .ok s [] := rfl
theorem run_chr (n : Nat) (c : Char) (s : List Char) :
    run rule (n + 1) (.chr c) s = (match s with | x :: t => if x = c then .ok t [] else .fail | [] => .fail) := rfl
theorem run_rng (n : Nat) (lo hi : Char) (s : List Char) :
    run rule (n + 1) (.rng lo hi) s =
      (match s with | x :: t => if lo ≤ x ∧ x ≤ hi then .ok t [] else .fail | [] => .fail) := rfl
theorem run_any (n : Nat) (s : List Char) :
    run rule (n + 1) .any s = (match s with | _ :: t => .ok t [] | [] => .fail) := rfl
theorem run_act (n : Nat) (a : Act) (s : List Char) : run rule (n + 1) (.act a) s = .ok s [.act a] := rfl
theorem run_ref (n : Nat) (i : Nat) (s : List Char) : run rule (n + 1) (.ref i) s = run rule n (rule i) s := rfl
theorem run_seq (n : Nat) (a b : PExpr) (s : List Char) :
    run rule (n + 1) (.seq a b) s =
      (match run rule n a s with
       | .ok s1 e1 => (match run rule n b s1 with | .ok s2 e2 => .ok s2 (e1 ++ e2) | r => r)
       | r => r) := rfl
theorem run_alt (n : Nat) (a b : PExpr) (s : List Char) :
    run rule (n + 1) (.alt a b) s = (match run rule n a s with | .fail => run rule n b s | r => r) := rfl
theorem run_star (n : Nat) (a : PExpr) (s : List Char) :
    run rule (n + 1) (.star a) s =
      (match run rule n a s with
       | .fail => .ok s []
       | .fuel => .fuel
       | .ok s1 e1 => (match run rule n (.star a) s1 with | .ok s2 e2 => .ok s2 (e1 ++ e2) | r => r)) := rfl
theorem run_opt (n : Nat) (a : PExpr) (s : List Char) :
    run rule (n + 1) (.opt a) s = (match run rule n a s with | .fail => .ok s [] | r => r) := rfl
theorem run_notP (n : Nat) (a : PExpr) (s : List Char) :
    run rule (n + 1) (.notP a) s =
      (match run rule n a s with | .fail => .ok s [] | .ok _ _ => .fail | .fuel => .fuel) := rfl
theorem run_andP (n : Nat) (a : PExpr) (s : List Char) :
    run rule (n + 1) (.andP a) s = (match run rule n a s with | .ok _ _ => .ok s [] | r => r) := rfl
theorem run_cap (n : Nat) (a : PExpr) (s : List Char) :
    run rule (n + 1) (.cap a) s =
      (match run rule n a s with
       | .ok s1 e1 => .ok s1 (e1 ++ [.text (s.take (s.length - s1.length))])
       | r => r) := rfl

theorem run_succ (n : Nat) : ∀ (e : PExpr) (s : List Char), run rule n e s ≠ .fuel →
    run rule (n + 1) e s = run rule n e s := by
  induction n with
  | zero => intro e s h; simp [run] at h
  | succ k ih =>
    intro e s h
    cases e with
    | eps => rw [run_eps, run_eps]
    | chr c => rw [run_chr, run_chr]
    | rng lo hi => rw [run_rng, run_rng]
    | any => rw [run_any, run_any]
    | act a => rw [run_act, run_act]
    | ref i =>
      rw [run_ref] at h
      rw [run_ref, run_ref]
      exact ih _ _ h
    | seq a b =>
      rw [run_seq] at h
      rw [run_seq, run_seq]
      cases h1 : run rule k a s with
      | fuel => simp [h1] at h
      | fail => rw [ih a s (by simp [h1]), h1]
      | ok s1 e1 =>
        rw [ih a s (by simp [h1]), h1]
        simp only [h1] at h
        cases h2 : run rule k b s1 with
        | fuel => simp [h2] at h
        | fail => simp only []; rw [ih b s1 (by simp [h2]), h2]
        | ok s2 e2 => simp only []; rw [ih b s1 (by simp [h2]), h2]
    | alt a b =>
      rw [run_alt] at h
      rw [run_alt, run_alt]
      cases h1 : run rule k a s with
      | fuel => simp [h1] at h
      | ok s1 e1 => rw [ih a s (by simp [h1]), h1]
      | fail =>
        rw [ih a s (by simp [h1]), h1]
        simp only [h1] at h
        simp only []
        exact ih b s h
    | star a =>
      rw [run_star] at h
      rw [run_star, run_star]
      cases h1 : run rule k a s with
      | fuel => simp [h1] at h
      | fail => rw [ih a s (by simp [h1]), h1]
      | ok s1 e1 =>
        rw [ih a s (by simp [h1]), h1]
        simp only [h1] at h
        cases h2 : run rule k (.star a) s1 with
        | fuel => simp [h2] at h
        | fail => simp only []; rw [ih _ s1 (by simp [h2]), h2]
        | ok s2 e2 => simp only []; rw [ih _ s1 (by simp [h2]), h2]
    | opt a =>
      rw [run_opt] at h
      rw [run_opt, run_opt]
      cases h1 : run rule k a s with
      | fuel => simp [h1] at h
      | fail => rw [ih a s (by simp [h1]), h1]
      | ok s1 e1 => rw [ih a s (by simp [h1]), h1]
    | notP a =>
      rw [run_notP] at h
      rw [run_notP, run_notP]
      cases h1 : run rule k a s with
      | fuel => simp [h1] at h
      | fail => rw [ih a s (by simp [h1]), h1]
      | ok s1 e1 => rw [ih a s (by simp [h1]), h1]
    | andP a =>
      rw [run_andP] at h
      rw [run_andP, run_andP]
      cases h1 : run rule k a s with
      | fuel => simp [h1] at h
      | fail => rw [ih a s (by simp [h1]), h1]
      | ok s1 e1 => rw [ih a s (by simp [h1]), h1]
    | cap a =>
      rw [run_cap] at h
      rw [run_cap, run_cap]
      cases h1 : run rule k a s with
      | fuel => simp [h1] at h
      | fail => rw [ih a s (by simp [h1]), h1]
      | ok s1 e1 => rw [ih a s (by simp [h1]), h1]

theorem run_mono {n : Nat} {e : PExpr} {s : List Char} {r : Res} (h : run rule n e s = r) (hr : r ≠ .fuel) :
    ∀ m, n ≤ m → run rule m e s = r := by
  intro m hm
  induction m with
  | zero =>
    have : n = 0 := by omega
    subst this; exact h
  | succ k ih =>
    by_cases hk : n ≤ k
    · have := ih hk
      rw [run_succ rule k e s (by rw [this]; exact hr), this]
    · have : n = k + 1 := by omega
      subst this; exact h

/-- For some fuel `e` consumes `s` down to `s'` recording `evs`. -/
def Parses (e : PExpr) (s s' : List Char) (evs : List Ev) : Prop := ∃ n, run rule n e s = .ok s' evs

/-- For some fuel `e` fails on `s`. -/
def Fails (e : PExpr) (s : List Char) : Prop := ∃ n, run rule n e s = .fail

/-- A result reached with some fuel is the result for every fuel that does not run out. -/
theorem run_det {e : PExpr} {s : List Char} {r : Res} {n : Nat} (h : run rule n e s = r) (hr : r ≠ .fuel)
    (m : Nat) : run rule m e s = .fuel ∨ run rule m e s = r := by
  by_cases hm : run rule m e s = .fuel
  · exact Or.inl hm
  · right
    have h1 := run_mono rule h hr (max n m) (Nat.le_max_left _ _)
    have h2 := run_mono rule (rfl : run rule m e s = _) hm (max n m) (Nat.le_max_right _ _)
    rw [← h2, h1]

variable {rule}

theorem Parses.eps (s : List Char) : Parses rule .eps s s [] := ⟨1, rfl⟩
theorem Parses.act (a : Act) (s : List Char) : Parses rule (.act a) s s [.act a] := ⟨1, rfl⟩
theorem Parses.chr (c : Char) (t : List Char) : Parses rule (.chr c) (c :: t) t [] :=
  ⟨1, by rw [run_chr]; simp⟩
theorem Fails.chr_nil (c : Char) : Fails rule (.chr c) [] := ⟨1, rfl⟩
theorem Fails.chr_ne {c x : Char} (t : List Char) (h : x ≠ c) : Fails rule (.chr c) (x :: t) :=
  ⟨1, by rw [run_chr]; simp [h]⟩
theorem Parses.rng {lo hi x : Char} (t : List Char) (h : lo ≤ x ∧ x ≤ hi) :
    Parses rule (.rng lo hi) (x :: t) t [] := ⟨1, by rw [run_rng]; simp [h]⟩
theorem Fails.rng_nil (lo hi : Char) : Fails rule (.rng lo hi) [] := ⟨1, rfl⟩
theorem Fails.rng_ne {lo hi x : Char} (t : List Char) (h : ¬ (lo ≤ x ∧ x ≤ hi)) :
    Fails rule (.rng lo hi) (x :: t) := ⟨1, by rw [run_rng]; simp [h]⟩
theorem Parses.any (x : Char) (t : List Char) : Parses rule .any (x :: t) t [] := ⟨1, rfl⟩
theorem Fails.any_nil : Fails rule .any [] := ⟨1, rfl⟩

theorem Parses.ref {i : Nat} {s s' : List Char} {evs : List Ev} (h : Parses rule (rule i) s s' evs) :
    Parses rule (.ref i) s s' evs := by
  obtain ⟨n, hn⟩ := h
  exact ⟨n + 1, by rw [run_ref]; exact hn⟩

theorem Fails.ref {i : Nat} {s : List Char} (h : Fails rule (rule i) s) : Fails rule (.ref i) s := by
  obtain ⟨n, hn⟩ := h
  exact ⟨n + 1, by rw [run_ref]; exact hn⟩

theorem Parses.seq {a b : PExpr} {s s1 s2 : List Char} {e1 e2 : List Ev}
    (ha : Parses rule a s s1 e1) (hb : Parses rule b s1 s2 e2) : Parses rule (.seq a b) s s2 (e1 ++ e2) := by
  obtain ⟨n1, h1⟩ := ha
  obtain ⟨n2, h2⟩ := hb
  refine ⟨max n1 n2 + 1, ?_⟩
  have a1 := run_mono rule h1 (by simp) (max n1 n2) (Nat.le_max_left _ _)
  have a2 := run_mono rule h2 (by simp) (max n1 n2) (Nat.le_max_right _ _)
  simp only [run_seq, a1, a2]

theorem Fails.seq_left {a b : PExpr} {s : List Char} (ha : Fails rule a s) : Fails rule (.seq a b) s := by
  obtain ⟨n, h⟩ := ha
  exact ⟨n + 1, by rw [run_seq, h]⟩

theorem Fails.seq_right {a b : PExpr} {s s1 : List Char} {e1 : List Ev}
    (ha : Parses rule a s s1 e1) (hb : Fails rule b s1) : Fails rule (.seq a b) s := by
  obtain ⟨n1, h1⟩ := ha
  obtain ⟨n2, h2⟩ := hb
  refine ⟨max n1 n2 + 1, ?_⟩
  have a1 := run_mono rule h1 (by simp) (max n1 n2) (Nat.le_max_left _ _)
  have a2 := run_mono rule h2 (by simp) (max n1 n2) (Nat.le_max_right _ _)
  simp only [run_seq, a1, a2]

theorem Parses.alt_left {a b : PExpr} {s s' : List Char} {evs : List Ev}
    (ha : Parses rule a s s' evs) : Parses rule (.alt a b) s s' evs := by
  obtain ⟨n, h⟩ := ha
  exact ⟨n + 1, by rw [run_alt, h]⟩

theorem Parses.alt_right {a b : PExpr} {s s' : List Char} {evs : List Ev}
    (ha : Fails rule a s) (hb : Parses rule b s s' evs) : Parses rule (.alt a b) s s' evs := by
  obtain ⟨n1, h1⟩ := ha
  obtain ⟨n2, h2⟩ := hb
  refine ⟨max n1 n2 + 1, ?_⟩
  have a1 := run_mono rule h1 (by simp) (max n1 n2) (Nat.le_max_left _ _)
  have a2 := run_mono rule h2 (by simp) (max n1 n2) (Nat.le_max_right _ _)
  simp only [run_alt, a1, a2]

theorem Fails.alt {a b : PExpr} {s : List Char} (ha : Fails rule a s) (hb : Fails rule b s) :
    Fails rule (.alt a b) s := by
  obtain ⟨n1, h1⟩ := ha
  obtain ⟨n2, h2⟩ := hb
  refine ⟨max n1 n2 + 1, ?_⟩
  have a1 := run_mono rule h1 (by simp) (max n1 n2) (Nat.le_max_left _ _)
  have a2 := run_mono rule h2 (by simp) (max n1 n2) (Nat.le_max_right _ _)
  simp only [run_alt, a1, a2]

theorem Parses.star_nil {a : PExpr} {s : List Char} (ha : Fails rule a s) : Parses rule (.star a) s s [] := by
  obtain ⟨n, h⟩ := ha
  exact ⟨n + 1, by rw [run_star, h]⟩

theorem Parses.star_cons {a : PExpr} {s s1 s2 : List Char} {e1 e2 : List Ev}
    (ha : Parses rule a s s1 e1) (hb : Parses rule (.star a) s1 s2 e2) :
    Parses rule (.star a) s s2 (e1 ++ e2) := by
  obtain ⟨n1, h1⟩ := ha
  obtain ⟨n2, h2⟩ := hb
  refine ⟨max n1 n2 + 1, ?_⟩
  have a1 := run_mono rule h1 (by simp) (max n1 n2) (Nat.le_max_left _ _)
  have a2 := run_mono rule h2 (by simp) (max n1 n2) (Nat.le_max_right _ _)
  simp only [run_star, a1, a2]

theorem Parses.opt_some {a : PExpr} {s s' : List Char} {evs : List Ev} (ha : Parses rule a s s' evs) :
    Parses rule (.opt a) s s' evs := by
  obtain ⟨n, h⟩ := ha
  exact ⟨n + 1, by rw [run_opt, h]⟩

theorem Parses.opt_none {a : PExpr} {s : List Char} (ha : Fails rule a s) : Parses rule (.opt a) s s [] := by
  obtain ⟨n, h⟩ := ha
  exact ⟨n + 1, by rw [run_opt, h]⟩

theorem Parses.notP {a : PExpr} {s : List Char} (ha : Fails rule a s) : Parses rule (.notP a) s s [] := by
  obtain ⟨n, h⟩ := ha
  exact ⟨n + 1, by rw [run_notP, h]⟩

theorem Fails.notP {a : PExpr} {s s' : List Char} {evs : List Ev} (ha : Parses rule a s s' evs) :
    Fails rule (.notP a) s := by
  obtain ⟨n, h⟩ := ha
  exact ⟨n + 1, by rw [run_notP, h]⟩

theorem Parses.andP {a : PExpr} {s s' : List Char} {evs : List Ev} (ha : Parses rule a s s' evs) :
    Parses rule (.andP a) s s [] := by
  obtain ⟨n, h⟩ := ha
  exact ⟨n + 1, by rw [run_andP, h]⟩

theorem Fails.andP {a : PExpr} {s : List Char} (ha : Fails rule a s) : Fails rule (.andP a) s := by
  obtain ⟨n, h⟩ := ha
  exact ⟨n + 1, by rw [run_andP, h]⟩

theorem Parses.cap {a : PExpr} {s s' : List Char} {evs : List Ev} (ha : Parses rule a s s' evs) :
    Parses rule (.cap a) s s' (evs ++ [.text (s.take (s.length - s'.length))]) := by
  obtain ⟨n, h⟩ := ha
  exact ⟨n + 1, by rw [run_cap, h]⟩

theorem Fails.cap {a : PExpr} {s : List Char} (ha : Fails rule a s) : Fails rule (.cap a) s := by
  obtain ⟨n, h⟩ := ha
  exact ⟨n + 1, by rw [run_cap, h]⟩

/-- The text a capture records when the expression consumed exactly the prefix `w`. -/
theorem Parses.cap_prefix {a : PExpr} {w r : List Char} {evs : List Ev} (ha : Parses rule a (w ++ r) r evs) :
    Parses rule (.cap a) (w ++ r) r (evs ++ [.text w]) := by
  have := Parses.cap ha
  simpa using this

/-! ### Literals -/

theorem Parses.lit (w r : List Char) : Parses rule (lit w) (w ++ r) r [] := by
  induction w with
  | nil => exact Parses.eps r
  | cons c cs ih =>
    cases cs with
    | nil => exact Parses.chr c r
    | cons d ds =>
      have := Parses.seq (Parses.chr (rule := rule) c ((d :: ds) ++ r)) ih
      simpa [PV.C26.lit] using this

/-- A non-empty literal fails on an input it is not a prefix of. -/
theorem Fails.lit (w s : List Char) (hw : w ≠ []) (h : ¬ w <+: s) : Fails rule (lit w) s := by
  induction w generalizing s with
  | nil => exact absurd rfl hw
  | cons c cs ih =>
    cases cs with
    | nil =>
      cases s with
      | nil => exact Fails.chr_nil c
      | cons x t =>
        refine Fails.chr_ne t ?_
        intro e; subst e; exact h ⟨t, rfl⟩
    | cons d ds =>
      simp only [PV.C26.lit]
      cases s with
      | nil => exact Fails.seq_left (Fails.chr_nil c)
      | cons x t =>
        by_cases e : x = c
        · subst e
          refine Fails.seq_right (Parses.chr x t) (ih t (by simp) ?_)
          intro ⟨u, hu⟩
          exact h ⟨u, by simp [hu]⟩
        · exact Fails.seq_left (Fails.chr_ne t e)

end PV.C26
