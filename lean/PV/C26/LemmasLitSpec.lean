/-
C26 — from the structural literals of Spec.lean (`Lit`, `WArg`) to the abstract values and
arguments of LemmasLits/LemmasLists/LemmasBetween: well-formedness predicates (`Lit.Scalar`,
`Lit.Ok`, `Lit.NumOk`, `WArg.Ok`) and the bridge lemmas C26_literals is assembled from.
Core Lean only.
-/
import PV.C26.LemmasLists
import PV.C26.LemmasLits
import PV.C26.LemmasBetween
import PV.C26.LemmasBare
namespace PV.C26
open Gen

/-- `null`, `true`, `false`: recognised only before `,` or `)` (finding `list-last-keyword`). -/
def Lit.isKw : Lit → Bool
  | .null => true
  | .bool _ => true
  | _ => false

def Lit.isNum : Lit → Bool
  | .int _ _ => true
  | .float _ _ _ => true
  | _ => false

def intOf (neg : Bool) (ds : List Char) : Int := if neg then - (parseNat ds : Int) else (parseNat ds : Int)

/-- Well-formed scalar literals (the classes of C26_literals; what is left out is explicit). -/
def Lit.Scalar : Lit → Prop
  | .null => True
  | .bool _ => True
  | .int neg ds => ds ≠ [] ∧ (∀ c ∈ ds, isDigit c = true) ∧ minInt64 ≤ intOf neg ds ∧ intOf neg ds ≤ maxInt64
  | .float _ ip fp => (∀ c ∈ ip, isDigit c = true) ∧ (∀ c ∈ fp, isDigit c = true) ∧ (ip ≠ [] ∨ fp ≠ [])
  | .dq items => ∀ it ∈ items, it.ok = true
  | .sq items => ∀ it ∈ items, ∃ c, it = .ch c ∧ c ≠ '\'' ∧ c ≠ '\\'                    -- `sq-escape-kept`
  | .bare cs => BareWord cs
  | .ts _ cs => tsShape cs = true
  | .list _ => False

def Lit.lval : Lit → LVal
  | .null => ⟨cl!"null", [.act (.addVal .null)], .null⟩
  | .bool b => ⟨(if b then cl!"true" else cl!"false"), [.act (.addVal (.bool b))], .bool b⟩
  | .int neg ds => intLit neg ds
  | .float neg ip fp => floatLit neg ip fp
  | .dq items => dqLit items
  | .sq items => sqLit (items.flatMap SqItem.write)
  | .ts st cs => tsLit st cs
  | .bare cs => bareLit cs
  | _ => ⟨[], [], .null⟩

theorem sq_plain (items : List SqItem) (h : ∀ it ∈ items, ∃ c, it = .ch c ∧ c ≠ '\'' ∧ c ≠ '\\') :
    sqPlain (items.flatMap SqItem.write) ∧ items.flatMap SqItem.value = utf8s (items.flatMap SqItem.write) := by
  induction items with
  | nil => exact ⟨by intro c hc; simp at hc, by simp [utf8s]⟩
  | cons it rest ih =>
    obtain ⟨c, rfl, h1, h2⟩ := h it (by simp)
    obtain ⟨ih1, ih2⟩ := ih (fun x hx => h x (by simp [hx]))
    constructor
    · intro x hx
      simp only [List.flatMap_cons, SqItem.write, List.cons_append, List.nil_append, List.mem_cons] at hx
      rcases hx with rfl | hx
      · exact ⟨h1, h2⟩
      · exact ih1 x hx
    · simp only [List.flatMap_cons, SqItem.write, SqItem.value, ih2]
      simp [utf8s]

theorem Lit.lval_item (l : Lit) (h : l.Scalar) : l.lval.Item l.isKw l.isNum := by
  cases l with
  | null => exact nullLit_item
  | bool b => exact boolLit_item b
  | int neg ds => exact intLit_item neg ds h.1 h.2.1 h.2.2
  | float neg ip fp => exact floatLit_item neg ip fp h.1 h.2.1 h.2.2
  | dq items => exact dqLit_item items h
  | sq items => exact sqLit_item _ (sq_plain items h).1
  | bare cs => exact bareLit_item cs h
  | ts st cs => exact tsLit_item st cs h
  | list items => exact absurd h (by simp [Lit.Scalar])

theorem Lit.lval_text (l : Lit) (h : l.Scalar) : l.lval.text = l.write := by
  cases l with
  | null => rfl
  | bool b => cases b <;> rfl
  | int neg ds => simp [Lit.lval, intLit, Lit.write, signText]
  | float neg ip fp => simp [Lit.lval, floatLit, floatText, Lit.write, signText]
  | dq items => simp [Lit.lval, dqLit, Lit.write]
  | sq items => simp [Lit.lval, sqLit, Lit.write]
  | bare cs => simp [Lit.lval, bareLit, Lit.write]
  | ts st cs => simp [Lit.lval, tsLit]
  | list items => exact absurd h (by simp [Lit.Scalar])

theorem Lit.lval_val (l : Lit) (h : l.Scalar) : l.lval.val = l.value := by
  cases l with
  | null => rfl
  | bool b => rfl
  | int neg ds => simp [Lit.lval, intLit, Lit.value]
  | float neg ip fp => simp [Lit.lval, floatLit, floatText, Lit.value, signText]
  | dq items => simp [Lit.lval, dqLit, Lit.value]
  | sq items => simp [Lit.lval, sqLit, Lit.value, (sq_plain items h).2]
  | bare cs => simp [Lit.lval, bareLit, Lit.value]
  | ts st cs => simp [Lit.lval, tsLit, Lit.value]
  | list items => exact absurd h (by simp [Lit.Scalar])

/-- A value: a scalar, or a non-empty list of scalars whose last element is not a keyword
(finding `list-last-keyword`). -/
def Lit.Ok : Lit → Prop
  | .list items => ∃ init last, items = init ++ [last] ∧ (∀ x ∈ init, x.Scalar) ∧ last.Scalar ∧ last.isKw = false
  | l => l.Scalar

/-- The operand of a condition: a scalar, or a non-empty list of numbers (`addVal` on a list under a
condition is a type-assertion panic in the parser: only `addNumVal` supports it). -/
def Lit.NumOk : Lit → Prop
  | .list items => items ≠ [] ∧ ∀ x ∈ items, x.Scalar ∧ x.isNum = true
  | l => l.Scalar

def Lit.lv : Lit → LVal
  | .list items => listLit (items.map Lit.lval)
  | l => l.lval

theorem Lit.ok_cases (l : Lit) (h : l.Ok) : (∃ items, l = .list items) ∨ (l.Scalar ∧ l.lv = l.lval) := by
  cases l <;> first | exact Or.inl ⟨_, rfl⟩ | exact Or.inr ⟨h, rfl⟩

theorem Lit.numOk_cases (l : Lit) (h : l.NumOk) : (∃ items, l = .list items) ∨ (l.Scalar ∧ l.lv = l.lval) := by
  cases l <;> first | exact Or.inl ⟨_, rfl⟩ | exact Or.inr ⟨h, rfl⟩

theorem writeList_join (items : List Lit) : Lit.writeList items = joinWith [','] (items.map Lit.write) := by
  match items with
  | [] => simp [Lit.writeList, joinWith]
  | [x] => simp [Lit.writeList, joinWith]
  | x :: y :: r =>
    have ih := writeList_join (y :: r)
    simp only [Lit.writeList, List.map_cons, joinWith] at ih ⊢
    rw [ih]

theorem values_map (items : List Lit) : Lit.values items = items.map Lit.value := by
  induction items with
  | nil => simp [Lit.values]
  | cons x xs ih => simp [Lit.values, ih]

theorem list_text (items : List Lit) (h : ∀ x ∈ items, x.Scalar) :
    (listLit (items.map Lit.lval)).text = Lit.write (.list items) := by
  have e : (items.map Lit.lval).map (·.text) = items.map Lit.write := by
    rw [List.map_map]
    exact List.map_congr_left (fun x hx => Lit.lval_text x (h x hx))
  simp [listLit, listText, Lit.write, writeList_join, e]

theorem list_val (items : List Lit) (h : ∀ x ∈ items, x.Scalar) :
    (listLit (items.map Lit.lval)).val = Lit.value (.list items) := by
  have e : (items.map Lit.lval).map (·.val) = items.map Lit.value := by
    rw [List.map_map]
    exact List.map_congr_left (fun x hx => Lit.lval_val x (h x hx))
  simp [listLit, Lit.value, values_map, e]

theorem ok_scalars {init : List Lit} {last : Lit} (h1 : ∀ x ∈ init, x.Scalar) (h2 : last.Scalar) :
    ∀ x ∈ init ++ [last], x.Scalar := by
  intro x hx
  simp only [List.mem_append, List.mem_singleton] at hx
  rcases hx with hx | rfl
  · exact h1 x hx
  · exact h2

theorem Lit.lv_text (l : Lit) (h : l.Ok ∨ l.NumOk) : l.lv.text = l.write := by
  have hc : (∃ items, l = .list items) ∨ (l.Scalar ∧ l.lv = l.lval) := by
    rcases h with h | h
    · exact l.ok_cases h
    · exact l.numOk_cases h
  rcases hc with ⟨items, rfl⟩ | ⟨hs, e⟩
  · simp only [Lit.lv]
    rcases h with ⟨init, last, rfl, h1, h2, _⟩ | ⟨_, h2⟩
    · exact list_text _ (ok_scalars h1 h2)
    · exact list_text _ (fun x hx => (h2 x hx).1)
  · rw [e]; exact Lit.lval_text _ hs

theorem Lit.lv_val (l : Lit) (h : l.Ok ∨ l.NumOk) : l.lv.val = l.value := by
  have hc : (∃ items, l = .list items) ∨ (l.Scalar ∧ l.lv = l.lval) := by
    rcases h with h | h
    · exact l.ok_cases h
    · exact l.numOk_cases h
  rcases hc with ⟨items, rfl⟩ | ⟨hs, e⟩
  · simp only [Lit.lv]
    rcases h with ⟨init, last, rfl, h1, h2, _⟩ | ⟨_, h2⟩
    · exact list_val _ (ok_scalars h1 h2)
    · exact list_val _ (fun x hx => (h2 x hx).1)
  · rw [e]; exact Lit.lval_val _ hs

/-- `key=value`: syntax and the no-condition semantics. -/
theorem Lit.lv_ok (l : Lit) (h : l.Ok) : l.lv.Syn ∧ l.lv.Sem0 := by
  rcases l.ok_cases h with ⟨items, rfl⟩ | ⟨hs, e⟩
  · obtain ⟨init, last, rfl, h1, h2, h3⟩ := h
    simp only [Lit.lv, List.map_append, List.map_cons, List.map_nil]
    constructor
    · refine listLit_syn _ _ ?_ ?_
      · intro v hv
        simp only [List.mem_map] at hv
        obtain ⟨x, hx, rfl⟩ := hv
        exact ⟨_, (Lit.lval_item x (h1 x hx)).isyn⟩
      · have := (Lit.lval_item last h2).isyn
        rw [h3] at this; exact this
    · refine listLit_sem0 _ ?_
      intro v hv
      simp only [List.mem_append, List.mem_map, List.mem_singleton] at hv
      rcases hv with ⟨x, hx, rfl⟩ | rfl
      · exact ⟨_, (Lit.lval_item x (h1 x hx)).semL⟩
      · exact ⟨_, (Lit.lval_item last h2).semL⟩
  · rw [e]; exact ⟨(Lit.lval_item _ hs).isyn.syn, (Lit.lval_item _ hs).sem.sem0⟩

/-- `key op value`: syntax and the semantics under a pending condition. -/
theorem Lit.lv_numOk (l : Lit) (h : l.NumOk) : l.lv.Syn ∧ l.lv.Sem := by
  rcases l.numOk_cases h with ⟨items, rfl⟩ | ⟨hs, e⟩
  · obtain ⟨hne, h2⟩ := h
    have hitem : ∀ x ∈ items, x.lval.Item false true := by
      intro x hx
      obtain ⟨hs, hn⟩ := h2 x hx
      have := Lit.lval_item x hs
      rw [hn] at this
      have hk : x.isKw = false := by cases x <;> simp_all [Lit.isNum, Lit.isKw]
      rw [hk] at this; exact this
    simp only [Lit.lv]
    constructor
    · obtain ⟨init, last, e⟩ : ∃ init last, items = init ++ [last] :=
        ⟨items.dropLast, items.getLast hne, (List.dropLast_concat_getLast hne).symm⟩
      rw [e, List.map_append, List.map_cons, List.map_nil]
      refine listLit_syn _ _ ?_ ?_
      · intro v hv
        simp only [List.mem_map] at hv
        obtain ⟨x, hx, rfl⟩ := hv
        exact ⟨_, (hitem x (by rw [e]; simp [hx])).isyn⟩
      · exact (hitem last (by rw [e]; simp)).isyn
    · refine listLit_sem _ ?_
      intro v hv
      simp only [List.mem_map] at hv
      obtain ⟨x, hx, rfl⟩ := hv
      exact (hitem x hx).semL
  · rw [e]; exact ⟨(Lit.lval_item _ hs).isyn.syn, (Lit.lval_item _ hs).sem⟩

/-! ### Arguments -/

def WArg.Ok : WArg → Prop
  | .kv k v => KeyName k ∧ v.Ok
  | .kc k op v => KeyName k ∧ op ∈ cmpOps ∧ v.NumOk
  | .between lo sl k sh hi => FieldName k ∧ (minInt64 ≤ lo ∧ lo ≤ maxInt64) ∧ (minInt64 ≤ hi ∧ hi ≤ maxInt64) ∧
      (sl = true → lo < maxInt64) ∧ (sh = true → minInt64 < hi)

def WArg.larg : WArg → LArg
  | .kv k v => kvArg k v.lv
  | .kc k op v => kcArg k op v.lv
  | .between lo sl k sh hi => betweenArg lo sl k sh hi

theorem WArg.larg_ok (a : WArg) (h : a.Ok) : a.larg.Syn ∧ a.larg.Sem := by
  cases a with
  | kv k v =>
    obtain ⟨hk, hv⟩ := h
    obtain ⟨h1, h2⟩ := Lit.lv_ok v hv
    exact ⟨kvArg_syn k _ hk h1, kvArg_sem k _ hk.ne_nil h2⟩
  | kc k op v =>
    obtain ⟨hk, hop, hv⟩ := h
    obtain ⟨h1, h2⟩ := Lit.lv_numOk v hv
    exact ⟨kcArg_syn k op _ hop hk h1, kcArg_sem k op _ hop hk.ne_nil h2⟩
  | between lo sl k sh hi =>
    obtain ⟨hk, hlo, hhi, hsl, hsh⟩ := h
    exact ⟨betweenArg_syn lo hi sl sh k hk, betweenArg_sem lo hi sl sh k hlo hhi hsl hsh⟩

theorem WArg.larg_text (a : WArg) (h : a.Ok) : a.larg.text = a.write := by
  cases a with
  | kv k v => simp [WArg.larg, kvArg, WArg.write, Lit.lv_text v (Or.inl h.2)]
  | kc k op v => simp [WArg.larg, kcArg, WArg.write, Lit.lv_text v (Or.inr h.2.2)]
  | between lo sl k sh hi => cases sl <;> cases sh <;> simp [WArg.larg, betweenArg, betweenText, ltText, WArg.write]

theorem WArg.larg_kv (a : WArg) (h : a.Ok) : a.larg.kv = (a.key, a.value) := by
  cases a with
  | kv k v => simp [WArg.larg, kvArg, LArg.kv, WArg.key, WArg.value, Lit.lv_val v (Or.inl h.2)]
  | kc k op v => simp [WArg.larg, kcArg, LArg.kv, WArg.key, WArg.value, Lit.lv_val v (Or.inr h.2.2)]
  | between lo sl k sh hi => simp [WArg.larg, betweenArg, LArg.kv, WArg.key, WArg.value]

theorem WArg.larg_key (a : WArg) : a.larg.key = a.key := by
  cases a <;> rfl

/-- The parser's answer on a text, whatever the interpreter fuel: some fuel suffices, and no fuel
gives another answer. -/
def ParsesTo (s : List Char) (cs : List Call) : Prop :=
  (∃ n, parseFuel Gen.rule Gen.start n s = .ok cs) ∧
  (∀ n, parseFuel Gen.rule Gen.start n s = .error .fuel ∨ parseFuel Gen.rule Gen.start n s = .ok cs)

theorem literals_parse (name : List Char) (args : List WArg) (hn : IdentName name) (hsp : name ∉ specialKws)
    (hne : args ≠ []) (hok : ∀ a ∈ args, a.Ok) (hd : (args.map WArg.key).Pairwise (· ≠ ·)) :
    ParsesTo (writeCall name args) [writtenCall name args] := by
  have h := largs_parse name (args.map WArg.larg) hn hsp (by simpa using hne)
    (by intro a ha; simp only [List.mem_map] at ha; obtain ⟨x, hx, rfl⟩ := ha; exact (x.larg_ok (hok x hx)).1)
    (by intro a ha; simp only [List.mem_map] at ha; obtain ⟨x, hx, rfl⟩ := ha; exact (x.larg_ok (hok x hx)).2)
    (by
      have e : (args.map WArg.larg).map (·.key) = args.map WArg.key := by
        rw [List.map_map]; exact List.map_congr_left (fun x _ => x.larg_key)
      rw [e]; exact hd)
  have etext : largsText name (args.map WArg.larg) = writeCall name args := by
    have e : (args.map WArg.larg).map (·.text) = args.map WArg.write := by
      rw [List.map_map]; exact List.map_congr_left (fun x hx => x.larg_text (hok x hx))
    simp [largsText, writeCall, e]
  have emap : argMap (args.map WArg.larg) = args.foldl (fun m a => insert a.key a.value m) [] := by
    have e : (args.map WArg.larg).map LArg.kv = args.map (fun a => (a.key, a.value)) := by
      rw [List.map_map]; exact List.map_congr_left (fun x hx => x.larg_kv (hok x hx))
    simp only [argMap, e, List.foldl_map]
  rw [etext, emap] at h
  exact h

/-! ### Call-valued arguments: `key=Name(..)` -/

/-- `key=<printed call>` as an argument: the value is the call. -/
def callArg (isPrint : Char → Bool) (d : Nat) (k : Key) (c : Call) : LArg :=
  ⟨k, k ++ '=' :: fmtCall isPrint c, [.text k, .act (.addField .text)] ++ evCallV isPrint d c, .call c⟩

theorem callArg_syn (isPrint : Char → Bool) (hnl : isPrint '\n' = false) (d : Nat) (k : Key) (c : Call) (hk : KeyName k)
    (hc : Nested isPrint d c) : (callArg isPrint d k c).Syn := by
  obtain ⟨hnw, hne⟩ := nested_text isPrint d c hc
  refine ⟨hk.noWs _, by simp [callArg], ?_, ?_⟩
  · intro s
    simp only [callArg, List.append_assoc, List.cons_append]
    exact call_fails_key k _ '=' hk (by decide) (by decide)
  · intro dl r hd
    have hdws : NoWs (dl :: r) := by rcases hd with rfl | rfl <;> simp [NoWs, isWs]
    have hitem := (nested_parses2 isPrint hnl d c hc (dl :: r) hdws).2
    have := arg_eq_ok (vs := fmtCall isPrint c ++ dl :: r) hk (noWs_append hnw hne) (value_of_item hitem)
    simpa [callArg, List.append_assoc] using this

theorem callArg_sem (isPrint : Char → Bool) (hnl : isPrint '\n' = false) (d : Nat) (k : Key) (c : Call)
    (hk : k ≠ []) (hc : Nested isPrint d c) : (callArg isPrint d k c).Sem := by
  intro q e rest evs' hq _ he hl
  obtain ⟨he1, he2, he3⟩ := he
  simp only [callArg, List.cons_append, List.nil_append]
  rw [exec_field k q e rest _ hq he1]
  obtain ⟨t, ht⟩ := ((nested_exec isPrint hnl d c hc)
    { q with text := k, stack := { e with lastField := k } :: rest } evs').2.2
    { e with lastField := k } rest rfl hk he2 he3 hl
  refine ⟨t, ?_⟩
  rw [ht]
  congr 1
  cases e
  simp_all

/-- An argument of a flat call: a written literal argument, or `key=<printed call>`. -/
inductive XArg where
  | lit (a : WArg)
  | call (k : Key) (c : Call)

def XArg.Ok (isPrint : Char → Bool) (d : Nat) : XArg → Prop
  | .lit a => a.Ok
  | .call k c => KeyName k ∧ Nested isPrint d c

def XArg.write (isPrint : Char → Bool) : XArg → List Char
  | .lit a => a.write
  | .call k c => k ++ ['='] ++ fmtCall isPrint c

def XArg.key : XArg → Key
  | .lit a => a.key
  | .call k _ => k

def XArg.value : XArg → Val
  | .lit a => a.value
  | .call _ c => .call c

def XArg.larg (isPrint : Char → Bool) (d : Nat) : XArg → LArg
  | .lit a => a.larg
  | .call k c => callArg isPrint d k c

theorem xargs_parse (isPrint : Char → Bool) (hnl : isPrint '\n' = false) (d : Nat) (name : List Char)
    (args : List XArg) (hn : IdentName name) (hsp : name ∉ specialKws) (hne : args ≠ [])
    (hok : ∀ a ∈ args, a.Ok isPrint d) (hd : (args.map XArg.key).Pairwise (· ≠ ·)) :
    ParsesTo (name ++ ['('] ++ joinWith [',', ' '] (args.map (XArg.write isPrint)) ++ [')'])
      [.mk name (args.foldl (fun m a => insert a.key a.value m) []) []] := by
  have hboth : ∀ a ∈ args, (a.larg isPrint d).Syn ∧ (a.larg isPrint d).Sem := by
    intro a ha
    have h := hok a ha
    cases a with
    | lit w => exact w.larg_ok h
    | call k c => exact ⟨callArg_syn isPrint hnl d k c h.1 h.2, callArg_sem isPrint hnl d k c h.1.ne_nil h.2⟩
  have hkey : ∀ a : XArg, (a.larg isPrint d).key = a.key := by
    intro a; cases a with
    | lit w => exact w.larg_key
    | call k c => rfl
  have htxt : ∀ a ∈ args, (a.larg isPrint d).text = a.write isPrint := by
    intro a ha
    have h := hok a ha
    cases a with
    | lit w => exact w.larg_text h
    | call k c => simp [XArg.larg, callArg, XArg.write]
  have hkv : ∀ a ∈ args, (a.larg isPrint d).kv = (a.key, a.value) := by
    intro a ha
    have h := hok a ha
    cases a with
    | lit w => exact w.larg_kv h
    | call k c => rfl
  have h := largs_parse name (args.map (XArg.larg isPrint d)) hn hsp (by simpa using hne)
    (by intro a ha; simp only [List.mem_map] at ha; obtain ⟨x, hx, rfl⟩ := ha; exact (hboth x hx).1)
    (by intro a ha; simp only [List.mem_map] at ha; obtain ⟨x, hx, rfl⟩ := ha; exact (hboth x hx).2)
    (by
      have e : (args.map (XArg.larg isPrint d)).map (·.key) = args.map XArg.key := by
        rw [List.map_map]; exact List.map_congr_left (fun x _ => hkey x)
      rw [e]; exact hd)
  have etext : largsText name (args.map (XArg.larg isPrint d)) =
      name ++ ['('] ++ joinWith [',', ' '] (args.map (XArg.write isPrint)) ++ [')'] := by
    have e : (args.map (XArg.larg isPrint d)).map (·.text) = args.map (XArg.write isPrint) := by
      rw [List.map_map]; exact List.map_congr_left (fun x hx => htxt x hx)
    simp [largsText, e]
  have emap : argMap (args.map (XArg.larg isPrint d)) = args.foldl (fun m a => insert a.key a.value m) [] := by
    have e : (args.map (XArg.larg isPrint d)).map LArg.kv = args.map (fun a => (a.key, a.value)) := by
      rw [List.map_map]; exact List.map_congr_left (fun x hx => hkv x hx)
    simp only [argMap, e, List.foldl_map]
  rw [etext, emap] at h
  exact h

end PV.C26
