/-
C26 — generic PEG interpreter (core Lean only).

`PExpr` is the data form of a parsing expression as the `peg` tool normalises it (literal strings
are sequences of single characters, `[^x]` is `!x .`, `e+` is `e e*`).  `Gen.lean` (regenerated
from `pql/pql.peg` on every check) is a table `rule : Nat → PExpr`.

`run rule fuel e s` interprets `e` on the code-point list `s` (the generated Go parser works on
`[]rune(buffer)`), and returns the unconsumed input and the list of *events* in the order in
which the generated parser records its tokens: a capture `<e>` records its text after the events
of `e`, an action records itself, backtracking drops the events of the abandoned branch and
predicates (`&e`, `!e`) record nothing.  `Execute` of the generated parser walks exactly this list.

Fuel is the recursion depth (every recursive call uses one unit); `Res.fuel` is an explicit
third outcome, never a default.
-/
namespace PV.C26

-- `cl!"abc"` is the character list `['a', 'b', 'c']` (a list literal: nothing for the kernel to
-- decode, unlike `"abc".toList`).
open Lean in
macro:max "cl!" s:str : term => do
  let elems ← s.getString.toList.toArray.mapM fun c => `($(Syntax.mkCharLit c))
  `([$elems,*])

/-- `pql.Token` (token.go). -/
inductive Op where
  | ILLEGAL | ASSIGN | EQ | NEQ | LT | LTE | GT | GTE | BETWEEN
  deriving DecidableEq, Repr, Inhabited

/-- A string argument of an action: a Go string literal or the captured `text`. -/
inductive SArg where
  | lit (s : List Char)
  | text
  deriving DecidableEq, Repr

/-- The argument of `p.addVal(..)`. -/
inductive VArg where
  | text
  | null
  | bool (b : Bool)
  | endCall            -- p.addVal(p.endCall())
  deriving DecidableEq, Repr

/-- The actions of pql.peg, i.e. the methods of `pql.Query` in ast.go the grammar calls. -/
inductive Act where
  | startCall (n : SArg)
  | endCall
  | addField (f : SArg)
  | addVal (v : VArg)
  | addNumVal                      -- p.addNumVal(text)
  | addQuotedVal                   -- p.addQuotedVal(text)
  | addPosStr (k : List Char)      -- p.addPosStr(k, text)
  | addPosNum (k : List Char)      -- p.addPosNum(k, text)
  | condAdd                        -- p.condAdd(text)
  | startConditional
  | endConditional
  | startList
  | endList
  | setCond (op : Op)              -- p.addGT() ... p.addBTWN()
  deriving DecidableEq, Repr

inductive PExpr where
  | eps
  | chr (c : Char)
  | rng (lo hi : Char)
  | any
  | seq (a b : PExpr)
  | alt (a b : PExpr)
  | star (e : PExpr)
  | opt (e : PExpr)
  | notP (e : PExpr)
  | andP (e : PExpr)
  | cap (e : PExpr)
  | act (a : Act)
  | ref (i : Nat)
  deriving Repr

/-- A literal string: the sequence of its characters. -/
def lit : List Char → PExpr
  | [] => .eps
  | [c] => .chr c
  | c :: cs => .seq (.chr c) (lit cs)

/-- Sequence / ordered choice of several expressions (right nested). -/
def seqs : List PExpr → PExpr
  | [] => .eps
  | [e] => e
  | e :: es => .seq e (seqs es)

def alts : List PExpr → PExpr
  | [] => .eps
  | [e] => e
  | e :: es => .alt e (alts es)

/-- `e+`. -/
def plus (e : PExpr) : PExpr := .seq e (.star e)

inductive Ev where
  | text (cs : List Char)
  | act (a : Act)
  deriving DecidableEq, Repr

inductive Res where
  | fuel
  | fail
  | ok (rest : List Char) (evs : List Ev)
  deriving DecidableEq, Repr

def run (rule : Nat → PExpr) : Nat → PExpr → List Char → Res
  | 0, _, _ => .fuel
  | n + 1, e, s =>
    match e with
    | .eps => .ok s []
    | .chr c =>
      match s with
      | x :: t => if x = c then .ok t [] else .fail
      | [] => .fail
    | .rng lo hi =>
      match s with
      | x :: t => if lo ≤ x ∧ x ≤ hi then .ok t [] else .fail
      | [] => .fail
    | .any =>
      match s with
      | _ :: t => .ok t []
      | [] => .fail
    | .seq a b =>
      match run rule n a s with
      | .ok s1 e1 =>
        match run rule n b s1 with
        | .ok s2 e2 => .ok s2 (e1 ++ e2)
        | r => r
      | r => r
    | .alt a b =>
      match run rule n a s with
      | .fail => run rule n b s
      | r => r
    | .star a =>
      match run rule n a s with
      | .fail => .ok s []
      | .fuel => .fuel
      | .ok s1 e1 =>
        match run rule n (.star a) s1 with
        | .ok s2 e2 => .ok s2 (e1 ++ e2)
        | r => r
    | .opt a =>
      match run rule n a s with
      | .fail => .ok s []
      | r => r
    | .notP a =>
      match run rule n a s with
      | .fail => .ok s []
      | .ok _ _ => .fail
      | .fuel => .fuel
    | .andP a =>
      match run rule n a s with
      | .ok _ _ => .ok s []
      | r => r
    | .cap a =>
      match run rule n a s with
      | .ok s1 e1 => .ok s1 (e1 ++ [.text (s.take (s.length - s1.length))])
      | r => r
    | .act a => .ok s [.act a]
    | .ref i => run rule n (rule i) s

/-! ### Static well-formedness of a rule table (checked by `decide` on the regenerated table)

`nullable` over-approximates "can succeed without consuming input"; `leftRefs` lists the rules
that can be entered before any input is consumed.  The table is accepted when no rule reaches
itself through `leftRefs` (no left recursion) and no `star` has a nullable body (the generated
Go parser would loop forever on such a star). -/

def nullableE (nullRule : Nat → Bool) : PExpr → Bool
  | .eps => true
  | .chr _ => false
  | .rng _ _ => false
  | .any => false
  | .seq a b => nullableE nullRule a && nullableE nullRule b
  | .alt a b => nullableE nullRule a || nullableE nullRule b
  | .star _ => true
  | .opt _ => true
  | .notP _ => true
  | .andP _ => true
  | .cap a => nullableE nullRule a
  | .act _ => true
  | .ref i => nullRule i

/-- Iterate the nullable computation `k` times starting from "nothing is nullable". -/
def nullTable (rule : Nat → PExpr) (nRules : Nat) : Nat → List Bool
  | 0 => List.replicate nRules false
  | k + 1 =>
    let prev := nullTable rule nRules k
    (List.range nRules).map (fun i => nullableE (fun j => prev.getD j false) (rule i))

def leftRefsE (nullRule : Nat → Bool) : PExpr → List Nat
  | .seq a b => leftRefsE nullRule a ++ (if nullableE nullRule a then leftRefsE nullRule b else [])
  | .alt a b => leftRefsE nullRule a ++ leftRefsE nullRule b
  | .star a => leftRefsE nullRule a
  | .opt a => leftRefsE nullRule a
  | .notP a => leftRefsE nullRule a
  | .andP a => leftRefsE nullRule a
  | .cap a => leftRefsE nullRule a
  | .ref i => [i]
  | _ => []

def starsOkE (nullRule : Nat → Bool) : PExpr → Bool
  | .seq a b => starsOkE nullRule a && starsOkE nullRule b
  | .alt a b => starsOkE nullRule a && starsOkE nullRule b
  | .star a => !nullableE nullRule a && starsOkE nullRule a
  | .opt a => starsOkE nullRule a
  | .notP a => starsOkE nullRule a
  | .andP a => starsOkE nullRule a
  | .cap a => starsOkE nullRule a
  | _ => true

/-- All rule references stay inside the table. -/
def refsInE (nRules : Nat) : PExpr → Bool
  | .seq a b => refsInE nRules a && refsInE nRules b
  | .alt a b => refsInE nRules a && refsInE nRules b
  | .star a => refsInE nRules a
  | .opt a => refsInE nRules a
  | .notP a => refsInE nRules a
  | .andP a => refsInE nRules a
  | .cap a => refsInE nRules a
  | .ref i => i < nRules
  | _ => true

/-- Rules reachable from `frontier` through left references in at most `k` steps. -/
def leftReach (left : Nat → List Nat) : Nat → List Nat → List Nat
  | 0, fr => fr
  | k + 1, fr => fr ++ leftReach left k (fr.flatMap left).eraseDups

def wellFormed (rule : Nat → PExpr) (nRules : Nat) : Bool :=
  let nt := nullTable rule nRules nRules
  let nr : Nat → Bool := fun j => nt.getD j false
  let left : Nat → List Nat := fun i => (leftRefsE nr (rule i)).eraseDups
  (List.range nRules).all (fun i =>
    refsInE nRules (rule i) && starsOkE nr (rule i) &&
    !((leftReach left nRules (left i)).contains i))

end PV.C26
