/-
C26 — written values (`LVal`): text, events, denoted value, with a syntax half (`LVal.Syn`/`ISyn`: what
`value`/`item` reads) and a semantics half (`LVal.Sem`/`Sem0`/`SemL`: what the action machine stores,
alone, without a pending condition, as a list element), and one `LVal.Item` instance per literal class.
(Split from LemmasLits.lean so that the forward fragment can use lists of such values.)
Core Lean only.
-/
import PV.C26.LemmasPql
import PV.C26.LemmasLit
import PV.C26.LemmasItems
namespace PV.C26
open Gen

/-- A written value: its text, the events the grammar records, the value it denotes. -/
structure LVal where
  text : List Char
  evs : List Ev
  val : Val

/-- The stored value when a condition operator is pending. -/
def condWrap (c : Op) (v : Val) : Val := if c = .ILLEGAL then v else .cond c v

def LVal.Syn (v : LVal) : Prop :=
  (∀ s, NoWs (v.text ++ s)) ∧ ∀ d r, (d = ',' ∨ d = ')') → P (.ref R.value) (v.text ++ d :: r) (d :: r) v.evs

def LVal.Sem (v : LVal) : Prop :=
  ∀ (q : QState) (e : Elem) (rest : List Elem) (evs' : List Ev) (k : Key),
    q.stack = e :: rest → e.lastField = k → k ≠ [] → e.inList = false → lookup k e.args = none →
    ∃ t, exec (v.evs ++ evs') q =
      exec evs' { q with text := t,
                         stack := { e with args := insert k (condWrap e.lastCond v.val) e.args,
                                           lastField := [], lastCond := .ILLEGAL, inList := false } :: rest }

/-- The same with no condition operator pending (all `key=value` needs). -/
def LVal.Sem0 (v : LVal) : Prop :=
  ∀ (q : QState) (e : Elem) (rest : List Elem) (evs' : List Ev) (k : Key),
    q.stack = e :: rest → e.lastField = k → k ≠ [] → e.inList = false → e.lastCond = .ILLEGAL → lookup k e.args = none →
    ∃ t, exec (v.evs ++ evs') q =
      exec evs' { q with text := t,
                         stack := { e with args := insert k v.val e.args,
                                           lastField := [], lastCond := .ILLEGAL, inList := false } :: rest }

theorem LVal.Sem.sem0 {v : LVal} (h : v.Sem) : v.Sem0 := by
  intro q e rest evs' k hq hf hk hin hc hl
  obtain ⟨t, ht⟩ := h q e rest evs' k hq hf hk hin hl
  exact ⟨t, by rw [ht]; simp [condWrap, hc]⟩

/-- In a list: the value is appended to the list under the pending key (`num`: also when the list
is the operand of a condition, which only numeric elements support). -/
def LVal.SemL (v : LVal) (num : Bool) : Prop :=
  ∀ (q : QState) (e : Elem) (rest : List Elem) (evs' : List Ev) (k : Key) (m0 : List (Key × Val)) (acc : List Val),
    q.stack = e :: rest → e.lastField = k → k ≠ [] → e.inList = true → (num = false → e.lastCond = .ILLEGAL) →
    e.args = insert k (wrapList e.lastCond acc) m0 →
    ∃ t, exec (v.evs ++ evs') q =
      exec evs' { q with text := t,
                         stack := { e with args := insert k (wrapList e.lastCond (acc ++ [v.val])) m0 } :: rest }

/-! ### Semantics by action -/

theorem sem_num (t : List Char) (nv : Val) (h : numVal t = .ok nv) :
    LVal.Sem ⟨t, [.text t, .act .addNumVal], nv⟩ := by
  intro q e rest evs' k hq hf hk hin hl
  refine ⟨t, ?_⟩
  simp only [List.cons_append, List.nil_append]
  rw [exec_text]
  refine exec_act_ok evs' ?_
  simp only [stepAct, addNumVal, hq, hf, h]
  by_cases hc : e.lastCond = .ILLEGAL <;> simp [hk, hin, hl, hc, condWrap, bind, Except.bind]

theorem sem_null : LVal.Sem ⟨cl!"null", [.act (.addVal .null)], .null⟩ := by
  intro q e rest evs' k hq hf hk hin hl
  refine ⟨q.text, ?_⟩
  simp only [List.cons_append, List.nil_append]
  refine exec_act_ok evs' ?_
  simp only [stepAct, addVal, hq, hf]
  by_cases hc : e.lastCond = .ILLEGAL <;> simp [hk, hin, hl, hc, condWrap]

theorem sem_bool (b : Bool) :
    LVal.Sem ⟨(if b then cl!"true" else cl!"false"), [.act (.addVal (.bool b))], .bool b⟩ := by
  intro q e rest evs' k hq hf hk hin hl
  refine ⟨q.text, ?_⟩
  simp only [List.cons_append, List.nil_append]
  refine exec_act_ok evs' ?_
  simp only [stepAct, addVal, hq, hf]
  by_cases hc : e.lastCond = .ILLEGAL <;> simp [hk, hin, hl, hc, condWrap]

/-- `text w; addVal(text)`: single-quoted strings, bare words, timestamps. -/
theorem sem_textVal (shown w : List Char) : LVal.Sem ⟨shown, [.text w, .act (.addVal .text)], .str (utf8s w)⟩ := by
  intro q e rest evs' k hq hf hk hin hl
  refine ⟨w, ?_⟩
  simp only [List.cons_append, List.nil_append]
  rw [exec_text]
  refine exec_act_ok evs' ?_
  simp only [stepAct, addVal, hq, hf]
  by_cases hc : e.lastCond = .ILLEGAL <;> simp [hk, hin, hl, hc, condWrap]

/-- `text lit; addQuotedVal(text)`: double-quoted strings. -/
theorem sem_quoted (lit : List Char) (bs : Bytes) (h : unquote lit = some bs) :
    LVal.Sem ⟨lit, [.text lit, .act .addQuotedVal], .str bs⟩ := by
  intro q e rest evs' k hq hf hk hin hl
  refine ⟨lit, ?_⟩
  simp only [List.cons_append, List.nil_append]
  rw [exec_text]
  refine exec_act_ok evs' ?_
  simp only [stepAct, h, addVal, hq, hf]
  by_cases hc : e.lastCond = .ILLEGAL <;> simp [hk, hin, hl, hc, condWrap]

theorem semL_num (t : List Char) (nv : Val) (h : numVal t = .ok nv) :
    LVal.SemL ⟨t, [.text t, .act .addNumVal], nv⟩ true := by
  intro q e rest evs' k m0 acc hq hf hk hin _ ha
  refine ⟨t, ?_⟩
  simp only [List.cons_append, List.nil_append]
  rw [exec_text]
  refine exec_act_ok evs' ?_
  simp only [stepAct, addNumVal, hq, hf, h]
  by_cases hc : e.lastCond = .ILLEGAL <;>
    simp [hk, hin, hc, ha, wrapList, lookup_insert_self, insert_insert, bind, Except.bind]

theorem semL_null : LVal.SemL ⟨cl!"null", [.act (.addVal .null)], .null⟩ false := by
  intro q e rest evs' k m0 acc hq hf hk hin hc ha
  have hc := hc rfl
  refine ⟨q.text, ?_⟩
  simp only [List.cons_append, List.nil_append]
  refine exec_act_ok evs' ?_
  simp [stepAct, addVal, hq, hf, hk, hin, hc, ha, wrapList, lookup_insert_self, insert_insert]

theorem semL_bool (b : Bool) :
    LVal.SemL ⟨(if b then cl!"true" else cl!"false"), [.act (.addVal (.bool b))], .bool b⟩ false := by
  intro q e rest evs' k m0 acc hq hf hk hin hc ha
  have hc := hc rfl
  refine ⟨q.text, ?_⟩
  simp only [List.cons_append, List.nil_append]
  refine exec_act_ok evs' ?_
  simp [stepAct, addVal, hq, hf, hk, hin, hc, ha, wrapList, lookup_insert_self, insert_insert]

theorem semL_textVal (shown w : List Char) :
    LVal.SemL ⟨shown, [.text w, .act (.addVal .text)], .str (utf8s w)⟩ false := by
  intro q e rest evs' k m0 acc hq hf hk hin hc ha
  have hc := hc rfl
  refine ⟨w, ?_⟩
  simp only [List.cons_append, List.nil_append]
  rw [exec_text]
  refine exec_act_ok evs' ?_
  simp [stepAct, addVal, hq, hf, hk, hin, hc, ha, wrapList, lookup_insert_self, insert_insert]

theorem semL_quoted (lit : List Char) (bs : Bytes) (h : unquote lit = some bs) :
    LVal.SemL ⟨lit, [.text lit, .act .addQuotedVal], .str bs⟩ false := by
  intro q e rest evs' k m0 acc hq hf hk hin hc ha
  have hc := hc rfl
  refine ⟨lit, ?_⟩
  simp only [List.cons_append, List.nil_append]
  rw [exec_text]
  refine exec_act_ok evs' ?_
  simp [stepAct, h, addVal, hq, hf, hk, hin, hc, ha, wrapList, lookup_insert_self, insert_insert]

/-! ### The literal classes -/

/-- Item-level syntax (`kw`: a keyword literal, recognised only before `,` and `)`). -/
def LVal.ISyn (v : LVal) (kw : Bool) : Prop :=
  (∀ s, NoWs (v.text ++ s)) ∧
  ∀ d r, (d = ',' ∨ d = ')' ∨ (kw = false ∧ d = ']')) → P (.ref R.item) (v.text ++ d :: r) (d :: r) v.evs

theorem LVal.ISyn.syn {v : LVal} {kw : Bool} (h : v.ISyn kw) : v.Syn :=
  ⟨h.1, fun d r hd => value_of_item (h.2 d r (by rcases hd with rfl | rfl <;> simp))⟩

/-- A literal that may stand alone or as a list element. -/
structure LVal.Item (v : LVal) (kw num : Bool) : Prop where
  isyn : v.ISyn kw
  sem : v.Sem
  semL : v.SemL num

theorem delim3 {d : Char} (hd : d = ',' ∨ d = ')' ∨ (false = false ∧ d = ']')) : Delim d := by
  rcases hd with rfl | rfl | ⟨_, rfl⟩ <;> simp [Delim]

theorem noWs_of_head {c : Char} {t : List Char} (h : isWs c = false) : NoWs (c :: t) := by
  simpa [NoWs] using h

/-- Integers as written: an optional `-` and one or more digits (leading zeros, `-0` included). -/
def intLit (neg : Bool) (ds : List Char) : LVal :=
  ⟨signText neg ++ ds, [.text (signText neg ++ ds), .act .addNumVal],
    .int (if neg then - (parseNat ds : Int) else (parseNat ds : Int))⟩

theorem signed_noWs (neg : Bool) (ds : List Char) (hne : ds ≠ []) (hall : ∀ c ∈ ds, isDigit c = true)
    (s : List Char) : NoWs (signText neg ++ ds ++ s) := by
  obtain ⟨x, t, hx, hxc⟩ := num_text_head neg ds s hne hall
  rw [hx]
  rcases hxc with rfl | hxd
  · simp [NoWs, isWs]
  · simp only [NoWs]
    cases hw : isWs x with
    | false => rfl
    | true =>
      simp only [isWs, Bool.or_eq_true, decide_eq_true_eq] at hw
      rcases hw with (rfl | rfl) | rfl <;> simp [isDigit] at hxd

theorem signed_no_dot (neg : Bool) (ds : List Char) (hall : ∀ c ∈ ds, isDigit c = true) :
    '.' ∉ signText neg ++ ds := by
  intro hm
  simp only [List.mem_append] at hm
  rcases hm with hm | hm
  · cases neg <;> simp [signText] at hm
  · have := hall _ hm; simp [isDigit] at this

theorem parseIntText_signed (neg : Bool) (ds : List Char) (hne : ds ≠ []) (hall : ∀ c ∈ ds, isDigit c = true) :
    parseIntText (signText neg ++ ds) = if neg then - (parseNat ds : Int) else (parseNat ds : Int) := by
  cases neg with
  | true => simp [signText, parseIntText]
  | false =>
    cases ds with
    | nil => exact absurd rfl hne
    | cons c cs =>
      have hc : c ≠ '-' := isDigit_ne_minus c (hall c (by simp))
      simp only [signText, List.nil_append, Bool.false_eq_true, if_false]
      rw [parseIntText]
      intro ds' e; exact hc (by cases e; rfl)

theorem numVal_signed (neg : Bool) (ds : List Char) (hne : ds ≠ []) (hall : ∀ c ∈ ds, isDigit c = true)
    (hr : minInt64 ≤ (if neg then - (parseNat ds : Int) else (parseNat ds : Int)) ∧
      (if neg then - (parseNat ds : Int) else (parseNat ds : Int)) ≤ maxInt64) :
    numVal (signText neg ++ ds) = .ok (.int (if neg then - (parseNat ds : Int) else (parseNat ds : Int))) := by
  simp [numVal, signed_no_dot neg ds hall, parseInt64, parseIntText_signed neg ds hne hall, hr.1, hr.2]

/-- An integer literal within the int64 range is stored as that int64. -/
theorem intLit_item (neg : Bool) (ds : List Char) (hne : ds ≠ []) (hall : ∀ c ∈ ds, isDigit c = true)
    (hr : minInt64 ≤ (if neg then - (parseNat ds : Int) else (parseNat ds : Int)) ∧
      (if neg then - (parseNat ds : Int) else (parseNat ds : Int)) ≤ maxInt64) : (intLit neg ds).Item false true :=
  ⟨⟨signed_noWs neg ds hne hall, fun d r hd => item_int_ok neg ds r d hne hall (delim3 hd)⟩,
   sem_num _ _ (numVal_signed neg ds hne hall hr), semL_num _ _ (numVal_signed neg ds hne hall hr)⟩

/-- Floats (`-?d+.d*`, `-?.d+`): the value is the written decimal, opaque (normalised text). -/
def floatLit (neg : Bool) (ip fp : List Char) : LVal :=
  ⟨floatText neg ip fp, [.text (floatText neg ip fp), .act .addNumVal], .float (normDec (floatText neg ip fp))⟩

theorem numVal_float (neg : Bool) (ip fp : List Char) :
    numVal (floatText neg ip fp) = .ok (.float (normDec (floatText neg ip fp))) := by
  simp [numVal, floatText]

theorem floatText_noWs (neg : Bool) (ip fp s : List Char) (hip : ∀ c ∈ ip, isDigit c = true) :
    NoWs (floatText neg ip fp ++ s) := by
  cases neg with
  | true => simp [floatText, signText, NoWs, isWs]
  | false =>
    cases ip with
    | nil => simp [floatText, signText, NoWs, isWs]
    | cons x t =>
      have hx := hip x (by simp)
      simp only [floatText, signText, Bool.false_eq_true, if_false, List.nil_append, List.cons_append, NoWs]
      cases hw : isWs x with
      | false => rfl
      | true =>
        simp only [isWs, Bool.or_eq_true, decide_eq_true_eq] at hw
        rcases hw with (rfl | rfl) | rfl <;> simp [isDigit] at hx

theorem floatLit_item (neg : Bool) (ip fp : List Char) (hip : ∀ c ∈ ip, isDigit c = true)
    (hfp : ∀ c ∈ fp, isDigit c = true) (hne : ip ≠ [] ∨ fp ≠ []) : (floatLit neg ip fp).Item false true := by
  refine ⟨⟨fun s => floatText_noWs neg ip fp s hip, fun d r hd => ?_⟩,
    sem_num _ _ (numVal_float neg ip fp), semL_num _ _ (numVal_float neg ip fp)⟩
  by_cases h : ip = []
  · subst h
    have hf : fp ≠ [] := by rcases hne with h | h; exact absurd rfl h; exact h
    exact item_float2_ok neg fp r d hf hfp (delim3 hd)
  · exact item_float1_ok neg ip fp r d h hip hfp (delim3 hd)

theorem kwDelim {d : Char} (hd : d = ',' ∨ d = ')' ∨ (true = false ∧ d = ']')) : d = ',' ∨ d = ')' := by
  rcases hd with h | h | ⟨h, _⟩
  · exact Or.inl h
  · exact Or.inr h
  · exact absurd h (by decide)

theorem nullLit_item : LVal.Item ⟨cl!"null", [.act (.addVal .null)], .null⟩ true false :=
  ⟨⟨fun s => by simp [NoWs, isWs], fun d r hd => item_null_ok d r (kwDelim hd)⟩, sem_null, semL_null⟩

theorem boolLit_item (b : Bool) :
    LVal.Item ⟨(if b then cl!"true" else cl!"false"), [.act (.addVal (.bool b))], .bool b⟩ true false := by
  refine ⟨?_, sem_bool b, semL_bool b⟩
  cases b with
  | true => exact ⟨fun s => by simp [NoWs, isWs], fun d r hd => item_true_ok d r (kwDelim hd)⟩
  | false => exact ⟨fun s => by simp [NoWs, isWs], fun d r hd => item_false_ok d r (kwDelim hd)⟩

/-- Timestamps `yyyy-mm-ddThh:mm`, bare or in either quote style: the sixteen characters. -/
def tsLit (st : TsStyle) (w : List Char) : LVal :=
  ⟨Lit.write (.ts st w), [.text w, .act (.addVal .text)], .str (utf8s w)⟩

theorem tsLit_item (st : TsStyle) (w : List Char) (h : tsShape w = true) : (tsLit st w).Item false false := by
  refine ⟨⟨fun s => ?_, fun d r _ => item_ts_ok st w (d :: r) h⟩, sem_textVal _ w, semL_textVal _ w⟩
  obtain ⟨c, t, htext, _, _, _, hws⟩ := ts_write_head st w s h
  simp only [tsLit]
  rw [htext]; exact noWs_of_head hws

/-- Single-quoted strings without escapes: the characters between the quotes, all of Unicode. -/
def sqLit (w : List Char) : LVal :=
  ⟨'\'' :: (w ++ ['\'']), [.text w, .act (.addVal .text)], .str (utf8s w)⟩

theorem sqLit_item (w : List Char) (h : sqPlain w) : (sqLit w).Item false false := by
  refine ⟨⟨fun s => by simp [sqLit, NoWs, isWs], fun d r _ => ?_⟩, sem_textVal _ w, semL_textVal _ w⟩
  have := item_sq_ok w (d :: r) h
  simpa [sqLit] using this

/-! Double-quoted strings. -/

theorem octDigit_plain : ∀ d, d < 8 → octDigit d ≠ '"' ∧ octDigit d ≠ '\\' := by decide

theorem dqOk_dqItems (items : List DqItem) (hok : ∀ it ∈ items, it.ok = true) :
    dqOk (items.flatMap DqItem.write) = true := by
  induction items with
  | nil => rfl
  | cons it rest ih =>
    have ihh := ih (fun x hx => hok x (by simp [hx]))
    have hk := hok it (by simp)
    simp only [List.flatMap_cons]
    cases it with
    | ch c =>
      simp only [DqItem.ok, Bool.and_eq_true, decide_eq_true_eq, ne_eq] at hk
      simp only [DqItem.write, List.cons_append, List.nil_append]
      rw [dqOk_plain c _ hk.1.1 hk.1.2]; exact ihh
    | esc c =>
      simp only [DqItem.ok, escLetters, List.contains_iff_mem, List.mem_cons, List.not_mem_nil, or_false] at hk
      simp only [DqItem.write, List.cons_append, List.nil_append]
      rcases hk with rfl | rfl | rfl | rfl | rfl | rfl | rfl | rfl | rfl <;>
        first
          | (rw [dqOk_esc _ _ (by decide) (by decide)]; exact ihh)
          | (rw [dqOk]; exact ihh)
    | hex b =>
      simp only [DqItem.write, List.cons_append]
      rw [dqOk_esc _ _ (by decide) (by decide), dqOk_hex2]; exact ihh
    | oct b =>
      simp only [DqItem.write, List.cons_append, List.nil_append]
      obtain ⟨a1, a2⟩ := octDigit_plain (b / 64 % 8) (by omega)
      obtain ⟨b1, b2⟩ := octDigit_plain (b / 8 % 8) (by omega)
      obtain ⟨c1, c2⟩ := octDigit_plain (b % 8) (by omega)
      rw [dqOk_esc _ _ a1 a2, dqOk_plain _ _ b1 b2, dqOk_plain _ _ c1 c2]; exact ihh
    | u4 cp =>
      simp only [DqItem.write, List.cons_append]
      rw [dqOk_esc _ _ (by decide) (by decide), dqOk_hex4]; exact ihh
    | u8 cp =>
      simp only [DqItem.write, List.cons_append]
      rw [dqOk_esc _ _ (by decide) (by decide), dqOk_hex8]; exact ihh

/-- A double-quoted string written from items (characters and Go escapes). -/
def dqLit (items : List DqItem) : LVal :=
  let w := items.flatMap DqItem.write
  ⟨'"' :: (w ++ ['"']),
   if tsShape w then [.text w, .act (.addVal .text)] else [.text ('"' :: (w ++ ['"'])), .act .addQuotedVal],
   .str (items.flatMap DqItem.value)⟩

theorem dqLit_item (items : List DqItem) (hok : ∀ it ∈ items, it.ok = true) :
    (dqLit items).Item false false := by
  have hdq := dqOk_dqItems items hok
  have hun := unquote_dqItems items hok
  cases hsh : tsShape (items.flatMap DqItem.write) with
  | true =>
    have hval : items.flatMap DqItem.value = utf8s (items.flatMap DqItem.write) := by
      have h2 := unquote_plain _ (tsShape_plain _ hsh)
      rw [hun] at h2
      exact Option.some.inj h2
    have e : dqLit items = ⟨'"' :: (items.flatMap DqItem.write ++ ['"']),
        [.text (items.flatMap DqItem.write), .act (.addVal .text)], .str (utf8s (items.flatMap DqItem.write))⟩ := by
      simp [dqLit, hsh, hval]
    rw [e]
    refine ⟨⟨fun s => by simp [NoWs, isWs], fun d r _ => ?_⟩, sem_textVal _ _, semL_textVal _ _⟩
    rcases item_dq_ok' (items.flatMap DqItem.write) (d :: r) hdq with ⟨h1, _⟩ | ⟨_, h2⟩
    · rw [hsh] at h1; exact absurd h1 (by simp)
    · simpa using h2
  | false =>
    have e : dqLit items = ⟨'"' :: (items.flatMap DqItem.write ++ ['"']),
        [.text ('"' :: (items.flatMap DqItem.write ++ ['"'])), .act .addQuotedVal],
        .str (items.flatMap DqItem.value)⟩ := by
      simp [dqLit, hsh]
    rw [e]
    refine ⟨⟨fun s => by simp [NoWs, isWs], fun d r _ => ?_⟩, sem_quoted _ _ hun, semL_quoted _ _ hun⟩
    rcases item_dq_ok' (items.flatMap DqItem.write) (d :: r) hdq with ⟨_, h1⟩ | ⟨h2, _⟩
    · simpa using h1
    · rw [hsh] at h2; exact absurd h2 (by simp)

end PV.C26
