/-
C26 — the remaining `item` alternatives of the regenerated grammar, as parse lemmas:
timestamps (three quote styles), floats (both numeric alternatives), single-quoted strings,
double-quoted strings whatever their content, and the numeric forms.  Core Lean only.
-/
import PV.C26.LemmasPql
import PV.C26.Spec
namespace PV.C26
open Gen

/-! ### Sequences of one-character classes (`timestampbasicfmt`) -/

/-- An expression that reads exactly one character of a class. -/
structure Cls where
  e : PExpr
  p : Char → Bool

def Cls.Ok (c : Cls) : Prop :=
  (∀ x t, c.p x = true → P c.e (x :: t) t []) ∧ F c.e [] ∧ (∀ x t, c.p x = false → F c.e (x :: t))

/-- The text is exactly one character of each class. -/
def matchCls : List Cls → List Char → Bool
  | [], [] => true
  | c :: cs, x :: t => c.p x && matchCls cs t
  | _, _ => false

/-- The text begins with one character of each class. -/
def prefixCls : List Cls → List Char → Bool
  | [], _ => true
  | c :: cs, x :: t => c.p x && prefixCls cs t
  | _ :: _, [] => false

theorem clsSeq_ok (cs : List Cls) (hne : cs ≠ []) (hok : ∀ c ∈ cs, c.Ok) (w r : List Char)
    (h : matchCls cs w = true) : P (seqs (cs.map (·.e))) (w ++ r) r [] := by
  induction cs generalizing w with
  | nil => exact absurd rfl hne
  | cons c cs' ih =>
    cases w with
    | nil => simp [matchCls] at h
    | cons x t =>
      simp only [matchCls, Bool.and_eq_true] at h
      have h1 := (hok c (by simp)).1 x (t ++ r) h.1
      cases cs' with
      | nil =>
        cases t with
        | nil => simpa [seqs] using h1
        | cons _ _ => simp [matchCls] at h
      | cons c' cs'' =>
        have h2 := ih (by simp) (fun c hc => hok c (by simp [hc])) t h.2
        have := Parses.seq h1 h2
        simpa [seqs] using this

theorem clsSeq_fails (cs : List Cls) (hne : cs ≠ []) (hok : ∀ c ∈ cs, c.Ok) (s : List Char)
    (h : prefixCls cs s = false) : F (seqs (cs.map (·.e))) s := by
  induction cs generalizing s with
  | nil => exact absurd rfl hne
  | cons c cs' ih =>
    obtain ⟨hc1, hc2, hc3⟩ := hok c (by simp)
    cases cs' with
    | nil =>
      simp only [List.map_cons, List.map_nil, seqs]
      cases s with
      | nil => exact hc2
      | cons x t =>
        simp only [prefixCls, Bool.and_true] at h
        exact hc3 x t h
    | cons c' cs'' =>
      simp only [List.map_cons, seqs]
      cases s with
      | nil => exact Fails.seq_left hc2
      | cons x t =>
        cases hx : c.p x with
        | false => exact Fails.seq_left (hc3 x t hx)
        | true =>
          simp only [prefixCls, hx, Bool.true_and] at h
          have := ih (by simp) (fun c hc => hok c (by simp [hc])) t (by simpa [prefixCls] using h)
          exact Fails.seq_right (hc1 x t hx) (by simpa using this)

theorem prefixCls_split (cs : List Cls) (s : List Char) (h : prefixCls cs s = true) :
    ∃ w r, s = w ++ r ∧ matchCls cs w = true := by
  induction cs generalizing s with
  | nil => exact ⟨[], s, rfl, rfl⟩
  | cons c cs' ih =>
    cases s with
    | nil => simp [prefixCls] at h
    | cons x t =>
      simp only [prefixCls, Bool.and_eq_true] at h
      obtain ⟨w, r, rfl, hw⟩ := ih t h.2
      exact ⟨x :: w, r, rfl, by simp [matchCls, h.1, hw]⟩

theorem matchCls_prefix (cs : List Cls) (w r : List Char) (h : matchCls cs w = true) :
    prefixCls cs (w ++ r) = true := by
  induction cs generalizing w with
  | nil => rfl
  | cons c cs' ih =>
    cases w with
    | nil => simp [matchCls] at h
    | cons x t =>
      simp only [matchCls, Bool.and_eq_true] at h
      simp [prefixCls, h.1, ih t h.2]

theorem matchCls_length (cs : List Cls) (w : List Char) (h : matchCls cs w = true) : w.length = cs.length := by
  induction cs generalizing w with
  | nil => cases w <;> simp_all [matchCls]
  | cons c cs' ih =>
    cases w with
    | nil => simp [matchCls] at h
    | cons x t =>
      simp only [matchCls, Bool.and_eq_true] at h
      simp [ih t h.2]

theorem matchCls_all (cs : List Cls) (w : List Char) (q : Char → Bool) (hq : ∀ c ∈ cs, ∀ x, c.p x = true → q x = true)
    (h : matchCls cs w = true) : ∀ x ∈ w, q x = true := by
  induction cs generalizing w with
  | nil => cases w <;> simp_all [matchCls]
  | cons c cs' ih =>
    cases w with
    | nil => simp
    | cons x t =>
      simp only [matchCls, Bool.and_eq_true] at h
      intro y hy
      simp only [List.mem_cons] at hy
      rcases hy with rfl | hy
      · exact hq c (by simp) _ h.1
      · exact ih t (fun c hc => hq c (by simp [hc])) h.2 y hy

def clsDigit : Cls := ⟨.rng '0' '9', isDigit⟩
def clsChr (c : Char) : Cls := ⟨.chr c, fun x => x = c⟩
def cls01 : Cls := ⟨.alt (.chr '0') (.chr '1'), fun x => x = '0' || x = '1'⟩
def cls03 : Cls := ⟨.rng '0' '3', fun x => '0' ≤ x && x ≤ '3'⟩

theorem clsDigit_ok : clsDigit.Ok :=
  ⟨fun x t h => digit_ok x t h, Fails.rng_nil _ _, fun x t h => digit_fails (x :: t) (by simpa [NotHead, clsDigit] using h)⟩

theorem clsChr_ok (c : Char) : (clsChr c).Ok := by
  refine ⟨fun x t h => ?_, Fails.chr_nil _, fun x t h => Fails.chr_ne t (by simpa [clsChr] using h)⟩
  have : x = c := by simpa [clsChr] using h
  subst this; exact Parses.chr _ _

theorem cls01_ok : cls01.Ok := by
  refine ⟨fun x t h => ?_, Fails.alt (Fails.chr_nil _) (Fails.chr_nil _), fun x t h => ?_⟩
  · simp only [cls01, Bool.or_eq_true, decide_eq_true_eq] at h
    rcases h with rfl | rfl
    · exact Parses.alt_left (Parses.chr _ _)
    · exact Parses.alt_right (Fails.chr_ne _ (by decide)) (Parses.chr _ _)
  · simp only [cls01, Bool.or_eq_false_iff, decide_eq_false_iff_not] at h
    exact Fails.alt (Fails.chr_ne _ h.1) (Fails.chr_ne _ h.2)

theorem cls03_ok : cls03.Ok := by
  refine ⟨fun x t h => ?_, Fails.rng_nil _ _, fun x t h => ?_⟩
  · simp only [cls03, Bool.and_eq_true, decide_eq_true_eq] at h
    exact Parses.rng t h
  · refine Fails.rng_ne t ?_
    intro hh
    simp [cls03, hh.1, hh.2] at h

/-- `yyyy-mm-ddThh:mm` as the grammar writes it. -/
def tsClasses : List Cls :=
  [clsDigit, clsDigit, clsDigit, clsDigit, clsChr '-', cls01, clsDigit, clsChr '-', cls03, clsDigit,
   clsChr 'T', clsDigit, clsDigit, clsChr ':', clsDigit, clsDigit]

theorem tsClasses_ok : ∀ c ∈ tsClasses, c.Ok := by
  intro c hc
  simp only [tsClasses, List.mem_cons, List.not_mem_nil, or_false] at hc
  rcases hc with rfl | rfl | rfl | rfl | rfl | rfl | rfl | rfl | rfl | rfl | rfl | rfl | rfl | rfl | rfl | rfl <;>
    first | exact clsDigit_ok | exact clsChr_ok _ | exact cls01_ok | exact cls03_ok

/-- The sixteen characters of a timestamp literal. -/
def tsShape (w : List Char) : Bool := matchCls tsClasses w
/-- The text begins with a timestamp literal. -/
def tsHead (s : List Char) : Bool := prefixCls tsClasses s

theorem e_ts_eq : e_timestampbasicfmt = seqs (tsClasses.map (·.e)) := rfl

theorem tsbasic_ok (w r : List Char) (h : tsShape w = true) : P (.ref R.timestampbasicfmt) (w ++ r) r [] := by
  apply Parses.ref
  show P e_timestampbasicfmt _ _ _
  rw [e_ts_eq]
  exact clsSeq_ok tsClasses (by simp [tsClasses]) tsClasses_ok w r h

theorem tsbasic_fails' (s : List Char) (h : tsHead s = false) : F (.ref R.timestampbasicfmt) s := by
  apply Fails.ref
  show F e_timestampbasicfmt _
  rw [e_ts_eq]
  exact clsSeq_fails tsClasses (by simp [tsClasses]) tsClasses_ok s h

theorem tsShape_head (w : List Char) (h : tsShape w = true) : ∃ x t, w = x :: t ∧ isDigit x = true := by
  cases w with
  | nil => simp [tsShape, tsClasses, matchCls] at h
  | cons x t =>
    refine ⟨x, t, rfl, ?_⟩
    simp only [tsShape, tsClasses, matchCls, Bool.and_eq_true] at h
    exact h.1

theorem tsfmt_ok (st : TsStyle) (w r : List Char) (h : tsShape w = true) :
    P (.ref R.timestampfmt) (Lit.write (.ts st w) ++ r) r [.text w] := by
  apply Parses.ref
  show P e_timestampfmt _ _ _
  simp only [e_timestampfmt, seqs, alts, lit]
  cases st with
  | bare =>
    obtain ⟨x, t, rfl, hx⟩ := tsShape_head w h
    obtain ⟨_, _, _, h4, h5, _⟩ := digit_facts hx
    have hc := Parses.cap_prefix (tsbasic_ok (x :: t) r h)
    exact Parses.alt_right (Fails.seq_left (Fails.chr_ne (t ++ r) h4))
      (Parses.alt_right (Fails.seq_left (Fails.chr_ne (t ++ r) h5)) (by simpa [Lit.write] using hc))
  | dq =>
    have hc := Parses.cap_prefix (tsbasic_ok w ('"' :: r) h)
    have := Parses.seq (Parses.chr '"' (w ++ '"' :: r)) (Parses.seq hc (Parses.chr '"' r))
    exact Parses.alt_left (by simpa [Lit.write] using this)
  | sq =>
    have hc := Parses.cap_prefix (tsbasic_ok w ('\'' :: r) h)
    have := Parses.seq (Parses.chr '\'' (w ++ '\'' :: r)) (Parses.seq hc (Parses.chr '\'' r))
    exact Parses.alt_right (Fails.seq_left (by simpa [Lit.write] using Fails.chr_ne (c := '"') (x := '\'') (w ++ '\'' :: r) (by decide)))
      (Parses.alt_left (by simpa [Lit.write] using this))

theorem ts_write_head (st : TsStyle) (w s : List Char) (h : tsShape w = true) :
    ∃ c t, Lit.write (.ts st w) ++ s = c :: t ∧ c ≠ 'n' ∧ c ≠ 't' ∧ c ≠ 'f' ∧ isWs c = false := by
  cases st with
  | bare =>
    obtain ⟨x, t, rfl, hx⟩ := tsShape_head w h
    obtain ⟨h1, h2, h3, _⟩ := digit_facts hx
    refine ⟨x, t ++ s, by simp [Lit.write], h1, h2, h3, ?_⟩
    cases hw : isWs x with
    | false => rfl
    | true =>
      simp only [isWs, Bool.or_eq_true, decide_eq_true_eq] at hw
      rcases hw with (rfl | rfl) | rfl <;> simp [isDigit] at hx
  | dq => exact ⟨'"', w ++ '"' :: s, by simp [Lit.write], by decide, by decide, by decide, by decide⟩
  | sq => exact ⟨'\'', w ++ '\'' :: s, by simp [Lit.write], by decide, by decide, by decide, by decide⟩

/-- A timestamp literal in any of the three quote styles is read by the timestamp alternative. -/
theorem item_ts_ok (st : TsStyle) (w r : List Char) (h : tsShape w = true) :
    P (.ref R.item) (Lit.write (.ts st w) ++ r) r [.text w, .act (.addVal .text)] := by
  obtain ⟨c, t, htext, h1, h2, h3, _⟩ := ts_write_head st w r h
  have hts := tsfmt_ok st w r h
  apply Parses.ref
  show P e_item _ _ _
  simp only [e_item, alts, seqs]
  refine Parses.alt_right (Fails.seq_left ?_) (Parses.alt_right (Fails.seq_left ?_)
    (Parses.alt_right (Fails.seq_left ?_) (Parses.alt_left ?_)))
  · rw [htext]; exact lit_fails_head _ c t ⟨_, _, rfl, fun e => h1 e.symm⟩
  · rw [htext]; exact lit_fails_head _ c t ⟨_, _, rfl, fun e => h2 e.symm⟩
  · rw [htext]; exact lit_fails_head _ c t ⟨_, _, rfl, fun e => h3 e.symm⟩
  · simpa using Parses.seq hts (Parses.act (.addVal .text) r)

/-! ### Floats -/

def floatText (neg : Bool) (ip fp : List Char) : List Char := signText neg ++ ip ++ '.' :: fp

/-- `-?[0-9]+.[0-9]*`: the first numeric alternative. -/
theorem item_float1_ok (neg : Bool) (ip fp r : List Char) (d : Char) (hne : ip ≠ [])
    (hip : ∀ c ∈ ip, isDigit c = true) (hfp : ∀ c ∈ fp, isDigit c = true) (hd : Delim d) :
    P (.ref R.item) (floatText neg ip fp ++ d :: r) (d :: r)
      [.text (floatText neg ip fp), .act .addNumVal] := by
  obtain ⟨f1, f2, f3, f4, f5, f6, f7, f8, f9⟩ := hd.facts
  have hassoc : floatText neg ip fp ++ d :: r = signText neg ++ ip ++ ('.' :: (fp ++ d :: r)) := by
    simp [floatText]
  obtain ⟨c, t, htext, hc⟩ := num_text_head neg ip ('.' :: (fp ++ d :: r)) hne hip
  have hcf : c ≠ 'n' ∧ c ≠ 't' ∧ c ≠ 'f' ∧ c ≠ '"' ∧ c ≠ '\'' := by
    rcases hc with rfl | hc
    · decide
    · obtain ⟨a, b, c', d', e', _⟩ := digit_facts hc; exact ⟨a, b, c', d', e'⟩
  have hts : tsPrefix5 (signText neg ++ ip ++ ('.' :: (fp ++ d :: r))) = false := by
    cases neg with
    | true => simp [signText, tsPrefix5, isDigit]
    | false => simpa [signText] using tsPrefix5_digits ip '.' (fp ++ d :: r) hip (by decide) (by decide)
  rw [hassoc]
  apply Parses.ref
  show P e_item _ _ _
  simp only [e_item, alts, seqs]
  refine Parses.alt_right (Fails.seq_left ?_) (Parses.alt_right (Fails.seq_left ?_)
    (Parses.alt_right (Fails.seq_left ?_) (Parses.alt_right (Fails.seq_left ?_) (Parses.alt_left ?_))))
  · rw [htext]; exact lit_fails_head _ c t ⟨_, _, rfl, fun e => hcf.1 e.symm⟩
  · rw [htext]; exact lit_fails_head _ c t ⟨_, _, rfl, fun e => hcf.2.1 e.symm⟩
  · rw [htext]; exact lit_fails_head _ c t ⟨_, _, rfl, fun e => hcf.2.2.1 e.symm⟩
  · rw [htext] at hts ⊢; exact tsfmt_fails hcf.2.2.2.1 hcf.2.2.2.2 hts
  · have h1 := opt_minus neg (ip ++ '.' :: (fp ++ d :: r)) (digits_head_not_minus ip _ hne hip)
    have h2 := digits_plus ip ('.' :: (fp ++ d :: r)) hne hip (by simp [NotHead, isDigit])
    have h3 : P (.opt (.seq (.chr '.') (.star (.rng '0' '9')))) ('.' :: (fp ++ d :: r)) (d :: r) ([] ++ []) :=
      Parses.opt_some (Parses.seq (Parses.chr '.' _) (digits_star fp (d :: r) hfp (by simpa [NotHead] using f1)))
    have h := Parses.seq h1 (Parses.seq h2 h3)
    have hc := Parses.cap_prefix (w := floatText neg ip fp) (r := d :: r)
      (a := .seq (.opt (.chr '-')) (.seq (plus (.rng '0' '9')) (.opt (.seq (.chr '.') (.star (.rng '0' '9'))))))
      (evs := [] ++ ([] ++ ([] ++ []))) (by simpa [floatText, List.append_assoc] using h)
    have := Parses.seq hc (Parses.act .addNumVal (d :: r))
    simpa [floatText, lit, List.append_assoc] using this

/-- `-?.[0-9]+`: the second numeric alternative. -/
theorem item_float2_ok (neg : Bool) (fp r : List Char) (d : Char) (hne : fp ≠ [])
    (hfp : ∀ c ∈ fp, isDigit c = true) (hd : Delim d) :
    P (.ref R.item) (floatText neg [] fp ++ d :: r) (d :: r)
      [.text (floatText neg [] fp), .act .addNumVal] := by
  obtain ⟨f1, f2, f3, f4, f5, f6, f7, f8, f9⟩ := hd.facts
  have hassoc : floatText neg [] fp ++ d :: r = signText neg ++ ('.' :: (fp ++ d :: r)) := by
    simp [floatText]
  obtain ⟨c, t, htext, hcf⟩ : ∃ c t, signText neg ++ ('.' :: (fp ++ d :: r)) = c :: t ∧
      (c ≠ 'n' ∧ c ≠ 't' ∧ c ≠ 'f' ∧ c ≠ '"' ∧ c ≠ '\'' ∧ isDigit c = false) := by
    cases neg with
    | true => exact ⟨'-', _, rfl, by decide⟩
    | false => exact ⟨'.', _, rfl, by decide⟩
  have hts : tsPrefix5 (c :: t) = false := by simp [tsPrefix5, hcf.2.2.2.2.2]
  have hm : P (.opt (.chr '-')) (signText neg ++ ('.' :: (fp ++ d :: r))) ('.' :: (fp ++ d :: r)) [] :=
    opt_minus neg _ (by simp [NotHead])
  rw [hassoc]
  apply Parses.ref
  show P e_item _ _ _
  simp only [e_item, alts, seqs]
  refine Parses.alt_right (Fails.seq_left ?_) (Parses.alt_right (Fails.seq_left ?_)
    (Parses.alt_right (Fails.seq_left ?_) (Parses.alt_right (Fails.seq_left ?_)
    (Parses.alt_right (Fails.seq_left (Fails.cap ?_)) (Parses.alt_left ?_)))))
  · rw [htext]; exact lit_fails_head _ c t ⟨_, _, rfl, fun e => hcf.1 e.symm⟩
  · rw [htext]; exact lit_fails_head _ c t ⟨_, _, rfl, fun e => hcf.2.1 e.symm⟩
  · rw [htext]; exact lit_fails_head _ c t ⟨_, _, rfl, fun e => hcf.2.2.1 e.symm⟩
  · rw [htext]; exact tsfmt_fails hcf.2.2.2.1 hcf.2.2.2.2.1 hts
  · refine Fails.seq_right hm (Fails.seq_left ?_)
    simp only [plus]
    exact Fails.seq_left (digit_fails _ (by simp [NotHead, isDigit]))
  · have h2 := digits_plus fp (d :: r) hne hfp (by simpa [NotHead] using f1)
    have h := Parses.seq hm (Parses.seq (Parses.chr '.' (fp ++ d :: r)) h2)
    have hc := Parses.cap_prefix (w := floatText neg [] fp) (r := d :: r)
      (a := .seq (.opt (.chr '-')) (.seq (.chr '.') (plus (.rng '0' '9'))))
      (evs := [] ++ ([] ++ [])) (by simpa [floatText, List.append_assoc] using h)
    have := Parses.seq hc (Parses.act .addNumVal (d :: r))
    simpa [floatText, lit, List.append_assoc] using this

/-! ### Quoted strings, whatever their content -/

def plainCh (c : Char) : Bool := c ≠ '"' && c ≠ '\'' && c ≠ '\\' && c ≠ '\n'

theorem tsClasses_plain : ∀ c ∈ tsClasses, ∀ x, c.p x = true → plainCh x = true := by
  intro c hc x hx
  simp only [tsClasses, List.mem_cons, List.not_mem_nil, or_false] at hc
  have hdig : isDigit x = true → plainCh x = true := by
    intro h
    simp only [isDigit, Bool.and_eq_true, decide_eq_true_eq] at h
    obtain ⟨h1, h2⟩ := h
    simp only [plainCh, Bool.and_eq_true, decide_eq_true_eq]
    refine ⟨⟨⟨?_, ?_⟩, ?_⟩, ?_⟩ <;> (intro e; subst e; revert h1 h2; decide)
  have h03 : ('0' ≤ x && x ≤ '3') = true → plainCh x = true := by
    intro h
    simp only [Bool.and_eq_true, decide_eq_true_eq] at h
    obtain ⟨h1, h2⟩ := h
    simp only [plainCh, Bool.and_eq_true, decide_eq_true_eq]
    refine ⟨⟨⟨?_, ?_⟩, ?_⟩, ?_⟩ <;> (intro e; subst e; revert h1 h2; decide)
  have hchr : ∀ k : Char, plainCh k = true → (clsChr k).p x = true → plainCh x = true := by
    intro k hk h
    have : x = k := by simpa [clsChr] using h
    rw [this]; exact hk
  have h01 : cls01.p x = true → plainCh x = true := by
    intro h
    simp only [cls01, Bool.or_eq_true, decide_eq_true_eq] at h
    rcases h with rfl | rfl <;> decide
  rcases hc with rfl | rfl | rfl | rfl | rfl | rfl | rfl | rfl | rfl | rfl | rfl | rfl | rfl | rfl | rfl | rfl <;>
    first
      | exact hdig hx
      | exact h03 hx
      | exact h01 hx
      | exact hchr _ (by decide) hx

theorem tsShape_plain (ts : List Char) (h : tsShape ts = true) : ∀ x ∈ ts, plainCh x = true :=
  matchCls_all tsClasses ts plainCh tsClasses_plain h

/-- `"ts"` / `'ts'` inside `timestampfmt` fails when the quoted text is not exactly a timestamp. -/
theorem tsq_fails (qc : Char) (hq : qc = '"' ∨ qc = '\'') (w x : List Char) (hns : tsShape w = false)
    (hrem : ∀ ts c', w = ts ++ c' → tsShape ts = true → NotHead (· = qc) c') :
    F (.seq (.chr qc) (.seq (.cap (.ref R.timestampbasicfmt)) (.chr qc))) (qc :: (w ++ qc :: x)) := by
  refine Fails.seq_right (Parses.chr qc _) ?_
  cases hh : tsHead (w ++ qc :: x) with
  | false => exact Fails.seq_left (Fails.cap (tsbasic_fails' _ hh))
  | true =>
    obtain ⟨ts, rem, hsplit, hts⟩ := prefixCls_split tsClasses _ hh
    have hnq : qc ∉ ts := by
      intro hm
      have := tsShape_plain ts hts qc hm
      rcases hq with rfl | rfl <;> simp [plainCh] at this
    rcases List.append_eq_append_iff.mp hsplit with ⟨a', ha1, ha2⟩ | ⟨c', hc1, hc2⟩
    · cases a' with
      | nil =>
        simp only [List.append_nil] at ha1
        subst ha1
        rw [tsShape, hts] at hns; exact absurd hns (by simp)
      | cons y a'' =>
        simp only [List.cons_append, List.cons.injEq] at ha2
        obtain ⟨rfl, _⟩ := ha2
        exact absurd (by simp [ha1]) hnq
    · subst hc1
      have hnh := hrem ts c' rfl hts
      cases c' with
      | nil => simp [tsShape, hts] at hns
      | cons y c'' =>
        have hcap := Parses.cap_prefix (tsbasic_ok ts (y :: c'' ++ qc :: x) hts)
        refine Fails.seq_right (by simpa using hcap) (Fails.chr_ne _ ?_)
        simpa [NotHead] using hnh

theorem tsHead_quote (qc : Char) (hq : qc = '"' ∨ qc = '\'') (s : List Char) : tsHead (qc :: s) = false := by
  rcases hq with rfl | rfl <;> simp [tsHead, prefixCls, tsClasses, clsDigit, isDigit]

theorem tsfmt_quoted_fails (qc : Char) (hq : qc = '"' ∨ qc = '\'') (w x : List Char) (hns : tsShape w = false)
    (hrem : ∀ ts c', w = ts ++ c' → tsShape ts = true → NotHead (· = qc) c') :
    F (.ref R.timestampfmt) (qc :: (w ++ qc :: x)) := by
  have h := tsq_fails qc hq w x hns hrem
  have h3 := Fails.cap (tsbasic_fails' _ (tsHead_quote qc hq (w ++ qc :: x)))
  apply Fails.ref
  show F e_timestampfmt _
  simp only [e_timestampfmt, seqs, alts, lit]
  rcases hq with rfl | rfl
  · exact Fails.alt h (Fails.alt (Fails.seq_left (Fails.chr_ne _ (by decide))) h3)
  · exact Fails.alt (Fails.seq_left (Fails.chr_ne _ (by decide))) (Fails.alt h h3)

/-- Single-quoted text without `'` and `\`. -/
def sqPlain (w : List Char) : Prop := ∀ c ∈ w, c ≠ '\'' ∧ c ≠ '\\'

theorem sqs_ok (w r : List Char) (h : sqPlain w) :
    P (.ref R.singlequotedstring) (w ++ '\'' :: r) ('\'' :: r) [] := by
  apply Parses.ref
  show P e_singlequotedstring _ _ _
  simp only [e_singlequotedstring, alts, seqs]
  induction w with
  | nil =>
    refine Parses.star_nil ?_
    exact Fails.alt (lit_fails_head _ _ _ ⟨_, _, rfl, by decide⟩)
      (Fails.alt (lit_fails_head _ _ _ ⟨_, _, rfl, by decide⟩) (Fails.seq_left (Fails.notP (Parses.chr _ _))))
  | cons c t ih =>
    obtain ⟨h1, h2⟩ := h c (by simp)
    have hstep : P (.alt (lit ['\\', '\'']) (.alt (lit ['\\', '\\']) (.seq (.notP (.chr '\'')) .any)))
        (c :: (t ++ '\'' :: r)) (t ++ '\'' :: r) ([] ++ []) :=
      Parses.alt_right (lit_fails_head _ _ _ ⟨_, _, rfl, fun e => h2 e.symm⟩)
        (Parses.alt_right (lit_fails_head _ _ _ ⟨_, _, rfl, fun e => h2 e.symm⟩)
          (Parses.seq (Parses.notP (Fails.chr_ne _ h1)) (Parses.any _ _)))
    have := Parses.star_cons hstep (ih (fun c hc => h c (by simp [hc])))
    simpa using this

/-- A single-quoted string without escapes: the text between the quotes, whatever it contains
(a timestamp-shaped text is read by the timestamp alternative, with the same outcome). -/
theorem item_sq_ok (w r : List Char) (h : sqPlain w) :
    P (.ref R.item) ('\'' :: (w ++ '\'' :: r)) r [.text w, .act (.addVal .text)] := by
  cases hsh : tsShape w with
  | true => simpa [Lit.write] using item_ts_ok .sq w r hsh
  | false =>
    have hts := tsfmt_quoted_fails '\'' (Or.inr rfl) w r hsh (by
      intro ts c' hw _
      cases c' with
      | nil => trivial
      | cons y c'' =>
        simp only [NotHead, decide_eq_false_iff_not]
        exact (h y (by simp [hw])).1)
    apply Parses.ref
    show P e_item _ _ _
    simp only [e_item, alts, seqs]
    refine Parses.alt_right (Fails.seq_left (lit_fails_head _ _ _ ⟨_, _, rfl, by decide⟩))
      (Parses.alt_right (Fails.seq_left (lit_fails_head _ _ _ ⟨_, _, rfl, by decide⟩))
      (Parses.alt_right (Fails.seq_left (lit_fails_head _ _ _ ⟨_, _, rfl, by decide⟩))
      (Parses.alt_right (Fails.seq_left hts)
      (Parses.alt_right (Fails.seq_left (Fails.cap ?n1))
      (Parses.alt_right (Fails.seq_left (Fails.cap ?n2))
      (Parses.alt_right (Fails.seq_left (Fails.cap (ident_fails (by simp [NotHead, isAlpha, isLower, isUpper]))))
      (Parses.alt_right (Fails.seq_left (Fails.cap ?bw))
      (Parses.alt_right (Fails.seq_left (Fails.cap (Fails.seq_left (lit_fails_head _ _ _ ⟨_, _, rfl, by decide⟩))))
      ?sq))))))))
    case n1 =>
      refine Fails.seq_right (Parses.opt_none (Fails.chr_ne _ (by decide))) (Fails.seq_left ?_)
      simp only [plus]
      exact Fails.seq_left (digit_fails _ (by simp [NotHead, isDigit]))
    case n2 =>
      exact Fails.seq_right (Parses.opt_none (Fails.chr_ne _ (by decide)))
        (Fails.seq_left (lit_fails_head _ _ _ ⟨_, _, rfl, by decide⟩))
    case bw =>
      simp only [plus]
      refine Fails.seq_left ?_
      exact Fails.alt (Fails.rng_ne _ (by decide)) (Fails.alt (Fails.rng_ne _ (by decide))
        (Fails.alt (Fails.rng_ne _ (by decide)) (Fails.alt (Fails.chr_ne _ (by decide))
          (Fails.alt (Fails.chr_ne _ (by decide)) (Fails.chr_ne _ (by decide))))))
    case sq =>
      have hb := Parses.cap_prefix (sqs_ok w r h)
      have := Parses.seq (Parses.chr '\'' (w ++ '\'' :: r))
        (Parses.seq hb (Parses.seq (Parses.chr '\'' r) (Parses.act (.addVal .text) r)))
      simpa [lit] using this

theorem dqOk_plain_append (ts c' : List Char) (hp : ∀ x ∈ ts, plainCh x = true) : dqOk (ts ++ c') = dqOk c' := by
  induction ts with
  | nil => rfl
  | cons x t ih =>
    have hx := hp x (by simp)
    simp only [plainCh, Bool.and_eq_true, decide_eq_true_eq] at hx
    rw [List.cons_append, dqOk_plain x _ hx.1.1.1 hx.1.2, ih (fun y hy => hp y (by simp [hy]))]

/-- A double-quoted literal is read as one quoted literal or, when its content is exactly a
timestamp, by the timestamp alternative: `txt` says which text the action receives. -/
theorem item_dq_ok' (w r : List Char) (h : dqOk w = true) :
    (tsShape w = false ∧ P (.ref R.item) ('"' :: (w ++ '"' :: r)) r [.text ('"' :: (w ++ ['"'])), .act .addQuotedVal]) ∨
    (tsShape w = true ∧ P (.ref R.item) ('"' :: (w ++ '"' :: r)) r [.text w, .act (.addVal .text)]) := by
  cases hsh : tsShape w with
  | true => exact Or.inr ⟨rfl, by simpa [Lit.write] using item_ts_ok .dq w r hsh⟩
  | false =>
    refine Or.inl ⟨rfl, ?_⟩
    have hts := tsfmt_quoted_fails '"' (Or.inl rfl) w r hsh (by
      intro ts c' hw hsts
      cases c' with
      | nil => trivial
      | cons y c'' =>
        simp only [NotHead, decide_eq_false_iff_not]
        intro hy
        subst hy
        rw [hw, dqOk_plain_append ts _ (tsShape_plain ts hsts)] at h
        simp [dqOk] at h)
    apply Parses.ref
    show P e_item _ _ _
    simp only [e_item, alts, seqs]
    refine Parses.alt_right (Fails.seq_left (lit_fails_head _ '"' _ ⟨_, _, rfl, by decide⟩))
      (Parses.alt_right (Fails.seq_left (lit_fails_head _ '"' _ ⟨_, _, rfl, by decide⟩))
      (Parses.alt_right (Fails.seq_left (lit_fails_head _ '"' _ ⟨_, _, rfl, by decide⟩))
      (Parses.alt_right (Fails.seq_left hts)
      (Parses.alt_right (Fails.seq_left (Fails.cap ?n1))
      (Parses.alt_right (Fails.seq_left (Fails.cap ?n2))
      (Parses.alt_right (Fails.seq_left (Fails.cap (ident_fails (by simp [NotHead, isAlpha, isLower, isUpper]))))
      (Parses.alt_right (Fails.seq_left (Fails.cap ?bw))
      (Parses.alt_left ?dq))))))))
    case n1 =>
      refine Fails.seq_right (Parses.opt_none (Fails.chr_ne _ (by decide))) (Fails.seq_left ?_)
      simp only [plus]
      exact Fails.seq_left (digit_fails _ (by simp [NotHead, isDigit]))
    case n2 =>
      exact Fails.seq_right (Parses.opt_none (Fails.chr_ne _ (by decide))) (Fails.seq_left (lit_fails_head _ '"' _ ⟨_, _, rfl, by decide⟩))
    case bw =>
      simp only [plus]
      refine Fails.seq_left ?_
      exact Fails.alt (Fails.rng_ne _ (by decide)) (Fails.alt (Fails.rng_ne _ (by decide))
        (Fails.alt (Fails.rng_ne _ (by decide)) (Fails.alt (Fails.chr_ne _ (by decide))
          (Fails.alt (Fails.chr_ne _ (by decide)) (Fails.chr_ne _ (by decide))))))
    case dq =>
      have hb := dqstring_ok w r h
      have h1 : P (.seq (lit ['"']) (.seq (.ref R.doublequotedstring) (lit ['"'])))
          ('"' :: (w ++ '"' :: r)) r ([] ++ ([] ++ [])) :=
        Parses.seq (Parses.chr '"' _) (Parses.seq hb (Parses.chr '"' _))
      have h2 := Parses.cap_prefix (w := '"' :: (w ++ ['"'])) (r := r) (by simpa using h1)
      simpa using Parses.seq h2 (Parses.act .addQuotedVal r)

theorem unquote_plain (w : List Char) (hp : ∀ x ∈ w, plainCh x = true) :
    unquote ('"' :: (w ++ ['"'])) = some (utf8s w) := by
  simp only [unquote]
  induction w with
  | nil => simp [unquoteBody, utf8s]
  | cons x t ih =>
    have hx := hp x (by simp)
    simp only [plainCh, Bool.and_eq_true, decide_eq_true_eq] at hx
    rw [List.cons_append, unquoteBody_plain x _ hx.1.1.1 hx.2 hx.1.2, ih (fun y hy => hp y (by simp [hy]))]
    simp [utf8s]

end PV.C26
