/-
C26 — executable model of the PQL parser's action machine (pql/ast.go), of `Call.String`
(formatValue, joinInterfaceSlice, joinInt64Slice, joinUint64Slice, Condition.String, formatFloat)
and of the two library functions the round trip goes through, `strconv.Quote` (`%q`) and
`strconv.Unquote`.  Core Lean only.

Conventions
* text (the query, captures, names, keys) is a list of code points `List Char`, as in the
  generated parser (`[]rune(buffer)`; `text = string(_buffer[begin:end])`);
* a Go string *value* is its byte list (`Bytes`, every element < 256): `"\xff"` is a legal PQL
  literal whose value is not UTF-8;
* `int64`/`uint64` are `Int`/`Nat` with explicit range checks where the code has them;
* `float64` is opaque: a float value is represented by the canonical plain-decimal text that
  `strconv.FormatFloat(f,'f',-1,64)` prints for it (DESIGN §9: Lean cannot reason about IEEE
  floats).  `normDec` plays the role of `strconv.ParseFloat` on the grammar's float syntax; the
  identification is exact for literals with at most 15 significant digits (validated by the tie).
-/
import PV.C26.Peg
namespace PV.C26

abbrev Bytes := List Nat
abbrev Key := List Char

mutual
/-- Dynamic values an argument of a `pql.Call` can hold. -/
inductive Val where
  | null                              -- nil
  | bool (b : Bool)
  | int (i : Int)                     -- int64
  | uint (n : Nat)                    -- uint64 (translated keys)
  | float (t : List Char)             -- float64, canonical decimal text
  | str (s : Bytes)                   -- string
  | list (vs : List Val)              -- []interface{}
  | ints (xs : List Int)              -- []int64 (validateCallArgs)
  | uints (xs : List Nat)             -- []uint64 (TopN refetch)
  | cond (op : Op) (v : Val)          -- *Condition
  | call (c : Call)                   -- *Call
/-- `pql.Call`; `args` is the map `Args` kept sorted by key (Go sorts the keys when printing). -/
inductive Call where
  | mk (name : List Char) (args : List (Key × Val)) (children : List Call)
end

instance : Inhabited Val := ⟨.null⟩
instance : Inhabited Call := ⟨.mk [] [] []⟩

def Call.name : Call → List Char | .mk n _ _ => n
def Call.args : Call → List (Key × Val) | .mk _ a _ => a
def Call.children : Call → List Call | .mk _ _ c => c

/-! ## Small text utilities -/

def isDigit (c : Char) : Bool := '0' ≤ c && c ≤ '9'

def digitVal (c : Char) : Nat := c.toNat - 48

def digitChar (d : Nat) : Char :=
  ['0', '1', '2', '3', '4', '5', '6', '7', '8', '9'].getD d '0'

/-- Decimal digits of `n`, most significant first (`strconv.FormatUint(n, 10)`). -/
def digitsAux : Nat → Nat → List Char → List Char
  | 0, _, acc => acc
  | f + 1, n, acc =>
    if n < 10 then digitChar n :: acc else digitsAux f (n / 10) (digitChar (n % 10) :: acc)

def natDigits (n : Nat) : List Char := digitsAux (n + 1) n []

def intDigits (i : Int) : List Char :=
  if i < 0 then '-' :: natDigits i.natAbs else natDigits i.natAbs

/-- Value of a digit string (no validation: callers pass digits). -/
def parseNatAux : List Char → Nat → Nat
  | [], acc => acc
  | c :: cs, acc => parseNatAux cs (acc * 10 + digitVal c)

def parseNat (cs : List Char) : Nat := parseNatAux cs 0

def minInt64 : Int := -9223372036854775808
def maxInt64 : Int := 9223372036854775807

/-- The mathematical value of `'-'? digits`. -/
def parseIntText (cs : List Char) : Int :=
  match cs with
  | '-' :: ds => - (parseNat ds : Int)
  | ds => (parseNat ds : Int)

/-- `strconv.ParseInt(s, 10, 64)` on `'-'? [0-9]+`: `none` = ErrRange. -/
def parseInt64 (cs : List Char) : Option Int :=
  let v := parseIntText cs
  if minInt64 ≤ v ∧ v ≤ maxInt64 then some v else none

/-- `v, _ := strconv.ParseInt(..)`: on ErrRange the clamped value is returned. -/
def parseInt64Clamp (cs : List Char) : Int :=
  let v := parseIntText cs
  if v < minInt64 then minInt64 else if maxInt64 < v then maxInt64 else v

def incWrap (v : Int) : Int := if v = maxInt64 then minInt64 else v + 1
def decWrap (v : Int) : Int := if v = minInt64 then maxInt64 else v - 1

/-! ## Floats as canonical decimal text -/

def stripLeadingZeros : List Char → List Char
  | '0' :: cs => stripLeadingZeros cs
  | cs => cs

def stripTrailingZeros (cs : List Char) : List Char :=
  (stripLeadingZeros cs.reverse).reverse

/-- `'-'? digits* ('.' digits*)?` → canonical form: no redundant zeros, `0` for an empty integer
part, no `.` when the fraction is zero (what `FormatFloat(ParseFloat(s),'f',-1,64)` yields). -/
def normDec (cs : List Char) : List Char :=
  let (neg, body) := match cs with
    | '-' :: r => (true, r)
    | r => (false, r)
  let ip := body.takeWhile (· ≠ '.')
  let fp := (body.dropWhile (· ≠ '.')).drop 1
  let ip' := match stripLeadingZeros ip with
    | [] => ['0']
    | r => r
  let fp' := stripTrailingZeros fp
  (if neg then ['-'] else []) ++ ip' ++ (if fp' = [] then [] else '.' :: fp')

/-- `formatFloat` (ast.go): plain decimal, always with a decimal point. -/
def fmtFloat (t : List Char) : List Char :=
  if t.contains '.' then t else t ++ ['.', '0']

/-! ## UTF-8 (`utf8.AppendRune`, `utf8.DecodeRune`) on code points / bytes -/

def utf8 (c : Char) : Bytes :=
  let n := c.toNat
  if n < 0x80 then [n]
  else if n < 0x800 then [0xC0 + n / 64, 0x80 + n % 64]
  else if n < 0x10000 then [0xE0 + n / 4096, 0x80 + n / 64 % 64, 0x80 + n % 64]
  else [0xF0 + n / 262144, 0x80 + n / 4096 % 64, 0x80 + n / 64 % 64, 0x80 + n % 64]

def utf8s (cs : List Char) : Bytes := cs.flatMap utf8

def isCont (b : Nat) : Bool := 0x80 ≤ b && b < 0xC0

/-- `utf8.DecodeRune`: `some (code point, width)` for a valid encoding at the head of `bs`,
`none` where Go returns `(RuneError, 1)` for an invalid byte.  (Go's `first`/`acceptRanges`.) -/
def decodeRune : Bytes → Option (Nat × Nat)
  | [] => none
  | b0 :: rest =>
    if b0 < 0x80 then some (b0, 1)
    else if b0 < 0xC2 then none
    else if b0 < 0xE0 then
      match rest with
      | b1 :: _ => if isCont b1 then some ((b0 - 0xC0) * 64 + (b1 - 0x80), 2) else none
      | _ => none
    else if b0 < 0xF0 then
      match rest with
      | b1 :: b2 :: _ =>
        let lo := if b0 = 0xE0 then 0xA0 else 0x80
        let hi := if b0 = 0xED then 0x9F else 0xBF
        if lo ≤ b1 && b1 ≤ hi && isCont b2 then
          some ((b0 - 0xE0) * 4096 + (b1 - 0x80) * 64 + (b2 - 0x80), 3)
        else none
      | _ => none
    else if b0 < 0xF5 then
      match rest with
      | b1 :: b2 :: b3 :: _ =>
        let lo := if b0 = 0xF0 then 0x90 else 0x80
        let hi := if b0 = 0xF4 then 0x8F else 0xBF
        if lo ≤ b1 && b1 ≤ hi && isCont b2 && isCont b3 then
          some ((b0 - 0xF0) * 262144 + (b1 - 0x80) * 4096 + (b2 - 0x80) * 64 + (b3 - 0x80), 4)
        else none
      | _ => none
    else none

/-- What `strconv.Quote` sees at each step: a decoded rune or an invalid byte. -/
inductive Piece where
  | rune (c : Char)
  | bad (b : Nat)
  deriving DecidableEq, Repr

/-- Decode a byte string the way the loop of `appendQuotedWith` walks it (fuel = length). -/
def pieces : Nat → Bytes → List Piece
  | 0, _ => []
  | _ + 1, [] => []
  | f + 1, b :: rest =>
    match decodeRune (b :: rest) with
    | some (cp, w) => .rune (Char.ofNat cp) :: pieces f (rest.drop (w - 1))
    | none => .bad b :: pieces f rest

/-! ## strconv.Quote / strconv.Unquote -/

def hexDigit (d : Nat) : Char :=
  ['0', '1', '2', '3', '4', '5', '6', '7', '8', '9', 'a', 'b', 'c', 'd', 'e', 'f'].getD d '0'

def hex2 (n : Nat) : List Char := [hexDigit (n / 16 % 16), hexDigit (n % 16)]
def hex4 (n : Nat) : List Char :=
  [hexDigit (n / 4096 % 16), hexDigit (n / 256 % 16), hexDigit (n / 16 % 16), hexDigit (n % 16)]
def hex8 (n : Nat) : List Char :=
  [hexDigit (n / 268435456 % 16), hexDigit (n / 16777216 % 16), hexDigit (n / 1048576 % 16),
   hexDigit (n / 65536 % 16)] ++ hex4 n

/-- `appendEscapedRune(buf, r, '"', false, false)` and the invalid-byte case of the caller. -/
def quotePiece (isPrint : Char → Bool) : Piece → List Char
  | .bad b => '\\' :: 'x' :: hex2 b
  | .rune c =>
    if c = '"' ∨ c = '\\' then ['\\', c]
    else if isPrint c then [c]
    else if c = Char.ofNat 7 then ['\\', 'a']
    else if c = Char.ofNat 8 then ['\\', 'b']
    else if c = Char.ofNat 12 then ['\\', 'f']
    else if c = '\n' then ['\\', 'n']
    else if c = '\r' then ['\\', 'r']
    else if c = '\t' then ['\\', 't']
    else if c = Char.ofNat 11 then ['\\', 'v']
    else if c.toNat < 0x20 ∨ c.toNat = 0x7f then '\\' :: 'x' :: hex2 c.toNat
    else if c.toNat < 0x10000 then '\\' :: 'u' :: hex4 c.toNat
    else '\\' :: 'U' :: hex8 c.toNat

def quoteBody (isPrint : Char → Bool) (bs : Bytes) : List Char :=
  (pieces bs.length bs).flatMap (quotePiece isPrint)

/-- `strconv.Quote(s)` = `fmt.Sprintf("%q", s)`. -/
def quote (isPrint : Char → Bool) (bs : Bytes) : List Char :=
  '"' :: quoteBody isPrint bs ++ ['"']

def unhex (c : Char) : Option Nat :=
  if '0' ≤ c ∧ c ≤ '9' then some (c.toNat - 48)
  else if 'a' ≤ c ∧ c ≤ 'f' then some (c.toNat - 87)
  else if 'A' ≤ c ∧ c ≤ 'F' then some (c.toNat - 55)
  else none

def unoct (c : Char) : Option Nat :=
  if '0' ≤ c ∧ c ≤ '7' then some (c.toNat - 48) else none

def validRune (n : Nat) : Bool := n < 0xD800 || (0xDFFF < n && n < 0x110000)

/-- Bytes appended for a `\u`/`\U` escape or a plain character (`multibyte` case). -/
def runeBytes (n : Nat) : Bytes := utf8 (Char.ofNat n)

/-- The loop of `strconv.unquote` after the opening quote: characters up to the closing `"`,
which must be the last character.  `none` = ErrSyntax. -/
def unquoteBody : List Char → Option Bytes
  | [] => none                                   -- no terminating quote
  | '"' :: rest => if rest = [] then some [] else none
  | '\n' :: _ => none
  | '\\' :: rest =>
    match rest with
    | 'a' :: r => (7 :: ·) <$> unquoteBody r
    | 'b' :: r => (8 :: ·) <$> unquoteBody r
    | 'f' :: r => (12 :: ·) <$> unquoteBody r
    | 'n' :: r => (10 :: ·) <$> unquoteBody r
    | 'r' :: r => (13 :: ·) <$> unquoteBody r
    | 't' :: r => (9 :: ·) <$> unquoteBody r
    | 'v' :: r => (11 :: ·) <$> unquoteBody r
    | '\\' :: r => (92 :: ·) <$> unquoteBody r
    | '"' :: r => (34 :: ·) <$> unquoteBody r
    | 'x' :: h1 :: h2 :: r =>
      match unhex h1, unhex h2 with
      | some a, some b => ((a * 16 + b) :: ·) <$> unquoteBody r
      | _, _ => none
    | 'u' :: h1 :: h2 :: h3 :: h4 :: r =>
      match unhex h1, unhex h2, unhex h3, unhex h4 with
      | some a, some b, some c, some d =>
        let v := ((a * 16 + b) * 16 + c) * 16 + d
        if validRune v then (runeBytes v ++ ·) <$> unquoteBody r else none
      | _, _, _, _ => none
    | 'U' :: h1 :: h2 :: h3 :: h4 :: h5 :: h6 :: h7 :: h8 :: r =>
      match unhex h1, unhex h2, unhex h3, unhex h4, unhex h5, unhex h6, unhex h7, unhex h8 with
      | some a, some b, some c, some d, some e, some f, some g, some h =>
        let v := ((((((a * 16 + b) * 16 + c) * 16 + d) * 16 + e) * 16 + f) * 16 + g) * 16 + h
        if validRune v then (runeBytes v ++ ·) <$> unquoteBody r else none
      | _, _, _, _, _, _, _, _ => none
    | o1 :: o2 :: o3 :: r =>
      match unoct o1, unoct o2, unoct o3 with
      | some a, some b, some c =>
        let v := (a * 8 + b) * 8 + c
        if v ≤ 255 then (v :: ·) <$> unquoteBody r else none
      | _, _, _ => none
    | _ => none
  | c :: rest => (utf8 c ++ ·) <$> unquoteBody rest

/-- `strconv.Unquote` on a text that starts with `"` (the capture `<'"' doublequotedstring '"'>`). -/
def unquote : List Char → Option Bytes
  | '"' :: rest => unquoteBody rest
  | _ => none

/-! ## The argument map -/

def ltKey : Key → Key → Bool
  | [], [] => false
  | [], _ :: _ => true
  | _ :: _, [] => false
  | a :: as, b :: bs => a < b || (a = b && ltKey as bs)

def lookup (k : Key) : List (Key × Val) → Option Val
  | [] => none
  | (k', v) :: rest => if k' = k then some v else lookup k rest

/-- `Args[k] = v` on the sorted association list. -/
def insert (k : Key) (v : Val) : List (Key × Val) → List (Key × Val)
  | [] => [(k, v)]
  | (k', v') :: rest =>
    if k' = k then (k, v) :: rest
    else if ltKey k k' then (k, v) :: (k', v') :: rest
    else (k', v') :: insert k v rest

/-! ## The action machine (`pql.Query` in ast.go, driven by `PQL.Execute`) -/

/-- Where `startCall` linked the new call. -/
inductive Attach where
  | top       -- appended to q.Calls
  | child     -- appended to the Children of the enclosing call
  | none      -- the enclosing call has a pending field: the call is an argument value
  deriving DecidableEq, Repr

/-- `callStackElem` together with the call it builds. -/
structure Elem where
  name : List Char
  args : List (Key × Val) := []
  children : List Call := []
  attach : Attach
  lastField : Key := []
  lastCond : Op := .ILLEGAL
  inList : Bool := false

structure QState where
  calls : List Call := []
  stack : List Elem := []          -- head = last element of callStack
  cond : List (List Char) := []     -- q.conditional
  text : List Char := []            -- the `text` register of Execute

/-- Ways `pql.ParseString` does not return a query. -/
inductive PErr where
  | syntax        -- PEG parse error
  | dup           -- "duplicate argument provided"
  | range         -- "integer is not in signed 64-bit range"
  | badstr        -- "invalid string literal"
  | internal      -- a runtime panic inside Execute, returned as "unexpected parser error"
  | repanic       -- a string panic that parser.Parse re-panics
  | fuel          -- the model ran out of fuel (never a verdict about the code)
  deriving DecidableEq, Repr

abbrev M := Except PErr

def Elem.toCall (e : Elem) : Call := .mk e.name e.args e.children

def sargText (q : QState) : SArg → List Char
  | .lit s => s
  | .text => q.text

def startCall (q : QState) (name : List Char) : QState :=
  let attach := match q.stack with
    | [] => Attach.top
    | p :: _ => if p.lastField = [] then Attach.child else Attach.none
  { q with stack := { name := name, attach := attach } :: q.stack }

/-- `endCall`: pops the element; the call was linked by `startCall` (see `Attach`). -/
def endCall (q : QState) : M (QState × Call) :=
  match q.stack with
  | [] => .error .internal
  | e :: rest =>
    let c := e.toCall
    match e.attach, rest with
    | .top, _ => .ok ({ q with stack := rest, calls := q.calls ++ [c] }, c)
    | .child, p :: rest' =>
      .ok ({ q with stack := { p with children := p.children ++ [c] } :: rest' }, c)
    | _, _ => .ok ({ q with stack := rest }, c)

def addField (q : QState) (f : Key) : M QState :=
  match q.stack with
  | [] => .error .repanic
  | e :: rest =>
    if e.lastField ≠ [] then .error .repanic
    else .ok { q with stack := { e with lastField := f } :: rest }

def addVal (q : QState) (v : Val) : M QState :=
  match q.stack with
  | [] => .error .repanic
  | e :: rest =>
    if e.lastField = [] then .error .repanic
    else if e.inList then
      match lookup e.lastField e.args with
      | some (.list vs) =>
        .ok { q with stack := { e with args := insert e.lastField (.list (vs ++ [v])) e.args } :: rest }
      | _ => .error .internal
    else if (lookup e.lastField e.args).isSome then .error .dup
    else
      let v' := if e.lastCond ≠ .ILLEGAL then Val.cond e.lastCond v else v
      .ok { q with stack := { e with args := insert e.lastField v' e.args,
                                     lastField := [], lastCond := .ILLEGAL } :: rest }

/-- The number a numeric literal denotes: float when it contains a `.`, else int64. -/
def numVal (t : List Char) : M Val :=
  if t.contains '.' then .ok (.float (normDec t))
  else match parseInt64 t with
    | some i => .ok (.int i)
    | none => .error .range

def addNumVal (q : QState) (t : List Char) : M QState :=
  match q.stack with
  | [] => .error .repanic
  | e :: rest =>
    if e.lastField = [] then .error .repanic
    else do
      let iv ← numVal t
      if e.inList then
        if e.lastCond ≠ .ILLEGAL then
          match lookup e.lastField e.args with
          | some (.cond _ (.list vs)) =>
            .ok { q with stack := { e with args := insert e.lastField (.cond e.lastCond (.list (vs ++ [iv]))) e.args } :: rest }
          | _ => .error .internal
        else
          match lookup e.lastField e.args with
          | some (.list vs) =>
            .ok { q with stack := { e with args := insert e.lastField (.list (vs ++ [iv])) e.args } :: rest }
          | _ => .error .internal
      else if (lookup e.lastField e.args).isSome then .error .dup
      else
        let v' := if e.lastCond ≠ .ILLEGAL then Val.cond e.lastCond iv else iv
        .ok { q with stack := { e with args := insert e.lastField v' e.args,
                                       lastField := [], lastCond := .ILLEGAL } :: rest }

def startList (q : QState) : M QState :=
  match q.stack with
  | [] => .error .internal
  | e :: rest =>
    if (lookup e.lastField e.args).isSome then .error .dup
    else
      let v := if e.lastCond ≠ .ILLEGAL then Val.cond e.lastCond (.list []) else Val.list []
      .ok { q with stack := { e with args := insert e.lastField v e.args, inList := true } :: rest }

def endList (q : QState) : M QState :=
  match q.stack with
  | [] => .error .internal
  | e :: rest =>
    .ok { q with stack := { e with inList := false, lastField := [], lastCond := .ILLEGAL } :: rest }

def setCond (q : QState) (op : Op) : M QState :=
  match q.stack with
  | [] => .error .internal
  | e :: rest => .ok { q with stack := { e with lastCond := op } :: rest }

def startConditional (q : QState) : M QState :=
  match q.stack with
  | [] => .error .internal
  | _ :: _ => .ok { q with cond := [] }

def endConditional (q : QState) : M QState :=
  match q.cond with
  | [lo, op1, field, op2, hi] =>
    let low := parseInt64Clamp lo
    let high := parseInt64Clamp hi
    let low := if op1 = ['<'] then incWrap low else low
    let high := if op2 = ['<'] then decWrap high else high
    match q.stack with
    | [] => .error .internal
    | e :: rest =>
      if (lookup field e.args).isSome then .error .dup
      else
        .ok { q with stack := { e with args := insert field (.cond .BETWEEN (.list [.int low, .int high])) e.args } :: rest,
                     cond := [] }
  | _ => .error .repanic

def stepAct (q : QState) : Act → M QState
  | .startCall n => .ok (startCall q (sargText q n))
  | .endCall => (·.1) <$> endCall q
  | .addField f => addField q (sargText q f)
  | .addVal .text => addVal q (.str (utf8s q.text))
  | .addVal .null => addVal q .null
  | .addVal (.bool b) => addVal q (.bool b)
  | .addVal .endCall => do
      let (q', c) ← endCall q
      addVal q' (.call c)
  | .addNumVal => addNumVal q q.text
  | .addQuotedVal =>
    match unquote q.text with
    | some bs => addVal q (.str bs)
    | none => .error .badstr
  | .addPosStr k => do
      let q' ← addField q k
      addVal q' (.str (utf8s q.text))
  | .addPosNum k => do
      let q' ← addField q k
      addNumVal q' q.text
  | .condAdd => .ok { q with cond := q.cond ++ [q.text] }
  | .startConditional => startConditional q
  | .endConditional => endConditional q
  | .startList => startList q
  | .endList => endList q
  | .setCond op => setCond q op

def stepEv (q : QState) : Ev → M QState
  | .text cs => .ok { q with text := cs }
  | .act a => stepAct q a

/-- `PQL.Execute`: walk the token list. -/
def exec : List Ev → QState → M QState
  | [], q => .ok q
  | ev :: evs, q =>
    match stepEv q ev with
    | .ok q' => exec evs q'
    | .error e => .error e

def fuelFor (s : List Char) : Nat := 40 * (s.length + 10)

/-- `pql.ParseString` over a rule table, with `n` units of interpreter fuel. -/
def parseFuel (rule : Nat → PExpr) (start : Nat) (n : Nat) (s : List Char) : M (List Call) :=
  match run rule n (.ref start) s with
  | .fuel => .error .fuel
  | .fail => .error .syntax
  | .ok _ evs =>
    match exec evs {} with
    | .ok q => .ok q.calls
    | .error e => .error e

/-- `pql.ParseString` as the driver runs it. -/
def parseWith (rule : Nat → PExpr) (start : Nat) (s : List Char) : M (List Call) :=
  parseFuel rule start (fuelFor s) s

/-! ## Call.String -/

def opText : Op → List Char
  | .ILLEGAL => cl!"ILLEGAL"
  | .ASSIGN => ['=']
  | .EQ => ['=', '=']
  | .NEQ => ['!', '=']
  | .LT => ['<']
  | .LTE => ['<', '=']
  | .GT => ['>']
  | .GTE => ['>', '=']
  | .BETWEEN => ['>', '<']

def joinWith (sep : List Char) : List (List Char) → List Char
  | [] => []
  | [x] => x
  | x :: xs => x ++ sep ++ joinWith sep xs

mutual
/-- `formatValue`. -/
def fmtVal (isPrint : Char → Bool) : Val → List Char
  | .null => ['n', 'u', 'l', 'l']
  | .bool true => ['t', 'r', 'u', 'e']
  | .bool false => ['f', 'a', 'l', 's', 'e']
  | .int i => intDigits i
  | .uint n => natDigits n
  | .float t => fmtFloat t
  | .str s => quote isPrint s
  | .list vs => '[' :: joinWith [','] (fmtVals isPrint vs) ++ [']']
  | .ints xs => '[' :: joinWith [','] (xs.map intDigits) ++ [']']
  | .uints xs => '[' :: joinWith [','] (xs.map natDigits) ++ [']']
  | .cond op v => opText op ++ [' '] ++ fmtVal isPrint v
  | .call c => fmtCall isPrint c
def fmtVals (isPrint : Char → Bool) : List Val → List (List Char)
  | [] => []
  | v :: vs => fmtVal isPrint v :: fmtVals isPrint vs
/-- One `key=value` / `key op value` of `Call.String`. -/
def fmtArgs (isPrint : Char → Bool) : List (Key × Val) → List (List Char)
  | [] => []
  | (k, .cond op v) :: rest => (k ++ [' '] ++ opText op ++ [' '] ++ fmtVal isPrint v) :: fmtArgs isPrint rest
  | (k, v) :: rest => (k ++ ['='] ++ fmtVal isPrint v) :: fmtArgs isPrint rest
def fmtCalls (isPrint : Char → Bool) : List Call → List (List Char)
  | [] => []
  | c :: cs => fmtCall isPrint c :: fmtCalls isPrint cs
/-- `Call.String`. -/
def fmtCall (isPrint : Char → Bool) : Call → List Char
  | .mk name args children =>
    (if name = [] then cl!"!UNNAMED" else name) ++ ['('] ++
      joinWith [',', ' '] (fmtCalls isPrint children) ++
      (if children ≠ [] ∧ args ≠ [] then [',', ' '] else []) ++
      joinWith [',', ' '] (fmtArgs isPrint args) ++ [')']
end

/-- `Query.String`: the calls joined by newlines (what `remoteExec` sends). -/
def fmtQuery (isPrint : Char → Bool) (cs : List Call) : List Char :=
  joinWith ['\n'] (fmtCalls isPrint cs)

/-! ## Canonical dump (protocol output; shows dynamic types) -/

def hexBytes (bs : Bytes) : List Char := bs.flatMap hex2

def opName : Op → List Char
  | .ILLEGAL => cl!"ILLEGAL"
  | .ASSIGN => cl!"ASSIGN"
  | .EQ => cl!"EQ"
  | .NEQ => cl!"NEQ"
  | .LT => cl!"LT"
  | .LTE => cl!"LTE"
  | .GT => cl!"GT"
  | .GTE => cl!"GTE"
  | .BETWEEN => cl!"BETWEEN"

mutual
def dumpVal : Val → List Char
  | .null => ['n']
  | .bool true => ['b', '1']
  | .bool false => ['b', '0']
  | .int i => 'i' :: intDigits i
  | .uint n => 'u' :: natDigits n
  | .float t => 'f' :: t
  | .str s => 's' :: hexBytes s
  | .list vs => 'l' :: '[' :: joinWith [','] (dumpVals vs) ++ [']']
  | .ints xs => 'I' :: '[' :: joinWith [','] (xs.map intDigits) ++ [']']
  | .uints xs => 'U' :: '[' :: joinWith [','] (xs.map natDigits) ++ [']']
  | .cond op v => 'c' :: opName op ++ ['('] ++ dumpVal v ++ [')']
  | .call c => 'C' :: dumpCall c
def dumpVals : List Val → List (List Char)
  | [] => []
  | v :: vs => dumpVal v :: dumpVals vs
def dumpArgs : List (Key × Val) → List (List Char)
  | [] => []
  | (k, v) :: rest => (k ++ ['='] ++ dumpVal v) :: dumpArgs rest
def dumpCalls : List Call → List (List Char)
  | [] => []
  | c :: cs => dumpCall c :: dumpCalls cs
def dumpCall : Call → List Char
  | .mk name args children =>
    name ++ ['('] ++ joinWith [','] (dumpCalls children) ++ [';'] ++ joinWith [','] (dumpArgs args) ++ [')']
end

def dumpQuery (cs : List Call) : List Char := joinWith ['|'] (dumpCalls cs)

def errName : PErr → List Char
  | .syntax => cl!"err:syntax"
  | .dup => cl!"err:dup"
  | .range => cl!"err:range"
  | .badstr => cl!"err:badstr"
  | .internal => cl!"err:internal"
  | .repanic => cl!"panic:parse"
  | .fuel => cl!"model-out-of-fuel"

/-- Protocol text of a parse result. -/
def showParse (r : M (List Call)) : List Char :=
  match r with
  | .ok cs => dumpQuery cs
  | .error e => errName e

end PV.C26
