/-
C26 — the `conditional` rule: `lo < field <= hi` as a written argument (C26_literals).
Core Lean only.
-/
import PV.C26.LemmasLits
namespace PV.C26
open Gen

/-- The integer texts `condint` accepts: `0`, or an optional `-`, a digit 1-9 and more digits. -/
def CondIntText (t : List Char) : Prop :=
  t = ['0'] ∨ ∃ neg c ds, t = signText neg ++ c :: ds ∧ ('1' ≤ c ∧ c ≤ '9') ∧ ∀ x ∈ ds, isDigit x = true

theorem digitChar_pos : ∀ d, d < 10 → 0 < d → '1' ≤ digitChar d ∧ digitChar d ≤ '9' := by decide

theorem digitsAux_head (f n : Nat) (acc : List Char) (hf : n < f) (hn : 0 < n) :
    ∃ c t, digitsAux f n acc = c :: t ∧ '1' ≤ c ∧ c ≤ '9' := by
  induction f generalizing n acc with
  | zero => omega
  | succ f ih =>
    simp only [digitsAux]
    by_cases h : n < 10
    · simp only [h, if_true]
      exact ⟨_, _, rfl, digitChar_pos n h hn⟩
    · simp only [h, if_false]
      exact ih (n / 10) _ (by omega) (by omega)

theorem intDigits_condInt (i : Int) : CondIntText (intDigits i) := by
  by_cases h0 : i = 0
  · subst h0; left; decide
  · right
    have hpos : 0 < i.natAbs := by omega
    obtain ⟨c, t, hct, hc⟩ := digitsAux_head (i.natAbs + 1) i.natAbs [] (by omega) hpos
    have hall := (natDigits_spec i.natAbs).2.2
    refine ⟨decide (i < 0), c, t, ?_, hc, ?_⟩
    · rw [intDigits_shape]; simp only [natDigits, hct]
    · intro x hx; exact hall x (by simp [natDigits, hct, hx])

theorem pos_digit_facts {c : Char} (h : '1' ≤ c ∧ c ≤ '9') : c ≠ '-' ∧ isDigit c = true ∧ isAlpha c = false ∧ c ≠ '_' := by
  obtain ⟨h1, h2⟩ := h
  refine ⟨?_, ?_, ?_, ?_⟩
  · intro e; subst e; revert h1 h2; decide
  · simp only [isDigit, Bool.and_eq_true, decide_eq_true_eq]
    exact ⟨Char.le_trans (by decide) h1, h2⟩
  · simp only [isAlpha, isLower, isUpper, Bool.or_eq_false_iff, Bool.and_eq_false_iff, decide_eq_false_iff_not]
    constructor
    · left; intro h3; exact absurd (Char.le_trans h3 h2) (by decide)
    · left; intro h3; exact absurd (Char.le_trans h3 h2) (by decide)
  · intro e; subst e; revert h1 h2; decide

/-- The captured integer of `condint`. -/
theorem condint_cap_ok (t r : List Char) (ht : CondIntText t) (hr : NotHead isDigit r) :
    P (.cap (.alt (.seq (.opt (.chr '-')) (.seq (.rng '1' '9') (.star (.rng '0' '9')))) (.chr '0')))
      (t ++ r) r [.text t] := by
  rcases ht with rfl | ⟨neg, c, ds, rfl, hc, hds⟩
  · have h : P (.alt (.seq (.opt (.chr '-')) (.seq (.rng '1' '9') (.star (.rng '0' '9')))) (.chr '0'))
        (['0'] ++ r) r [] :=
      Parses.alt_right (Fails.seq_right (Parses.opt_none (Fails.chr_ne _ (by decide)))
        (Fails.seq_left (Fails.rng_ne _ (by decide)))) (Parses.chr '0' r)
    simpa using Parses.cap_prefix h
  · obtain ⟨hm, _, _, _⟩ := pos_digit_facts hc
    have h1 := opt_minus neg (c :: ds ++ r) (by simpa [NotHead] using hm)
    have h2 : P (.rng '1' '9') (c :: (ds ++ r)) (ds ++ r) [] := Parses.rng _ hc
    have h3 := digits_star ds r hds hr
    have h := Parses.alt_left (b := .chr '0') (Parses.seq h1 (Parses.seq h2 h3))
    have := Parses.cap_prefix (w := signText neg ++ c :: ds) (r := r) (by simpa [List.append_assoc] using h)
    simpa using this

theorem condint_ok (t mid rest : List Char) (ht : CondIntText t) (hmid : NotHead isDigit mid)
    (hsp : P (.ref R.sp) mid rest []) :
    P (.ref R.condint) (t ++ mid) rest [.text t, .act .condAdd] := by
  apply Parses.ref
  show P e_condint _ _ _
  simp only [e_condint, alts, seqs]
  simpa using Parses.seq (condint_cap_ok t mid ht hmid) (Parses.seq hsp (Parses.act .condAdd rest))

def ltText (strict : Bool) : List Char := if strict then ['<'] else ['<', '=']

theorem condLT_ok (strict : Bool) (rest : List Char) (hr : NoWs rest) :
    P (.ref R.condLT) (ltText strict ++ ' ' :: rest) rest [.text (ltText strict), .act .condAdd] := by
  apply Parses.ref
  show P e_condLT _ _ _
  simp only [e_condLT, alts, seqs]
  have hcap : P (.cap (.alt (lit ['<', '=']) (.chr '<'))) (ltText strict ++ ' ' :: rest) (' ' :: rest)
      [.text (ltText strict)] := by
    cases strict with
    | false =>
      have := Parses.cap_prefix (rule := Gen.rule) (w := ['<', '=']) (r := ' ' :: rest)
        (Parses.alt_left (b := .chr '<') (Parses.lit ['<', '='] (' ' :: rest)))
      simpa [ltText] using this
    | true =>
      have hf : F (lit ['<', '=']) ('<' :: ' ' :: rest) :=
        Fails.lit _ _ (by simp) (by intro ⟨u, hu⟩; simp at hu)
      have := Parses.cap_prefix (w := ['<']) (r := ' ' :: rest) (Parses.alt_right hf (Parses.chr '<' _))
      simpa [ltText] using this
  simpa using Parses.seq hcap (Parses.seq (sp_one hr) (Parses.act .condAdd rest))

theorem condfield_ok (k rest : List Char) (hk : FieldName k) (hr : NoWs rest) :
    P (.ref R.condfield) (k ++ ' ' :: rest) rest [.text k, .act .condAdd] := by
  apply Parses.ref
  show P e_condfield _ _ _
  simp only [e_condfield, seqs]
  have h1 := Parses.cap_prefix (fieldExpr_ok (w := k) (r := ' ' :: rest) hk
    (by simp [NotHead, isFieldCh, isAlnum, isAlpha, isLower, isUpper, isDigit]))
  simpa using Parses.seq h1 (Parses.seq (sp_one hr) (Parses.act .condAdd rest))

theorem condInt_head (t s : List Char) (ht : CondIntText t) :
    ∃ c u, t ++ s = c :: u ∧ isWs c = false ∧ isAlpha c = false ∧ c ≠ '_' := by
  rcases ht with rfl | ⟨neg, c, ds, rfl, hc, _⟩
  · exact ⟨'0', s, rfl, by decide⟩
  · cases neg with
    | true => exact ⟨'-', c :: ds ++ s, by simp [signText], by decide⟩
    | false =>
      obtain ⟨_, hd, ha, hu⟩ := pos_digit_facts hc
      refine ⟨c, ds ++ s, by simp [signText], ?_, ha, hu⟩
      cases hw : isWs c with
      | false => rfl
      | true =>
        simp only [isWs, Bool.or_eq_true, decide_eq_true_eq] at hw
        rcases hw with (rfl | rfl) | rfl <;> simp [isDigit] at hd

/-- `field` fails on a text that starts with neither a letter nor `_`. -/
theorem field_fails_head (c : Char) (u : List Char) (ha : isAlpha c = false) (hu : c ≠ '_') :
    F (.ref R.field) (c :: u) := by
  apply Fails.ref
  show F e_field _
  simp only [e_field, seqs, alts]
  refine Fails.seq_left (Fails.cap (Fails.alt ?_ ?_))
  · apply Fails.ref
    show F e_fieldExpr _
    simp only [e_fieldExpr, seqs]
    exact Fails.seq_left (alpha_fails _ (by simpa [NotHead] using ha))
  · apply Fails.ref
    show F e_reserved _
    simp only [e_reserved, alts]
    have hh : ∀ w : List Char, (∃ as, w = '_' :: as) → F (lit w) (c :: u) := by
      intro w ⟨as, hw⟩
      exact lit_fails_head w c u ⟨'_', as, hw, fun e => hu e.symm⟩
    exact Fails.alt (hh _ ⟨_, rfl⟩) (Fails.alt (hh _ ⟨_, rfl⟩) (Fails.alt (hh _ ⟨_, rfl⟩)
      (Fails.alt (hh _ ⟨_, rfl⟩) (Fails.alt (hh _ ⟨_, rfl⟩) (hh _ ⟨_, rfl⟩)))))

def betweenText (lo : List Char) (sl : Bool) (k : Key) (sh : Bool) (hi : List Char) : List Char :=
  lo ++ ' ' :: (ltText sl ++ ' ' :: (k ++ ' ' :: (ltText sh ++ ' ' :: hi)))

def betweenEvs (lo : List Char) (sl : Bool) (k : Key) (sh : Bool) (hi : List Char) : List Ev :=
  [.act .startConditional, .text lo, .act .condAdd, .text (ltText sl), .act .condAdd, .text k, .act .condAdd,
   .text (ltText sh), .act .condAdd, .text hi, .act .condAdd, .act .endConditional]

theorem ltText_noWs (s : Bool) (r : List Char) : NoWs (ltText s ++ r) := by
  cases s <;> simp [ltText, NoWs, isWs]

theorem arg_between_ok (lo hi : List Char) (sl sh : Bool) (k : Key) (hlo : CondIntText lo) (hhi : CondIntText hi)
    (hk : FieldName k) (d : Char) (r : List Char) (hd : d = ',' ∨ d = ')') :
    P (.ref R.arg) (betweenText lo sl k sh hi ++ d :: r) (d :: r) (betweenEvs lo sl k sh hi) := by
  have hdws : NoWs (d :: r) := by rcases hd with rfl | rfl <;> simp [NoWs, isWs]
  have hdd : NotHead isDigit (d :: r) := by rcases hd with rfl | rfl <;> simp [NotHead, isDigit]
  obtain ⟨c, u, htext, _, ha, hu⟩ := condInt_head lo (' ' :: (ltText sl ++ ' ' :: (k ++ ' ' :: (ltText sh ++ ' ' :: (hi ++ d :: r))))) hlo
  have hff := field_fails_head c u ha hu
  obtain ⟨kc, kcs, rfl, hkc, hkcs⟩ := hk
  have hk' : FieldName (kc :: kcs) := ⟨kc, kcs, rfl, hkc, hkcs⟩
  obtain ⟨c5, u5, h5, hw5, _⟩ := condInt_head hi (d :: r) hhi
  have hn5 : NoWs (hi ++ d :: r) := by rw [h5]; exact noWs_of_head hw5
  have p5 := condint_ok hi (d :: r) (d :: r) hhi hdd (sp_nil hdws)
  have p4 := condLT_ok sh (hi ++ d :: r) hn5
  have hn4 : NoWs (ltText sh ++ ' ' :: (hi ++ d :: r)) := ltText_noWs _ _
  have p3 := condfield_ok (kc :: kcs) _ hk' hn4
  have hn3 : NoWs ((kc :: kcs) ++ ' ' :: (ltText sh ++ ' ' :: (hi ++ d :: r))) := alpha_noWs hkc _
  have p2 := condLT_ok sl _ hn3
  have hn2 : NoWs (ltText sl ++ ' ' :: ((kc :: kcs) ++ ' ' :: (ltText sh ++ ' ' :: (hi ++ d :: r)))) := ltText_noWs _ _
  have p1 := condint_ok lo (' ' :: (ltText sl ++ ' ' :: ((kc :: kcs) ++ ' ' :: (ltText sh ++ ' ' :: (hi ++ d :: r)))))
    _ hlo (by simp [NotHead, isDigit]) (sp_one hn2)
  have hcond : P (.ref R.conditional)
      (lo ++ ' ' :: (ltText sl ++ ' ' :: ((kc :: kcs) ++ ' ' :: (ltText sh ++ ' ' :: (hi ++ d :: r))))) (d :: r)
      (betweenEvs lo sl (kc :: kcs) sh hi) := by
    apply Parses.ref
    show P e_conditional _ _ _
    simp only [e_conditional, seqs]
    have := Parses.seq (Parses.act (rule := Gen.rule) .startConditional _)
      (Parses.seq p1 (Parses.seq p2 (Parses.seq p3 (Parses.seq p4 (Parses.seq p5 (Parses.act .endConditional (d :: r)))))))
    simpa [betweenEvs] using this
  have etext : betweenText lo sl (kc :: kcs) sh hi ++ d :: r =
      lo ++ ' ' :: (ltText sl ++ ' ' :: ((kc :: kcs) ++ ' ' :: (ltText sh ++ ' ' :: (hi ++ d :: r)))) := by
    simp [betweenText, List.append_assoc]
  rw [etext]
  apply Parses.ref
  show P e_arg _ _ _
  simp only [e_arg, alts, seqs]
  rw [htext] at hcond ⊢
  exact Parses.alt_right (Fails.seq_left hff) (Parses.alt_right (Fails.seq_left hff) hcond)

/-- `lo < key <= hi` written with int64 bounds. -/
def betweenArg (lo : Int) (sl : Bool) (k : Key) (sh : Bool) (hi : Int) : LArg :=
  ⟨k, betweenText (intDigits lo) sl k sh (intDigits hi), betweenEvs (intDigits lo) sl k sh (intDigits hi),
   .cond .BETWEEN (.list [.int (if sl then lo + 1 else lo), .int (if sh then hi - 1 else hi)])⟩

theorem betweenArg_syn (lo hi : Int) (sl sh : Bool) (k : Key) (hk : FieldName k) : (betweenArg lo sl k sh hi).Syn := by
  refine ⟨?_, ?_, ?_, fun d r hd => arg_between_ok _ _ sl sh k (intDigits_condInt lo) (intDigits_condInt hi) hk d r hd⟩
  · simp only [betweenArg, betweenText]; exact intDigits_noWs lo _
  · obtain ⟨c, u, h, _⟩ := condInt_head (intDigits lo) [] (intDigits_condInt lo)
    intro e
    simp only [betweenArg, betweenText] at e
    simp at e
  · intro s
    obtain ⟨c, u, h, _, ha, _⟩ := condInt_head (intDigits lo)
      (' ' :: (ltText sl ++ ' ' :: (k ++ ' ' :: (ltText sh ++ ' ' :: intDigits hi))) ++ s) (intDigits_condInt lo)
    have e : (betweenArg lo sl k sh hi).text ++ s = c :: u := by
      rw [← h]; simp [betweenArg, betweenText, List.append_assoc]
    rw [e]
    exact call_fails_head c u ha

theorem clamp_intDigits (i : Int) (h1 : minInt64 ≤ i) (h2 : i ≤ maxInt64) : parseInt64Clamp (intDigits i) = i := by
  simp only [parseInt64Clamp, parseIntText_intDigits]
  rw [if_neg (by omega), if_neg (by omega)]

theorem betweenArg_sem (lo hi : Int) (sl sh : Bool) (k : Key)
    (hlo : minInt64 ≤ lo ∧ lo ≤ maxInt64) (hhi : minInt64 ≤ hi ∧ hi ≤ maxInt64)
    (hsl : sl = true → lo < maxInt64) (hsh : sh = true → minInt64 < hi) : (betweenArg lo sl k sh hi).Sem := by
  intro q e rest evs' hq hqc he hl
  refine ⟨intDigits hi, ?_⟩
  have hlow : (if ltText sl = ['<'] then incWrap (parseInt64Clamp (intDigits lo)) else parseInt64Clamp (intDigits lo)) =
      (if sl then lo + 1 else lo) := by
    rw [clamp_intDigits lo hlo.1 hlo.2]
    cases sl with
    | false => simp [ltText]
    | true =>
      have := hsl rfl
      simp only [ltText, if_true, incWrap]
      rw [if_neg (by omega)]
  have hhigh : (if ltText sh = ['<'] then decWrap (parseInt64Clamp (intDigits hi)) else parseInt64Clamp (intDigits hi)) =
      (if sh then hi - 1 else hi) := by
    rw [clamp_intDigits hi hhi.1 hhi.2]
    cases sh with
    | false => simp [ltText]
    | true =>
      have := hsh rfl
      simp only [ltText, if_true, decWrap]
      rw [if_neg (by omega)]
  have hl' : (lookup k e.args).isSome = false := by
    have : lookup k e.args = none := hl
    simp [this]
  simp only [betweenArg, betweenEvs, List.cons_append, List.nil_append]
  simp only [exec, stepEv, stepAct, startConditional, endConditional, hq, hqc, List.nil_append, List.cons_append,
    hlow, hhigh, hl', Bool.false_eq_true, if_false]

end PV.C26
