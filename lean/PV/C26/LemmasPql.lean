/-
C26 — lemmas about the regenerated PQL grammar (`Gen.rule`): what the token rules and the
alternatives of `item` do on the text `Call.String` prints.  Core Lean only.
-/
import PV.C26.LemmasPeg
import PV.C26.Gen
import PV.C26.Model
import PV.C26.LemmasNum
import PV.C26.LemmasStr
namespace PV.C26
open Gen

abbrev P := Parses Gen.rule
abbrev F := Fails Gen.rule

def isWs (c : Char) : Bool := c = ' ' || c = '\t' || c = '\n'

/-- `r` does not start with white space. -/
def NoWs : List Char → Prop
  | [] => True
  | c :: _ => isWs c = false

theorem ws_class_fails {r : List Char} (h : NoWs r) :
    F (alts [.chr ' ', .chr '\t', .chr '\n']) r := by
  simp only [alts]
  cases r with
  | nil => exact Fails.alt (Fails.chr_nil _) (Fails.alt (Fails.chr_nil _) (Fails.chr_nil _))
  | cons c t =>
    simp only [NoWs, isWs, Bool.or_eq_false_iff, decide_eq_false_iff_not] at h
    exact Fails.alt (Fails.chr_ne t h.1.1) (Fails.alt (Fails.chr_ne t h.1.2) (Fails.chr_ne t h.2))

theorem sp_nil {r : List Char} (h : NoWs r) : P (.ref R.sp) r r [] := by
  apply Parses.ref
  show P e_sp r r []
  simp only [e_sp]
  exact Parses.star_nil (ws_class_fails h)

theorem sp_one {r : List Char} (h : NoWs r) : P (.ref R.sp) (' ' :: r) r [] := by
  apply Parses.ref
  show P e_sp (' ' :: r) r []
  simp only [e_sp]
  have h1 : P (alts [.chr ' ', .chr '\t', .chr '\n']) (' ' :: r) r [] := by
    simp only [alts]; exact Parses.alt_left (Parses.chr _ _)
  have h2 : P (.star (alts [.chr ' ', .chr '\t', .chr '\n'])) r r [] := Parses.star_nil (ws_class_fails h)
  simpa using Parses.star_cons h1 h2

/-- `sp` never fails. -/
theorem sp_total (s : List Char) : ∃ s', P (.ref R.sp) s s' [] := by
  induction s with
  | nil => exact ⟨[], sp_nil trivial⟩
  | cons c t ih =>
    by_cases hw : isWs c = true
    · obtain ⟨s', hs'⟩ := ih
      refine ⟨s', ?_⟩
      apply Parses.ref
      show P e_sp (c :: t) s' []
      simp only [e_sp]
      have h1 : P (alts [.chr ' ', .chr '\t', .chr '\n']) (c :: t) t [] := by
        simp only [alts]
        simp only [isWs, Bool.or_eq_true, decide_eq_true_eq] at hw
        rcases hw with (rfl | rfl) | rfl
        · exact Parses.alt_left (Parses.chr _ _)
        · exact Parses.alt_right (Fails.chr_ne _ (by decide)) (Parses.alt_left (Parses.chr _ _))
        · exact Parses.alt_right (Fails.chr_ne _ (by decide))
            (Parses.alt_right (Fails.chr_ne _ (by decide)) (Parses.chr _ _))
      obtain ⟨n, hn⟩ := hs'
      have h2 : P e_sp t s' [] := by
        cases n with
        | zero => simp [run_zero] at hn
        | succ k => exact ⟨k, by rw [run_ref] at hn; exact hn⟩
      simp only [e_sp] at h2
      simpa using Parses.star_cons h1 h2
    · exact ⟨c :: t, sp_nil (by simpa [NoWs] using hw)⟩

/-- `r` does not start with a character satisfying `p`. -/
def NotHead (p : Char → Bool) : List Char → Prop
  | [] => True
  | c :: _ => p c = false

theorem star_class {cls : PExpr} {p : Char → Bool}
    (hok : ∀ x t, p x = true → P cls (x :: t) t [])
    (hfail : ∀ s, NotHead p s → F cls s)
    (w r : List Char) (hw : ∀ x ∈ w, p x = true) (hr : NotHead p r) :
    P (.star cls) (w ++ r) r [] := by
  induction w with
  | nil => exact Parses.star_nil (hfail r hr)
  | cons x xs ih =>
    have h1 := hok x (xs ++ r) (hw x (by simp))
    have h2 := ih (fun y hy => hw y (by simp [hy]))
    simpa using Parses.star_cons h1 h2

theorem comma_sp {r : List Char} (h : NoWs r) : P (.ref R.comma) (',' :: ' ' :: r) r [] := by
  apply Parses.ref
  show P e_comma _ r []
  simp only [e_comma, seqs, lit]
  have h1 : P (.ref R.sp) (',' :: ' ' :: r) (',' :: ' ' :: r) [] := sp_nil (by simp [NoWs, isWs])
  simpa using Parses.seq h1 (Parses.seq (Parses.chr ',' _) (sp_one h))

theorem comma_nosp {r : List Char} (h : NoWs r) : P (.ref R.comma) (',' :: r) r [] := by
  apply Parses.ref
  show P e_comma _ r []
  simp only [e_comma, seqs, lit]
  have h1 : P (.ref R.sp) (',' :: r) (',' :: r) [] := sp_nil (by simp [NoWs, isWs])
  simpa using Parses.seq h1 (Parses.seq (Parses.chr ',' _) (sp_nil h))

/-- `comma` fails where the next character is neither white space nor a comma. -/
theorem comma_fails {r : List Char} (h : NoWs r) (hc : NotHead (· = ',') r) : F (.ref R.comma) r := by
  apply Fails.ref
  show F e_comma r
  simp only [e_comma, seqs, lit]
  refine Fails.seq_right (sp_nil h) (Fails.seq_left ?_)
  cases r with
  | nil => exact Fails.chr_nil _
  | cons c t => exact Fails.chr_ne t (by simpa [NotHead] using hc)

theorem open_ok {r : List Char} (h : NoWs r) : P (.ref R.open') ('(' :: r) r [] := by
  apply Parses.ref
  show P e_open _ r []
  simp only [e_open, seqs, lit]
  simpa using Parses.seq (Parses.chr '(' r) (sp_nil h)

theorem open_fails {r : List Char} (h : NotHead (· = '(') r) : F (.ref R.open') r := by
  apply Fails.ref
  show F e_open r
  simp only [e_open, seqs, lit]
  refine Fails.seq_left ?_
  cases r with
  | nil => exact Fails.chr_nil _
  | cons c t => exact Fails.chr_ne t (by simpa [NotHead] using h)

theorem close_ok {r : List Char} (h : NoWs r) : P (.ref R.close) (')' :: r) r [] := by
  apply Parses.ref
  show P e_close _ r []
  simp only [e_close, seqs, lit]
  simpa using Parses.seq (Parses.chr ')' r) (sp_nil h)

theorem close_total (r : List Char) : ∃ r', P (.ref R.close) (')' :: r) r' [] := by
  obtain ⟨r', hr'⟩ := sp_total r
  refine ⟨r', ?_⟩
  apply Parses.ref
  show P e_close _ r' []
  simp only [e_close, seqs, lit]
  simpa using Parses.seq (Parses.chr ')' r) hr'

theorem close_fails {r : List Char} (h : NotHead (· = ')') r) : F (.ref R.close) r := by
  apply Fails.ref
  show F e_close r
  simp only [e_close, seqs, lit]
  refine Fails.seq_left ?_
  cases r with
  | nil => exact Fails.chr_nil _
  | cons c t => exact Fails.chr_ne t (by simpa [NotHead] using h)

/-! ### Identifiers and field names -/

def isLower (c : Char) : Bool := 'a' ≤ c && c ≤ 'z'
def isUpper (c : Char) : Bool := 'A' ≤ c && c ≤ 'Z'
def isAlpha (c : Char) : Bool := isLower c || isUpper c
def isAlnum (c : Char) : Bool := isAlpha c || isDigit c
def isFieldCh (c : Char) : Bool := isAlnum c || c = '_' || c = '-'

theorem alpha_ok (x : Char) (t : List Char) (h : isAlpha x = true) :
    P (alts [.rng 'a' 'z', .rng 'A' 'Z']) (x :: t) t [] := by
  simp only [alts]
  simp only [isAlpha, isLower, isUpper, Bool.or_eq_true, Bool.and_eq_true, decide_eq_true_eq] at h
  by_cases hl : 'a' ≤ x ∧ x ≤ 'z'
  · exact Parses.alt_left (Parses.rng t hl)
  · rcases h with h | h
    · exact absurd h hl
    · exact Parses.alt_right (Fails.rng_ne t hl) (Parses.rng t h)

theorem alpha_fails (s : List Char) (h : NotHead isAlpha s) : F (alts [.rng 'a' 'z', .rng 'A' 'Z']) s := by
  simp only [alts]
  cases s with
  | nil => exact Fails.alt (Fails.rng_nil _ _) (Fails.rng_nil _ _)
  | cons x t =>
    simp only [NotHead, isAlpha, isLower, isUpper, Bool.or_eq_false_iff, Bool.and_eq_false_iff,
      decide_eq_false_iff_not] at h
    refine Fails.alt (Fails.rng_ne t ?_) (Fails.rng_ne t ?_)
    · intro ⟨a, b⟩; rcases h.1 with h | h <;> contradiction
    · intro ⟨a, b⟩; rcases h.2 with h | h <;> contradiction

theorem digit_ok (x : Char) (t : List Char) (h : isDigit x = true) : P (.rng '0' '9') (x :: t) t [] := by
  simp only [isDigit, Bool.and_eq_true, decide_eq_true_eq] at h
  exact Parses.rng t h

theorem digit_fails (s : List Char) (h : NotHead isDigit s) : F (.rng '0' '9') s := by
  cases s with
  | nil => exact Fails.rng_nil _ _
  | cons x t =>
    simp only [NotHead, isDigit, Bool.and_eq_false_iff, decide_eq_false_iff_not] at h
    refine Fails.rng_ne t ?_
    intro ⟨a, b⟩; rcases h with h | h <;> contradiction

theorem alnum_ok (x : Char) (t : List Char) (h : isAlnum x = true) :
    P (alts [.rng 'a' 'z', .rng 'A' 'Z', .rng '0' '9']) (x :: t) t [] := by
  simp only [alts]
  by_cases hl : isLower x = true
  · exact Parses.alt_left (Parses.rng t (by simpa [isLower] using hl))
  · by_cases hu : isUpper x = true
    · exact Parses.alt_right (Fails.rng_ne t (by simpa [isLower] using hl))
        (Parses.alt_left (Parses.rng t (by simpa [isUpper] using hu)))
    · have hd : isDigit x = true := by
        simp only [isAlnum, isAlpha, Bool.or_eq_true] at h
        rcases h with (h | h) | h
        · exact absurd h hl
        · exact absurd h hu
        · exact h
      exact Parses.alt_right (Fails.rng_ne t (by simpa [isLower] using hl))
        (Parses.alt_right (Fails.rng_ne t (by simpa [isUpper] using hu)) (digit_ok x t hd))

theorem alnum_fails (s : List Char) (h : NotHead isAlnum s) :
    F (alts [.rng 'a' 'z', .rng 'A' 'Z', .rng '0' '9']) s := by
  simp only [alts]
  cases s with
  | nil => exact Fails.alt (Fails.rng_nil _ _) (Fails.alt (Fails.rng_nil _ _) (Fails.rng_nil _ _))
  | cons x t =>
    simp only [NotHead, isAlnum, isAlpha, Bool.or_eq_false_iff] at h
    obtain ⟨⟨hl, hu⟩, hd⟩ := h
    exact Fails.alt (Fails.rng_ne t (by simpa [isLower] using hl))
      (Fails.alt (Fails.rng_ne t (by simpa [isUpper] using hu)) (digit_fails (x :: t) hd))

/-- An identifier: a letter followed by letters and digits. -/
def IdentName (w : List Char) : Prop :=
  ∃ c cs, w = c :: cs ∧ isAlpha c = true ∧ ∀ x ∈ cs, isAlnum x = true

theorem ident_ok {w r : List Char} (hw : IdentName w) (hr : NotHead isAlnum r) :
    P (.ref R.IDENT) (w ++ r) r [] := by
  obtain ⟨c, cs, rfl, hc, hcs⟩ := hw
  apply Parses.ref
  show P e_IDENT _ r []
  simp only [e_IDENT, seqs]
  have h1 := alpha_ok c (cs ++ r) hc
  have h2 := star_class alnum_ok alnum_fails cs r hcs hr
  simpa using Parses.seq h1 h2

theorem ident_fails {s : List Char} (h : NotHead isAlpha s) : F (.ref R.IDENT) s := by
  apply Fails.ref
  show F e_IDENT s
  simp only [e_IDENT, seqs]
  exact Fails.seq_left (alpha_fails s h)

theorem fieldch_ok (x : Char) (t : List Char) (h : isFieldCh x = true) :
    P (alts [.rng 'a' 'z', .rng 'A' 'Z', .rng '0' '9', .chr '_', .chr '-']) (x :: t) t [] := by
  simp only [alts]
  by_cases hl : isLower x = true
  · exact Parses.alt_left (Parses.rng t (by simpa [isLower] using hl))
  refine Parses.alt_right (Fails.rng_ne t (by simpa [isLower] using hl)) ?_
  by_cases hu : isUpper x = true
  · exact Parses.alt_left (Parses.rng t (by simpa [isUpper] using hu))
  refine Parses.alt_right (Fails.rng_ne t (by simpa [isUpper] using hu)) ?_
  by_cases hd : isDigit x = true
  · exact Parses.alt_left (digit_ok x t hd)
  refine Parses.alt_right (digit_fails (x :: t) (by simpa [NotHead] using hd)) ?_
  by_cases h_ : x = '_'
  · subst h_; exact Parses.alt_left (Parses.chr _ _)
  refine Parses.alt_right (Fails.chr_ne t h_) ?_
  have : x = '-' := by
    simp only [isFieldCh, isAlnum, isAlpha, Bool.or_eq_true, decide_eq_true_eq] at h
    rcases h with ((((h | h) | h) | h) | h)
    · exact absurd h hl
    · exact absurd h hu
    · exact absurd h hd
    · exact absurd h h_
    · exact h
  subst this; exact Parses.chr _ _

theorem fieldch_fails (s : List Char) (h : NotHead isFieldCh s) :
    F (alts [.rng 'a' 'z', .rng 'A' 'Z', .rng '0' '9', .chr '_', .chr '-']) s := by
  simp only [alts]
  cases s with
  | nil =>
    exact Fails.alt (Fails.rng_nil _ _) (Fails.alt (Fails.rng_nil _ _) (Fails.alt (Fails.rng_nil _ _)
      (Fails.alt (Fails.chr_nil _) (Fails.chr_nil _))))
  | cons x t =>
    simp only [NotHead, isFieldCh, isAlnum, isAlpha, Bool.or_eq_false_iff, decide_eq_false_iff_not] at h
    obtain ⟨⟨⟨⟨hl, hu⟩, hd⟩, h_⟩, hm⟩ := h
    exact Fails.alt (Fails.rng_ne t (by simpa [isLower] using hl))
      (Fails.alt (Fails.rng_ne t (by simpa [isUpper] using hu))
        (Fails.alt (digit_fails (x :: t) hd) (Fails.alt (Fails.chr_ne t h_) (Fails.chr_ne t hm))))

/-- A field name: a letter followed by letters, digits, `_`, `-` (rule fieldExpr). -/
def FieldName (w : List Char) : Prop :=
  ∃ c cs, w = c :: cs ∧ isAlpha c = true ∧ ∀ x ∈ cs, isFieldCh x = true

theorem fieldExpr_ok {w r : List Char} (hw : FieldName w) (hr : NotHead isFieldCh r) :
    P (.ref R.fieldExpr) (w ++ r) r [] := by
  obtain ⟨c, cs, rfl, hc, hcs⟩ := hw
  apply Parses.ref
  show P e_fieldExpr _ r []
  simp only [e_fieldExpr, seqs]
  have h1 := alpha_ok c (cs ++ r) hc
  have h2 := star_class fieldch_ok fieldch_fails cs r hcs hr
  simpa using Parses.seq h1 h2

/-- `field` on a field name: records the name and the action `addField(text)`. -/
theorem field_ok {w r : List Char} (hw : FieldName w) (hr : NotHead isFieldCh r) :
    P (.ref R.field) (w ++ r) r [.text w, .act (.addField .text)] := by
  apply Parses.ref
  show P e_field _ r _
  simp only [e_field, seqs, alts]
  have h1 : P (.cap (.alt (.ref R.fieldExpr) (.ref R.reserved))) (w ++ r) r ([] ++ [.text w]) :=
    Parses.cap_prefix (Parses.alt_left (fieldExpr_ok hw hr))
  simpa using Parses.seq h1 (Parses.act (.addField .text) r)


/-! ### Reserved keys -/

/-- The reserved argument names of the grammar (`field <- <fieldExpr / reserved>`). -/
def reservedKws : List (List Char) :=
  [['_', 'r', 'o', 'w'], ['_', 'c', 'o', 'l'], ['_', 's', 't', 'a', 'r', 't'], ['_', 'e', 'n', 'd'],
   ['_', 't', 'i', 'm', 'e', 's', 't', 'a', 'm', 'p'], ['_', 'f', 'i', 'e', 'l', 'd']]

/-- An argument key: a field name or one of the reserved names. -/
def KeyName (k : List Char) : Prop := FieldName k ∨ k ∈ reservedKws

theorem reserved_head {w : List Char} (h : w ∈ reservedKws) : ∃ t, w = '_' :: t := by
  simp only [reservedKws, List.mem_cons, List.not_mem_nil, or_false] at h
  rcases h with rfl | rfl | rfl | rfl | rfl | rfl <;> exact ⟨_, rfl⟩

theorem KeyName.head {k : List Char} (h : KeyName k) : ∃ c cs, k = c :: cs ∧ (isAlpha c = true ∨ c = '_') := by
  rcases h with ⟨c, cs, rfl, hc, _⟩ | h
  · exact ⟨c, cs, rfl, Or.inl hc⟩
  · obtain ⟨t, rfl⟩ := reserved_head h; exact ⟨'_', t, rfl, Or.inr rfl⟩

theorem KeyName.ne_nil {k : List Char} (h : KeyName k) : k ≠ [] := by
  obtain ⟨c, cs, rfl, _⟩ := h.head; simp

theorem KeyName.noWs {k : List Char} (h : KeyName k) (s : List Char) : NoWs (k ++ s) := by
  obtain ⟨c, cs, rfl, hc⟩ := h.head
  simp only [List.cons_append, NoWs]
  cases hw : isWs c with
  | false => rfl
  | true =>
    simp only [isWs, Bool.or_eq_true, decide_eq_true_eq] at hw
    rcases hc with hc | rfl
    · rcases hw with (rfl | rfl) | rfl <;> simp [isAlpha, isLower, isUpper] at hc
    · revert hw; decide

theorem reserved_ok {w : List Char} (r : List Char) (hw : w ∈ reservedKws) : P (.ref R.reserved) (w ++ r) r [] := by
  have nf : ∀ (a b : List Char), a ≠ [] → (¬ a <+: b ++ r) → F (lit a) (b ++ r) := fun a b h1 h2 => Fails.lit a _ h1 h2
  apply Parses.ref
  show P e_reserved _ _ _
  simp only [e_reserved, alts]
  simp only [reservedKws, List.mem_cons, List.not_mem_nil, or_false] at hw
  rcases hw with rfl | rfl | rfl | rfl | rfl | rfl
  · exact Parses.alt_left (Parses.lit _ r)
  · exact Parses.alt_right (nf _ _ (by simp) (by intro ⟨u, hu⟩; simp at hu)) (Parses.alt_left (Parses.lit _ r))
  · exact Parses.alt_right (nf _ _ (by simp) (by intro ⟨u, hu⟩; simp at hu))
      (Parses.alt_right (nf _ _ (by simp) (by intro ⟨u, hu⟩; simp at hu)) (Parses.alt_left (Parses.lit _ r)))
  · exact Parses.alt_right (nf _ _ (by simp) (by intro ⟨u, hu⟩; simp at hu))
      (Parses.alt_right (nf _ _ (by simp) (by intro ⟨u, hu⟩; simp at hu))
      (Parses.alt_right (nf _ _ (by simp) (by intro ⟨u, hu⟩; simp at hu)) (Parses.alt_left (Parses.lit _ r))))
  · exact Parses.alt_right (nf _ _ (by simp) (by intro ⟨u, hu⟩; simp at hu))
      (Parses.alt_right (nf _ _ (by simp) (by intro ⟨u, hu⟩; simp at hu))
      (Parses.alt_right (nf _ _ (by simp) (by intro ⟨u, hu⟩; simp at hu))
      (Parses.alt_right (nf _ _ (by simp) (by intro ⟨u, hu⟩; simp at hu)) (Parses.alt_left (Parses.lit _ r)))))
  · exact Parses.alt_right (nf _ _ (by simp) (by intro ⟨u, hu⟩; simp at hu))
      (Parses.alt_right (nf _ _ (by simp) (by intro ⟨u, hu⟩; simp at hu))
      (Parses.alt_right (nf _ _ (by simp) (by intro ⟨u, hu⟩; simp at hu))
      (Parses.alt_right (nf _ _ (by simp) (by intro ⟨u, hu⟩; simp at hu))
      (Parses.alt_right (nf _ _ (by simp) (by intro ⟨u, hu⟩; simp at hu)) (Parses.lit _ r)))))

theorem fieldExpr_fails_head (c : Char) (t : List Char) (h : isAlpha c = false) : F (.ref R.fieldExpr) (c :: t) := by
  apply Fails.ref
  show F e_fieldExpr _
  simp only [e_fieldExpr, seqs]
  exact Fails.seq_left (alpha_fails _ (by simpa [NotHead] using h))

/-- `field` on an argument key (field name or reserved name). -/
theorem key_ok {w r : List Char} (hw : KeyName w) (hr : NotHead isFieldCh r) :
    P (.ref R.field) (w ++ r) r [.text w, .act (.addField .text)] := by
  rcases hw with hw | hw
  · exact field_ok hw hr
  · obtain ⟨t, ht⟩ := reserved_head hw
    apply Parses.ref
    show P e_field _ r _
    simp only [e_field, seqs, alts]
    have hf : F (.ref R.fieldExpr) (w ++ r) := by rw [ht]; exact fieldExpr_fails_head '_' _ (by decide)
    have h1 : P (.cap (.alt (.ref R.fieldExpr) (.ref R.reserved))) (w ++ r) r ([] ++ [.text w]) :=
      Parses.cap_prefix (Parses.alt_right hf (reserved_ok r hw))
    simpa using Parses.seq h1 (Parses.act (.addField .text) r)

/-- A literal fails on an input that starts with another character than the literal. -/
theorem lit_fails_head (w : List Char) (c : Char) (t : List Char) (hw : ∃ a as, w = a :: as ∧ a ≠ c) :
    F (lit w) (c :: t) := by
  obtain ⟨a, as, rfl, hne⟩ := hw
  refine Fails.lit _ _ (by simp) ?_
  intro ⟨u, hu⟩
  simp at hu
  exact hne hu.1

theorem lit_fails_nil (w : List Char) (hw : w ≠ []) : F (lit w) [] := by
  refine Fails.lit _ _ hw ?_
  intro ⟨u, hu⟩
  cases w with
  | nil => exact hw rfl
  | cons a as => simp at hu

theorem seq_digit_fails_nil {rest : PExpr} : F (.seq (.rng '0' '9') rest) [] :=
  Fails.seq_left (Fails.rng_nil _ _)

/-- One digit position of a digit sequence: fails when the character is not a digit or the rest fails. -/
theorem seq_digit_fails_cons {rest : PExpr} {x : Char} {t : List Char}
    (h : isDigit x = false ∨ F rest t) : F (.seq (.rng '0' '9') rest) (x :: t) := by
  by_cases hd : isDigit x = true
  · rcases h with h | h
    · rw [hd] at h; exact absurd h (by simp)
    · exact Fails.seq_right (digit_ok x t hd) h
  · exact Fails.seq_left (digit_fails (x :: t) (by simpa [NotHead] using hd))

/-- `timestampbasicfmt` needs four digits and a dash first. -/
def tsPrefix5 : List Char → Bool
  | [] => false
  | a :: s1 => isDigit a && (match s1 with
    | [] => false
    | b :: s2 => isDigit b && (match s2 with
      | [] => false
      | c :: s3 => isDigit c && (match s3 with
        | [] => false
        | d :: s4 => isDigit d && (match s4 with
          | [] => false
          | e :: _ => e = '-'))))

theorem tsbasic_fails {s : List Char} (h : tsPrefix5 s = false) : F (.ref R.timestampbasicfmt) s := by
  apply Fails.ref
  show F e_timestampbasicfmt s
  simp only [e_timestampbasicfmt, seqs, lit]
  cases s with
  | nil => exact seq_digit_fails_nil
  | cons a s1 =>
    apply seq_digit_fails_cons
    by_cases ha : isDigit a = true
    · right
      cases s1 with
      | nil => exact seq_digit_fails_nil
      | cons b s2 =>
        apply seq_digit_fails_cons
        by_cases hb : isDigit b = true
        · right
          cases s2 with
          | nil => exact seq_digit_fails_nil
          | cons c s3 =>
            apply seq_digit_fails_cons
            by_cases hc : isDigit c = true
            · right
              cases s3 with
              | nil => exact seq_digit_fails_nil
              | cons d s4 =>
                apply seq_digit_fails_cons
                by_cases hd : isDigit d = true
                · right
                  cases s4 with
                  | nil => exact Fails.seq_left (Fails.chr_nil _)
                  | cons e s5 =>
                    refine Fails.seq_left (Fails.chr_ne s5 ?_)
                    simpa [tsPrefix5, ha, hb, hc, hd] using h
                · left; simpa using hd
            · left; simpa using hc
        · left; simpa using hb
    · left; simpa using ha

/-- `timestampfmt` fails on a text that does not begin with a quote and is not timestamp shaped. -/
theorem tsfmt_fails {c : Char} {t : List Char} (h1 : c ≠ '"') (h2 : c ≠ '\'') (h : tsPrefix5 (c :: t) = false) :
    F (.ref R.timestampfmt) (c :: t) := by
  apply Fails.ref
  show F e_timestampfmt _
  simp only [e_timestampfmt, seqs, alts, lit]
  exact Fails.alt (Fails.seq_left (Fails.chr_ne t h1))
    (Fails.alt (Fails.seq_left (Fails.chr_ne t h2)) (Fails.cap (tsbasic_fails h)))


theorem digits_star (ds r : List Char) (hall : ∀ c ∈ ds, isDigit c = true) (hr : NotHead isDigit r) :
    P (.star (.rng '0' '9')) (ds ++ r) r [] :=
  star_class digit_ok digit_fails ds r hall hr

theorem digits_plus (ds r : List Char) (hne : ds ≠ []) (hall : ∀ c ∈ ds, isDigit c = true)
    (hr : NotHead isDigit r) : P (plus (.rng '0' '9')) (ds ++ r) r [] := by
  cases ds with
  | nil => exact absurd rfl hne
  | cons d ds' =>
    simp only [plus]
    have h1 := digit_ok d (ds' ++ r) (hall d (by simp))
    have h2 := digits_star ds' r (fun c hc => hall c (by simp [hc])) hr
    simpa using Parses.seq h1 h2

def signText (neg : Bool) : List Char := if neg then ['-'] else []

theorem opt_minus (neg : Bool) (s : List Char) (hs : NotHead (· = '-') s) :
    P (.opt (.chr '-')) (signText neg ++ s) s [] := by
  cases neg with
  | true => exact Parses.opt_some (Parses.chr '-' s)
  | false =>
    refine Parses.opt_none ?_
    cases s with
    | nil => exact Fails.chr_nil _
    | cons c t => exact Fails.chr_ne t (by simpa [NotHead] using hs)

theorem digits_head_not_minus (ds r : List Char) (hne : ds ≠ []) (hall : ∀ c ∈ ds, isDigit c = true) :
    NotHead (· = '-') (ds ++ r) := by
  cases ds with
  | nil => exact absurd rfl hne
  | cons d ds' =>
    simp only [List.cons_append, NotHead, decide_eq_false_iff_not]
    exact isDigit_ne_minus d (hall d (by simp))

/-- The first numeric alternative of `item` on an integer text: captures sign and digits. -/
theorem num_int_ok (neg : Bool) (ds r : List Char) (hne : ds ≠ []) (hall : ∀ c ∈ ds, isDigit c = true)
    (hr1 : NotHead isDigit r) (hr2 : NotHead (· = '.') r) :
    P (.cap (seqs [.opt (.chr '-'), plus (.rng '0' '9'), .opt (seqs [lit ['.'], .star (.rng '0' '9')])]))
      ((signText neg ++ ds) ++ r) r [.text (signText neg ++ ds)] := by
  have h1 := opt_minus neg (ds ++ r) (digits_head_not_minus ds r hne hall)
  have h2 := digits_plus ds r hne hall hr1
  have h3 : P (.opt (seqs [lit ['.'], .star (.rng '0' '9')])) r r [] := by
    refine Parses.opt_none ?_
    simp only [seqs, lit]
    refine Fails.seq_left ?_
    cases r with
    | nil => exact Fails.chr_nil _
    | cons c t => exact Fails.chr_ne t (by simpa [NotHead] using hr2)
  have h := Parses.seq h1 (Parses.seq h2 h3)
  have hc := Parses.cap_prefix (w := signText neg ++ ds) (r := r) (a := seqs [.opt (.chr '-'), plus (.rng '0' '9'),
    .opt (seqs [lit ['.'], .star (.rng '0' '9')])]) (evs := [] ++ ([] ++ [])) (by simpa [seqs] using h)
  simpa using hc


/-- What follows a value in a printed call: `,` (next argument / element), `)` or `]`. -/
def Delim (d : Char) : Prop := d = ',' ∨ d = ')' ∨ d = ']'

theorem Delim.facts {d : Char} (h : Delim d) :
    isDigit d = false ∧ d ≠ '.' ∧ d ≠ '-' ∧ isWs d = false ∧ isFieldCh d = false ∧ d ≠ '"' ∧ d ≠ '\'' ∧
      d ≠ '(' ∧ d ≠ '=' := by
  rcases h with rfl | rfl | rfl <;> decide

theorem num_text_head (neg : Bool) (ds s : List Char) (hne : ds ≠ []) (hall : ∀ c ∈ ds, isDigit c = true) :
    ∃ c t, signText neg ++ ds ++ s = c :: t ∧ (c = '-' ∨ isDigit c = true) := by
  cases neg with
  | true => exact ⟨'-', ds ++ s, rfl, Or.inl rfl⟩
  | false =>
    cases ds with
    | nil => exact absurd rfl hne
    | cons x xs => exact ⟨x, xs ++ s, rfl, Or.inr (hall x (by simp))⟩

theorem digit_facts {c : Char} (h : isDigit c = true) :
    c ≠ 'n' ∧ c ≠ 't' ∧ c ≠ 'f' ∧ c ≠ '"' ∧ c ≠ '\'' ∧ c ≠ '-' := by
  simp only [isDigit, Bool.and_eq_true, decide_eq_true_eq] at h
  obtain ⟨h1, h2⟩ := h
  refine ⟨?_, ?_, ?_, ?_, ?_, ?_⟩ <;> (intro e; subst e; revert h1 h2; decide)

theorem tsPrefix5_digits (ds : List Char) (d : Char) (r : List Char) (hall : ∀ c ∈ ds, isDigit c = true)
    (hd : isDigit d = false) (hm : d ≠ '-') : tsPrefix5 (ds ++ d :: r) = false := by
  match ds, hall with
  | [], _ => simp [tsPrefix5, hd]
  | [a], _ => simp [tsPrefix5, hd]
  | [a, b], _ => simp [tsPrefix5, hd]
  | [a, b, c], _ => simp [tsPrefix5, hd]
  | [a, b, c, e], _ => simp [tsPrefix5, hm]
  | a :: b :: c :: e :: f :: rest, hall =>
    have hf : f ≠ '-' := (digit_facts (hall f (by simp))).2.2.2.2.2
    simp [tsPrefix5, hf]

theorem item_int_ok (neg : Bool) (ds r : List Char) (d : Char) (hne : ds ≠ [])
    (hall : ∀ c ∈ ds, isDigit c = true) (hd : Delim d) :
    P (.ref R.item) ((signText neg ++ ds) ++ d :: r) (d :: r)
      [.text (signText neg ++ ds), .act .addNumVal] := by
  obtain ⟨f1, f2, f3, f4, f5, f6, f7, f8, f9⟩ := hd.facts
  obtain ⟨c, t, htext, hc⟩ := num_text_head neg ds (d :: r) hne hall
  have hcf : c ≠ 'n' ∧ c ≠ 't' ∧ c ≠ 'f' ∧ c ≠ '"' ∧ c ≠ '\'' := by
    rcases hc with rfl | hc
    · decide
    · obtain ⟨a, b, c', d', e', _⟩ := digit_facts hc; exact ⟨a, b, c', d', e'⟩
  have hts : tsPrefix5 (signText neg ++ ds ++ d :: r) = false := by
    cases neg with
    | true => simp [signText, tsPrefix5, isDigit]
    | false => simpa [signText] using tsPrefix5_digits ds d r hall f1 f3
  apply Parses.ref
  show P e_item _ _ _
  simp only [e_item, alts, seqs]
  refine Parses.alt_right (Fails.seq_left ?_) (Parses.alt_right (Fails.seq_left ?_)
    (Parses.alt_right (Fails.seq_left ?_) (Parses.alt_right (Fails.seq_left ?_) (Parses.alt_left ?_))))
  · rw [htext]; exact lit_fails_head _ c t ⟨_, _, rfl, fun e => hcf.1 e.symm⟩
  · rw [htext]; exact lit_fails_head _ c t ⟨_, _, rfl, fun e => hcf.2.1 e.symm⟩
  · rw [htext]; exact lit_fails_head _ c t ⟨_, _, rfl, fun e => hcf.2.2.1 e.symm⟩
  · rw [htext] at hts ⊢; exact tsfmt_fails hcf.2.2.2.1 hcf.2.2.2.2 hts
  · have h := num_int_ok neg ds (d :: r) hne hall (by simpa [NotHead] using f1) (by simpa [NotHead] using f2)
    simpa [seqs] using Parses.seq h (Parses.act .addNumVal (d :: r))

/-- The lookahead of the keyword literals: `&(comma / sp close)` holds before `,` and before `)`. -/
theorem kw_lookahead (d : Char) (r : List Char) (hd : d = ',' ∨ d = ')') :
    P (.andP (alts [.ref R.comma, seqs [.ref R.sp, .ref R.close]])) (d :: r) (d :: r) [] := by
  simp only [alts, seqs]
  rcases hd with rfl | rfl
  · -- comma: sp (nothing), ',', sp (whatever follows)
    obtain ⟨r', hr'⟩ := sp_total r
    have hc : P (.ref R.comma) (',' :: r) r' [] := by
      apply Parses.ref
      show P e_comma _ r' []
      simp only [e_comma, seqs, lit]
      have h1 : P (.ref R.sp) (',' :: r) (',' :: r) [] := sp_nil (by simp [NoWs, isWs])
      simpa using Parses.seq h1 (Parses.seq (Parses.chr ',' r) hr')
    exact Parses.andP (Parses.alt_left hc)
  · obtain ⟨r', hr'⟩ := close_total r
    have hs : P (.ref R.sp) (')' :: r) (')' :: r) [] := sp_nil (by simp [NoWs, isWs])
    have hcomma : F (.ref R.comma) (')' :: r) := comma_fails (by simp [NoWs, isWs]) (by simp [NotHead])
    exact Parses.andP (Parses.alt_right hcomma (Parses.seq hs hr'))

theorem item_null_ok (d : Char) (r : List Char) (hd : d = ',' ∨ d = ')') :
    P (.ref R.item) (['n', 'u', 'l', 'l'] ++ d :: r) (d :: r) [.act (.addVal .null)] := by
  apply Parses.ref
  show P e_item _ _ _
  simp only [e_item, alts, seqs]
  refine Parses.alt_left ?_
  have h1 := Parses.lit (rule := Gen.rule) ['n', 'u', 'l', 'l'] (d :: r)
  simpa [alts, seqs] using Parses.seq h1 (Parses.seq (kw_lookahead d r hd) (Parses.act (.addVal .null) (d :: r)))

theorem item_true_ok (d : Char) (r : List Char) (hd : d = ',' ∨ d = ')') :
    P (.ref R.item) (['t', 'r', 'u', 'e'] ++ d :: r) (d :: r) [.act (.addVal (.bool true))] := by
  apply Parses.ref
  show P e_item _ _ _
  simp only [e_item, alts, seqs]
  refine Parses.alt_right (Fails.seq_left (lit_fails_head _ 't' _ ⟨_, _, rfl, by decide⟩)) (Parses.alt_left ?_)
  have h1 := Parses.lit (rule := Gen.rule) ['t', 'r', 'u', 'e'] (d :: r)
  simpa [alts, seqs] using Parses.seq h1 (Parses.seq (kw_lookahead d r hd) (Parses.act (.addVal (.bool true)) (d :: r)))

theorem item_false_ok (d : Char) (r : List Char) (hd : d = ',' ∨ d = ')') :
    P (.ref R.item) (['f', 'a', 'l', 's', 'e'] ++ d :: r) (d :: r) [.act (.addVal (.bool false))] := by
  apply Parses.ref
  show P e_item _ _ _
  simp only [e_item, alts, seqs]
  refine Parses.alt_right (Fails.seq_left (lit_fails_head _ 'f' _ ⟨_, _, rfl, by decide⟩))
    (Parses.alt_right (Fails.seq_left (lit_fails_head _ 'f' _ ⟨_, _, rfl, by decide⟩)) (Parses.alt_left ?_))
  have h1 := Parses.lit (rule := Gen.rule) ['f', 'a', 'l', 's', 'e'] (d :: r)
  simpa [alts, seqs] using Parses.seq h1 (Parses.seq (kw_lookahead d r hd) (Parses.act (.addVal (.bool false)) (d :: r)))


/-- The body of a double-quoted literal as the rule `doublequotedstring` walks it: `\"` and `\\` are
taken as pairs, every other character singly; it must not contain a bare `"` nor end in a lone `\`. -/
def dqOk : List Char → Bool
  | [] => true
  | '"' :: _ => false
  | '\\' :: '"' :: t => dqOk t
  | '\\' :: '\\' :: t => dqOk t
  | '\\' :: [] => false
  | '\\' :: c :: t => dqOk (c :: t)
  | _ :: t => dqOk t

abbrev dqClass : PExpr := alts [lit ['\\', '"'], lit ['\\', '\\'], seqs [.notP (.chr '"'), .any]]

theorem dq_plain_step (c : Char) (t : List Char) (h1 : c ≠ '"') (h2 : c ≠ '\\') :
    P dqClass (c :: t) t [] := by
  simp only [dqClass, alts, seqs, lit]
  refine Parses.alt_right (Fails.seq_left (Fails.chr_ne t h2)) (Parses.alt_right (Fails.seq_left (Fails.chr_ne t h2)) ?_)
  simpa using Parses.seq (Parses.notP (Fails.chr_ne (rule := Gen.rule) t h1)) (Parses.any c t)

theorem dqs_ok (w r : List Char) (h : dqOk w = true) :
    P (.star dqClass) (w ++ '"' :: r) ('"' :: r) [] := by
  induction w using dqOk.induct with
  | case1 =>
    refine Parses.star_nil ?_
    simp only [dqClass, alts, seqs, lit]
    exact Fails.alt (Fails.seq_left (Fails.chr_ne r (by decide)))
      (Fails.alt (Fails.seq_left (Fails.chr_ne r (by decide)))
        (Fails.seq_left (Fails.notP (Parses.chr '"' r))))
  | case2 t => simp [dqOk] at h
  | case3 t ih =>
    simp only [dqOk] at h
    have h1 : P dqClass ('\\' :: '"' :: (t ++ '"' :: r)) (t ++ '"' :: r) [] := by
      simp only [dqClass, alts]
      exact Parses.alt_left (Parses.lit ['\\', '"'] _)
    simpa using Parses.star_cons h1 (ih h)
  | case4 t ih =>
    simp only [dqOk] at h
    have h1 : P dqClass ('\\' :: '\\' :: (t ++ '"' :: r)) (t ++ '"' :: r) [] := by
      simp only [dqClass, alts, lit]
      refine Parses.alt_right (Fails.seq_right (Parses.chr '\\' _) (Fails.chr_ne _ (by decide))) (Parses.alt_left ?_)
      simpa using Parses.seq (Parses.chr (rule := Gen.rule) '\\' ('\\' :: (t ++ '"' :: r))) (Parses.chr '\\' _)
    simpa using Parses.star_cons h1 (ih h)
  | case5 => simp [dqOk] at h
  | case6 c t hc1 hc2 ih =>
    have h' : dqOk (c :: t) = true := by
      rw [dqOk] at h
      · exact h
      · exact hc1
      · exact hc2
    have h1 : P dqClass ('\\' :: c :: (t ++ '"' :: r)) (c :: (t ++ '"' :: r)) [] := by
      simp only [dqClass, alts, seqs, lit]
      have c1 : c ≠ '"' := fun e => hc1 (by rw [e])
      have c2 : c ≠ '\\' := fun e => hc2 (by rw [e])
      refine Parses.alt_right (Fails.seq_right (Parses.chr '\\' _) (Fails.chr_ne _ c1))
        (Parses.alt_right (Fails.seq_right (Parses.chr '\\' _) (Fails.chr_ne _ c2)) ?_)
      simpa using Parses.seq (Parses.notP (Fails.chr_ne (rule := Gen.rule) _ (by decide : '\\' ≠ '"'))) (Parses.any '\\' _)
    simpa using Parses.star_cons h1 (ih h')
  | case7 c t hq hb1 hb2 hb3 hb4 ih =>
    have cb : c ≠ '\\' := by
      intro e
      cases t with
      | nil => exact hb3 e rfl
      | cons x xs => exact hb4 x xs e rfl
    have cq : c ≠ '"' := fun e => hq e
    have h' : dqOk t = true := by
      rw [dqOk] at h
      · exact h
      · exact hq
      · intro t1 e; exact absurd e cb
      · intro t1 e; exact absurd e cb
      · intro e; exact absurd e cb
      · intro c1 t1 e; exact absurd e cb
    simpa using Parses.star_cons (dq_plain_step c (t ++ '"' :: r) cq cb) (ih h')

/-- `doublequotedstring` consumes a well-formed body up to the closing quote. -/
theorem dqstring_ok (w r : List Char) (h : dqOk w = true) :
    P (.ref R.doublequotedstring) (w ++ '"' :: r) ('"' :: r) [] := by
  apply Parses.ref
  show P e_doublequotedstring _ _ _
  exact dqs_ok w r h

/-- The closing quote ends a possible timestamp prefix: what follows it does not matter. -/
theorem tsPrefix5_quote (w s : List Char) : tsPrefix5 (w ++ '"' :: s) = tsPrefix5 (w ++ ['"']) := by
  match w with
  | [] => simp [tsPrefix5, isDigit]
  | [a] => simp [tsPrefix5, isDigit]
  | [a, b] => simp [tsPrefix5, isDigit]
  | [a, b, c] => simp [tsPrefix5, isDigit]
  | [a, b, c, d] => simp [tsPrefix5]
  | a :: b :: c :: d :: e :: rest => simp [tsPrefix5]

/-- The double-quoted alternative of `item`: the capture is the whole literal with its quotes. -/
theorem item_dq_ok (w r : List Char) (d : Char) (h : dqOk w = true)
    (hts0 : tsPrefix5 (w ++ ['"']) = false) (_hd : Delim d) :
    P (.ref R.item) ('"' :: (w ++ '"' :: d :: r)) (d :: r)
      [.text ('"' :: (w ++ ['"'])), .act .addQuotedVal] := by
  apply Parses.ref
  show P e_item _ _ _
  simp only [e_item, alts, seqs]
  have hts : tsPrefix5 (w ++ '"' :: d :: r) = false := by
    rw [tsPrefix5_quote]; exact hts0
  refine Parses.alt_right (Fails.seq_left (lit_fails_head _ '"' _ ⟨_, _, rfl, by decide⟩))
    (Parses.alt_right (Fails.seq_left (lit_fails_head _ '"' _ ⟨_, _, rfl, by decide⟩))
    (Parses.alt_right (Fails.seq_left (lit_fails_head _ '"' _ ⟨_, _, rfl, by decide⟩))
    (Parses.alt_right (Fails.seq_left ?ts)
    (Parses.alt_right (Fails.seq_left (Fails.cap ?n1))
    (Parses.alt_right (Fails.seq_left (Fails.cap ?n2))
    (Parses.alt_right (Fails.seq_left (Fails.cap (ident_fails (by simp [NotHead, isAlpha, isLower, isUpper]))))
    (Parses.alt_right (Fails.seq_left (Fails.cap ?bw))
    (Parses.alt_left ?dq))))))))
  case ts =>
    apply Fails.ref
    show F e_timestampfmt _
    simp only [e_timestampfmt, seqs, alts, lit]
    exact Fails.alt (Fails.seq_right (Parses.chr '"' _) (Fails.seq_left (Fails.cap (tsbasic_fails hts))))
      (Fails.alt (Fails.seq_left (Fails.chr_ne _ (by decide)))
        (Fails.cap (tsbasic_fails (by simp [tsPrefix5, isDigit]))))
  case n1 =>
    refine Fails.seq_right (Parses.opt_none (Fails.chr_ne _ (by decide))) (Fails.seq_left ?_)
    simp only [plus]
    exact Fails.seq_left (digit_fails _ (by simp [NotHead, isDigit]))
  case n2 =>
    exact Fails.seq_right (Parses.opt_none (Fails.chr_ne _ (by decide))) (Fails.seq_left (lit_fails_head _ '"' _ ⟨_, _, rfl, by decide⟩))
  case bw =>
    simp only [plus]
    refine Fails.seq_left ?_
    exact Fails.alt (Fails.rng_ne _ (by decide)) (Fails.alt (Fails.rng_ne _ (by decide))
      (Fails.alt (Fails.rng_ne _ (by decide)) (Fails.alt (Fails.chr_ne _ (by decide))
        (Fails.alt (Fails.chr_ne _ (by decide)) (Fails.chr_ne _ (by decide))))))
  case dq =>
    have hb := dqstring_ok w (d :: r) h
    have h1 : P (.seq (lit ['"']) (.seq (.ref R.doublequotedstring) (lit ['"'])))
        ('"' :: (w ++ '"' :: d :: r)) (d :: r) ([] ++ ([] ++ [])) :=
      Parses.seq (Parses.chr '"' _) (Parses.seq hb (Parses.chr '"' _))
    have h2 := Parses.cap_prefix (w := '"' :: (w ++ ['"'])) (r := d :: r) (by simpa using h1)
    simpa using Parses.seq h2 (Parses.act .addQuotedVal (d :: r))

theorem dqOk_plain (c : Char) (t : List Char) (h1 : c ≠ '"') (h2 : c ≠ '\\') : dqOk (c :: t) = dqOk t := by
  rw [dqOk]
  · exact h1
  · intro t1 e; exact absurd e h2
  · intro t1 e; exact absurd e h2
  · intro e; exact absurd e h2
  · intro c1 t1 e; exact absurd e h2

theorem dqOk_esc (c : Char) (t : List Char) (h1 : c ≠ '"') (h2 : c ≠ '\\') :
    dqOk ('\\' :: c :: t) = dqOk t := by
  rw [dqOk]
  · exact dqOk_plain c t h1 h2
  · intro e; exact h1 (by rw [e])
  · intro e; exact h2 (by rw [e])

theorem dqOk_hex2 (n : Nat) (t : List Char) : dqOk (hex2 n ++ t) = dqOk t := by
  simp only [hex2, List.cons_append, List.nil_append]
  have a := hexDigit_ne_quote (n / 16 % 16) (by omega)
  have b := hexDigit_ne_quote (n % 16) (by omega)
  rw [dqOk_plain _ _ a.1 a.2, dqOk_plain _ _ b.1 b.2]

theorem dqOk_hex4 (n : Nat) (t : List Char) : dqOk (hex4 n ++ t) = dqOk t := by
  simp only [hex4, List.cons_append, List.nil_append]
  have a := hexDigit_ne_quote (n / 4096 % 16) (by omega)
  have b := hexDigit_ne_quote (n / 256 % 16) (by omega)
  have c := hexDigit_ne_quote (n / 16 % 16) (by omega)
  have d := hexDigit_ne_quote (n % 16) (by omega)
  rw [dqOk_plain _ _ a.1 a.2, dqOk_plain _ _ b.1 b.2, dqOk_plain _ _ c.1 c.2, dqOk_plain _ _ d.1 d.2]

theorem dqOk_hex8 (n : Nat) (t : List Char) : dqOk (hex8 n ++ t) = dqOk t := by
  simp only [hex8, List.cons_append, List.nil_append]
  have a := hexDigit_ne_quote (n / 268435456 % 16) (by omega)
  have b := hexDigit_ne_quote (n / 16777216 % 16) (by omega)
  have c := hexDigit_ne_quote (n / 1048576 % 16) (by omega)
  have d := hexDigit_ne_quote (n / 65536 % 16) (by omega)
  rw [dqOk_plain _ _ a.1 a.2, dqOk_plain _ _ b.1 b.2, dqOk_plain _ _ c.1 c.2, dqOk_plain _ _ d.1 d.2]
  exact dqOk_hex4 n t

/-- What `strconv.Quote` emits for one piece is consumed by `doublequotedstring` as a unit. -/
theorem dqOk_quotePiece (isPrint : Char → Bool) (p : Piece) (t : List Char) :
    dqOk (quotePiece isPrint p ++ t) = dqOk t := by
  cases p with
  | bad b =>
    simp only [quotePiece, List.cons_append]
    rw [dqOk_esc 'x' _ (by decide) (by decide)]
    exact dqOk_hex2 b t
  | rune c =>
    simp only [quotePiece]
    by_cases h1 : c = '"' ∨ c = '\\'
    · simp only [h1, if_true, List.cons_append, List.nil_append]
      rcases h1 with rfl | rfl <;> rw [dqOk]
    · simp only [h1, if_false]
      have hq : c ≠ '"' := fun e => h1 (Or.inl e)
      have hb : c ≠ '\\' := fun e => h1 (Or.inr e)
      by_cases h2 : isPrint c = true
      · simp only [h2, if_true, List.cons_append, List.nil_append]
        exact dqOk_plain c t hq hb
      · simp only [h2, Bool.false_eq_true, if_false]
        repeat' split
        all_goals first
          | exact dqOk_esc _ t (by decide) (by decide)
          | (simp only [List.cons_append]; rw [dqOk_esc 'x' _ (by decide) (by decide)]; exact dqOk_hex2 _ t)
          | (simp only [List.cons_append]; rw [dqOk_esc 'u' _ (by decide) (by decide)]; exact dqOk_hex4 _ t)
          | (simp only [List.cons_append]; rw [dqOk_esc 'U' _ (by decide) (by decide)]; exact dqOk_hex8 _ t)

theorem dqOk_quoteBody (isPrint : Char → Bool) (bs : Bytes) : dqOk (quoteBody isPrint bs) = true := by
  simp only [quoteBody]
  generalize pieces bs.length bs = ps
  induction ps with
  | nil => rfl
  | cons p ps ih => simp only [List.flatMap_cons]; rw [dqOk_quotePiece]; exact ih


theorem value_of_item {s s' : List Char} {evs : List Ev} (h : P (.ref R.item) s s' evs) :
    P (.ref R.value) s s' evs := by
  apply Parses.ref
  show P e_value _ _ _
  simp only [e_value, alts]
  exact Parses.alt_left h

/-- `field = value`: the first alternative of `arg`. -/
theorem arg_eq_ok {key vs rest : List Char} {evs : List Ev} (hk : KeyName key) (hv : NoWs vs)
    (h : P (.ref R.value) vs rest evs) :
    P (.ref R.arg) (key ++ '=' :: vs) rest ([.text key, .act (.addField .text)] ++ evs) := by
  apply Parses.ref
  show P e_arg _ _ _
  simp only [e_arg, alts, seqs, lit]
  refine Parses.alt_left ?_
  have h1 := key_ok (w := key) (r := '=' :: vs) hk (by simp [NotHead, isFieldCh, isAlnum, isAlpha, isLower, isUpper, isDigit])
  have h2 : P (.ref R.sp) ('=' :: vs) ('=' :: vs) [] := sp_nil (by simp [NoWs, isWs])
  have h3 : P (.ref R.sp) vs vs [] := sp_nil hv
  simpa using Parses.seq h1 (Parses.seq h2 (Parses.seq (Parses.chr '=' vs) (Parses.seq h3 h)))

/-- If `kw ++ t = w ++ x :: rest` and `x` does not occur in `kw`, then `kw` is a prefix of `w`. -/
theorem append_eq_split (kw t w : List Char) (x : Char) (rest : List Char) (hx : x ∉ kw)
    (h : kw ++ t = w ++ x :: rest) : ∃ u, w = kw ++ u ∧ t = u ++ x :: rest := by
  induction kw generalizing w with
  | nil => exact ⟨w, rfl, by simpa using h⟩
  | cons k ks ih =>
    cases w with
    | nil =>
      simp only [List.cons_append, List.nil_append, List.cons.injEq] at h
      exact absurd (by simp [h.1]) hx
    | cons c cs =>
      simp only [List.cons_append, List.cons.injEq] at h
      obtain ⟨u, hu1, hu2⟩ := ih cs (fun m => hx (by simp [m])) h.2
      exact ⟨u, by rw [h.1, hu1]; rfl, hu2⟩

/-- A special-form alternative of `Call` (`'Kw' action open ...`) fails unless the keyword is followed by `(`. -/
theorem special_fails (kw : List Char) (a : Act) (more : PExpr) (s : List Char) (hkw : kw ≠ [])
    (h : ∀ t, s = kw ++ t → NotHead (· = '(') t) :
    F (.seq (lit kw) (.seq (.act a) (.seq (.ref R.open') more))) s := by
  by_cases hp : kw <+: s
  · obtain ⟨t, rfl⟩ := hp
    exact Fails.seq_right (Parses.lit kw t)
      (Fails.seq_right (Parses.act a t) (Fails.seq_left (open_fails (h t rfl))))
  · exact Fails.seq_left (Fails.lit kw s hkw hp)


/-- The keywords of the special call forms of the grammar. -/
def specialKws : List (List Char) :=
  [cl!"Set", cl!"SetRowAttrs", cl!"SetColumnAttrs", cl!"Clear", cl!"ClearRow", cl!"Store", cl!"TopN", cl!"Rows", cl!"Range"]

theorem specialKws_alpha : ∀ kw ∈ specialKws, kw ≠ [] ∧ ∀ c ∈ kw, isAlpha c = true := by decide

/-- `Call` fails on a text on which no special keyword is followed by `(` and the generic
alternative (`IDENT (`) does not apply. -/
theorem call_fails (s : List Char)
    (hsp : ∀ kw ∈ specialKws, ∀ t, s = kw ++ t → NotHead (· = '(') t)
    (hgen : F (.ref R.IDENT) s ∨ ∃ r1, P (.ref R.IDENT) s r1 [] ∧ NotHead (· = '(') r1) :
    F (.ref R.Call) s := by
  apply Fails.ref
  show F e_Call s
  simp only [e_Call, alts, seqs]
  have hk := fun kw (hm : kw ∈ specialKws) => (specialKws_alpha kw hm).1
  refine Fails.alt (special_fails _ _ _ s (hk _ (by simp [specialKws])) (hsp _ (by simp [specialKws])))
    (Fails.alt (special_fails _ _ _ s (hk _ (by simp [specialKws])) (hsp _ (by simp [specialKws])))
    (Fails.alt (special_fails _ _ _ s (hk _ (by simp [specialKws])) (hsp _ (by simp [specialKws])))
    (Fails.alt (special_fails _ _ _ s (hk _ (by simp [specialKws])) (hsp _ (by simp [specialKws])))
    (Fails.alt (special_fails _ _ _ s (hk _ (by simp [specialKws])) (hsp _ (by simp [specialKws])))
    (Fails.alt (special_fails _ _ _ s (hk _ (by simp [specialKws])) (hsp _ (by simp [specialKws])))
    (Fails.alt (special_fails _ _ _ s (hk _ (by simp [specialKws])) (hsp _ (by simp [specialKws])))
    (Fails.alt (special_fails _ _ _ s (hk _ (by simp [specialKws])) (hsp _ (by simp [specialKws])))
    (Fails.alt (special_fails _ _ _ s (hk _ (by simp [specialKws])) (hsp _ (by simp [specialKws])))
    ?_))))))))
  rcases hgen with hf | ⟨r1, hp, hr1⟩
  · exact Fails.seq_left (Fails.cap hf)
  · exact Fails.seq_right (Parses.cap hp) (Fails.seq_right (Parses.act _ _) (Fails.seq_left (open_fails hr1)))

theorem call_fails_nil : F (.ref R.Call) [] := by
  refine call_fails [] ?_ (Or.inl (ident_fails trivial))
  intro kw hm t e
  have := (specialKws_alpha kw hm).1
  cases kw with
  | nil => exact absurd rfl this
  | cons a as => simp at e


/-- A printed argument: its text (first character not white space) and the events it produces
whatever follows (`,` or `)`). -/
structure PArg where
  text : List Char
  evs : List Ev

def PArg.Ok (a : PArg) : Prop :=
  NoWs a.text ∧ a.text ≠ [] ∧
    ∀ d r, (d = ',' ∨ d = ')') → P (.ref R.arg) (a.text ++ d :: r) (d :: r) a.evs

theorem noWs_append {a b : List Char} (ha : NoWs a) (hne : a ≠ []) : NoWs (a ++ b) := by
  cases a with
  | nil => exact absurd rfl hne
  | cons x xs => exact ha

/-- `args` on the arguments printed by `Call.String` (joined with ", ") up to the closing `)`. -/
theorem args_ok (as : List PArg) (hne : as ≠ []) (hok : ∀ a ∈ as, a.Ok) (r : List Char) :
    P (.ref R.args) (joinWith [',', ' '] (as.map (·.text)) ++ ')' :: r) (')' :: r)
      (as.flatMap (·.evs)) := by
  induction as with
  | nil => exact absurd rfl hne
  | cons a rest ih =>
    obtain ⟨hws, hane, hp⟩ := hok a (by simp)
    have hsp : P (.ref R.sp) (')' :: r) (')' :: r) [] := sp_nil (by simp [NoWs, isWs])
    cases rest with
    | nil =>
      apply Parses.ref
      show P e_args _ _ _
      simp only [e_args, seqs, List.map, joinWith, List.flatMap_cons, List.flatMap_nil, List.append_nil]
      have h1 := hp ')' r (Or.inr rfl)
      have h2 : P (.opt (.seq (.ref R.comma) (.ref R.args))) (')' :: r) (')' :: r) [] :=
        Parses.opt_none (Fails.seq_left (comma_fails (by simp [NoWs, isWs]) (by simp [NotHead])))
      simpa using Parses.seq h1 (Parses.seq h2 hsp)
    | cons b rest' =>
      have ihh := ih (by simp) (fun x hx => hok x (by simp [hx]))
      obtain ⟨hwsb, hbne, _⟩ := hok b (by simp)
      apply Parses.ref
      show P e_args _ _ _
      simp only [e_args, seqs, List.map, joinWith, List.flatMap_cons]
      have h1 := hp ',' (' ' :: (joinWith [',', ' '] ((b :: rest').map (·.text)) ++ ')' :: r)) (Or.inl rfl)
      have hnw : NoWs (joinWith [',', ' '] ((b :: rest').map (·.text)) ++ ')' :: r) := by
        cases rest' with
        | nil => simpa [joinWith] using noWs_append (b := ')' :: r) hwsb hbne
        | cons c cs =>
          simp only [List.map, joinWith, List.append_assoc]
          exact noWs_append hwsb hbne
      have h2 := Parses.opt_some (Parses.seq (comma_sp hnw) ihh)
      have h := Parses.seq h1 (Parses.seq h2 hsp)
      simpa [List.map, joinWith, List.append_assoc] using h


theorem notHead_dropWhile (p : Char → Bool) (l r : List Char) (hr : NotHead p r) :
    NotHead p (l.dropWhile p ++ r) := by
  induction l with
  | nil => simpa using hr
  | cons x xs ih =>
    simp only [List.dropWhile_cons]
    by_cases hx : p x = true
    · simpa [hx] using ih
    · simp only [hx, Bool.false_eq_true, if_false, List.cons_append, NotHead]

theorem takeWhile_all (p : Char → Bool) (l : List Char) : ∀ x ∈ l.takeWhile p, p x = true := by
  induction l with
  | nil => simp
  | cons y ys ih =>
    intro x hx
    simp only [List.takeWhile_cons] at hx
    by_cases hy : p y = true
    · simp only [hy, if_true, List.mem_cons] at hx
      rcases hx with rfl | hx
      · exact hy
      · exact ih x hx
    · simp [hy] at hx

theorem fieldCh_ne_open {c : Char} (h : isFieldCh c = true) : c ≠ '(' := by
  intro e; subst e; revert h; decide

theorem alpha_of_mem_kw {kw : List Char} (hm : kw ∈ specialKws) {c : Char} (hc : c ∈ kw) : isAlpha c = true :=
  (specialKws_alpha kw hm).2 c hc

/-- `Call` does not match at the start of a printed argument `key=..` / `key op ..`. -/
theorem call_fails_field (key rest : List Char) (x : Char) (hk : FieldName key)
    (hx1 : isAlnum x = false) (hx2 : x ≠ '(') : F (.ref R.Call) (key ++ x :: rest) := by
  obtain ⟨c, cs, rfl, hc, hcs⟩ := hk
  have hxa : isAlpha x = false := by
    simp only [isAlnum, Bool.or_eq_false_iff] at hx1; exact hx1.1
  refine call_fails _ ?_ (Or.inr ⟨cs.dropWhile isAlnum ++ x :: rest, ?_, ?_⟩)
  · intro kw hm t e
    have hxkw : x ∉ kw := fun hmem => by
      have := alpha_of_mem_kw hm hmem; rw [hxa] at this; exact absurd this (by simp)
    obtain ⟨u, hu1, hu2⟩ := append_eq_split kw t (c :: cs) x rest hxkw e.symm
    subst hu2
    cases u with
    | nil => simpa [NotHead] using hx2
    | cons y ys =>
      have hy : y ∈ c :: cs := by rw [hu1]; simp
      have : isFieldCh y = true := by
        simp only [List.mem_cons] at hy
        rcases hy with rfl | hy
        · simp [isFieldCh, isAlnum, hc]
        · exact hcs y hy
      simpa [NotHead] using fieldCh_ne_open this
  · have hsplit : c :: cs ++ x :: rest = (c :: cs.takeWhile isAlnum) ++ (cs.dropWhile isAlnum ++ x :: rest) := by
      simp [← List.append_assoc, List.takeWhile_append_dropWhile]
    rw [hsplit]
    exact ident_ok ⟨c, _, rfl, hc, takeWhile_all isAlnum cs⟩
      (notHead_dropWhile isAlnum cs (x :: rest) (by simpa [NotHead] using hx1))
  · cases hdw : cs.dropWhile isAlnum with
    | nil => simpa [NotHead] using hx2
    | cons y ys =>
      have hy : y ∈ cs := by
        have : y ∈ cs.dropWhile isAlnum := by rw [hdw]; simp
        exact (List.dropWhile_sublist _).subset this
      simpa [NotHead] using fieldCh_ne_open (hcs y hy)

theorem call_fails_head (c : Char) (u : List Char) (ha : isAlpha c = false) : F (.ref R.Call) (c :: u) := by
  refine call_fails _ ?_ (Or.inl (ident_fails (by simpa [NotHead] using ha)))
  intro kw hkw t ht
  obtain ⟨hne, hal⟩ := specialKws_alpha kw hkw
  cases kw with
  | nil => exact absurd rfl hne
  | cons k0 ks =>
    simp only [List.cons_append, List.cons.injEq] at ht
    have := hal k0 (by simp)
    rw [← ht.1, ha] at this
    exact absurd this (by simp)

/-- `Call` does not match at an argument `key=..` / `key op ..`. -/
theorem call_fails_key (key rest : List Char) (x : Char) (hk : KeyName key)
    (hx1 : isAlnum x = false) (hx2 : x ≠ '(') : F (.ref R.Call) (key ++ x :: rest) := by
  rcases hk with hk | hk
  · exact call_fails_field key rest x hk hx1 hx2
  · obtain ⟨t, rfl⟩ := reserved_head hk
    exact call_fails_head '_' _ (by decide)

theorem allargs_of_args {s s' : List Char} {evs : List Ev} (hc : F (.ref R.Call) s)
    (h : P (.ref R.args) s s' evs) : P (.ref R.allargs) s s' evs := by
  apply Parses.ref
  show P e_allargs _ _ _
  simp only [e_allargs, alts, seqs]
  exact Parses.alt_right (Fails.seq_left hc) (Parses.alt_left h)


theorem alnum_ne_open {c : Char} (h : isAlnum c = true) : c ≠ '(' := by
  intro e; subst e; revert h; decide

theorem identName_alnum {name : List Char} (h : IdentName name) : ∀ y ∈ name, isAlnum y = true := by
  obtain ⟨c, cs, rfl, hc, hcs⟩ := h
  intro y hy
  simp only [List.mem_cons] at hy
  rcases hy with rfl | hy
  · simp [isAlnum, hc]
  · exact hcs y hy

/-- `item` fails on a text that starts with a character no literal can start with. -/
theorem item_fails_punct (c : Char) (t : List Char)
    (h : c ≠ 'n' ∧ c ≠ 't' ∧ c ≠ 'f' ∧ c ≠ '"' ∧ c ≠ '\'' ∧ c ≠ '-' ∧ c ≠ '.' ∧ c ≠ '_' ∧ c ≠ ':' ∧
      isAlnum c = false) : F (.ref R.item) (c :: t) := by
  obtain ⟨h1, h2, h3, h4, h5, h6, h7, h8, h9, h10⟩ := h
  have hal : isAlpha c = false := by simp only [isAlnum, Bool.or_eq_false_iff] at h10; exact h10.1
  have hdg : isDigit c = false := by simp only [isAlnum, Bool.or_eq_false_iff] at h10; exact h10.2
  have hlo : ¬ ('a' ≤ c ∧ c ≤ 'z') := by
    simp only [isAlpha, Bool.or_eq_false_iff, isLower] at hal; simpa using hal.1
  have hup : ¬ ('A' ≤ c ∧ c ≤ 'Z') := by
    simp only [isAlpha, Bool.or_eq_false_iff, isUpper] at hal; simpa using hal.2
  have hd9 : ¬ ('0' ≤ c ∧ c ≤ '9') := by simpa [isDigit] using hdg
  apply Fails.ref
  show F e_item _
  simp only [e_item, alts, seqs]
  refine Fails.alt (Fails.seq_left (lit_fails_head _ c t ⟨_, _, rfl, fun e => h1 e.symm⟩))
    (Fails.alt (Fails.seq_left (lit_fails_head _ c t ⟨_, _, rfl, fun e => h2 e.symm⟩))
    (Fails.alt (Fails.seq_left (lit_fails_head _ c t ⟨_, _, rfl, fun e => h3 e.symm⟩))
    (Fails.alt (Fails.seq_left (tsfmt_fails h4 h5 (by simp [tsPrefix5, hdg])))
    (Fails.alt (Fails.seq_left (Fails.cap ?n1))
    (Fails.alt (Fails.seq_left (Fails.cap ?n2))
    (Fails.alt (Fails.seq_left (Fails.cap (ident_fails (by simpa [NotHead] using hal))))
    (Fails.alt (Fails.seq_left (Fails.cap ?bw))
    (Fails.alt (Fails.seq_left (Fails.cap (Fails.seq_left (lit_fails_head _ c t ⟨_, _, rfl, fun e => h4 e.symm⟩))))
    (Fails.seq_left (lit_fails_head _ c t ⟨_, _, rfl, fun e => h5 e.symm⟩))))))))))
  case n1 =>
    refine Fails.seq_right (Parses.opt_none (Fails.chr_ne _ h6)) (Fails.seq_left ?_)
    simp only [plus]
    exact Fails.seq_left (Fails.rng_ne _ hd9)
  case n2 =>
    exact Fails.seq_right (Parses.opt_none (Fails.chr_ne _ h6)) (Fails.seq_left (lit_fails_head _ c t ⟨_, _, rfl, fun e => h7 e.symm⟩))
  case bw =>
    simp only [plus]
    refine Fails.seq_left ?_
    exact Fails.alt (Fails.rng_ne _ hlo) (Fails.alt (Fails.rng_ne _ hup)
      (Fails.alt (Fails.rng_ne _ hd9) (Fails.alt (Fails.chr_ne _ h6)
        (Fails.alt (Fails.chr_ne _ h8) (Fails.chr_ne _ h9)))))

theorem value_fails_eq (t : List Char) : F (.ref R.value) ('=' :: t) := by
  apply Fails.ref
  show F e_value _
  simp only [e_value, alts, seqs]
  refine Fails.alt (item_fails_punct '=' t (by decide)) (Fails.seq_left ?_)
  apply Fails.ref
  show F e_lbrack _
  simp only [e_lbrack, seqs, lit]
  exact Fails.seq_left (Fails.chr_ne _ (by decide))


/-- The operators `Condition.String` prints. -/
def cmpOps : List Op := [.EQ, .NEQ, .LT, .LTE, .GT, .GTE, .BETWEEN]

theorem cond_ok (op : Op) (hop : op ∈ cmpOps) (r : List Char) :
    P (.ref R.COND) (opText op ++ ' ' :: r) (' ' :: r) [.act (.setCond op)] := by
  apply Parses.ref
  show P e_COND _ _ _
  simp only [e_COND, alts, seqs, lit]
  have two : ∀ (a b : Char) (o : Op) (s : List Char),
      P (.seq (.seq (.chr a) (.chr b)) (.act (.setCond o))) (a :: b :: s) s [.act (.setCond o)] := by
    intro a b o s
    simpa using Parses.seq (Parses.seq (Parses.chr (rule := Gen.rule) a (b :: s)) (Parses.chr b s)) (Parses.act (.setCond o) s)
  have one : ∀ (a : Char) (o : Op) (s : List Char),
      P (.seq (.chr a) (.act (.setCond o))) (a :: s) s [.act (.setCond o)] := by
    intro a o s
    simpa using Parses.seq (Parses.chr (rule := Gen.rule) a s) (Parses.act (.setCond o) s)
  -- failing two-character literal: first character differs / second differs
  have f1 : ∀ (a b x : Char) (o : Op) (s : List Char), x ≠ a →
      F (.seq (.seq (.chr a) (.chr b)) (.act (.setCond o))) (x :: s) := by
    intro a b x o s h; exact Fails.seq_left (Fails.seq_left (Fails.chr_ne s h))
  have f2 : ∀ (a b y : Char) (o : Op) (s : List Char), y ≠ b →
      F (.seq (.seq (.chr a) (.chr b)) (.act (.setCond o))) (a :: y :: s) := by
    intro a b y o s h; exact Fails.seq_left (Fails.seq_right (Parses.chr a _) (Fails.chr_ne s h))
  have g1 : ∀ (a x : Char) (o : Op) (s : List Char), x ≠ a → F (.seq (.chr a) (.act (.setCond o))) (x :: s) := by
    intro a x o s h; exact Fails.seq_left (Fails.chr_ne s h)
  simp only [cmpOps, List.mem_cons, List.not_mem_nil, or_false] at hop
  rcases hop with rfl | rfl | rfl | rfl | rfl | rfl | rfl <;> simp only [opText, List.cons_append, List.nil_append]
  · -- ==
    exact Parses.alt_right (f1 _ _ _ _ _ (by decide)) (Parses.alt_right (f1 _ _ _ _ _ (by decide))
      (Parses.alt_right (f1 _ _ _ _ _ (by decide)) (Parses.alt_left (two _ _ _ _))))
  · -- !=
    exact Parses.alt_right (f1 _ _ _ _ _ (by decide)) (Parses.alt_right (f1 _ _ _ _ _ (by decide))
      (Parses.alt_right (f1 _ _ _ _ _ (by decide)) (Parses.alt_right (f1 _ _ _ _ _ (by decide))
        (Parses.alt_left (two _ _ _ _)))))
  · -- <
    exact Parses.alt_right (f1 _ _ _ _ _ (by decide)) (Parses.alt_right (f2 _ _ _ _ _ (by decide))
      (Parses.alt_right (f1 _ _ _ _ _ (by decide)) (Parses.alt_right (f1 _ _ _ _ _ (by decide))
        (Parses.alt_right (f1 _ _ _ _ _ (by decide)) (Parses.alt_left (one _ _ _))))))
  · -- <=
    exact Parses.alt_right (f1 _ _ _ _ _ (by decide)) (Parses.alt_left (two _ _ _ _))
  · -- >
    exact Parses.alt_right (f2 _ _ _ _ _ (by decide)) (Parses.alt_right (f1 _ _ _ _ _ (by decide))
      (Parses.alt_right (f2 _ _ _ _ _ (by decide)) (Parses.alt_right (f1 _ _ _ _ _ (by decide))
        (Parses.alt_right (f1 _ _ _ _ _ (by decide)) (Parses.alt_right (g1 _ _ _ _ (by decide)) (one _ _ _))))))
  · -- >=
    exact Parses.alt_right (f2 _ _ _ _ _ (by decide)) (Parses.alt_right (f1 _ _ _ _ _ (by decide))
      (Parses.alt_left (two _ _ _ _)))
  · -- ><
    exact Parses.alt_left (two _ _ _ _)


theorem opText_head (op : Op) (hop : op ∈ cmpOps) :
    ∃ c t, opText op = c :: t ∧ isWs c = false ∧ (c = '=' → op = .EQ) := by
  simp only [cmpOps, List.mem_cons, List.not_mem_nil, or_false] at hop
  rcases hop with rfl | rfl | rfl | rfl | rfl | rfl | rfl <;> exact ⟨_, _, rfl, by decide, by decide⟩

/-- `field op value`: the second alternative of `arg` (the first one fails). -/
theorem arg_cond_ok {key vs rest : List Char} {evs : List Ev} (op : Op) (hop : op ∈ cmpOps)
    (hk : KeyName key) (hv : NoWs vs) (h : P (.ref R.value) vs rest evs) :
    P (.ref R.arg) (key ++ ' ' :: (opText op ++ ' ' :: vs)) rest
      ([.text key, .act (.addField .text), .act (.setCond op)] ++ evs) := by
  obtain ⟨c, t, hct, hcws, hceq⟩ := opText_head op hop
  have hnw : NoWs (opText op ++ ' ' :: vs) := by rw [hct]; exact hcws
  have h1 := key_ok (w := key) (r := ' ' :: (opText op ++ ' ' :: vs)) hk
    (by simp [NotHead, isFieldCh, isAlnum, isAlpha, isLower, isUpper, isDigit])
  have h2 : P (.ref R.sp) (' ' :: (opText op ++ ' ' :: vs)) (opText op ++ ' ' :: vs) [] := sp_one hnw
  apply Parses.ref
  show P e_arg _ _ _
  simp only [e_arg, alts, seqs, lit]
  refine Parses.alt_right ?_ (Parses.alt_left ?_)
  · -- field sp '=' sp value fails
    refine Fails.seq_right h1 (Fails.seq_right h2 ?_)
    by_cases he : c = '='
    · have hop' := hceq he
      subst hop'
      simp only [opText, List.cons_append, List.nil_append]
      exact Fails.seq_right (Parses.chr '=' _)
        (Fails.seq_right (sp_nil (by simp [NoWs, isWs])) (value_fails_eq _))
    · rw [hct]; exact Fails.seq_left (Fails.chr_ne _ he)
  · have h3 := cond_ok op hop vs
    have h4 : P (.ref R.sp) (' ' :: vs) vs [] := sp_one hv
    simpa using Parses.seq h1 (Parses.seq h2 (Parses.seq h3 (Parses.seq h4 h)))


theorem intDigits_no_dot (i : Int) : '.' ∉ intDigits i := by
  have hd := (natDigits_spec i.natAbs).2.2
  have hdot : '.' ∉ natDigits i.natAbs := fun hm => by
    have := hd _ hm; simp [isDigit] at this
  simp only [intDigits]
  split
  · simp only [List.mem_cons, not_or]; exact ⟨by decide, hdot⟩
  · exact hdot

theorem numVal_intDigits (i : Int) (h1 : minInt64 ≤ i) (h2 : i ≤ maxInt64) :
    numVal (intDigits i) = .ok (.int i) := by
  simp [numVal, intDigits_no_dot i, parseInt64_intDigits i h1 h2]

theorem intDigits_shape (i : Int) :
    intDigits i = signText (decide (i < 0)) ++ natDigits i.natAbs := by
  simp only [intDigits, signText]
  split <;> simp_all

theorem joinWith_cons (sep x : List Char) (xs : List (List Char)) :
    joinWith sep (x :: xs) = x ++ xs.flatMap (sep ++ ·) := by
  induction xs generalizing x with
  | nil => simp [joinWith]
  | cons y ys ih => simp [joinWith, ih]

/-! ### Lists of integers (id lists, BETWEEN ranges): syntax -/

/-- A printed list element: an int64 (the elements of id lists and of BETWEEN ranges). -/
def intItemText (i : Int) : List Char := intDigits i

def evIntItem (i : Int) : List Ev := [.text (intDigits i), .act .addNumVal]

theorem intDigits_head (i : Int) (s : List Char) :
    ∃ c t, intDigits i ++ s = c :: t ∧ (c = '-' ∨ isDigit c = true) := by
  obtain ⟨_, hne, hall⟩ := natDigits_spec i.natAbs
  rw [intDigits_shape]
  exact num_text_head _ _ s hne hall

theorem intDigits_noWs (i : Int) (s : List Char) : NoWs (intDigits i ++ s) := by
  obtain ⟨c, t, hx, hc⟩ := intDigits_head i s
  rw [hx]
  rcases hc with rfl | hd
  · simp [NoWs, isWs]
  · simp only [NoWs]
    cases hw : isWs c with
    | false => rfl
    | true =>
      simp only [isWs, Bool.or_eq_true, decide_eq_true_eq] at hw
      rcases hw with (rfl | rfl) | rfl <;> simp [isDigit] at hd

theorem item_intDigits (i : Int) (d : Char) (r : List Char) (hd : Delim d) :
    P (.ref R.item) (intDigits i ++ d :: r) (d :: r) (evIntItem i) := by
  obtain ⟨_, hne, hall⟩ := natDigits_spec i.natAbs
  have h := item_int_ok (decide (i < 0)) (natDigits i.natAbs) r d hne hall hd
  rw [← intDigits_shape] at h
  exact h

/-- `list` on the elements printed by `joinInterfaceSlice` (joined with ",") up to the closing `]`. -/
theorem list_ok (xs : List Int) (hne : xs ≠ []) (r : List Char) :
    P (.ref R.list) (joinWith [','] (xs.map intDigits) ++ ']' :: r) (']' :: r) (xs.flatMap evIntItem) := by
  induction xs with
  | nil => exact absurd rfl hne
  | cons x rest ih =>
    apply Parses.ref
    show P e_list _ _ _
    simp only [e_list, seqs]
    cases rest with
    | nil =>
      simp only [List.map, joinWith, List.flatMap_cons, List.flatMap_nil, List.append_nil]
      have h1 := item_intDigits x ']' r (Or.inr (Or.inr rfl))
      have h2 : P (.opt (.seq (.ref R.comma) (.ref R.list))) (']' :: r) (']' :: r) [] :=
        Parses.opt_none (Fails.seq_left (comma_fails (by simp [NoWs, isWs]) (by simp [NotHead])))
      simpa using Parses.seq h1 h2
    | cons y rest' =>
      have ihh := ih (by simp)
      simp only [List.map, joinWith, List.flatMap_cons] at ihh ⊢
      have h1 := item_intDigits x ',' (joinWith [','] (intDigits y :: rest'.map intDigits) ++ ']' :: r) (Or.inl rfl)
      have hnw : NoWs (joinWith [','] (intDigits y :: rest'.map intDigits) ++ ']' :: r) := by
        rw [joinWith_cons]
        simp only [List.append_assoc]
        exact intDigits_noWs y _
      have h2 := Parses.opt_some (Parses.seq (comma_nosp hnw) ihh)
      simpa [List.append_assoc] using Parses.seq h1 h2

/-- The list alternative of `value` on `[x1,x2,..]`. -/
theorem value_list_ok (xs : List Int) (hne : xs ≠ []) (d : Char) (r : List Char) (hd : d = ',' ∨ d = ')') :
    P (.ref R.value) ('[' :: (joinWith [','] (xs.map intDigits) ++ ']' :: d :: r)) (d :: r)
      ([.act .startList] ++ xs.flatMap evIntItem ++ [.act .endList]) := by
  have hdws : NoWs (d :: r) := by rcases hd with rfl | rfl <;> simp [NoWs, isWs]
  apply Parses.ref
  show P e_value _ _ _
  simp only [e_value, alts, seqs]
  refine Parses.alt_right (item_fails_punct '[' _ (by decide)) ?_
  have hnw : NoWs (joinWith [','] (xs.map intDigits) ++ ']' :: d :: r) := by
    cases xs with
    | nil => exact absurd rfl hne
    | cons x rest =>
      rw [List.map_cons, joinWith_cons]
      simp only [List.append_assoc]
      exact intDigits_noWs x _
  have h1 : P (.ref R.lbrack) ('[' :: (joinWith [','] (xs.map intDigits) ++ ']' :: d :: r))
      (joinWith [','] (xs.map intDigits) ++ ']' :: d :: r) [] := by
    apply Parses.ref
    show P e_lbrack _ _ _
    simp only [e_lbrack, seqs, lit]
    simpa using Parses.seq (Parses.chr '[' _) (sp_nil hnw)
  have h2 := Parses.act (rule := Gen.rule) .startList (joinWith [','] (xs.map intDigits) ++ ']' :: d :: r)
  have h3 := list_ok xs hne (d :: r)
  have h4 : P (.ref R.rbrack) (']' :: d :: r) (d :: r) [] := by
    apply Parses.ref
    show P e_rbrack _ _ _
    simp only [e_rbrack, seqs, lit]
    have a : P (.ref R.sp) (']' :: d :: r) (']' :: d :: r) [] := sp_nil (by simp [NoWs, isWs])
    simpa using Parses.seq a (Parses.seq (Parses.chr ']' (d :: r)) (sp_nil hdws))
  have h5 := Parses.act (rule := Gen.rule) .endList (d :: r)
  simpa using Parses.seq h1 (Parses.seq h2 (Parses.seq h3 (Parses.seq h4 h5)))


/-! ### The action machine on the events of a flat call -/

theorem exec_text (cs : List Char) (evs : List Ev) (q : QState) :
    exec (.text cs :: evs) q = exec evs { q with text := cs } := rfl

theorem exec_act_ok {a : Act} {q q' : QState} (evs : List Ev) (h : stepAct q a = .ok q') :
    exec (.act a :: evs) q = exec evs q' := by
  simp only [exec, stepEv, h]

theorem lookup_insert (k k' : Key) (v : Val) (m : List (Key × Val)) :
    lookup k' (insert k v m) = if k' = k then some v else lookup k' m := by
  induction m with
  | nil =>
    simp only [insert, lookup]
    by_cases h : k = k'
    · simp [h]
    · have : ¬ k' = k := fun e => h e.symm
      simp [h, this]
  | cons p rest ih =>
    obtain ⟨k0, v0⟩ := p
    simp only [insert]
    by_cases h0 : k0 = k
    · subst h0
      simp only [if_true, lookup]
      by_cases h : k0 = k'
      · simp [h]
      · have : ¬ k' = k0 := fun e => h e.symm
        simp [h, this]
    · simp only [h0, if_false]
      by_cases hl : ltKey k k0 = true
      · simp only [hl, if_true, lookup]
        by_cases h : k = k'
        · simp [h]
        · have : ¬ k' = k := fun e => h e.symm
          simp [h, this]
      · simp only [hl, Bool.false_eq_true, if_false, lookup, ih]
        by_cases h : k0 = k'
        · have : ¬ k' = k := fun e => h0 (by rw [h, e])
          simp [h, this]
        · simp [h]

/-- The stack element while the arguments of a call are being added. -/
def ArgState (e : Elem) : Prop := e.lastField = [] ∧ e.inList = false ∧ e.lastCond = .ILLEGAL

theorem exec_field (k : Key) (q : QState) (e : Elem) (rest : List Elem) (evs : List Ev)
    (hq : q.stack = e :: rest) (he : e.lastField = []) :
    exec (.text k :: .act (.addField .text) :: evs) q =
      exec evs { q with text := k, stack := { e with lastField := k } :: rest } := by
  rw [exec_text]
  refine exec_act_ok evs ?_
  simp only [stepAct, sargText, addField, hq, he]
  simp


/-! ### Lists of integers: the action machine -/

theorem insert_insert (k : Key) (v1 v2 : Val) (m : List (Key × Val)) :
    insert k v2 (insert k v1 m) = insert k v2 m := by
  induction m with
  | nil => simp [insert]
  | cons p rest ih =>
    obtain ⟨k0, v0⟩ := p
    simp only [insert]
    by_cases h0 : k0 = k
    · simp [h0, insert]
    · simp only [h0, if_false]
      by_cases hl : ltKey k k0 = true
      · simp [hl, insert]
      · simp only [hl, Bool.false_eq_true, if_false, insert, h0, ih]

/-- The value under construction while a list is read: a plain list, or a condition on a list. -/
def wrapList (op : Op) (vs : List Val) : Val :=
  if op = .ILLEGAL then .list vs else .cond op (.list vs)

theorem lookup_insert_self (k : Key) (v : Val) (m : List (Key × Val)) : lookup k (insert k v m) = some v := by
  rw [lookup_insert]; simp

/-- Executing the elements of a list appends them to the list under the pending key. -/
theorem exec_list_items (xs : List Int) (hx : ∀ x ∈ xs, minInt64 ≤ x ∧ x ≤ maxInt64)
    (k : Key) (hk : k ≠ []) (m0 : List (Key × Val)) (acc : List Val)
    (q : QState) (e : Elem) (rest : List Elem) (evs : List Ev)
    (hq : q.stack = e :: rest) (hin : e.inList = true) (hf : e.lastField = k)
    (ha : e.args = insert k (wrapList e.lastCond acc) m0) :
    ∃ t, exec (xs.flatMap evIntItem ++ evs) q =
      exec evs { q with text := t,
                        stack := { e with args := insert k (wrapList e.lastCond (acc ++ xs.map Val.int)) m0 } :: rest } := by
  induction xs generalizing q e acc with
  | nil =>
    refine ⟨q.text, ?_⟩
    simp only [List.flatMap_nil, List.nil_append, List.map_nil, List.append_nil]
    congr 1
    cases q; cases e; simp_all
  | cons x rest' ih =>
    obtain ⟨h1, h2⟩ := hx x (by simp)
    simp only [List.flatMap_cons, evIntItem, List.cons_append, List.nil_append]
    rw [exec_text]
    have hs : stepAct { q with text := intDigits x } .addNumVal =
        .ok { q with text := intDigits x,
                     stack := { e with args := insert k (wrapList e.lastCond (acc ++ [.int x])) m0 } :: rest } := by
      simp only [stepAct, addNumVal, hq, hf, numVal_intDigits x h1 h2]
      by_cases hc : e.lastCond = .ILLEGAL
      · simp [hk, hin, hc, ha, wrapList, lookup_insert_self, insert_insert, bind, Except.bind]
      · simp [hk, hin, hc, ha, wrapList, lookup_insert_self, insert_insert, bind, Except.bind]
    rw [exec_act_ok _ hs]
    obtain ⟨t, ht⟩ := ih (fun y hy => hx y (by simp [hy])) (acc ++ [.int x])
      { q with text := intDigits x,
               stack := { e with args := insert k (wrapList e.lastCond (acc ++ [.int x])) m0 } :: rest }
      { e with args := insert k (wrapList e.lastCond (acc ++ [.int x])) m0 } rfl hin hf rfl
    refine ⟨t, ?_⟩
    rw [ht]
    simp [List.append_assoc]

/-- Executing `startList items endList` stores the list (or the condition on it) under the pending key. -/
theorem exec_list (xs : List Int) (hx : ∀ x ∈ xs, minInt64 ≤ x ∧ x ≤ maxInt64)
    (k : Key) (hk : k ≠ []) (q : QState) (e : Elem) (rest : List Elem) (evs : List Ev)
    (hq : q.stack = e :: rest) (hf : e.lastField = k) (_hin : e.inList = false) (hl : lookup k e.args = none) :
    ∃ t, exec (.act .startList :: (xs.flatMap evIntItem ++ (.act .endList :: evs))) q =
      exec evs { q with text := t,
                        stack := { e with args := insert k (wrapList e.lastCond (xs.map Val.int)) e.args,
                                          lastField := [], lastCond := .ILLEGAL, inList := false } :: rest } := by
  have hs : stepAct q .startList =
      .ok { q with stack := { e with args := insert k (wrapList e.lastCond []) e.args, inList := true } :: rest } := by
    simp only [stepAct, startList, hq, hf, hl]
    by_cases hc : e.lastCond = .ILLEGAL <;> simp [hc, wrapList]
  rw [exec_act_ok _ hs]
  obtain ⟨t, ht⟩ := exec_list_items xs hx k hk e.args []
    { q with stack := { e with args := insert k (wrapList e.lastCond []) e.args, inList := true } :: rest }
    { e with args := insert k (wrapList e.lastCond []) e.args, inList := true } rest (.act .endList :: evs)
    rfl rfl hf rfl
  rw [ht]
  refine ⟨t, ?_⟩
  let e2 : Elem := { e with args := insert k (wrapList e.lastCond ([] ++ xs.map Val.int)) e.args, inList := true }
  let e3 : Elem := { e with args := insert k (wrapList e.lastCond (xs.map Val.int)) e.args, lastField := [], lastCond := .ILLEGAL, inList := false }
  have he : stepAct { q with text := t, stack := e2 :: rest } .endList = .ok { q with text := t, stack := e3 :: rest } := by
    simp [stepAct, endList, e2, e3]
  exact exec_act_ok evs he

/-! ### The special-form names whose dedicated rule cannot match a printed call

`Call.String` prints every call as `Name(children, key=value, ..)`.  For the names `Set`,
`SetRowAttrs`, `SetColumnAttrs`, `Clear`, `TopN`, `Rows` the dedicated alternative of `Call` starts
with a positional `col` / `posfield` and fails on such a text, so the generic alternative reads it.
`Range` is in when the printed body begins with a condition `key op value` or with a child call (its
alternative needs `field = value` first).  (`ClearRow` and `Store` have alternatives that match a
printed call of their usual shape: left out.) -/

def wideKws : List (List Char) :=
  [['S', 'e', 't'], ['S', 'e', 't', 'R', 'o', 'w', 'A', 't', 't', 'r', 's'],
   ['S', 'e', 't', 'C', 'o', 'l', 'u', 'm', 'n', 'A', 't', 't', 'r', 's'], ['C', 'l', 'e', 'a', 'r'],
   ['T', 'o', 'p', 'N'], ['R', 'o', 'w', 's']]

/-- The names left out: their dedicated alternative can match a printed call. -/
def hardKws : List (List Char) :=
  [['C', 'l', 'e', 'a', 'r', 'R', 'o', 'w'], ['S', 't', 'o', 'r', 'e']]

def rangeKw : List Char := ['R', 'a', 'n', 'g', 'e']

/-- The call names of the proved fragment. -/
def NameOk (name : List Char) : Prop := name ∉ hardKws

instance (name : List Char) : Decidable (NameOk name) := by unfold NameOk; infer_instance

theorem nameOk_cases {name : List Char} (h : NameOk name) :
    name ∉ specialKws ∨ name ∈ wideKws ∨ name = rangeKw := by
  by_cases hs : name ∈ specialKws
  · right
    simp only [specialKws, List.mem_cons, List.not_mem_nil, or_false] at hs
    simp only [NameOk, hardKws, List.mem_cons, List.not_mem_nil, or_false, not_or] at h
    rcases hs with rfl | rfl | rfl | rfl | rfl | rfl | rfl | rfl | rfl <;>
      first | (left; simp [wideKws]; done) | (right; rfl) | exact absurd rfl h.1 | exact absurd rfl h.2
  · exact Or.inl hs

/-- The call does not use the name `Range` with a first argument `key=value` and no child. -/
def RangeArgs (name : List Char) (args : List (Key × Val)) (children : List Call) : Prop :=
  name = rangeKw → children ≠ [] ∨ ∃ k op v rest, args = (k, .cond op v) :: rest

/-- The printed body begins with a child call or with a condition `key op ..`. -/
def RangeBody (body : List Char) : Prop :=
  ∃ k x rest, body = k ++ x :: rest ∧ KeyName k ∧
    (x = '(' ∨ (x = ' ' ∧ ∃ op, op ∈ cmpOps ∧ ∃ tl, rest = opText op ++ ' ' :: tl))

/-- The printed body of a call begins with a field name / identifier followed by `=`, a space and an
operator, or `(`: in any case by something that is not a comma (possibly after white space). -/
def FirstKey (body : List Char) : Prop :=
  ∃ k x rest, body = k ++ x :: rest ∧ KeyName k ∧ isFieldCh x = false ∧ x ≠ ')' ∧ F (.ref R.comma) (x :: rest)

def SpecialFree (name body : List Char) : Prop :=
  name ∉ specialKws ∨ (name ∈ wideKws ∧ FirstKey body) ∨ (name = rangeKw ∧ RangeBody body)

theorem comma_fails_sp {r : List Char} (h : NoWs r) (hc : NotHead (· = ',') r) : F (.ref R.comma) (' ' :: r) := by
  apply Fails.ref
  show F e_comma _
  simp only [e_comma, seqs, lit]
  refine Fails.seq_right (sp_one h) (Fails.seq_left ?_)
  cases r with
  | nil => exact Fails.chr_nil _
  | cons c t => exact Fails.chr_ne t (by simpa [NotHead] using hc)

theorem firstKey_of_call (name s : List Char) (hn : IdentName name) : FirstKey (name ++ '(' :: s) := by
  obtain ⟨c, cs, rfl, hc, hcs⟩ := hn
  refine ⟨c :: cs, '(', s, rfl, Or.inl ⟨c, cs, rfl, hc, fun y hy => ?_⟩, by decide, by decide,
    comma_fails (by simp [NoWs, isWs]) (by simp [NotHead])⟩
  have := hcs y hy
  simp [isFieldCh, this]

/-- `col` fails on a text that begins with a letter. -/
theorem col_fails_alpha (c : Char) (t : List Char) (hc : isAlpha c = true) : F (.ref R.col) (c :: t) := by
  have hd : isDigit c = false := by
    cases hd : isDigit c with
    | false => rfl
    | true =>
      simp only [isDigit, Bool.and_eq_true, decide_eq_true_eq] at hd
      simp only [isAlpha, isLower, isUpper, Bool.or_eq_true, Bool.and_eq_true, decide_eq_true_eq] at hc
      rcases hc with ⟨h1, _⟩ | ⟨h1, _⟩
      · exact absurd (Char.le_trans h1 hd.2) (by decide)
      · exact absurd (Char.le_trans h1 hd.2) (by decide)
  have hq1 : c ≠ '\'' := by intro e; subst e; simp [isAlpha, isLower, isUpper] at hc
  have hq2 : c ≠ '"' := by intro e; subst e; simp [isAlpha, isLower, isUpper] at hc
  have h19 : ¬ ('1' ≤ c ∧ c ≤ '9') := by
    intro h
    have : isDigit c = true := by
      simp only [isDigit, Bool.and_eq_true, decide_eq_true_eq]
      exact ⟨Char.le_trans (by decide) h.1, h.2⟩
    rw [hd] at this; exact absurd this (by simp)
  have h0 : c ≠ '0' := by intro e; subst e; simp [isDigit] at hd
  apply Fails.ref
  show F e_col _
  simp only [e_col, alts, seqs, lit]
  refine Fails.alt (Fails.seq_left (Fails.cap ?_))
    (Fails.alt (Fails.seq_left (Fails.chr_ne _ hq1)) (Fails.seq_left (Fails.chr_ne _ hq2)))
  apply Fails.ref
  show F e_uint _
  simp only [e_uint, alts, seqs]
  exact Fails.alt (Fails.seq_left (Fails.rng_ne _ h19)) (Fails.chr_ne _ h0)

theorem col_fails_us (t : List Char) : F (.ref R.col) ('_' :: t) := by
  apply Fails.ref
  show F e_col _
  simp only [e_col, alts, seqs, lit]
  refine Fails.alt (Fails.seq_left (Fails.cap ?_))
    (Fails.alt (Fails.seq_left (Fails.chr_ne _ (by decide))) (Fails.seq_left (Fails.chr_ne _ (by decide))))
  apply Fails.ref
  show F e_uint _
  simp only [e_uint, alts, seqs]
  exact Fails.alt (Fails.seq_left (Fails.rng_ne _ (by decide))) (Fails.chr_ne _ (by decide))

theorem col_fails_key {k : List Char} (hk : KeyName k) (s : List Char) : F (.ref R.col) (k ++ s) := by
  rcases hk with ⟨c, cs, rfl, hc, _⟩ | hk
  · exact col_fails_alpha c _ hc
  · obtain ⟨t, rfl⟩ := reserved_head hk; exact col_fails_us _

theorem posfield_fails_us (t : List Char) : F (.ref R.posfield) ('_' :: t) := by
  apply Fails.ref
  show F e_posfield _
  simp only [e_posfield, seqs]
  exact Fails.seq_left (Fails.cap (fieldExpr_fails_head '_' t (by decide)))

theorem posfield_ok {w r : List Char} (hw : FieldName w) (hr : NotHead isFieldCh r) :
    P (.ref R.posfield) (w ++ r) r [.text w, .act (.addPosStr ['_', 'f', 'i', 'e', 'l', 'd'])] := by
  apply Parses.ref
  show P e_posfield _ _ _
  simp only [e_posfield, seqs]
  simpa using Parses.seq (Parses.cap_prefix (fieldExpr_ok hw hr)) (Parses.act _ r)

/-- One special-form alternative on `name(body`: it fails when the keyword is another name, and when
it is this name and what follows `(` fails on the body. -/
theorem special_alt_fails (kw : List Char) (a : Act) (more : PExpr) (name body : List Char)
    (hn : IdentName name) (hkw : kw ∈ specialKws) (hws : NoWs body) (hmore : name = kw → F more body) :
    F (.seq (lit kw) (.seq (.act a) (.seq (.ref R.open') more))) (name ++ '(' :: body) := by
  by_cases e : name = kw
  · subst e
    exact Fails.seq_right (Parses.lit name _) (Fails.seq_right (Parses.act a _)
      (Fails.seq_right (open_ok hws) (hmore rfl)))
  · refine special_fails kw a more _ (specialKws_alpha kw hkw).1 ?_
    intro t e'
    have hxkw : '(' ∉ kw := fun hmem => by
      have := alpha_of_mem_kw hkw hmem; revert this; decide
    obtain ⟨u, hu1, hu2⟩ := append_eq_split kw t name '(' _ hxkw e'.symm
    subst hu2
    cases u with
    | nil => exact absurd (by simpa using hu1) e
    | cons y ys =>
      have hy : y ∈ name := by rw [hu1]; simp
      simpa [NotHead] using alnum_ne_open (identName_alnum hn y hy)

/-- What follows `(` in the `Range` alternative (`field sp '=' sp value ..`) fails on a body that begins
with a child call or with a condition. -/
theorem range_more_fails (body : List Char) (h : RangeBody body) (more : PExpr) :
    F (.seq (.ref R.field) (.seq (.ref R.sp) (.seq (.chr '=') (.seq (.ref R.sp) (.seq (.ref R.value) more))))) body := by
  obtain ⟨k, x, rest, rfl, hk, hx⟩ := h
  rcases hx with rfl | ⟨rfl, op, hop, tl, rfl⟩
  · refine Fails.seq_right (key_ok hk (by simp [NotHead, isFieldCh, isAlnum, isAlpha, isLower, isUpper, isDigit]))
      (Fails.seq_right (sp_nil (by simp [NoWs, isWs])) (Fails.seq_left (Fails.chr_ne _ (by decide))))
  · obtain ⟨c, t, hct, hcws, hceq⟩ := opText_head op hop
    have hnw : NoWs (opText op ++ ' ' :: tl) := by rw [hct]; simpa [NoWs] using hcws
    refine Fails.seq_right (key_ok hk (by simp [NotHead, isFieldCh, isAlnum, isAlpha, isLower, isUpper, isDigit]))
      (Fails.seq_right (sp_one hnw) ?_)
    by_cases he : c = '='
    · have hop' := hceq he
      subst hop'
      simp only [opText, List.cons_append, List.nil_append]
      exact Fails.seq_right (Parses.chr '=' _)
        (Fails.seq_right (sp_nil (by simp [NoWs, isWs])) (Fails.seq_left (value_fails_eq _)))
    · rw [hct]; exact Fails.seq_left (Fails.chr_ne _ he)

/-- The generic alternative of `Call` on `Name(args)`: the dedicated alternatives fail (`SpecialFree`). -/
theorem call_generic_ok (name atext r : List Char) (evs : List Ev) (hn : IdentName name)
    (hsp : SpecialFree name (atext ++ ')' :: r)) (hws : NoWs (atext ++ ')' :: r)) (hr : NoWs r)
    (ha : P (.ref R.allargs) (atext ++ ')' :: r) (')' :: r) evs) :
    P (.ref R.Call) (name ++ '(' :: (atext ++ ')' :: r)) r
      ([.text name, .act (.startCall .text)] ++ evs ++ [.act .endCall]) := by
  -- what follows `(` in the dedicated alternatives fails on the body
  have hcol : ∀ kw ∈ specialKws, name = kw → kw ∈ wideKws → ∀ more : PExpr,
      F (.seq (.ref R.col) more) (atext ++ ')' :: r) := by
    intro kw hkw e hw more
    rcases hsp with h | ⟨_, k, x, rest, hb, hk, _⟩ | ⟨hr, _⟩
    · exact absurd (e ▸ hkw) h
    · rw [hb]; exact Fails.seq_left (col_fails_key hk _)
    · rw [← e, hr] at hw; simp [wideKws, rangeKw] at hw
  have hpos1 : ∀ kw ∈ specialKws, name = kw → kw ∈ wideKws → ∀ more : PExpr,
      F (.seq (.ref R.posfield) (.seq (.ref R.comma) more)) (atext ++ ')' :: r) := by
    intro kw hkw e hw more
    rcases hsp with h | ⟨_, k, x, rest, hb, hk, hx, _, hcm⟩ | ⟨hr, _⟩
    rotate_left 2
    · rw [← e, hr] at hw; simp [wideKws, rangeKw] at hw
    · exact absurd (e ▸ hkw) h
    · rw [hb]
      rcases hk with hk | hk
      · exact Fails.seq_right (posfield_ok hk (by simpa [NotHead] using hx)) (Fails.seq_left hcm)
      · obtain ⟨t, rfl⟩ := reserved_head hk; exact Fails.seq_left (posfield_fails_us _)
  have hpos2 : ∀ kw ∈ specialKws, name = kw → kw ∈ wideKws → ∀ more : PExpr,
      F (.seq (.ref R.posfield) (.seq (.opt (.seq (.ref R.comma) (.ref R.allargs))) (.seq (.ref R.close) more)))
        (atext ++ ')' :: r) := by
    intro kw hkw e hw more
    rcases hsp with h | ⟨_, k, x, rest, hb, hk, hx, hxc, hcm⟩ | ⟨hr, _⟩
    rotate_left 2
    · rw [← e, hr] at hw; simp [wideKws, rangeKw] at hw
    · exact absurd (e ▸ hkw) h
    · rw [hb]
      rcases hk with hk | hk
      · exact Fails.seq_right (posfield_ok hk (by simpa [NotHead] using hx))
          (Fails.seq_right (Parses.opt_none (Fails.seq_left hcm))
            (Fails.seq_left (close_fails (by simpa [NotHead] using hxc))))
      · obtain ⟨t, rfl⟩ := reserved_head hk; exact Fails.seq_left (posfield_fails_us _)
  have hhard : ∀ kw ∈ hardKws, name = kw → ∀ more : PExpr, F more (atext ++ ')' :: r) := by
    intro kw hkw e more
    rcases hsp with h | ⟨hw, _⟩ | ⟨hr, _⟩
    · exact absurd (e ▸ (by
        simp only [hardKws, List.mem_cons, List.not_mem_nil, or_false] at hkw
        rcases hkw with rfl | rfl <;> simp [specialKws])) h
    · subst e
      simp only [hardKws, List.mem_cons, List.not_mem_nil, or_false] at hkw
      rcases hkw with rfl | rfl <;> simp [wideKws] at hw
    · subst e
      simp only [hardKws, List.mem_cons, List.not_mem_nil, or_false] at hkw
      rcases hkw with rfl | rfl <;> simp [rangeKw] at hr
  have hrange : name = rangeKw → ∀ more : PExpr,
      F (.seq (.ref R.field) (.seq (.ref R.sp) (.seq (.chr '=') (.seq (.ref R.sp) (.seq (.ref R.value) more)))))
        (atext ++ ')' :: r) := by
    intro e more
    rcases hsp with h | ⟨hw, _⟩ | ⟨_, hb⟩
    · rw [e] at h; exact absurd (by simp [specialKws, rangeKw]) h
    · rw [e] at hw; simp [wideKws, rangeKw] at hw
    · exact range_more_fails _ hb more
  apply Parses.ref
  show P e_Call _ _ _
  simp only [e_Call, alts, seqs]
  refine Parses.alt_right (special_alt_fails _ _ _ name _ hn (by simp [specialKws]) hws
      (fun e => hcol _ (by simp [specialKws]) e (by simp [wideKws]) _))
    (Parses.alt_right (special_alt_fails _ _ _ name _ hn (by simp [specialKws]) hws
      (fun e => hpos1 _ (by simp [specialKws]) e (by simp [wideKws]) _))
    (Parses.alt_right (special_alt_fails _ _ _ name _ hn (by simp [specialKws]) hws
      (fun e => hcol _ (by simp [specialKws]) e (by simp [wideKws]) _))
    (Parses.alt_right (special_alt_fails _ _ _ name _ hn (by simp [specialKws]) hws
      (fun e => hcol _ (by simp [specialKws]) e (by simp [wideKws]) _))
    (Parses.alt_right (special_alt_fails _ _ _ name _ hn (by simp [specialKws]) hws
      (fun e => hhard _ (by simp [hardKws]) e _))
    (Parses.alt_right (special_alt_fails _ _ _ name _ hn (by simp [specialKws]) hws
      (fun e => hhard _ (by simp [hardKws]) e _))
    (Parses.alt_right (special_alt_fails _ _ _ name _ hn (by simp [specialKws]) hws
      (fun e => hpos2 _ (by simp [specialKws]) e (by simp [wideKws]) _))
    (Parses.alt_right (special_alt_fails _ _ _ name _ hn (by simp [specialKws]) hws
      (fun e => hpos2 _ (by simp [specialKws]) e (by simp [wideKws]) _))
    (Parses.alt_right (special_alt_fails _ _ _ name _ hn (by simp [specialKws]) hws
      (fun e => hrange e _))
    ?_))))))))
  have h1 : P (.cap (.ref R.IDENT)) (name ++ '(' :: (atext ++ ')' :: r)) ('(' :: (atext ++ ')' :: r))
      ([] ++ [.text name]) :=
    Parses.cap_prefix (ident_ok hn (by simp [NotHead, isAlnum, isAlpha, isLower, isUpper, isDigit]))
  have h2 := Parses.act (rule := Gen.rule) (.startCall .text) ('(' :: (atext ++ ')' :: r))
  have h3 := open_ok hws
  have h4 : P (.opt (.ref R.comma)) (')' :: r) (')' :: r) [] :=
    Parses.opt_none (comma_fails (by simp [NoWs, isWs]) (by simp [NotHead]))
  have h5 := close_ok hr
  have h6 := Parses.act (rule := Gen.rule) .endCall r
  have h := Parses.seq h1 (Parses.seq h2 (Parses.seq h3 (Parses.seq ha (Parses.seq h4 (Parses.seq h5 h6)))))
  simpa using h

/-- `Calls` on the text of one call. -/
theorem calls_single (ctext : List Char) (evs : List Ev) (hws : NoWs ctext)
    (h : P (.ref R.Call) ctext [] evs) : P (.ref R.Calls) ctext [] evs := by
  apply Parses.ref
  show P e_Calls _ _ _
  simp only [e_Calls, seqs]
  have h1 : P (.ref R.sp) ctext ctext [] := sp_nil hws
  have hsp0 : P (.ref R.sp) [] [] [] := sp_nil trivial
  have hstar : P (.star (.seq (.ref R.Call) (.ref R.sp))) ctext [] (evs ++ [] ++ []) :=
    Parses.star_cons (Parses.seq h hsp0) (Parses.star_nil (Fails.seq_left call_fails_nil))
  have hend : P (.notP .any) [] [] [] := Parses.notP Fails.any_nil
  simpa using Parses.seq h1 (Parses.seq hstar hend)

end PV.C26
