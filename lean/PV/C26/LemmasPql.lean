/-
C26 — lemmas about the regenerated PQL grammar (`Gen.rule`): what the token rules and the
alternatives of `item` do on the text `Call.String` prints.  Core Lean only.
-/
import PV.C26.LemmasPeg
import PV.C26.Gen
import PV.C26.Model
import PV.C26.LemmasNum
import PV.C26.LemmasStr
namespace PV.C26
open Gen

abbrev P := Parses Gen.rule
abbrev F := Fails Gen.rule

def isWs (c : Char) : Bool := c = ' ' || c = '\t' || c = '\n'

/-- `r` does not start with white space. -/
def NoWs : List Char → Prop
  | [] => True
  | c :: _ => isWs c = false

theorem ws_class_fails {r : List Char} (h : NoWs r) :
    F (alts [.chr ' ', .chr '\t', .chr '\n']) r := by
  simp only [alts]
  cases r with
  | nil => exact Fails.alt (Fails.chr_nil _) (Fails.alt (Fails.chr_nil _) (Fails.chr_nil _))
  | cons c t =>
    simp only [NoWs, isWs, Bool.or_eq_false_iff, decide_eq_false_iff_not] at h
    exact Fails.alt (Fails.chr_ne t h.1.1) (Fails.alt (Fails.chr_ne t h.1.2) (Fails.chr_ne t h.2))

theorem sp_nil {r : List Char} (h : NoWs r) : P (.ref R.sp) r r [] := by
  apply Parses.ref
  show P e_sp r r []
  simp only [e_sp]
  exact Parses.star_nil (ws_class_fails h)

theorem sp_one {r : List Char} (h : NoWs r) : P (.ref R.sp) (' ' :: r) r [] := by
  apply Parses.ref
  show P e_sp (' ' :: r) r []
  simp only [e_sp]
  have h1 : P (alts [.chr ' ', .chr '\t', .chr '\n']) (' ' :: r) r [] := by
    simp only [alts]; exact Parses.alt_left (Parses.chr _ _)
  have h2 : P (.star (alts [.chr ' ', .chr '\t', .chr '\n'])) r r [] := Parses.star_nil (ws_class_fails h)
  simpa using Parses.star_cons h1 h2

/-- `sp` never fails. -/
theorem sp_total (s : List Char) : ∃ s', P (.ref R.sp) s s' [] := by
  induction s with
  | nil => exact ⟨[], sp_nil trivial⟩
  | cons c t ih =>
    by_cases hw : isWs c = true
    · obtain ⟨s', hs'⟩ := ih
      refine ⟨s', ?_⟩
      apply Parses.ref
      show P e_sp (c :: t) s' []
      simp only [e_sp]
      have h1 : P (alts [.chr ' ', .chr '\t', .chr '\n']) (c :: t) t [] := by
        simp only [alts]
        simp only [isWs, Bool.or_eq_true, decide_eq_true_eq] at hw
        rcases hw with (rfl | rfl) | rfl
        · exact Parses.alt_left (Parses.chr _ _)
        · exact Parses.alt_right (Fails.chr_ne _ (by decide)) (Parses.alt_left (Parses.chr _ _))
        · exact Parses.alt_right (Fails.chr_ne _ (by decide))
            (Parses.alt_right (Fails.chr_ne _ (by decide)) (Parses.chr _ _))
      obtain ⟨n, hn⟩ := hs'
      have h2 : P e_sp t s' [] := by
        cases n with
        | zero => simp [run_zero] at hn
        | succ k => exact ⟨k, by rw [run_ref] at hn; exact hn⟩
      simp only [e_sp] at h2
      simpa using Parses.star_cons h1 h2
    · exact ⟨c :: t, sp_nil (by simpa [NoWs] using hw)⟩

/-- `r` does not start with a character satisfying `p`. -/
def NotHead (p : Char → Bool) : List Char → Prop
  | [] => True
  | c :: _ => p c = false

theorem star_class {cls : PExpr} {p : Char → Bool}
    (hok : ∀ x t, p x = true → P cls (x :: t) t [])
    (hfail : ∀ s, NotHead p s → F cls s)
    (w r : List Char) (hw : ∀ x ∈ w, p x = true) (hr : NotHead p r) :
    P (.star cls) (w ++ r) r [] := by
  induction w with
  | nil => exact Parses.star_nil (hfail r hr)
  | cons x xs ih =>
    have h1 := hok x (xs ++ r) (hw x (by simp))
    have h2 := ih (fun y hy => hw y (by simp [hy]))
    simpa using Parses.star_cons h1 h2

theorem comma_sp {r : List Char} (h : NoWs r) : P (.ref R.comma) (',' :: ' ' :: r) r [] := by
  apply Parses.ref
  show P e_comma _ r []
  simp only [e_comma, seqs, lit]
  have h1 : P (.ref R.sp) (',' :: ' ' :: r) (',' :: ' ' :: r) [] := sp_nil (by simp [NoWs, isWs])
  simpa using Parses.seq h1 (Parses.seq (Parses.chr ',' _) (sp_one h))

theorem comma_nosp {r : List Char} (h : NoWs r) : P (.ref R.comma) (',' :: r) r [] := by
  apply Parses.ref
  show P e_comma _ r []
  simp only [e_comma, seqs, lit]
  have h1 : P (.ref R.sp) (',' :: r) (',' :: r) [] := sp_nil (by simp [NoWs, isWs])
  simpa using Parses.seq h1 (Parses.seq (Parses.chr ',' _) (sp_nil h))

/-- `comma` fails where the next character is neither white space nor a comma. -/
theorem comma_fails {r : List Char} (h : NoWs r) (hc : NotHead (· = ',') r) : F (.ref R.comma) r := by
  apply Fails.ref
  show F e_comma r
  simp only [e_comma, seqs, lit]
  refine Fails.seq_right (sp_nil h) (Fails.seq_left ?_)
  cases r with
  | nil => exact Fails.chr_nil _
  | cons c t => exact Fails.chr_ne t (by simpa [NotHead] using hc)

theorem open_ok {r : List Char} (h : NoWs r) : P (.ref R.open') ('(' :: r) r [] := by
  apply Parses.ref
  show P e_open _ r []
  simp only [e_open, seqs, lit]
  simpa using Parses.seq (Parses.chr '(' r) (sp_nil h)

theorem open_fails {r : List Char} (h : NotHead (· = '(') r) : F (.ref R.open') r := by
  apply Fails.ref
  show F e_open r
  simp only [e_open, seqs, lit]
  refine Fails.seq_left ?_
  cases r with
  | nil => exact Fails.chr_nil _
  | cons c t => exact Fails.chr_ne t (by simpa [NotHead] using h)

theorem close_ok {r : List Char} (h : NoWs r) : P (.ref R.close) (')' :: r) r [] := by
  apply Parses.ref
  show P e_close _ r []
  simp only [e_close, seqs, lit]
  simpa using Parses.seq (Parses.chr ')' r) (sp_nil h)

theorem close_total (r : List Char) : ∃ r', P (.ref R.close) (')' :: r) r' [] := by
  obtain ⟨r', hr'⟩ := sp_total r
  refine ⟨r', ?_⟩
  apply Parses.ref
  show P e_close _ r' []
  simp only [e_close, seqs, lit]
  simpa using Parses.seq (Parses.chr ')' r) hr'

theorem close_fails {r : List Char} (h : NotHead (· = ')') r) : F (.ref R.close) r := by
  apply Fails.ref
  show F e_close r
  simp only [e_close, seqs, lit]
  refine Fails.seq_left ?_
  cases r with
  | nil => exact Fails.chr_nil _
  | cons c t => exact Fails.chr_ne t (by simpa [NotHead] using h)

/-! ### Identifiers and field names -/

def isLower (c : Char) : Bool := 'a' ≤ c && c ≤ 'z'
def isUpper (c : Char) : Bool := 'A' ≤ c && c ≤ 'Z'
def isAlpha (c : Char) : Bool := isLower c || isUpper c
def isAlnum (c : Char) : Bool := isAlpha c || isDigit c
def isFieldCh (c : Char) : Bool := isAlnum c || c = '_' || c = '-'

theorem alpha_ok (x : Char) (t : List Char) (h : isAlpha x = true) :
    P (alts [.rng 'a' 'z', .rng 'A' 'Z']) (x :: t) t [] := by
  simp only [alts]
  simp only [isAlpha, isLower, isUpper, Bool.or_eq_true, Bool.and_eq_true, decide_eq_true_eq] at h
  by_cases hl : 'a' ≤ x ∧ x ≤ 'z'
  · exact Parses.alt_left (Parses.rng t hl)
  · rcases h with h | h
    · exact absurd h hl
    · exact Parses.alt_right (Fails.rng_ne t hl) (Parses.rng t h)

theorem alpha_fails (s : List Char) (h : NotHead isAlpha s) : F (alts [.rng 'a' 'z', .rng 'A' 'Z']) s := by
  simp only [alts]
  cases s with
  | nil => exact Fails.alt (Fails.rng_nil _ _) (Fails.rng_nil _ _)
  | cons x t =>
    simp only [NotHead, isAlpha, isLower, isUpper, Bool.or_eq_false_iff, Bool.and_eq_false_iff,
      decide_eq_false_iff_not] at h
    refine Fails.alt (Fails.rng_ne t ?_) (Fails.rng_ne t ?_)
    · intro ⟨a, b⟩; rcases h.1 with h | h <;> contradiction
    · intro ⟨a, b⟩; rcases h.2 with h | h <;> contradiction

theorem digit_ok (x : Char) (t : List Char) (h : isDigit x = true) : P (.rng '0' '9') (x :: t) t [] := by
  simp only [isDigit, Bool.and_eq_true, decide_eq_true_eq] at h
  exact Parses.rng t h

theorem digit_fails (s : List Char) (h : NotHead isDigit s) : F (.rng '0' '9') s := by
  cases s with
  | nil => exact Fails.rng_nil _ _
  | cons x t =>
    simp only [NotHead, isDigit, Bool.and_eq_false_iff, decide_eq_false_iff_not] at h
    refine Fails.rng_ne t ?_
    intro ⟨a, b⟩; rcases h with h | h <;> contradiction

theorem alnum_ok (x : Char) (t : List Char) (h : isAlnum x = true) :
    P (alts [.rng 'a' 'z', .rng 'A' 'Z', .rng '0' '9']) (x :: t) t [] := by
  simp only [alts]
  by_cases hl : isLower x = true
  · exact Parses.alt_left (Parses.rng t (by simpa [isLower] using hl))
  · by_cases hu : isUpper x = true
    · exact Parses.alt_right (Fails.rng_ne t (by simpa [isLower] using hl))
        (Parses.alt_left (Parses.rng t (by simpa [isUpper] using hu)))
    · have hd : isDigit x = true := by
        simp only [isAlnum, isAlpha, Bool.or_eq_true] at h
        rcases h with (h | h) | h
        · exact absurd h hl
        · exact absurd h hu
        · exact h
      exact Parses.alt_right (Fails.rng_ne t (by simpa [isLower] using hl))
        (Parses.alt_right (Fails.rng_ne t (by simpa [isUpper] using hu)) (digit_ok x t hd))

theorem alnum_fails (s : List Char) (h : NotHead isAlnum s) :
    F (alts [.rng 'a' 'z', .rng 'A' 'Z', .rng '0' '9']) s := by
  simp only [alts]
  cases s with
  | nil => exact Fails.alt (Fails.rng_nil _ _) (Fails.alt (Fails.rng_nil _ _) (Fails.rng_nil _ _))
  | cons x t =>
    simp only [NotHead, isAlnum, isAlpha, Bool.or_eq_false_iff] at h
    obtain ⟨⟨hl, hu⟩, hd⟩ := h
    exact Fails.alt (Fails.rng_ne t (by simpa [isLower] using hl))
      (Fails.alt (Fails.rng_ne t (by simpa [isUpper] using hu)) (digit_fails (x :: t) hd))

/-- An identifier: a letter followed by letters and digits. -/
def IdentName (w : List Char) : Prop :=
  ∃ c cs, w = c :: cs ∧ isAlpha c = true ∧ ∀ x ∈ cs, isAlnum x = true

theorem ident_ok {w r : List Char} (hw : IdentName w) (hr : NotHead isAlnum r) :
    P (.ref R.IDENT) (w ++ r) r [] := by
  obtain ⟨c, cs, rfl, hc, hcs⟩ := hw
  apply Parses.ref
  show P e_IDENT _ r []
  simp only [e_IDENT, seqs]
  have h1 := alpha_ok c (cs ++ r) hc
  have h2 := star_class alnum_ok alnum_fails cs r hcs hr
  simpa using Parses.seq h1 h2

theorem ident_fails {s : List Char} (h : NotHead isAlpha s) : F (.ref R.IDENT) s := by
  apply Fails.ref
  show F e_IDENT s
  simp only [e_IDENT, seqs]
  exact Fails.seq_left (alpha_fails s h)

theorem fieldch_ok (x : Char) (t : List Char) (h : isFieldCh x = true) :
    P (alts [.rng 'a' 'z', .rng 'A' 'Z', .rng '0' '9', .chr '_', .chr '-']) (x :: t) t [] := by
  simp only [alts]
  by_cases hl : isLower x = true
  · exact Parses.alt_left (Parses.rng t (by simpa [isLower] using hl))
  refine Parses.alt_right (Fails.rng_ne t (by simpa [isLower] using hl)) ?_
  by_cases hu : isUpper x = true
  · exact Parses.alt_left (Parses.rng t (by simpa [isUpper] using hu))
  refine Parses.alt_right (Fails.rng_ne t (by simpa [isUpper] using hu)) ?_
  by_cases hd : isDigit x = true
  · exact Parses.alt_left (digit_ok x t hd)
  refine Parses.alt_right (digit_fails (x :: t) (by simpa [NotHead] using hd)) ?_
  by_cases h_ : x = '_'
  · subst h_; exact Parses.alt_left (Parses.chr _ _)
  refine Parses.alt_right (Fails.chr_ne t h_) ?_
  have : x = '-' := by
    simp only [isFieldCh, isAlnum, isAlpha, Bool.or_eq_true, decide_eq_true_eq] at h
    rcases h with ((((h | h) | h) | h) | h)
    · exact absurd h hl
    · exact absurd h hu
    · exact absurd h hd
    · exact absurd h h_
    · exact h
  subst this; exact Parses.chr _ _

theorem fieldch_fails (s : List Char) (h : NotHead isFieldCh s) :
    F (alts [.rng 'a' 'z', .rng 'A' 'Z', .rng '0' '9', .chr '_', .chr '-']) s := by
  simp only [alts]
  cases s with
  | nil =>
    exact Fails.alt (Fails.rng_nil _ _) (Fails.alt (Fails.rng_nil _ _) (Fails.alt (Fails.rng_nil _ _)
      (Fails.alt (Fails.chr_nil _) (Fails.chr_nil _))))
  | cons x t =>
    simp only [NotHead, isFieldCh, isAlnum, isAlpha, Bool.or_eq_false_iff, decide_eq_false_iff_not] at h
    obtain ⟨⟨⟨⟨hl, hu⟩, hd⟩, h_⟩, hm⟩ := h
    exact Fails.alt (Fails.rng_ne t (by simpa [isLower] using hl))
      (Fails.alt (Fails.rng_ne t (by simpa [isUpper] using hu))
        (Fails.alt (digit_fails (x :: t) hd) (Fails.alt (Fails.chr_ne t h_) (Fails.chr_ne t hm))))

/-- A field name: a letter followed by letters, digits, `_`, `-` (rule fieldExpr). -/
def FieldName (w : List Char) : Prop :=
  ∃ c cs, w = c :: cs ∧ isAlpha c = true ∧ ∀ x ∈ cs, isFieldCh x = true

theorem fieldExpr_ok {w r : List Char} (hw : FieldName w) (hr : NotHead isFieldCh r) :
    P (.ref R.fieldExpr) (w ++ r) r [] := by
  obtain ⟨c, cs, rfl, hc, hcs⟩ := hw
  apply Parses.ref
  show P e_fieldExpr _ r []
  simp only [e_fieldExpr, seqs]
  have h1 := alpha_ok c (cs ++ r) hc
  have h2 := star_class fieldch_ok fieldch_fails cs r hcs hr
  simpa using Parses.seq h1 h2

/-- `field` on a field name: records the name and the action `addField(text)`. -/
theorem field_ok {w r : List Char} (hw : FieldName w) (hr : NotHead isFieldCh r) :
    P (.ref R.field) (w ++ r) r [.text w, .act (.addField .text)] := by
  apply Parses.ref
  show P e_field _ r _
  simp only [e_field, seqs, alts]
  have h1 : P (.cap (.alt (.ref R.fieldExpr) (.ref R.reserved))) (w ++ r) r ([] ++ [.text w]) :=
    Parses.cap_prefix (Parses.alt_left (fieldExpr_ok hw hr))
  simpa using Parses.seq h1 (Parses.act (.addField .text) r)


/-- A literal fails on an input that starts with another character than the literal. -/
theorem lit_fails_head (w : List Char) (c : Char) (t : List Char) (hw : ∃ a as, w = a :: as ∧ a ≠ c) :
    F (lit w) (c :: t) := by
  obtain ⟨a, as, rfl, hne⟩ := hw
  refine Fails.lit _ _ (by simp) ?_
  intro ⟨u, hu⟩
  simp at hu
  exact hne hu.1

theorem lit_fails_nil (w : List Char) (hw : w ≠ []) : F (lit w) [] := by
  refine Fails.lit _ _ hw ?_
  intro ⟨u, hu⟩
  cases w with
  | nil => exact hw rfl
  | cons a as => simp at hu

theorem seq_digit_fails_nil {rest : PExpr} : F (.seq (.rng '0' '9') rest) [] :=
  Fails.seq_left (Fails.rng_nil _ _)

/-- One digit position of a digit sequence: fails when the character is not a digit or the rest fails. -/
theorem seq_digit_fails_cons {rest : PExpr} {x : Char} {t : List Char}
    (h : isDigit x = false ∨ F rest t) : F (.seq (.rng '0' '9') rest) (x :: t) := by
  by_cases hd : isDigit x = true
  · rcases h with h | h
    · rw [hd] at h; exact absurd h (by simp)
    · exact Fails.seq_right (digit_ok x t hd) h
  · exact Fails.seq_left (digit_fails (x :: t) (by simpa [NotHead] using hd))

/-- `timestampbasicfmt` needs four digits and a dash first. -/
def tsPrefix5 : List Char → Bool
  | [] => false
  | a :: s1 => isDigit a && (match s1 with
    | [] => false
    | b :: s2 => isDigit b && (match s2 with
      | [] => false
      | c :: s3 => isDigit c && (match s3 with
        | [] => false
        | d :: s4 => isDigit d && (match s4 with
          | [] => false
          | e :: _ => e = '-'))))

theorem tsbasic_fails {s : List Char} (h : tsPrefix5 s = false) : F (.ref R.timestampbasicfmt) s := by
  apply Fails.ref
  show F e_timestampbasicfmt s
  simp only [e_timestampbasicfmt, seqs, lit]
  cases s with
  | nil => exact seq_digit_fails_nil
  | cons a s1 =>
    apply seq_digit_fails_cons
    by_cases ha : isDigit a = true
    · right
      cases s1 with
      | nil => exact seq_digit_fails_nil
      | cons b s2 =>
        apply seq_digit_fails_cons
        by_cases hb : isDigit b = true
        · right
          cases s2 with
          | nil => exact seq_digit_fails_nil
          | cons c s3 =>
            apply seq_digit_fails_cons
            by_cases hc : isDigit c = true
            · right
              cases s3 with
              | nil => exact seq_digit_fails_nil
              | cons d s4 =>
                apply seq_digit_fails_cons
                by_cases hd : isDigit d = true
                · right
                  cases s4 with
                  | nil => exact Fails.seq_left (Fails.chr_nil _)
                  | cons e s5 =>
                    refine Fails.seq_left (Fails.chr_ne s5 ?_)
                    simpa [tsPrefix5, ha, hb, hc, hd] using h
                · left; simpa using hd
            · left; simpa using hc
        · left; simpa using hb
    · left; simpa using ha

/-- `timestampfmt` fails on a text that does not begin with a quote and is not timestamp shaped. -/
theorem tsfmt_fails {c : Char} {t : List Char} (h1 : c ≠ '"') (h2 : c ≠ '\'') (h : tsPrefix5 (c :: t) = false) :
    F (.ref R.timestampfmt) (c :: t) := by
  apply Fails.ref
  show F e_timestampfmt _
  simp only [e_timestampfmt, seqs, alts, lit]
  exact Fails.alt (Fails.seq_left (Fails.chr_ne t h1))
    (Fails.alt (Fails.seq_left (Fails.chr_ne t h2)) (Fails.cap (tsbasic_fails h)))


theorem digits_star (ds r : List Char) (hall : ∀ c ∈ ds, isDigit c = true) (hr : NotHead isDigit r) :
    P (.star (.rng '0' '9')) (ds ++ r) r [] :=
  star_class digit_ok digit_fails ds r hall hr

theorem digits_plus (ds r : List Char) (hne : ds ≠ []) (hall : ∀ c ∈ ds, isDigit c = true)
    (hr : NotHead isDigit r) : P (plus (.rng '0' '9')) (ds ++ r) r [] := by
  cases ds with
  | nil => exact absurd rfl hne
  | cons d ds' =>
    simp only [plus]
    have h1 := digit_ok d (ds' ++ r) (hall d (by simp))
    have h2 := digits_star ds' r (fun c hc => hall c (by simp [hc])) hr
    simpa using Parses.seq h1 h2

def signText (neg : Bool) : List Char := if neg then ['-'] else []

theorem opt_minus (neg : Bool) (s : List Char) (hs : NotHead (· = '-') s) :
    P (.opt (.chr '-')) (signText neg ++ s) s [] := by
  cases neg with
  | true => exact Parses.opt_some (Parses.chr '-' s)
  | false =>
    refine Parses.opt_none ?_
    cases s with
    | nil => exact Fails.chr_nil _
    | cons c t => exact Fails.chr_ne t (by simpa [NotHead] using hs)

theorem digits_head_not_minus (ds r : List Char) (hne : ds ≠ []) (hall : ∀ c ∈ ds, isDigit c = true) :
    NotHead (· = '-') (ds ++ r) := by
  cases ds with
  | nil => exact absurd rfl hne
  | cons d ds' =>
    simp only [List.cons_append, NotHead, decide_eq_false_iff_not]
    exact isDigit_ne_minus d (hall d (by simp))

/-- The first numeric alternative of `item` on an integer text: captures sign and digits. -/
theorem num_int_ok (neg : Bool) (ds r : List Char) (hne : ds ≠ []) (hall : ∀ c ∈ ds, isDigit c = true)
    (hr1 : NotHead isDigit r) (hr2 : NotHead (· = '.') r) :
    P (.cap (seqs [.opt (.chr '-'), plus (.rng '0' '9'), .opt (seqs [lit ['.'], .star (.rng '0' '9')])]))
      ((signText neg ++ ds) ++ r) r [.text (signText neg ++ ds)] := by
  have h1 := opt_minus neg (ds ++ r) (digits_head_not_minus ds r hne hall)
  have h2 := digits_plus ds r hne hall hr1
  have h3 : P (.opt (seqs [lit ['.'], .star (.rng '0' '9')])) r r [] := by
    refine Parses.opt_none ?_
    simp only [seqs, lit]
    refine Fails.seq_left ?_
    cases r with
    | nil => exact Fails.chr_nil _
    | cons c t => exact Fails.chr_ne t (by simpa [NotHead] using hr2)
  have h := Parses.seq h1 (Parses.seq h2 h3)
  have hc := Parses.cap_prefix (w := signText neg ++ ds) (r := r) (a := seqs [.opt (.chr '-'), plus (.rng '0' '9'),
    .opt (seqs [lit ['.'], .star (.rng '0' '9')])]) (evs := [] ++ ([] ++ [])) (by simpa [seqs] using h)
  simpa using hc


/-- What follows a value in a printed call: `,` (next argument / element), `)` or `]`. -/
def Delim (d : Char) : Prop := d = ',' ∨ d = ')' ∨ d = ']'

theorem Delim.facts {d : Char} (h : Delim d) :
    isDigit d = false ∧ d ≠ '.' ∧ d ≠ '-' ∧ isWs d = false ∧ isFieldCh d = false ∧ d ≠ '"' ∧ d ≠ '\'' ∧
      d ≠ '(' ∧ d ≠ '=' := by
  rcases h with rfl | rfl | rfl <;> decide

theorem num_text_head (neg : Bool) (ds s : List Char) (hne : ds ≠ []) (hall : ∀ c ∈ ds, isDigit c = true) :
    ∃ c t, signText neg ++ ds ++ s = c :: t ∧ (c = '-' ∨ isDigit c = true) := by
  cases neg with
  | true => exact ⟨'-', ds ++ s, rfl, Or.inl rfl⟩
  | false =>
    cases ds with
    | nil => exact absurd rfl hne
    | cons x xs => exact ⟨x, xs ++ s, rfl, Or.inr (hall x (by simp))⟩

theorem digit_facts {c : Char} (h : isDigit c = true) :
    c ≠ 'n' ∧ c ≠ 't' ∧ c ≠ 'f' ∧ c ≠ '"' ∧ c ≠ '\'' ∧ c ≠ '-' := by
  simp only [isDigit, Bool.and_eq_true, decide_eq_true_eq] at h
  obtain ⟨h1, h2⟩ := h
  refine ⟨?_, ?_, ?_, ?_, ?_, ?_⟩ <;> (intro e; subst e; revert h1 h2; decide)

theorem tsPrefix5_digits (ds : List Char) (d : Char) (r : List Char) (hall : ∀ c ∈ ds, isDigit c = true)
    (hd : isDigit d = false) (hm : d ≠ '-') : tsPrefix5 (ds ++ d :: r) = false := by
  match ds, hall with
  | [], _ => simp [tsPrefix5, hd]
  | [a], _ => simp [tsPrefix5, hd]
  | [a, b], _ => simp [tsPrefix5, hd]
  | [a, b, c], _ => simp [tsPrefix5, hd]
  | [a, b, c, e], _ => simp [tsPrefix5, hm]
  | a :: b :: c :: e :: f :: rest, hall =>
    have hf : f ≠ '-' := (digit_facts (hall f (by simp))).2.2.2.2.2
    simp [tsPrefix5, hf]

theorem item_int_ok (neg : Bool) (ds r : List Char) (d : Char) (hne : ds ≠ [])
    (hall : ∀ c ∈ ds, isDigit c = true) (hd : Delim d) :
    P (.ref R.item) ((signText neg ++ ds) ++ d :: r) (d :: r)
      [.text (signText neg ++ ds), .act .addNumVal] := by
  obtain ⟨f1, f2, f3, f4, f5, f6, f7, f8, f9⟩ := hd.facts
  obtain ⟨c, t, htext, hc⟩ := num_text_head neg ds (d :: r) hne hall
  have hcf : c ≠ 'n' ∧ c ≠ 't' ∧ c ≠ 'f' ∧ c ≠ '"' ∧ c ≠ '\'' := by
    rcases hc with rfl | hc
    · decide
    · obtain ⟨a, b, c', d', e', _⟩ := digit_facts hc; exact ⟨a, b, c', d', e'⟩
  have hts : tsPrefix5 (signText neg ++ ds ++ d :: r) = false := by
    cases neg with
    | true => simp [signText, tsPrefix5, isDigit]
    | false => simpa [signText] using tsPrefix5_digits ds d r hall f1 f3
  apply Parses.ref
  show P e_item _ _ _
  simp only [e_item, alts, seqs]
  refine Parses.alt_right (Fails.seq_left ?_) (Parses.alt_right (Fails.seq_left ?_)
    (Parses.alt_right (Fails.seq_left ?_) (Parses.alt_right (Fails.seq_left ?_) (Parses.alt_left ?_))))
  · rw [htext]; exact lit_fails_head _ c t ⟨_, _, rfl, fun e => hcf.1 e.symm⟩
  · rw [htext]; exact lit_fails_head _ c t ⟨_, _, rfl, fun e => hcf.2.1 e.symm⟩
  · rw [htext]; exact lit_fails_head _ c t ⟨_, _, rfl, fun e => hcf.2.2.1 e.symm⟩
  · rw [htext] at hts ⊢; exact tsfmt_fails hcf.2.2.2.1 hcf.2.2.2.2 hts
  · have h := num_int_ok neg ds (d :: r) hne hall (by simpa [NotHead] using f1) (by simpa [NotHead] using f2)
    simpa [seqs] using Parses.seq h (Parses.act .addNumVal (d :: r))

/-- The lookahead of the keyword literals: `&(comma / sp close)` holds before `,` and before `)`. -/
theorem kw_lookahead (d : Char) (r : List Char) (hd : d = ',' ∨ d = ')') :
    P (.andP (alts [.ref R.comma, seqs [.ref R.sp, .ref R.close]])) (d :: r) (d :: r) [] := by
  simp only [alts, seqs]
  rcases hd with rfl | rfl
  · -- comma: sp (nothing), ',', sp (whatever follows)
    obtain ⟨r', hr'⟩ := sp_total r
    have hc : P (.ref R.comma) (',' :: r) r' [] := by
      apply Parses.ref
      show P e_comma _ r' []
      simp only [e_comma, seqs, lit]
      have h1 : P (.ref R.sp) (',' :: r) (',' :: r) [] := sp_nil (by simp [NoWs, isWs])
      simpa using Parses.seq h1 (Parses.seq (Parses.chr ',' r) hr')
    exact Parses.andP (Parses.alt_left hc)
  · obtain ⟨r', hr'⟩ := close_total r
    have hs : P (.ref R.sp) (')' :: r) (')' :: r) [] := sp_nil (by simp [NoWs, isWs])
    have hcomma : F (.ref R.comma) (')' :: r) := comma_fails (by simp [NoWs, isWs]) (by simp [NotHead])
    exact Parses.andP (Parses.alt_right hcomma (Parses.seq hs hr'))

theorem item_null_ok (d : Char) (r : List Char) (hd : d = ',' ∨ d = ')') :
    P (.ref R.item) (['n', 'u', 'l', 'l'] ++ d :: r) (d :: r) [.act (.addVal .null)] := by
  apply Parses.ref
  show P e_item _ _ _
  simp only [e_item, alts, seqs]
  refine Parses.alt_left ?_
  have h1 := Parses.lit (rule := Gen.rule) ['n', 'u', 'l', 'l'] (d :: r)
  simpa [alts, seqs] using Parses.seq h1 (Parses.seq (kw_lookahead d r hd) (Parses.act (.addVal .null) (d :: r)))

theorem item_true_ok (d : Char) (r : List Char) (hd : d = ',' ∨ d = ')') :
    P (.ref R.item) (['t', 'r', 'u', 'e'] ++ d :: r) (d :: r) [.act (.addVal (.bool true))] := by
  apply Parses.ref
  show P e_item _ _ _
  simp only [e_item, alts, seqs]
  refine Parses.alt_right (Fails.seq_left (lit_fails_head _ 't' _ ⟨_, _, rfl, by decide⟩)) (Parses.alt_left ?_)
  have h1 := Parses.lit (rule := Gen.rule) ['t', 'r', 'u', 'e'] (d :: r)
  simpa [alts, seqs] using Parses.seq h1 (Parses.seq (kw_lookahead d r hd) (Parses.act (.addVal (.bool true)) (d :: r)))

theorem item_false_ok (d : Char) (r : List Char) (hd : d = ',' ∨ d = ')') :
    P (.ref R.item) (['f', 'a', 'l', 's', 'e'] ++ d :: r) (d :: r) [.act (.addVal (.bool false))] := by
  apply Parses.ref
  show P e_item _ _ _
  simp only [e_item, alts, seqs]
  refine Parses.alt_right (Fails.seq_left (lit_fails_head _ 'f' _ ⟨_, _, rfl, by decide⟩))
    (Parses.alt_right (Fails.seq_left (lit_fails_head _ 'f' _ ⟨_, _, rfl, by decide⟩)) (Parses.alt_left ?_))
  have h1 := Parses.lit (rule := Gen.rule) ['f', 'a', 'l', 's', 'e'] (d :: r)
  simpa [alts, seqs] using Parses.seq h1 (Parses.seq (kw_lookahead d r hd) (Parses.act (.addVal (.bool false)) (d :: r)))


/-- The body of a double-quoted literal as the rule `doublequotedstring` walks it: `\"` and `\\` are
taken as pairs, every other character singly; it must not contain a bare `"` nor end in a lone `\`. -/
def dqOk : List Char → Bool
  | [] => true
  | '"' :: _ => false
  | '\\' :: '"' :: t => dqOk t
  | '\\' :: '\\' :: t => dqOk t
  | '\\' :: [] => false
  | '\\' :: c :: t => dqOk (c :: t)
  | _ :: t => dqOk t

abbrev dqClass : PExpr := alts [lit ['\\', '"'], lit ['\\', '\\'], seqs [.notP (.chr '"'), .any]]

theorem dq_plain_step (c : Char) (t : List Char) (h1 : c ≠ '"') (h2 : c ≠ '\\') :
    P dqClass (c :: t) t [] := by
  simp only [dqClass, alts, seqs, lit]
  refine Parses.alt_right (Fails.seq_left (Fails.chr_ne t h2)) (Parses.alt_right (Fails.seq_left (Fails.chr_ne t h2)) ?_)
  simpa using Parses.seq (Parses.notP (Fails.chr_ne (rule := Gen.rule) t h1)) (Parses.any c t)

theorem dqs_ok (w r : List Char) (h : dqOk w = true) :
    P (.star dqClass) (w ++ '"' :: r) ('"' :: r) [] := by
  induction w using dqOk.induct with
  | case1 =>
    refine Parses.star_nil ?_
    simp only [dqClass, alts, seqs, lit]
    exact Fails.alt (Fails.seq_left (Fails.chr_ne r (by decide)))
      (Fails.alt (Fails.seq_left (Fails.chr_ne r (by decide)))
        (Fails.seq_left (Fails.notP (Parses.chr '"' r))))
  | case2 t => simp [dqOk] at h
  | case3 t ih =>
    simp only [dqOk] at h
    have h1 : P dqClass ('\\' :: '"' :: (t ++ '"' :: r)) (t ++ '"' :: r) [] := by
      simp only [dqClass, alts]
      exact Parses.alt_left (Parses.lit ['\\', '"'] _)
    simpa using Parses.star_cons h1 (ih h)
  | case4 t ih =>
    simp only [dqOk] at h
    have h1 : P dqClass ('\\' :: '\\' :: (t ++ '"' :: r)) (t ++ '"' :: r) [] := by
      simp only [dqClass, alts, lit]
      refine Parses.alt_right (Fails.seq_right (Parses.chr '\\' _) (Fails.chr_ne _ (by decide))) (Parses.alt_left ?_)
      simpa using Parses.seq (Parses.chr (rule := Gen.rule) '\\' ('\\' :: (t ++ '"' :: r))) (Parses.chr '\\' _)
    simpa using Parses.star_cons h1 (ih h)
  | case5 => simp [dqOk] at h
  | case6 c t hc1 hc2 ih =>
    have h' : dqOk (c :: t) = true := by
      rw [dqOk] at h
      · exact h
      · exact hc1
      · exact hc2
    have h1 : P dqClass ('\\' :: c :: (t ++ '"' :: r)) (c :: (t ++ '"' :: r)) [] := by
      simp only [dqClass, alts, seqs, lit]
      have c1 : c ≠ '"' := fun e => hc1 (by rw [e])
      have c2 : c ≠ '\\' := fun e => hc2 (by rw [e])
      refine Parses.alt_right (Fails.seq_right (Parses.chr '\\' _) (Fails.chr_ne _ c1))
        (Parses.alt_right (Fails.seq_right (Parses.chr '\\' _) (Fails.chr_ne _ c2)) ?_)
      simpa using Parses.seq (Parses.notP (Fails.chr_ne (rule := Gen.rule) _ (by decide : '\\' ≠ '"'))) (Parses.any '\\' _)
    simpa using Parses.star_cons h1 (ih h')
  | case7 c t hq hb1 hb2 hb3 hb4 ih =>
    have cb : c ≠ '\\' := by
      intro e
      cases t with
      | nil => exact hb3 e rfl
      | cons x xs => exact hb4 x xs e rfl
    have cq : c ≠ '"' := fun e => hq e
    have h' : dqOk t = true := by
      rw [dqOk] at h
      · exact h
      · exact hq
      · intro t1 e; exact absurd e cb
      · intro t1 e; exact absurd e cb
      · intro e; exact absurd e cb
      · intro c1 t1 e; exact absurd e cb
    simpa using Parses.star_cons (dq_plain_step c (t ++ '"' :: r) cq cb) (ih h')

/-- `doublequotedstring` consumes a well-formed body up to the closing quote. -/
theorem dqstring_ok (w r : List Char) (h : dqOk w = true) :
    P (.ref R.doublequotedstring) (w ++ '"' :: r) ('"' :: r) [] := by
  apply Parses.ref
  show P e_doublequotedstring _ _ _
  exact dqs_ok w r h

/-- The closing quote ends a possible timestamp prefix: what follows it does not matter. -/
theorem tsPrefix5_quote (w s : List Char) : tsPrefix5 (w ++ '"' :: s) = tsPrefix5 (w ++ ['"']) := by
  match w with
  | [] => simp [tsPrefix5, isDigit]
  | [a] => simp [tsPrefix5, isDigit]
  | [a, b] => simp [tsPrefix5, isDigit]
  | [a, b, c] => simp [tsPrefix5, isDigit]
  | [a, b, c, d] => simp [tsPrefix5]
  | a :: b :: c :: d :: e :: rest => simp [tsPrefix5]

/-- The double-quoted alternative of `item`: the capture is the whole literal with its quotes. -/
theorem item_dq_ok (w r : List Char) (d : Char) (h : dqOk w = true)
    (hts0 : tsPrefix5 (w ++ ['"']) = false) (_hd : Delim d) :
    P (.ref R.item) ('"' :: (w ++ '"' :: d :: r)) (d :: r)
      [.text ('"' :: (w ++ ['"'])), .act .addQuotedVal] := by
  apply Parses.ref
  show P e_item _ _ _
  simp only [e_item, alts, seqs]
  have hts : tsPrefix5 (w ++ '"' :: d :: r) = false := by
    rw [tsPrefix5_quote]; exact hts0
  refine Parses.alt_right (Fails.seq_left (lit_fails_head _ '"' _ ⟨_, _, rfl, by decide⟩))
    (Parses.alt_right (Fails.seq_left (lit_fails_head _ '"' _ ⟨_, _, rfl, by decide⟩))
    (Parses.alt_right (Fails.seq_left (lit_fails_head _ '"' _ ⟨_, _, rfl, by decide⟩))
    (Parses.alt_right (Fails.seq_left ?ts)
    (Parses.alt_right (Fails.seq_left (Fails.cap ?n1))
    (Parses.alt_right (Fails.seq_left (Fails.cap ?n2))
    (Parses.alt_right (Fails.seq_left (Fails.cap (ident_fails (by simp [NotHead, isAlpha, isLower, isUpper]))))
    (Parses.alt_right (Fails.seq_left (Fails.cap ?bw))
    (Parses.alt_left ?dq))))))))
  case ts =>
    apply Fails.ref
    show F e_timestampfmt _
    simp only [e_timestampfmt, seqs, alts, lit]
    exact Fails.alt (Fails.seq_right (Parses.chr '"' _) (Fails.seq_left (Fails.cap (tsbasic_fails hts))))
      (Fails.alt (Fails.seq_left (Fails.chr_ne _ (by decide)))
        (Fails.cap (tsbasic_fails (by simp [tsPrefix5, isDigit]))))
  case n1 =>
    refine Fails.seq_right (Parses.opt_none (Fails.chr_ne _ (by decide))) (Fails.seq_left ?_)
    simp only [plus]
    exact Fails.seq_left (digit_fails _ (by simp [NotHead, isDigit]))
  case n2 =>
    exact Fails.seq_right (Parses.opt_none (Fails.chr_ne _ (by decide))) (Fails.seq_left (lit_fails_head _ '"' _ ⟨_, _, rfl, by decide⟩))
  case bw =>
    simp only [plus]
    refine Fails.seq_left ?_
    exact Fails.alt (Fails.rng_ne _ (by decide)) (Fails.alt (Fails.rng_ne _ (by decide))
      (Fails.alt (Fails.rng_ne _ (by decide)) (Fails.alt (Fails.chr_ne _ (by decide))
        (Fails.alt (Fails.chr_ne _ (by decide)) (Fails.chr_ne _ (by decide))))))
  case dq =>
    have hb := dqstring_ok w (d :: r) h
    have h1 : P (.seq (lit ['"']) (.seq (.ref R.doublequotedstring) (lit ['"'])))
        ('"' :: (w ++ '"' :: d :: r)) (d :: r) ([] ++ ([] ++ [])) :=
      Parses.seq (Parses.chr '"' _) (Parses.seq hb (Parses.chr '"' _))
    have h2 := Parses.cap_prefix (w := '"' :: (w ++ ['"'])) (r := d :: r) (by simpa using h1)
    simpa using Parses.seq h2 (Parses.act .addQuotedVal (d :: r))

theorem dqOk_plain (c : Char) (t : List Char) (h1 : c ≠ '"') (h2 : c ≠ '\\') : dqOk (c :: t) = dqOk t := by
  rw [dqOk]
  · exact h1
  · intro t1 e; exact absurd e h2
  · intro t1 e; exact absurd e h2
  · intro e; exact absurd e h2
  · intro c1 t1 e; exact absurd e h2

theorem dqOk_esc (c : Char) (t : List Char) (h1 : c ≠ '"') (h2 : c ≠ '\\') :
    dqOk ('\\' :: c :: t) = dqOk t := by
  rw [dqOk]
  · exact dqOk_plain c t h1 h2
  · intro e; exact h1 (by rw [e])
  · intro e; exact h2 (by rw [e])

theorem dqOk_hex2 (n : Nat) (t : List Char) : dqOk (hex2 n ++ t) = dqOk t := by
  simp only [hex2, List.cons_append, List.nil_append]
  have a := hexDigit_ne_quote (n / 16 % 16) (by omega)
  have b := hexDigit_ne_quote (n % 16) (by omega)
  rw [dqOk_plain _ _ a.1 a.2, dqOk_plain _ _ b.1 b.2]

theorem dqOk_hex4 (n : Nat) (t : List Char) : dqOk (hex4 n ++ t) = dqOk t := by
  simp only [hex4, List.cons_append, List.nil_append]
  have a := hexDigit_ne_quote (n / 4096 % 16) (by omega)
  have b := hexDigit_ne_quote (n / 256 % 16) (by omega)
  have c := hexDigit_ne_quote (n / 16 % 16) (by omega)
  have d := hexDigit_ne_quote (n % 16) (by omega)
  rw [dqOk_plain _ _ a.1 a.2, dqOk_plain _ _ b.1 b.2, dqOk_plain _ _ c.1 c.2, dqOk_plain _ _ d.1 d.2]

theorem dqOk_hex8 (n : Nat) (t : List Char) : dqOk (hex8 n ++ t) = dqOk t := by
  simp only [hex8, List.cons_append, List.nil_append]
  have a := hexDigit_ne_quote (n / 268435456 % 16) (by omega)
  have b := hexDigit_ne_quote (n / 16777216 % 16) (by omega)
  have c := hexDigit_ne_quote (n / 1048576 % 16) (by omega)
  have d := hexDigit_ne_quote (n / 65536 % 16) (by omega)
  rw [dqOk_plain _ _ a.1 a.2, dqOk_plain _ _ b.1 b.2, dqOk_plain _ _ c.1 c.2, dqOk_plain _ _ d.1 d.2]
  exact dqOk_hex4 n t

/-- What `strconv.Quote` emits for one piece is consumed by `doublequotedstring` as a unit. -/
theorem dqOk_quotePiece (isPrint : Char → Bool) (p : Piece) (t : List Char) :
    dqOk (quotePiece isPrint p ++ t) = dqOk t := by
  cases p with
  | bad b =>
    simp only [quotePiece, List.cons_append]
    rw [dqOk_esc 'x' _ (by decide) (by decide)]
    exact dqOk_hex2 b t
  | rune c =>
    simp only [quotePiece]
    by_cases h1 : c = '"' ∨ c = '\\'
    · simp only [h1, if_true, List.cons_append, List.nil_append]
      rcases h1 with rfl | rfl <;> rw [dqOk]
    · simp only [h1, if_false]
      have hq : c ≠ '"' := fun e => h1 (Or.inl e)
      have hb : c ≠ '\\' := fun e => h1 (Or.inr e)
      by_cases h2 : isPrint c = true
      · simp only [h2, if_true, List.cons_append, List.nil_append]
        exact dqOk_plain c t hq hb
      · simp only [h2, Bool.false_eq_true, if_false]
        repeat' split
        all_goals first
          | exact dqOk_esc _ t (by decide) (by decide)
          | (simp only [List.cons_append]; rw [dqOk_esc 'x' _ (by decide) (by decide)]; exact dqOk_hex2 _ t)
          | (simp only [List.cons_append]; rw [dqOk_esc 'u' _ (by decide) (by decide)]; exact dqOk_hex4 _ t)
          | (simp only [List.cons_append]; rw [dqOk_esc 'U' _ (by decide) (by decide)]; exact dqOk_hex8 _ t)

theorem dqOk_quoteBody (isPrint : Char → Bool) (bs : Bytes) : dqOk (quoteBody isPrint bs) = true := by
  simp only [quoteBody]
  generalize pieces bs.length bs = ps
  induction ps with
  | nil => rfl
  | cons p ps ih => simp only [List.flatMap_cons]; rw [dqOk_quotePiece]; exact ih


theorem value_of_item {s s' : List Char} {evs : List Ev} (h : P (.ref R.item) s s' evs) :
    P (.ref R.value) s s' evs := by
  apply Parses.ref
  show P e_value _ _ _
  simp only [e_value, alts]
  exact Parses.alt_left h

/-- `field = value`: the first alternative of `arg`. -/
theorem arg_eq_ok {key vs rest : List Char} {evs : List Ev} (hk : FieldName key) (hv : NoWs vs)
    (h : P (.ref R.value) vs rest evs) :
    P (.ref R.arg) (key ++ '=' :: vs) rest ([.text key, .act (.addField .text)] ++ evs) := by
  apply Parses.ref
  show P e_arg _ _ _
  simp only [e_arg, alts, seqs, lit]
  refine Parses.alt_left ?_
  have h1 := field_ok (w := key) (r := '=' :: vs) hk (by simp [NotHead, isFieldCh, isAlnum, isAlpha, isLower, isUpper, isDigit])
  have h2 : P (.ref R.sp) ('=' :: vs) ('=' :: vs) [] := sp_nil (by simp [NoWs, isWs])
  have h3 : P (.ref R.sp) vs vs [] := sp_nil hv
  simpa using Parses.seq h1 (Parses.seq h2 (Parses.seq (Parses.chr '=' vs) (Parses.seq h3 h)))

/-- If `kw ++ t = w ++ x :: rest` and `x` does not occur in `kw`, then `kw` is a prefix of `w`. -/
theorem append_eq_split (kw t w : List Char) (x : Char) (rest : List Char) (hx : x ∉ kw)
    (h : kw ++ t = w ++ x :: rest) : ∃ u, w = kw ++ u ∧ t = u ++ x :: rest := by
  induction kw generalizing w with
  | nil => exact ⟨w, rfl, by simpa using h⟩
  | cons k ks ih =>
    cases w with
    | nil =>
      simp only [List.cons_append, List.nil_append, List.cons.injEq] at h
      exact absurd (by simp [h.1]) hx
    | cons c cs =>
      simp only [List.cons_append, List.cons.injEq] at h
      obtain ⟨u, hu1, hu2⟩ := ih cs (fun m => hx (by simp [m])) h.2
      exact ⟨u, by rw [h.1, hu1]; rfl, hu2⟩

/-- A special-form alternative of `Call` (`'Kw' action open ...`) fails unless the keyword is followed by `(`. -/
theorem special_fails (kw : List Char) (a : Act) (more : PExpr) (s : List Char) (hkw : kw ≠ [])
    (h : ∀ t, s = kw ++ t → NotHead (· = '(') t) :
    F (.seq (lit kw) (.seq (.act a) (.seq (.ref R.open') more))) s := by
  by_cases hp : kw <+: s
  · obtain ⟨t, rfl⟩ := hp
    exact Fails.seq_right (Parses.lit kw t)
      (Fails.seq_right (Parses.act a t) (Fails.seq_left (open_fails (h t rfl))))
  · exact Fails.seq_left (Fails.lit kw s hkw hp)


/-- The keywords of the special call forms of the grammar. -/
def specialKws : List (List Char) :=
  [cl!"Set", cl!"SetRowAttrs", cl!"SetColumnAttrs", cl!"Clear", cl!"ClearRow", cl!"Store", cl!"TopN", cl!"Rows", cl!"Range"]

theorem specialKws_alpha : ∀ kw ∈ specialKws, kw ≠ [] ∧ ∀ c ∈ kw, isAlpha c = true := by decide

/-- `Call` fails on a text on which no special keyword is followed by `(` and the generic
alternative (`IDENT (`) does not apply. -/
theorem call_fails (s : List Char)
    (hsp : ∀ kw ∈ specialKws, ∀ t, s = kw ++ t → NotHead (· = '(') t)
    (hgen : F (.ref R.IDENT) s ∨ ∃ r1, P (.ref R.IDENT) s r1 [] ∧ NotHead (· = '(') r1) :
    F (.ref R.Call) s := by
  apply Fails.ref
  show F e_Call s
  simp only [e_Call, alts, seqs]
  have hk := fun kw (hm : kw ∈ specialKws) => (specialKws_alpha kw hm).1
  refine Fails.alt (special_fails _ _ _ s (hk _ (by simp [specialKws])) (hsp _ (by simp [specialKws])))
    (Fails.alt (special_fails _ _ _ s (hk _ (by simp [specialKws])) (hsp _ (by simp [specialKws])))
    (Fails.alt (special_fails _ _ _ s (hk _ (by simp [specialKws])) (hsp _ (by simp [specialKws])))
    (Fails.alt (special_fails _ _ _ s (hk _ (by simp [specialKws])) (hsp _ (by simp [specialKws])))
    (Fails.alt (special_fails _ _ _ s (hk _ (by simp [specialKws])) (hsp _ (by simp [specialKws])))
    (Fails.alt (special_fails _ _ _ s (hk _ (by simp [specialKws])) (hsp _ (by simp [specialKws])))
    (Fails.alt (special_fails _ _ _ s (hk _ (by simp [specialKws])) (hsp _ (by simp [specialKws])))
    (Fails.alt (special_fails _ _ _ s (hk _ (by simp [specialKws])) (hsp _ (by simp [specialKws])))
    (Fails.alt (special_fails _ _ _ s (hk _ (by simp [specialKws])) (hsp _ (by simp [specialKws])))
    ?_))))))))
  rcases hgen with hf | ⟨r1, hp, hr1⟩
  · exact Fails.seq_left (Fails.cap hf)
  · exact Fails.seq_right (Parses.cap hp) (Fails.seq_right (Parses.act _ _) (Fails.seq_left (open_fails hr1)))

theorem call_fails_nil : F (.ref R.Call) [] := by
  refine call_fails [] ?_ (Or.inl (ident_fails trivial))
  intro kw hm t e
  have := (specialKws_alpha kw hm).1
  cases kw with
  | nil => exact absurd rfl this
  | cons a as => simp at e


/-- A printed argument: its text (first character not white space) and the events it produces
whatever follows (`,` or `)`). -/
structure PArg where
  text : List Char
  evs : List Ev

def PArg.Ok (a : PArg) : Prop :=
  NoWs a.text ∧ a.text ≠ [] ∧
    ∀ d r, (d = ',' ∨ d = ')') → P (.ref R.arg) (a.text ++ d :: r) (d :: r) a.evs

theorem noWs_append {a b : List Char} (ha : NoWs a) (hne : a ≠ []) : NoWs (a ++ b) := by
  cases a with
  | nil => exact absurd rfl hne
  | cons x xs => exact ha

/-- `args` on the arguments printed by `Call.String` (joined with ", ") up to the closing `)`. -/
theorem args_ok (as : List PArg) (hne : as ≠ []) (hok : ∀ a ∈ as, a.Ok) (r : List Char) :
    P (.ref R.args) (joinWith [',', ' '] (as.map (·.text)) ++ ')' :: r) (')' :: r)
      (as.flatMap (·.evs)) := by
  induction as with
  | nil => exact absurd rfl hne
  | cons a rest ih =>
    obtain ⟨hws, hane, hp⟩ := hok a (by simp)
    have hsp : P (.ref R.sp) (')' :: r) (')' :: r) [] := sp_nil (by simp [NoWs, isWs])
    cases rest with
    | nil =>
      apply Parses.ref
      show P e_args _ _ _
      simp only [e_args, seqs, List.map, joinWith, List.flatMap_cons, List.flatMap_nil, List.append_nil]
      have h1 := hp ')' r (Or.inr rfl)
      have h2 : P (.opt (.seq (.ref R.comma) (.ref R.args))) (')' :: r) (')' :: r) [] :=
        Parses.opt_none (Fails.seq_left (comma_fails (by simp [NoWs, isWs]) (by simp [NotHead])))
      simpa using Parses.seq h1 (Parses.seq h2 hsp)
    | cons b rest' =>
      have ihh := ih (by simp) (fun x hx => hok x (by simp [hx]))
      obtain ⟨hwsb, hbne, _⟩ := hok b (by simp)
      apply Parses.ref
      show P e_args _ _ _
      simp only [e_args, seqs, List.map, joinWith, List.flatMap_cons]
      have h1 := hp ',' (' ' :: (joinWith [',', ' '] ((b :: rest').map (·.text)) ++ ')' :: r)) (Or.inl rfl)
      have hnw : NoWs (joinWith [',', ' '] ((b :: rest').map (·.text)) ++ ')' :: r) := by
        cases rest' with
        | nil => simpa [joinWith] using noWs_append (b := ')' :: r) hwsb hbne
        | cons c cs =>
          simp only [List.map, joinWith, List.append_assoc]
          exact noWs_append hwsb hbne
      have h2 := Parses.opt_some (Parses.seq (comma_sp hnw) ihh)
      have h := Parses.seq h1 (Parses.seq h2 hsp)
      simpa [List.map, joinWith, List.append_assoc] using h


theorem notHead_dropWhile (p : Char → Bool) (l r : List Char) (hr : NotHead p r) :
    NotHead p (l.dropWhile p ++ r) := by
  induction l with
  | nil => simpa using hr
  | cons x xs ih =>
    simp only [List.dropWhile_cons]
    by_cases hx : p x = true
    · simpa [hx] using ih
    · simp only [hx, Bool.false_eq_true, if_false, List.cons_append, NotHead]

theorem takeWhile_all (p : Char → Bool) (l : List Char) : ∀ x ∈ l.takeWhile p, p x = true := by
  induction l with
  | nil => simp
  | cons y ys ih =>
    intro x hx
    simp only [List.takeWhile_cons] at hx
    by_cases hy : p y = true
    · simp only [hy, if_true, List.mem_cons] at hx
      rcases hx with rfl | hx
      · exact hy
      · exact ih x hx
    · simp [hy] at hx

theorem fieldCh_ne_open {c : Char} (h : isFieldCh c = true) : c ≠ '(' := by
  intro e; subst e; revert h; decide

theorem alpha_of_mem_kw {kw : List Char} (hm : kw ∈ specialKws) {c : Char} (hc : c ∈ kw) : isAlpha c = true :=
  (specialKws_alpha kw hm).2 c hc

/-- `Call` does not match at the start of a printed argument `key=..` / `key op ..`. -/
theorem call_fails_key (key rest : List Char) (x : Char) (hk : FieldName key)
    (hx1 : isAlnum x = false) (hx2 : x ≠ '(') : F (.ref R.Call) (key ++ x :: rest) := by
  obtain ⟨c, cs, rfl, hc, hcs⟩ := hk
  have hxa : isAlpha x = false := by
    simp only [isAlnum, Bool.or_eq_false_iff] at hx1; exact hx1.1
  refine call_fails _ ?_ (Or.inr ⟨cs.dropWhile isAlnum ++ x :: rest, ?_, ?_⟩)
  · intro kw hm t e
    have hxkw : x ∉ kw := fun hmem => by
      have := alpha_of_mem_kw hm hmem; rw [hxa] at this; exact absurd this (by simp)
    obtain ⟨u, hu1, hu2⟩ := append_eq_split kw t (c :: cs) x rest hxkw e.symm
    subst hu2
    cases u with
    | nil => simpa [NotHead] using hx2
    | cons y ys =>
      have hy : y ∈ c :: cs := by rw [hu1]; simp
      have : isFieldCh y = true := by
        simp only [List.mem_cons] at hy
        rcases hy with rfl | hy
        · simp [isFieldCh, isAlnum, hc]
        · exact hcs y hy
      simpa [NotHead] using fieldCh_ne_open this
  · have hsplit : c :: cs ++ x :: rest = (c :: cs.takeWhile isAlnum) ++ (cs.dropWhile isAlnum ++ x :: rest) := by
      simp [← List.append_assoc, List.takeWhile_append_dropWhile]
    rw [hsplit]
    exact ident_ok ⟨c, _, rfl, hc, takeWhile_all isAlnum cs⟩
      (notHead_dropWhile isAlnum cs (x :: rest) (by simpa [NotHead] using hx1))
  · cases hdw : cs.dropWhile isAlnum with
    | nil => simpa [NotHead] using hx2
    | cons y ys =>
      have hy : y ∈ cs := by
        have : y ∈ cs.dropWhile isAlnum := by rw [hdw]; simp
        exact (List.dropWhile_sublist _).subset this
      simpa [NotHead] using fieldCh_ne_open (hcs y hy)

theorem allargs_of_args {s s' : List Char} {evs : List Ev} (hc : F (.ref R.Call) s)
    (h : P (.ref R.args) s s' evs) : P (.ref R.allargs) s s' evs := by
  apply Parses.ref
  show P e_allargs _ _ _
  simp only [e_allargs, alts, seqs]
  exact Parses.alt_right (Fails.seq_left hc) (Parses.alt_left h)


theorem alnum_ne_open {c : Char} (h : isAlnum c = true) : c ≠ '(' := by
  intro e; subst e; revert h; decide

theorem identName_alnum {name : List Char} (h : IdentName name) : ∀ y ∈ name, isAlnum y = true := by
  obtain ⟨c, cs, rfl, hc, hcs⟩ := h
  intro y hy
  simp only [List.mem_cons] at hy
  rcases hy with rfl | hy
  · simp [isAlnum, hc]
  · exact hcs y hy

/-- The generic alternative of `Call` on `Name(args)` for a name that is not a special keyword. -/
theorem call_generic_ok (name atext r : List Char) (evs : List Ev) (hn : IdentName name)
    (hsp : name ∉ specialKws) (hws : NoWs (atext ++ ')' :: r)) (hr : NoWs r)
    (ha : P (.ref R.allargs) (atext ++ ')' :: r) (')' :: r) evs) :
    P (.ref R.Call) (name ++ '(' :: (atext ++ ')' :: r)) r
      ([.text name, .act (.startCall .text)] ++ evs ++ [.act .endCall]) := by
  have hfail : ∀ kw ∈ specialKws, ∀ t, name ++ '(' :: (atext ++ ')' :: r) = kw ++ t → NotHead (· = '(') t := by
    intro kw hm t e
    have hxkw : '(' ∉ kw := fun hmem => by
      have := alpha_of_mem_kw hm hmem; revert this; decide
    obtain ⟨u, hu1, hu2⟩ := append_eq_split kw t name '(' _ hxkw e.symm
    subst hu2
    cases u with
    | nil => exact absurd (by rw [hu1]; simpa using hm) hsp
    | cons y ys =>
      have hy : y ∈ name := by rw [hu1]; simp
      simpa [NotHead] using alnum_ne_open (identName_alnum hn y hy)
  have hk := fun kw (hm : kw ∈ specialKws) => (specialKws_alpha kw hm).1
  apply Parses.ref
  show P e_Call _ _ _
  simp only [e_Call, alts, seqs]
  refine Parses.alt_right (special_fails _ _ _ _ (hk _ (by simp [specialKws])) (hfail _ (by simp [specialKws])))
    (Parses.alt_right (special_fails _ _ _ _ (hk _ (by simp [specialKws])) (hfail _ (by simp [specialKws])))
    (Parses.alt_right (special_fails _ _ _ _ (hk _ (by simp [specialKws])) (hfail _ (by simp [specialKws])))
    (Parses.alt_right (special_fails _ _ _ _ (hk _ (by simp [specialKws])) (hfail _ (by simp [specialKws])))
    (Parses.alt_right (special_fails _ _ _ _ (hk _ (by simp [specialKws])) (hfail _ (by simp [specialKws])))
    (Parses.alt_right (special_fails _ _ _ _ (hk _ (by simp [specialKws])) (hfail _ (by simp [specialKws])))
    (Parses.alt_right (special_fails _ _ _ _ (hk _ (by simp [specialKws])) (hfail _ (by simp [specialKws])))
    (Parses.alt_right (special_fails _ _ _ _ (hk _ (by simp [specialKws])) (hfail _ (by simp [specialKws])))
    (Parses.alt_right (special_fails _ _ _ _ (hk _ (by simp [specialKws])) (hfail _ (by simp [specialKws])))
    ?_))))))))
  have h1 : P (.cap (.ref R.IDENT)) (name ++ '(' :: (atext ++ ')' :: r)) ('(' :: (atext ++ ')' :: r))
      ([] ++ [.text name]) :=
    Parses.cap_prefix (ident_ok hn (by simp [NotHead, isAlnum, isAlpha, isLower, isUpper, isDigit]))
  have h2 := Parses.act (rule := Gen.rule) (.startCall .text) ('(' :: (atext ++ ')' :: r))
  have h3 := open_ok hws
  have h4 : P (.opt (.ref R.comma)) (')' :: r) (')' :: r) [] :=
    Parses.opt_none (comma_fails (by simp [NoWs, isWs]) (by simp [NotHead]))
  have h5 := close_ok hr
  have h6 := Parses.act (rule := Gen.rule) .endCall r
  have h := Parses.seq h1 (Parses.seq h2 (Parses.seq h3 (Parses.seq ha (Parses.seq h4 (Parses.seq h5 h6)))))
  simpa using h

/-- `Calls` on the text of one call. -/
theorem calls_single (ctext : List Char) (evs : List Ev) (hws : NoWs ctext)
    (h : P (.ref R.Call) ctext [] evs) : P (.ref R.Calls) ctext [] evs := by
  apply Parses.ref
  show P e_Calls _ _ _
  simp only [e_Calls, seqs]
  have h1 : P (.ref R.sp) ctext ctext [] := sp_nil hws
  have hsp0 : P (.ref R.sp) [] [] [] := sp_nil trivial
  have hstar : P (.star (.seq (.ref R.Call) (.ref R.sp))) ctext [] (evs ++ [] ++ []) :=
    Parses.star_cons (Parses.seq h hsp0) (Parses.star_nil (Fails.seq_left call_fails_nil))
  have hend : P (.notP .any) [] [] [] := Parses.notP Fails.any_nil
  simpa using Parses.seq h1 (Parses.seq hstar hend)


/-- `item` fails on a text that starts with a character no literal can start with. -/
theorem item_fails_punct (c : Char) (t : List Char)
    (h : c ≠ 'n' ∧ c ≠ 't' ∧ c ≠ 'f' ∧ c ≠ '"' ∧ c ≠ '\'' ∧ c ≠ '-' ∧ c ≠ '.' ∧ c ≠ '_' ∧ c ≠ ':' ∧
      isAlnum c = false) : F (.ref R.item) (c :: t) := by
  obtain ⟨h1, h2, h3, h4, h5, h6, h7, h8, h9, h10⟩ := h
  have hal : isAlpha c = false := by simp only [isAlnum, Bool.or_eq_false_iff] at h10; exact h10.1
  have hdg : isDigit c = false := by simp only [isAlnum, Bool.or_eq_false_iff] at h10; exact h10.2
  have hlo : ¬ ('a' ≤ c ∧ c ≤ 'z') := by
    simp only [isAlpha, Bool.or_eq_false_iff, isLower] at hal; simpa using hal.1
  have hup : ¬ ('A' ≤ c ∧ c ≤ 'Z') := by
    simp only [isAlpha, Bool.or_eq_false_iff, isUpper] at hal; simpa using hal.2
  have hd9 : ¬ ('0' ≤ c ∧ c ≤ '9') := by simpa [isDigit] using hdg
  apply Fails.ref
  show F e_item _
  simp only [e_item, alts, seqs]
  refine Fails.alt (Fails.seq_left (lit_fails_head _ c t ⟨_, _, rfl, fun e => h1 e.symm⟩))
    (Fails.alt (Fails.seq_left (lit_fails_head _ c t ⟨_, _, rfl, fun e => h2 e.symm⟩))
    (Fails.alt (Fails.seq_left (lit_fails_head _ c t ⟨_, _, rfl, fun e => h3 e.symm⟩))
    (Fails.alt (Fails.seq_left (tsfmt_fails h4 h5 (by simp [tsPrefix5, hdg])))
    (Fails.alt (Fails.seq_left (Fails.cap ?n1))
    (Fails.alt (Fails.seq_left (Fails.cap ?n2))
    (Fails.alt (Fails.seq_left (Fails.cap (ident_fails (by simpa [NotHead] using hal))))
    (Fails.alt (Fails.seq_left (Fails.cap ?bw))
    (Fails.alt (Fails.seq_left (Fails.cap (Fails.seq_left (lit_fails_head _ c t ⟨_, _, rfl, fun e => h4 e.symm⟩))))
    (Fails.seq_left (lit_fails_head _ c t ⟨_, _, rfl, fun e => h5 e.symm⟩))))))))))
  case n1 =>
    refine Fails.seq_right (Parses.opt_none (Fails.chr_ne _ h6)) (Fails.seq_left ?_)
    simp only [plus]
    exact Fails.seq_left (Fails.rng_ne _ hd9)
  case n2 =>
    exact Fails.seq_right (Parses.opt_none (Fails.chr_ne _ h6)) (Fails.seq_left (lit_fails_head _ c t ⟨_, _, rfl, fun e => h7 e.symm⟩))
  case bw =>
    simp only [plus]
    refine Fails.seq_left ?_
    exact Fails.alt (Fails.rng_ne _ hlo) (Fails.alt (Fails.rng_ne _ hup)
      (Fails.alt (Fails.rng_ne _ hd9) (Fails.alt (Fails.chr_ne _ h6)
        (Fails.alt (Fails.chr_ne _ h8) (Fails.chr_ne _ h9)))))

theorem value_fails_eq (t : List Char) : F (.ref R.value) ('=' :: t) := by
  apply Fails.ref
  show F e_value _
  simp only [e_value, alts, seqs]
  refine Fails.alt (item_fails_punct '=' t (by decide)) (Fails.seq_left ?_)
  apply Fails.ref
  show F e_lbrack _
  simp only [e_lbrack, seqs, lit]
  exact Fails.seq_left (Fails.chr_ne _ (by decide))


/-- The operators `Condition.String` prints. -/
def cmpOps : List Op := [.EQ, .NEQ, .LT, .LTE, .GT, .GTE, .BETWEEN]

theorem cond_ok (op : Op) (hop : op ∈ cmpOps) (r : List Char) :
    P (.ref R.COND) (opText op ++ ' ' :: r) (' ' :: r) [.act (.setCond op)] := by
  apply Parses.ref
  show P e_COND _ _ _
  simp only [e_COND, alts, seqs, lit]
  have two : ∀ (a b : Char) (o : Op) (s : List Char),
      P (.seq (.seq (.chr a) (.chr b)) (.act (.setCond o))) (a :: b :: s) s [.act (.setCond o)] := by
    intro a b o s
    simpa using Parses.seq (Parses.seq (Parses.chr (rule := Gen.rule) a (b :: s)) (Parses.chr b s)) (Parses.act (.setCond o) s)
  have one : ∀ (a : Char) (o : Op) (s : List Char),
      P (.seq (.chr a) (.act (.setCond o))) (a :: s) s [.act (.setCond o)] := by
    intro a o s
    simpa using Parses.seq (Parses.chr (rule := Gen.rule) a s) (Parses.act (.setCond o) s)
  -- failing two-character literal: first character differs / second differs
  have f1 : ∀ (a b x : Char) (o : Op) (s : List Char), x ≠ a →
      F (.seq (.seq (.chr a) (.chr b)) (.act (.setCond o))) (x :: s) := by
    intro a b x o s h; exact Fails.seq_left (Fails.seq_left (Fails.chr_ne s h))
  have f2 : ∀ (a b y : Char) (o : Op) (s : List Char), y ≠ b →
      F (.seq (.seq (.chr a) (.chr b)) (.act (.setCond o))) (a :: y :: s) := by
    intro a b y o s h; exact Fails.seq_left (Fails.seq_right (Parses.chr a _) (Fails.chr_ne s h))
  have g1 : ∀ (a x : Char) (o : Op) (s : List Char), x ≠ a → F (.seq (.chr a) (.act (.setCond o))) (x :: s) := by
    intro a x o s h; exact Fails.seq_left (Fails.chr_ne s h)
  simp only [cmpOps, List.mem_cons, List.not_mem_nil, or_false] at hop
  rcases hop with rfl | rfl | rfl | rfl | rfl | rfl | rfl <;> simp only [opText, List.cons_append, List.nil_append]
  · -- ==
    exact Parses.alt_right (f1 _ _ _ _ _ (by decide)) (Parses.alt_right (f1 _ _ _ _ _ (by decide))
      (Parses.alt_right (f1 _ _ _ _ _ (by decide)) (Parses.alt_left (two _ _ _ _))))
  · -- !=
    exact Parses.alt_right (f1 _ _ _ _ _ (by decide)) (Parses.alt_right (f1 _ _ _ _ _ (by decide))
      (Parses.alt_right (f1 _ _ _ _ _ (by decide)) (Parses.alt_right (f1 _ _ _ _ _ (by decide))
        (Parses.alt_left (two _ _ _ _)))))
  · -- <
    exact Parses.alt_right (f1 _ _ _ _ _ (by decide)) (Parses.alt_right (f2 _ _ _ _ _ (by decide))
      (Parses.alt_right (f1 _ _ _ _ _ (by decide)) (Parses.alt_right (f1 _ _ _ _ _ (by decide))
        (Parses.alt_right (f1 _ _ _ _ _ (by decide)) (Parses.alt_left (one _ _ _))))))
  · -- <=
    exact Parses.alt_right (f1 _ _ _ _ _ (by decide)) (Parses.alt_left (two _ _ _ _))
  · -- >
    exact Parses.alt_right (f2 _ _ _ _ _ (by decide)) (Parses.alt_right (f1 _ _ _ _ _ (by decide))
      (Parses.alt_right (f2 _ _ _ _ _ (by decide)) (Parses.alt_right (f1 _ _ _ _ _ (by decide))
        (Parses.alt_right (f1 _ _ _ _ _ (by decide)) (Parses.alt_right (g1 _ _ _ _ (by decide)) (one _ _ _))))))
  · -- >=
    exact Parses.alt_right (f2 _ _ _ _ _ (by decide)) (Parses.alt_right (f1 _ _ _ _ _ (by decide))
      (Parses.alt_left (two _ _ _ _)))
  · -- ><
    exact Parses.alt_left (two _ _ _ _)


theorem opText_head (op : Op) (hop : op ∈ cmpOps) :
    ∃ c t, opText op = c :: t ∧ isWs c = false ∧ (c = '=' → op = .EQ) := by
  simp only [cmpOps, List.mem_cons, List.not_mem_nil, or_false] at hop
  rcases hop with rfl | rfl | rfl | rfl | rfl | rfl | rfl <;> exact ⟨_, _, rfl, by decide, by decide⟩

/-- `field op value`: the second alternative of `arg` (the first one fails). -/
theorem arg_cond_ok {key vs rest : List Char} {evs : List Ev} (op : Op) (hop : op ∈ cmpOps)
    (hk : FieldName key) (hv : NoWs vs) (h : P (.ref R.value) vs rest evs) :
    P (.ref R.arg) (key ++ ' ' :: (opText op ++ ' ' :: vs)) rest
      ([.text key, .act (.addField .text), .act (.setCond op)] ++ evs) := by
  obtain ⟨c, t, hct, hcws, hceq⟩ := opText_head op hop
  have hnw : NoWs (opText op ++ ' ' :: vs) := by rw [hct]; exact hcws
  have h1 := field_ok (w := key) (r := ' ' :: (opText op ++ ' ' :: vs)) hk
    (by simp [NotHead, isFieldCh, isAlnum, isAlpha, isLower, isUpper, isDigit])
  have h2 : P (.ref R.sp) (' ' :: (opText op ++ ' ' :: vs)) (opText op ++ ' ' :: vs) [] := sp_one hnw
  apply Parses.ref
  show P e_arg _ _ _
  simp only [e_arg, alts, seqs, lit]
  refine Parses.alt_right ?_ (Parses.alt_left ?_)
  · -- field sp '=' sp value fails
    refine Fails.seq_right h1 (Fails.seq_right h2 ?_)
    by_cases he : c = '='
    · have hop' := hceq he
      subst hop'
      simp only [opText, List.cons_append, List.nil_append]
      exact Fails.seq_right (Parses.chr '=' _)
        (Fails.seq_right (sp_nil (by simp [NoWs, isWs])) (value_fails_eq _))
    · rw [hct]; exact Fails.seq_left (Fails.chr_ne _ he)
  · have h3 := cond_ok op hop vs
    have h4 : P (.ref R.sp) (' ' :: vs) vs [] := sp_one hv
    simpa using Parses.seq h1 (Parses.seq h2 (Parses.seq h3 (Parses.seq h4 h)))


theorem intDigits_no_dot (i : Int) : '.' ∉ intDigits i := by
  have hd := (natDigits_spec i.natAbs).2.2
  have hdot : '.' ∉ natDigits i.natAbs := fun hm => by
    have := hd _ hm; simp [isDigit] at this
  simp only [intDigits]
  split
  · simp only [List.mem_cons, not_or]; exact ⟨by decide, hdot⟩
  · exact hdot

theorem numVal_intDigits (i : Int) (h1 : minInt64 ≤ i) (h2 : i ≤ maxInt64) :
    numVal (intDigits i) = .ok (.int i) := by
  simp [numVal, intDigits_no_dot i, parseInt64_intDigits i h1 h2]

theorem intDigits_shape (i : Int) :
    intDigits i = signText (decide (i < 0)) ++ natDigits i.natAbs := by
  simp only [intDigits, signText]
  split <;> simp_all

theorem joinWith_cons (sep x : List Char) (xs : List (List Char)) :
    joinWith sep (x :: xs) = x ++ xs.flatMap (sep ++ ·) := by
  induction xs generalizing x with
  | nil => simp [joinWith]
  | cons y ys ih => simp [joinWith, ih]

/-! ### Lists of integers (id lists, BETWEEN ranges): syntax -/

/-- A printed list element: an int64 (the elements of id lists and of BETWEEN ranges). -/
def intItemText (i : Int) : List Char := intDigits i

def evIntItem (i : Int) : List Ev := [.text (intDigits i), .act .addNumVal]

theorem intDigits_head (i : Int) (s : List Char) :
    ∃ c t, intDigits i ++ s = c :: t ∧ (c = '-' ∨ isDigit c = true) := by
  obtain ⟨_, hne, hall⟩ := natDigits_spec i.natAbs
  rw [intDigits_shape]
  exact num_text_head _ _ s hne hall

theorem intDigits_noWs (i : Int) (s : List Char) : NoWs (intDigits i ++ s) := by
  obtain ⟨c, t, hx, hc⟩ := intDigits_head i s
  rw [hx]
  rcases hc with rfl | hd
  · simp [NoWs, isWs]
  · simp only [NoWs]
    cases hw : isWs c with
    | false => rfl
    | true =>
      simp only [isWs, Bool.or_eq_true, decide_eq_true_eq] at hw
      rcases hw with (rfl | rfl) | rfl <;> simp [isDigit] at hd

theorem item_intDigits (i : Int) (d : Char) (r : List Char) (hd : Delim d) :
    P (.ref R.item) (intDigits i ++ d :: r) (d :: r) (evIntItem i) := by
  obtain ⟨_, hne, hall⟩ := natDigits_spec i.natAbs
  have h := item_int_ok (decide (i < 0)) (natDigits i.natAbs) r d hne hall hd
  rw [← intDigits_shape] at h
  exact h

/-- `list` on the elements printed by `joinInterfaceSlice` (joined with ",") up to the closing `]`. -/
theorem list_ok (xs : List Int) (hne : xs ≠ []) (r : List Char) :
    P (.ref R.list) (joinWith [','] (xs.map intDigits) ++ ']' :: r) (']' :: r) (xs.flatMap evIntItem) := by
  induction xs with
  | nil => exact absurd rfl hne
  | cons x rest ih =>
    apply Parses.ref
    show P e_list _ _ _
    simp only [e_list, seqs]
    cases rest with
    | nil =>
      simp only [List.map, joinWith, List.flatMap_cons, List.flatMap_nil, List.append_nil]
      have h1 := item_intDigits x ']' r (Or.inr (Or.inr rfl))
      have h2 : P (.opt (.seq (.ref R.comma) (.ref R.list))) (']' :: r) (']' :: r) [] :=
        Parses.opt_none (Fails.seq_left (comma_fails (by simp [NoWs, isWs]) (by simp [NotHead])))
      simpa using Parses.seq h1 h2
    | cons y rest' =>
      have ihh := ih (by simp)
      simp only [List.map, joinWith, List.flatMap_cons] at ihh ⊢
      have h1 := item_intDigits x ',' (joinWith [','] (intDigits y :: rest'.map intDigits) ++ ']' :: r) (Or.inl rfl)
      have hnw : NoWs (joinWith [','] (intDigits y :: rest'.map intDigits) ++ ']' :: r) := by
        rw [joinWith_cons]
        simp only [List.append_assoc]
        exact intDigits_noWs y _
      have h2 := Parses.opt_some (Parses.seq (comma_nosp hnw) ihh)
      simpa [List.append_assoc] using Parses.seq h1 h2

/-- The list alternative of `value` on `[x1,x2,..]`. -/
theorem value_list_ok (xs : List Int) (hne : xs ≠ []) (d : Char) (r : List Char) (hd : d = ',' ∨ d = ')') :
    P (.ref R.value) ('[' :: (joinWith [','] (xs.map intDigits) ++ ']' :: d :: r)) (d :: r)
      ([.act .startList] ++ xs.flatMap evIntItem ++ [.act .endList]) := by
  have hdws : NoWs (d :: r) := by rcases hd with rfl | rfl <;> simp [NoWs, isWs]
  apply Parses.ref
  show P e_value _ _ _
  simp only [e_value, alts, seqs]
  refine Parses.alt_right (item_fails_punct '[' _ (by decide)) ?_
  have hnw : NoWs (joinWith [','] (xs.map intDigits) ++ ']' :: d :: r) := by
    cases xs with
    | nil => exact absurd rfl hne
    | cons x rest =>
      rw [List.map_cons, joinWith_cons]
      simp only [List.append_assoc]
      exact intDigits_noWs x _
  have h1 : P (.ref R.lbrack) ('[' :: (joinWith [','] (xs.map intDigits) ++ ']' :: d :: r))
      (joinWith [','] (xs.map intDigits) ++ ']' :: d :: r) [] := by
    apply Parses.ref
    show P e_lbrack _ _ _
    simp only [e_lbrack, seqs, lit]
    simpa using Parses.seq (Parses.chr '[' _) (sp_nil hnw)
  have h2 := Parses.act (rule := Gen.rule) .startList (joinWith [','] (xs.map intDigits) ++ ']' :: d :: r)
  have h3 := list_ok xs hne (d :: r)
  have h4 : P (.ref R.rbrack) (']' :: d :: r) (d :: r) [] := by
    apply Parses.ref
    show P e_rbrack _ _ _
    simp only [e_rbrack, seqs, lit]
    have a : P (.ref R.sp) (']' :: d :: r) (']' :: d :: r) [] := sp_nil (by simp [NoWs, isWs])
    simpa using Parses.seq a (Parses.seq (Parses.chr ']' (d :: r)) (sp_nil hdws))
  have h5 := Parses.act (rule := Gen.rule) .endList (d :: r)
  simpa using Parses.seq h1 (Parses.seq h2 (Parses.seq h3 (Parses.seq h4 h5)))


/-! ### The action machine on the events of a flat call -/

theorem exec_text (cs : List Char) (evs : List Ev) (q : QState) :
    exec (.text cs :: evs) q = exec evs { q with text := cs } := rfl

theorem exec_act_ok {a : Act} {q q' : QState} (evs : List Ev) (h : stepAct q a = .ok q') :
    exec (.act a :: evs) q = exec evs q' := by
  simp only [exec, stepEv, h]

theorem lookup_insert (k k' : Key) (v : Val) (m : List (Key × Val)) :
    lookup k' (insert k v m) = if k' = k then some v else lookup k' m := by
  induction m with
  | nil =>
    simp only [insert, lookup]
    by_cases h : k = k'
    · simp [h]
    · have : ¬ k' = k := fun e => h e.symm
      simp [h, this]
  | cons p rest ih =>
    obtain ⟨k0, v0⟩ := p
    simp only [insert]
    by_cases h0 : k0 = k
    · subst h0
      simp only [if_true, lookup]
      by_cases h : k0 = k'
      · simp [h]
      · have : ¬ k' = k0 := fun e => h e.symm
        simp [h, this]
    · simp only [h0, if_false]
      by_cases hl : ltKey k k0 = true
      · simp only [hl, if_true, lookup]
        by_cases h : k = k'
        · simp [h]
        · have : ¬ k' = k := fun e => h e.symm
          simp [h, this]
      · simp only [hl, Bool.false_eq_true, if_false, lookup, ih]
        by_cases h : k0 = k'
        · have : ¬ k' = k := fun e => h0 (by rw [h, e])
          simp [h, this]
        · simp [h]

/-- The stack element while the arguments of a call are being added. -/
def ArgState (e : Elem) : Prop := e.lastField = [] ∧ e.inList = false ∧ e.lastCond = .ILLEGAL

theorem exec_field (k : Key) (q : QState) (e : Elem) (rest : List Elem) (evs : List Ev)
    (hq : q.stack = e :: rest) (he : e.lastField = []) :
    exec (.text k :: .act (.addField .text) :: evs) q =
      exec evs { q with text := k, stack := { e with lastField := k } :: rest } := by
  rw [exec_text]
  refine exec_act_ok evs ?_
  simp only [stepAct, sargText, addField, hq, he]
  simp


/-! ### Lists of integers: the action machine -/

theorem insert_insert (k : Key) (v1 v2 : Val) (m : List (Key × Val)) :
    insert k v2 (insert k v1 m) = insert k v2 m := by
  induction m with
  | nil => simp [insert]
  | cons p rest ih =>
    obtain ⟨k0, v0⟩ := p
    simp only [insert]
    by_cases h0 : k0 = k
    · simp [h0, insert]
    · simp only [h0, if_false]
      by_cases hl : ltKey k k0 = true
      · simp [hl, insert]
      · simp only [hl, Bool.false_eq_true, if_false, insert, h0, ih]

/-- The value under construction while a list is read: a plain list, or a condition on a list. -/
def wrapList (op : Op) (vs : List Val) : Val :=
  if op = .ILLEGAL then .list vs else .cond op (.list vs)

theorem lookup_insert_self (k : Key) (v : Val) (m : List (Key × Val)) : lookup k (insert k v m) = some v := by
  rw [lookup_insert]; simp

/-- Executing the elements of a list appends them to the list under the pending key. -/
theorem exec_list_items (xs : List Int) (hx : ∀ x ∈ xs, minInt64 ≤ x ∧ x ≤ maxInt64)
    (k : Key) (hk : k ≠ []) (m0 : List (Key × Val)) (acc : List Val)
    (q : QState) (e : Elem) (rest : List Elem) (evs : List Ev)
    (hq : q.stack = e :: rest) (hin : e.inList = true) (hf : e.lastField = k)
    (ha : e.args = insert k (wrapList e.lastCond acc) m0) :
    ∃ t, exec (xs.flatMap evIntItem ++ evs) q =
      exec evs { q with text := t,
                        stack := { e with args := insert k (wrapList e.lastCond (acc ++ xs.map Val.int)) m0 } :: rest } := by
  induction xs generalizing q e acc with
  | nil =>
    refine ⟨q.text, ?_⟩
    simp only [List.flatMap_nil, List.nil_append, List.map_nil, List.append_nil]
    congr 1
    cases q; cases e; simp_all
  | cons x rest' ih =>
    obtain ⟨h1, h2⟩ := hx x (by simp)
    simp only [List.flatMap_cons, evIntItem, List.cons_append, List.nil_append]
    rw [exec_text]
    have hs : stepAct { q with text := intDigits x } .addNumVal =
        .ok { q with text := intDigits x,
                     stack := { e with args := insert k (wrapList e.lastCond (acc ++ [.int x])) m0 } :: rest } := by
      simp only [stepAct, addNumVal, hq, hf, numVal_intDigits x h1 h2]
      by_cases hc : e.lastCond = .ILLEGAL
      · simp [hk, hin, hc, ha, wrapList, lookup_insert_self, insert_insert, bind, Except.bind]
      · simp [hk, hin, hc, ha, wrapList, lookup_insert_self, insert_insert, bind, Except.bind]
    rw [exec_act_ok _ hs]
    obtain ⟨t, ht⟩ := ih (fun y hy => hx y (by simp [hy])) (acc ++ [.int x])
      { q with text := intDigits x,
               stack := { e with args := insert k (wrapList e.lastCond (acc ++ [.int x])) m0 } :: rest }
      { e with args := insert k (wrapList e.lastCond (acc ++ [.int x])) m0 } rfl hin hf rfl
    refine ⟨t, ?_⟩
    rw [ht]
    simp [List.append_assoc]

/-- Executing `startList items endList` stores the list (or the condition on it) under the pending key. -/
theorem exec_list (xs : List Int) (hx : ∀ x ∈ xs, minInt64 ≤ x ∧ x ≤ maxInt64)
    (k : Key) (hk : k ≠ []) (q : QState) (e : Elem) (rest : List Elem) (evs : List Ev)
    (hq : q.stack = e :: rest) (hf : e.lastField = k) (_hin : e.inList = false) (hl : lookup k e.args = none) :
    ∃ t, exec (.act .startList :: (xs.flatMap evIntItem ++ (.act .endList :: evs))) q =
      exec evs { q with text := t,
                        stack := { e with args := insert k (wrapList e.lastCond (xs.map Val.int)) e.args,
                                          lastField := [], lastCond := .ILLEGAL, inList := false } :: rest } := by
  have hs : stepAct q .startList =
      .ok { q with stack := { e with args := insert k (wrapList e.lastCond []) e.args, inList := true } :: rest } := by
    simp only [stepAct, startList, hq, hf, hl]
    by_cases hc : e.lastCond = .ILLEGAL <;> simp [hc, wrapList]
  rw [exec_act_ok _ hs]
  obtain ⟨t, ht⟩ := exec_list_items xs hx k hk e.args []
    { q with stack := { e with args := insert k (wrapList e.lastCond []) e.args, inList := true } :: rest }
    { e with args := insert k (wrapList e.lastCond []) e.args, inList := true } rest (.act .endList :: evs)
    rfl rfl hf rfl
  rw [ht]
  refine ⟨t, ?_⟩
  let e2 : Elem := { e with args := insert k (wrapList e.lastCond ([] ++ xs.map Val.int)) e.args, inList := true }
  let e3 : Elem := { e with args := insert k (wrapList e.lastCond (xs.map Val.int)) e.args, lastField := [], lastCond := .ILLEGAL, inList := false }
  have he : stepAct { q with text := t, stack := e2 :: rest } .endList = .ok { q with text := t, stack := e3 :: rest } := by
    simp [stepAct, endList, e2, e3]
  exact exec_act_ok evs he


/-- The int64 elements of a list value. -/
def intsOf : List Val → List Int
  | [] => []
  | .int i :: rest => i :: intsOf rest
  | _ :: rest => intsOf rest

theorem intsOf_map (xs : List Int) : intsOf (xs.map Val.int) = xs := by
  induction xs with
  | nil => rfl
  | cons x rest ih => simp [intsOf, ih]

theorem fmtVals_ints (isPrint : Char → Bool) (xs : List Int) :
    fmtVals isPrint (xs.map Val.int) = xs.map intDigits := by
  induction xs with
  | nil => simp [fmtVals]
  | cons x rest ih => simp [fmtVals, fmtVal, ih]

/-- A list value of the fragment: a non-empty list of int64. -/
def IntList (vs : List Val) : Prop :=
  ∃ xs : List Int, vs = xs.map Val.int ∧ xs ≠ [] ∧ ∀ x ∈ xs, minInt64 ≤ x ∧ x ≤ maxInt64

/-- The values of the flat fragment proved so far: int64, nil, bool, string, and a comparison
(`==  !=  <  <=  >  >=`) with an int64.  A string is excluded only when its quoted form begins like a
timestamp (four digits and a dash): then another alternative of `item` reads it. -/
def SimpleVal (isPrint : Char → Bool) : Val → Prop
  | .int i => minInt64 ≤ i ∧ i ≤ maxInt64
  | .null => True
  | .bool _ => True
  | .str bs => (∀ b ∈ bs, b < 256) ∧ tsPrefix5 (quoteBody isPrint bs ++ ['"']) = false
  | .cond op (.int i) => op ∈ cmpOps ∧ minInt64 ≤ i ∧ i ≤ maxInt64
  | .list vs => IntList vs
  | .cond op (.list vs) => op ∈ cmpOps ∧ IntList vs
  | _ => False

/-- The events the grammar records for a printed value. -/
def evVal (isPrint : Char → Bool) : Val → List Ev
  | .int i => [.text (intDigits i), .act .addNumVal]
  | .null => [.act (.addVal .null)]
  | .bool b => [.act (.addVal (.bool b))]
  | .str bs => [.text (quote isPrint bs), .act .addQuotedVal]
  | .cond op (.int i) => [.act (.setCond op), .text (intDigits i), .act .addNumVal]
  | .list vs => .act .startList :: ((intsOf vs).flatMap evIntItem ++ [.act .endList])
  | .cond op (.list vs) => .act (.setCond op) :: .act .startList :: ((intsOf vs).flatMap evIntItem ++ [.act .endList])
  | _ => []

def evArg (isPrint : Char → Bool) (kv : Key × Val) : List Ev :=
  [.text kv.1, .act (.addField .text)] ++ evVal isPrint kv.2

/-- Executing the events of `key=value` stores the value under the key. -/
theorem exec_arg (isPrint : Char → Bool) (hnl : isPrint '\n' = false) (k : Key) (v : Val)
    (hv : SimpleVal isPrint v) (hk : k ≠ [])
    (q : QState) (e : Elem) (rest : List Elem) (evs : List Ev)
    (hq : q.stack = e :: rest) (he : ArgState e) (hl : lookup k e.args = none) :
    ∃ t, exec (evArg isPrint (k, v) ++ evs) q =
      exec evs { q with text := t, stack := { e with args := insert k v e.args } :: rest } := by
  obtain ⟨he1, he2, he3⟩ := he
  simp only [evArg, List.cons_append, List.nil_append]
  rw [exec_field k q e rest _ hq he1]
  cases v with
  | int i =>
    refine ⟨intDigits i, ?_⟩
    simp only [evVal, List.cons_append, List.nil_append]
    rw [exec_text]
    have hs : stepAct { q with text := intDigits i, stack := { e with lastField := k } :: rest } .addNumVal =
        .ok { q with text := intDigits i, stack := { e with args := insert k (.int i) e.args } :: rest } := by
      cases e
      simp_all [stepAct, addNumVal, numVal_intDigits i hv.1 hv.2, bind, Except.bind]
    exact exec_act_ok evs hs
  | null =>
    refine ⟨k, ?_⟩
    simp only [evVal, List.cons_append, List.nil_append]
    have hs : stepAct { q with text := k, stack := { e with lastField := k } :: rest } (.addVal .null) =
        .ok { q with text := k, stack := { e with args := insert k .null e.args } :: rest } := by
      cases e
      simp_all [stepAct, addVal]
    exact exec_act_ok evs hs
  | bool b =>
    refine ⟨k, ?_⟩
    simp only [evVal, List.cons_append, List.nil_append]
    have hs : stepAct { q with text := k, stack := { e with lastField := k } :: rest } (.addVal (.bool b)) =
        .ok { q with text := k, stack := { e with args := insert k (.bool b) e.args } :: rest } := by
      cases e
      simp_all [stepAct, addVal]
    exact exec_act_ok evs hs
  | str bs =>
    refine ⟨quote isPrint bs, ?_⟩
    simp only [evVal, List.cons_append, List.nil_append]
    rw [exec_text]
    have hs : stepAct { q with text := quote isPrint bs, stack := { e with lastField := k } :: rest } .addQuotedVal =
        .ok { q with text := quote isPrint bs, stack := { e with args := insert k (.str bs) e.args } :: rest } := by
      cases e
      simp_all [stepAct, unquote_quote isPrint hnl bs hv.1, addVal]
    exact exec_act_ok evs hs
  | uint n => exact absurd hv (by simp [SimpleVal])
  | float t => exact absurd hv (by simp [SimpleVal])
  | list vs =>
    obtain ⟨xs, rfl, hxne, hxr⟩ := hv
    simp only [evVal, intsOf_map, List.cons_append, List.append_assoc, List.nil_append]
    obtain ⟨t, ht⟩ := exec_list xs hxr k hk { q with text := k, stack := { e with lastField := k } :: rest }
      { e with lastField := k } rest evs rfl rfl he2 hl
    refine ⟨t, ?_⟩
    rw [ht]
    congr 1
    cases e
    simp_all [wrapList]
  | ints xs => exact absurd hv (by simp [SimpleVal])
  | uints xs => exact absurd hv (by simp [SimpleVal])
  | cond op w =>
    cases w with
    | int i =>
      obtain ⟨hop, h1, h2⟩ := hv
      have hne : op ≠ .ILLEGAL := by
        intro e; subst e; simp [cmpOps] at hop
      refine ⟨intDigits i, ?_⟩
      simp only [evVal, List.cons_append, List.nil_append]
      have hs1 : stepAct { q with text := k, stack := { e with lastField := k } :: rest } (.setCond op) =
          .ok { q with text := k, stack := { e with lastField := k, lastCond := op } :: rest } := by
        simp [stepAct, setCond]
      rw [exec_act_ok _ hs1, exec_text]
      have hs : stepAct { q with text := intDigits i, stack := { e with lastField := k, lastCond := op } :: rest } .addNumVal =
          .ok { q with text := intDigits i, stack := { e with args := insert k (.cond op (.int i)) e.args } :: rest } := by
        cases e
        simp_all [stepAct, addNumVal, numVal_intDigits i h1 h2, bind, Except.bind]
      exact exec_act_ok evs hs
    | null => exact absurd hv (by simp [SimpleVal])
    | bool b => exact absurd hv (by simp [SimpleVal])
    | uint n => exact absurd hv (by simp [SimpleVal])
    | float t => exact absurd hv (by simp [SimpleVal])
    | str bs => exact absurd hv (by simp [SimpleVal])
    | list vs =>
      obtain ⟨hop, xs, rfl, hxne, hxr⟩ := hv
      have hne : op ≠ .ILLEGAL := by
        intro e'; subst e'; simp [cmpOps] at hop
      simp only [evVal, intsOf_map, List.cons_append, List.append_assoc, List.nil_append]
      have hs1 : stepAct { q with text := k, stack := { e with lastField := k } :: rest } (.setCond op) =
          .ok { q with text := k, stack := { e with lastField := k, lastCond := op } :: rest } := by
        simp [stepAct, setCond]
      rw [exec_act_ok _ hs1]
      obtain ⟨t, ht⟩ := exec_list xs hxr k hk
        { q with text := k, stack := { e with lastField := k, lastCond := op } :: rest }
        { e with lastField := k, lastCond := op } rest evs rfl rfl he2 hl
      refine ⟨t, ?_⟩
      rw [ht]
      congr 1
      cases e
      simp_all [wrapList]
    | ints xs => exact absurd hv (by simp [SimpleVal])
    | uints xs => exact absurd hv (by simp [SimpleVal])
    | cond op2 v2 => exact absurd hv (by simp [SimpleVal])
    | call c => exact absurd hv (by simp [SimpleVal])
  | call c => exact absurd hv (by simp [SimpleVal])


theorem ltKey_irrefl (k : Key) : ltKey k k = false := by
  induction k with
  | nil => rfl
  | cons c cs ih => simp [ltKey, ih, Char.lt_irrefl]

theorem ltKey_asymm (a b : Key) (h : ltKey a b = true) : ltKey b a = false := by
  induction a generalizing b with
  | nil => cases b <;> simp [ltKey] at h ⊢
  | cons x xs ih =>
    cases b with
    | nil => simp [ltKey] at h
    | cons y ys =>
      simp only [ltKey, Bool.or_eq_true, decide_eq_true_eq, Bool.and_eq_true] at h
      simp only [ltKey, Bool.or_eq_false_iff, decide_eq_false_iff_not, Bool.and_eq_false_iff]
      rcases h with h | ⟨rfl, h⟩
      · exact ⟨Char.lt_asymm h, Or.inl (fun e => by subst e; exact Char.lt_irrefl _ h)⟩
      · exact ⟨Char.lt_irrefl _, Or.inr (ih ys h)⟩

theorem ltKey_ne (a b : Key) (h : ltKey a b = true) : a ≠ b := by
  intro e; subst e; rw [ltKey_irrefl] at h; exact absurd h (by simp)

/-- Inserting a key greater than every key of the map appends it. -/
theorem insert_append (k : Key) (v : Val) (m : List (Key × Val))
    (h : ∀ p ∈ m, ltKey p.1 k = true) : insert k v m = m ++ [(k, v)] := by
  induction m with
  | nil => rfl
  | cons p rest ih =>
    obtain ⟨k0, v0⟩ := p
    have h0 : ltKey k0 k = true := h (k0, v0) (by simp)
    have hne : k0 ≠ k := ltKey_ne _ _ h0
    have hlt : ltKey k k0 = false := ltKey_asymm _ _ h0
    simp only [insert, hne, hlt, if_false, Bool.false_eq_true, List.cons_append]
    rw [ih (fun p hp => h p (by simp [hp]))]

/-- Keys strictly increasing (what `Call.String` prints and what a Go map holds: distinct keys). -/
def SortedKeys : List (Key × Val) → Prop
  | [] => True
  | [_] => True
  | a :: b :: rest => ltKey a.1 b.1 = true ∧ SortedKeys (b :: rest)

theorem ltKey_trans (a b c : Key) (h1 : ltKey a b = true) (h2 : ltKey b c = true) : ltKey a c = true := by
  induction a generalizing b c with
  | nil =>
    cases c with
    | nil => cases b <;> simp [ltKey] at h1 h2
    | cons z zs => rfl
  | cons x xs ih =>
    cases b with
    | nil => simp [ltKey] at h1
    | cons y ys =>
      cases c with
      | nil => simp [ltKey] at h2
      | cons z zs =>
        simp only [ltKey, Bool.or_eq_true, decide_eq_true_eq, Bool.and_eq_true] at h1 h2 ⊢
        rcases h1 with h1 | ⟨rfl, h1⟩
        · rcases h2 with h2 | ⟨rfl, h2⟩
          · exact Or.inl (Char.lt_trans h1 h2)
          · exact Or.inl h1
        · rcases h2 with h2 | ⟨rfl, h2⟩
          · exact Or.inl h2
          · exact Or.inr ⟨rfl, ih ys zs h1 h2⟩

theorem sorted_head_lt (a : Key × Val) (rest : List (Key × Val)) (h : SortedKeys (a :: rest)) :
    ∀ p ∈ rest, ltKey a.1 p.1 = true := by
  induction rest generalizing a with
  | nil => simp
  | cons b rest' ih =>
    obtain ⟨h1, h2⟩ := h
    intro p hp
    simp only [List.mem_cons] at hp
    rcases hp with rfl | hp
    · exact h1
    · exact ltKey_trans _ _ _ h1 (ih b h2 p hp)

theorem sorted_tail (a : Key × Val) (rest : List (Key × Val)) (h : SortedKeys (a :: rest)) : SortedKeys rest := by
  cases rest with
  | nil => trivial
  | cons b r => exact h.2

/-- Building the map from strictly sorted entries gives the entries back. -/
theorem foldl_insert_sorted (as acc : List (Key × Val)) (hs : SortedKeys as)
    (hacc : ∀ p ∈ acc, ∀ a ∈ as, ltKey p.1 a.1 = true) :
    as.foldl (fun m kv => insert kv.1 kv.2 m) acc = acc ++ as := by
  induction as generalizing acc with
  | nil => simp
  | cons a rest ih =>
    simp only [List.foldl_cons]
    rw [insert_append a.1 a.2 acc (fun p hp => hacc p hp a (by simp))]
    rw [ih (acc ++ [(a.1, a.2)]) (sorted_tail a rest hs)]
    · simp
    · intro p hp b hb
      simp only [List.mem_append, List.mem_singleton] at hp
      rcases hp with hp | rfl
      · exact hacc p hp b (by simp [hb])
      · exact sorted_head_lt a rest hs b hb


theorem fieldName_ne_nil {k : Key} (h : FieldName k) : k ≠ [] := by
  obtain ⟨c, cs, rfl, _, _⟩ := h; simp

/-- Executing the events of all arguments builds the argument map. -/
theorem exec_args (isPrint : Char → Bool) (hnl : isPrint '\n' = false) (as : List (Key × Val))
    (hv : ∀ kv ∈ as, FieldName kv.1 ∧ SimpleVal isPrint kv.2) (hs : SortedKeys as)
    (q : QState) (e : Elem) (rest : List Elem) (evs : List Ev)
    (hq : q.stack = e :: rest) (he : ArgState e) (hl : ∀ kv ∈ as, lookup kv.1 e.args = none) :
    ∃ t, exec (as.flatMap (evArg isPrint) ++ evs) q =
      exec evs { q with text := t,
                        stack := { e with args := as.foldl (fun m kv => insert kv.1 kv.2 m) e.args } :: rest } := by
  induction as generalizing q e with
  | nil =>
    refine ⟨q.text, ?_⟩
    simp only [List.flatMap_nil, List.nil_append, List.foldl_nil]
    congr 1
    cases q; cases e; simp_all
  | cons a rest' ih =>
    obtain ⟨k, v⟩ := a
    obtain ⟨hk, hsv⟩ := hv (k, v) (by simp)
    obtain ⟨t1, h1⟩ := exec_arg isPrint hnl k v hsv (fieldName_ne_nil hk) q e rest
      (rest'.flatMap (evArg isPrint) ++ evs) hq he (hl (k, v) (by simp))
    simp only [List.flatMap_cons, List.append_assoc]
    rw [h1]
    have hlt := sorted_head_lt (k, v) rest' hs
    obtain ⟨t2, h2⟩ := ih (fun kv hkv => hv kv (by simp [hkv])) (sorted_tail _ _ hs)
      { q with text := t1, stack := { e with args := insert k v e.args } :: rest }
      { e with args := insert k v e.args } rfl he
      (fun kv hkv => by
        have hne : kv.1 ≠ k := fun e' => by
          have := hlt kv hkv
          rw [e', ltKey_irrefl] at this; exact absurd this (by simp)
        simp only [lookup_insert, hne, if_false]
        exact hl kv (by simp [hkv]))
    exact ⟨t2, h2⟩


/-- `key=value` as `Call.String` prints it. -/
def argText (isPrint : Char → Bool) (kv : Key × Val) : List Char :=
  match kv.2 with
  | .cond op v => kv.1 ++ ' ' :: (opText op ++ ' ' :: fmtVal isPrint v)
  | v => kv.1 ++ '=' :: fmtVal isPrint v

theorem argText_head (isPrint : Char → Bool) (kv : Key × Val) :
    ∃ x rest, argText isPrint kv = kv.1 ++ x :: rest ∧ (x = '=' ∨ x = ' ') := by
  obtain ⟨k, v⟩ := kv
  cases v <;> simp [argText]

theorem fmtArgs_simple (isPrint : Char → Bool) (as : List (Key × Val))
    (h : ∀ kv ∈ as, SimpleVal isPrint kv.2) : fmtArgs isPrint as = as.map (argText isPrint) := by
  induction as with
  | nil => simp [fmtArgs]
  | cons a rest ih =>
    obtain ⟨k, v⟩ := a
    have hv := h (k, v) (by simp)
    have ih' := ih (fun kv hkv => h kv (by simp [hkv]))
    cases v <;> simp_all [fmtArgs, argText, SimpleVal]

theorem fmtCall_flat (isPrint : Char → Bool) (name : List Char) (as : List (Key × Val)) (hn : name ≠ [])
    (h : ∀ kv ∈ as, SimpleVal isPrint kv.2) :
    fmtCall isPrint (.mk name as []) =
      name ++ '(' :: (joinWith [',', ' '] (as.map (argText isPrint)) ++ [')']) := by
  simp [fmtCall, fmtCalls, joinWith, hn, fmtArgs_simple isPrint as h]

/-- A printed simple argument is read by `arg` whatever delimiter follows. -/
theorem parg_ok (isPrint : Char → Bool) (kv : Key × Val) (hk : FieldName kv.1) (hv : SimpleVal isPrint kv.2) :
    PArg.Ok ⟨argText isPrint kv, evArg isPrint kv⟩ := by
  obtain ⟨k, v⟩ := kv
  obtain ⟨c, cs, rfl, hc, hcs⟩ := hk
  have hk' : FieldName (c :: cs) := ⟨c, cs, rfl, hc, hcs⟩
  have hcws : isWs c = false := by
    cases hw : isWs c with
    | false => rfl
    | true =>
      simp only [isWs, Bool.or_eq_true, decide_eq_true_eq] at hw
      rcases hw with (rfl | rfl) | rfl <;> simp [isAlpha, isLower, isUpper] at hc
  have hhead := argText_head isPrint (c :: cs, v)
  obtain ⟨x0, tl0, hx0, _⟩ := hhead
  refine ⟨by rw [hx0]; simpa [NoWs] using hcws, by rw [hx0]; simp, ?_⟩
  intro d r hd
  have hdel : Delim d := by rcases hd with rfl | rfl <;> simp [Delim]
  simp only [argText, evArg]
  cases v with
  | int i =>
    obtain ⟨_, hne, hall⟩ := natDigits_spec i.natAbs
    have hitem := item_int_ok (decide (i < 0)) (natDigits i.natAbs) r d hne hall hdel
    rw [← intDigits_shape] at hitem
    have hnw : NoWs (intDigits i ++ d :: r) := by
      obtain ⟨x, t, hx, hxc⟩ := num_text_head (decide (i < 0)) (natDigits i.natAbs) (d :: r) hne hall
      rw [intDigits_shape, hx]
      rcases hxc with rfl | hxd
      · simp [NoWs, isWs]
      · simp only [NoWs]
        cases hw : isWs x with
        | false => rfl
        | true =>
          simp only [isWs, Bool.or_eq_true, decide_eq_true_eq] at hw
          rcases hw with (rfl | rfl) | rfl <;> simp [isDigit] at hxd
    have := arg_eq_ok hk' hnw (value_of_item hitem)
    simpa [fmtVal, evVal] using this
  | null =>
    have hitem := item_null_ok d r hd
    have := arg_eq_ok (vs := ['n', 'u', 'l', 'l'] ++ d :: r) hk' (by simp [NoWs, isWs]) (value_of_item hitem)
    simpa [fmtVal, evVal] using this
  | bool b =>
    cases b with
    | true =>
      have hitem := item_true_ok d r hd
      have := arg_eq_ok (vs := ['t', 'r', 'u', 'e'] ++ d :: r) hk' (by simp [NoWs, isWs]) (value_of_item hitem)
      simpa [fmtVal, evVal] using this
    | false =>
      have hitem := item_false_ok d r hd
      have := arg_eq_ok (vs := ['f', 'a', 'l', 's', 'e'] ++ d :: r) hk' (by simp [NoWs, isWs]) (value_of_item hitem)
      simpa [fmtVal, evVal] using this
  | str bs =>
    have hitem := item_dq_ok (quoteBody isPrint bs) r d (dqOk_quoteBody isPrint bs) hv.2 hdel
    have := arg_eq_ok (vs := '"' :: (quoteBody isPrint bs ++ '"' :: d :: r)) hk' (by simp [NoWs, isWs]) (value_of_item hitem)
    simpa [fmtVal, evVal, quote] using this
  | uint n => exact absurd hv (by simp [SimpleVal])
  | float t => exact absurd hv (by simp [SimpleVal])
  | list vs =>
    obtain ⟨xs, rfl, hxne, hxr⟩ := hv
    have hval := value_list_ok xs hxne d r hd
    have := arg_eq_ok (vs := '[' :: (joinWith [','] (xs.map intDigits) ++ ']' :: d :: r)) hk'
      (by simp [NoWs, isWs]) hval
    simpa [fmtVal, fmtVals_ints, evVal, intsOf_map, List.append_assoc] using this
  | ints xs => exact absurd hv (by simp [SimpleVal])
  | uints xs => exact absurd hv (by simp [SimpleVal])
  | cond op w =>
    cases w with
    | int i =>
      obtain ⟨hop, h1, h2⟩ := hv
      obtain ⟨_, hne, hall⟩ := natDigits_spec i.natAbs
      have hitem := item_int_ok (decide (i < 0)) (natDigits i.natAbs) r d hne hall hdel
      rw [← intDigits_shape] at hitem
      have hnw : NoWs (intDigits i ++ d :: r) := by
        obtain ⟨x, t, hx, hxc⟩ := num_text_head (decide (i < 0)) (natDigits i.natAbs) (d :: r) hne hall
        rw [intDigits_shape, hx]
        rcases hxc with rfl | hxd
        · simp [NoWs, isWs]
        · simp only [NoWs]
          cases hw : isWs x with
          | false => rfl
          | true =>
            simp only [isWs, Bool.or_eq_true, decide_eq_true_eq] at hw
            rcases hw with (rfl | rfl) | rfl <;> simp [isDigit] at hxd
      have := arg_cond_ok op hop hk' hnw (value_of_item hitem)
      simpa [fmtVal, evVal] using this
    | null => exact absurd hv (by simp [SimpleVal])
    | bool b => exact absurd hv (by simp [SimpleVal])
    | uint n => exact absurd hv (by simp [SimpleVal])
    | float t => exact absurd hv (by simp [SimpleVal])
    | str bs => exact absurd hv (by simp [SimpleVal])
    | list vs =>
      obtain ⟨hop, xs, rfl, hxne, hxr⟩ := hv
      have hval := value_list_ok xs hxne d r hd
      have := arg_cond_ok op hop hk' (vs := '[' :: (joinWith [','] (xs.map intDigits) ++ ']' :: d :: r))
        (by simp [NoWs, isWs]) hval
      simpa [fmtVal, fmtVals_ints, evVal, intsOf_map, List.append_assoc] using this
    | ints xs => exact absurd hv (by simp [SimpleVal])
    | uints xs => exact absurd hv (by simp [SimpleVal])
    | cond op2 v2 => exact absurd hv (by simp [SimpleVal])
    | call c => exact absurd hv (by simp [SimpleVal])
  | call c => exact absurd hv (by simp [SimpleVal])


/-- The flat fragment: `Name(k1=v1, ..)` with a generic name, at least one argument, field-name
keys in strictly increasing order and simple values. -/
structure FlatCall (isPrint : Char → Bool) (name : List Char) (args : List (Key × Val)) : Prop where
  name_ok : IdentName name
  not_special : name ∉ specialKws
  nonempty : args ≠ []
  args_ok : ∀ kv ∈ args, FieldName kv.1 ∧ SimpleVal isPrint kv.2
  sorted : SortedKeys args

def evCall (isPrint : Char → Bool) (name : List Char) (args : List (Key × Val)) : List Ev :=
  [.text name, .act (.startCall .text)] ++ args.flatMap (evArg isPrint) ++ [.act .endCall]

/-- Syntax: the grammar reads the printed call and records exactly `evCall`. -/
theorem flat_parses (isPrint : Char → Bool) (name : List Char) (args : List (Key × Val))
    (h : FlatCall isPrint name args) :
    P (.ref Gen.start) (fmtCall isPrint (.mk name args [])) [] (evCall isPrint name args) := by
  obtain ⟨hn, hsp, hne, hargs, hsorted⟩ := h
  have hname : name ≠ [] := by obtain ⟨c, cs, rfl, _, _⟩ := hn; simp
  rw [fmtCall_flat isPrint name args hname (fun kv hkv => (hargs kv hkv).2)]
  -- the arguments
  let pargs : List PArg := args.map (fun kv => ⟨argText isPrint kv, evArg isPrint kv⟩)
  have hpok : ∀ a ∈ pargs, a.Ok := by
    intro a ha
    simp only [pargs, List.mem_map] at ha
    obtain ⟨kv, hkv, rfl⟩ := ha
    exact parg_ok isPrint kv (hargs kv hkv).1 (hargs kv hkv).2
  have hpne : pargs ≠ [] := by simpa [pargs] using hne
  have hargsP := args_ok pargs hpne hpok []
  have htext : pargs.map (·.text) = args.map (argText isPrint) := by simp [pargs]
  have hevs : pargs.flatMap (·.evs) = args.flatMap (evArg isPrint) := by
    simp [pargs, List.flatMap_map]
  rw [htext, hevs] at hargsP
  -- `Call` does not match at the first argument
  have hcf : F (.ref R.Call) (joinWith [',', ' '] (args.map (argText isPrint)) ++ [')']) := by
    cases args with
    | nil => exact absurd rfl hne
    | cons a rest =>
      obtain ⟨hk, _⟩ := hargs a (by simp)
      obtain ⟨x, tl, hx, hxe⟩ := argText_head isPrint a
      have hx1 : isAlnum x = false := by rcases hxe with rfl | rfl <;> decide
      have hx2 : x ≠ '(' := by rcases hxe with rfl | rfl <;> decide
      cases rest with
      | nil =>
        simp only [List.map, joinWith, hx, List.append_assoc, List.cons_append]
        exact call_fails_key a.1 _ x hk hx1 hx2
      | cons b rest' =>
        simp only [List.map, joinWith, hx, List.append_assoc, List.cons_append]
        exact call_fails_key a.1 _ x hk hx1 hx2
  have hall := allargs_of_args hcf hargsP
  have hws : NoWs (joinWith [',', ' '] (args.map (argText isPrint)) ++ [')']) := by
    cases args with
    | nil => exact absurd rfl hne
    | cons a rest =>
      obtain ⟨⟨c, cs, hk, hc, _⟩, _⟩ := hargs a (by simp)
      have hcws : isWs c = false := by
        cases hw : isWs c with
        | false => rfl
        | true =>
          simp only [isWs, Bool.or_eq_true, decide_eq_true_eq] at hw
          rcases hw with (rfl | rfl) | rfl <;> simp [isAlpha, isLower, isUpper] at hc
      obtain ⟨x, tl, hx, _⟩ := argText_head isPrint a
      cases rest with
      | nil => simpa [List.map, joinWith, hx, hk, NoWs] using hcws
      | cons b rest' => simpa [List.map, joinWith, hx, hk, NoWs] using hcws
  have hcall := call_generic_ok name _ [] _ hn hsp hws trivial hall
  have hnws : NoWs (name ++ '(' :: (joinWith [',', ' '] (args.map (argText isPrint)) ++ [')'])) := by
    obtain ⟨c, cs, rfl, hc, _⟩ := hn
    simp only [List.cons_append, NoWs]
    cases hw : isWs c with
    | false => rfl
    | true =>
      simp only [isWs, Bool.or_eq_true, decide_eq_true_eq] at hw
      rcases hw with (rfl | rfl) | rfl <;> simp [isAlpha, isLower, isUpper] at hc
  exact calls_single _ _ hnws hcall

/-- Semantics: the action machine turns `evCall` into the call. -/
theorem flat_exec (isPrint : Char → Bool) (hnl : isPrint '\n' = false) (name : List Char)
    (args : List (Key × Val)) (h : FlatCall isPrint name args) :
    ∃ q, exec (evCall isPrint name args) {} = .ok q ∧ q.calls = [.mk name args []] := by
  obtain ⟨hn, hsp, hne, hargs, hsorted⟩ := h
  simp only [evCall, List.cons_append, List.nil_append]
  rw [exec_text]
  have hs : stepAct { ({} : QState) with text := name } (.startCall .text) =
      .ok { ({} : QState) with text := name, stack := [{ name := name, attach := .top }] } := by
    simp [stepAct, startCall, sargText]
  rw [exec_act_ok _ hs]
  obtain ⟨t, hexec⟩ := exec_args isPrint hnl args hargs hsorted
    { ({} : QState) with text := name, stack := [{ name := name, attach := .top }] }
    { name := name, attach := .top } [] [.act .endCall] rfl ⟨rfl, rfl, rfl⟩ (by simp [lookup])
  rw [hexec, foldl_insert_sorted args [] hsorted (by simp)]
  refine ⟨{ calls := [.mk name args []], stack := [], text := t }, ?_, rfl⟩
  simp [exec, stepEv, stepAct, endCall, Elem.toCall]
  rfl


end PV.C26
