/-
C26 — specification side (core Lean only).

`Lit`: the literal forms of the PQL grammar described *structurally*: each form says how it is
written (`Lit.write`) and which value the text denotes (`Lit.value`).  A double-quoted string is
a list of items (plain characters and the escapes of Go string syntax), so the meaning of an
escape is given here by construction and not by running a decoder.

`SArg`/`written`: a flat call `Name(k=v, k op v, lo < k <= hi)` built from literals, and the
call it denotes.

`Forwardable`: the values the executor can place in a call it sends to another node
(parsed values, translated keys (uint64), `ids` lists ([]int64, []uint64)).  For those the
specification of forwarding is the identity: `parse (print c) = c`, dynamic types included.
-/
import PV.C26.Model
namespace PV.C26

/-! ## Written literals -/

/-- One item between double quotes. -/
inductive DqItem where
  | ch (c : Char)            -- a character other than `"`, `\` and newline, written as itself
  | esc (c : Char)           -- `\a \b \f \n \r \t \v \\ \"`: `c` is the letter after the backslash
  | hex (b : Nat)            -- `\xHH`, one byte
  | oct (b : Nat)            -- `\ooo`, one byte
  | u4 (cp : Nat)            -- `\uHHHH`
  | u8 (cp : Nat)            -- `\UHHHHHHHH`
  deriving Repr

def octDigit (d : Nat) : Char := ['0', '1', '2', '3', '4', '5', '6', '7'].getD d '0'

def DqItem.write : DqItem → List Char
  | .ch c => [c]
  | .esc c => ['\\', c]
  | .hex b => '\\' :: 'x' :: hex2 b
  | .oct b => ['\\', octDigit (b / 64 % 8), octDigit (b / 8 % 8), octDigit (b % 8)]
  | .u4 cp => '\\' :: 'u' :: hex4 cp
  | .u8 cp => '\\' :: 'U' :: hex8 cp

/-- The byte the escape letter stands for. -/
def escByte (c : Char) : Nat :=
  if c = 'a' then 7 else if c = 'b' then 8 else if c = 'f' then 12 else if c = 'n' then 10
  else if c = 'r' then 13 else if c = 't' then 9 else if c = 'v' then 11
  else if c = '\\' then 92 else 34

def DqItem.value : DqItem → Bytes
  | .ch c => utf8 c
  | .esc c => [escByte c]
  | .hex b => [b]
  | .oct b => [b]
  | .u4 cp => utf8 (Char.ofNat cp)
  | .u8 cp => utf8 (Char.ofNat cp)

def escLetters : List Char := ['a', 'b', 'f', 'n', 'r', 't', 'v', '\\', '"']

/-- Well-formed item (what the generator produces and the theorem assumes). -/
def DqItem.ok : DqItem → Bool
  | .ch c => c ≠ '"' && c ≠ '\\' && c ≠ '\n'
  | .esc c => escLetters.contains c
  | .hex b => b < 256
  | .oct b => b < 256
  | .u4 cp => cp < 0x10000 && validRune cp
  | .u8 cp => validRune cp

/-- One item between single quotes. -/
inductive SqItem where
  | ch (c : Char)            -- a character other than `'` and `\`
  | escQuote                 -- `\'`, denotes `'`
  | escBackslash             -- `\\`, denotes `\`
  deriving Repr

def SqItem.write : SqItem → List Char
  | .ch c => [c]
  | .escQuote => ['\\', '\'']
  | .escBackslash => ['\\', '\\']

def SqItem.value : SqItem → Bytes
  | .ch c => utf8 c
  | .escQuote => [39]
  | .escBackslash => [92]

def SqItem.ok : SqItem → Bool
  | .ch c => c ≠ '\'' && c ≠ '\\'
  | _ => true

/-- Quote style of a timestamp literal. -/
inductive TsStyle where
  | bare | dq | sq
  deriving Repr, DecidableEq

inductive Lit where
  | null
  | bool (b : Bool)
  | int (neg : Bool) (digits : List Char)                 -- '-'? [0-9]+
  | float (neg : Bool) (ip fp : List Char)                 -- '-'? ip '.' fp   (ip or fp may be empty, not both)
  | dq (items : List DqItem)
  | sq (items : List SqItem)
  | bare (cs : List Char)                                  -- ([[A-Z]] / [0-9] / '-' / '_' / ':')+ not otherwise a literal
  | ts (style : TsStyle) (cs : List Char)                  -- yyyy-mm-ddThh:mm
  | list (items : List Lit)

def joinLits (f : Lit → List Char) : List Lit → List Char
  | [] => []
  | [x] => f x
  | x :: xs => f x ++ [','] ++ joinLits f xs

mutual
def Lit.write : Lit → List Char
  | .null => ['n', 'u', 'l', 'l']
  | .bool true => ['t', 'r', 'u', 'e']
  | .bool false => ['f', 'a', 'l', 's', 'e']
  | .int neg ds => (if neg then ['-'] else []) ++ ds
  | .float neg ip fp => (if neg then ['-'] else []) ++ ip ++ ['.'] ++ fp
  | .dq items => '"' :: items.flatMap DqItem.write ++ ['"']
  | .sq items => '\'' :: items.flatMap SqItem.write ++ ['\'']
  | .bare cs => cs
  | .ts .bare cs => cs
  | .ts .dq cs => '"' :: cs ++ ['"']
  | .ts .sq cs => '\'' :: cs ++ ['\'']
  | .list items => '[' :: Lit.writeList items ++ [']']
def Lit.writeList : List Lit → List Char
  | [] => []
  | [x] => x.write
  | x :: y :: r => x.write ++ [','] ++ Lit.writeList (y :: r)
end

mutual
/-- The value the written text denotes. -/
def Lit.value : Lit → Val
  | .null => .null
  | .bool b => .bool b
  | .int neg ds => .int (if neg then - (parseNat ds : Int) else (parseNat ds : Int))
  | .float neg ip fp => .float (normDec ((if neg then ['-'] else []) ++ ip ++ ['.'] ++ fp))
  | .dq items => .str (items.flatMap DqItem.value)
  | .sq items => .str (items.flatMap SqItem.value)
  | .bare cs => .str (utf8s cs)
  | .ts _ cs => .str (utf8s cs)
  | .list items => .list (Lit.values items)
def Lit.values : List Lit → List Val
  | [] => []
  | x :: xs => x.value :: Lit.values xs
end

/-- One written argument of a flat call. -/
inductive WArg where
  | kv (k : Key) (v : Lit)                                  -- k=v
  | kc (k : Key) (op : Op) (v : Lit)                        -- k op v
  | between (lo : Int) (strictLo : Bool) (k : Key) (strictHi : Bool) (hi : Int)   -- lo < k <= hi

def WArg.key : WArg → Key
  | .kv k _ => k
  | .kc k _ _ => k
  | .between _ _ k _ _ => k

def WArg.write : WArg → List Char
  | .kv k v => k ++ ['='] ++ v.write
  | .kc k op v => k ++ [' '] ++ opText op ++ [' '] ++ v.write
  | .between lo sl k sh hi =>
    intDigits lo ++ [' '] ++ (if sl then ['<'] else ['<', '=']) ++ [' '] ++ k ++ [' '] ++
      (if sh then ['<'] else ['<', '=']) ++ [' '] ++ intDigits hi

def WArg.value : WArg → Val
  | .kv _ v => v.value
  | .kc _ op v => .cond op v.value
  | .between lo sl _ sh hi => .cond .BETWEEN (.list [.int (if sl then lo + 1 else lo), .int (if sh then hi - 1 else hi)])

/-- `Name(arg, arg, ...)` in the fixed style `Call.String` itself uses (", " between arguments). -/
def writeCall (name : List Char) (args : List WArg) : List Char :=
  name ++ ['('] ++ joinWith [',', ' '] (args.map WArg.write) ++ [')']

/-- The call the written text denotes (arguments stored under their keys). -/
def writtenCall (name : List Char) (args : List WArg) : Call :=
  .mk name (args.foldl (fun m a => insert a.key a.value m) []) []

end PV.C26
