/-
C26 — lemmas of the number layer: decimal printing and parsing of int64/uint64.  Core Lean only.
-/
import PV.C26.Model
namespace PV.C26

theorem digitVal_digitChar : ∀ d, d < 10 → digitVal (digitChar d) = d := by decide

theorem isDigit_digitChar : ∀ d, d < 10 → isDigit (digitChar d) = true := by decide

theorem parseNatAux_append (xs ys : List Char) (acc : Nat) :
    parseNatAux (xs ++ ys) acc = parseNatAux ys (parseNatAux xs acc) := by
  induction xs generalizing acc with
  | nil => rfl
  | cons x xs ih => simp only [List.cons_append, parseNatAux]; exact ih _

/-- `digitsAux f n acc` prepends the digits of `n` to `acc`. -/
theorem digitsAux_spec (f n : Nat) (acc : List Char) (hf : n < f) :
    ∃ ds, digitsAux f n acc = ds ++ acc ∧ parseNat ds = n ∧ ds ≠ [] ∧ (∀ c ∈ ds, isDigit c = true) := by
  induction f generalizing n acc with
  | zero => omega
  | succ f ih =>
    simp only [digitsAux]
    by_cases h : n < 10
    · simp only [h, if_true]
      refine ⟨[digitChar n], rfl, ?_, by simp, ?_⟩
      · simp [parseNat, parseNatAux, digitVal_digitChar n h]
      · intro c hc; simp at hc; subst hc; exact isDigit_digitChar n h
    · simp only [h, if_false]
      obtain ⟨ds, hds, hv, hne, hd⟩ := ih (n / 10) (digitChar (n % 10) :: acc) (by omega)
      refine ⟨ds ++ [digitChar (n % 10)], by rw [hds]; simp, ?_, by simp, ?_⟩
      · rw [parseNat, parseNatAux_append]
        simp only [parseNatAux]
        rw [show parseNatAux ds 0 = n / 10 from hv, digitVal_digitChar _ (by omega)]
        omega
      · intro c hc
        simp only [List.mem_append, List.mem_singleton] at hc
        rcases hc with hc | rfl
        · exact hd c hc
        · exact isDigit_digitChar _ (by omega)

theorem natDigits_spec (n : Nat) :
    parseNat (natDigits n) = n ∧ natDigits n ≠ [] ∧ (∀ c ∈ natDigits n, isDigit c = true) := by
  obtain ⟨ds, hds, hv, hne, hd⟩ := digitsAux_spec (n + 1) n [] (by omega)
  simp only [natDigits, hds, List.append_nil]
  exact ⟨hv, hne, hd⟩

theorem isDigit_ne_minus (c : Char) (h : isDigit c = true) : c ≠ '-' := by
  intro e; subst e; simp [isDigit] at h

theorem parseIntText_intDigits (i : Int) : parseIntText (intDigits i) = i := by
  simp only [intDigits]
  by_cases h : i < 0
  · simp only [h, if_true, parseIntText]
    rw [(natDigits_spec _).1]; omega
  · simp only [h, if_false]
    obtain ⟨hv, hne, hd⟩ := natDigits_spec i.natAbs
    cases hds : natDigits i.natAbs with
    | nil => exact absurd hds hne
    | cons c cs =>
      have hc : c ≠ '-' := isDigit_ne_minus c (hd c (by simp [hds]))
      rw [parseIntText]
      · rw [← hds, hv]; omega
      · intro ds e; exact hc (by cases e; rfl)

/-- An int64 printed by `Call.String` parses back to the same int64. -/
theorem parseInt64_intDigits (i : Int) (h1 : minInt64 ≤ i) (h2 : i ≤ maxInt64) :
    parseInt64 (intDigits i) = some i := by
  simp [parseInt64, parseIntText_intDigits, h1, h2]

end PV.C26
