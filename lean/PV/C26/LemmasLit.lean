/-
C26 — lemmas about written literals (Spec.lean): the value a double-quoted literal denotes is what
strconv.Unquote returns for its text.  Core Lean only.
-/
import PV.C26.LemmasPql
import PV.C26.Spec
namespace PV.C26
open Gen

theorem unoct_octDigit : ∀ d, d < 8 → unoct (octDigit d) = some d := by decide
theorem octDigit_ne : ∀ d, d < 8 → octDigit d ≠ '"' ∧ octDigit d ≠ '\\' := by decide

/-- The value of a well-formed item comes back from its written form (Go string-literal escapes). -/
theorem unquote_dqItem (it : DqItem) (hok : it.ok = true) (tail : List Char) :
    unquoteBody (it.write ++ tail) = (it.value ++ ·) <$> unquoteBody tail := by
  cases it with
  | ch c =>
    simp only [DqItem.ok, Bool.and_eq_true, decide_eq_true_eq, ne_eq] at hok
    exact unquoteBody_plain c tail hok.1.1 hok.2 hok.1.2
  | esc c =>
    simp only [DqItem.ok, escLetters, List.contains_iff_mem, List.mem_cons, List.not_mem_nil, or_false] at hok
    simp only [DqItem.write, DqItem.value, List.cons_append, List.nil_append]
    rcases hok with rfl | rfl | rfl | rfl | rfl | rfl | rfl | rfl | rfl <;> rw [unquoteBody] <;> rfl
  | hex b =>
    simp only [DqItem.ok, decide_eq_true_eq] at hok
    simp only [DqItem.write, DqItem.value, List.cons_append]
    rw [unquote_hex2 b hok]; rfl
  | oct b =>
    simp only [DqItem.ok, decide_eq_true_eq] at hok
    simp only [DqItem.write, DqItem.value, List.cons_append, List.nil_append]
    have h2 := unoct_octDigit (b / 8 % 8) (by omega)
    have h3 := unoct_octDigit (b % 8) (by omega)
    have e : (b / 64 % 8 * 8 + b / 8 % 8) * 8 + b % 8 = b := by omega
    generalize octDigit (b / 8 % 8) = o2 at h2 ⊢
    generalize octDigit (b % 8) = o3 at h3 ⊢
    have h1 : b / 64 % 8 = 0 ∨ b / 64 % 8 = 1 ∨ b / 64 % 8 = 2 ∨ b / 64 % 8 = 3 := by omega
    have u0 : unoct '0' = some 0 := by decide
    have u1 : unoct '1' = some 1 := by decide
    have u2 : unoct '2' = some 2 := by decide
    have u3 : unoct '3' = some 3 := by decide
    have hle : b ≤ 255 := by omega
    rcases h1 with h | h | h | h <;> rw [h] at e ⊢ <;> simp only [octDigit, List.getD_cons_zero, List.getD_cons_succ] <;>
      rw [unquoteBody] <;> first
        | (intros; contradiction)
        | (first | rw [u0, h2, h3] | rw [u1, h2, h3] | rw [u2, h2, h3] | rw [u3, h2, h3]
           show (if _ then _ else _) = _
           rw [e, if_pos hle])
  | u4 cp =>
    simp only [DqItem.ok, Bool.and_eq_true, decide_eq_true_eq] at hok
    obtain ⟨hlt, hv⟩ := hok
    simp only [DqItem.write, DqItem.value, hex4, List.cons_append, List.nil_append]
    rw [unquoteBody]
    simp only [unhex_hexDigit (cp / 4096 % 16) (by omega), unhex_hexDigit (cp / 256 % 16) (by omega),
      unhex_hexDigit (cp / 16 % 16) (by omega), unhex_hexDigit (cp % 16) (by omega)]
    have e : ((cp / 4096 % 16 * 16 + cp / 256 % 16) * 16 + cp / 16 % 16) * 16 + cp % 16 = cp := by omega
    simp only [e, hv, if_true, runeBytes]
  | u8 cp =>
    simp only [DqItem.ok] at hok
    have hlt : cp < 0x110000 := by
      simp only [validRune, Bool.or_eq_true, Bool.and_eq_true, decide_eq_true_eq] at hok; omega
    simp only [DqItem.write, DqItem.value, hex8, hex4, List.cons_append, List.nil_append]
    rw [unquoteBody]
    simp only [unhex_hexDigit (cp / 268435456 % 16) (by omega), unhex_hexDigit (cp / 16777216 % 16) (by omega),
      unhex_hexDigit (cp / 1048576 % 16) (by omega), unhex_hexDigit (cp / 65536 % 16) (by omega),
      unhex_hexDigit (cp / 4096 % 16) (by omega), unhex_hexDigit (cp / 256 % 16) (by omega),
      unhex_hexDigit (cp / 16 % 16) (by omega), unhex_hexDigit (cp % 16) (by omega)]
    have e : ((((((cp / 268435456 % 16 * 16 + cp / 16777216 % 16) * 16 + cp / 1048576 % 16) * 16 +
        cp / 65536 % 16) * 16 + cp / 4096 % 16) * 16 + cp / 256 % 16) * 16 + cp / 16 % 16) * 16 +
        cp % 16 = cp := by omega
    simp only [e, hok, if_true, runeBytes]

/-- A double-quoted literal written from well-formed items unquotes to the bytes the items denote. -/
theorem unquote_dqItems (items : List DqItem) (hok : ∀ it ∈ items, it.ok = true) :
    unquote ('"' :: (items.flatMap DqItem.write ++ ['"'])) = some (items.flatMap DqItem.value) := by
  simp only [unquote]
  induction items with
  | nil => simp [unquoteBody]
  | cons it rest ih =>
    simp only [List.flatMap_cons, List.append_assoc]
    rw [unquote_dqItem it (hok it (by simp)), ih (fun x hx => hok x (by simp [hx]))]
    rfl

end PV.C26
