/-
C26 — `ClearRow` and `Store`: the two special-form names whose DEDICATED alternative of `Call` reads
the text `Call.String` prints for a call of their usual shape (`ClearRow(key=value)`,
`Store(Child(..), key=value)`).  The events differ from the generic alternative (`startCall` gets the
literal name), the resulting call is the same.  Core Lean only.
-/
import PV.C26.LemmasNest
namespace PV.C26
open Gen

def clearRowKw : List Char := ['C', 'l', 'e', 'a', 'r', 'R', 'o', 'w']
def storeKw : List Char := ['S', 't', 'o', 'r', 'e']

/-- `ClearRow(key=value)` is read by the dedicated alternative. -/
theorem clearrow_call (isPrint : Char → Bool) (hnl : isPrint '\n' = false) (k : Key) (v : Val) (hk : KeyName k) (hv : SimpleVal isPrint v) :
    P (.ref R.Call) (clearRowKw ++ '(' :: (argText isPrint (k, v) ++ [')'])) []
      ([.act (.startCall (.lit clearRowKw))] ++ evArg isPrint (k, v) ++ [.act .endCall]) := by
  obtain ⟨hnw, hne, hp⟩ := parg_ok isPrint hnl (k, v) hk hv
  have harg := hp ')' [] (Or.inr rfl)
  have hnw' : NoWs (argText isPrint (k, v) ++ [')']) := noWs_append hnw hne
  apply Parses.ref
  show P e_Call _ _ _
  simp only [e_Call, alts, seqs]
  refine Parses.alt_right (special_fails _ _ _ _ (by simp) (fun t e => ?_))
    (Parses.alt_right (special_fails _ _ _ _ (by simp) (fun t e => ?_))
    (Parses.alt_right (special_fails _ _ _ _ (by simp) (fun t e => ?_))
    (Parses.alt_right (special_fails _ _ _ _ (by simp) (fun t e => ?_))
    (Parses.alt_left ?_))))
  · simp [clearRowKw] at e
  · simp [clearRowKw] at e
  · simp [clearRowKw] at e
  · simp only [clearRowKw, List.cons_append, List.nil_append, List.cons.injEq, true_and] at e
    rw [← e]; simp [NotHead]
  · have h := Parses.seq (Parses.lit (rule := Gen.rule) clearRowKw ('(' :: (argText isPrint (k, v) ++ [')'])))
      (Parses.seq (Parses.act (.startCall (.lit clearRowKw)) _)
        (Parses.seq (open_ok hnw') (Parses.seq harg (Parses.seq (close_ok (r := []) trivial) (Parses.act .endCall [])))))
    simpa [clearRowKw] using h

theorem clearrow_exec (isPrint : Char → Bool) (hnl : isPrint '\n' = false) (k : Key) (v : Val)
    (hk : KeyName k) (hv : SimpleVal isPrint v) :
    ∃ t, exec ([.act (.startCall (.lit clearRowKw))] ++ evArg isPrint (k, v) ++ [.act .endCall]) {} =
      .ok { calls := [.mk clearRowKw [(k, v)] []], stack := [], text := t } := by
  have hs : stepAct ({} : QState) (.startCall (.lit clearRowKw)) =
      .ok { ({} : QState) with stack := [{ name := clearRowKw, attach := .top }] } := by
    simp [stepAct, startCall, sargText]
  simp only [List.cons_append, List.nil_append]
  rw [exec_act_ok _ hs]
  obtain ⟨t, ht⟩ := exec_arg isPrint hnl k v hv hk.ne_nil
    { ({} : QState) with stack := [{ name := clearRowKw, attach := .top }] }
    { name := clearRowKw, attach := .top } [] [.act .endCall] rfl ⟨rfl, rfl, rfl⟩ (by simp [lookup])
  refine ⟨t, ?_⟩
  rw [ht]
  simp [exec, stepEv, stepAct, endCall, Elem.toCall, insert]
  rfl

/-- `Store(Child(..), key=value)` is read by the dedicated alternative. -/
theorem store_call (isPrint : Char → Bool) (hnl : isPrint '\n' = false) (d : Nat) (ch : Call) (k : Key) (v : Val) (hch : Nested isPrint d ch)
    (hk : KeyName k) (hv : SimpleVal isPrint v) :
    P (.ref R.Call) (storeKw ++ '(' :: (fmtCall isPrint ch ++ ',' :: ' ' :: (argText isPrint (k, v) ++ [')']))) []
      ([.act (.startCall (.lit storeKw))] ++ evCallD isPrint d ch ++ evArg isPrint (k, v) ++ [.act .endCall]) := by
  obtain ⟨hnw, hne, hp⟩ := parg_ok isPrint hnl (k, v) hk hv
  have harg := hp ')' [] (Or.inr rfl)
  have hnw' : NoWs (argText isPrint (k, v) ++ [')']) := noWs_append hnw hne
  obtain ⟨hcw, hcne⟩ := nested_text isPrint d ch hch
  have hchild := nested_parses isPrint hnl d ch hch (',' :: ' ' :: (argText isPrint (k, v) ++ [')'])) (by simp [NoWs, isWs])
  have hopen : NoWs (fmtCall isPrint ch ++ ',' :: ' ' :: (argText isPrint (k, v) ++ [')'])) := noWs_append hcw hcne
  apply Parses.ref
  show P e_Call _ _ _
  simp only [e_Call, alts, seqs]
  refine Parses.alt_right (special_fails _ _ _ _ (by simp) (fun t e => ?_))
    (Parses.alt_right (special_fails _ _ _ _ (by simp) (fun t e => ?_))
    (Parses.alt_right (special_fails _ _ _ _ (by simp) (fun t e => ?_))
    (Parses.alt_right (special_fails _ _ _ _ (by simp) (fun t e => ?_))
    (Parses.alt_right (special_fails _ _ _ _ (by simp) (fun t e => ?_))
    (Parses.alt_left ?_)))))
  · simp [storeKw] at e
  · simp [storeKw] at e
  · simp [storeKw] at e
  · simp [storeKw] at e
  · simp [storeKw] at e
  · have h := Parses.seq (Parses.lit (rule := Gen.rule) storeKw
        ('(' :: (fmtCall isPrint ch ++ ',' :: ' ' :: (argText isPrint (k, v) ++ [')']))))
      (Parses.seq (Parses.act (.startCall (.lit storeKw)) _)
        (Parses.seq (open_ok hopen) (Parses.seq hchild (Parses.seq (comma_sp hnw')
          (Parses.seq harg (Parses.seq (close_ok (r := []) trivial) (Parses.act .endCall [])))))))
    simpa [storeKw, List.append_assoc] using h

theorem store_exec (isPrint : Char → Bool) (hnl : isPrint '\n' = false) (d : Nat) (ch : Call) (k : Key) (v : Val)
    (hch : Nested isPrint d ch) (hk : KeyName k) (hv : SimpleVal isPrint v) :
    ∃ t, exec ([.act (.startCall (.lit storeKw))] ++ evCallD isPrint d ch ++ evArg isPrint (k, v) ++ [.act .endCall]) {} =
      .ok { calls := [.mk storeKw [(k, v)] [ch]], stack := [], text := t } := by
  have hs : stepAct ({} : QState) (.startCall (.lit storeKw)) =
      .ok { ({} : QState) with stack := [{ name := storeKw, attach := .top }] } := by
    simp [stepAct, startCall, sargText]
  simp only [List.cons_append, List.nil_append, List.append_assoc]
  rw [exec_act_ok _ hs]
  obtain ⟨t1, h1⟩ := ((nested_exec isPrint hnl d ch hch)
    { ({} : QState) with stack := [{ name := storeKw, attach := .top }] }
    (evArg isPrint (k, v) ++ [.act .endCall])).2.1 { name := storeKw, attach := .top } [] rfl rfl
  rw [h1]
  obtain ⟨t, ht⟩ := exec_arg isPrint hnl k v hv hk.ne_nil
    { ({} : QState) with stack := [{ name := storeKw, attach := .top, children := [] ++ [ch] }], text := t1 }
    { name := storeKw, attach := .top, children := [] ++ [ch] } [] [.act .endCall] rfl ⟨rfl, rfl, rfl⟩ (by simp [lookup])
  refine ⟨t, ?_⟩
  rw [ht]
  simp [exec, stepEv, stepAct, endCall, Elem.toCall, insert]
  rfl

end PV.C26
