/-
C26 — `kvArg` / `kcArg`: a written value (`LVal`, LemmasVals.lean) as the argument `key=value` /
`key op value` of a flat call (`LArg`, LemmasArgs.lean).  Core Lean only.
-/
import PV.C26.LemmasArgs
import PV.C26.LemmasVals
namespace PV.C26
open Gen

/-! ### Arguments from values -/

def kvArg (k : Key) (v : LVal) : LArg :=
  ⟨k, k ++ '=' :: v.text, [.text k, .act (.addField .text)] ++ v.evs, v.val⟩

def kcArg (k : Key) (op : Op) (v : LVal) : LArg :=
  ⟨k, k ++ ' ' :: (opText op ++ ' ' :: v.text), [.text k, .act (.addField .text), .act (.setCond op)] ++ v.evs,
    .cond op v.val⟩

theorem kvArg_syn (k : Key) (v : LVal) (hk : KeyName k) (hv : v.Syn) : (kvArg k v).Syn := by
  refine ⟨hk.noWs _, by simp [kvArg], ?_, ?_⟩
  · intro s
    simp only [kvArg, List.append_assoc, List.cons_append]
    exact call_fails_key k _ '=' hk (by decide) (by decide)
  · intro d r hd
    have := arg_eq_ok (vs := v.text ++ d :: r) hk (hv.1 _) (hv.2 d r hd)
    simpa [kvArg, List.append_assoc] using this

theorem kvArg_sem (k : Key) (v : LVal) (hk : k ≠ []) (hv : v.Sem0) : (kvArg k v).Sem := by
  intro q e rest evs' hq _ he hl
  obtain ⟨he1, he2, he3⟩ := he
  simp only [kvArg, List.cons_append, List.nil_append]
  rw [exec_field k q e rest _ hq he1]
  obtain ⟨t, ht⟩ := hv { q with text := k, stack := { e with lastField := k } :: rest }
    { e with lastField := k } rest evs' k rfl rfl hk he2 he3 hl
  refine ⟨t, ?_⟩
  rw [ht]
  congr 1
  cases e
  simp_all

theorem kcArg_syn (k : Key) (op : Op) (v : LVal) (hop : op ∈ cmpOps) (hk : KeyName k) (hv : v.Syn) :
    (kcArg k op v).Syn := by
  refine ⟨hk.noWs _, by simp [kcArg], ?_, ?_⟩
  · intro s
    simp only [kcArg, List.append_assoc, List.cons_append]
    exact call_fails_key k _ ' ' hk (by decide) (by decide)
  · intro d r hd
    have := arg_cond_ok op hop hk (vs := v.text ++ d :: r) (hv.1 _) (hv.2 d r hd)
    simpa [kcArg, List.append_assoc] using this

theorem kcArg_sem (k : Key) (op : Op) (v : LVal) (hop : op ∈ cmpOps) (hk : k ≠ []) (hv : v.Sem) :
    (kcArg k op v).Sem := by
  intro q e rest evs' hq _ he hl
  obtain ⟨he1, he2, he3⟩ := he
  have hne : op ≠ .ILLEGAL := by intro e'; subst e'; simp [cmpOps] at hop
  simp only [kcArg, List.cons_append, List.nil_append]
  rw [exec_field k q e rest _ hq he1]
  have hs1 : stepAct { q with text := k, stack := { e with lastField := k } :: rest } (.setCond op) =
      .ok { q with text := k, stack := { e with lastField := k, lastCond := op } :: rest } := by
    simp [stepAct, setCond]
  rw [exec_act_ok _ hs1]
  obtain ⟨t, ht⟩ := hv { q with text := k, stack := { e with lastField := k, lastCond := op } :: rest }
    { e with lastField := k, lastCond := op } rest evs' k rfl rfl hk he2 hl
  refine ⟨t, ?_⟩
  rw [ht]
  congr 1
  cases e
  simp_all [condWrap]

end PV.C26
