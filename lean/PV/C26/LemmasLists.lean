/-
C26 — lists of literals and BETWEEN ranges as written values/arguments (C26_literals).
Core Lean only.
-/
import PV.C26.LemmasVals
namespace PV.C26
open Gen

/-! ### Lists -/

def listText (items : List LVal) : List Char := joinWith [','] (items.map (·.text))

def listLit (items : List LVal) : LVal :=
  ⟨'[' :: (listText items ++ [']']), .act .startList :: (items.flatMap (·.evs) ++ [.act .endList]),
    .list (items.map (·.val))⟩

theorem flatMap_sep (xs : List (List Char)) (hne : xs ≠ []) :
    xs.flatMap ([','] ++ ·) = ',' :: joinWith [','] xs := by
  cases xs with
  | nil => exact absurd rfl hne
  | cons y ys => rw [joinWith_cons]; simp

theorem listText_noWs (items : List LVal) (hne : items ≠ []) (hs : ∀ v ∈ items, ∃ kw, v.ISyn kw) (s : List Char) :
    NoWs (listText items ++ s) := by
  cases items with
  | nil => exact absurd rfl hne
  | cons x rest =>
    obtain ⟨kw, hx⟩ := hs x (by simp)
    simp only [listText, List.map_cons]
    rw [joinWith_cons]
    simp only [List.append_assoc]
    exact hx.1 _

/-- `list` on literals joined with ",", up to the closing `]`: the last one must not be a keyword. -/
theorem llist_ok (init : List LVal) (last : LVal) (hs : ∀ v ∈ init, ∃ kw, v.ISyn kw) (hl : last.ISyn false)
    (r : List Char) :
    P (.ref R.list) (listText (init ++ [last]) ++ ']' :: r) (']' :: r) ((init ++ [last]).flatMap (·.evs)) := by
  induction init with
  | nil =>
    apply Parses.ref
    show P e_list _ _ _
    simp only [e_list, seqs]
    have h1 := hl.2 ']' r (Or.inr (Or.inr ⟨rfl, rfl⟩))
    have h2 : P (.opt (.seq (.ref R.comma) (.ref R.list))) (']' :: r) (']' :: r) [] :=
      Parses.opt_none (Fails.seq_left (comma_fails (by simp [NoWs, isWs]) (by simp [NotHead])))
    simpa [listText, joinWith] using Parses.seq h1 h2
  | cons x init' ih =>
    have ihh := ih (fun v hv => hs v (by simp [hv]))
    obtain ⟨kw, hx⟩ := hs x (by simp)
    have hne : (init' ++ [last]) ≠ [] := by simp
    have hnw : NoWs (listText (init' ++ [last]) ++ ']' :: r) :=
      listText_noWs _ hne (by
        intro v hv
        simp only [List.mem_append, List.mem_singleton] at hv
        rcases hv with hv | rfl
        · exact hs v (by simp [hv])
        · exact ⟨false, hl⟩) _
    have h1 := hx.2 ',' (listText (init' ++ [last]) ++ ']' :: r) (Or.inl rfl)
    have h2 := Parses.opt_some (Parses.seq (comma_nosp hnw) ihh)
    have h := Parses.seq h1 h2
    apply Parses.ref
    show P e_list _ _ _
    simp only [e_list, seqs]
    have etext : listText (x :: init' ++ [last]) ++ ']' :: r =
        x.text ++ ',' :: (listText (init' ++ [last]) ++ ']' :: r) := by
      simp only [listText, List.cons_append, List.map_cons]
      rw [joinWith_cons, flatMap_sep _ (by simp)]
      simp
    rw [etext]
    simpa using h

/-- The list alternative of `value` on `[a,b,..]`. -/
theorem listLit_syn (init : List LVal) (last : LVal) (hs : ∀ v ∈ init, ∃ kw, v.ISyn kw) (hl : last.ISyn false) :
    (listLit (init ++ [last])).Syn := by
  have hall : ∀ v ∈ init ++ [last], ∃ kw, v.ISyn kw := by
    intro v hv
    simp only [List.mem_append, List.mem_singleton] at hv
    rcases hv with hv | rfl
    · exact hs v hv
    · exact ⟨false, hl⟩
  refine ⟨fun s => by simp [listLit, NoWs, isWs], fun d r hd => ?_⟩
  have hdws : NoWs (d :: r) := by rcases hd with rfl | rfl <;> simp [NoWs, isWs]
  apply Parses.ref
  show P e_value _ _ _
  simp only [e_value, alts, seqs]
  have etext : (listLit (init ++ [last])).text ++ d :: r = '[' :: (listText (init ++ [last]) ++ ']' :: d :: r) := by
    simp [listLit]
  rw [etext]
  refine Parses.alt_right (item_fails_punct '[' _ (by decide)) ?_
  have hnw : NoWs (listText (init ++ [last]) ++ ']' :: d :: r) := listText_noWs _ (by simp) hall _
  have h1 : P (.ref R.lbrack) ('[' :: (listText (init ++ [last]) ++ ']' :: d :: r))
      (listText (init ++ [last]) ++ ']' :: d :: r) [] := by
    apply Parses.ref
    show P e_lbrack _ _ _
    simp only [e_lbrack, seqs, lit]
    simpa using Parses.seq (Parses.chr '[' _) (sp_nil hnw)
  have h2 := Parses.act (rule := Gen.rule) .startList (listText (init ++ [last]) ++ ']' :: d :: r)
  have h3 := llist_ok init last hs hl (d :: r)
  have h4 : P (.ref R.rbrack) (']' :: d :: r) (d :: r) [] := by
    apply Parses.ref
    show P e_rbrack _ _ _
    simp only [e_rbrack, seqs, lit]
    have a : P (.ref R.sp) (']' :: d :: r) (']' :: d :: r) [] := sp_nil (by simp [NoWs, isWs])
    simpa using Parses.seq a (Parses.seq (Parses.chr ']' (d :: r)) (sp_nil hdws))
  have h5 := Parses.act (rule := Gen.rule) .endList (d :: r)
  simpa [listLit] using Parses.seq h1 (Parses.seq h2 (Parses.seq h3 (Parses.seq h4 h5)))

/-- Executing the elements of a list appends them to the list under the pending key. -/
theorem exec_litems (num : Bool) (items : List LVal) (hsem : ∀ v ∈ items, v.SemL num)
    (k : Key) (hk : k ≠ []) (m0 : List (Key × Val)) (acc : List Val)
    (q : QState) (e : Elem) (rest : List Elem) (evs : List Ev)
    (hq : q.stack = e :: rest) (hin : e.inList = true) (hf : e.lastField = k)
    (hc : num = false → e.lastCond = .ILLEGAL)
    (ha : e.args = insert k (wrapList e.lastCond acc) m0) :
    ∃ t, exec (items.flatMap (·.evs) ++ evs) q =
      exec evs { q with text := t,
                        stack := { e with args := insert k (wrapList e.lastCond (acc ++ items.map (·.val))) m0 } :: rest } := by
  induction items generalizing q e acc with
  | nil =>
    refine ⟨q.text, ?_⟩
    simp only [List.flatMap_nil, List.nil_append, List.map_nil, List.append_nil]
    congr 1
    cases q; cases e; simp_all
  | cons x rest' ih =>
    simp only [List.flatMap_cons, List.append_assoc]
    obtain ⟨t1, h1⟩ := hsem x (by simp) q e rest (rest'.flatMap (·.evs) ++ evs) k m0 acc hq hf hk hin hc ha
    rw [h1]
    obtain ⟨t, ht⟩ := ih (fun y hy => hsem y (by simp [hy])) (acc ++ [x.val])
      { q with text := t1, stack := { e with args := insert k (wrapList e.lastCond (acc ++ [x.val])) m0 } :: rest }
      { e with args := insert k (wrapList e.lastCond (acc ++ [x.val])) m0 } rfl hin hf hc rfl
    refine ⟨t, ?_⟩
    rw [ht]
    simp [List.append_assoc]

/-- Executing `startList items endList` stores the list (or the condition on it) under the pending key. -/
theorem exec_llist (num : Bool) (items : List LVal) (hsem : ∀ v ∈ items, v.SemL num)
    (k : Key) (hk : k ≠ []) (q : QState) (e : Elem) (rest : List Elem) (evs : List Ev)
    (hq : q.stack = e :: rest) (hf : e.lastField = k) (_hin : e.inList = false)
    (hc : num = false → e.lastCond = .ILLEGAL) (hl : lookup k e.args = none) :
    ∃ t, exec (.act .startList :: (items.flatMap (·.evs) ++ (.act .endList :: evs))) q =
      exec evs { q with text := t,
                        stack := { e with args := insert k (wrapList e.lastCond (items.map (·.val))) e.args,
                                          lastField := [], lastCond := .ILLEGAL, inList := false } :: rest } := by
  have hs : stepAct q .startList =
      .ok { q with stack := { e with args := insert k (wrapList e.lastCond []) e.args, inList := true } :: rest } := by
    simp only [stepAct, startList, hq, hf, hl]
    by_cases hc : e.lastCond = .ILLEGAL <;> simp [hc, wrapList]
  rw [exec_act_ok _ hs]
  obtain ⟨t, ht⟩ := exec_litems num items hsem k hk e.args []
    { q with stack := { e with args := insert k (wrapList e.lastCond []) e.args, inList := true } :: rest }
    { e with args := insert k (wrapList e.lastCond []) e.args, inList := true } rest (.act .endList :: evs)
    rfl rfl hf hc rfl
  rw [ht]
  refine ⟨t, ?_⟩
  let e2 : Elem := { e with args := insert k (wrapList e.lastCond ([] ++ items.map (·.val))) e.args, inList := true }
  let e3 : Elem := { e with args := insert k (wrapList e.lastCond (items.map (·.val))) e.args, lastField := [], lastCond := .ILLEGAL, inList := false }
  have he : stepAct { q with text := t, stack := e2 :: rest } .endList = .ok { q with text := t, stack := e3 :: rest } := by
    simp [stepAct, endList, e2, e3]
  exact exec_act_ok evs he

theorem condWrap_list (c : Op) (vs : List Val) : condWrap c (.list vs) = wrapList c vs := by
  simp [condWrap, wrapList]

/-- A list of any literals under `key=`. -/
theorem listLit_sem0 (items : List LVal) (hsem : ∀ v ∈ items, ∃ num, v.SemL num) : (listLit items).Sem0 := by
  intro q e rest evs' k hq hf hk hin hc hl
  have hsem' : ∀ v ∈ items, v.SemL false := by
    intro v hv
    obtain ⟨num, h⟩ := hsem v hv
    intro q e rest evs' k m0 acc hq hf hk hin hc ha
    exact h q e rest evs' k m0 acc hq hf hk hin (fun _ => hc rfl) ha
  obtain ⟨t, ht⟩ := exec_llist false items hsem' k hk q e rest evs' hq hf hin (fun _ => hc) hl
  refine ⟨t, ?_⟩
  simp only [listLit, List.cons_append, List.append_assoc, List.nil_append]
  rw [ht]
  simp [wrapList, hc]

/-- A list of numeric literals, also as the operand of a condition. -/
theorem listLit_sem (items : List LVal) (hsem : ∀ v ∈ items, v.SemL true) : (listLit items).Sem := by
  intro q e rest evs' k hq hf hk hin hl
  obtain ⟨t, ht⟩ := exec_llist true items hsem k hk q e rest evs' hq hf hin (by simp) hl
  refine ⟨t, ?_⟩
  simp only [listLit, List.cons_append, List.append_assoc, List.nil_append]
  rw [ht, condWrap_list]

end PV.C26
