/-
C26 — the flat fragment of C26_forward: the printed arguments `key=value` / `key op value` with
simple values (`SimpleVal`), what the grammar records for them (`evVal`, `parg_ok`) and what the
action machine stores (`exec_arg`), then the flat call (`flat_parses`, `flat_exec`).
(Split from LemmasPql.lean so that the string case can use the timestamp lemmas of LemmasItems.)
Core Lean only.
-/
import PV.C26.LemmasPql
import PV.C26.LemmasItems
import PV.C26.LemmasLists
namespace PV.C26
open Gen

/-- The int64 elements of a list value. -/
def intsOf : List Val → List Int
  | [] => []
  | .int i :: rest => i :: intsOf rest
  | _ :: rest => intsOf rest

theorem intsOf_map (xs : List Int) : intsOf (xs.map Val.int) = xs := by
  induction xs with
  | nil => rfl
  | cons x rest ih => simp [intsOf, ih]

theorem fmtVals_ints (isPrint : Char → Bool) (xs : List Int) :
    fmtVals isPrint (xs.map Val.int) = xs.map intDigits := by
  induction xs with
  | nil => simp [fmtVals]
  | cons x rest ih => simp [fmtVals, fmtVal, ih]

/-- A list value of the fragment: a non-empty list of int64. -/
def IntList (vs : List Val) : Prop :=
  ∃ xs : List Int, vs = xs.map Val.int ∧ xs ≠ [] ∧ ∀ x ∈ xs, minInt64 ≤ x ∧ x ≤ maxInt64

/-! ### List elements of the forward fragment: int64, string, bool, nil -/

/-- A scalar that may stand in a forwarded list (`TopN(.., attrValues=["a","b"])`, id lists as
`[]interface{}`). -/
def FwdScalar : Val → Prop
  | .int i => minInt64 ≤ i ∧ i ≤ maxInt64
  | .str bs => ∀ b ∈ bs, b < 256
  | .bool _ => True
  | .null => True
  | _ => False

def isKwVal : Val → Bool
  | .null => true
  | .bool _ => true
  | _ => false

def isIntVal : Val → Bool
  | .int _ => true
  | _ => false

/-- The printed scalar as a written value. -/
def fwdLVal (isPrint : Char → Bool) : Val → LVal
  | .int i => ⟨intDigits i, [.text (intDigits i), .act .addNumVal], .int i⟩
  | .str bs => ⟨quote isPrint bs,
      if tsShape (quoteBody isPrint bs) then [.text (quoteBody isPrint bs), .act (.addVal .text)]
      else [.text (quote isPrint bs), .act .addQuotedVal], .str bs⟩
  | .bool b => ⟨(if b then cl!"true" else cl!"false"), [.act (.addVal (.bool b))], .bool b⟩
  | .null => ⟨cl!"null", [.act (.addVal .null)], .null⟩
  | _ => ⟨[], [], .null⟩

theorem fwdLVal_item (isPrint : Char → Bool) (hnl : isPrint '\n' = false) (v : Val) (h : FwdScalar v) :
    (fwdLVal isPrint v).Item (isKwVal v) (isIntVal v) := by
  cases v with
  | int i =>
    exact ⟨⟨intDigits_noWs i, fun d r hd => item_intDigits i d r (delim3 hd)⟩,
      sem_num _ _ (numVal_intDigits i h.1 h.2), semL_num _ _ (numVal_intDigits i h.1 h.2)⟩
  | null => exact nullLit_item
  | bool b => exact boolLit_item b
  | str bs =>
    have hun := unquote_quote isPrint hnl bs h
    have hun' : unquote ('"' :: (quoteBody isPrint bs ++ ['"'])) = some bs := by simpa [quote] using hun
    have hdq := dqOk_quoteBody isPrint bs
    cases hsh : tsShape (quoteBody isPrint bs) with
    | true =>
      have hval : utf8s (quoteBody isPrint bs) = bs := by
        have h2 := unquote_plain _ (tsShape_plain _ hsh)
        rw [hun'] at h2
        exact (Option.some.inj h2).symm
      have e : fwdLVal isPrint (.str bs) = ⟨'"' :: (quoteBody isPrint bs ++ ['"']),
          [.text (quoteBody isPrint bs), .act (.addVal .text)], .str (utf8s (quoteBody isPrint bs))⟩ := by
        simp [fwdLVal, hsh, hval, quote]
      rw [e]
      refine ⟨⟨fun s => by simp [NoWs, isWs], fun d r _ => ?_⟩, sem_textVal _ _, semL_textVal _ _⟩
      rcases item_dq_ok' (quoteBody isPrint bs) (d :: r) hdq with ⟨h1, _⟩ | ⟨_, h2⟩
      · rw [hsh] at h1; exact absurd h1 (by simp)
      · simpa using h2
    | false =>
      have e : fwdLVal isPrint (.str bs) = ⟨'"' :: (quoteBody isPrint bs ++ ['"']),
          [.text ('"' :: (quoteBody isPrint bs ++ ['"'])), .act .addQuotedVal], .str bs⟩ := by
        simp [fwdLVal, hsh, quote]
      rw [e]
      refine ⟨⟨fun s => by simp [NoWs, isWs], fun d r _ => ?_⟩, sem_quoted _ _ hun', semL_quoted _ _ hun'⟩
      rcases item_dq_ok' (quoteBody isPrint bs) (d :: r) hdq with ⟨_, h1⟩ | ⟨h2, _⟩
      · simpa using h1
      · rw [hsh] at h2; exact absurd h2 (by simp)
  | _ => exact absurd h (by simp [FwdScalar])

theorem fwdLVal_text (isPrint : Char → Bool) (v : Val) (h : FwdScalar v) :
    (fwdLVal isPrint v).text = fmtVal isPrint v := by
  cases v with
  | bool b => cases b <;> rfl
  | int i => rfl
  | null => rfl
  | str bs => rfl
  | _ => exact absurd h (by simp [FwdScalar])

theorem fwdLVal_val (isPrint : Char → Bool) (v : Val) (h : FwdScalar v) : (fwdLVal isPrint v).val = v := by
  cases v <;> first | rfl | exact absurd h (by simp [FwdScalar])

theorem fmtVals_map (isPrint : Char → Bool) (vs : List Val) : fmtVals isPrint vs = vs.map (fmtVal isPrint) := by
  induction vs with
  | nil => simp [fmtVals]
  | cons v rest ih => simp [fmtVals, ih]

/-- A forwarded list: scalars, the last one not `null`/`true`/`false` (`list-last-keyword`). -/
def FwdList (vs : List Val) : Prop :=
  ∃ init last, vs = init ++ [last] ∧ (∀ v ∈ init, FwdScalar v) ∧ FwdScalar last ∧ isKwVal last = false

theorem fwdList_facts (isPrint : Char → Bool) (hnl : isPrint '\n' = false) (init : List Val) (last : Val)
    (h1 : ∀ v ∈ init, FwdScalar v) (h2 : FwdScalar last) (h3 : isKwVal last = false) :
    let items := (init ++ [last]).map (fwdLVal isPrint)
    (listLit items).Syn ∧ (listLit items).Sem0 ∧
      (listLit items).text = fmtVal isPrint (.list (init ++ [last])) ∧ (listLit items).val = .list (init ++ [last]) := by
  have hall : ∀ v ∈ init ++ [last], FwdScalar v := by
    intro v hv
    simp only [List.mem_append, List.mem_singleton] at hv
    rcases hv with hv | rfl
    · exact h1 v hv
    · exact h2
  intro items
  have hitems : items = init.map (fwdLVal isPrint) ++ [fwdLVal isPrint last] := by simp [items]
  refine ⟨?_, ?_, ?_, ?_⟩
  · rw [hitems]
    refine listLit_syn _ _ ?_ ?_
    · intro v hv
      simp only [List.mem_map] at hv
      obtain ⟨x, hx, rfl⟩ := hv
      exact ⟨_, (fwdLVal_item isPrint hnl x (h1 x hx)).isyn⟩
    · have := (fwdLVal_item isPrint hnl last h2).isyn
      rw [h3] at this; exact this
  · refine listLit_sem0 _ ?_
    intro v hv
    simp only [items, List.mem_map] at hv
    obtain ⟨x, hx, rfl⟩ := hv
    exact ⟨_, (fwdLVal_item isPrint hnl x (hall x hx)).semL⟩
  · have e : items.map (·.text) = (init ++ [last]).map (fmtVal isPrint) := by
      simp only [items, List.map_map]
      exact List.map_congr_left (fun x hx => fwdLVal_text isPrint x (hall x hx))
    simp [listLit, listText, e, fmtVal, fmtVals_map]
  · have e : items.map (·.val) = init ++ [last] := by
      simp only [items, List.map_map]
      have : (init ++ [last]).map ((fun x => x.val) ∘ fwdLVal isPrint) = (init ++ [last]).map id :=
        List.map_congr_left (fun x hx => fwdLVal_val isPrint x (hall x hx))
      rw [this]; simp
    simp [listLit, e]

/-! ### Floats: `normDec (formatFloat t) = t` for canonical decimal text -/

theorem takeWhile_digits_dot (ip rest : List Char) (h : ∀ c ∈ ip, isDigit c = true) :
    (ip ++ '.' :: rest).takeWhile (· ≠ '.') = ip := by
  induction ip with
  | nil => simp
  | cons c cs ih =>
    have hc : c ≠ '.' := by intro e; subst e; simp [isDigit] at h
    have := ih (fun x hx => h x (by simp [hx]))
    simp only [List.cons_append, List.takeWhile_cons, hc, ne_eq, not_false_eq_true, decide_true, if_true, this]

theorem dropWhile_digits_dot (ip rest : List Char) (h : ∀ c ∈ ip, isDigit c = true) :
    (ip ++ '.' :: rest).dropWhile (· ≠ '.') = '.' :: rest := by
  induction ip with
  | nil => simp
  | cons c cs ih =>
    have hc : c ≠ '.' := by intro e; subst e; simp [isDigit] at h
    have := ih (fun x hx => h x (by simp [hx]))
    simp only [List.cons_append, List.dropWhile_cons, hc, ne_eq, not_false_eq_true, decide_true, if_true, this]

theorem stripLeading_ne (c : Char) (cs : List Char) (hc : c ≠ '0') : stripLeadingZeros (c :: cs) = c :: cs := by
  rw [stripLeadingZeros]
  intro cs' e; exact hc (by cases e; rfl)

theorem stripTrailing_id (fp : List Char) (h : ∀ t, fp ≠ t ++ ['0']) : stripTrailingZeros fp = fp := by
  simp only [stripTrailingZeros]
  have : stripLeadingZeros fp.reverse = fp.reverse := by
    cases hr : fp.reverse with
    | nil => rfl
    | cons c cs =>
      have hc : c ≠ '0' := by
        intro e; subst e
        have : fp = cs.reverse ++ ['0'] := by
          have := congrArg List.reverse hr; simpa using this
        exact h _ this
      exact stripLeading_ne c cs hc
  rw [this, List.reverse_reverse]

/-- `normDec` after the sign has been split off. -/
def normBody (neg : Bool) (body : List Char) : List Char :=
  let ip := body.takeWhile (· ≠ '.')
  let fp := (body.dropWhile (· ≠ '.')).drop 1
  let ip' := match stripLeadingZeros ip with
    | [] => ['0']
    | r => r
  let fp' := stripTrailingZeros fp
  (if neg then ['-'] else []) ++ ip' ++ (if fp' = [] then [] else '.' :: fp')

theorem normDec_neg (r : List Char) : normDec ('-' :: r) = normBody true r := rfl

theorem normDec_pos (c : Char) (r : List Char) (hc : c ≠ '-') : normDec (c :: r) = normBody false (c :: r) := by
  rw [normDec]
  · rfl
  · intro r' e; exact hc (by cases e; rfl)

theorem normBody_float (neg : Bool) (ip fp : List Char) (hip : ∀ c ∈ ip, isDigit c = true) (hne : ip ≠ [])
    (hlead : ip = ['0'] ∨ ∀ t, ip ≠ '0' :: t) (hfp : fp = ['0'] ∨ ∀ t, fp ≠ t ++ ['0']) :
    normBody neg (ip ++ '.' :: fp) =
      signText neg ++ ip ++ (if fp = ['0'] then [] else if fp = [] then [] else '.' :: fp) := by
  have hfp' : (if stripTrailingZeros fp = [] then [] else '.' :: stripTrailingZeros fp) =
      (if fp = ['0'] then [] else if fp = [] then ([] : List Char) else '.' :: fp) := by
    rcases hfp with rfl | hfp
    · simp [stripTrailingZeros, stripLeadingZeros]
    · rw [stripTrailing_id fp hfp]
      have : fp ≠ ['0'] := fun e => hfp [] (by simpa using e)
      simp [this]
  have hstrip : (match stripLeadingZeros ip with | [] => ['0'] | r => r) = ip := by
    cases ip with
    | nil => exact absurd rfl hne
    | cons c cs =>
      by_cases hc0 : c = '0'
      · rcases hlead with h | h
        · simp only [List.cons.injEq] at h
          obtain ⟨rfl, rfl⟩ := h
          rfl
        · exact absurd (by rw [hc0]) (h cs)
      · rw [stripLeading_ne c cs hc0]
  simp only [normBody, takeWhile_digits_dot ip fp hip, dropWhile_digits_dot ip fp hip, List.drop_succ_cons,
    List.drop_zero, hstrip, hfp', signText]

/-- The canonical decimal text of a float64 (the representation of `Val.float`; what `normDec` yields):
an optional `-`, an integer part without a redundant leading zero, and a fraction without a trailing
zero, absent when it is zero. -/
def CanonFloat (t : List Char) : Prop :=
  ∃ neg ip fp, t = signText neg ++ ip ++ (if fp = [] then [] else '.' :: fp) ∧ ip ≠ [] ∧
    (∀ c ∈ ip, isDigit c = true) ∧ (∀ c ∈ fp, isDigit c = true) ∧
    (ip = ['0'] ∨ ∀ u, ip ≠ '0' :: u) ∧ (∀ u, fp ≠ u ++ ['0'])

/-- `formatFloat` prints a canonical float as `-?d+.d+` (the first numeric alternative of `item`), and
the parser's `ParseFloat` (= `normDec` on the text) gives the same float back. -/
theorem float_roundtrip (t : List Char) (h : CanonFloat t) :
    ∃ neg ip fp', fmtFloat t = floatText neg ip fp' ∧ ip ≠ [] ∧ (∀ c ∈ ip, isDigit c = true) ∧
      (∀ c ∈ fp', isDigit c = true) ∧ normDec (fmtFloat t) = t := by
  obtain ⟨neg, ip, fp, rfl, hne, hip, hfp, hlead, htrail⟩ := h
  by_cases hf : fp = []
  · subst hf
    have hfmt : fmtFloat (signText neg ++ ip ++ (if ([] : List Char) = [] then [] else '.' :: [])) =
        floatText neg ip ['0'] := by
      have hm := signed_no_dot neg ip hip
      simp only [List.mem_append, not_or] at hm
      simp [fmtFloat, hm.1, hm.2, floatText]
    refine ⟨neg, ip, ['0'], hfmt, hne, hip, by simp [isDigit], ?_⟩
    rw [hfmt]
    have hb := normBody_float neg ip ['0'] hip hne hlead (Or.inl rfl)
    cases neg with
    | true =>
      have : floatText true ip ['0'] = '-' :: (ip ++ '.' :: ['0']) := by simp [floatText, signText]
      rw [this, normDec_neg, hb]; simp [signText]
    | false =>
      cases ip with
      | nil => exact absurd rfl hne
      | cons c cs =>
        have hc : c ≠ '-' := isDigit_ne_minus c (hip c (by simp))
        have : floatText false (c :: cs) ['0'] = c :: (cs ++ '.' :: ['0']) := by simp [floatText, signText]
        rw [this, normDec_pos c _ hc]
        have hb' : normBody false (c :: (cs ++ '.' :: ['0'])) = _ := hb
        rw [hb']; simp [signText]
  · have hfmt : fmtFloat (signText neg ++ ip ++ (if fp = [] then [] else '.' :: fp)) = floatText neg ip fp := by
      simp [fmtFloat, hf, floatText]
    refine ⟨neg, ip, fp, hfmt, hne, hip, hfp, ?_⟩
    rw [hfmt]
    have hn0 : fp ≠ ['0'] := fun e => htrail [] (by simpa using e)
    have hb := normBody_float neg ip fp hip hne hlead (Or.inr htrail)
    cases neg with
    | true =>
      have : floatText true ip fp = '-' :: (ip ++ '.' :: fp) := by simp [floatText, signText]
      rw [this, normDec_neg, hb]; simp [signText, hf, hn0]
    | false =>
      cases ip with
      | nil => exact absurd rfl hne
      | cons c cs =>
        have hc : c ≠ '-' := isDigit_ne_minus c (hip c (by simp))
        have : floatText false (c :: cs) fp = c :: (cs ++ '.' :: fp) := by simp [floatText, signText]
        rw [this, normDec_pos c _ hc]
        have hb' : normBody false (c :: (cs ++ '.' :: fp)) = _ := hb
        rw [hb']; simp [signText, hf, hn0]

set_option linter.unusedVariables false in
/-- The values of the flat fragment proved so far: int64, float64 (canonical decimal text), nil, bool, ANY byte string (a string whose
quoted form is exactly a timestamp is read by the timestamp alternative of `item`, with the same
value: `evVal`), non-empty lists of int64, and a comparison (`== != < <= > >= ><`) with an int64 or
with a list of int64.  (`isPrint` is kept as a parameter for the callers.) -/
def SimpleVal (isPrint : Char → Bool) : Val → Prop
  | .int i => minInt64 ≤ i ∧ i ≤ maxInt64
  | .null => True
  | .bool _ => True
  | .str bs => ∀ b ∈ bs, b < 256
  | .cond op (.int i) => op ∈ cmpOps ∧ minInt64 ≤ i ∧ i ≤ maxInt64
  | .list vs => FwdList vs
  | .float t => CanonFloat t
  | .cond op (.list vs) => op ∈ cmpOps ∧ IntList vs
  | _ => False

/-- The events the grammar records for a printed value. -/
def evVal (isPrint : Char → Bool) : Val → List Ev
  | .int i => [.text (intDigits i), .act .addNumVal]
  | .null => [.act (.addVal .null)]
  | .bool b => [.act (.addVal (.bool b))]
  | .str bs =>
    if tsShape (quoteBody isPrint bs) then [.text (quoteBody isPrint bs), .act (.addVal .text)]
    else [.text (quote isPrint bs), .act .addQuotedVal]
  | .cond op (.int i) => [.act (.setCond op), .text (intDigits i), .act .addNumVal]
  | .list vs => (listLit (vs.map (fwdLVal isPrint))).evs
  | .float t => [.text (fmtFloat t), .act .addNumVal]
  | .cond op (.list vs) => .act (.setCond op) :: .act .startList :: ((intsOf vs).flatMap evIntItem ++ [.act .endList])
  | _ => []

def evArg (isPrint : Char → Bool) (kv : Key × Val) : List Ev :=
  [.text kv.1, .act (.addField .text)] ++ evVal isPrint kv.2

/-- Executing the events of `key=value` stores the value under the key. -/
theorem exec_arg (isPrint : Char → Bool) (hnl : isPrint '\n' = false) (k : Key) (v : Val)
    (hv : SimpleVal isPrint v) (hk : k ≠ [])
    (q : QState) (e : Elem) (rest : List Elem) (evs : List Ev)
    (hq : q.stack = e :: rest) (he : ArgState e) (hl : lookup k e.args = none) :
    ∃ t, exec (evArg isPrint (k, v) ++ evs) q =
      exec evs { q with text := t, stack := { e with args := insert k v e.args } :: rest } := by
  obtain ⟨he1, he2, he3⟩ := he
  simp only [evArg, List.cons_append, List.nil_append]
  rw [exec_field k q e rest _ hq he1]
  cases v with
  | int i =>
    refine ⟨intDigits i, ?_⟩
    simp only [evVal, List.cons_append, List.nil_append]
    rw [exec_text]
    have hs : stepAct { q with text := intDigits i, stack := { e with lastField := k } :: rest } .addNumVal =
        .ok { q with text := intDigits i, stack := { e with args := insert k (.int i) e.args } :: rest } := by
      cases e
      simp_all [stepAct, addNumVal, numVal_intDigits i hv.1 hv.2, bind, Except.bind]
    exact exec_act_ok evs hs
  | null =>
    refine ⟨k, ?_⟩
    simp only [evVal, List.cons_append, List.nil_append]
    have hs : stepAct { q with text := k, stack := { e with lastField := k } :: rest } (.addVal .null) =
        .ok { q with text := k, stack := { e with args := insert k .null e.args } :: rest } := by
      cases e
      simp_all [stepAct, addVal]
    exact exec_act_ok evs hs
  | bool b =>
    refine ⟨k, ?_⟩
    simp only [evVal, List.cons_append, List.nil_append]
    have hs : stepAct { q with text := k, stack := { e with lastField := k } :: rest } (.addVal (.bool b)) =
        .ok { q with text := k, stack := { e with args := insert k (.bool b) e.args } :: rest } := by
      cases e
      simp_all [stepAct, addVal]
    exact exec_act_ok evs hs
  | str bs =>
    have hun := unquote_quote isPrint hnl bs hv
    cases hsh : tsShape (quoteBody isPrint bs) with
    | true =>
      have hval : utf8s (quoteBody isPrint bs) = bs := by
        have h2 := unquote_plain _ (tsShape_plain _ hsh)
        have h3 : unquote ('"' :: (quoteBody isPrint bs ++ ['"'])) = some bs := by simpa [quote] using hun
        rw [h3] at h2
        exact (Option.some.inj h2).symm
      clear hun
      refine ⟨quoteBody isPrint bs, ?_⟩
      simp only [evVal, hsh, if_true, List.cons_append, List.nil_append]
      rw [exec_text]
      have hs : stepAct { q with text := quoteBody isPrint bs, stack := { e with lastField := k } :: rest } (.addVal .text) =
          .ok { q with text := quoteBody isPrint bs, stack := { e with args := insert k (.str bs) e.args } :: rest } := by
        cases e
        simp_all [stepAct, addVal]
      exact exec_act_ok evs hs
    | false =>
      refine ⟨quote isPrint bs, ?_⟩
      simp only [evVal, hsh, Bool.false_eq_true, if_false, List.cons_append, List.nil_append]
      rw [exec_text]
      have hs : stepAct { q with text := quote isPrint bs, stack := { e with lastField := k } :: rest } .addQuotedVal =
          .ok { q with text := quote isPrint bs, stack := { e with args := insert k (.str bs) e.args } :: rest } := by
        cases e
        simp_all [stepAct, addVal]
      exact exec_act_ok evs hs
  | uint n => exact absurd hv (by simp [SimpleVal])
  | float t =>
    obtain ⟨neg, ip, fp', hfmt, _, _, _, hnorm⟩ := float_roundtrip t hv
    have hnum : numVal (fmtFloat t) = .ok (.float t) := by
      have := numVal_float neg ip fp'
      rw [← hfmt, hnorm] at this; exact this
    refine ⟨fmtFloat t, ?_⟩
    simp only [evVal, List.cons_append, List.nil_append]
    rw [exec_text]
    have hs : stepAct { q with text := fmtFloat t, stack := { e with lastField := k } :: rest } .addNumVal =
        .ok { q with text := fmtFloat t, stack := { e with args := insert k (.float t) e.args } :: rest } := by
      cases e
      simp_all [stepAct, addNumVal, bind, Except.bind]
    exact exec_act_ok evs hs
  | list vs =>
    obtain ⟨init, last, rfl, h1, h2, h3⟩ := hv
    obtain ⟨_, hsem, _, hval⟩ := fwdList_facts isPrint hnl init last h1 h2 h3
    simp only [evVal]
    obtain ⟨t, ht⟩ := hsem { q with text := k, stack := { e with lastField := k } :: rest }
      { e with lastField := k } rest evs k rfl rfl hk he2 he3 hl
    refine ⟨t, ?_⟩
    rw [ht, hval]
    congr 1
    cases e
    simp_all
  | ints xs => exact absurd hv (by simp [SimpleVal])
  | uints xs => exact absurd hv (by simp [SimpleVal])
  | cond op w =>
    cases w with
    | int i =>
      obtain ⟨hop, h1, h2⟩ := hv
      have hne : op ≠ .ILLEGAL := by
        intro e; subst e; simp [cmpOps] at hop
      refine ⟨intDigits i, ?_⟩
      simp only [evVal, List.cons_append, List.nil_append]
      have hs1 : stepAct { q with text := k, stack := { e with lastField := k } :: rest } (.setCond op) =
          .ok { q with text := k, stack := { e with lastField := k, lastCond := op } :: rest } := by
        simp [stepAct, setCond]
      rw [exec_act_ok _ hs1, exec_text]
      have hs : stepAct { q with text := intDigits i, stack := { e with lastField := k, lastCond := op } :: rest } .addNumVal =
          .ok { q with text := intDigits i, stack := { e with args := insert k (.cond op (.int i)) e.args } :: rest } := by
        cases e
        simp_all [stepAct, addNumVal, numVal_intDigits i h1 h2, bind, Except.bind]
      exact exec_act_ok evs hs
    | null => exact absurd hv (by simp [SimpleVal])
    | bool b => exact absurd hv (by simp [SimpleVal])
    | uint n => exact absurd hv (by simp [SimpleVal])
    | float t => exact absurd hv (by simp [SimpleVal])
    | str bs => exact absurd hv (by simp [SimpleVal])
    | list vs =>
      obtain ⟨hop, xs, rfl, hxne, hxr⟩ := hv
      have hne : op ≠ .ILLEGAL := by
        intro e'; subst e'; simp [cmpOps] at hop
      simp only [evVal, intsOf_map, List.cons_append, List.append_assoc, List.nil_append]
      have hs1 : stepAct { q with text := k, stack := { e with lastField := k } :: rest } (.setCond op) =
          .ok { q with text := k, stack := { e with lastField := k, lastCond := op } :: rest } := by
        simp [stepAct, setCond]
      rw [exec_act_ok _ hs1]
      obtain ⟨t, ht⟩ := exec_list xs hxr k hk
        { q with text := k, stack := { e with lastField := k, lastCond := op } :: rest }
        { e with lastField := k, lastCond := op } rest evs rfl rfl he2 hl
      refine ⟨t, ?_⟩
      rw [ht]
      congr 1
      cases e
      simp_all [wrapList]
    | ints xs => exact absurd hv (by simp [SimpleVal])
    | uints xs => exact absurd hv (by simp [SimpleVal])
    | cond op2 v2 => exact absurd hv (by simp [SimpleVal])
    | call c => exact absurd hv (by simp [SimpleVal])
  | call c => exact absurd hv (by simp [SimpleVal])


theorem ltKey_irrefl (k : Key) : ltKey k k = false := by
  induction k with
  | nil => rfl
  | cons c cs ih => simp [ltKey, ih, Char.lt_irrefl]

theorem ltKey_asymm (a b : Key) (h : ltKey a b = true) : ltKey b a = false := by
  induction a generalizing b with
  | nil => cases b <;> simp [ltKey] at h ⊢
  | cons x xs ih =>
    cases b with
    | nil => simp [ltKey] at h
    | cons y ys =>
      simp only [ltKey, Bool.or_eq_true, decide_eq_true_eq, Bool.and_eq_true] at h
      simp only [ltKey, Bool.or_eq_false_iff, decide_eq_false_iff_not, Bool.and_eq_false_iff]
      rcases h with h | ⟨rfl, h⟩
      · exact ⟨Char.lt_asymm h, Or.inl (fun e => by subst e; exact Char.lt_irrefl _ h)⟩
      · exact ⟨Char.lt_irrefl _, Or.inr (ih ys h)⟩

theorem ltKey_ne (a b : Key) (h : ltKey a b = true) : a ≠ b := by
  intro e; subst e; rw [ltKey_irrefl] at h; exact absurd h (by simp)

/-- Inserting a key greater than every key of the map appends it. -/
theorem insert_append (k : Key) (v : Val) (m : List (Key × Val))
    (h : ∀ p ∈ m, ltKey p.1 k = true) : insert k v m = m ++ [(k, v)] := by
  induction m with
  | nil => rfl
  | cons p rest ih =>
    obtain ⟨k0, v0⟩ := p
    have h0 : ltKey k0 k = true := h (k0, v0) (by simp)
    have hne : k0 ≠ k := ltKey_ne _ _ h0
    have hlt : ltKey k k0 = false := ltKey_asymm _ _ h0
    simp only [insert, hne, hlt, if_false, Bool.false_eq_true, List.cons_append]
    rw [ih (fun p hp => h p (by simp [hp]))]

/-- Keys strictly increasing (what `Call.String` prints and what a Go map holds: distinct keys). -/
def SortedKeys : List (Key × Val) → Prop
  | [] => True
  | [_] => True
  | a :: b :: rest => ltKey a.1 b.1 = true ∧ SortedKeys (b :: rest)

theorem ltKey_trans (a b c : Key) (h1 : ltKey a b = true) (h2 : ltKey b c = true) : ltKey a c = true := by
  induction a generalizing b c with
  | nil =>
    cases c with
    | nil => cases b <;> simp [ltKey] at h1 h2
    | cons z zs => rfl
  | cons x xs ih =>
    cases b with
    | nil => simp [ltKey] at h1
    | cons y ys =>
      cases c with
      | nil => simp [ltKey] at h2
      | cons z zs =>
        simp only [ltKey, Bool.or_eq_true, decide_eq_true_eq, Bool.and_eq_true] at h1 h2 ⊢
        rcases h1 with h1 | ⟨rfl, h1⟩
        · rcases h2 with h2 | ⟨rfl, h2⟩
          · exact Or.inl (Char.lt_trans h1 h2)
          · exact Or.inl h1
        · rcases h2 with h2 | ⟨rfl, h2⟩
          · exact Or.inl h2
          · exact Or.inr ⟨rfl, ih ys zs h1 h2⟩

theorem sorted_head_lt (a : Key × Val) (rest : List (Key × Val)) (h : SortedKeys (a :: rest)) :
    ∀ p ∈ rest, ltKey a.1 p.1 = true := by
  induction rest generalizing a with
  | nil => simp
  | cons b rest' ih =>
    obtain ⟨h1, h2⟩ := h
    intro p hp
    simp only [List.mem_cons] at hp
    rcases hp with rfl | hp
    · exact h1
    · exact ltKey_trans _ _ _ h1 (ih b h2 p hp)

theorem sorted_tail (a : Key × Val) (rest : List (Key × Val)) (h : SortedKeys (a :: rest)) : SortedKeys rest := by
  cases rest with
  | nil => trivial
  | cons b r => exact h.2

/-- Building the map from strictly sorted entries gives the entries back. -/
theorem foldl_insert_sorted (as acc : List (Key × Val)) (hs : SortedKeys as)
    (hacc : ∀ p ∈ acc, ∀ a ∈ as, ltKey p.1 a.1 = true) :
    as.foldl (fun m kv => insert kv.1 kv.2 m) acc = acc ++ as := by
  induction as generalizing acc with
  | nil => simp
  | cons a rest ih =>
    simp only [List.foldl_cons]
    rw [insert_append a.1 a.2 acc (fun p hp => hacc p hp a (by simp))]
    rw [ih (acc ++ [(a.1, a.2)]) (sorted_tail a rest hs)]
    · simp
    · intro p hp b hb
      simp only [List.mem_append, List.mem_singleton] at hp
      rcases hp with hp | rfl
      · exact hacc p hp b (by simp [hb])
      · exact sorted_head_lt a rest hs b hb


theorem fieldName_ne_nil {k : Key} (h : FieldName k) : k ≠ [] := by
  obtain ⟨c, cs, rfl, _, _⟩ := h; simp

/-- Executing the events of all arguments builds the argument map. -/
theorem exec_args (isPrint : Char → Bool) (hnl : isPrint '\n' = false) (as : List (Key × Val))
    (hv : ∀ kv ∈ as, KeyName kv.1 ∧ SimpleVal isPrint kv.2) (hs : SortedKeys as)
    (q : QState) (e : Elem) (rest : List Elem) (evs : List Ev)
    (hq : q.stack = e :: rest) (he : ArgState e) (hl : ∀ kv ∈ as, lookup kv.1 e.args = none) :
    ∃ t, exec (as.flatMap (evArg isPrint) ++ evs) q =
      exec evs { q with text := t,
                        stack := { e with args := as.foldl (fun m kv => insert kv.1 kv.2 m) e.args } :: rest } := by
  induction as generalizing q e with
  | nil =>
    refine ⟨q.text, ?_⟩
    simp only [List.flatMap_nil, List.nil_append, List.foldl_nil]
    congr 1
    cases q; cases e; simp_all
  | cons a rest' ih =>
    obtain ⟨k, v⟩ := a
    obtain ⟨hk, hsv⟩ := hv (k, v) (by simp)
    obtain ⟨t1, h1⟩ := exec_arg isPrint hnl k v hsv (KeyName.ne_nil hk) q e rest
      (rest'.flatMap (evArg isPrint) ++ evs) hq he (hl (k, v) (by simp))
    simp only [List.flatMap_cons, List.append_assoc]
    rw [h1]
    have hlt := sorted_head_lt (k, v) rest' hs
    obtain ⟨t2, h2⟩ := ih (fun kv hkv => hv kv (by simp [hkv])) (sorted_tail _ _ hs)
      { q with text := t1, stack := { e with args := insert k v e.args } :: rest }
      { e with args := insert k v e.args } rfl he
      (fun kv hkv => by
        have hne : kv.1 ≠ k := fun e' => by
          have := hlt kv hkv
          rw [e', ltKey_irrefl] at this; exact absurd this (by simp)
        simp only [lookup_insert, hne, if_false]
        exact hl kv (by simp [hkv]))
    exact ⟨t2, h2⟩


/-- One argument's events store its value under its key (the step `exec_args_gen` iterates). -/
def ArgStep (ev : Key × Val → List Ev) (kv : Key × Val) : Prop :=
  ∀ (q : QState) (e : Elem) (rest : List Elem) (evs : List Ev),
    q.stack = e :: rest → ArgState e → lookup kv.1 e.args = none →
    ∃ t, exec (ev kv ++ evs) q =
      exec evs { q with text := t, stack := { e with args := insert kv.1 kv.2 e.args } :: rest }

/-- `exec_args` for any per-argument event function. -/
theorem exec_args_gen (ev : Key × Val → List Ev) (as : List (Key × Val))
    (hv : ∀ kv ∈ as, ArgStep ev kv) (hs : SortedKeys as)
    (q : QState) (e : Elem) (rest : List Elem) (evs : List Ev)
    (hq : q.stack = e :: rest) (he : ArgState e) (hl : ∀ kv ∈ as, lookup kv.1 e.args = none) :
    ∃ t, exec (as.flatMap ev ++ evs) q =
      exec evs { q with text := t,
                        stack := { e with args := as.foldl (fun m kv => insert kv.1 kv.2 m) e.args } :: rest } := by
  induction as generalizing q e with
  | nil =>
    refine ⟨q.text, ?_⟩
    simp only [List.flatMap_nil, List.nil_append, List.foldl_nil]
    congr 1
    cases q; cases e; simp_all
  | cons a rest' ih =>
    obtain ⟨k, v⟩ := a
    obtain ⟨t1, h1⟩ := hv (k, v) (by simp) q e rest (rest'.flatMap ev ++ evs) hq he (hl (k, v) (by simp))
    simp only [List.flatMap_cons, List.append_assoc]
    rw [h1]
    have hlt := sorted_head_lt (k, v) rest' hs
    obtain ⟨t2, h2⟩ := ih (fun kv hkv => hv kv (by simp [hkv])) (sorted_tail _ _ hs)
      { q with text := t1, stack := { e with args := insert k v e.args } :: rest }
      { e with args := insert k v e.args } rfl he
      (fun kv hkv => by
        have hne : kv.1 ≠ k := fun e' => by
          have := hlt kv hkv
          rw [e', ltKey_irrefl] at this; exact absurd this (by simp)
        simp only [lookup_insert, hne, if_false]
        exact hl kv (by simp [hkv]))
    exact ⟨t2, h2⟩

/-- `key=value` as `Call.String` prints it. -/
def argText (isPrint : Char → Bool) (kv : Key × Val) : List Char :=
  match kv.2 with
  | .cond op v => kv.1 ++ ' ' :: (opText op ++ ' ' :: fmtVal isPrint v)
  | v => kv.1 ++ '=' :: fmtVal isPrint v

theorem argText_head (isPrint : Char → Bool) (kv : Key × Val) :
    ∃ x rest, argText isPrint kv = kv.1 ++ x :: rest ∧ (x = '=' ∨ x = ' ') := by
  obtain ⟨k, v⟩ := kv
  cases v <;> simp [argText]

theorem firstKey_of_arg (isPrint : Char → Bool) (kv : Key × Val) (s : List Char) (hk : KeyName kv.1)
    (hv : SimpleVal isPrint kv.2) : FirstKey (argText isPrint kv ++ s) := by
  obtain ⟨k, v⟩ := kv
  have heq : ∀ tl : List Char, FirstKey (k ++ '=' :: tl) := fun tl =>
    ⟨k, '=', tl, rfl, hk, by decide, by decide, comma_fails (by simp [NoWs, isWs]) (by simp [NotHead])⟩
  have hcond : ∀ op, op ∈ cmpOps → ∀ tl : List Char, FirstKey (k ++ ' ' :: (opText op ++ tl)) := by
    intro op hop tl
    obtain ⟨c, t, hct, hcws, _⟩ := opText_head op hop
    have hcc : c ≠ ',' := by
      simp only [cmpOps, List.mem_cons, List.not_mem_nil, or_false] at hop
      rcases hop with rfl | rfl | rfl | rfl | rfl | rfl | rfl <;> (simp [opText] at hct; rw [← hct.1]; decide)
    refine ⟨k, ' ', opText op ++ tl, rfl, hk, by decide, by decide, ?_⟩
    rw [hct]
    exact comma_fails_sp (by simpa [NoWs] using hcws) (by simpa [NotHead] using hcc)
  cases v with
  | cond op v' =>
    have hop : op ∈ cmpOps := by
      cases v' <;> simp [SimpleVal] at hv <;> first | exact hv.1 | exact hv
    simpa [argText, List.append_assoc] using hcond op hop (' ' :: fmtVal isPrint v' ++ s)
  | _ => simpa [argText, List.append_assoc] using heq _

theorem fmtArgs_simple (isPrint : Char → Bool) (as : List (Key × Val))
    (h : ∀ kv ∈ as, SimpleVal isPrint kv.2) : fmtArgs isPrint as = as.map (argText isPrint) := by
  induction as with
  | nil => simp [fmtArgs]
  | cons a rest ih =>
    obtain ⟨k, v⟩ := a
    have hv := h (k, v) (by simp)
    have ih' := ih (fun kv hkv => h kv (by simp [hkv]))
    cases v <;> simp_all [fmtArgs, argText, SimpleVal]

theorem fmtArgs_all (isPrint : Char → Bool) (as : List (Key × Val)) :
    fmtArgs isPrint as = as.map (argText isPrint) := by
  induction as with
  | nil => simp [fmtArgs]
  | cons a rest ih =>
    obtain ⟨k, v⟩ := a
    cases v <;> simp_all [fmtArgs, argText]

theorem fmtCall_flat (isPrint : Char → Bool) (name : List Char) (as : List (Key × Val)) (hn : name ≠ [])
    (h : ∀ kv ∈ as, SimpleVal isPrint kv.2) :
    fmtCall isPrint (.mk name as []) =
      name ++ '(' :: (joinWith [',', ' '] (as.map (argText isPrint)) ++ [')']) := by
  simp [fmtCall, fmtCalls, joinWith, hn, fmtArgs_simple isPrint as h]

theorem rangeBody_of_call (name s : List Char) (hn : IdentName name) : RangeBody (name ++ '(' :: s) := by
  obtain ⟨c, cs, rfl, hc, hcs⟩ := hn
  refine ⟨c :: cs, '(', s, rfl, Or.inl ⟨c, cs, rfl, hc, fun y hy => ?_⟩, Or.inl rfl⟩
  have := hcs y hy
  simp [isFieldCh, this]

theorem rangeBody_of_cond (isPrint : Char → Bool) (k : Key) (op : Op) (v : Val) (s : List Char) (hk : KeyName k)
    (hop : op ∈ cmpOps) : RangeBody (argText isPrint (k, .cond op v) ++ s) :=
  ⟨k, ' ', opText op ++ ' ' :: (fmtVal isPrint v ++ s), by simp [argText, List.append_assoc], hk,
    Or.inr ⟨rfl, op, hop, fmtVal isPrint v ++ s, rfl⟩⟩

theorem cond_op_of_simple (isPrint : Char → Bool) (op : Op) (v : Val) (h : SimpleVal isPrint (.cond op v)) :
    op ∈ cmpOps := by
  cases v <;> simp [SimpleVal] at h <;> first | exact h.1 | exact h

/-- A printed simple argument is read by `arg` whatever delimiter follows. -/
theorem parg_ok (isPrint : Char → Bool) (hnl : isPrint '\n' = false) (kv : Key × Val) (hk : KeyName kv.1)
    (hv : SimpleVal isPrint kv.2) :
    PArg.Ok ⟨argText isPrint kv, evArg isPrint kv⟩ := by
  obtain ⟨k, v⟩ := kv
  have hk' : KeyName k := hk
  have hhead := argText_head isPrint (k, v)
  obtain ⟨x0, tl0, hx0, _⟩ := hhead
  refine ⟨by rw [hx0]; exact hk'.noWs _, by rw [hx0]; simp, ?_⟩
  intro d r hd
  have hdel : Delim d := by rcases hd with rfl | rfl <;> simp [Delim]
  simp only [argText, evArg]
  cases v with
  | int i =>
    obtain ⟨_, hne, hall⟩ := natDigits_spec i.natAbs
    have hitem := item_int_ok (decide (i < 0)) (natDigits i.natAbs) r d hne hall hdel
    rw [← intDigits_shape] at hitem
    have hnw : NoWs (intDigits i ++ d :: r) := by
      obtain ⟨x, t, hx, hxc⟩ := num_text_head (decide (i < 0)) (natDigits i.natAbs) (d :: r) hne hall
      rw [intDigits_shape, hx]
      rcases hxc with rfl | hxd
      · simp [NoWs, isWs]
      · simp only [NoWs]
        cases hw : isWs x with
        | false => rfl
        | true =>
          simp only [isWs, Bool.or_eq_true, decide_eq_true_eq] at hw
          rcases hw with (rfl | rfl) | rfl <;> simp [isDigit] at hxd
    have := arg_eq_ok hk' hnw (value_of_item hitem)
    simpa [fmtVal, evVal] using this
  | null =>
    have hitem := item_null_ok d r hd
    have := arg_eq_ok (vs := ['n', 'u', 'l', 'l'] ++ d :: r) hk' (by simp [NoWs, isWs]) (value_of_item hitem)
    simpa [fmtVal, evVal] using this
  | bool b =>
    cases b with
    | true =>
      have hitem := item_true_ok d r hd
      have := arg_eq_ok (vs := ['t', 'r', 'u', 'e'] ++ d :: r) hk' (by simp [NoWs, isWs]) (value_of_item hitem)
      simpa [fmtVal, evVal] using this
    | false =>
      have hitem := item_false_ok d r hd
      have := arg_eq_ok (vs := ['f', 'a', 'l', 's', 'e'] ++ d :: r) hk' (by simp [NoWs, isWs]) (value_of_item hitem)
      simpa [fmtVal, evVal] using this
  | str bs =>
    rcases item_dq_ok' (quoteBody isPrint bs) (d :: r) (dqOk_quoteBody isPrint bs) with ⟨hsh, hitem⟩ | ⟨hsh, hitem⟩
    · have := arg_eq_ok (vs := '"' :: (quoteBody isPrint bs ++ '"' :: d :: r)) hk' (by simp [NoWs, isWs]) (value_of_item hitem)
      simpa [fmtVal, evVal, quote, hsh] using this
    · have := arg_eq_ok (vs := '"' :: (quoteBody isPrint bs ++ '"' :: d :: r)) hk' (by simp [NoWs, isWs]) (value_of_item hitem)
      simpa [fmtVal, evVal, quote, hsh] using this
  | uint n => exact absurd hv (by simp [SimpleVal])
  | float t =>
    obtain ⟨neg, ip, fp', hfmt, hne, hip, hfp, _⟩ := float_roundtrip t hv
    have hitem := item_float1_ok neg ip fp' r d hne hip hfp hdel
    have := arg_eq_ok (vs := floatText neg ip fp' ++ d :: r) hk' (floatText_noWs neg ip fp' _ hip) (value_of_item hitem)
    simpa [fmtVal, evVal, hfmt] using this
  | list vs =>
    obtain ⟨init, last, rfl, h1, h2, h3⟩ := hv
    obtain ⟨hsyn, _, htext, _⟩ := fwdList_facts isPrint hnl init last h1 h2 h3
    have hval := hsyn.2 d r hd
    rw [htext] at hval
    have := arg_eq_ok (vs := fmtVal isPrint (.list (init ++ [last])) ++ d :: r) hk'
      (by rw [← htext]; exact hsyn.1 _) hval
    simpa [evVal, List.append_assoc] using this
  | ints xs => exact absurd hv (by simp [SimpleVal])
  | uints xs => exact absurd hv (by simp [SimpleVal])
  | cond op w =>
    cases w with
    | int i =>
      obtain ⟨hop, h1, h2⟩ := hv
      obtain ⟨_, hne, hall⟩ := natDigits_spec i.natAbs
      have hitem := item_int_ok (decide (i < 0)) (natDigits i.natAbs) r d hne hall hdel
      rw [← intDigits_shape] at hitem
      have hnw : NoWs (intDigits i ++ d :: r) := by
        obtain ⟨x, t, hx, hxc⟩ := num_text_head (decide (i < 0)) (natDigits i.natAbs) (d :: r) hne hall
        rw [intDigits_shape, hx]
        rcases hxc with rfl | hxd
        · simp [NoWs, isWs]
        · simp only [NoWs]
          cases hw : isWs x with
          | false => rfl
          | true =>
            simp only [isWs, Bool.or_eq_true, decide_eq_true_eq] at hw
            rcases hw with (rfl | rfl) | rfl <;> simp [isDigit] at hxd
      have := arg_cond_ok op hop hk' hnw (value_of_item hitem)
      simpa [fmtVal, evVal] using this
    | null => exact absurd hv (by simp [SimpleVal])
    | bool b => exact absurd hv (by simp [SimpleVal])
    | uint n => exact absurd hv (by simp [SimpleVal])
    | float t => exact absurd hv (by simp [SimpleVal])
    | str bs => exact absurd hv (by simp [SimpleVal])
    | list vs =>
      obtain ⟨hop, xs, rfl, hxne, hxr⟩ := hv
      have hval := value_list_ok xs hxne d r hd
      have := arg_cond_ok op hop hk' (vs := '[' :: (joinWith [','] (xs.map intDigits) ++ ']' :: d :: r))
        (by simp [NoWs, isWs]) hval
      simpa [fmtVal, fmtVals_ints, evVal, intsOf_map, List.append_assoc] using this
    | ints xs => exact absurd hv (by simp [SimpleVal])
    | uints xs => exact absurd hv (by simp [SimpleVal])
    | cond op2 v2 => exact absurd hv (by simp [SimpleVal])
    | call c => exact absurd hv (by simp [SimpleVal])
  | call c => exact absurd hv (by simp [SimpleVal])


/-- The flat fragment: `Name(k1=v1, ..)` with a generic name, at least one argument, field-name
keys in strictly increasing order and simple values. -/
structure FlatCall (isPrint : Char → Bool) (name : List Char) (args : List (Key × Val)) : Prop where
  name_ok : IdentName name
  name_free : NameOk name ∧ RangeArgs name args []
  nonempty : args ≠ []
  args_ok : ∀ kv ∈ args, KeyName kv.1 ∧ SimpleVal isPrint kv.2
  sorted : SortedKeys args

def evCall (isPrint : Char → Bool) (name : List Char) (args : List (Key × Val)) : List Ev :=
  [.text name, .act (.startCall .text)] ++ args.flatMap (evArg isPrint) ++ [.act .endCall]

/-- Syntax: the grammar reads the printed call and records exactly `evCall`. -/
theorem flat_parses (isPrint : Char → Bool) (hnl : isPrint '\n' = false) (name : List Char) (args : List (Key × Val))
    (h : FlatCall isPrint name args) :
    P (.ref Gen.start) (fmtCall isPrint (.mk name args [])) [] (evCall isPrint name args) := by
  obtain ⟨hn, hsp, hne, hargs, hsorted⟩ := h
  have hname : name ≠ [] := by obtain ⟨c, cs, rfl, _, _⟩ := hn; simp
  rw [fmtCall_flat isPrint name args hname (fun kv hkv => (hargs kv hkv).2)]
  -- the arguments
  let pargs : List PArg := args.map (fun kv => ⟨argText isPrint kv, evArg isPrint kv⟩)
  have hpok : ∀ a ∈ pargs, a.Ok := by
    intro a ha
    simp only [pargs, List.mem_map] at ha
    obtain ⟨kv, hkv, rfl⟩ := ha
    exact parg_ok isPrint hnl kv (hargs kv hkv).1 (hargs kv hkv).2
  have hpne : pargs ≠ [] := by simpa [pargs] using hne
  have hargsP := args_ok pargs hpne hpok []
  have htext : pargs.map (·.text) = args.map (argText isPrint) := by simp [pargs]
  have hevs : pargs.flatMap (·.evs) = args.flatMap (evArg isPrint) := by
    simp [pargs, List.flatMap_map]
  rw [htext, hevs] at hargsP
  -- `Call` does not match at the first argument
  have hcf : F (.ref R.Call) (joinWith [',', ' '] (args.map (argText isPrint)) ++ [')']) := by
    cases args with
    | nil => exact absurd rfl hne
    | cons a rest =>
      obtain ⟨hk, _⟩ := hargs a (by simp)
      obtain ⟨x, tl, hx, hxe⟩ := argText_head isPrint a
      have hx1 : isAlnum x = false := by rcases hxe with rfl | rfl <;> decide
      have hx2 : x ≠ '(' := by rcases hxe with rfl | rfl <;> decide
      cases rest with
      | nil =>
        simp only [List.map, joinWith, hx, List.append_assoc, List.cons_append]
        exact call_fails_key a.1 _ x hk hx1 hx2
      | cons b rest' =>
        simp only [List.map, joinWith, hx, List.append_assoc, List.cons_append]
        exact call_fails_key a.1 _ x hk hx1 hx2
  have hall := allargs_of_args hcf hargsP
  have hws : NoWs (joinWith [',', ' '] (args.map (argText isPrint)) ++ [')']) := by
    cases args with
    | nil => exact absurd rfl hne
    | cons a rest =>
      obtain ⟨hk, _⟩ := hargs a (by simp)
      obtain ⟨x, tl, hx, _⟩ := argText_head isPrint a
      rw [List.map_cons, joinWith_cons, hx]
      simp only [List.append_assoc]
      exact hk.noWs _
  have hfree : SpecialFree name (joinWith [',', ' '] (args.map (argText isPrint)) ++ [')']) := by
    rcases nameOk_cases hsp.1 with h | h | h
    · exact Or.inl h
    · refine Or.inr (Or.inl ⟨h, ?_⟩)
      cases args with
      | nil => exact absurd rfl hne
      | cons a rest =>
        rw [List.map_cons, joinWith_cons, List.append_assoc]
        exact firstKey_of_arg isPrint a _ (hargs a (by simp)).1 (hargs a (by simp)).2
    · refine Or.inr (Or.inr ⟨h, ?_⟩)
      rcases hsp.2 h with hc | ⟨k, op, v, rest, rfl⟩
      · exact absurd rfl hc
      · rw [List.map_cons, joinWith_cons, List.append_assoc]
        have ha := hargs (k, .cond op v) (by simp)
        exact rangeBody_of_cond isPrint k op v _ ha.1 (cond_op_of_simple isPrint op v ha.2)
  have hcall := call_generic_ok name _ [] _ hn hfree hws trivial hall
  have hnws : NoWs (name ++ '(' :: (joinWith [',', ' '] (args.map (argText isPrint)) ++ [')'])) := by
    obtain ⟨c, cs, rfl, hc, _⟩ := hn
    simp only [List.cons_append, NoWs]
    cases hw : isWs c with
    | false => rfl
    | true =>
      simp only [isWs, Bool.or_eq_true, decide_eq_true_eq] at hw
      rcases hw with (rfl | rfl) | rfl <;> simp [isAlpha, isLower, isUpper] at hc
  exact calls_single _ _ hnws hcall

/-- Semantics: the action machine turns `evCall` into the call. -/
theorem flat_exec (isPrint : Char → Bool) (hnl : isPrint '\n' = false) (name : List Char)
    (args : List (Key × Val)) (h : FlatCall isPrint name args) :
    ∃ q, exec (evCall isPrint name args) {} = .ok q ∧ q.calls = [.mk name args []] := by
  obtain ⟨hn, hsp, hne, hargs, hsorted⟩ := h
  simp only [evCall, List.cons_append, List.nil_append]
  rw [exec_text]
  have hs : stepAct { ({} : QState) with text := name } (.startCall .text) =
      .ok { ({} : QState) with text := name, stack := [{ name := name, attach := .top }] } := by
    simp [stepAct, startCall, sargText]
  rw [exec_act_ok _ hs]
  obtain ⟨t, hexec⟩ := exec_args isPrint hnl args hargs hsorted
    { ({} : QState) with text := name, stack := [{ name := name, attach := .top }] }
    { name := name, attach := .top } [] [.act .endCall] rfl ⟨rfl, rfl, rfl⟩ (by simp [lookup])
  rw [hexec, foldl_insert_sorted args [] hsorted (by simp)]
  refine ⟨{ calls := [.mk name args []], stack := [], text := t }, ?_, rfl⟩
  simp [exec, stepEv, stepAct, endCall, Elem.toCall]
  rfl


end PV.C26
