/-
pm_c26: model driver for C26.  One op per line:

  parse <hex>                 hex = UTF-8 bytes of a query text.  Output: canonical dump of the parsed
                              calls (dynamic types visible) or the error class.  Model only.
  lit <hex> NAME N WARG*N     a flat call written from structurally described literals (Spec.lean);
                              <hex> is the text the harness wrote (must equal `writeCall`).
                              model = dump of the parse of the text, spec = dump of the denoted call.
  fwd N CALL*N                N calls as ASTs: model = hex(Query.String) | dump(parse(Query.String)),
                              spec = hex(Query.String) | dump of the ASTs themselves.

  WARG ::= kv KEY LIT | kc KEY OPNAME LIT | bt INT (lt|le) KEY (lt|le) INT
  LIT  ::= null | true | false | int<text> | flt<text> | dq<items> | sq<items> | bare<text>
         | ts0<text> | ts1<text> | ts2<text> | list<k> LIT*k
           dq items, `;`-separated: c<hex code point> e<hex code point of the letter> x<dec> o<dec> u<dec> U<dec>
           sq items, `;`-separated: c<hex code point> q b
  CALL ::= NAME NARGS NCHILDREN (KEY VAL)*NARGS CALL*NCHILDREN
  VAL  ::= n | b0 | b1 | i<int> | u<nat> | f<dec> | s<hex> | l<k> VAL*k | I<csv> | U<csv> | c<OPNAME> VAL | C CALL
-/
import PV.Common.Proto
import PV.C26.Model
import PV.C26.Spec
import PV.C26.Gen
import PV.C26.GenPrint
open PV.Proto PV.C26

def unhexC (c : Char) : Option Nat := unhex c

def hexToBytes : List Char → Option (List Nat)
  | [] => some []
  | a :: b :: r => do
    let x ← unhexC a
    let y ← unhexC b
    let rest ← hexToBytes r
    pure ((x * 16 + y) :: rest)
  | _ => none

def hexToText (s : String) : Option (List Char) := do
  let bs ← hexToBytes s.toList
  let ba := ByteArray.mk (bs.map (·.toUInt8)).toArray
  let str ← String.fromUTF8? ba
  pure str.toList

def hexNat (s : String) : Option Nat :=
  s.toList.foldlM (fun acc c => do let d ← unhexC c; pure (acc * 16 + d)) 0

def opOfName : String → Option Op
  | "ILLEGAL" => some .ILLEGAL | "ASSIGN" => some .ASSIGN | "EQ" => some .EQ | "NEQ" => some .NEQ
  | "LT" => some .LT | "LTE" => some .LTE | "GT" => some .GT | "GTE" => some .GTE
  | "BETWEEN" => some .BETWEEN | _ => none

def csvI (s : String) : Option (List Int) := if s = "" then some [] else (s.splitOn ",").mapM String.toInt?
def csvN (s : String) : Option (List Nat) := if s = "" then some [] else (s.splitOn ",").mapM String.toNat?

def dropS (s : String) (n : Nat) : String := String.ofList (s.toList.drop n)

/-! ### AST tokens -/

mutual
def pVal : Nat → List String → Option (Val × List String)
  | 0, _ => none
  | f + 1, t :: ts =>
    match t.toList with
    | ['n'] => some (.null, ts)
    | ['b', '0'] => some (.bool false, ts)
    | ['b', '1'] => some (.bool true, ts)
    | 'i' :: r => (String.ofList r).toInt?.map (fun i => (.int i, ts))
    | 'u' :: r => (String.ofList r).toNat?.map (fun n => (.uint n, ts))
    | 'f' :: r => some (.float r, ts)
    | 's' :: r => (hexToBytes r).map (fun b => (.str b, ts))
    | 'l' :: r => do
      let k ← (String.ofList r).toNat?
      let (vs, ts') ← pVals f k ts
      pure (.list vs, ts')
    | 'I' :: r => (csvI (String.ofList r)).map (fun xs => (.ints xs, ts))
    | 'U' :: r => (csvN (String.ofList r)).map (fun xs => (.uints xs, ts))
    | 'c' :: r => do
      let op ← opOfName (String.ofList r)
      let (v, ts') ← pVal f ts
      pure (.cond op v, ts')
    | ['C'] => do
      let (c, ts') ← pCall f ts
      pure (.call c, ts')
    | _ => none
  | _, [] => none
def pVals : Nat → Nat → List String → Option (List Val × List String)
  | 0, _, _ => none
  | _ + 1, 0, ts => some ([], ts)
  | f + 1, k + 1, ts => do
    let (v, ts1) ← pVal f ts
    let (vs, ts2) ← pVals f k ts1
    pure (v :: vs, ts2)
def pArgs : Nat → Nat → List String → Option (List (Key × Val) × List String)
  | 0, _, _ => none
  | _ + 1, 0, ts => some ([], ts)
  | f + 1, k + 1, key :: ts => do
    let (v, ts1) ← pVal f ts
    let (rest, ts2) ← pArgs f k ts1
    pure ((key.toList, v) :: rest, ts2)
  | _, _, [] => none
def pCalls : Nat → Nat → List String → Option (List Call × List String)
  | 0, _, _ => none
  | _ + 1, 0, ts => some ([], ts)
  | f + 1, k + 1, ts => do
    let (c, ts1) ← pCall f ts
    let (cs, ts2) ← pCalls f k ts1
    pure (c :: cs, ts2)
def pCall : Nat → List String → Option (Call × List String)
  | 0, _ => none
  | f + 1, name :: na :: nc :: ts => do
    let na ← na.toNat?
    let nc ← nc.toNat?
    let (args, ts1) ← pArgs f na ts
    let (children, ts2) ← pCalls f nc ts1
    -- the map: insert in the given order (keys are distinct)
    pure (.mk (if name = "-" then [] else name.toList) (args.foldl (fun m kv => insert kv.1 kv.2 m) []) children, ts2)
  | _, _ => none
end

/-! ### Literal tokens -/

def pDqItem (s : String) : Option DqItem :=
  match s.toList with
  | 'c' :: r => (hexNat (String.ofList r)).map (fun n => .ch (Char.ofNat n))
  | 'e' :: r => (hexNat (String.ofList r)).map (fun n => .esc (Char.ofNat n))
  | 'x' :: r => (String.ofList r).toNat?.map .hex
  | 'o' :: r => (String.ofList r).toNat?.map .oct
  | 'u' :: r => (String.ofList r).toNat?.map .u4
  | 'U' :: r => (String.ofList r).toNat?.map .u8
  | _ => none

def pSqItem (s : String) : Option SqItem :=
  match s.toList with
  | 'c' :: r => (hexNat (String.ofList r)).map (fun n => .ch (Char.ofNat n))
  | ['q'] => some .escQuote
  | ['b'] => some .escBackslash
  | _ => none

def splitItems (s : String) : List String := if s = "" then [] else s.splitOn ";"

mutual
def pLit : Nat → List String → Option (Lit × List String)
  | 0, _ => none
  | _, [] => none
  | f + 1, t :: ts =>
    if t = "null" then some (.null, ts)
    else if t = "true" then some (.bool true, ts)
    else if t = "false" then some (.bool false, ts)
    else if t.startsWith "int" then
      match (dropS t 3).toList with
      | '-' :: ds => some (.int true ds, ts)
      | ds => some (.int false ds, ts)
    else if t.startsWith "flt" then
      let (neg, body) := match (dropS t 3).toList with
        | '-' :: r => (true, r)
        | r => (false, r)
      some (.float neg (body.takeWhile (· ≠ '.')) ((body.dropWhile (· ≠ '.')).drop 1), ts)
    else if t.startsWith "dq" then (splitItems (dropS t 2)).mapM pDqItem |>.map (fun is => (.dq is, ts))
    else if t.startsWith "sq" then (splitItems (dropS t 2)).mapM pSqItem |>.map (fun is => (.sq is, ts))
    else if t.startsWith "bare" then some (.bare (dropS t 4).toList, ts)
    else if t.startsWith "ts0" then some (.ts .bare (dropS t 3).toList, ts)
    else if t.startsWith "ts1" then some (.ts .dq (dropS t 3).toList, ts)
    else if t.startsWith "ts2" then some (.ts .sq (dropS t 3).toList, ts)
    else if t.startsWith "list" then do
      let k ← (dropS t 4).toNat?
      let (ls, ts') ← pLits f k ts
      pure (.list ls, ts')
    else none
def pLits : Nat → Nat → List String → Option (List Lit × List String)
  | 0, _, _ => none
  | _ + 1, 0, ts => some ([], ts)
  | f + 1, k + 1, ts => do
    let (l, ts1) ← pLit f ts
    let (ls, ts2) ← pLits f k ts1
    pure (l :: ls, ts2)
end

def pLt : String → Option Bool
  | "lt" => some true | "le" => some false | _ => none

def pWArgs : Nat → List String → Option (List WArg)
  | 0, [] => some []
  | k + 1, "kv" :: key :: ts => do
    let (l, ts') ← pLit (ts.length + 1) ts
    let rest ← pWArgs k ts'
    pure (.kv key.toList l :: rest)
  | k + 1, "kc" :: key :: op :: ts => do
    let op ← opOfName op
    let (l, ts') ← pLit (ts.length + 1) ts
    let rest ← pWArgs k ts'
    pure (.kc key.toList op l :: rest)
  | k + 1, "bt" :: lo :: sl :: key :: sh :: hi :: ts => do
    let lo ← lo.toInt?
    let hi ← hi.toInt?
    let sl ← pLt sl
    let sh ← pLt sh
    let rest ← pWArgs k ts
    pure (.between lo sl key.toList sh hi :: rest)
  | _, _ => none

/-! ### Deviation tags (one defect class each; see known_findings.jsonl) -/

mutual
def litHas (p : Lit → Bool) : Lit → Bool
  | .list items => p (.list items) || litsHave p items
  | l => p l
def litsHave (p : Lit → Bool) : List Lit → Bool
  | [] => false
  | x :: xs => litHas p x || litsHave p xs
end

def isSqEsc : Lit → Bool
  | .sq items => items.any (fun i => match i with | .ch _ => false | _ => true)
  | _ => false

def isKw : Lit → Bool
  | .null => true
  | .bool _ => true
  | _ => false

def isLastKw : Lit → Bool
  | .list items => match items.getLast? with | some l => isKw l | none => false
  | _ => false

def wargLit : WArg → Option Lit
  | .kv _ v => some v
  | .kc _ _ v => some v
  | _ => none

def litTag (args : List WArg) : String :=
  let lits := args.filterMap wargLit
  if lits.any (litHas isLastKw) then "list-last-keyword"
  else if lits.any (litHas isSqEsc) then "sq-escape-kept"
  else "unexplained"

mutual
def valHas (p : Val → Bool) : Val → Bool
  | .list vs => p (.list vs) || valsHave p vs
  | .cond op v => p (.cond op v) || valHas p v
  | .call c => p (.call c) || callHas p c
  | v => p v
def valsHave (p : Val → Bool) : List Val → Bool
  | [] => false
  | v :: vs => valHas p v || valsHave p vs
def argsHave (p : Val → Bool) : List (Key × Val) → Bool
  | [] => false
  | (_, v) :: r => valHas p v || argsHave p r
def callsHave (p : Val → Bool) : List Call → Bool
  | [] => false
  | c :: cs => callHas p c || callsHave p cs
def callHas (p : Val → Bool) : Call → Bool
  | .mk _ args children => argsHave p args || callsHave p children
end

def isKwVal : Val → Bool
  | .null => true
  | .bool _ => true
  | _ => false

def fwdTag (cs : List Call) : String :=
  if callsHave (fun v => match v with | .list vs => (vs.getLast?.map isKwVal).getD false | _ => false) cs then
    "list-last-keyword"
  else if callsHave (fun v => match v with | .uint _ => true | _ => false) cs then "fwd-uint-as-int"
  else if callsHave (fun v => match v with | .ints _ => true | .uints _ => true | _ => false) cs then
    "fwd-idlist-as-generic"
  else "unexplained"

def parseQ (s : List Char) : Except PErr (List Call) := parseWith Gen.rule Gen.start s

def showParseS (r : Except PErr (List Call)) : String := String.ofList (showParse r)

mutual
def litInRange : Lit → Bool
  | .int neg ds =>
    let v : Int := if neg then - (parseNat ds : Int) else (parseNat ds : Int)
    minInt64 ≤ v && v ≤ maxInt64
  | .list items => litsInRange items
  | _ => true
def litsInRange : List Lit → Bool
  | [] => true
  | x :: xs => litInRange x && litsInRange xs
end

def step (_u : Unit) (ws : List String) : Unit × Ans :=
  let bad := ((), ans "bad-op")
  match ws with
  | ["parse", hex] =>
    match hexToText hex with
    | some s => ((), ans (showParseS (parseQ s)))
    | none => bad
  | ["parse"] => ((), ans (showParseS (parseQ [])))
  | "lit" :: hex :: name :: n :: rest =>
    match hexToText hex, n.toNat? with
    | some s, some n =>
      match pWArgs n rest with
      | some args =>
        if writeCall name.toList args ≠ s then ((), ans "bad-writer")
        else
          let m := showParseS (parseQ s)
          let sp :=
            if (args.filterMap wargLit).all litInRange then
              String.ofList (dumpQuery [writtenCall name.toList args])
            else "err:range"
          ((), ans2 m sp (litTag args))
      | none => bad
    | _, _ => bad
  | "fwd" :: n :: rest =>
    match n.toNat? with
    | some n =>
      match pCalls (rest.length + 2) n rest with
      | some (cs, []) =>
        let text := fmtQuery GenPrint.isPrint cs
        let hx := String.ofList (hexBytes (utf8s text))
        let m := hx ++ "|" ++ showParseS (parseQ text)
        let sp := hx ++ "|" ++ String.ofList (dumpQuery cs)
        ((), ans2 m sp (fwdTag cs))
      | _ => bad
    | none => bad
  | _ => bad

def main : IO Unit := run () step
