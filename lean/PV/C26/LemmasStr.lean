/-
C26 — lemmas of the string layer: UTF-8 decode/encode, strconv.Quote / strconv.Unquote round trip.
Core Lean only.
-/
import PV.C26.Model
namespace PV.C26

theorem toNat_ofNat_valid (n : Nat) (h : n.isValidChar) : (Char.ofNat n).toNat = n := by
  simp [Char.ofNat, h, Char.toNat, Char.ofNatAux]

theorem char_valid (c : Char) : c.toNat < 0xD800 ∨ (0xDFFF < c.toNat ∧ c.toNat < 0x110000) := c.valid

def pieceBytes : Piece → Bytes
  | .rune c => utf8 c
  | .bad b => [b]

theorem utf8_ofNat (cp : Nat) (h : cp.isValidChar) :
    utf8 (Char.ofNat cp) =
      if cp < 0x80 then [cp]
      else if cp < 0x800 then [0xC0 + cp / 64, 0x80 + cp % 64]
      else if cp < 0x10000 then [0xE0 + cp / 4096, 0x80 + cp / 64 % 64, 0x80 + cp % 64]
      else [0xF0 + cp / 262144, 0x80 + cp / 4096 % 64, 0x80 + cp / 64 % 64, 0x80 + cp % 64] := by
  simp only [utf8, toNat_ofNat_valid cp h]

theorem isCont_iff (b : Nat) : isCont b = true ↔ 0x80 ≤ b ∧ b < 0xC0 := by
  simp [isCont]

theorem decodeRune_spec (bs : Bytes) (cp w : Nat) (h : decodeRune bs = some (cp, w)) :
    cp.isValidChar ∧ 1 ≤ w ∧ w ≤ bs.length ∧ utf8 (Char.ofNat cp) = bs.take w := by
  cases bs with
  | nil => simp [decodeRune] at h
  | cons b0 rest =>
    unfold decodeRune at h
    by_cases c1 : b0 < 0x80
    · simp only [c1, if_true, Option.some.injEq, Prod.mk.injEq] at h
      obtain ⟨rfl, rfl⟩ := h
      have hv : b0.isValidChar := by simp only [Nat.isValidChar]; omega
      refine ⟨hv, by omega, by simp, ?_⟩
      rw [utf8_ofNat _ hv]; simp [c1]
    · by_cases c2 : b0 < 0xC2
      · simp [c1, c2] at h
      · by_cases c3 : b0 < 0xE0
        · cases rest with
          | nil => simp [c1, c2, c3] at h
          | cons b1 r =>
            simp only [c1, c2, c3, if_true, if_false] at h
            by_cases k : isCont b1 = true
            · simp only [k, if_true, Option.some.injEq, Prod.mk.injEq] at h
              obtain ⟨rfl, rfl⟩ := h
              rw [isCont_iff] at k
              have hv : ((b0 - 0xC0) * 64 + (b1 - 0x80)).isValidChar := by
                simp only [Nat.isValidChar]; omega
              refine ⟨hv, by omega, by simp, ?_⟩
              rw [utf8_ofNat _ hv]
              have h1 : ¬ (b0 - 0xC0) * 64 + (b1 - 0x80) < 0x80 := by omega
              have h2 : (b0 - 0xC0) * 64 + (b1 - 0x80) < 0x800 := by omega
              simp only [h1, h2, if_true, if_false, List.take_succ_cons, List.take_zero]
              have e1 : 0xC0 + ((b0 - 0xC0) * 64 + (b1 - 0x80)) / 64 = b0 := by omega
              have e2 : 0x80 + ((b0 - 0xC0) * 64 + (b1 - 0x80)) % 64 = b1 := by omega
              rw [e1, e2]
            · simp [k] at h
        · by_cases c4 : b0 < 0xF0
          · cases rest with
            | nil => simp [c1, c2, c3, c4] at h
            | cons b1 r =>
              cases r with
              | nil => simp [c1, c2, c3, c4] at h
              | cons b2 r2 =>
                simp only [c1, c2, c3, c4, if_true, if_false] at h
                by_cases k : ((decide ((if b0 = 0xE0 then 0xA0 else 0x80) ≤ b1) && decide (b1 ≤ if b0 = 0xED then 0x9F else 0xBF) && isCont b2) = true)
                · simp only [k, if_true, Option.some.injEq, Prod.mk.injEq] at h
                  obtain ⟨rfl, rfl⟩ := h
                  simp only [Bool.and_eq_true, decide_eq_true_eq, isCont_iff] at k
                  obtain ⟨⟨k1, k2⟩, k3⟩ := k
                  have hb1 : 0x80 ≤ b1 ∧ b1 < 0xC0 ∧ (b0 = 0xE0 → 0xA0 ≤ b1) ∧ (b0 = 0xED → b1 ≤ 0x9F) := by
                    refine ⟨?_, ?_, ?_, ?_⟩
                    · split at k1 <;> omega
                    · split at k2 <;> omega
                    · intro e; simp [e] at k1; omega
                    · intro e; simp [e] at k2; omega
                  obtain ⟨p1, p2, p3, p4⟩ := hb1
                  have hv : ((b0 - 0xE0) * 4096 + (b1 - 0x80) * 64 + (b2 - 0x80)).isValidChar := by
                    simp only [Nat.isValidChar]
                    by_cases e : b0 = 0xED
                    · have := p4 e; omega
                    · by_cases e2 : b0 < 0xED
                      · left; omega
                      · right; omega
                  refine ⟨hv, by omega, by simp, ?_⟩
                  rw [utf8_ofNat _ hv]
                  have h1 : ¬ (b0 - 0xE0) * 4096 + (b1 - 0x80) * 64 + (b2 - 0x80) < 0x80 := by
                    by_cases e : b0 = 0xE0
                    · have := p3 e; omega
                    · omega
                  have h2 : ¬ (b0 - 0xE0) * 4096 + (b1 - 0x80) * 64 + (b2 - 0x80) < 0x800 := by
                    by_cases e : b0 = 0xE0
                    · have := p3 e; omega
                    · omega
                  have h3 : (b0 - 0xE0) * 4096 + (b1 - 0x80) * 64 + (b2 - 0x80) < 0x10000 := by omega
                  simp only [h1, h2, h3, if_true, if_false, List.take_succ_cons, List.take_zero]
                  have e1 : 0xE0 + ((b0 - 0xE0) * 4096 + (b1 - 0x80) * 64 + (b2 - 0x80)) / 4096 = b0 := by omega
                  have e2 : 0x80 + ((b0 - 0xE0) * 4096 + (b1 - 0x80) * 64 + (b2 - 0x80)) / 64 % 64 = b1 := by omega
                  have e3 : 0x80 + ((b0 - 0xE0) * 4096 + (b1 - 0x80) * 64 + (b2 - 0x80)) % 64 = b2 := by omega
                  rw [e1, e2, e3]
                · simp [k] at h
          · by_cases c5 : b0 < 0xF5
            · cases rest with
              | nil => simp [c1, c2, c3, c4, c5] at h
              | cons b1 r =>
                cases r with
                | nil => simp [c1, c2, c3, c4, c5] at h
                | cons b2 r2 =>
                  cases r2 with
                  | nil => simp [c1, c2, c3, c4, c5] at h
                  | cons b3 r3 =>
                    simp only [c1, c2, c3, c4, c5, if_true, if_false] at h
                    by_cases k : ((decide ((if b0 = 0xF0 then 0x90 else 0x80) ≤ b1) && decide (b1 ≤ if b0 = 0xF4 then 0x8F else 0xBF) && isCont b2 && isCont b3) = true)
                    · simp only [k, if_true, Option.some.injEq, Prod.mk.injEq] at h
                      obtain ⟨rfl, rfl⟩ := h
                      simp only [Bool.and_eq_true, decide_eq_true_eq, isCont_iff] at k
                      obtain ⟨⟨⟨k1, k2⟩, k3⟩, k4⟩ := k
                      have hb1 : 0x80 ≤ b1 ∧ b1 < 0xC0 ∧ (b0 = 0xF0 → 0x90 ≤ b1) ∧ (b0 = 0xF4 → b1 ≤ 0x8F) := by
                        refine ⟨?_, ?_, ?_, ?_⟩
                        · split at k1 <;> omega
                        · split at k2 <;> omega
                        · intro e; simp [e] at k1; omega
                        · intro e; simp [e] at k2; omega
                      obtain ⟨p1, p2, p3, p4⟩ := hb1
                      have hlo : 0x10000 ≤ (b0 - 0xF0) * 262144 + (b1 - 0x80) * 4096 + (b2 - 0x80) * 64 + (b3 - 0x80) := by
                        by_cases e : b0 = 0xF0
                        · have := p3 e; omega
                        · omega
                      have hhi : (b0 - 0xF0) * 262144 + (b1 - 0x80) * 4096 + (b2 - 0x80) * 64 + (b3 - 0x80) < 0x110000 := by
                        by_cases e : b0 = 0xF4
                        · have := p4 e; omega
                        · omega
                      have hv : ((b0 - 0xF0) * 262144 + (b1 - 0x80) * 4096 + (b2 - 0x80) * 64 + (b3 - 0x80)).isValidChar := by
                        simp only [Nat.isValidChar]; right; omega
                      refine ⟨hv, by omega, by simp, ?_⟩
                      rw [utf8_ofNat _ hv]
                      have h1 : ¬ (b0 - 0xF0) * 262144 + (b1 - 0x80) * 4096 + (b2 - 0x80) * 64 + (b3 - 0x80) < 0x80 := by omega
                      have h2 : ¬ (b0 - 0xF0) * 262144 + (b1 - 0x80) * 4096 + (b2 - 0x80) * 64 + (b3 - 0x80) < 0x800 := by omega
                      have h3 : ¬ (b0 - 0xF0) * 262144 + (b1 - 0x80) * 4096 + (b2 - 0x80) * 64 + (b3 - 0x80) < 0x10000 := by omega
                      simp only [h1, h2, h3, if_false, List.take_succ_cons, List.take_zero]
                      have e1 : 0xF0 + ((b0 - 0xF0) * 262144 + (b1 - 0x80) * 4096 + (b2 - 0x80) * 64 + (b3 - 0x80)) / 262144 = b0 := by omega
                      have e2 : 0x80 + ((b0 - 0xF0) * 262144 + (b1 - 0x80) * 4096 + (b2 - 0x80) * 64 + (b3 - 0x80)) / 4096 % 64 = b1 := by omega
                      have e3 : 0x80 + ((b0 - 0xF0) * 262144 + (b1 - 0x80) * 4096 + (b2 - 0x80) * 64 + (b3 - 0x80)) / 64 % 64 = b2 := by omega
                      have e4 : 0x80 + ((b0 - 0xF0) * 262144 + (b1 - 0x80) * 4096 + (b2 - 0x80) * 64 + (b3 - 0x80)) % 64 = b3 := by omega
                      rw [e1, e2, e3, e4]
                    · simp [k] at h
            · simp [c1, c2, c3, c4, c5] at h

/-! ## The byte string is recovered from its pieces -/

theorem pieces_bytes (n : Nat) (bs : Bytes) (hn : bs.length ≤ n) :
    (pieces n bs).flatMap pieceBytes = bs := by
  induction n generalizing bs with
  | zero =>
    cases bs with
    | nil => rfl
    | cons b r => simp at hn
  | succ f ih =>
    cases bs with
    | nil => rfl
    | cons b rest =>
      simp only [pieces]
      cases hd : decodeRune (b :: rest) with
      | none =>
        simp only [List.flatMap_cons, pieceBytes]
        rw [ih rest (by simp at hn; omega)]
        rfl
      | some p =>
        obtain ⟨cp, w⟩ := p
        obtain ⟨hv, hw1, hw2, henc⟩ := decodeRune_spec _ _ _ hd
        simp only [List.flatMap_cons, pieceBytes, henc]
        rw [ih (rest.drop (w - 1)) (by simp at hn ⊢; omega)]
        have : (b :: rest).drop w = rest.drop (w - 1) := by
          cases w with
          | zero => omega
          | succ k => simp
        rw [← this, List.take_append_drop]

/-! ## Hex digits -/

theorem unhex_hexDigit : ∀ d, d < 16 → unhex (hexDigit d) = some d := by decide

theorem hexDigit_ne_quote : ∀ d, d < 16 → hexDigit d ≠ '"' ∧ hexDigit d ≠ '\\' := by decide

/-! ## strconv.Unquote ∘ strconv.Quote -/

theorem unquoteBody_plain (c : Char) (tail : List Char) (h1 : c ≠ '"') (h2 : c ≠ '\n') (h3 : c ≠ '\\') :
    unquoteBody (c :: tail) = (utf8 c ++ ·) <$> unquoteBody tail := by
  rw [unquoteBody]
  · exact h1
  · exact h2
  · exact h3

theorem utf8_small (c : Char) (h : c.toNat < 0x80) : utf8 c = [c.toNat] := by
  simp [utf8, h]

theorem unquote_hex2 (n : Nat) (h : n < 256) (tail : List Char) :
    unquoteBody ('\\' :: 'x' :: (hex2 n ++ tail)) = (n :: ·) <$> unquoteBody tail := by
  simp only [hex2, List.cons_append, List.nil_append]
  rw [unquoteBody]
  simp only [unhex_hexDigit (n / 16 % 16) (by omega), unhex_hexDigit (n % 16) (by omega)]
  have : n / 16 % 16 * 16 + n % 16 = n := by omega
  rw [this]

theorem validRune_of_char (c : Char) : validRune c.toNat = true := by
  have := char_valid c
  simp only [validRune, Bool.or_eq_true, Bool.and_eq_true, decide_eq_true_eq]
  omega

theorem unquote_hex4 (c : Char) (h : c.toNat < 0x10000) (tail : List Char) :
    unquoteBody ('\\' :: 'u' :: (hex4 c.toNat ++ tail)) = (utf8 c ++ ·) <$> unquoteBody tail := by
  simp only [hex4, List.cons_append, List.nil_append]
  rw [unquoteBody]
  simp only [unhex_hexDigit (c.toNat / 4096 % 16) (by omega), unhex_hexDigit (c.toNat / 256 % 16) (by omega),
    unhex_hexDigit (c.toNat / 16 % 16) (by omega), unhex_hexDigit (c.toNat % 16) (by omega)]
  have : ((c.toNat / 4096 % 16 * 16 + c.toNat / 256 % 16) * 16 + c.toNat / 16 % 16) * 16 + c.toNat % 16 = c.toNat := by omega
  simp only [this, validRune_of_char, if_true, runeBytes, Char.ofNat_toNat]

theorem unquote_hex8 (c : Char) (tail : List Char) :
    unquoteBody ('\\' :: 'U' :: (hex8 c.toNat ++ tail)) = (utf8 c ++ ·) <$> unquoteBody tail := by
  have hv := char_valid c
  simp only [hex8, hex4, List.cons_append, List.nil_append]
  rw [unquoteBody]
  simp only [unhex_hexDigit (c.toNat / 268435456 % 16) (by omega), unhex_hexDigit (c.toNat / 16777216 % 16) (by omega),
    unhex_hexDigit (c.toNat / 1048576 % 16) (by omega), unhex_hexDigit (c.toNat / 65536 % 16) (by omega),
    unhex_hexDigit (c.toNat / 4096 % 16) (by omega), unhex_hexDigit (c.toNat / 256 % 16) (by omega),
    unhex_hexDigit (c.toNat / 16 % 16) (by omega), unhex_hexDigit (c.toNat % 16) (by omega)]
  have : ((((((c.toNat / 268435456 % 16 * 16 + c.toNat / 16777216 % 16) * 16 + c.toNat / 1048576 % 16) * 16 +
      c.toNat / 65536 % 16) * 16 + c.toNat / 4096 % 16) * 16 + c.toNat / 256 % 16) * 16 + c.toNat / 16 % 16) * 16 +
      c.toNat % 16 = c.toNat := by omega
  simp only [this, validRune_of_char, if_true, runeBytes, Char.ofNat_toNat]

/-- The bytes of a piece come back from its quoted form. -/
theorem unquote_quotePiece (isPrint : Char → Bool) (hnl : isPrint '\n' = false) (p : Piece)
    (hp : ∀ b, p = .bad b → b < 256) (tail : List Char) :
    unquoteBody (quotePiece isPrint p ++ tail) = (pieceBytes p ++ ·) <$> unquoteBody tail := by
  cases p with
  | bad b =>
    simp only [quotePiece, pieceBytes, List.cons_append]
    rw [unquote_hex2 b (hp b rfl)]
    rfl
  | rune c =>
    simp only [quotePiece, pieceBytes]
    by_cases h1 : c = '"' ∨ c = '\\'
    · simp only [h1, if_true, List.cons_append, List.nil_append]
      rcases h1 with rfl | rfl
      · rw [unquoteBody]; rfl
      · rw [unquoteBody]; rfl
    · simp only [h1, if_false]
      have hq : c ≠ '"' := fun e => h1 (Or.inl e)
      have hb : c ≠ '\\' := fun e => h1 (Or.inr e)
      by_cases h2 : isPrint c = true
      · simp only [h2, if_true, List.cons_append, List.nil_append]
        have hn : c ≠ '\n' := by
          intro e; rw [e, hnl] at h2; exact absurd h2 (by simp)
        exact unquoteBody_plain c tail hq hn hb
      · simp only [h2, Bool.false_eq_true, if_false]
        -- the single-letter escapes
        by_cases e7 : c = Char.ofNat 7
        · subst e7; simp only [if_true, List.cons_append, List.nil_append]; rw [unquoteBody]; rfl
        by_cases e8 : c = Char.ofNat 8
        · subst e8; simp only [e7, if_true, if_false, List.cons_append, List.nil_append]; rw [unquoteBody]; rfl
        by_cases e12 : c = Char.ofNat 12
        · subst e12; simp only [e7, e8, if_true, if_false, List.cons_append, List.nil_append]; rw [unquoteBody]; rfl
        by_cases en : c = '\n'
        · subst en; simp only [e7, e8, e12, if_true, if_false, List.cons_append, List.nil_append]; rw [unquoteBody]; rfl
        by_cases er : c = '\r'
        · subst er; simp only [e7, e8, e12, en, if_true, if_false, List.cons_append, List.nil_append]; rw [unquoteBody]; rfl
        by_cases et : c = '\t'
        · subst et; simp only [e7, e8, e12, en, er, if_true, if_false, List.cons_append, List.nil_append]; rw [unquoteBody]; rfl
        by_cases e11 : c = Char.ofNat 11
        · subst e11; simp only [e7, e8, e12, en, er, et, if_true, if_false, List.cons_append, List.nil_append]; rw [unquoteBody]; rfl
        simp only [e7, e8, e12, en, er, et, e11, if_false]
        by_cases hx : c.toNat < 0x20 ∨ c.toNat = 0x7f
        · simp only [hx, if_true, List.cons_append]
          rw [unquote_hex2 c.toNat (by omega), utf8_small c (by omega)]
          rfl
        · simp only [hx, if_false]
          by_cases hu : c.toNat < 0x10000
          · simp only [hu, if_true, List.cons_append]
            exact unquote_hex4 c hu tail
          · simp only [hu, if_false, List.cons_append]
            exact unquote_hex8 c tail

theorem unquoteBody_quoteBody (isPrint : Char → Bool) (hnl : isPrint '\n' = false) (ps : List Piece)
    (hp : ∀ p ∈ ps, ∀ b, p = .bad b → b < 256) :
    unquoteBody (ps.flatMap (quotePiece isPrint) ++ ['"']) = some (ps.flatMap pieceBytes) := by
  induction ps with
  | nil => simp [unquoteBody]
  | cons p ps ih =>
    simp only [List.flatMap_cons, List.append_assoc]
    rw [unquote_quotePiece isPrint hnl p (hp p (by simp)), ih (fun q hq => hp q (by simp [hq]))]
    rfl

theorem pieces_bad_lt (n : Nat) (bs : Bytes) (wf : ∀ b ∈ bs, b < 256) :
    ∀ p ∈ pieces n bs, ∀ b, p = .bad b → b < 256 := by
  induction n generalizing bs with
  | zero => simp [pieces]
  | succ f ih =>
    cases bs with
    | nil => simp [pieces]
    | cons b rest =>
      simp only [pieces]
      cases hd : decodeRune (b :: rest) with
      | none =>
        intro p hp b' hb
        simp only [List.mem_cons] at hp
        rcases hp with rfl | hp
        · cases hb; exact wf _ (by simp)
        · exact ih rest (fun x hx => wf x (by simp [hx])) p hp b' hb
      | some q =>
        obtain ⟨cp, w⟩ := q
        intro p hp b' hb
        simp only [List.mem_cons] at hp
        rcases hp with rfl | hp
        · cases hb
        · exact ih (rest.drop (w - 1)) (fun x hx => wf x (by simp [List.mem_of_mem_drop hx])) p hp b' hb

/-- `strconv.Unquote(strconv.Quote(s)) = s` for every byte string, whatever the table of printable
characters is (as long as a raw newline is never left unescaped). -/
theorem unquote_quote (isPrint : Char → Bool) (hnl : isPrint '\n' = false) (bs : Bytes)
    (wf : ∀ b ∈ bs, b < 256) : unquote (quote isPrint bs) = some bs := by
  simp only [quote, quoteBody, unquote, List.cons_append]
  rw [unquoteBody_quoteBody isPrint hnl _ (pieces_bad_lt _ _ wf), pieces_bytes _ _ (Nat.le_refl _)]

end PV.C26
