/-
C09 property theorems: a process kill right after any file-system operation.

Every call of a history is a list of file-system operations followed by its acknowledgement
(Model.lean, `stepE` / `Emit.ops`).  "Every prefix of the file-system operations issued while
executing any history" is stated structurally: any history `pre` run to completion, then any call
`op`, then the first `j` operations of that call.

Full-strength statement (C09_crash_safe):
    for every `pre`, `op`, `j`: recovery succeeds, and every fragment holds the state before `op`
    or the state after it (after it when j = all operations of the call: the call may have been
    acknowledged), and so does the key translation map.
It does NOT hold for the current code; five classes of calls violate it (witness theorems below,
each replayed on the real code, listed in known_findings.jsonl):
    * setValue            one log record per bit                    C09_inflight_setvalue_witness
    * Set on a mutex      clear record, then set record             C09_inflight_mutex_set_witness
    * mutex import        add batch, then remove batch              C09_inflight_mutex_import_witness
    * importValue (small) add batch, then remove batch              C09_inflight_importvalue_witness
    * Store / ClearRow    acknowledged with nothing on disk         C09_ack_rowop_not_durable_witness
What IS proved, for every history:
    C09_restart_never_blocked   recovery succeeds at every crash point (full strength)
    C09_prefix_replay           exact characterisation of what is recovered at every crash point of
                                every call (a prefix of the call's records applied), whenever no
                                Store/ClearRow is still unflushed
    C09_crash_safe_partial      the full-strength statement for calls that put at most one record in
                                the op log (all but the five classes above)
    C09_snapshot_atomic, C09_leftover_ignored, C09_translate
Core Lean only.
-/
import PV.C09.Lemmas
set_option linter.unusedSimpArgs false
namespace PV.C09

/-- run one call to completion on (memory, disk) -/
def exec (sd : Sys × Disk) (op : AOp) : Sys × Disk :=
  match stepE sd.1 op with
  | none => sd
  | some (s', e) => (s', sd.2.applyAll e.ops)

/-- run a history from a given (memory, disk) -/
def execFrom (sd : Sys × Disk) (ops : List AOp) : Sys × Disk := ops.foldl exec sd

def execAll (ops : List AOp) : Sys × Disk := execFrom ({}, []) ops

/-- Store / ClearRow: the calls that change memory without writing anything -/
def AOp.rowop : AOp → Bool
  | .setrow _ _ _ | .clearrow _ _ => true
  | _ => false

/-- a call that puts at most one record into an op log (snapshots, creates and translate entries
are atomic by construction) -/
def Emit.atomic : Emit → Bool
  | .logs _ rs => rs.length ≤ 1
  | .unlogged => false
  | _ => true

theorem unlogged_rowop (s s' : Sys) (op : AOp) (h : stepE s op = some (s', .unlogged)) : op.rowop = true := by
  cases op with
  | setrow _ _ _ => rfl
  | clearrow _ _ => rfl
  | fopen kind m => simp [stepE] at h
  | set i0 r c =>
    simp only [stepE, Option.bind_eq_some_iff] at h
    obtain ⟨f, hf, h⟩ := h
    split at h
    · cases h
    · simp at h
    · split at h
      · simp at h
      · split at h <;> simp at h
      · simp at h
  | clear i0 r c =>
    simp only [stepE, Option.bind_eq_some_iff] at h
    obtain ⟨f, hf, h⟩ := h
    split at h <;> simp at h
  | setval i0 col v =>
    simp only [stepE, Option.bind_eq_some_iff] at h
    obtain ⟨f, hf, h⟩ := h
    split at h <;> simp at h
  | imp i0 rows cols clear =>
    simp only [stepE, Option.bind_eq_some_iff] at h
    obtain ⟨f, hf, h⟩ := h
    split at h
    · cases h
    · simp at h
    · split at h
      · simp at h
      · split at h <;> simp at h
  | impval i0 cols vals =>
    simp only [stepE, Option.bind_eq_some_iff] at h
    obtain ⟨f, hf, h⟩ := h
    split at h
    · split at h <;> simp at h
    · cases h
  | roaring i0 vals clear size =>
    simp only [stepE, Option.bind_eq_some_iff] at h
    obtain ⟨f, hf, h⟩ := h
    split at h <;> simp at h
  | snap i0 =>
    simp only [stepE, Option.map_eq_some_iff] at h
    obtain ⟨f, hf, h⟩ := h
    simp at h
  | bg i0 =>
    simp only [stepE, Option.map_eq_some_iff] at h
    obtain ⟨f, hf, h⟩ := h
    split at h <;> simp at h
  | kopen => simp only [stepE] at h; split at h <;> simp at h
  | keys ks =>
    simp only [stepE] at h
    split at h
    · simp at h
    · split at h <;> simp at h

/-- The files are well formed after every history run from a good start; disk and memory agree when
they agreed at the start and the history holds no Store / ClearRow. -/
theorem good_execFrom (val : Bool) (sd : Sys × Disk) (g0 : Good val sd.1 sd.2) (ops : List AOp)
    (hv : val = true → ∀ op ∈ ops, op.rowop = false) :
    Good val (execFrom sd ops).1 (execFrom sd ops).2 := by
  unfold execFrom
  suffices H : ∀ (sd : Sys × Disk), Good val sd.1 sd.2 → Good val (ops.foldl exec sd).1 (ops.foldl exec sd).2 from
    H sd g0
  induction ops with
  | nil => intro sd g; exact g
  | cons op rest ih =>
    intro sd g
    simp only [List.foldl_cons]
    apply ih (fun h o ho => hv h o (by simp [ho]))
    unfold exec
    cases hs : stepE sd.1 op with
    | none => exact g
    | some r =>
      obtain ⟨s', e⟩ := r
      apply good_next val sd.1 s' sd.2 e g (stepE_shape sd.1 s' op e hs)
      intro h he
      subst he
      have := unlogged_rowop sd.1 s' op hs
      rw [hv h op (by simp)] at this
      cases this

/-- the start of every process generation 1: nothing in memory, nothing on disk -/
theorem good_empty (val : Bool) : Good val ({} : Sys) ([] : Disk) := good_init val

/-- FULL STRENGTH, every history: after a kill at any point of any call, every fragment and the
key translation log open again.  (Before the two repairs — one write per roaring record, one write
per translate entry — this failed: corpus/C09.) -/
theorem C09_restart_never_blocked (sd : Sys × Disk) (hg : Good false sd.1 sd.2) (pre : List AOp) (op : AOp) (s' : Sys) (e : Emit)
    (h : stepE (execFrom sd pre).1 op = some (s', e)) (j : Nat) (hj : j ≤ e.ops.length) :
    (∀ i, (recoverFrag ((execFrom sd pre).2.applyAll (e.ops.take j)) i).isSome = true) ∧
    (recoverKeys ((execFrom sd pre).2.applyAll (e.ops.take j))).isSome = true := by
  have g := good_execFrom false sd hg pre (fun h => by cases h)
  obtain ⟨a1, a2⟩ := prefix_recover false _ s' _ e g (stepE_shape _ s' op e h) j hj
  refine ⟨fun i => ?_, ?_⟩
  · obtain ⟨x, hx, _⟩ := a1 i; simp [hx]
  · obtain ⟨x, hx, _⟩ := a2; simp [hx]

example : ∃ s' e, stepE (execAll [.fopen .std 3, .set 0 1 3, .setrow 0 2 [1]]).1 (.roaring 0 [5, 6] false 30) = some (s', e) ∧
    e.ops.length = 1 := ⟨_, _, rfl, rfl⟩

/-- Every history without an unflushed Store / ClearRow, every call (including the multi-record
ones), every crash point j: fragment i holds exactly `expectBits` — the state before the call with
the first j records of the call applied, resp. the snapshot image once the rename has happened —
and the key map holds `expectKeys`. -/
theorem C09_prefix_replay (sd : Sys × Disk) (hg : Good true sd.1 sd.2) (pre : List AOp) (hpre : ∀ o ∈ pre, o.rowop = false) (op : AOp) (s' : Sys) (e : Emit)
    (h : stepE (execFrom sd pre).1 op = some (s', e)) (j : Nat) (hj : j ≤ e.ops.length) :
    (∀ i, recoverFrag ((execFrom sd pre).2.applyAll (e.ops.take j)) i = some (expectBits (execFrom sd pre).1 e j i)) ∧
    recoverKeys ((execFrom sd pre).2.applyAll (e.ops.take j)) = some (expectKeys (execFrom sd pre).1 e j) := by
  have g := good_execFrom true sd hg pre (fun _ => hpre)
  obtain ⟨a1, a2⟩ := prefix_recover true _ s' _ e g (stepE_shape _ s' op e h) j hj
  refine ⟨fun i => ?_, ?_⟩
  · obtain ⟨x, hx, hv⟩ := a1 i; rw [hx, hv rfl]
  · obtain ⟨x, hx, hv⟩ := a2; rw [hx, hv rfl]

/-- The property for every call that puts at most one record into an op log (`e.atomic`): at every
crash point every fragment holds the state before the call or the state after it, after all
operations of the call (when it may have been acknowledged) the state after it; same for the keys.
Excluded (see the witnesses): setValue, Set on a mutex field that clears another row, mutex import,
importValue (small path) with both a set and a clear batch — more than one record — and
Store / ClearRow, in `pre` or as `op`. -/
theorem C09_crash_safe_partial (sd : Sys × Disk) (hg : Good true sd.1 sd.2) (pre : List AOp) (hpre : ∀ o ∈ pre, o.rowop = false) (op : AOp) (s' : Sys) (e : Emit)
    (h : stepE (execFrom sd pre).1 op = some (s', e)) (ha : e.atomic = true) (j : Nat) (hj : j ≤ e.ops.length) :
    (∀ i, ∃ x, recoverFrag ((execFrom sd pre).2.applyAll (e.ops.take j)) i = some x ∧
        (x = (execFrom sd pre).1.bitsOf i ∨ x = s'.bitsOf i) ∧ (j = e.ops.length → x = s'.bitsOf i)) ∧
    (∃ m, recoverKeys ((execFrom sd pre).2.applyAll (e.ops.take j)) = some m ∧
        (m = (execFrom sd pre).1.keys ∨ m = s'.keys) ∧ (j = e.ops.length → m = s'.keys)) := by
  obtain ⟨a1, a2⟩ := C09_prefix_replay sd hg pre hpre op s' e h j hj
  have hs := stepE_shape _ s' op e h
  generalize (execFrom sd pre).1 = s at *
  cases e with
  | nothing =>
    obtain ⟨h1, h2, h3⟩ := hs
    refine ⟨fun i => ⟨_, a1 i, Or.inl rfl, fun _ => by simp [expectBits, Sys.bitsOf, h1]⟩,
            ⟨_, a2, Or.inl rfl, fun _ => by simp [expectKeys, h2]⟩⟩
  | unlogged => simp [Emit.atomic] at ha
  | logs i0 rs =>
    have hl : LogStep s s' i0 rs := hs
    have hlen : rs.length ≤ 1 := by simpa [Emit.atomic] using ha
    have hjl : j ≤ rs.length := by simpa [Emit.ops] using hj
    refine ⟨fun i => ⟨_, a1 i, ?_, ?_⟩, ⟨_, a2, Or.inl rfl, fun _ => by simp [expectKeys, hl.keys]⟩⟩
    · by_cases e : i = i0
      · subst e
        by_cases hj0 : j = 0
        · left; simp [expectBits, hj0, fold]
        · right
          have : rs.take j = rs := List.take_of_length_le (by omega)
          simp [expectBits, this, hl.bits]
      · left; simp [expectBits, e]
    · intro hje
      have hje' : j = rs.length := by simpa [Emit.ops] using hje
      by_cases e : i = i0
      · subst e; simp [expectBits, hje', hl.bits]
      · simp [expectBits, e, hl.toFrag.other i e]
  | snapshot i0 bits =>
    obtain ⟨hf, hb⟩ := hs
    refine ⟨fun i => ⟨_, a1 i, ?_, ?_⟩, ⟨_, a2, Or.inl rfl, fun _ => by simp [expectKeys, hf.keys]⟩⟩
    · by_cases e : i = i0 ∧ 3 ≤ j
      · right; obtain ⟨e1, e2⟩ := e; subst e1; simp [expectBits, e2, hb]
      · left; simp [expectBits, e]
    · intro hje
      have hje' : j = 3 := by simpa [Emit.ops] using hje
      by_cases e : i = i0
      · subst e; simp [expectBits, hje', hb]
      · simp [expectBits, e, hf.other i e]
  | fopen i0 =>
    obtain ⟨hi0, f0, hb0, hfr, hk, hko⟩ := hs
    refine ⟨fun i => ⟨_, a1 i, Or.inl rfl, fun _ => ?_⟩, ⟨_, a2, Or.inl rfl, fun _ => by simp [expectKeys, hk]⟩⟩
    simp only [expectBits]
    rcases Nat.lt_or_ge i s.frags.length with hi | hi
    · simp [Sys.bitsOf, hfr, List.getElem?_append_left hi]
    · rw [bitsOf_absent s i hi]
      by_cases e : i = i0
      · subst e; simp [Sys.bitsOf, hfr, hi0, hb0]
      · have : s'.frags.length ≤ i := by rw [hfr]; simp; omega
        rw [bitsOf_absent s' i this]
  | kcreate =>
    obtain ⟨hk0, hk1, hfr, hkk⟩ := hs
    refine ⟨fun i => ⟨_, a1 i, Or.inl rfl, fun _ => by simp [expectBits, Sys.bitsOf, hfr]⟩,
            ⟨_, a2, Or.inl rfl, fun _ => by simp [expectKeys, hkk]⟩⟩
  | kentry ps =>
    obtain ⟨hk0, hk1, hfr, hkk⟩ := hs
    refine ⟨fun i => ⟨_, a1 i, Or.inl rfl, fun _ => by simp [expectBits, Sys.bitsOf, hfr]⟩, ⟨_, a2, ?_, ?_⟩⟩
    · by_cases hj1 : 1 ≤ j
      · right; simp [expectKeys, hj1, hkk]
      · left; simp [expectKeys, hj1]
    · intro hje
      have : j = 1 := by simpa [Emit.ops] using hje
      simp [expectKeys, this, hkk]

/-- Snapshot (explicit, queued, or awaited by importValue): until the rename every fragment
recovers to its state before the call; after it the snapshotted fragment holds the image. -/
theorem C09_snapshot_atomic (sd : Sys × Disk) (hg : Good true sd.1 sd.2) (pre : List AOp) (hpre : ∀ o ∈ pre, o.rowop = false) (op : AOp) (s' : Sys)
    (i0 : Nat) (bits : List Nat) (h : stepE (execFrom sd pre).1 op = some (s', .snapshot i0 bits)) (j : Nat) (hj : j ≤ 3) :
    ∀ i, recoverFrag ((execFrom sd pre).2.applyAll ((Emit.snapshot i0 bits).ops.take j)) i =
      some (if i = i0 ∧ j = 3 then bits else (execFrom sd pre).1.bitsOf i) := by
  intro i
  rw [(C09_prefix_replay sd hg pre hpre op s' _ h j (by simpa [Emit.ops] using hj)).1 i]
  simp only [expectBits]
  by_cases e : i = i0 <;> by_cases e3 : j = 3 <;> simp [e, e3] <;> omega

/-- Files left by an interrupted snapshot are never looked at by recovery. -/
theorem C09_leftover_ignored (d : Disk) (i j : Nat) (cs : List Chunk) :
    recoverFrag (d.set (.snap j) cs) i = recoverFrag d i ∧ recoverKeys (d.set (.snap j) cs) = recoverKeys d :=
  ⟨recoverFrag_congr d _ i (get_set_ne _ _ _ _ (data_ne_snap i j)),
   recoverKeys_congr d _ (get_set_ne _ _ _ _ (keys_ne_snap j))⟩

/-- Leftover `.snapshotting` files of ANY content (e.g. longer than every later snapshot), left by a
kill in an earlier process generation or planted, keep the invariant: all theorems above apply to
the next generation with the leftovers in place. -/
theorem C09_leftover_keeps_good (val : Bool) (s : Sys) (d : Disk) (g : Good val s d) (j : Nat) (cs : List Chunk) :
    Good val s (d.set (.snap j) cs) := by
  refine ⟨?_, ?_, ?_, ?_⟩
  · intro i hi
    obtain ⟨b, c, x, h1, h2, h3⟩ := g.frag i hi
    exact ⟨b, c, x, by rw [get_set_ne _ _ _ _ (data_ne_snap i j)]; exact h1, h2, h3⟩
  · intro i hi; rw [get_set_ne _ _ _ _ (data_ne_snap i j)]; exact g.absent i hi
  · intro hk
    obtain ⟨c, x, h1, h2, h3⟩ := g.keysOn hk
    exact ⟨c, x, by rw [get_set_ne _ _ _ _ (keys_ne_snap j)]; exact h1, h2, h3⟩
  · intro hk
    obtain ⟨h1, h2⟩ := g.keysOff hk
    exact ⟨by rw [get_set_ne _ _ _ _ (keys_ne_snap j)]; exact h1, h2⟩

/-- A later snapshot over a leftover: the temp file is created-or-TRUNCATED, so whatever the disk
held (in particular a longer leftover `.snapshotting`), after the three operations the data file is
exactly the new image and no temp file remains. -/
theorem C09_snapshot_over_leftover (d : Disk) (i : Nat) (bits : List Nat) :
    (d.applyAll (Emit.snapshot i bits).ops).get (.data i) = some [.image bits] ∧
    (d.applyAll (Emit.snapshot i bits).ops).get (.snap i) = none := by
  simp only [Emit.ops, Disk.applyAll, List.foldl_cons, List.foldl_nil, Disk.apply, get_set_same, Option.getD,
    List.nil_append]
  refine ⟨trivial, ?_⟩
  rw [get_set_ne _ _ _ _ (fun h => by cases h)]
  exact get_del_same _ _

/-- Second generation: on any well-formed disk (whatever memory had before the kill), memory after
the restart agrees with the disk, so `C09_prefix_replay` / `C09_crash_safe_partial` hold for the
writes, snapshots and crash points of the next generation — with all leftovers in place. -/
theorem C09_second_generation (s : Sys) (d : Disk) (g : Good false s d) : Good true (restartSys s d) d := by
  have hlen : (restartSys s d).frags.length = s.frags.length := by simp [restartSys]
  refine ⟨?_, ?_, ?_, ?_⟩
  · rw [hlen]; intro i hi
    obtain ⟨b, cs, x, h1, h2, _⟩ := g.frag i hi
    refine ⟨b, cs, x, h1, h2, fun _ => ?_⟩
    simp [restartSys, Sys.bitsOf, List.getElem?_mapIdx, List.getElem?_eq_getElem hi, recoverFrag, h1, h2]
  · rw [hlen]; exact g.absent
  · intro hk
    obtain ⟨cs, x, h1, h2, _⟩ := g.keysOn hk
    exact ⟨cs, x, h1, h2, fun _ => by simp [restartSys, recoverKeys, h1, h2]⟩
  · intro hk
    obtain ⟨h1, _⟩ := g.keysOff hk
    exact ⟨h1, by simp [restartSys, recoverKeys, h1]⟩

/-- Key translation: at every crash point of a translate call the log replays to the map before the
call or to the map after it (every entry is one write), and after the call to the map after it —
every acknowledged batch is in the recovered map. -/
theorem C09_translate (sd : Sys × Disk) (hg : Good true sd.1 sd.2) (pre : List AOp) (hpre : ∀ o ∈ pre, o.rowop = false) (ks : List String) (s' : Sys) (e : Emit)
    (h : stepE (execFrom sd pre).1 (.keys ks) = some (s', e)) (j : Nat) (hj : j ≤ e.ops.length) :
    ∃ m, recoverKeys ((execFrom sd pre).2.applyAll (e.ops.take j)) = some m ∧
      (m = (execFrom sd pre).1.keys ∨ m = s'.keys) ∧ (j = e.ops.length → m = s'.keys) := by
  have ha : e.atomic = true := by
    simp only [stepE] at h
    split at h
    · cases h
    · split at h <;> (simp only [Option.some.injEq, Prod.mk.injEq] at h; obtain ⟨_, h2⟩ := h; subst h2; rfl)
  exact (C09_crash_safe_partial sd hg pre hpre (.keys ks) s' e h ha j hj).2

/-! ### witnesses: where the current code does not meet the property (driver-level `crashOk`) -/

/-- setValue 5 then 2 on column 7 (depth 3): killed after the first record of the second call the
column reads 4, a value never written. -/
theorem C09_inflight_setvalue_witness :
    crashOk (runAll [.fopen (.int 3) 100, .setval 0 7 5, .setval 0 7 2]) 8 = false := by decide

/-- Set(row 2) on a mutex column that holds row 1: killed between the clear and the set record the
column holds no row at all. -/
theorem C09_inflight_mutex_set_witness :
    crashOk (runAll [.fopen .mutex 100, .set 0 1 3, .set 0 2 3]) 4 = false := by decide

/-- mutex import of row 2 for a column that holds row 1: killed between the add batch and the
remove batch the column holds two rows. -/
theorem C09_inflight_mutex_import_witness :
    crashOk (runAll [.fopen .mutex 100, .set 0 1 3, .imp 0 [2, 2] [3, 4] false]) 4 = false := by decide

/-- importValue 5 then 2 (small path): killed between the add batch and the remove batch the
column reads 7. -/
theorem C09_inflight_importvalue_witness :
    crashOk (runAll [.fopen (.int 3) 100, .impval 0 [7] [5], .impval 0 [7] [2]]) 5 = false := by decide

/-- Store / ClearRow are acknowledged with nothing on disk: killed right after the acknowledgement
(before the queued snapshot) the row change is lost. -/
theorem C09_ack_rowop_not_durable_witness :
    crashOk (runAll [.fopen .std 100, .set 0 1 3, .setrow 0 1 [5]]) 3 = false ∧
    crashOk (runAll [.fopen .std 100, .set 0 1 3, .clearrow 0 1]) 3 = false := by decide

/-- the same histories are fine at the crash points that are not inside those calls -/
example : crashOk (runAll [.fopen (.int 3) 100, .setval 0 7 5, .setval 0 7 2]) 7 = true := by decide
example : crashOk (runAll [.fopen .std 100, .set 0 1 3, .setrow 0 1 [5], .bg 0]) 6 = true := by decide

end PV.C09
