/-
pm_c09: model driver for C09.  A case is one write history followed by `crash <k>` lines.
Call lines (answer: the file-system operations the call issues, then `ok` / `err`):
  fopen std|mutex|int:<depth> <maxOpN>     set <i> <r> <c>      clear <i> <r> <c>
  setval <i> <col> <v>                     imp <i> <rows csv> <cols csv> <0|1 clear>
  impval <i> <cols csv> <vals csv>         roaring <i> <vals csv> <0|1 clear> <payload bytes>
  setrow <i> <r> <cols csv>                clearrow <i> <r>     snap <i>     bg <i>
  kopen                                    keys <k1,k2,...>
 tokens: c:<p> create/truncate, w:<p>:<bytes> one write (w:s<i>:* = the buffered snapshot writes),
         r:<a>><b> rename; paths d<i> data file, s<i> .snapshotting, k translate log.
`restart <k>`: the process is killed right after operation k (clamped to the last one) and started
again on what is on disk, leftover `.snapshotting` files in place (a long one is planted where the
kill left none, plus `.copying` / `.temp` files); the answer is what the new process finds; the calls
and `crash` lines that follow belong to the new process generation.
`crash <k>`: what `Open` finds after a kill right after file-system operation k of the whole
history: `d0=[..] d1=… k=[key:id …]`, `err` in place of a value that does not open, `end` past the
last operation.  `#spec`: the same when it is one of the allowed states (Spec.lean), else
`<before>|<after>` / the required state.
-/
import PV.Common.Proto
import PV.C09.Model
import PV.C09.Spec
open PV.Proto PV.C09

def showPath : Path → String
  | .data i => s!"d{i}"
  | .snap i => s!"s{i}"
  | .keys => "k"

def showFs : FsOp → String
  | .create p => "c:" ++ showPath p
  | .write p c =>
      let sz := match p, c with
        | .snap _, _ => "*"
        | _, .image _ => "8"
        | _, .log r => toString r.size
        | _, .entry ps => toString (entrySize ps)
      "w:" ++ showPath p ++ ":" ++ sz
  | .rename a b => "r:" ++ showPath a ++ ">" ++ showPath b

def parseKind (s : String) : Option Kind :=
  if s = "std" then some .std
  else if s = "mutex" then some .mutex
  else match s.splitOn ":" with
    | ["int", d] => d.toNat?.map .int
    | _ => none

def parseBool (s : String) : Option Bool := if s = "1" then some true else if s = "0" then some false else none

def parseOp (ws : List String) : Option AOp :=
  match ws with
  | ["fopen", k, m] => do pure (.fopen (← parseKind k) (← m.toNat?))
  | ["set", i, r, c] => do pure (.set (← i.toNat?) (← r.toNat?) (← c.toNat?))
  | ["clear", i, r, c] => do pure (.clear (← i.toNat?) (← r.toNat?) (← c.toNat?))
  | ["setval", i, c, v] => do pure (.setval (← i.toNat?) (← c.toNat?) (← v.toInt?))
  | ["imp", i, rs, cs, cl] => do pure (.imp (← i.toNat?) (← csvNats? rs) (← csvNats? cs) (← parseBool cl))
  | ["impval", i, cs, vs] => do pure (.impval (← i.toNat?) (← csvNats? cs) (← csvInts? vs))
  | ["roaring", i, vs, cl, sz] => do pure (.roaring (← i.toNat?) (← csvNats? vs) (← parseBool cl) (← sz.toNat?))
  | ["setrow", i, r, cs] => do pure (.setrow (← i.toNat?) (← r.toNat?) (← csvNats? cs))
  | ["clearrow", i, r] => do pure (.clearrow (← i.toNat?) (← r.toNat?))
  | ["snap", i] => i.toNat?.map .snap
  | ["bg", i] => i.toNat?.map .bg
  | ["kopen"] => some .kopen
  | ["keys", ks] => some (.keys (if ks = "-" then [] else ks.splitOn ","))
  | _ => none

def showKeys (m : List (String × Nat)) : String :=
  "[" ++ " ".intercalate (m.map (fun kv => kv.1 ++ ":" ++ toString kv.2)) ++ "]"

def orStates {α : Type} (sh : α → String) (l : List α) : String := "|".intercalate (l.map sh)

def dedupStr (l : List String) : List String := l.eraseDups

/-- which kind of call is responsible when the crash state is not allowed -/
def tagOf (r : Run) (k : Nat) : String :=
  let rowopPending := r.marks.any (fun m => m.stop ≤ k &&
    (match m.op with | .setrow _ _ _ | .clearrow _ _ => true | _ => false))
  match inFlight r.marks k with
  | some m =>
      (match m.op with
       | .setval _ _ _ => "inflight-setvalue"
       | .set _ _ _ => "inflight-mutex-set"
       | .imp _ _ _ _ => "inflight-mutex-import"
       | .impval _ _ _ => "inflight-importvalue"
       | .bg _ | .snap _ => if rowopPending then "ack-rowop-not-durable" else "inflight-snapshot"
       | _ => "inflight-other")
  | none => if rowopPending then "ack-rowop-not-durable" else "ack-lost"

def crashLine (r : Run) (k : Nat) : Ans :=
  if k > r.trace.length then ans "end" else
  let d := r.crashDisk k
  let n := r.sys.frags.length
  let model := (List.range n).map (fun i =>
    s!"d{i}=" ++ (match recoverFrag d i with | none => "err" | some b => showNats b))
  let spec := (List.range n).map (fun i =>
    let al := allowedBits r.start r.marks k i
    s!"d{i}=" ++ (match recoverFrag d i with
      | some b => if al.contains b then showNats b else "|".intercalate (dedupStr (al.map showNats))
      | none => "|".intercalate (dedupStr (al.map showNats))))
  let km := "k=" ++ (match recoverKeys d with | none => "err" | some m => showKeys m)
  let ks := "k=" ++ (let al := allowedKeys r.start r.marks k
    match recoverKeys d with
    | some m => if al.contains m then showKeys m else "|".intercalate (dedupStr (al.map showKeys))
    | none => "|".intercalate (dedupStr (al.map showKeys)))
  ans2 (" ".intercalate (model ++ [km])) (" ".intercalate (spec ++ [ks])) (tagOf r k)

def step (r : Run) (ws : List String) : Run × Ans :=
  match ws with
  | ["crash", k] => (match k.toNat? with | some k => (r, crashLine r k) | none => (r, ans "bad-op"))
  | ["restart", k] =>
      (match k.toNat? with
       | some k => let k' := min k r.trace.length
                   (r.restart k', crashLine r k')
       | none => (r, ans "bad-op"))
  | _ =>
    match parseOp ws with
    | none => (r, ans "bad-op")
    | some op =>
      match PV.C09.step r.sys op with
      | none => (r, ans "bad-ref")
      | some (s', ops) =>
        (r.exec op, ans (" ".intercalate (ops.map showFs ++ [if s'.err then "err" else "ok"])))

def main : IO Unit := run ({} : Run) step
