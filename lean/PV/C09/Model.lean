/-
C09 model: what the write paths put on disk, call by call, and what the open path makes of any
prefix of it.  Core Lean only.

  fragment.go   openStorage (create + initial image), setBit / clearBit (+ handleMutex),
                setValueBase (one log record per bit), importPositions (AddN then RemoveN),
                bulkImportMutex, importValue (small path = importPositions, large path = no log +
                snapshot awaited), importRoaring, setRow / clearRow (no log, snapshot only enqueued),
                incrementOpN / enqueueSnapshot (pending), snapshot = unprotectedWriteToFragment
                (create .snapshotting, buffered writes, rename)
  roaring.go    Bitmap.Add/Remove (log record written even when nothing changes), AddN/RemoveN (batch
                record of the changed values), ImportRoaringBits (one record: header+data, ONE write
                after the fix), op sizes 13 / 13+8n / 17+len
  translate.go  TranslateFile.Open (create), appendEntry (one entry = ONE write after the fix)

A file is the list of chunks written to it, one chunk per `write` system call; the byte codecs are
C04/C05's subject.  The snapshot temp file's buffered writes are one model `write` (the harness
collapses them); nothing reads that file before the rename.
-/
namespace PV.C09

def shardWidth : Nat := 1048576

/-! ### value sets (ascending, duplicate free) -/

def vinsert (x : Nat) : List Nat → List Nat
  | [] => [x]
  | y :: ys => if x < y then x :: y :: ys else if x = y then y :: ys else y :: vinsert x ys

def verase (x : Nat) (l : List Nat) : List Nat := l.filter (· != x)
def vaddAll (s : List Nat) (xs : List Nat) : List Nat := xs.foldl (fun acc x => vinsert x acc) s
def vdelAll (s : List Nat) (xs : List Nat) : List Nat := xs.foldl (fun acc x => verase x acc) s

/-! ### files -/

/-- one record of the op log -/
inductive Rec where
  | add (v : Nat)
  | remove (v : Nat)
  | addBatch (vs : List Nat)
  | removeBatch (vs : List Nat)
  | addRoaring (vs : List Nat) (size : Nat)      -- size = length of the roaring payload in bytes
  | removeRoaring (vs : List Nat) (size : Nat)
deriving DecidableEq, Repr, Inhabited

def Rec.apply (s : List Nat) : Rec → List Nat
  | .add v => vinsert v s
  | .remove v => verase v s
  | .addBatch vs => vaddAll s vs
  | .removeBatch vs => vdelAll s vs
  | .addRoaring vs _ => vaddAll s vs
  | .removeRoaring vs _ => vdelAll s vs

def Rec.size : Rec → Nat
  | .add _ | .remove _ => 13
  | .addBatch vs | .removeBatch vs => 13 + 8 * vs.length
  | .addRoaring _ n | .removeRoaring _ n => 17 + n

/-- what one `write` call appends to a file -/
inductive Chunk where
  | image (bits : List Nat)                       -- a serialised bitmap (snapshot body / initial file)
  | log (r : Rec)                                 -- one complete op-log record
  | entry (pairs : List (String × Nat))           -- one translate log entry: key/id pairs
deriving DecidableEq, Repr, Inhabited

inductive Path where
  | data (i : Nat)        -- fragment i's data file
  | snap (i : Nat)        -- fragment i's `.snapshotting` file
  | keys                  -- the translate log
deriving DecidableEq, Repr, Inhabited

inductive FsOp where
  | create (p : Path)                  -- create empty / truncate
  | write (p : Path) (c : Chunk)
  | rename (a b : Path)
deriving DecidableEq, Repr, Inhabited

abbrev Disk := List (Path × List Chunk)

def Disk.get (d : Disk) (p : Path) : Option (List Chunk) :=
  match d with
  | [] => none
  | (q, cs) :: rest => if q = p then some cs else Disk.get rest p

def Disk.set (d : Disk) (p : Path) (cs : List Chunk) : Disk :=
  match d with
  | [] => [(p, cs)]
  | (q, c0) :: rest => if q = p then (p, cs) :: rest else (q, c0) :: Disk.set rest p cs

def Disk.del (d : Disk) (p : Path) : Disk := d.filter (fun e => e.1 != p)

def Disk.apply (d : Disk) : FsOp → Disk
  | .create p => d.set p []
  | .write p c => d.set p ((d.get p).getD [] ++ [c])
  | .rename a b => match d.get a with
      | some cs => (d.del a).set b cs
      | none => d

def Disk.applyAll (d : Disk) (ops : List FsOp) : Disk := ops.foldl Disk.apply d

/-- The state a process killed after `k` file-system operations leaves behind. -/
def crashAt (trace : List FsOp) (k : Nat) : Disk := Disk.applyAll [] (trace.take k)

/-! ### recovery = the open path -/

/-- replay of the op log; `none` = `unmarshalPilosaRoaring` returns an error (fragment does not open) -/
def replay (s : List Nat) : List Chunk → Option (List Nat)
  | [] => some s
  | .log r :: rest => replay (r.apply s) rest
  | _ :: _ => none

/-- `fragment.Open` on what is on disk.  No file / empty file: the fragment starts empty
(openStorage writes the initial image).  `.snapshotting` files are never looked at. -/
def recoverFrag (d : Disk) (i : Nat) : Option (List Nat) :=
  match d.get (.data i) with
  | none => some []
  | some [] => some []
  | some (.image b :: rest) => replay b rest
  | some (_ :: _) => none

/-- insert a key/id pair unless the key is already known -/
def keyAdd (m : List (String × Nat)) (kv : String × Nat) : List (String × Nat) :=
  if (m.map (·.1)).contains kv.1 then m else m ++ [kv]

/-- `TranslateFile.replayEntries`: key ↦ id, in log order -/
def replayKeysFrom (m : List (String × Nat)) : List Chunk → Option (List (String × Nat))
  | [] => some m
  | .entry ps :: rest => replayKeysFrom (ps.foldl keyAdd m) rest
  | _ :: _ => none

def replayKeys (cs : List Chunk) : Option (List (String × Nat)) := replayKeysFrom [] cs

def recoverKeys (d : Disk) : Option (List (String × Nat)) :=
  match d.get .keys with
  | none => some []
  | some cs => replayKeys cs

/-! ### the write paths -/

inductive Kind where
  | std
  | mutex
  | int (depth : Nat)
deriving DecidableEq, Repr, Inhabited

structure Frag where
  kind : Kind
  bits : List Nat           -- in-memory storage
  opN : Nat
  maxOpN : Nat
  pending : Bool            -- a snapshot has been requested and has not run yet
deriving Repr, Inhabited

structure Sys where
  frags : List Frag := []
  keys : List (String × Nat) := []     -- in-memory translate map (one index, columns)
  keysOpen : Bool := false
  err : Bool := false                  -- the last call returned an error to the client
deriving Repr, Inhabited

def pos (r c : Nat) : Nat := r * shardWidth + c % shardWidth

/-- `incrementOpN` -/
def Frag.incr (f : Frag) (changed : Nat) : Frag :=
  if changed = 0 then f
  else
    let n := f.opN + changed
    { f with opN := n, pending := f.pending || decide (n > f.maxOpN) }

/-- `storage.Add(p)` + the bookkeeping of `unprotectedSetBit`: the record is written first and
unconditionally, the bit is applied, opN moves only when it changed. -/
def Frag.addBit (f : Frag) (p : Nat) : Frag × List Rec :=
  let changed := !f.bits.contains p
  let f1 := { f with bits := vinsert p f.bits }
  ((if changed then f1.incr 1 else f1), [.add p])

def Frag.removeBit (f : Frag) (p : Nat) : Frag × List Rec :=
  let changed := f.bits.contains p
  let f1 := { f with bits := verase p f.bits }
  ((if changed then f1.incr 1 else f1), [.remove p])

/-- rows that hold column `c` (mutex vector `Get`) -/
def rowsOf (bits : List Nat) (c : Nat) : List Nat :=
  (bits.filter (fun p => p % shardWidth = c % shardWidth)).map (· / shardWidth)

/-- `importPositions`: AddN(set) then RemoveN(clear); a batch record holds the changed values
only; each is written when its input list is non-empty. -/
def Frag.importPositions (f : Frag) (set clear : List Nat) : Frag × List Rec :=
  let r1 : Frag × List Rec :=
    if set = [] then (f, [])
    else
      let ch := (set.eraseDups).filter (fun p => !f.bits.contains p)
      (({ f with bits := vaddAll f.bits ch }).incr ch.length, [.addBatch ch])
  let f1 := r1.1
  let r2 : Frag × List Rec :=
    if clear = [] then (f1, [])
    else
      let ch := (clear.eraseDups).filter (fun p => f1.bits.contains p)
      (({ f1 with bits := vdelAll f1.bits ch }).incr ch.length, [.removeBatch ch])
  (r2.1, r1.2 ++ r2.2)

/-- bits of an integer value: (positions to set, positions to clear), `positionsForValue` order:
exists, sign, then the value bits -/
def valuePositions (col depth : Nat) (v : Int) : List Nat × List Nat :=
  let u := v.natAbs
  let ex := pos 0 col
  let sg := pos 1 col
  let bitsSet := (List.range depth).filter (fun b => u / 2 ^ b % 2 = 1)
  let bitsClr := (List.range depth).filter (fun b => u / 2 ^ b % 2 = 0)
  ([ex] ++ (if v < 0 then [sg] else []) ++ bitsSet.map (fun b => pos (2 + b) col),
   (if v < 0 then [] else [sg]) ++ bitsClr.map (fun b => pos (2 + b) col))

/-- snapshot: the three file-system steps of `unprotectedWriteToFragment` (a queued request
stays queued: only the queue worker, `bg`, and the awaited snapshot of importValue clear it) -/
def Frag.snapshot (f : Frag) : Frag := { f with opN := 0 }

/-- what a call puts on disk -/
inductive Emit where
  | nothing                                  -- no file-system operation, no change of state
  | unlogged                                 -- state changed in memory only (setRow / clearRow)
  | logs (i : Nat) (rs : List Rec)           -- records appended to fragment i's op log, one write each
  | snapshot (i : Nat) (bits : List Nat)     -- create .snapshotting, write it, rename over the data file
  | fopen (i : Nat)                          -- create the data file, write the empty image
  | kcreate                                  -- create the translate log
  | kentry (ps : List (String × Nat))        -- one translate entry, one write
deriving Repr, Inhabited

def Emit.ops : Emit → List FsOp
  | .nothing | .unlogged => []
  | .logs i rs => rs.map (fun r => .write (.data i) (.log r))
  | .snapshot i bits => [.create (.snap i), .write (.snap i) (.image bits), .rename (.snap i) (.data i)]
  | .fopen i => [.create (.data i), .write (.data i) (.image [])]
  | .kcreate => [.create .keys]
  | .kentry ps => [.write .keys (.entry ps)]

inductive AOp where
  | fopen (kind : Kind) (maxOpN : Nat)
  | set (i r c : Nat)
  | clear (i r c : Nat)
  | setval (i col : Nat) (v : Int)
  | imp (i : Nat) (rows cols : List Nat) (clear : Bool)
  | impval (i : Nat) (cols : List Nat) (vals : List Int)
  | roaring (i : Nat) (vals : List Nat) (clear : Bool) (size : Nat)
  | setrow (i r : Nat) (cols : List Nat)
  | clearrow (i r : Nat)
  | snap (i : Nat)
  | bg (i : Nat)                 -- the queue worker runs the pending snapshot (not an API call)
  | kopen
  | keys (ks : List String)
deriving Repr, Inhabited

def listSet {α : Type} (l : List α) (i : Nat) (v : α) : List α := l.mapIdx (fun j x => if j = i then v else x)

/-- sequence of single-bit writes threaded through a fragment -/
def Frag.bitSeq (f : Frag) : List (Bool × Nat) → Frag × List Rec
  | [] => (f, [])
  | (isSet, p) :: rest =>
      let r := if isSet then f.addBit p else f.removeBit p
      let r2 := r.1.bitSeq rest
      (r2.1, r.2 ++ r2.2)

def uvarintSize (x : Nat) : Nat := if x < 128 then 1 else if x < 16384 then 2 else if x < 2097152 then 3 else 4

/-- bytes of a translate entry for index "i" (type, index, empty field, count, id/key pairs),
including its own length prefix -/
def entrySize (ps : List (String × Nat)) : Nat :=
  let body := 1 + (1 + 1) + 1 + uvarintSize ps.length +
    (ps.map (fun kv => uvarintSize kv.2 + uvarintSize kv.1.utf8ByteSize + kv.1.utf8ByteSize)).foldl (· + ·) 0
  uvarintSize body + body

/-- ids for the keys of one call that are not known yet: a key repeated in the call gets one id
but is listed again (as `TranslateColumnsToUint64` does) -/
def assignIds (known : List (String × Nat)) (ks : List String) : List (String × Nat) :=
  (ks.foldl (fun (acc : List (String × Nat) × List (String × Nat)) k =>
    match acc.1.find? (fun kv => kv.1 = k) with
    | some kv => (acc.1, acc.2 ++ [kv])
    | none => let id := known.length + acc.1.length + 1
              (acc.1 ++ [(k, id)], acc.2 ++ [(k, id)])) ([], [])).2

/-- One call: new state and what it puts on disk.  `none`: the call refers to a fragment that
does not exist / has the wrong kind (answered `bad-ref`). -/
def stepE (s0 : Sys) (op : AOp) : Option (Sys × Emit) :=
  let s := { s0 with err := false }
  let upd := fun (i : Nat) (r : Frag × List Rec) => ({ s with frags := listSet s.frags i r.1 }, Emit.logs i r.2)
  match op with
  | .fopen kind maxOpN =>
      some ({ s with frags := s.frags ++ [⟨kind, [], 0, maxOpN, false⟩] }, .fopen s.frags.length)
  | .set i r c =>
      (s.frags[i]?).bind (fun f =>
        match f.kind with
        | .int _ => none
        | .std => some (upd i (f.addBit (pos r c)))
        | .mutex =>
            match rowsOf f.bits c with
            | [] => some (upd i (f.addBit (pos r c)))
            | [r0] =>
                if r0 = r then some (upd i (f.addBit (pos r c)))
                else some (upd i (f.bitSeq [(false, pos r0 c), (true, pos r c)]))
            | _ => some ({ s with err := true }, .nothing))   -- "found multiple row values for column"
  | .clear i r c =>
      (s.frags[i]?).bind (fun f =>
        match f.kind with
        | .int _ => none
        | _ => some (upd i (f.removeBit (pos r c))))
  | .setval i col v =>
      (s.frags[i]?).bind (fun f =>
        match f.kind with
        | .int depth =>
            let u := v.natAbs
            let seq := (List.range depth).map (fun b => (decide (u / 2 ^ b % 2 = 1), pos (2 + b) col)) ++
                       [(true, pos 0 col), (decide (v < 0), pos 1 col)]
            some (upd i (f.bitSeq seq))
        | _ => none)
  | .imp i rows cols clear =>
      (s.frags[i]?).bind (fun f =>
        match f.kind with
        | .int _ => none
        | .std =>
            let ps := (rows.zip cols).map (fun rc => pos rc.1 rc.2)
            some (upd i (if clear then f.importPositions [] ps else f.importPositions ps []))
        | .mutex =>
            if clear then
              some (upd i (f.importPositions [] ((rows.zip cols).map (fun rc => pos rc.1 rc.2))))
            else
              -- bulkImportMutex (as repaired on main): the last row given for a column wins; a column
              -- that already holds that row is skipped, another existing row is cleared
              let pairs := rows.zip cols
              let colsD := (pairs.map (·.2 % shardWidth)).eraseDups
              let want := colsD.filterMap (fun c => (pairs.reverse.find? (fun rc => rc.2 % shardWidth = c)).map (fun rc => (rc.1, c)))
              let bad := want.any (fun rc => (rowsOf f.bits rc.2).length > 1)
              if bad then some ({ s with err := true }, .nothing)
              else
                let live := want.filter (fun rc => rowsOf f.bits rc.2 != [rc.1])
                let toSet := live.map (fun rc => pos rc.1 rc.2)
                let toClear := live.filterMap (fun rc =>
                  match rowsOf f.bits rc.2 with
                  | [r0] => some (pos r0 rc.2)
                  | _ => none)
                some (upd i (f.importPositions toSet toClear)))
  | .impval i cols vals =>
      (s.frags[i]?).bind (fun f =>
        match f.kind with
        | .int depth =>
            if cols.length * (depth + 1) + f.opN < f.maxOpN then
              -- small write: last value per column, positions, one importPositions
              let pairs := (cols.zip vals).reverse
              let seen := pairs.foldl (fun (acc : List Nat × List (Nat × Int)) cv =>
                if acc.1.contains cv.1 then acc else (cv.1 :: acc.1, acc.2 ++ [cv])) ([], [])
              let sc := seen.2.foldl (fun (acc : List Nat × List Nat) cv =>
                let p := valuePositions cv.1 depth cv.2
                (acc.1 ++ p.1, acc.2 ++ p.2)) ([], [])
              some (upd i (f.importPositions sc.1 sc.2))
            else
              -- large write: op log off, every value applied in order, snapshot awaited
              let bits := (cols.zip vals).foldl (fun acc cv =>
                let p := valuePositions cv.1 depth cv.2
                vdelAll (vaddAll acc p.1) p.2) f.bits
              some ({ s with frags := listSet s.frags i { ({ f with bits := bits }).snapshot with pending := false } },
                    .snapshot i bits)
        | _ => none)
  | .roaring i vals clear size =>
      (s.frags[i]?).bind (fun f =>
        match f.kind with
        | .int _ => none
        | _ =>
            let ch := if clear then (vals.eraseDups).filter (fun p => f.bits.contains p)
                      else (vals.eraseDups).filter (fun p => !f.bits.contains p)
            let f1 := { f with bits := if clear then vdelAll f.bits vals else vaddAll f.bits vals }
            some (upd i (f1.incr ch.length, [if clear then .removeRoaring vals size else .addRoaring vals size])))
  | .setrow i r cols =>
      (s.frags[i]?).bind (fun f =>
        match f.kind with
        | .int _ => none
        | _ =>
            let kept := f.bits.filter (fun p => p / shardWidth != r)
            let f1 := { f with bits := vaddAll kept (cols.map (fun c => pos r c)), pending := true }
            some ({ s with frags := listSet s.frags i f1 }, .unlogged))
  | .clearrow i r =>
      (s.frags[i]?).bind (fun f =>
        match f.kind with
        | .int _ => none
        | _ =>
            let f1 := { f with bits := f.bits.filter (fun p => p / shardWidth != r), pending := true }
            some ({ s with frags := listSet s.frags i f1 }, .unlogged))
  | .snap i =>
      (s.frags[i]?).map (fun f => ({ s with frags := listSet s.frags i f.snapshot }, .snapshot i f.bits))
  | .bg i =>
      (s.frags[i]?).map (fun f =>
        if f.pending then ({ s with frags := listSet s.frags i { f.snapshot with pending := false } }, .snapshot i f.bits)
        else (s, .nothing))
  | .kopen => if s.keysOpen then none else some ({ s with keysOpen := true }, .kcreate)
  | .keys ks =>
      if !s.keysOpen then none
      else
        let missing := ks.filter (fun k => !(s.keys.map (·.1)).contains k)
        if missing = [] then some (s, .nothing)
        else
          let ps := assignIds s.keys missing
          some ({ s with keys := ps.foldl keyAdd s.keys }, .kentry ps)

/-- One call: new state and the file-system operations it issues, in order. -/
def step (s : Sys) (op : AOp) : Option (Sys × List FsOp) :=
  (stepE s op).map (fun r => (r.1, r.2.ops))

/-- Is the call an API call that is acknowledged to a client (`bg` is the queue worker)? -/
def AOp.acked : AOp → Bool
  | .bg _ => false
  | _ => true

end PV.C09
