/-
C09 spec: what a restart after a process kill must find.

A history is run call by call; every call owns a contiguous range [start, stop) of the
file-system operation trace and is acknowledged after its last operation.  A kill "right after
file-system operation k" leaves `crashAt trace k`.  The property demands of `recover (crashAt k)`:
  * it succeeds;
  * k strictly inside the range of call j: every fragment (= shard of a view) holds the state
    before call j or the state after it — none or all of the write in flight;
  * otherwise (k on a call boundary): every call whose range ends at or before k may already have
    been acknowledged, so every fragment holds exactly the state after the last such call;
  * the same for the key translation map.
Core Lean only.
-/
import PV.C09.Model
namespace PV.C09

/-- one executed call -/
structure Mark where
  op : AOp
  start : Nat
  stop : Nat
  before : Sys
  after : Sys
deriving Inhabited

structure Run where
  sys : Sys := {}
  trace : List FsOp := []
  marks : List Mark := []
deriving Inhabited

/-- execute one call (a call that refers to nothing is skipped) -/
def Run.exec (r : Run) (op : AOp) : Run :=
  match step r.sys op with
  | none => r
  | some (s', ops) =>
      { sys := s', trace := r.trace ++ ops,
        marks := r.marks ++ [⟨op, r.trace.length, r.trace.length + ops.length, r.sys, s'⟩] }

def runAll (ops : List AOp) : Run := ops.foldl Run.exec {}

def Sys.bitsOf (s : Sys) (i : Nat) : List Nat := ((s.frags[i]?).map (·.bits)).getD []

/-- the call in flight at crash point k, if any -/
def inFlight (marks : List Mark) (k : Nat) : Option Mark :=
  marks.find? (fun m => m.start < k && k < m.stop)

/-- the last call completed at crash point k -/
def lastDone (marks : List Mark) (k : Nat) : Option Mark :=
  (marks.filter (fun m => m.stop ≤ k)).getLast?

/-- states fragment `i` may be found in after a kill at k -/
def allowedBits (marks : List Mark) (k i : Nat) : List (List Nat) :=
  match inFlight marks k with
  | some m => [m.before.bitsOf i, m.after.bitsOf i]
  | none => match lastDone marks k with
      | some m => [m.after.bitsOf i]
      | none => [[]]

def allowedKeys (marks : List Mark) (k : Nat) : List (List (String × Nat)) :=
  match inFlight marks k with
  | some m => [m.before.keys, m.after.keys]
  | none => match lastDone marks k with
      | some m => [m.after.keys]
      | none => [[]]

/-- Does the crash state at k meet the property? -/
def crashOk (r : Run) (k : Nat) : Bool :=
  let d := crashAt r.trace k
  (List.range r.sys.frags.length).all (fun i =>
    match recoverFrag d i with
    | none => false
    | some b => (allowedBits r.marks k i).contains b) &&
  (match recoverKeys d with
   | none => false
   | some m => (allowedKeys r.marks k).contains m)

end PV.C09
