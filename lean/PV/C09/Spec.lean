/-
C09 spec: what a restart after a process kill must find.

A history is run call by call; every call owns a contiguous range [start, stop) of the
file-system operation trace and is acknowledged after its last operation.  A kill "right after
file-system operation k" leaves `crashAt trace k`.  The property demands of `recover (crashAt k)`:
  * it succeeds;
  * k strictly inside the range of call j: every fragment (= shard of a view) holds the state
    before call j or the state after it — none or all of the write in flight;
  * otherwise (k on a call boundary): every call whose range ends at or before k may already have
    been acknowledged, so every fragment holds exactly the state after the last such call;
  * the same for the key translation map.
Core Lean only.
-/
import PV.C09.Model
namespace PV.C09

/-- one executed call -/
structure Mark where
  op : AOp
  start : Nat
  stop : Nat
  before : Sys
  after : Sys
deriving Inhabited

structure Run where
  sys : Sys := {}
  start : Sys := {}            -- memory of the current process generation when it started
  base : Disk := []            -- what the current process generation found on disk when it started
  trace : List FsOp := []      -- file-system operations of the current generation
  marks : List Mark := []
deriving Inhabited

/-- the disk after a kill right after operation k of the current generation -/
def Run.crashDisk (r : Run) (k : Nat) : Disk := Disk.applyAll r.base (r.trace.take k)

/-- execute one call (a call that refers to nothing is skipped) -/
def Run.exec (r : Run) (op : AOp) : Run :=
  match step r.sys op with
  | none => r
  | some (s', ops) =>
      { sys := s', start := r.start, base := r.base, trace := r.trace ++ ops,
        marks := r.marks ++ [⟨op, r.trace.length, r.trace.length + ops.length, r.sys, s'⟩] }

def runAll (ops : List AOp) : Run := ops.foldl Run.exec {}

def Sys.bitsOf (s : Sys) (i : Nat) : List Nat := ((s.frags[i]?).map (·.bits)).getD []

/-- the call in flight at crash point k, if any -/
def inFlight (marks : List Mark) (k : Nat) : Option Mark :=
  marks.find? (fun m => m.start < k && k < m.stop)

/-- the last call completed at crash point k -/
def lastDone (marks : List Mark) (k : Nat) : Option Mark :=
  (marks.filter (fun m => m.stop ≤ k)).getLast?

/-- states fragment `i` may be found in after a kill at k -/
def allowedBits (start : Sys) (marks : List Mark) (k i : Nat) : List (List Nat) :=
  match inFlight marks k with
  | some m => [m.before.bitsOf i, m.after.bitsOf i]
  | none => match lastDone marks k with
      | some m => [m.after.bitsOf i]
      | none => [start.bitsOf i]

def allowedKeys (start : Sys) (marks : List Mark) (k : Nat) : List (List (String × Nat)) :=
  match inFlight marks k with
  | some m => [m.before.keys, m.after.keys]
  | none => match lastDone marks k with
      | some m => [m.after.keys]
      | none => [start.keys]

/-- Does the crash state at k meet the property? -/
def crashOk (r : Run) (k : Nat) : Bool :=
  let d := r.crashDisk k
  (List.range r.sys.frags.length).all (fun i =>
    match recoverFrag d i with
    | none => false
    | some b => (allowedBits r.start r.marks k i).contains b) &&
  (match recoverKeys d with
   | none => false
   | some m => (allowedKeys r.start r.marks k).contains m)

/-- The next process generation starts from what it recovers: its memory is the replayed disk. -/
def restartSys (s : Sys) (d : Disk) : Sys :=
  { frags := s.frags.mapIdx (fun i f => { f with bits := (recoverFrag d i).getD [], opN := 0, pending := false }),
    keys := (recoverKeys d).getD [], keysOpen := s.keysOpen }

/-- Kill after operation k (clamped), restart: the new generation reopens every fragment and the
translate log on the crash state; leftover `.snapshotting` files stay where they are and every
fragment without one gets a long leftover planted (content irrelevant: never read, truncated by the
next snapshot); MaxOpN is raised so that only explicit and Store/ClearRow snapshots happen. -/
def Run.restart (r : Run) (k : Nat) : Run :=
  let d := r.crashDisk (min k r.trace.length)
  let s := restartSys r.sys d
  let s := { s with frags := s.frags.map (fun f => { f with maxOpN := 1000000 }) }
  let planted := (List.range s.frags.length).foldl (fun (d : Disk) i =>
    match d.get (.snap i) with
    | some _ => d
    | none => d.set (.snap i) [.log (.add 0), .log (.add 0)]) d
  { sys := s, start := s, base := planted, trace := [], marks := [] }

end PV.C09
